"""Differential test of coq/Heap.v (libstdc++'s std::priority_queue, modelled literally) against the real library.

`run_heap(ctx, n_seq)`: random operation sequences (push key id / pop) with MANY exact key ties, heap sizes 0..200, are run
 (a) on std::priority_queue<parsing::cell_item> with the repository's operator< (keys = in_score, out_score 0, id in `cat`) and
 (b) on std::priority_queue<std::pair<float, unsigned>> (the per-word tag heaps `scored_cats`, lexicographic order)
by harness/heap_driver.cpp (compiled on every run against <repo>/depccg/parsing.h into work/), and the ids in pop order AND the
final underlying vector are compared exactly with `Heap.run_ops` inside coqc.  Returns the number of mismatching sequences."""
import os, subprocess
import env
from gallina import gnat, gZ

HERE = os.path.dirname(os.path.abspath(__file__))

PRE = '''From Coq Require Import List ZArith Bool Arith.
Import ListNotations.
Require Import AStarImpl Heap.
Open Scope Z_scope.
Definition E (k : Z) (i : nat) : option (Z * nat) := Some (k, i).
Definition O_ : option (Z * nat) := None.
Definition lt_item (a b : Z * nat) : bool := fst a <? fst b.        (* parsing::operator<: score() only *)
Definition nats_eqb (a b : list nat) : bool := (length a =? length b)%nat && forallb (fun xy => Nat.eqb (fst xy) (snd xy)) (combine a b).
Definition pairs_eqb (a b : list (Z * nat)) : bool :=
  (length a =? length b)%nat && forallb (fun xy => Z.eqb (fst (fst xy)) (fst (snd xy)) && Nat.eqb (snd (fst xy)) (snd (snd xy))) (combine a b).
Definition hcase0 (ops : list (option (Z * nat))) (pops final : list nat) : bool :=
  let '(out, v, uf) := run_ops lt_item ops [] [] 0%nat in (uf =? 0)%nat && nats_eqb (map snd out) pops && nats_eqb (map snd v) final.
Definition hcase1 (ops : list (option (Z * nat))) (pops final : list (Z * nat)) : bool :=
  let '(out, v, uf) := run_ops pair_ltb ops [] [] 0%nat in (uf =? 0)%nat && pairs_eqb out pops && pairs_eqb v final.
'''


def build_driver(ctx):
    out = os.path.join(ctx.work, 'heap_driver')
    cmd = ['g++', '-std=c++11', '-O1', '-I' + env.REPO, '-include', 'climits', os.path.join(HERE, 'heap_driver.cpp'), '-o', out]
    p = subprocess.run(cmd, capture_output=True, text=True, timeout=300)
    ctx.obligation('heap_driver.cpp compiles against the repository header', p.returncode == 0, p.stderr)
    return out if p.returncode == 0 else None


def rand_ops(rng, kind):
    """one operation sequence; the key set is small so that most comparisons are between equal keys"""
    style = rng.random()
    nkeys = rng.choice([1, 2, 3, 3, 5, 8, 40])
    keys = [-rng.randint(0, 60) for _ in range(nkeys)]
    target = rng.choice([0, 1, 2, 3, 5, 8, 17, 33, 64, 100, 200])
    nops = rng.randint(0, 40) if target <= 3 else rng.randint(target, 2 * target + 40)
    ops, size, nid = [], 0, 0
    for k in range(nops):
        if style < 0.3:
            p_push = 0.5                                   # random walk
        elif style < 0.65:
            p_push = 0.9 if k < nops * 0.6 else 0.15       # fill, then drain
        else:
            p_push = 0.75 if size < target else 0.35       # hover around the target size
        if size >= 200 or (size > 0 and rng.random() >= p_push):
            ops.append(None); size -= 1
        else:
            ident = nid if kind == 0 else rng.randrange(0, rng.choice([1, 2, 4, 50]))
            ops.append((rng.choice(keys), ident)); nid += 1; size += 1
    return ops


def run_heap(ctx, n_seq):
    drv = build_driver(ctx)
    if drv is None:
        return None
    rng = ctx.rng
    seqs = [(k % 2, rand_ops(rng, k % 2)) for k in range(n_seq)]
    # the empty sequence and a single push/pop, both kinds
    seqs += [(0, []), (1, []), (0, [(0, 0), None]), (1, [(0, 0), None])]
    inp = [str(len(seqs))]
    for kind, ops in seqs:
        inp.append(f'{kind} {len(ops)}')
        inp += ['0' if o is None else f'1 {o[0]} {o[1]}' for o in ops]
    p = subprocess.run([drv], input='\n'.join(inp) + '\n', capture_output=True, text=True, timeout=300)
    ctx.obligation('heap_driver ran', p.returncode == 0, p.stderr)
    if p.returncode != 0:
        return None
    lines = p.stdout.split('\n')
    cases, descr = [], []
    for i, (kind, ops) in enumerate(seqs):
        pops, final = lines[2 * i].split()[1:], lines[2 * i + 1].split()[1:]
        gops = '[' + ';'.join('O_' if o is None else f'E {gZ(o[0])} {gnat(o[1])}' for o in ops) + ']'
        if kind == 0:
            g = lambda xs: '[' + ';'.join(gnat(int(x)) for x in xs) + ']'
        else:
            g = lambda xs: '[' + ';'.join('(%s,%s)' % (gZ(int(x.split(':')[0])), gnat(int(x.split(':')[1]))) for x in xs) + ']'
        cases.append(f'hcase{kind} {gops} {g(pops)} {g(final)}')
        # statistics: exact ties among the keys that were in the heap together
        size = mx = ties = 0
        for o in ops:
            if o is None:
                size -= 1
            else:
                size += 1
            mx = max(mx, size)
        keyset = [o[0] for o in ops if o is not None]
        ties = len(keyset) - len(set(keyset))
        ctx.case(('heap', kind, tuple(ops)), nontrivial=len(ops) > 2)
        ctx.count(f'heap:kind{kind}')
        ctx.count('heap:max_size_%s' % ('0-3' if mx <= 3 else '4-32' if mx <= 32 else '33-200'))
        if ties:
            ctx.count('heap:sequences_with_equal_keys')
        descr.append({'kind': kind, 'ops': len(ops), 'max_size': mx, 'pops': len(pops)})
    bad = ctx.coq_cases('heap', PRE, cases, chunk=40, describe=lambda i: descr[i])
    ctx.stats['heap_sequences'] = len(cases)
    ctx.stats['heap_ops_total'] = sum(len(o) for _, o in seqs)
    return bad
