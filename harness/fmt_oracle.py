"""C07 - the property oracle: every output format of depccg.printer, read back by the independent readers of
fmt_dec.py, shows the derivation that was encoded.

`check_batch(batch, lang, report, count)` prints one batch (list of sentences, each a list of ScoredTree sharing the
sentence's tokens) in all eleven formats with the real `depccg.printer.to_string`, decodes every output and compares
it with the Tree objects through their public attributes only (cat/children/token/op_string/op_symbol/head_is_left).
What each format is *expected* to carry is stated here from the format definitions (own spelling of words,
categories and rule labels); nothing is taken from the Coq models or from the encoders.
"""
from lxml import etree

import fmt_dec as D
from fmt_dec import DecodeError, Node
from depccg.cat import Atom, Functor, UnaryFeature, TernaryFeature

FORMATS = ['auto', 'auto_extended', 'xml', 'jigg_xml', 'conll', 'json', 'ptb', 'deriv', 'html', 'prolog', 'ja']


# ---- the encoded derivation, through the public attributes of Tree ---------------------------------
def cat_struct(c):
    if isinstance(c, Functor):
        return ('F', cat_struct(c.left), c.slash, cat_struct(c.right))
    assert isinstance(c, Atom)
    f = c.feature
    if isinstance(f, UnaryFeature):
        return ('A', c.base, None if f.value is None else ('u', f.value))
    assert isinstance(f, TernaryFeature)
    return ('A', c.base, ('t', tuple((k, v) for k, v in f.items())))


def t_leaves(t):
    return [t] if t.is_leaf else [x for c in t.children for x in t_leaves(c)]


def t_head(t):
    """index (within t) of the head word, as the head flags say"""
    if t.is_leaf:
        return 0
    if len(t.children) == 1:
        return t_head(t.children[0])
    l, r = t.children
    return t_head(l) if t.head_is_left else len(t_leaves(l)) + t_head(r)


def t_nodes(t):
    yield t
    if not t.is_leaf:
        for c in t.children:
            yield from t_nodes(c)


# ---- the formats' own spellings (format definitions) -----------------------------------------------
BRACKET_NAMES = {'(': '-LRB-', ')': '-RRB-', '{': '-LCB-', '}': '-RCB-', '[': '-LSB-', ']': '-RSB-'}


def sp_auto_word(w):
    """AUTO / CoNLL: a word that *is* a bracket is written by its PTB name; angle brackets inside any other word are written -LAB- / -RAB-"""
    if w in BRACKET_NAMES:
        return BRACKET_NAMES[w]
    return w.replace('>', '-RAB-').replace('<', '-LAB-')


def sp_ja_word(w):
    """Japanese CCGbank text: a PTB bracket name is written as the bracket"""
    for b, name in BRACKET_NAMES.items():
        if w == name:
            return b
    return w


def sp_ptb_word(w):
    return w.replace('(', '-LRB-').replace(')', '-RRB-')


PROLOG_PUNCT = {'.': 'period', ',': 'comma', ':': 'colon', ';': 'semicolon'}
PROLOG_EN_RULE = {'fa': 'fa', 'ba': 'ba', 'fx': 'fc', 'fc': 'fc', 'bx': 'bxc', 'gfc': 'gfc', 'gbx': 'gbx', 'rp': 'rp',
                  'lp': 'lx+lp', 'conj': 'conj', 'conj2': 'conj+conj'}
PROLOG_JA_RULE = {'SSEQ': 'sseq', '>': 'fa', '<': 'ba', '>B': 'fc', '<B1': 'bc1', '<B2': 'bc2', '<B3': 'bc3', '<B4': 'bc4',
                  '>Bx1': 'fx1', '>Bx2': 'fx2', '>Bx3': 'fx3', 'ADNext': 'adnext', 'ADNint': 'adnint', 'ADV0': 'adv0', 'ADV1': 'adv1',
                  'ADV2': 'adv2', 'OTHER': 'other'}


def sp_prolog_en_cat(s):
    if s[0] == 'F':
        return ('F', sp_prolog_en_cat(s[1]), s[2], sp_prolog_en_cat(s[3]))
    base = s[1].lower()
    if base in PROLOG_PUNCT:
        return ('A', PROLOG_PUNCT[base], None)
    f = s[2]
    if f is None or (f[0] == 'u' and f[1] == ''):
        return ('A', base, None)
    return ('A', base, f[1] if f[0] == 'u' else ','.join(f'{k}={v}' for k, v in f[1]))


def sp_prolog_ja_cat(s):
    if s[0] == 'F':
        return ('F', sp_prolog_ja_cat(s[1]), s[2], sp_prolog_ja_cat(s[3]))
    base = s[1].lower()
    f = s[2]
    if f is not None and f[0] == 't':
        d = dict(f[1])
        if 'case' in d:
            return ('A', base, d['case'].lower())
    return ('A', base, None)


def join_non_star(tok, keys, sep):
    vals = [tok.get(k, '*') for k in keys]
    vals = [v for v in vals if v != '*']
    return sep.join(vals) if vals else '_'


# ---- comparison -----------------------------------------------------------------------------------
class Cmp(object):
    """compares a decoded Node tree with the encoded Tree; `self.diffs` collects what differs"""

    def __init__(self, fmt, lang, sid=None):
        self.fmt, self.lang, self.sid = fmt, lang, sid
        self.diffs = []

    def diff(self, msg):
        if len(self.diffs) < 8:
            self.diffs.append(msg)

    def eq(self, what, got, want):
        if got != want:
            self.diff(f'{what}: decoded {got!r}, encoded derivation has {want!r}')

    # category in the format's spelling -> structure
    def cat(self, where, d, t):
        want = cat_struct(t.cat)
        try:
            if self.fmt == 'jigg_xml':
                got = D.parse_cat_jigg(d.cat)
            elif self.fmt == 'prolog':
                got = d.cat
                want = sp_prolog_en_cat(want) if self.lang == 'en' else sp_prolog_ja_cat(want)
            else:
                got = D.parse_cat(d.cat)
        except DecodeError as e:
            self.diff(f'{where}: category text {d.cat!r} unreadable: {e}')
            return
        self.eq(f'{where}: category', got, want)

    def walk(self, d, t, off=0, path='root'):
        """-> number of leaves"""
        f = self.fmt
        if t.is_leaf:
            if not d.is_leaf:
                self.diff(f'{path}: decoded an inner node with {len(d.ch)} children where the derivation has the leaf {t.token.get("word")!r}')
                return 1
            self.cat(path, d, t)
            self.leaf(d, t, off, path)
            return 1
        if d.is_leaf:
            self.diff(f'{path}: decoded the leaf {d.word!r} where the derivation has a node with {len(t.children)} children')
            return len(t_leaves(t))
        if len(d.ch) != len(t.children):
            self.diff(f'{path}: decoded {len(d.ch)} children, the derivation has {len(t.children)}')
            return len(t_leaves(t))
        self.cat(path, d, t)
        n = 0
        for k, (dc, tc) in enumerate(zip(d.ch, t.children)):
            n += self.walk(dc, tc, off + n, f'{path}.{k}')
        self.inner(d, t, off, off + n, path)
        return n

    def leaf(self, d, t, i, path):
        f, tok = self.fmt, t.token
        w = tok['word']
        if f == 'auto':
            self.eq(f'{path}: word', d.word, sp_auto_word(w))
            self.eq(f'{path}: pos', d.attrs['pos'], tok.get('pos', 'POS'))
        elif f == 'conll':        # the fragments of the last column
            self.eq(f'{path}: word', d.word, sp_auto_word(w))
            self.eq(f'{path}: pos', d.attrs['pos'], tok.get('pos', '_'))
        elif f == 'auto_extended':
            self.eq(f'{path}: word', d.word, sp_auto_word(w))
            self.eq(f'{path}: token fields', d.attrs, {k: tok.get(k, 'XX') for k in ('lemma', 'pos', 'entity', 'chunk')})
        elif f == 'ptb':
            self.eq(f'{path}: word', d.word, sp_ptb_word(w))
        elif f == 'ja':
            self.eq(f'{path}: word', d.word, sp_ja_word(w))
            self.eq(f'{path}: pos', d.attrs['pos'], join_non_star(tok, ('pos', 'pos1', 'pos2', 'pos3'), '-'))
            self.eq(f'{path}: inflection', d.attrs['infl'], join_non_star(tok, ('inflectionForm', 'inflectionType'), '-'))
        elif f == 'json':
            self.eq(f'{path}: token items', d.attrs, list(tok.items()))
        elif f == 'xml':
            self.eq(f'{path}: token attributes', d.attrs, list(tok.items()))
            self.eq(f'{path}: start/end', (d.start, d.end), (i, i + 1))
        elif f == 'jigg_xml':
            self.eq(f'{path}: word', d.word, w)
            self.eq(f'{path}: terminal', d.extra, f's{self.sid}_{i}')
            self.eq(f'{path}: begin/end', (d.start, d.end), (i, i + 1))
            rest = [(k, v) for k, v in tok.items() if k not in ('word', 'lemma')]
            want = rest + [('surf', w)] + ([('base', tok['lemma'])] if 'lemma' in tok else [])
            self.eq(f'{path}: token attributes', d.attrs[3:], want)
            self.eq(f'{path}: token start/id', [d.attrs[0], d.attrs[2]], [('start', str(i)), ('id', f's{self.sid}_{i}')])
        elif f == 'deriv':
            self.eq(f'{path}: word', d.word, w)
            self.eq(f'{path}: span', (d.start, d.end), (i, i + 1))
        elif f == 'html':
            self.eq(f'{path}: word', d.word, w)
            self.eq(f'{path}: rule text of a leaf', d.label, 'lex')
        elif f == 'prolog' and self.lang == 'en':
            self.eq(f'{path}: word', d.word, w)
            self.eq(f'{path}: token fields', d.attrs, {k: tok.get(k, 'XX') for k in ('lemma', 'pos', 'chunk', 'entity')})
        elif f == 'prolog':
            self.eq(f'{path}: word', d.word, tok.get('surf', w))
            tags = [tok.get(k, '*') for k in ('pos', 'pos1', 'pos2', 'pos3')]
            pos = '*' if all(x == '*' for x in tags) else '/'.join(tags)
            self.eq(f'{path}: token fields', d.attrs, {'base': tok.get('base', '*'), 'pos': pos,
                                                       'inflectionForm': tok.get('inflectionForm', '*'), 'inflectionType': tok.get('inflectionType', '*')})

    def inner(self, d, t, i, j, path):
        f = self.fmt
        hd = 0 if t.head_is_left else 1
        if f in ('auto', 'conll'):
            self.eq(f'{path}: head flag', d.head, hd)
        elif f == 'auto_extended':
            self.eq(f'{path}: head flag', d.head, hd)
            self.eq(f'{path}: rule', d.label, t.op_string)
        elif f == 'ja':
            self.eq(f'{path}: rule symbol', d.label, t.op_symbol)
        elif f == 'json':
            self.eq(f'{path}: type', d.label, t.op_string)
        elif f == 'xml':
            self.eq(f'{path}: type', d.label, t.op_string)
            self.eq(f'{path}: start/end', (d.start, d.end), (i, j))
        elif f == 'jigg_xml':
            self.eq(f'{path}: rule', d.label, t.op_symbol if self.lang == 'ja' else t.op_string)
            self.eq(f'{path}: begin/end', (d.start, d.end), (i, j))
        elif f == 'deriv':
            self.eq(f'{path}: rule symbol', d.label, t.op_symbol)
            self.eq(f'{path}: span', (d.start, d.end), (i, j))
        elif f == 'html':
            self.eq(f'{path}: rule', d.label, t.op_string)
        elif f == 'prolog' and self.lang == 'en':
            if len(t.children) == 1:
                self.eq(f'{path}: functor', d.label, 'lx')
            elif t.op_string in PROLOG_EN_RULE:
                self.eq(f'{path}: functor', d.label, PROLOG_EN_RULE[t.op_string])
                if t.op_string == 'conj':
                    self.eq(f'{path}: second argument of conj', d.extra, sp_prolog_en_cat(cat_struct(t.cat.left)))
        elif f == 'prolog':
            if t.op_symbol in PROLOG_JA_RULE:
                self.eq(f'{path}: functor', d.label, PROLOG_JA_RULE[t.op_symbol])


def deps_from_flags(n):
    """head column implied by the head flags of a decoded AUTO tree: list of 1-based heads, 0 for the root"""
    leaves = n.leaves()
    heads = [None] * len(leaves)

    def rec(x, off):
        """-> (number of leaves, absolute index of the head word)"""
        if x.is_leaf:
            return 1, off
        if len(x.ch) == 1:
            return rec(x.ch[0], off)
        nl, hl = rec(x.ch[0], off)
        nr, hr = rec(x.ch[1], off + nl)
        if x.head == 0:
            heads[hr] = hl + 1
            return nl + nr, hl
        heads[hl] = hr + 1
        return nl + nr, hr

    _, root = rec(n, 0)
    heads[root] = 0
    return heads


def spans(n, off=0, out=None):
    out = [] if out is None else out
    if n.is_leaf:
        out.append((off, off + 1, n))
        return 1, out
    k = 0
    for c in n.ch:
        m, _ = spans(c, off + k, out)
        k += m
    out.append((off, off + k, n))
    return k, out


def check_conll_deps(heads, tree_dec, t, diff):
    """the dependency column is the head assignment implied by the head flags"""
    n = len(heads)
    want = deps_from_flags(tree_dec)
    if heads != want:
        diff(f'dependency column {heads!r} is not the head assignment implied by the head flags {want!r}')
    if heads.count(0) != 1:
        diff(f'dependency column {heads!r} does not have exactly one root')
    if any(h < 0 or h > n or h == i + 1 for i, h in enumerate(heads)):
        diff(f'dependency column {heads!r} has a head outside the sentence or a self loop')
    # every constituent has exactly one word whose head is outside it (its head word); all other words attach inside
    for (a, b, node) in spans(tree_dec)[1]:
        ext = [i for i in range(a, b) if not (a <= heads[i] - 1 < b)]
        if len(ext) != 1:
            diff(f'constituent [{a},{b}) has {len(ext)} words attached outside it (dependency column {heads!r})')
    # and against the encoded derivation itself
    root = t_head(t)
    if 0 <= root < n and heads[root] != 0:
        diff(f'the root of the dependency column is word {heads.index(0) + 1 if 0 in heads else None}, the head flags of the derivation make it word {root + 1}')

    def rec(x, off):
        if x.is_leaf:
            return 1
        if len(x.children) == 1:
            return rec(x.children[0], off)
        l, r = x.children
        nl = rec(l, off)
        nr = rec(r, off + nl)
        hl, hr = off + t_head(l), off + nl + t_head(r)
        dep, head = (hr, hl) if x.head_is_left else (hl, hr)
        if dep < n and heads[dep] != head + 1:
            diff(f'word {dep + 1} (head of the non-head child of the node over [{off},{off + nl + nr})) is attached to {heads[dep]}, not to the head {head + 1} of the head child')
        return nl + nr
    rec(t, 0)


# ---- replayable form of a derivation --------------------------------------------------------------
def ser_tree(t):
    if t.is_leaf:
        return {'cat': str(t.cat), 'token': dict(t.token), 'op': [t.op_string, t.op_symbol]}
    return {'cat': str(t.cat), 'op': [t.op_string, t.op_symbol], 'head_is_left': bool(t.head_is_left), 'children': [ser_tree(c) for c in t.children]}


def unser_tree(d):
    from depccg.tree import Tree
    from depccg.types import Token
    from depccg.cat import Category
    cat = Category.parse(d['cat'])
    if 'children' not in d:
        return Tree(cat, [Token(**d['token'])], d['op'][0], d['op'][1])
    return Tree(cat, [unser_tree(c) for c in d['children']], d['op'][0], d['op'][1], d['head_is_left'])


def unser_batch(b):
    from depccg.tree import ScoredTree
    return [[ScoredTree(unser_tree(t), s) for t, s in trees] for trees in b]


# ---- one batch through all formats --------------------------------------------------------------------
def check_batch(batch, lang, report, count, formats=FORMATS, to_string=None, on_record=None):
    """batch: [[ScoredTree,...],...]; report(kind, desc, data); count(key); on_record(fmt, tree) for every record decoded and compared.
    -> {format: the numbering read from the output}"""
    nums = {}
    if to_string is None:
        from depccg.printer import to_string
    recs = [(si + 1, ti + 1, st.tree, st.score) for si, trees in enumerate(batch) for ti, st in enumerate(trees)]
    shape = [len(trees) for trees in batch]

    def describe():
        return {'lang': lang, 'shape': shape, 'batch': [[[ser_tree(st.tree), st.score] for st in trees] for trees in batch]}

    for fmt in formats:
        def fail(kind, desc, extra=None):
            data = {'format': fmt}
            data.update(describe())
            data.update(extra or {})
            report(kind, f'[{fmt}/{lang}] {desc}', data)
        try:
            text = to_string(batch, format=fmt)
        except Exception as e:      # not rendering at all is C19's subject; counted, not judged here
            count(f'render_error:{fmt}:{type(e).__name__}')
            continue
        count(f'rendered:{fmt}')
        try:
            decoded = decode_batch(fmt, lang, text)
        except DecodeError as e:
            words = [t.token['word'] for _, _, tr, _ in recs for t in t_leaves(tr)]
            fail('html_undecodable' if fmt == 'html' else 'undecodable', f'output cannot be read back: {e}', {'words': words, 'text': text[:3000]})
            continue
        # numbering
        got_num = [(d['k'], d.get('i')) for d in decoded]
        if fmt == 'xml':
            want_num = [(k, i) for k, i, _, _ in recs]
        elif fmt == 'jigg_xml':         # Jigg ids count sentences and trees from 0
            want_num = [(k - 1, i - 1) for k, i, _, _ in recs]
        else:
            want_num = [(k, None) for k, i, _, _ in recs]
        nums[fmt] = got_num
        if got_num != want_num:
            fail('numbering', f'records are numbered {got_num!r}; sentences x n-best {shape!r} must give {want_num!r}', {'got': got_num, 'want': want_num})
            continue
        for d, (k, i, t, score) in zip(decoded, recs):
            c = Cmp(fmt, lang, sid=k - 1)
            c.walk(d['tree'], t)
            if 'score' in d and d['score'] is not None:
                if not score_ok(fmt, d['score'], score):
                    c.diff(f'score text {d["score"]!r} is not the score {score!r}')
            for x in d.get('diffs', []):
                c.diff(x)
            if fmt == 'conll':
                rows = d['rows']
                leaves = t_leaves(t)
                if len(rows) != len(leaves):
                    c.diff(f'{len(rows)} rows for {len(leaves)} words')
                else:
                    for r, (j, lf) in zip(rows, enumerate(leaves)):
                        tok = lf.token
                        want = {'idx': j + 1, 'word': sp_auto_word(tok['word']), 'lemma': tok.get('lemma', '_'), 'pos': tok.get('pos', '_'),
                                'pos2': tok.get('pos', '_'), 'c6': '_', 'c9': '_'}
                        got = {kk: r[kk] for kk in want}
                        c.eq(f'row {j + 1}', got, want)
                        try:
                            c.eq(f'row {j + 1}: category', D.parse_cat(r['cat']), cat_struct(lf.cat))
                        except DecodeError as e:
                            c.diff(f'row {j + 1}: category {r["cat"]!r} unreadable: {e}')
                    check_conll_deps([r['head'] for r in rows], d['tree'], t, c.diff)
            if fmt == 'html' and i == 1:
                want = ' '.join(lf.token['word'] for lf in t_leaves(batch[k - 1][0].tree))
                if d['header_words'] != want:
                    fail('html_header_words', f'the header of sentence {k} shows the words {d["header_words"]!r}, the sentence is {want!r}', {'word': want})
            if fmt == 'jigg_xml' and i == 1:
                first = t_leaves(batch[k - 1][0].tree)
                toks = d['tokens']
                if len(toks) != len(first):
                    c.diff(f'{len(toks)} <token> elements for {len(first)} words')
                else:
                    for j, (a, lf) in enumerate(zip(toks, first)):
                        try:
                            c.eq(f'token {j}: cat', D.parse_cat(dict(a)['cat']), cat_struct(lf.cat))
                        except (DecodeError, KeyError) as e:
                            c.diff(f'token {j}: cat attribute unreadable: {e}')
            if c.diffs:
                words = [lf.token['word'] for lf in t_leaves(t)]
                fail('decoded_differs', f'sentence {k} tree {i}: ' + ' | '.join(c.diffs[:4]), {'sentence': k, 'tree_index': i, 'words': words, 'diffs': c.diffs})
            count(f'decoded:{fmt}')
            if on_record:
                on_record(fmt, t)
    return nums


def score_ok(fmt, text, score):
    if fmt in ('auto', 'auto_extended', 'conll', 'ptb', 'deriv', 'ja'):
        return text == f'{score:.8f}'
    if fmt == 'html':
        return text == f'{score:.5e}'
    if fmt == 'json':
        return text == score
    if fmt == 'jigg_xml':
        return text == str(score)
    return True


def decode_batch(fmt, lang, text):
    """-> [{'k': sentence number, 'i': tree number or None, 'tree': Node, ...}] in output order"""
    out = []
    if fmt in ('auto', 'auto_extended', 'ptb', 'ja', 'deriv', 'conll'):
        for k, lp, body in D.split_records(text, conll=(fmt == 'conll')):
            if fmt == 'deriv':
                D.need(body and body[-1] == '', 'a deriv record ends with an empty line')
                tree = D.dec_deriv('\n'.join(body[:-1]) + '\n')
                out.append({'k': k, 'score': lp, 'tree': tree})
            elif fmt == 'conll':
                rows, tree = D.dec_conll(body)
                out.append({'k': k, 'score': lp, 'tree': tree, 'rows': rows})
            else:
                D.need(len(body) == 1, f'record of sentence {k} has {len(body)} lines')
                tree = {'auto': D.dec_auto, 'auto_extended': lambda s: D.dec_auto(s, True), 'ptb': D.dec_ptb, 'ja': D.dec_ja}[fmt](body[0])
                out.append({'k': k, 'score': lp, 'tree': tree})
    elif fmt == 'json':
        top = D.loads_ordered(text)
        D.need(isinstance(top, tuple), 'json output is not an object')
        for key, lst in top[1]:
            D.need(key.isdigit() and isinstance(lst, list), 'json output must map sentence numbers to lists')
            for obj in lst:
                n = D.dec_json(obj)
                out.append({'k': int(key), 'score': n.extra, 'tree': n})
    elif fmt == 'xml':
        try:
            root = etree.fromstring(text.encode('utf-8'))
        except etree.XMLSyntaxError as e:
            raise DecodeError(f'not well-formed XML: {e}')
        D.need(root.tag == 'candc', 'root element must be <candc>')
        for el in root:
            D.need(el.attrib.get('sentence', '').isdigit() and el.attrib.get('id', '').isdigit(), '<ccg> without sentence/id numbers')
            out.append({'k': int(el.attrib['sentence']), 'i': int(el.attrib['id']), 'tree': D.dec_xml_ccg(el)})
    elif fmt == 'jigg_xml':
        try:
            root = etree.fromstring(text.encode('utf-8'))
        except etree.XMLSyntaxError as e:
            raise DecodeError(f'not well-formed XML: {e}')
        D.need(root.tag == 'root' and len(root) == 1 and root[0].tag == 'document' and len(root[0]) == 1 and root[0][0].tag == 'sentences', 'root/document/sentences expected')
        for pos, sent in enumerate(root[0][0]):
            tokens, order, trees = D.dec_jigg_sentence(sent)
            nspan = 0
            for n, (cid, score, tree, span_ids) in enumerate(trees):
                diffs = []
                m = __import__('re').fullmatch(r's(\d+)_ccg(\d+)', cid or '')
                D.need(m, f'ccg id {cid!r}')
                k, i = int(m.group(1)), int(m.group(2))
                if k != pos:
                    diffs.append(f'ccg id {cid} inside the sentence element number {pos}')
                if order != [f's{k}_{j}' for j in range(len(order))]:
                    diffs.append(f'token ids {order!r} are not s{k}_0..')
                want_ids = [f's{k}_sp{nspan + j}' for j in range(len(span_ids))]
                if span_ids != want_ids:
                    diffs.append(f'span ids {span_ids[:4]!r}.. are not numbered {want_ids[:4]!r}.. through the sentence')
                nspan += len(span_ids)
                out.append({'k': k, 'i': i, 'score': score, 'tree': tree, 'tokens': [tokens[t] for t in order], 'diffs': diffs})
    elif fmt == 'html':
        for k, words, trees in D.dec_html(text):
            for n, (lp, tree) in enumerate(trees):
                out.append({'k': k, 'score': lp, 'tree': tree, 'header_words': words})
    elif fmt == 'prolog':
        for k, tree in (D.dec_prolog_en if lang == 'en' else D.dec_prolog_ja)(text):
            out.append({'k': k, 'tree': tree})
    else:
        raise DecodeError(f'no reader for format {fmt}')
    return out
