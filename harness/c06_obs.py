"""C06 helpers: run the real Unification on one case and canonicalise what can be observed.
Also a script: `c06_obs.py <cases.json>` prints the observables of every case as JSON (used to run the same inputs
in fresh interpreters under different PYTHONHASHSEED values)."""
import json, sys

ERRS = {'AttributeError': 'AttrErr', 'KeyError': 'KeyErr', 'AssertionError': 'AssertErr', 'IndexError': 'IndexErr',
        'TypeError': 'TypeErr', 'RuntimeError': 'Twice'}


def ekind(e):
    return ERRS.get(type(e).__name__, 'Other:' + type(e).__name__)


def observe(px, py, x, y, names):
    """px, py: pattern texts; x, y: Category values.  Returns a dict of plain observables (categories kept as objects):
       pre    - reads before the call        [('err', kind) | ('ok', cat)]
       flag   - ('ok', bool) | ('err', kind)
       reads  - reads after the call
       second - what a second call does: ('err', kind) | ('ok', value)"""
    from depccg.unification import Unification
    uni = Unification(px, py)

    def read(v):
        try:
            return ('ok', uni[v])
        except Exception as e:   # noqa
            return ('err', ekind(e))
    pre = [read(v) for v in names]
    try:
        flag = ('ok', uni(x, y))
    except Exception as e:       # noqa
        flag = ('err', ekind(e))
    reads = [read(v) for v in names]
    try:
        second = ('ok', uni(x, y))
    except Exception as e:       # noqa
        second = ('err', ekind(e))
    return {'pre': pre, 'flag': flag, 'reads': reads, 'second': second}


def plain(obs):
    """JSON-able form (categories as text)"""
    def r(p):
        return [p[0], str(p[1])]
    return {'pre': [r(p) for p in obs['pre']], 'flag': [obs['flag'][0], str(obs['flag'][1])],
            'reads': [r(p) for p in obs['reads']], 'second': [obs['second'][0], str(obs['second'][1])]}


def main(path):
    import env  # noqa: F401  (import path + stubs)
    from depccg.cat import Category
    cases = json.load(open(path))
    out = []
    for c in cases:
        out.append(plain(observe(c['px'], c['py'], Category.parse(c['x']), Category.parse(c['y']), c['names'])))
    json.dump(out, sys.stdout)


if __name__ == '__main__':
    main(sys.argv[1])
