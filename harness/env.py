"""Process environment for every harness script: where the repository is, import path, stubs."""
import os, sys

VERIF = os.path.dirname(os.path.dirname(os.path.abspath(__file__)))
REPO = os.environ.get('DEPCCG_REPO', '/repo')
HARNESS = os.path.join(VERIF, 'harness')
COQC = os.path.join(HARNESS, 'coqc_big')       # coqc with a large stack (see the script)
COQ = os.path.join(VERIF, 'coq')
WORK = os.environ.get('DEPCCG_VERIF_WORK', os.path.join(VERIF, 'work'))
GUARD = 'DEPCCG_VERIF'

# the repository under test always comes first; nothing else may shadow depccg
sys.path[:] = [p for p in sys.path if os.path.abspath(p or '.') not in (REPO, HARNESS)]
sys.path[:0] = [REPO, HARNESS]
os.environ['PYTHONPATH'] = REPO + os.pathsep + HARNESS
os.environ.setdefault('PYTHONHASHSEED', '0')
os.environ[GUARD] = '1'

import stubs  # noqa: E402  (installs the import stubs)


def seed():
    try:
        return int(os.environ.get('VERIF_SEED', '0'))
    except ValueError:
        return 0
