// Differential-test driver for coq/Heap.v: runs operation sequences on the real std::priority_queue of the
// toolchain's libstdc++ with (a) parsing::cell_item and the repository's operator< (depccg/parsing.h) and
// (b) std::pair<float, unsigned> (the element type of the per-word tag heaps `scored_cats`).
// Built at run time by harness/heap_cases.py into work/ (never kept in git):
//   g++ -std=c++11 -O1 -I<repo> -include climits heap_driver.cpp -o heap_driver
// stdin:  <number of sequences>  then per sequence:  <kind 0|1> <m>  followed by m operations  "1 <key8> <id>" (push) | "0" (pop)
//         key8 is the key in 1/8 units (the float key is key8/8.0f); kind 0 = cell_item (key = in_score, out_score 0, id in cat),
//         kind 1 = pair<float, unsigned>(key, id).
// stdout: per sequence two lines:  "P <id>..." the ids in pop order (for kind 1: "key8:id"),  "V <id>..." the final underlying
//         vector front to back (read through a derived class; priority_queue::c is protected).
#include "depccg/parsing.h"
#include <cstdio>
#include <queue>
#include <vector>
#include <utility>

template <typename T>
struct open_queue : std::priority_queue<T>
{
    const std::vector<T> &vec() const { return this->c; }
};

int main()
{
    int nseq;
    if (scanf("%d", &nseq) != 1)
        return 2;
    for (int s = 0; s < nseq; s++)
    {
        int kind, m;
        if (scanf("%d %d", &kind, &m) != 2)
            return 2;
        open_queue<parsing::cell_item> qa;
        open_queue<std::pair<float, unsigned>> qb;
        printf("P");
        for (int k = 0; k < m; k++)
        {
            int op;
            if (scanf("%d", &op) != 1)
                return 2;
            if (op == 1)
            {
                int key8;
                unsigned id;
                if (scanf("%d %u", &key8, &id) != 2)
                    return 2;
                float key = key8 / 8.0f;
                if (kind == 0)
                    qa.push({false, id, nullptr, nullptr, key, 0.0f, 0, 1, 0});
                else
                    qb.emplace(key, id);
            }
            else if (kind == 0)
            {
                if (qa.size() == 0)
                    return 3; // pop of an empty queue is undefined behaviour: the generator never asks for it
                printf(" %u", qa.top().cat);
                qa.pop();
            }
            else
            {
                if (qb.size() == 0)
                    return 3;
                printf(" %d:%u", (int)(qb.top().first * 8.0f), qb.top().second);
                qb.pop();
            }
        }
        printf("\nV");
        if (kind == 0)
            for (auto &x : qa.vec())
                printf(" %u", x.cat);
        else
            for (auto &x : qb.vec())
                printf(" %d:%u", (int)(x.first * 8.0f), x.second);
        printf("\n");
    }
    return 0;
}
