"""A* family (C01, C02, C09, C10, C12, C16): problem generators, the real search through libdrv.so with the pop
hook, serialisation of a run as a Gallina `run_ok` case, and independent oracles (exhaustive enumeration)."""
import json, math, itertools
import numpy
import depccg_verif_rt as rt
from gallina import gbool, gnat, gZ

SCALE = 16          # scores are multiples of 1/8; the model works on 16*score so that theta = ln(beta)*16 can be odd

PRE = '''From Coq Require Import List ZArith Bool Arith.
Import ListNotations.
Require Import AStar AStarImpl AStarCheck.
Open Scope Z_scope.
Definition T (p : @tpop nat) i o s l h st : @trec nat := {| t_pop := p; t_in := i; t_out := o; t_start := s; t_len := l; t_head := h; t_stored := st |}.
Definition Pb a b c d e f g h i j k l := {| p_tag := a; p_dep := b; p_bin := c; p_un := d; p_roots := e; p_pen := f; p_dedup := g;
  p_pruning := h; p_use_beta := i; p_theta := j; p_max_step := k; p_nbest := l |}.
'''


LAST_INPUT = None       # set by the checks: path of the file that names the input being searched right now


class Problem:
    """one sentence: score matrices on the dyadic grid, a table grammar over category ids, search configuration"""

    def __init__(self, tag, dep, binary, unary, roots, pen8=0, pruning=50, use_beta=False, theta_odd=None, nbest=1, max_step=10000000, labels=None):
        self.tag = numpy.array(tag, dtype=numpy.float32)
        self.dep = numpy.array(dep, dtype=numpy.float32)
        self.n, self.K = self.tag.shape
        self.binary, self.unary = binary, unary        # {(x, y): [(cat, head_is_left)]}, {x: [cat]}
        self.roots = sorted(roots)
        self.pen8 = pen8                               # unary penalty in 1/8 units
        self.pruning, self.use_beta, self.theta_odd = pruning, use_beta, theta_odd
        self.nbest, self.max_step = nbest, max_step
        self.labels = labels or {}

    @property
    def beta(self):
        # theta = -(theta_odd)/16 in the log domain, an odd multiple of 1/16: no score difference (a multiple of 1/8) is
        # within 1/16 of the threshold, so float32 exp cannot flip a decision
        return math.exp(-self.theta_odd / 16.0) if self.theta_odd is not None else 1e-5

    def bin_cb(self, x, y):
        return [(c, hl) + self.labels.get(('b', x, y, k), ('b%d' % k, '<b%d>' % k)) for k, (c, hl) in enumerate(self.binary.get((x, y), []))]

    def un_cb(self, x):
        return [(c, True) + self.labels.get(('u', x, k), ('u%d' % k, '<u%d>' % k)) for k, c in enumerate(self.unary.get(x, []))]

    def run(self, trace=True):
        if LAST_INPUT:
            # the search runs in-process: should it take the process down, ./check reports this file as the input that did it
            with open(LAST_INPUT, 'w') as f_:
                json.dump({'kind': 'process_crashed', 'pjson': self.to_json()}, f_)
        return rt.search(self.tag, self.dep, self.roots, self.bin_cb, self.un_cb, unary_penalty=self.pen8 / 8.0, beta=self.beta,
                         use_beta=self.use_beta, pruning_size=self.pruning, nbest=self.nbest, max_step=self.max_step, trace=trace)

    def z(self, x):
        v = float(x) * SCALE
        assert v == int(v), f'score {x} is off the grid'
        return int(v)

    def to_json(self):
        d = {'tag': self.tag.tolist(), 'dep': self.dep.tolist(), 'roots': self.roots, 'pen8': self.pen8, 'pruning': self.pruning,
             'use_beta': self.use_beta, 'theta_odd': self.theta_odd, 'nbest': self.nbest, 'max_step': self.max_step}
        if hasattr(self, 'grammar'):
            d['real'] = self.grammar.lang
        else:
            d['binary'] = [[x, y, [[c, h] for c, h in rs]] for (x, y), rs in self.binary.items()]
            d['unary'] = [[x, list(rs)] for x, rs in self.unary.items()]
        return d

    def gallina(self):
        rows = lambda m: '[' + ';'.join('[' + ';'.join(gZ(self.z(v)) for v in r) + ']' for r in m) + ']'
        bt = '[' + ';'.join(f'({gnat(x)},{gnat(y)},[' + ';'.join(f'({gnat(c)},{gbool(h)})' for c, h in rs) + '])' for (x, y), rs in sorted(self.binary.items())) + ']'
        ut = '[' + ';'.join(f'({gnat(x)},[' + ';'.join(gnat(c) for c in rs) + '])' for x, rs in sorted(self.unary.items())) + ']'
        theta = gZ(-self.theta_odd) if self.theta_odd is not None else gZ(0)
        return (f'(Pb {rows(self.tag)} {rows(self.dep)} {bt} {ut} [{";".join(gnat(r) for r in self.roots)}] {gZ(self.pen8 * 2)} {gbool(self.nbest <= 1)} '
                f'{gnat(min(self.pruning, self.K + 1))} {gbool(self.use_beta)} {theta} {gnat(min(self.max_step, 5000))} {gnat(self.nbest)})')
        # (a pruning size beyond the number of tags takes every tag, like any other size >= K: the literal is capped so that option values
        #  such as 2^31 or UINT_MAX - "no pruning" - stay expressible as a nat literal)


def node_deriv(nd):
    """derivation term of an item structure (finalizer output)"""
    if nd['fin']:
        return node_deriv(nd['left'])
    if nd['left'] is None:
        return ('L', nd['start'], nd['cat'])
    if nd['right'] is None:
        return ('U', nd['rule'], nd['cat'], node_deriv(nd['left']))
    hl = nd['head'] == nd['left']['head']
    return ('B', nd['rule'], nd['cat'], hl, node_deriv(nd['left']), node_deriv(nd['right']))


def gderiv(d):
    if d[0] == 'L':
        return f'(DLeaf {gnat(d[1])} {gnat(d[2])})'
    if d[0] == 'U':
        return f'(DUn {gnat(d[1])} {gnat(d[2])} {gderiv(d[3])})'
    return f'(DBin {gnat(d[1])} {gnat(d[2])} {gbool(d[3])} {gderiv(d[4])} {gderiv(d[5])})'


def gtrace(p, tr):
    stored_index = {}
    out = []
    for t in tr:
        if t['fin']:
            pop = f'(TFin {gnat(stored_index[t["left"]])})'
        elif not t['left']:
            pop = f'(TLeaf {gnat(t["start"])} {gnat(t["cat"])})'
        elif not t['right']:
            pop = f'(TUn {gnat(t["rule"])} {gnat(t["cat"])} {gnat(stored_index[t["left"]])})'
        else:
            # head flag of the node: whose head word did it take
            pop = None
        if pop is None:
            pop = ('B', t)
        out.append((pop, t))
        if t['stored'] and not t['fin']:
            stored_index[t['stored']] = len(stored_index)
    # second pass for binary nodes (needs the heads of the children)
    heads = {}
    res = []
    stored_index2 = {}
    for pop, t in out:
        if isinstance(pop, tuple):
            hl = t['head'] == heads[t['left']]
            pop = f'(TBin {gnat(t["rule"])} {gnat(t["cat"])} {gbool(hl)} {gnat(stored_index2[t["left"]])} {gnat(stored_index2[t["right"]])})'
        res.append(f'(T {pop} {gZ(p.z(t["in"]))} {gZ(p.z(t["out"]))} {gnat(t["start"])} {gnat(t["len"])} {gnat(t["head"])} {gbool(bool(t["stored"]) and not t["fin"])})')
        if t['stored'] and not t['fin']:
            stored_index2[t['stored']] = len(stored_index2)
            heads[t['stored']] = t['head']
    return '[' + ';'.join(res) + ']'


def run_case(p, r):
    goals = [node_deriv(g) for g in r['goals']]
    scores = [p.z(g['in'] + g['out']) for g in r['goals']]
    return (f'run_ok {p.gallina()} {gtrace(p, r["trace"])} {gnat(r["status"])} [{";".join(gderiv(g) for g in goals)}] '
            f'[{";".join(gZ(s) for s in scores)}]')


# ---- generators ------------------------------------------------------------------------------------------
def rand_problem(rng, nmax=5, kmax=5, head_left=None, nbest=1, unary=True, beta=None, pruning=None, lo=40, max_step=None, dense=0.35, underflow=0.15):
    unary_heavy = unary and rng.random() < 0.15      # short sentences whose parses need chains of unary rules
    n = rng.randint(1, 2) if unary_heavy else rng.randint(1, nmax)
    K = rng.randint(2, kmax)            # lexical categories 0..K-1; derived categories may be K..K+2
    ncat = K + (rng.randint(1, 3) if unary_heavy else rng.randint(0, 2))
    mixed = head_left == 'mixed'            # results of one pair may differ in head direction (not head-uniform)
    hl = rng.random() < 0.5 if head_left in (None, 'mixed') else head_left
    binary = {}
    for x in range(ncat):
        for y in range(ncat):
            if rng.random() < dense:
                binary[(x, y)] = [(rng.randrange(ncat), (rng.random() < 0.5) if mixed else hl) for _ in range(rng.choice([1, 1, 1, 2, 3]))]
    un = {}
    if unary:
        # acyclic: a unary rule only leads to a larger category id
        for x in range(ncat - 1):
            if rng.random() < (0.8 if unary_heavy else 0.3):
                un[x] = sorted({rng.randrange(x + 1, ncat) for _ in range(rng.choice([1, 1, 2]))})
    roots = [c for c in range(ncat) if rng.random() < 0.5] or [rng.randrange(ncat)]
    if unary_heavy and rng.random() < 0.6:
        roots = [ncat - 1]                # reachable only through the longest chains
    tag = [[-v / 8.0 for v in rng.sample(range(0, lo + 1), K)] for _ in range(n)]      # distinct within a row: the beam is unambiguous
    dep = [[-rng.randint(0, lo) / 8.0 for _ in range(n + 1)] for _ in range(n)]
    if rng.random() < underflow:
        # log-probabilities whose float32 exp() underflows to 0 (below about -104); the best tag of a row stays in the normal range
        for row in tag:
            b = max(range(K), key=lambda c: row[c])
            for c in range(K):
                if c != b and rng.random() < (0.4 if underflow < 0.5 else 0.7):
                    row[c] = -rng.randint(840, 1040) / 8.0
    use_beta = beta if beta is not None else rng.random() < 0.4
    theta_odd = rng.choice([1, 3, 7, 15, 31, 63]) if use_beta else None
    pr = pruning if pruning is not None else rng.choice([1, 2, 3, 50])
    return Problem(tag, dep, binary, un, roots, pen8=rng.choice([0, 1, 2]), pruning=pr, use_beta=use_beta, theta_odd=theta_odd,
                   nbest=nbest, max_step=max_step or 10000000)


# ---- independent oracles: exhaustive enumeration of all derivations ----------------------------------------
def admitted(p):
    """the beam, restated from the property: at most pruning best tags, none below beta * best probability"""
    adm = []
    for i in range(p.n):
        row = [(float(p.tag[i, c]), c) for c in range(p.K)]
        row.sort(reverse=True)
        best = row[0][0]
        keep = []
        for s, c in row[:p.pruning]:
            if p.use_beta and not (s - best > -p.theta_odd / 16.0):
                break
            keep.append(c)
        adm.append(keep)
    return adm


def all_derivations(p, adm=None, limit=200000):
    """every derivation (as deriv terms with rule indices) of every span, by exhaustive bottom-up closure"""
    adm = adm or admitted(p)
    n = p.n
    chart = {}
    count = 0
    for length in range(1, n + 1):
        for s in range(n - length + 1):
            items = []
            if length == 1:
                items += [('L', s, c) for c in adm[s]]
            for k in range(1, length):
                for l in chart[(s, k)]:
                    for r in chart[(s + k, length - k)]:
                        for ri, (c, hl) in enumerate(p.binary.get((dcat(l), dcat(r)), [])):
                            items.append(('B', ri, c, hl, l, r))
            # unary closure (acyclic); not at the full span unless n == 1
            if n == 1 or length != n:
                frontier = list(items)
                while frontier:
                    nxt = []
                    for d in frontier:
                        for ri, c in enumerate(p.unary.get(dcat(d), [])):
                            nxt.append(('U', ri, c, d))
                    items += nxt
                    frontier = nxt
                    count += len(nxt)
                    if count > limit:
                        return None
            chart[(s, length)] = items
            count += len(items)
            if count > limit:
                return None
    return chart


def dcat(d):
    return d[2]


def dhead(d):
    if d[0] == 'L':
        return d[1]
    if d[0] == 'U':
        return dhead(d[3])
    return dhead(d[4]) if d[3] else dhead(d[5])


def dscore8(p, d):
    """model score of a derivation in 1/8 units (without the root attachment): the property's formula"""
    if d[0] == 'L':
        return round(float(p.tag[d[1], d[2]]) * 8)
    if d[0] == 'U':
        return dscore8(p, d[3]) - p.pen8
    l, r = d[4], d[5]
    h, c = (dhead(l), dhead(r)) if d[3] else (dhead(r), dhead(l))
    return dscore8(p, l) + dscore8(p, r) + round(float(p.dep[c, h + 1]) * 8)


def complete_derivations(p, chart):
    return [d for d in chart.get((0, p.n), []) if dcat(d) in p.roots]


def total8(p, d):
    return dscore8(p, d) + round(float(p.dep[dhead(d), 0]) * 8)


def diag_case(p, r):
    return f'run_diag {p.gallina()} {gtrace(p, r["trace"])}'
