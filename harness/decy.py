"""Spike: mechanical parsing.pyx -> Python translation (fail-closed)."""
import re, ast, sys
STRUCT_TYPES = {'combinator_result': '_rt.combinator_result()', 'pair[unsigned, unsigned]': '_rt.pair()',
                'unordered_set[unsigned]': '_rt.unordered_set()', 'cache_type': '_rt.cache_type()', 'config': '_rt.config()'}
def strip_param(p):
    p = p.strip()
    if not p: return p
    if p.startswith('**') : return p
    # "type *name" / "type name" / "name=default" / "list doc"
    m = re.match(r'^(?:[\w\[\], \.]+?[\s\*]+)?\**(\w+)(\s*=.*)?$', p)
    if not m: raise SystemExit(f'decy: cannot strip parameter {p!r}')
    return m.group(1) + (m.group(2) or '')
def translate(src):
    lines = src.split('\n'); out = []; i = 0
    while i < len(lines):
        ln = lines[i]
        s = ln.strip()
        if re.match(r'^(from\s+(cython|libcpp)\S*\s+cimport|cimport)\b', s): i += 1; continue
        if s.startswith('cdef extern from'):
            i += 1
            while i < len(lines) and (lines[i].strip() == '' or lines[i].startswith(' ')): i += 1
            continue
        m = re.match(r'^(?:cdef\s+(?:[\w\[\], ]+?\s+)?|def\s+)(\w+)\((.*)$', ln)
        if m:   # top-level function: gather header up to the line ending with ':'
            hdr = ln
            while not re.search(r'\)\s*(except\s+[-\w+]+|noexcept|->\s*[\w\[\], ]+)?\s*:\s*$', hdr):
                i += 1; hdr += '\n' + lines[i]
            name = m.group(1)
            inner = hdr[hdr.index('(')+1: hdr.rindex(')')]
            params = [strip_param(p) for p in inner.replace('\n',' ').split(',') if p.strip()]
            out.append(f'def {name}({", ".join(params)}):'); i += 1; continue
        m = re.match(r'^(\s+)cdef\s+(.*)$', ln)
        if m:
            ind, decl = m.groups()
            done = False
            for t, ctor in STRUCT_TYPES.items():
                if decl.startswith(t + ' '):
                    for nm in decl[len(t):].split(','): out.append(f'{ind}{nm.strip()} = {ctor}')
                    done = True; break
            if not done:
                m2 = re.match(r'^[\w\[\], =\.\']+?\s+\**(\w+)\s*=\s*(.*)$', decl)   # declaration with initialiser
                if m2 and not decl.startswith(('np.ndarray',)): out.append(f'{ind}{m2.group(1)} = {m2.group(2)}')
                # plain scalar/array declarations carry no behaviour
            i += 1; continue
        out.append(ln); i += 1
    txt = '\n'.join(out)
    txt = re.sub(r'<\s*(object|void\s*\*|float\s*\*)\s*>', '', txt)
    txt = re.sub(r'&(c_\w+)', r'\1', txt)
    txt = re.sub(r'\bNULL\b', 'None', txt)
    txt = 'import depccg_verif_rt as _rt\nfrom depccg_verif_rt import parse_sentence, UINT_MAX\n' + txt
    if re.search(r'\bcdef\b|\bcimport\b|<\s*\w+\s*\*?\s*>', re.sub(r'"""[\s\S]*?"""|#.*|\'[^\'\n]*\'|"[^"\n]*"', '', txt)):
        raise SystemExit('decy: untranslated Cython construct remains')
    ast.parse(txt)
    return txt
if __name__ == '__main__':
    print(translate(open(sys.argv[1]).read()))
