"""Gallina serialisers for the C20 correspondence cases.

Same shapes as translate/gallina.py, but texts are written as primitive-integer lists `(T [..]%uint63)` and converted to
`list N` inside Coq (`T` is defined in the case preamble): coqc parses primitive integers several times faster than
N literals, and the C20 cases are mostly long texts (whole lines)."""


def lit(s):
    if not s:
        return '(T nil)'
    return '(T [' + ';'.join(str(ord(c)) for c in s) + ']%uint63)'


def gbool(b):
    return 'true' if b else 'false'


def gfeat(f):
    from depccg.cat import UnaryFeature
    if isinstance(f, UnaryFeature):
        return 'FNone' if f.value is None else f'(FUn {lit(f.value)})'
    return '(FTer ' + ' '.join(lit(x) for kv in f.items() for x in kv) + ')'


def gcat(c):
    from depccg.cat import Atom
    if isinstance(c, Atom):
        return f'(Atom {lit(c.base)} {gfeat(c.feature)})'
    return f'(Fun {gcat(c.left)} {lit(c.slash)} {gcat(c.right)})'


def gopt(x, f):
    return 'None' if x is None else f'(Some {f(x)})'


def gtoken(tok):
    return '[' + ';'.join(f'({lit(k)},{lit(v)})' for k, v in tok.items()) + ']'


def gtokens(toks):
    return '[' + ';'.join(gtoken(t) for t in toks) + ']'


def gtree(t):
    if t.is_leaf:
        return f'(Leaf {gcat(t.cat)} {gtoken(t.token)} {lit(t.op_string)} {lit(t.op_symbol)})'
    if t.is_unary:
        return f'(Un {gcat(t.cat)} {lit(t.op_string)} {lit(t.op_symbol)} {gtree(t.child)})'
    return f'(Bin {gcat(t.cat)} {lit(t.op_string)} {lit(t.op_symbol)} {gbool(t.head_is_left)} {gtree(t.left_child)} {gtree(t.right_child)})'


PREAMBLE_T = '''From Coq Require Import Uint63 ZArith.
Definition T (l : list Uint63.int) : list N := List.map (fun i => Z.to_N (Uint63.to_Z i)) l.
'''
