#!/bin/bash
# Build the framework from files on disk only (offline): regenerate the translated Coq files from /repo,
# build the whole Coq development (full .vo build), build the C++ driver around /repo/depccg/parsing.h.
set -e
cd "$(dirname "$0")"
mkdir -p work evidence
REPO=${DEPCCG_REPO:-/repo}
for g in translate/gen_*.py; do /venv/bin/python -B "$g" "$REPO" coq; done
cd coq
coq_makefile -f _CoqProject -o Makefile > /dev/null
timeout 3000 make -j16 -k > ../work/setup_make.log 2>&1 || { tail -30 ../work/setup_make.log; echo "setup: coq build incomplete (checks rebuild what they need)"; }
cd ..
[ -f harness/build_driver.sh ] && bash harness/build_driver.sh || true
echo setup done
