(* C04 - SPECIFICATION of the Japanese combinatory rules and of the unary labels, written from the property text
   and independent of the combinator code (no Unification, no dictionaries, no pattern literals).
   Definitions only; lemmas are in JaLemmas.v / JaSound.v / JaPure.v, the property theorems in P_C04.v, P_C14_ja.v.

   Shared with the model: the value types (Cat.cat, Cat.feat), `atoms`, `skeleton`, the record `cres` of GramPrims
   and the table of root categories, which is data of the source (GenJaroots.ja_roots, regenerated on every run). *)
From Coq Require Import List NArith Bool.
Import ListNotations.
Require Import Cat GramPrims GenJaroots.
Open Scope N_scope.

(* ---------- texts of the property statement ---------- *)
Definition t_fwd : text := [47].    (* "/" *)
Definition t_bwd : text := [92].    (* "\" *)
Definition t_bar : text := [124].   (* "|" *)
(* an undirected slash `|` of an input stands for either direction *)
Definition fwd (s : text) : Prop := s = t_fwd \/ s = t_bar.
Definition bwd (s : text) : Prop := s = t_bwd \/ s = t_bar.

Definition sym_fa : text := [62].                 (* ">" *)
Definition sym_ba : text := [60].                 (* "<" *)
Definition sym_fc : text := [62;66].              (* ">B" *)
Definition sym_bx (n : nat) : text := [60;66; 48 + N.of_nat n].        (* "<B1" .. "<B4" *)
Definition sym_fx (n : nat) : text := [62;66;120; 48 + N.of_nat n].    (* ">Bx1" .. ">Bx3" *)
Definition sym_sseq : text := [83;83;69;81].      (* "SSEQ" *)

(* ---------- feature triples ---------- *)
Definition feats (c : cat) : list feat := map snd (atoms c).
Definition starts_with_X (v : text) : Prop := exists r, v = 88 :: r.
(* f covers g: same keys, and every value of f equals that of g or is a variable value (starts with 'X') *)
Definition val_le (v w : text) : Prop := v = w \/ starts_with_X v.
Definition covers (f g : feat) : Prop :=
  match f, g with
  | FTer k1 v1 k2 v2 k3 v3, FTer l1 w1 l2 w2 l3 w3 =>
      k1 = l1 /\ k2 = l2 /\ k3 = l3 /\ val_le v1 w1 /\ val_le v2 w2 /\ val_le v3 w3
  | _, _ => False
  end.
Definition subsumes (f g : feat) : Prop := f = g \/ covers f g.
(* equal, or the keys agree and every differing value is on the one side whose value is a variable *)
Definition compatible (f g : feat) : Prop := subsumes f g \/ subsumes g f.
Definition variable (f : feat) : Prop :=
  match f with FTer _ v1 _ v2 _ v3 => starts_with_X v1 \/ starts_with_X v2 \/ starts_with_X v3 | _ => False end.

(* the feature triples compared when b (a part of x) is matched with b' (a part of y), position by position *)
Definition pairs (b b' : cat) : list (feat * feat) := combine (feats b) (feats b').
(* b matches b': identical up to features (same atoms names, slashes, bracketing), compatible triples position-wise *)
Definition matches (b b' : cat) : Prop :=
  skeleton b = skeleton b' /\ Forall (fun p => compatible (fst p) (snd p)) (pairs b b').

(* a comparison (fx, fy) of P binds the variable triple f to g: f is the side that subsumes the other one
   (the side of x is asked first; the side of y only when the triple of x does not subsume) *)
Definition binds_to (P : list (feat * feat)) (f g : feat) : Prop :=
  variable f /\ ((In (f, g) P /\ subsumes f g) \/ (In (g, f) P /\ ~ subsumes g f /\ subsumes f g)).
Definition bound (P : list (feat * feat)) (f : feat) : Prop := exists g, binds_to P f g.
(* c' is c with feature variables instantiated from the comparisons P: an atom whose triple is not bound by any comparison keeps
   it; a bound variable triple f is replaced, as a whole, by a triple g some comparison binds it to *)
Inductive inst (P : list (feat * feat)) : cat -> cat -> Prop :=
| inst_keep b f : ~ bound P f -> inst P (Atom b f) (Atom b f)
| inst_var b f g : binds_to P f g -> inst P (Atom b f) (Atom b g)
| inst_fun l s r l' r' : inst P l l' -> inst P r r' -> inst P (Fun l s r) (Fun l' s r').

(* outer arguments around a core category: wrap core [(s1,d1);(s2,d2)] = (core s1 d1) s2 d2 *)
Definition outer := list (text * cat).
Definition wrap (core : cat) (o : outer) : cat := fold_left (fun acc sd => Fun acc (fst sd) (snd sd)) o core.
(* the same outer arguments, with their own slashes, feature variables instantiated *)
Definition inst_outer (P : list (feat * feat)) (o o' : outer) : Prop :=
  Forall2 (fun sd sd' => fst sd = fst sd' /\ inst P (snd sd) (snd sd')) o o'.

(* a modifier functor (left == right) returns the other category unchanged; otherwise the schema's result *)
Definition result_is (a b other res : cat) (schema : cat -> Prop) : Prop :=
  (a = b -> res = other) /\ (a <> b -> schema res).

(* ---------- the schemata, one per symbol ---------- *)
Inductive Justified_ja (r : cres) (x y : cat) : Prop :=
(* '>'   a/b  b  =>  a *)
| J_fa a s b :
    x = Fun a s b -> fwd s -> matches b y ->
    op_symbol r = sym_fa -> head_is_left r = false ->
    result_is a b y (rcat r) (fun c => inst (pairs b y) a c) ->
    Justified_ja r x y
(* '<'   b  a\b  =>  a *)
| J_ba a s b :
    y = Fun a s b -> bwd s -> matches x b ->
    op_symbol r = sym_ba -> head_is_left r = false ->
    result_is a b x (rcat r) (fun c => inst (pairs x b) a c) ->
    Justified_ja r x y
(* '>B'  a/b  b/c  =>  a/c *)
| J_fc a s b b' s' c :
    x = Fun a s b -> y = Fun b' s' c -> fwd s -> fwd s' -> matches b b' ->
    op_symbol r = sym_fc -> head_is_left r = false ->
    result_is a b y (rcat r) (fun res => exists a' c', inst (pairs b b') a a' /\ inst (pairs b b') c c' /\ res = Fun a' t_fwd c') ->
    Justified_ja r x y
(* '<Bn'  (..(b\c)|d..)  a\b  =>  (..(a\c)|d..)   n = 1 + number of outer arguments (0..3), which keep the slashes they have in x *)
| J_bx b s c o a s' b' :
    x = wrap (Fun b s c) o -> y = Fun a s' b' -> bwd s -> bwd s' -> matches b b' -> (length o <= 3)%nat ->
    op_symbol r = sym_bx (S (length o)) -> head_is_left r = false ->
    result_is a b' x (rcat r) (fun res => exists a' c' o', inst (pairs b b') a a' /\ inst (pairs b b') c c' /\ inst_outer (pairs b b') o o' /\
                                                         res = wrap (Fun a' t_bwd c') o') ->
    Justified_ja r x y
(* '>Bx1'  a/b  b\c  =>  a/c *)
| J_fx1 a s b b' s' c :
    x = Fun a s b -> y = Fun b' s' c -> fwd s -> bwd s' -> matches b b' ->
    op_symbol r = sym_fx 1 -> head_is_left r = false ->
    result_is a b y (rcat r) (fun res => exists a' c', inst (pairs b b') a a' /\ inst (pairs b b') c c' /\ res = Fun a' t_fwd c') ->
    Justified_ja r x y
(* '>Bx2', '>Bx3'  a/b  ((b\c)|d)|e  =>  ((a\c)|d)|e : the crossed slash of the secondary functor is kept, inside y's own outer slashes *)
| J_fxn a s b b' s' c o :
    x = Fun a s b -> y = wrap (Fun b' s' c) o -> fwd s -> bwd s' -> matches b b' -> (1 <= length o <= 2)%nat ->
    op_symbol r = sym_fx (S (length o)) -> head_is_left r = false ->
    result_is a b y (rcat r) (fun res => exists a' c' o', inst (pairs b b') a a' /\ inst (pairs b b') c c' /\ inst_outer (pairs b b') o o' /\
                                                        res = wrap (Fun a' t_bwd c') o') ->
    Justified_ja r x y
(* 'SSEQ'  two root categories  =>  the right one *)
| J_sseq :
    In x ja_roots -> In y ja_roots ->
    op_symbol r = sym_sseq -> head_is_left r = false -> rcat r = y ->
    Justified_ja r x y.

(* the rule name (op_string) that goes with each symbol *)
Definition ja_op_string (sym : text) : option text :=
  if text_eqb sym sym_fa then Some [102;97]            (* fa *)
  else if text_eqb sym sym_ba then Some [98;97]        (* ba *)
  else if text_eqb sym sym_fc then Some [102;99]       (* fc *)
  else if existsb (fun n => text_eqb sym (sym_bx n)) [1;2;3;4]%nat then Some [98;120]    (* bx *)
  else if existsb (fun n => text_eqb sym (sym_fx n)) [1;2;3]%nat then Some [102;120]     (* fx *)
  else if text_eqb sym sym_sseq then Some [111;116;104;101;114]                        (* other *)
  else None.

(* ---------- domain: one feature system (every atom carries a feature triple) ---------- *)
Fixpoint ternary (c : cat) : Prop :=
  match c with
  | Atom _ (FTer _ _ _ _ _ _) => True
  | Atom _ _ => False
  | Fun l _ r => ternary l /\ ternary r
  end.
Fixpoint ternaryb (c : cat) : bool :=
  match c with
  | Atom _ (FTer _ _ _ _ _ _) => true
  | Atom _ _ => false
  | Fun l _ r => ternaryb l && ternaryb r
  end.
(* no variable value anywhere *)
Definition ground (c : cat) : Prop := Forall (fun f => ~ variable f) (feats c).

(* ---------- unary (type-changing) steps ---------- *)
(* the result atom: what remains when all arguments are taken away *)
Fixpoint result_atom (c : cat) : text * feat := match c with Atom b f => (b, f) | Fun l _ _ => result_atom l end.
Definition has_kv (k v : text) (f : feat) : bool :=
  match f with
  | FTer k1 v1 k2 v2 k3 v3 => (text_eqb k k1 && text_eqb v v1) || (text_eqb k k2 && text_eqb v v2) || (text_eqb k k3 && text_eqb v v3)
  | _ => false
  end.
Definition t_mod : text := [109;111;100].  Definition t_adn : text := [97;100;110].  Definition t_adv : text := [97;100;118].
Definition sh_S : cat := Atom [83] FNone.
Definition sh_NP : cat := Atom [78;80] FNone.
Definition sh_S_NP : cat := Fun sh_S t_bwd sh_NP.                     (* S\NP *)
Definition sh_S_NP_NP : cat := Fun (Fun sh_S t_bwd sh_NP) t_bwd sh_NP. (* (S\NP)\NP *)
(* feature-blind shape *)
Definition shape_is (x sh : cat) : bool := cat_eqb (skeleton x) sh.
Definition l_ADNext : text := [65;68;78;101;120;116].  Definition l_ADNint : text := [65;68;78;105;110;116].
Definition l_ADV0 : text := [65;68;86;48].  Definition l_ADV1 : text := [65;68;86;49].  Definition l_ADV2 : text := [65;68;86;50].
Definition l_OTHER : text := [79;84;72;69;82].
Definition ja_unary_label (x : cat) : text :=
  let f := snd (result_atom x) in
  if has_kv t_mod t_adn f then (if shape_is x sh_S then l_ADNext else l_ADNint)
  else if has_kv t_mod t_adv f then
    (if shape_is x sh_S_NP then l_ADV1 else if shape_is x sh_S_NP_NP then l_ADV2 else l_ADV0)
  else l_OTHER.
(* the domain of the label: the result atom carries a feature triple (otherwise Python raises AttributeError) *)
Definition result_ternary (x : cat) : Prop := match snd (result_atom x) with FTer _ _ _ _ _ _ => True | _ => False end.

(* ---------- completeness: identical matched parts ---------- *)
(* when the part the functor asks for is literally the argument (or the argument's result), the schema applies and nothing
   needs instantiating: Expected_ja x y sym c says "the rule named sym must return c for (x, y)" *)
Inductive Expected_ja (x y : cat) : text -> cat -> Prop :=
| E_fa a s b : x = Fun a s b -> y = b -> fwd s -> Expected_ja x y sym_fa (if cat_eqb a b then y else a)
| E_ba a s b : y = Fun a s b -> x = b -> bwd s -> Expected_ja x y sym_ba (if cat_eqb a b then x else a)
| E_fc a s b s' c : x = Fun a s b -> y = Fun b s' c -> fwd s -> fwd s' ->
    Expected_ja x y sym_fc (if cat_eqb a b then y else Fun a t_fwd c)
| E_bx b s c o a s' : x = wrap (Fun b s c) o -> y = Fun a s' b -> bwd s -> bwd s' -> (length o <= 3)%nat ->
    Expected_ja x y (sym_bx (S (length o))) (if cat_eqb a b then x else wrap (Fun a t_bwd c) o)
| E_fx1 a s b s' c : x = Fun a s b -> y = Fun b s' c -> fwd s -> bwd s' ->
    Expected_ja x y (sym_fx 1) (if cat_eqb a b then y else Fun a t_fwd c)
| E_fxn a s b s' c o : x = Fun a s b -> y = wrap (Fun b s' c) o -> fwd s -> bwd s' -> (1 <= length o <= 2)%nat ->
    Expected_ja x y (sym_fx (S (length o))) (if cat_eqb a b then y else wrap (Fun a t_bwd c) o)
| E_sseq : In x ja_roots -> In y ja_roots -> Expected_ja x y sym_sseq y.
