(* C07 - printer/html.py: the MathML (html) output format.
     html_escape / html_unescape      html.escape(s) (quote=True) and a reader of exactly its five entities
     mathml_scan                      re.findall(r'([^\[\]]+)(\[.+?\])*', cat) as a deterministic scanner
     mathml_cat, mathml_subtree       _mathml_cat, _mathml_subtree (bgcolor=None) as texts
     tree_word                        Tree.word (the sentence header of to_mathml); to_mathml / to_string(format='html') itself: FmtHtmlDoc.v
     hnode, hser                      an element tree and its serialisation
     mathml_node / mathml_nodes       the element tree that _mathml_subtree writes (whitespace text nodes included)
     view_html, dec_mathml            the format-independent view and an independent reader of the element tree
   MODEL ONLY - no proofs here.  Python exceptions are explicit: None = KeyError (a token without 'word') or
   IndexError (empty batch, a sentence with an empty n-best list). *)
From Coq Require Import List NArith Bool Arith String Ascii.
Import ListNotations.
Require Import Cat Tree GenTables Fmt.
Local Open Scope N_scope.

(* ---------- html.escape / unescape ---------- *)
Definition hNL : N := 10.
Definition cAMP : N := 38.
Definition cQUOT : N := 34.
Definition cAPOS : N := 39.
Definition e_amp : text := Eval vm_compute in T "&amp;".
Definition e_lt : text := Eval vm_compute in T "&lt;".
Definition e_gt : text := Eval vm_compute in T "&gt;".
Definition e_quot : text := Eval vm_compute in T "&quot;".
Definition e_apos : text := Eval vm_compute in T "&#x27;".

(* html.escape is a chain of str.replace: & to &amp; then < to &lt; then > to &gt; then U+0022 to &quot; then U+0027 to &#x27;
   '&' is replaced first and no later replacement looks at '&', so the chain is a character-wise substitution *)
Definition esc1 (c : N) : text :=
  if N.eqb c cAMP then e_amp
  else if N.eqb c cLT then e_lt
  else if N.eqb c cGT then e_gt
  else if N.eqb c cQUOT then e_quot
  else if N.eqb c cAPOS then e_apos
  else [c].
Definition html_escape (s : text) : text := flat_map esc1 s.

Fixpoint starts_with (p s : text) : bool :=
  match p, s with
  | [], _ => true
  | x :: p', y :: s' => N.eqb x y && starts_with p' s'
  | _ :: _, [] => false
  end.
(* the entity that starts here: (the character it stands for, how many further characters belong to it) *)
Definition entity_at (s : text) : option (N * nat) :=
  if starts_with e_amp s then Some (cAMP, 4%nat)
  else if starts_with e_lt s then Some (cLT, 3%nat)
  else if starts_with e_gt s then Some (cGT, 3%nat)
  else if starts_with e_quot s then Some (cQUOT, 5%nat)
  else if starts_with e_apos s then Some (cAPOS, 5%nat)
  else None.
(* one left-to-right pass; `skip` = characters of the entity just read that are still to be dropped *)
Fixpoint unesc (skip : nat) (s : text) : text :=
  match s with
  | [] => []
  | c :: r =>
      match skip with
      | S k => unesc k r
      | O => match entity_at s with
             | Some (ch, n) => ch :: unesc n r
             | None => c :: unesc 0 r
             end
      end
  end.
Definition html_unescape (s : text) : text := unesc 0 s.

(* ---------- re.findall(r'([^\[\]]+)(\[.+?\])*', cat) ---------- *)
Definition is_br (c : N) : bool := N.eqb c cLB || N.eqb c cRB.
(* [^\[\]]+ is greedy and nothing after it can fail: the maximal run of non-bracket characters, and the rest *)
Fixpoint span_run (s : text) : text * text :=
  match s with
  | [] => ([], [])
  | c :: r => if is_br c then ([], s) else let '(a, b) := span_run r in (c :: a, b)
  end.
(* the lazy tail of .+? : extend character by character until a ']' is next; '.' does not match U+000A *)
Fixpoint find_close (s : text) : option (text * text) :=
  match s with
  | [] => None
  | c :: r =>
      if N.eqb c cRB then Some ([], r)
      else if N.eqb c hNL then None
      else match find_close r with Some (a, b) => Some (c :: a, b) | None => None end
  end.
(* one iteration of (\[.+?\]) : '[', one character other than U+000A (it may be a bracket), then the lazy tail.
   Some (the group text, what follows it) *)
Definition bracket_group (s : text) : option (text * text) :=
  match s with
  | o :: x :: r =>
      if N.eqb o cLB && negb (N.eqb x hNL) then
        match find_close r with Some (a, b) => Some (o :: x :: a ++ [cRB], b) | None => None end
      else None
  | _ => None
  end.
(* (...)* : as many iterations as match; the group keeps the text of the last one ('' if there was none).
   Every iteration consumes at least three characters, so fuel = length of the text is never exhausted. *)
Fixpoint hgroups (fuel : nat) (s last : text) : text * text :=
  match fuel with
  | O => (last, s)
  | S f => match bracket_group s with
           | Some (g, rest) => hgroups f rest g
           | None => (last, s)
           end
  end.
(* findall: a match starts at the first character that is not a bracket; scanning goes on after the match.
   Every step consumes at least one character, so fuel = length of the text is never exhausted. *)
Fixpoint hscan (fuel : nat) (s : text) : list (text * text) :=
  match fuel with
  | O => []
  | S f =>
      match s with
      | [] => []
      | c :: r =>
          if is_br c then hscan f r
          else let '(g1, rest) := span_run s in
               let '(g2, rest') := hgroups (List.length rest) rest [] in
               (g1, g2) :: hscan f rest'
      end
  end.
Definition mathml_scan (s : text) : list (text * text) := hscan (List.length s) s.

(* ---------- _mathml_cat ---------- *)
Definition x_mi_cat_open : text := Eval vm_compute in T "<mi mathvariant='italic'" ++ [hNL] ++ T "  mathsize='1.0' mathcolor='Red'>".
Definition x_mi_close : text := Eval vm_compute in T "</mi>".
Definition x_msub_open : text := Eval vm_compute in T "<msub>".
Definition x_feat_open : text :=
  Eval vm_compute in [hNL] ++ T "  <mrow>" ++ [hNL] ++ T "  <mi mathvariant='italic'" ++ [hNL] ++ T "    mathsize='0.8' mathcolor='Purple'>".
Definition x_feat_close : text := Eval vm_compute in T "</mi>" ++ [hNL] ++ T "  </mrow>" ++ [hNL] ++ T "</msub>".

Definition mathml_piece (p : text * text) : text :=
  let cat := html_escape (fst p) in
  let feat := html_escape (snd p) in
  let cat_mathml := x_mi_cat_open ++ cat ++ x_mi_close in
  match feat with
  | [] => cat_mathml
  | _ => x_msub_open ++ cat_mathml ++ x_feat_open ++ feat ++ x_feat_close
  end.
Definition mathml_cat (s : text) : text := List.concat (map mathml_piece (mathml_scan s)).

(* ---------- _mathml_subtree (bgcolor=None, so {3} = '') ---------- *)
Definition x_term_a : text :=
  Eval vm_compute in T "<mrow>" ++ [hNL] ++ T "  <mfrac linethickness='2px'>" ++ [hNL] ++ T "    <mtext mathsize='1.0' mathcolor='Black'>".
Definition x_term_b : text := Eval vm_compute in T "</mtext>" ++ [hNL] ++ T "    <mstyle mathcolor='Red'>".
Definition x_term_c : text :=
  Eval vm_compute in T "</mstyle>" ++ [hNL] ++ T "  </mfrac>" ++ [hNL] ++ T "  <mtext mathsize='0.8' mathcolor='Black'>lex</mtext>" ++ [hNL] ++ T "</mrow>" ++ [hNL].
Definition x_non_a : text :=
  Eval vm_compute in T "<mrow>" ++ [hNL] ++ T "  <mfrac  linethickness='2px'>" ++ [hNL] ++ T "    <mrow>".
Definition x_non_b : text := Eval vm_compute in T "</mrow>" ++ [hNL] ++ T "    <mstyle mathcolor='Red'>".
Definition x_non_c : text :=
  Eval vm_compute in T "</mstyle>" ++ [hNL] ++ T "  </mfrac>" ++ [hNL] ++ T "  <mtext mathsize='0.8' mathcolor='Black'>".
Definition x_non_d : text := Eval vm_compute in T "</mtext>" ++ [hNL] ++ T "</mrow>" ++ [hNL].

(* _MATHML_SUBTREE_TERMINAL.format(word, cat) / _MATHML_SUBTREE_NONTERMINAL.format(children, cat, rule, '') *)
Definition fmt_terminal (word cat : text) : text := x_term_a ++ word ++ x_term_b ++ cat ++ x_term_c.
Definition fmt_nonterminal (children cat rule : text) : text := x_non_a ++ children ++ x_non_b ++ cat ++ x_non_c ++ rule ++ x_non_d.

Fixpoint mathml_subtree (t : tree) : option text :=
  match t with
  | Leaf c tok _ _ =>
      match leaf_word tok with
      | None => None                                              (* tree.word: KeyError 'word' *)
      | Some w => Some (fmt_terminal (html_escape w) (mathml_cat (show c)))
      end
  | Un c ops _ t1 =>
      match mathml_subtree t1 with
      | Some s1 => Some (fmt_nonterminal s1 (mathml_cat (show c)) (html_escape ops))
      | None => None
      end
  | Bin c ops _ _ l r =>
      match mathml_subtree l, mathml_subtree r with
      | Some s1, Some s2 => Some (fmt_nonterminal (s1 ++ s2) (mathml_cat (show c)) (html_escape ops))
      | _, _ => None
      end
  end.

(* ---------- to_mathml / to_string(format='html') ---------- *)
Fixpoint opt_list {A : Type} (l : list (option A)) : option (list A) :=
  match l with
  | [] => Some []
  | None :: _ => None
  | Some x :: r => match opt_list r with Some y => Some (x :: y) | None => None end
  end.
(* Tree.word = ' '.join(token['word'] for token in self.tokens) *)
Definition tree_word (t : tree) : option text := option_map (join [cSP]) (opt_list (map leaf_word (tokens t))).

(* to_mathml itself (the sentence header, the score line, the <math> wrapper, the page of _MATHML_MAIN) is in FmtHtmlDoc.v: its
   constant texts are not written here but generated from the source (GenFmt.v) *)

(* ---------- element trees ---------- *)
(* HText holds character data un-escaped; attrs is the raw text between the tag name and '>' (leading blank included) *)
Inductive hnode :=
| HText (s : text)
| HEl (tag : text) (attrs : text) (kids : list hnode).

Fixpoint hser (n : hnode) : text :=
  match n with
  | HText s => html_escape s
  | HEl tag attrs kids =>
      [cLT] ++ tag ++ attrs ++ [cGT] ++
      (fix go (l : list hnode) : text := match l with [] => [] | k :: r => hser k ++ go r end) kids ++
      [cLT; cSL] ++ tag ++ [cGT]
  end.
Definition hser_list (l : list hnode) : text := List.concat (map hser l).

Definition t_mi : text := Eval vm_compute in T "mi".
Definition t_msub : text := Eval vm_compute in T "msub".
Definition t_mrow : text := Eval vm_compute in T "mrow".
Definition t_mfrac : text := Eval vm_compute in T "mfrac".
Definition t_mstyle : text := Eval vm_compute in T "mstyle".
Definition t_mtext : text := Eval vm_compute in T "mtext".
Definition a_mi_cat : text := Eval vm_compute in T " mathvariant='italic'" ++ [hNL] ++ T "  mathsize='1.0' mathcolor='Red'".
Definition a_mi_feat : text := Eval vm_compute in T " mathvariant='italic'" ++ [hNL] ++ T "    mathsize='0.8' mathcolor='Purple'".
Definition a_frac_leaf : text := Eval vm_compute in T " linethickness='2px'".
Definition a_frac_node : text := Eval vm_compute in T "  linethickness='2px'".
Definition a_word : text := Eval vm_compute in T " mathsize='1.0' mathcolor='Black'".
Definition a_rule : text := Eval vm_compute in T " mathsize='0.8' mathcolor='Black'".
Definition a_style : text := Eval vm_compute in T " mathcolor='Red'".
Definition ws0 : text := [hNL].                                   (* newline *)
Definition ws2 : text := [hNL; cSP; cSP].                          (* newline + 2 blanks *)
Definition ws4 : text := [hNL; cSP; cSP; cSP; cSP].                (* newline + 4 blanks *)

(* what _mathml_cat writes for one (cat, feat) pair of the scanner *)
Definition cat_piece_node (p : text * text) : hnode :=
  let mi := HEl t_mi a_mi_cat [HText (fst p)] in
  match snd p with
  | [] => mi
  | feat => HEl t_msub [] [mi; HText ws2; HEl t_mrow [] [HText ws2; HEl t_mi a_mi_feat [HText feat]; HText ws2]; HText ws0]
  end.
Definition cat_nodes (c : cat) : list hnode := map cat_piece_node (mathml_scan (show c)).

Definition tree_el (frac_attrs : text) (top : hnode) (c : cat) (rule : text) : hnode :=
  HEl t_mrow [] [HText ws2;
                 HEl t_mfrac frac_attrs [HText ws4; top; HText ws4; HEl t_mstyle a_style (cat_nodes c); HText ws2];
                 HText ws2;
                 HEl t_mtext a_rule [HText rule];
                 HText ws0].
(* the <mrow> element of _mathml_subtree(tree); the template writes one more newline after it *)
Fixpoint mathml_node (t : tree) : option hnode :=
  match t with
  | Leaf c tok _ _ =>
      match leaf_word tok with
      | None => None
      | Some w => Some (tree_el a_frac_leaf (HEl t_mtext a_word [HText w]) c s_lex)
      end
  | Un c ops _ t1 =>
      match mathml_node t1 with
      | Some n1 => Some (tree_el a_frac_node (HEl t_mrow [] [n1; HText ws0]) c ops)
      | None => None
      end
  | Bin c ops _ _ l r =>
      match mathml_node l, mathml_node r with
      | Some n1, Some n2 => Some (tree_el a_frac_node (HEl t_mrow [] [n1; HText ws0; n2; HText ws0]) c ops)
      | _, _ => None
      end
  end.
(* the node list whose serialisation is _mathml_subtree(tree): the element and the trailing newline *)
Definition mathml_nodes (t : tree) : option (list hnode) := option_map (fun n => [n; HText ws0]) (mathml_node t).

(* ---------- the view and an independent reader of the element tree ---------- *)
Definition view_html (t : tree) : option (view text) := project leaf_word LabString false t.

Definition h_is_ws (s : text) : bool := forallb (fun c => existsb (N.eqb c) [9; 10; 12; 13; 32]) s.
Definition h_is_ws_node (n : hnode) : bool := match n with HText s => h_is_ws s | HEl _ _ _ => false end.
Definition h_tag_is (n : hnode) (t : text) : bool := match n with HEl tag _ _ => text_eqb tag t | HText _ => false end.
(* the character data of an element that holds text only *)
Fixpoint h_text_of (kids : list hnode) : option text :=
  match kids with
  | [] => Some []
  | HText s :: r => match h_text_of r with Some x => Some (s ++ x) | None => None end
  | HEl _ _ _ :: _ => None
  end.
(* category text: the texts of all <mi> descendants in document order; only <mstyle> <msub> <mrow> and
   whitespace may be around them *)
Fixpoint mi_texts (n : hnode) : option text :=
  match n with
  | HText s => if h_is_ws s then Some [] else None
  | HEl tag _ kids =>
      if text_eqb tag t_mi then h_text_of kids
      else if text_eqb tag t_mstyle || text_eqb tag t_msub || text_eqb tag t_mrow then
        (fix go (l : list hnode) : option text :=
           match l with
           | [] => Some []
           | k :: r => match mi_texts k, go r with Some a, Some b => Some (a ++ b) | _, _ => None end
           end) kids
      else None
  end.

(* what an element is, read bottom-up *)
Inductive hrole :=
| RTree (v : view text)                          (* <mrow> of <mfrac> and the rule <mtext> *)
| RFracLeaf (c : cat) (w : text)                 (* <mfrac> of a word <mtext> and <mstyle> *)
| RFracNode (c : cat) (vs : list (view text))    (* <mfrac> of a premise <mrow> and <mstyle> *)
| RPrems (vs : list (view text))                 (* <mrow> that holds trees only (at least one) *)
| RWord (s : text)                               (* <mtext> *)
| RNothing.
Fixpoint h_all_trees (l : list (hnode * hrole)) : option (list (view text)) :=
  match l with
  | [] => Some []
  | (_, RTree v) :: r => match h_all_trees r with Some vs => Some (v :: vs) | None => None end
  | _ => None
  end.
(* `sub` = the children that are not whitespace-only text, each with its hrole *)
Definition hdec_el (tag : text) (kids : list hnode) (sub : list (hnode * hrole)) : hrole :=
  if text_eqb tag t_mtext then
    match h_text_of kids with Some s => RWord s | None => RNothing end
  else if text_eqb tag t_mfrac then
    match sub with
    | [(_, top); (ms, _)] =>
        if h_tag_is ms t_mstyle then
          match mi_texts ms with
          | Some ct =>
              match parse_cat ct with
              | Some c => match top with RWord w => RFracLeaf c w | RPrems vs => RFracNode c vs | _ => RNothing end
              | None => RNothing
              end
          | None => RNothing
          end
        else RNothing
    | _ => RNothing
    end
  else if text_eqb tag t_mrow then
    match sub with
    | [(_, RFracLeaf c w); (_, RWord rule)] => if text_eqb rule s_lex then RTree (VLeaf c w) else RNothing
    | [(_, RFracNode c [v]); (_, RWord rule)] => RTree (VUn c rule v)
    | [(_, RFracNode c [l; r]); (_, RWord rule)] => RTree (VBin c rule true l r)
    | _ => match h_all_trees sub with Some (v :: vs) => RPrems (v :: vs) | _ => RNothing end
    end
  else RNothing.
Definition hkeep (p : hnode * hrole) : bool := negb (h_is_ws_node (fst p)).
Fixpoint hdec (n : hnode) : hrole :=
  match n with
  | HText _ => RNothing
  | HEl tag _ kids =>
      hdec_el tag kids
        (filter hkeep ((fix go (l : list hnode) : list (hnode * hrole) :=
                         match l with [] => [] | k :: r => (k, hdec k) :: go r end) kids))
  end.
Definition dec_mathml (n : hnode) : option (view text) := match hdec n with RTree v => Some v | _ => None end.
(* the content of <math>: exactly one tree (whitespace around it) *)
Definition dec_mathml_list (l : list hnode) : option (view text) :=
  match filter (fun n => negb (h_is_ws_node n)) l with [n] => dec_mathml n | _ => None end.

(* no newline inside a feature: the hypothesis under which the scanner keeps every bracket *)
Fixpoint nonl_feats (c : cat) : bool :=
  match c with
  | Atom _ f => negb (has hNL (show_feat f))
  | Fun l _ r => nonl_feats l && nonl_feats r
  end.
Fixpoint cats_nonl (t : tree) : bool :=
  match t with
  | Leaf c _ _ _ => nonl_feats c
  | Un c _ _ t1 => nonl_feats c && cats_nonl t1
  | Bin c _ _ _ l r => nonl_feats c && cats_nonl l && cats_nonl r
  end.

(* ---------- a tag / text parser for the subset that hser writes ---------- *)
(* the longest prefix without a stop character, and the rest *)
Fixpoint span_until (stop : N -> bool) (s : text) : text * text :=
  match s with
  | [] => ([], [])
  | c :: r => if stop c then ([], s) else let '(a, b) := span_until stop r in (c :: a, b)
  end.
Fixpoint strip_prefix (p s : text) : option text :=
  match p, s with
  | [], _ => Some s
  | x :: p', y :: s' => if N.eqb x y then strip_prefix p' s' else None
  | _ :: _, [] => None
  end.
(* a tag name ends at a blank, a newline, a tab, '>' or '/' *)
Definition name_stop (c : N) : bool := N.eqb c cSP || N.eqb c hNL || N.eqb c 9 || N.eqb c cGT || N.eqb c cSL || N.eqb c cLT.
(* nodes up to the next closing tag (or the end of the text): Some (nodes, the text from that closing tag on).
   Character data is read through html_unescape; there are no comments, no self-closing tags, no quoted '>' in attributes.
   Every recursive call is on a strictly shorter text, so fuel = 1 + length of the text is never exhausted
   (FmtHtmlProofs.hparse_nodes_ser gives the result for every fuel above the length). *)
Fixpoint hparse_nodes (fuel : nat) (s : text) : option (list hnode * text) :=
  match fuel with
  | O => None
  | S f =>
      match s with
      | [] => Some ([], [])
      | c :: r =>
          if N.eqb c cLT then
            match r with
            | [] => None
            | d :: _ =>
                if N.eqb d cSL then Some ([], s)
                else
                  let '(tag, r1) := span_until name_stop r in
                  let '(attrs, r2) := span_until (N.eqb cGT) r1 in
                  match tag, r2 with
                  | _ :: _, _ :: r3 =>
                      match hparse_nodes f r3 with
                      | Some (kids, r4) =>
                          match strip_prefix ([cLT; cSL] ++ tag ++ [cGT]) r4 with
                          | Some r5 =>
                              match hparse_nodes f r5 with
                              | Some (sibs, r6) => Some (HEl tag attrs kids :: sibs, r6)
                              | None => None
                              end
                          | None => None
                          end
                      | None => None
                      end
                  | _, _ => None
                  end
            end
          else
            let '(raw, r1) := span_until (N.eqb cLT) s in
            match hparse_nodes f r1 with
            | Some (sibs, r2) => Some (HText (html_unescape raw) :: sibs, r2)
            | None => None
            end
      end
  end.
Definition hparse (s : text) : option (list hnode) :=
  match hparse_nodes (S (List.length s)) s with Some (ns, []) => Some ns | _ => None end.

(* the node lists that a parser can give back: no empty text node, no two text nodes in a row, tag names non-empty
   and free of the stop characters, attribute text empty or starting with a blank / newline and free of '>' *)
Definition is_text (n : hnode) : bool := match n with HText _ => true | HEl _ _ _ => false end.
Fixpoint no_adj (l : list hnode) : bool :=
  match l with
  | a :: r => match r with b :: _ => negb (is_text a && is_text b) | [] => true end && no_adj r
  | [] => true
  end.
Definition tag_ok (tag : text) : bool :=
  match tag with [] => false | _ => forallb (fun c => negb (name_stop c)) tag end.
Definition attrs_ok (a : text) : bool :=
  match a with [] => true | c :: _ => N.eqb c cSP || N.eqb c hNL end && forallb (fun c => negb (N.eqb cGT c)) a.
Fixpoint hnorm (n : hnode) : bool :=
  match n with
  | HText s => match s with [] => false | _ => true end
  | HEl tag attrs kids =>
      tag_ok tag && attrs_ok attrs && no_adj kids &&
      (fix go (l : list hnode) : bool := match l with [] => true | k :: r => hnorm k && go r end) kids
  end.
Definition hnorm_list (l : list hnode) : bool := no_adj l && forallb hnorm l.

(* every printed word and rule label is non-empty (an empty one leaves no text node behind) *)
Fixpoint texts_nonempty (t : tree) : bool :=
  match t with
  | Leaf _ tok _ _ => match leaf_word tok with Some [] => false | _ => true end
  | Un _ ops _ t1 => match ops with [] => false | _ => true end && texts_nonempty t1
  | Bin _ ops _ _ l r => match ops with [] => false | _ => true end && texts_nonempty l && texts_nonempty r
  end.
