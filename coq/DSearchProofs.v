(* The deterministic twin of parse_sentence (DSearch.v) is a run of the implementation-level model of AStarImpl.v:
   every iteration of DSearch.dstep pops an agenda item of maximal priority (the top of libstdc++'s heap, HeapProofs.v)
   and performs AStarImpl.jstep on the abstraction of its state (heap vector -> agenda up to permutation, ordered cells ->
   chart up to permutation, goal cell reversed -> goal list).  Hence every theorem proved for ALL valid runs (jreach) holds
   for THE run the C++ makes; in particular the optimality of the first parse and the n-best theorems. *)
From Coq Require Import List ZArith Lia Bool Arith Permutation Sorted.
Import ListNotations.
Require Import AStar AStarLoss AStarOpt AStarImpl AStarRefine AStarThms AStarReplay AStarDistinct Heap HeapProofs DSearch.
Open Scope Z_scope.

(* ---------- small general facts ---------- *)
Lemma existsb_perm {A} (f : A -> bool) l l' : Permutation l l' -> existsb f l = existsb f l'.
Proof.
  induction 1 as [|x l l' _ IH|x y l|l l' l'' _ IH1 _ IH2]; simpl; try congruence.
  - destruct (f x), (f y); reflexivity.
Qed.

Lemma dlen_pos {C} (d : @deriv C) : (1 <= dlen d)%nat.
Proof. induction d as [i c|k c d IH|k c hl l IHl r IHr]; simpl; lia. Qed.

Lemma sort_desc_one {C} (g : @jitem C) : sort_desc [g] = [g].
Proof. reflexivity. Qed.

Section Sim.
Context {C : Type}.
Variable ceqb : C -> C -> bool.
Hypothesis ceqb_eq : forall a b, ceqb a b = true <-> a = b.
Variable n : nat.
Variable tag : nat -> C -> Z.
Variable dep : nat -> nat -> Z.
Variable adm : nat -> list C.
Variable besttag bestdep : nat -> Z.
Variable bin : C -> C -> list (C * bool).
Variable un : C -> list C.
Variable isroot : C -> bool.
Variable pen : Z.
Variable dedup : bool.
Variable max_step nbest : nat.
(* the `nbest_` flag of the charts is nbest > 1 *)
Hypothesis Hmode : dedup = true -> (nbest <= 1)%nat.

Notation jitem := (@jitem C).
Notation jstate := (@jstate C).
Notation ditem := (@ditem C).
Notation dstate := (@dstate C).
Notation cell := (@cell C).
Notation fields_ok := (fields_ok n tag dep besttag bestdep pen).
Notation JOK := (JOK n tag dep besttag bestdep pen).
Notation jstep := (jstep ceqb n dep besttag bestdep bin un isroot pen dedup).
Notation jinit := (jinit n tag adm besttag bestdep).
Notation jreach := (jreach ceqb n tag dep adm besttag bestdep bin un isroot pen dedup max_step nbest).
Notation jpushes := (jpushes n dep besttag bestdep bin un isroot pen).
Notation jpush_right := (jpush_right n dep besttag bestdep bin).
Notation jpush_left := (jpush_left n dep besttag bestdep bin).
Notation dstep := (dstep ceqb n dep besttag bestdep bin un isroot pen dedup).
Notation dinit := (dinit n tag adm besttag bestdep).
Notation dpushes := (dpushes n dep besttag bestdep bin un isroot pen).
Notation dpush_right := (dpush_right n dep besttag bestdep bin).
Notation dpush_left := (dpush_left n dep besttag bestdep bin).
Notation dcomb_right := (dcomb_right n dep besttag bestdep bin).
Notation dcomb_left := (dcomb_left n dep besttag bestdep bin).
Notation drunning_b := (drunning_b max_step nbest).
Notation drun := (drun ceqb n dep besttag bestdep bin un isroot pen dedup max_step nbest).
Notation dfinal := (dfinal ceqb n tag dep adm besttag bestdep bin un isroot pen dedup max_step nbest).
Notation dlt := (@dlt C).

Lemma dlt_swo : swo dlt.
Proof. exact (swo_key (fun x : ditem => jprio (d_item x))). Qed.

(* ---------- an item is determined by its derivation and its fin flag ---------- *)
Lemma fields_inj (a b : jitem) : fields_ok a -> fields_ok b -> jfin a = jfin b -> jder a = jder b -> a = b.
Proof.
  intros (Hi & Ho & Hs & Hl & Hh) (Hi' & Ho' & Hs' & Hl' & Hh') Hf Hd.
  destruct a as [fa da ia oa sa la ha], b as [fb db ib ob sb lb hb]. simpl in *. subst fb db. congruence.
Qed.

Lemma jsame_refl (a : jitem) : jsame ceqb a a = true.
Proof. unfold jsame. rewrite Bool.eqb_reflx. simpl. now apply (deriv_eqb_eq ceqb ceqb_eq). Qed.

Lemma jsame_eq (a b : jitem) : fields_ok a -> fields_ok b -> jsame ceqb a b = true -> a = b.
Proof.
  intros Ha Hb H. unfold jsame in H. apply andb_true_iff in H as [Hf Hd].
  apply Bool.eqb_prop in Hf. apply (deriv_eqb_eq ceqb ceqb_eq) in Hd. now apply fields_inj.
Qed.

Lemma jremove_perm (a : jitem) l : (forall b, In b l -> fields_ok b) -> In a l -> Permutation l (a :: jremove ceqb a l).
Proof.
  induction l as [|b r IH]; intros Hok Hin; [destruct Hin|]. simpl.
  destruct (jsame ceqb a b) eqn:E.
  - assert (a = b) as <- by (apply jsame_eq; [apply Hok; exact Hin | apply Hok; now left | exact E]). reflexivity.
  - destruct Hin as [<-|Hin]; [rewrite jsame_refl in E; discriminate|].
    rewrite perm_swap. constructor. apply IH; [|exact Hin]. intros x Hx. apply Hok. now right.
Qed.

(* ---------- the ordered chart and its abstraction ---------- *)
Definition cell_wf (c : cell) : Prop :=
  forall o, In o (snd c) -> jstart (fst o) = fst (fst c) /\ jlen (fst o) = snd (fst c).
Definition chart_wf (ch : list cell) : Prop := Forall cell_wf ch /\ NoDup (map fst ch).
Definition cabs (ch : list cell) : list jitem := flat_map (fun c => map fst (snd c)) ch.

Lemma cell_is_iff s l (c : cell) : cell_is s l c = true <-> fst c = (s, l).
Proof.
  unfold cell_is. destruct c as [[s' l'] its]. simpl. rewrite andb_true_iff, !Nat.eqb_eq. split.
  - intros [-> ->]. reflexivity.
  - intros E. inversion E. split; reflexivity.
Qed.

Lemma cell_add_keys ch s l (x : @sitem C) :
  (In (s, l) (map fst ch) -> map fst (cell_add ch s l x) = map fst ch) /\
  (~ In (s, l) (map fst ch) -> map fst (cell_add ch s l x) = map fst ch ++ [(s, l)]).
Proof.
  induction ch as [|c r [IH1 IH2]]; simpl.
  - split; [intros [] | reflexivity].
  - destruct (cell_is s l c) eqn:E.
    + apply cell_is_iff in E. split; [reflexivity|]. intros H. exfalso. apply H. now left.
    + assert (Hne : fst c <> (s, l)) by (intros H; apply cell_is_iff in H; congruence). simpl. split.
      * intros [H|H]; [contradiction|]. now rewrite IH1.
      * intros H. rewrite IH2; [reflexivity|]. intros H'. apply H. now right.
Qed.

Lemma cell_add_wf ch (a : jitem) i : chart_wf ch -> chart_wf (cell_add ch (jstart a) (jlen a) (a, i)).
Proof.
  intros [Hw Hn]. split.
  - clear Hn. induction ch as [|c r IH]; simpl.
    + constructor; [|constructor]. intros o [<-|[]]. simpl. split; reflexivity.
    + inversion Hw as [|c' r' Hc Hr]; subst. destruct (cell_is (jstart a) (jlen a) c) eqn:E.
      * constructor; [|exact Hr]. apply cell_is_iff in E. intros o [<-|Ho]; simpl.
        -- rewrite E. split; reflexivity.
        -- apply Hc. exact Ho.
      * constructor; [exact Hc | now apply IH].
  - destruct (cell_add_keys ch (jstart a) (jlen a) (a, i)) as [K1 K2].
    destruct (in_dec (fun x y : nat * nat => ltac:(decide equality; apply Nat.eq_dec)) (jstart a, jlen a) (map fst ch)) as [Hin|Hnin].
    + now rewrite K1.
    + rewrite K2 by exact Hnin. apply (Permutation_NoDup (l := (jstart a, jlen a) :: map fst ch)).
      * apply Permutation_cons_append.
      * now constructor.
Qed.

Lemma cabs_cell_add ch s l (x : @sitem C) : Permutation (cabs (cell_add ch s l x)) (fst x :: cabs ch).
Proof.
  induction ch as [|c r IH]; simpl; [reflexivity|].
  destruct (cell_is s l c); simpl; [reflexivity|].
  unfold cabs in IH. rewrite IH. symmetry. apply Permutation_middle.
Qed.

Lemma items_no_match (a : jitem) s l (its : list (@sitem C)) :
  (forall o, In o its -> jstart (fst o) = s /\ jlen (fst o) = l) -> ((s =? jstart a)%nat && (l =? jlen a)%nat = false) ->
  existsb (jkey_eqb ceqb a) (map fst its) = false.
Proof.
  intros H E. induction its as [|o its IH]; [reflexivity|]. simpl.
  destruct (H o (or_introl eq_refl)) as [Hs Hl]. unfold jkey_eqb at 1. rewrite Hs, Hl.
  rewrite (Nat.eqb_sym (jstart a)), (Nat.eqb_sym (jlen a)), E. simpl. apply IH. intros x Hx. apply H. now right.
Qed.

Lemma items_match (a : jitem) (its : list (@sitem C)) :
  (forall o, In o its -> jstart (fst o) = jstart a /\ jlen (fst o) = jlen a) ->
  existsb (jkey_eqb ceqb a) (map fst its) = cell_contains ceqb its a.
Proof.
  intros H. unfold cell_contains. induction its as [|o its IH]; [reflexivity|]. simpl.
  destruct (H o (or_introl eq_refl)) as [Hs Hl]. unfold jkey_eqb at 1. rewrite Hs, Hl, !Nat.eqb_refl. simpl.
  f_equal. apply IH. intros x Hx. apply H. now right.
Qed.

Lemma rest_no_match (a : jitem) (r : list cell) : Forall cell_wf r -> ~ In (jstart a, jlen a) (map fst r) ->
  existsb (jkey_eqb ceqb a) (cabs r) = false.
Proof.
  induction r as [|c2 r2 IH2]; intros Hr Hnotin; [reflexivity|]. simpl. rewrite existsb_app.
  inversion Hr as [|c2' r2' Hc2 Hr2]; subst.
  rewrite (items_no_match a (fst (fst c2)) (snd (fst c2))).
  - simpl. apply IH2; [exact Hr2|]. intros H. apply Hnotin. now right.
  - exact Hc2.
  - destruct ((fst (fst c2) =? jstart a)%nat && (snd (fst c2) =? jlen a)%nat) eqn:E2; [|reflexivity].
    exfalso. apply Hnotin. left. apply andb_true_iff in E2 as [E2 E3]. apply Nat.eqb_eq in E2, E3.
    destruct c2 as [[s2 l2] i2]. simpl in *. congruence.
Qed.

Lemma contains_eq ch (a : jitem) : chart_wf ch ->
  existsb (jkey_eqb ceqb a) (cabs ch) = cell_contains ceqb (cell_items ch (jstart a) (jlen a)) a.
Proof.
  intros [Hw Hn]. induction ch as [|c r IH]; [reflexivity|].
  inversion Hw as [|c' r' Hc Hr]; subst. simpl in Hn. inversion Hn as [|k ks Hnotin Hn']; subst.
  change (cabs (c :: r)) with (map fst (snd c) ++ cabs r). cbn [cell_items]. rewrite existsb_app.
  destruct (cell_is (jstart a) (jlen a) c) eqn:E.
  - pose proof E as E'. apply cell_is_iff in E'.
    rewrite items_match by (intros o Ho; destruct (Hc o Ho) as [Hs Hl]; rewrite Hs, Hl, E'; split; reflexivity).
    rewrite E' in Hnotin. rewrite (rest_no_match a r Hr Hnotin). apply orb_false_r.
  - rewrite (items_no_match a (fst (fst c)) (snd (fst c))); [cbn [orb]; now apply IH | exact Hc | exact E].
Qed.

(* ---------- the pushes of one iteration ---------- *)
Lemma comb_right_in (a : jitem) ia e (its : list (@sitem C)) :
  (forall o, In o its -> (jstart (fst o) =? e)%nat = true) ->
  map (@d_item C) (flat_map (dcomb_right a ia) its) =
  flat_map (fun o => if (jstart o =? e)%nat
    then map (fun kr => jcombine n dep besttag bestdep a o (fst kr) (fst (snd kr)) (snd (snd kr))) (enum (bin (jcat a) (jcat o)))
    else []) (map fst its).
Proof.
  intros H. induction its as [|o its IH]; [reflexivity|]. simpl. rewrite map_app, IH by (intros x Hx; apply H; now right).
  rewrite (H o (or_introl eq_refl)). f_equal. unfold DSearch.dcomb_right. rewrite map_map. reflexivity.
Qed.

Lemma comb_out {B} (f : jitem -> list B) (cond : jitem -> bool) (its : list (@sitem C)) :
  (forall o, In o its -> cond (fst o) = false) ->
  flat_map (fun o => if cond o then f o else []) (map fst its) = [].
Proof.
  intros H. induction its as [|o its IH]; [reflexivity|]. simpl. rewrite (H o (or_introl eq_refl)). simpl.
  apply IH. intros x Hx. apply H. now right.
Qed.

Lemma push_right_eq (a : jitem) ia ch : Forall cell_wf ch ->
  map (@d_item C) (dpush_right a ia ch) = jpush_right a (cabs ch).
Proof.
  intros Hw. unfold DSearch.dpush_right, AStarImpl.jpush_right, cells_starting_at.
  induction ch as [|c r IH]; [reflexivity|]. inversion Hw as [|c' r' Hc Hr]; subst.
  simpl. rewrite flat_map_app. destruct (fst (fst c) =? jstart a + jlen a)%nat eqn:E.
  - simpl. rewrite map_app, IH by exact Hr. f_equal. apply comb_right_in.
    intros o Ho. destruct (Hc o Ho) as [Hs _]. now rewrite Hs.
  - rewrite IH by exact Hr.
    rewrite (comb_out (fun o => map (fun kr => jcombine n dep besttag bestdep a o (fst kr) (fst (snd kr)) (snd (snd kr))) (enum (bin (jcat a) (jcat o))))
                      (fun o => (jstart o =? jstart a + jlen a)%nat)); [reflexivity|].
    intros o Ho. destruct (Hc o Ho) as [Hs _]. now rewrite Hs.
Qed.

Lemma comb_left_in (a : jitem) ia e (its : list (@sitem C)) :
  (forall o, In o its -> (jstart (fst o) + jlen (fst o) =? e)%nat = true) ->
  map (@d_item C) (flat_map (dcomb_left a ia) its) =
  flat_map (fun o => if (jstart o + jlen o =? e)%nat
    then map (fun kr => jcombine n dep besttag bestdep o a (fst kr) (fst (snd kr)) (snd (snd kr))) (enum (bin (jcat o) (jcat a)))
    else []) (map fst its).
Proof.
  intros H. induction its as [|o its IH]; [reflexivity|]. simpl. rewrite map_app, IH by (intros x Hx; apply H; now right).
  rewrite (H o (or_introl eq_refl)). f_equal. unfold DSearch.dcomb_left. rewrite map_map. reflexivity.
Qed.

Lemma push_left_eq (a : jitem) ia ch : Forall cell_wf ch ->
  map (@d_item C) (dpush_left a ia ch) = jpush_left a (cabs ch).
Proof.
  intros Hw. unfold DSearch.dpush_left, AStarImpl.jpush_left, cells_ending_at.
  induction ch as [|c r IH]; [reflexivity|]. inversion Hw as [|c' r' Hc Hr]; subst.
  simpl. rewrite flat_map_app. destruct (fst (fst c) + snd (fst c) =? jstart a)%nat eqn:E.
  - simpl. rewrite map_app, IH by exact Hr. f_equal. apply comb_left_in.
    intros o Ho. destruct (Hc o Ho) as [Hs Hl]. now rewrite Hs, Hl.
  - rewrite IH by exact Hr.
    rewrite (comb_out (fun o => map (fun kr => jcombine n dep besttag bestdep o a (fst kr) (fst (snd kr)) (snd (snd kr))) (enum (bin (jcat o) (jcat a))))
                      (fun o => (jstart o + jlen o =? jstart a)%nat)); [reflexivity|].
    intros o Ho. destruct (Hc o Ho) as [Hs Hl]. now rewrite Hs, Hl.
Qed.

Lemma jpush_right_self (a : jitem) chj : (1 <= jlen a)%nat -> jpush_right a (a :: chj) = jpush_right a chj.
Proof.
  intros H. unfold AStarImpl.jpush_right. simpl.
  replace (jstart a =? jstart a + jlen a)%nat with false by (symmetry; apply Nat.eqb_neq; lia). reflexivity.
Qed.
Lemma jpush_left_self (a : jitem) chj : (1 <= jlen a)%nat -> jpush_left a (a :: chj) = jpush_left a chj.
Proof.
  intros H. unfold AStarImpl.jpush_left. simpl.
  replace (jstart a + jlen a =? jstart a)%nat with false by (symmetry; apply Nat.eqb_neq; lia). reflexivity.
Qed.

Lemma pushes_perm (a : jitem) ia ch chj : Forall cell_wf ch -> Permutation (cabs ch) (a :: chj) -> (1 <= jlen a)%nat ->
  Permutation (map (@d_item C) (dpushes a ia ch)) (jpushes a chj).
Proof.
  intros Hw Hp Hl. unfold DSearch.dpushes, AStarImpl.jpushes. rewrite !map_app.
  apply Permutation_app; [|apply Permutation_app; [|apply Permutation_app]].
  - unfold dpush_fin, jpush_fin. destruct ((jlen a =? n)%nat && isroot (jcat a)); reflexivity.
  - unfold dpush_un, jpush_un. destruct ((n =? 1)%nat || negb (jlen a =? n)%nat); [|reflexivity].
    rewrite map_map. reflexivity.
  - rewrite push_right_eq by exact Hw. rewrite <- (jpush_right_self a chj Hl).
    unfold AStarImpl.jpush_right. now apply Permutation_flat_map.
  - rewrite push_left_eq by exact Hw. rewrite <- (jpush_left_self a chj Hl).
    unfold AStarImpl.jpush_left. now apply Permutation_flat_map.
Qed.

(* agenda.push for a list of items *)
Lemma push_all_perm (l h : list ditem) : Permutation (push_all l h) (l ++ h).
Proof.
  unfold push_all. revert h. induction l as [|x l IH]; intros h; simpl; [reflexivity|].
  rewrite IH. rewrite (push_perm dlt h x). symmetry. apply Permutation_middle.
Qed.
Lemma push_all_ok (l h : list ditem) : heap_ok dlt h -> heap_ok dlt (push_all l h).
Proof.
  unfold push_all. revert h. induction l as [|x l IH]; intros h Hh; simpl; [exact Hh|].
  apply IH. apply push_heap_ok; [exact dlt_swo | exact Hh].
Qed.

(* ---------- the simulation ---------- *)
Definition dinv (ds : dstate) : Prop := heap_ok dlt (dheap ds) /\ chart_wf (dchart ds).
Definition sim (ds : dstate) (js : jstate) : Prop :=
  Permutation (map (@d_item C) (dheap ds)) (jagenda js) /\ Permutation (cabs (dchart ds)) (jchart js) /\
  rev (dgoal ds) = jgoal js /\ dsteps ds = jsteps js.

Lemma init_sim : sim dinit jinit /\ dinv dinit.
Proof.
  split; [split; [|split; [|split]] | split]; simpl; try reflexivity.
  - rewrite (push_all_perm (dleaves n tag adm besttag bestdep) []), app_nil_r. unfold dleaves.
    rewrite AStarRefine.map_flat_map. apply Permutation_refl'. apply flat_map_ext. intros i. rewrite map_map. reflexivity.
  - apply push_all_ok. apply heap_ok_nil.
  - split; constructor.
Qed.

Lemma running_sim ds js : sim ds js -> drunning_b ds = true -> jrunning max_step nbest js.
Proof.
  intros (Ha & _ & Hg & Hs) H. unfold DSearch.drunning_b in H. apply andb_true_iff in H as [H H3]. apply andb_true_iff in H as [H1 H2].
  apply Nat.ltb_lt in H1, H2. unfold jrunning. rewrite <- Hs, <- Hg, rev_length. repeat split; try assumption.
  intros E. rewrite E in Ha. apply Permutation_sym, Permutation_nil in Ha. destruct (dheap ds); [discriminate H3 | discriminate Ha].
Qed.

Theorem dstep_sim ds js : jreach js -> dinv ds -> sim ds js -> drunning_b ds = true ->
  exists a, jrunning max_step nbest js /\ jvalid_pop a js /\ sim (dstep ds) (jstep a js) /\ dinv (dstep ds).
Proof.
  intros Hr [Hh Hw] Hsim Hrun. pose proof (running_sim ds js Hsim Hrun) as Hjrun.
  destruct Hsim as (Ha & Hc & Hg & Hs).
  destruct (refinement ceqb n tag dep adm besttag bestdep bin un isroot pen dedup max_step nbest js Hr) as [_ (Jag & Jch & Jgo)].
  unfold DSearch.dstep. destruct (pop dlt (dheap ds)) as [[x h]|] eqn:Ep.
  2:{ apply pop_none in Ep. unfold DSearch.drunning_b in Hrun. rewrite Ep in Hrun. rewrite andb_false_r in Hrun. discriminate. }
  pose proof (pop_perm dlt _ _ _ Ep) as Pp. pose proof (pop_max dlt _ _ _ dlt_swo Hh Ep) as Pm.
  pose proof (pop_heap_ok dlt _ _ _ dlt_swo Hh Ep) as Ph.
  set (a := d_item x).
  assert (Hin : In a (jagenda js)).
  { apply (Permutation_in _ Ha). apply in_map. apply (Permutation_in _ (Permutation_sym Pp)). now left. }
  assert (Hv : jvalid_pop a js).
  { split; [exact Hin|]. intros b Hb. apply (Permutation_in _ (Permutation_sym Ha)) in Hb. apply in_map_iff in Hb as [y [<- Hy]].
    specialize (Pm y Hy). unfold DSearch.dlt in Pm. apply Z.ltb_ge in Pm. exact Pm. }
  assert (Hrem : Permutation (map (@d_item C) h) (jremove ceqb a (jagenda js))).
  { apply (Permutation_cons_inv (a := a)). rewrite <- (jremove_perm a (jagenda js) Jag Hin). rewrite <- Ha.
    change (a :: map (@d_item C) h) with (map (@d_item C) (x :: h)). apply Permutation_map. now symmetry. }
  exists a. split; [exact Hjrun|]. split; [exact Hv|].
  unfold AStarImpl.jstep. fold a. destruct (jfin a) eqn:Ef.
  - (* a goal item *)
    assert (Hgoal : (if dedup && existsb (fun g => ceqb (jcat a) (jcat g)) (dgoal ds) then dgoal ds else a :: dgoal ds) = a :: dgoal ds).
    { destruct dedup eqn:Ed; [|reflexivity]. destruct Hjrun as (_ & Hlen & _). rewrite <- Hg, rev_length in Hlen.
      specialize (Hmode eq_refl). destruct (dgoal ds); [reflexivity | simpl in Hlen; lia]. }
    rewrite Hgoal. split; [|split; simpl; assumption].
    split; [|split; [|split]]; simpl; try assumption; [now rewrite Hg | now rewrite Hs].
  - (* a chart item *)
    assert (Hfa : fields_ok a) by (apply Jag; exact Hin).
    assert (Hcont : existsb (jkey_eqb ceqb a) (jchart js) = cell_contains ceqb (cell_items (dchart ds) (jstart a) (jlen a)) a).
    { rewrite <- (existsb_perm _ _ _ Hc). now apply contains_eq. }
    unfold chart_update. rewrite <- Hcont. destruct (dedup && existsb (jkey_eqb ceqb a) (jchart js)).
    + split; [|split; simpl; assumption]. split; [|split; [|split]]; simpl; try assumption. now rewrite Hs.
    + pose proof (cell_add_wf (dchart ds) a (dstored ds) Hw) as Hw'.
      pose proof (cabs_cell_add (dchart ds) (jstart a) (jlen a) (a, dstored ds)) as Hc'. simpl in Hc'.
      assert (Hlen : (1 <= jlen a)%nat).
      { destruct Hfa as (_ & _ & _ & Hl & _). rewrite Hl. apply dlen_pos. }
      split; [|split; simpl; [apply push_all_ok; exact Ph | exact Hw']].
      split; [|split; [|split]]; simpl; try assumption.
      * rewrite (push_all_perm _ h), map_app. apply Permutation_app; [|exact Hrem].
        apply pushes_perm; [exact (proj1 Hw') | | exact Hlen]. rewrite Hc'. now constructor.
      * rewrite Hc'. now constructor.
      * now rewrite Hs.
Qed.

(* the runs of the deterministic model *)
Inductive dreach : dstate -> Prop :=
| dreach_init : dreach dinit
| dreach_step st : dreach st -> drunning_b st = true -> dreach (dstep st).

Theorem dreach_sim ds : dreach ds -> exists js, jreach js /\ sim ds js /\ dinv ds.
Proof.
  induction 1 as [|ds Hd (js & Hr & Hsim & Hinv) Hrun].
  - exists jinit. split; [constructor | exact init_sim].
  - destruct (dstep_sim ds js Hr Hinv Hsim Hrun) as (a & Hjrun & Hv & Hsim' & Hinv').
    exists (jstep a js). split; [now constructor | split; assumption].
Qed.

Lemma drun_reach fuel st : dreach st -> dreach (drun fuel st).
Proof.
  revert st. induction fuel as [|f IH]; intros st H; simpl; [exact H|].
  destruct (drunning_b st) eqn:E; [|exact H]. apply IH. now constructor.
Qed.
Lemma dfinal_reach : dreach dfinal.
Proof. apply drun_reach. constructor. Qed.

Lemma dstep_steps st : dheap st <> [] -> dsteps (dstep st) = S (dsteps st).
Proof.
  intros H. unfold DSearch.dstep. destruct (pop dlt (dheap st)) as [[x h]|] eqn:Ep; [|apply pop_none in Ep; contradiction].
  destruct (jfin (d_item x)); [reflexivity|]. destruct (chart_update _ _ _ _ _); reflexivity.
Qed.

Lemma drun_stops fuel st : (max_step <= dsteps st + fuel)%nat -> drunning_b (drun fuel st) = false.
Proof.
  revert st. induction fuel as [|f IH]; intros st H; simpl.
  - unfold DSearch.drunning_b. replace (dsteps st <? max_step)%nat with false by (symmetry; apply Nat.ltb_ge; lia). reflexivity.
  - destruct (drunning_b st) eqn:E; [|exact E]. apply IH. rewrite dstep_steps; [lia|].
    unfold DSearch.drunning_b in E. destruct (dheap st); [rewrite andb_false_r in E; discriminate | discriminate].
Qed.
Lemma dfinal_stopped : drunning_b dfinal = false.
Proof. apply drun_stops. simpl. lia. Qed.

(* THE run of the C++ is A run of the implementation-level model: same goal list, step count, status and result list *)
Theorem dsearch_run_is_jreach :
  exists js, jreach js /\ jrunning_b max_step nbest js = false /\
             jgoal js = rev (dgoal dfinal) /\ jsteps js = dsteps dfinal /\
             jstatus js = dstatus dfinal /\ jresult js = dresult dfinal.
Proof.
  destruct (dreach_sim dfinal dfinal_reach) as (js & Hr & (Ha & Hc & Hg & Hs) & _).
  exists js. split; [exact Hr|]. split; [|split; [now symmetry | split; [now symmetry | split]]].
  - pose proof dfinal_stopped as H. unfold DSearch.drunning_b in H. unfold jrunning_b.
    rewrite <- Hs, <- Hg, rev_length.
    destruct (dheap dfinal) as [|x r] eqn:Eh.
    + simpl in Ha. apply Permutation_nil in Ha. rewrite Ha. now rewrite !andb_false_r.
    + destruct (jagenda js) as [|y r'] eqn:Ej; [apply Permutation_sym, Permutation_nil in Ha; discriminate|]. exact H.
  - unfold jstatus, dstatus. rewrite <- Hg. destruct (dgoal dfinal) as [|g r]; [reflexivity|]. simpl. destruct (rev r); reflexivity.
  - unfold jresult, dresult. now rewrite <- Hg, rev_involutive.
Qed.
End Sim.

(* ---------- consequences: the theorems for all valid runs, instantiated for the run of the C++ ---------- *)
Section Final.
Context {C : Type}.
Variable ceqb : C -> C -> bool.
Hypothesis ceqb_eq : forall a b, ceqb a b = true <-> a = b.
Variable n : nat.
Variable tag : nat -> C -> Z.
Variable dep : nat -> nat -> Z.
Variable adm : nat -> list C.
Variable besttag bestdep : nat -> Z.
Variable bin : C -> C -> list (C * bool).
Variable un : C -> list C.
Variable isroot : C -> bool.
Variable pen : Z.
Variable max_step nbest : nat.
Hypothesis pen_nonneg : 0 <= pen.
Hypothesis tag_le : forall i c, (i < n)%nat -> In c (adm i) -> tag i c <= besttag i.
Hypothesis dep_le : forall i j, dep i j <= bestdep i.

Notation complete := (complete n adm bin un isroot).
Notation score := (score tag dep pen).
Notation dfinal dd := (dfinal ceqb n tag dep adm besttag bestdep bin un isroot pen dd max_step nbest).

Lemma in_sort_desc (l : list (@jitem C)) x : In x (sort_desc l) <-> In x l.
Proof.
  unfold sort_desc. induction l as [|a l IH]; simpl; [tauto|]. rewrite <- IH. clear IH.
  generalize (fold_right (@insert_desc C) [] l). intros s.
  induction s as [|b s IHs]; simpl; [tauto|]. destruct (jprio b <=? jprio a); simpl; [tauto|]. rewrite IHs. tauto.
Qed.

(* 1-best, head-uniform grammar: the parse the deterministic search returns is a complete derivation of maximum score *)
Theorem dsearch_first_parse_optimal hdir (uniform : forall x y c hl, In (c, hl) (bin x y) -> hl = hdir) :
  (nbest <= 1)%nat -> forall g rest, dresult (dfinal true) = g :: rest ->
  rest = [] /\ complete (jder g) /\ jprio g = score (jder g) /\ forall d, complete d -> score d <= jprio g.
Proof.
  intros Hnb g rest Hres.
  destruct (dsearch_run_is_jreach ceqb ceqb_eq n tag dep adm besttag bestdep bin un isroot pen true max_step nbest (fun _ => Hnb))
    as (js & Hr & _ & Hg & _ & _ & Hjr).
  assert (Hcnt : (length (jgoal js) <= nbest)%nat).
  { clear -Hr. induction Hr as [|st a Hr IH (H1 & H2 & H3) Hv]; [simpl; lia|].
    unfold jstep. destruct (jfin a); [simpl; rewrite app_length; simpl; lia|]. destruct (true && existsb _ _); simpl; lia. }
  rewrite <- Hjr in Hres. unfold jresult in Hres.
  destruct (jgoal js) as [|g0 [|g1 r]] eqn:Eg; [discriminate | | simpl in Hcnt; lia].
  simpl in Hres. inversion Hres; subst g rest. split; [reflexivity|].
  exact (first_goal_in_state ceqb ceqb_eq n tag dep adm besttag bestdep bin un isroot pen max_step nbest
           pen_nonneg tag_le dep_le hdir uniform js Hr g0 [] Eg).
Qed.

(* 1-best: the deterministic search fails only if no derivation exists or the budget ran out *)
Theorem dsearch_failure_only_if_no_parse hdir (uniform : forall x y c hl, In (c, hl) (bin x y) -> hl = hdir) :
  (nbest <= 1)%nat -> dstatus (dfinal true) = 1%nat ->
  (forall d, ~ complete d) \/ (max_step <= dsteps (dfinal true))%nat \/ nbest = 0%nat.
Proof.
  intros Hnb Hst.
  destruct (dsearch_run_is_jreach ceqb ceqb_eq n tag dep adm besttag bestdep bin un isroot pen true max_step nbest (fun _ => Hnb))
    as (js & Hr & Hnr & Hg & Hs & Hjs & _).
  rewrite <- Hs. rewrite <- Hjs in Hst. unfold jstatus in Hst. destruct (jgoal js) eqn:Eg; [|discriminate].
  exact (failed_means_none_or_budget ceqb ceqb_eq n tag dep adm besttag bestdep bin un isroot pen max_step nbest
           pen_nonneg tag_le dep_le hdir uniform js Hr Hnr Eg).
Qed.

(* n-best: every result is a complete derivation with its model score; what was not returned scores no more than anything
   returned; the results are pairwise different and come best first *)
Theorem dsearch_nbest_results :
  let res := dresult (dfinal false) in
  (forall g, In g res -> complete (jder g) /\ jprio g = score (jder g)) /\
  (forall d, complete d -> ~ In d (map (@jder C) res) -> forall g, In g res -> score d <= jprio g) /\
  (length res <= nbest)%nat.
Proof.
  intros res.
  destruct (dsearch_run_is_jreach ceqb ceqb_eq n tag dep adm besttag bestdep bin un isroot pen false max_step nbest
              (fun H => ltac:(discriminate H))) as (js & Hr & _ & Hg & _ & _ & Hjr).
  assert (Hin : forall x, In x res <-> In x (jgoal js)).
  { intros x. unfold res. rewrite <- Hjr. unfold jresult. rewrite in_sort_desc. symmetry. apply in_rev. }
  split; [|split].
  - intros g Hgin. apply Hin in Hgin. split.
    + exact (goal_items_complete_N ceqb ceqb_eq n tag dep adm besttag bestdep bin un isroot pen max_step nbest js g Hr Hgin).
    + exact (goal_score ceqb n tag dep adm besttag bestdep bin un isroot pen max_step nbest false js g Hr Hgin).
  - intros d Hd Hnin g Hgin. apply Hin in Hgin.
    apply (nbest_in_state ceqb ceqb_eq n tag dep adm besttag bestdep bin un isroot pen max_step nbest
             pen_nonneg tag_le dep_le js Hr d Hd); [|exact Hgin].
    intros H. apply Hnin. apply in_map_iff in H as [x [Hx Hxin]]. apply in_map_iff. exists x. split; [exact Hx | now apply Hin].
  - assert (Hcnt : (length (jgoal js) <= nbest)%nat).
    { clear -Hr. induction Hr as [|st a Hr IH (H1 & H2 & H3) Hv]; [simpl; lia|].
      unfold jstep. destruct (jfin a); [simpl; rewrite app_length; simpl; lia|]. destruct (false && existsb _ _); simpl; lia. }
    unfold res, dresult. rewrite Hg, rev_length in Hcnt.
    assert (Hl : forall l : list (@jitem C), length (sort_desc l) = length l).
    { induction l as [|a l IH]; [reflexivity|]. unfold sort_desc in *. simpl. rewrite <- IH.
      generalize (fold_right (@insert_desc C) [] l). intros s. induction s as [|b s IHs]; simpl; [reflexivity|].
      destruct (jprio b <=? jprio a); simpl; [reflexivity | now rewrite IHs]. }
    now rewrite Hl.
Qed.
End Final.
