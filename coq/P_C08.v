(* C08 - AUTO text written by depccg reads back to the same tree.  Property theorems only.
   Model: Auto.v (auto_of, last column of conll_of, denormalize, _fix, _AutoLineReader, read_auto); vocabulary: AutoSpec.v.
   The tables (denormalize, punctuations, category split class, _FIX, the endswith suffixes) are regenerated from the
   source on every run (GenTables.v, GenAuto.v); the facts about them that the proofs use are re-checked by computation.
   [guess] - the grammar's label guess for (target, left, right) - is universally quantified: the theorems hold for any grammar.

   Domain [wf_tree t]: every category is a well-formed value in the sense of C05 ([wf puncts]); every leaf token has a
   'word' without blank (U+0020) and without backslash; its 'pos' (or auto_of's default "POS") has no blank.
   Nothing else is assumed: words may be empty, may be or contain brackets, angle characters, quotes, any other code point
   (e.g. words ending in ")[conj]", which the reader's category repair must leave alone).
   Not modelled: how Python cuts the file into lines.  [read_auto] takes the list of lines; a word containing a line-break
   character (LF, CR) would be cut by the file iterator before the reader sees it - the harness keeps such words out. *)
From Coq Require Import List NArith Bool.
Import ListNotations.
Require Import Cat CatFacts Tree GenTables GenAuto Auto AutoSpec AutoProofs.
Open Scope N_scope.

(* reading the printed line gives the canonical form of the tree: same shape, categories, head flags of binary nodes, pos;
   words in their escaped spelling; labels as the reader sets them (character-level cursor model, fuel = line length) *)
Theorem C08_read_print : forall guess t, wf_tree t -> read_printed guess (print_auto t) = Some (canon guess t).
Proof. exact read_printed_print. Qed.

(* the same with the reader's token list, which is the list of the tokens of the leaves *)
Theorem C08_read_line : forall guess t p, wf_tree t -> print_auto t = Some p ->
  read_line guess p = Some (canon guess t, tokens (canon guess t)).
Proof. exact read_line_print. Qed.

(* file level: an ID line, then the printed line followed by a newline (or any white space) *)
Theorem C08_read_file : forall guess t p name pad,
  wf_tree t -> print_auto t = Some p -> prefixb s_ID (strip name) = true -> forallb is_ws pad = true ->
  read_auto guess [name; p ++ pad] = Some [(strip name, tokens (canon guess t), canon guess t)].
Proof. exact read_file_print. Qed.

(* a tree of the domain is printable (no KeyError) *)
Theorem C08_printable : forall t, wf_tree t -> exists p, print_auto t = Some p.
Proof. exact wf_printable. Qed.

(* printing what was read reproduces the line exactly - for every printable tree, well-formed or not *)
Theorem C08_reprint_any : forall guess t p, print_auto t = Some p -> print_auto (canon guess t) = Some p.
Proof. exact reprint. Qed.
Theorem C08_reprint : forall guess t, wf_tree t -> print_auto (canon guess t) = print_auto t.
Proof. exact reprint_wf. Qed.

(* the per-word fragments of the last CoNLL column, joined by blanks, are the AUTO line - for trees whose tokens all carry
   'pos' (auto_of defaults to "POS", conll_of to "_"; without pos the two differ in exactly that field) *)
Theorem C08_conll_fragments : forall t, all_pos t -> option_map join_sp (conll_frags t) = print_auto t.
Proof. exact conll_fragments. Qed.

(* the lemmas the round trip rests on *)
Theorem C08_show_no_blank : forall c, wf puncts c -> has cSP (show c) = false.
Proof. exact show_nosp. Qed.
Theorem C08_fix_inert_on_printed : forall c, wf puncts c -> fixcat (show c) = show c.
Proof. exact fix_show. Qed.
Theorem C08_next_field : forall line a r, has cSP a = false -> next line (a ++ cSP :: r) = (a, r).
Proof. exact next_field. Qed.
Theorem C08_denormalize_idempotent : forall w, denormalize (denormalize w) = denormalize w.
Proof. exact denormalize_idem. Qed.
Theorem C08_denormalize_no_blank : forall w, has cSP w = false -> has cSP (denormalize w) = false.
Proof. exact denormalize_nosp. Qed.

(* canon keeps the number of words, the head word and the lexical categories *)
Theorem C08_canon_keeps : forall guess t,
  nleaves (canon guess t) = nleaves t /\ head_index (canon guess t) = head_index t /\
  map fst (leaves (canon guess t)) = map fst (leaves t) /\ tcat (canon guess t) = tcat t.
Proof. intros guess t. exact (conj (canon_nleaves guess t) (conj (canon_head_index guess t) (conj (canon_leaf_cats guess t) (tcat_canon guess t)))). Qed.

(* the boolean domain tests used on generated data decide the predicates *)
Theorem C08_wf_tree_decidable : forall t, wf_treeb t = true <-> wf_tree t.
Proof. exact wf_treeb_ok. Qed.
Theorem C08_all_pos_decidable : forall t, all_posb t = true <-> all_pos t.
Proof. exact all_posb_ok. Qed.

(* ---------- non-vacuity: a non-trivial tree meets the hypotheses, and the statements compute on it ---------- *)
Definition ex_NP : cat := Atom [78;80] FNone.
Definition ex_SNP : cat := Fun (Atom [83] (FUn [100;99;108])) [cBS] ex_NP.
Definition ex_S : cat := Atom [83] (FUn [100;99;108]).
(* S[dcl] <- (NP <- N "(" , head right) with S[dcl]\NP "a<b)[conj]" ; the left leaf under a unary node *)
Definition ex_tree : tree :=
  Bin ex_S [98;97] [60] false
    (Un ex_NP [108;101;120] s_unsym (Leaf (Atom [78] FNone) [(k_word, [40]); (k_pos, [45;76;82;66;45])] s_lex s_lexsym))
    (Leaf ex_SNP [(k_word, [97;60;98;41;91;99;111;110;106;93]); (k_lemma, [97])] s_lex s_lexsym).
Definition ex_guess (c l r : cat) : text * text := ([98;97], [60]).
Example ex_wf_tree : wf_tree ex_tree.
Proof. apply wf_treeb_ok. vm_compute. reflexivity. Qed.
Example ex_print : print_auto ex_tree =
  Some [40;60;84;32;83;91;100;99;108;93;32;49;32;50;62;32;40;60;84;32;78;80;32;48;32;49;62;32;40;60;76;32;78;32;45;76;82;66;45;32;45;76;82;66;45;32;45;76;82;66;45;32;78;62;41;32;41;32;
        40;60;76;32;83;91;100;99;108;93;92;78;80;32;80;79;83;32;80;79;83;32;97;45;76;65;66;45;98;41;91;99;111;110;106;93;32;83;91;100;99;108;93;92;78;80;62;41;32;41].
  (* (<T S[dcl] 1 2> (<T NP 0 1> (<L N -LRB- -LRB- -LRB- N>) ) (<L S[dcl]\NP POS POS a-LAB-b)[conj] S[dcl]\NP>) ) *)
Proof. vm_compute. reflexivity. Qed.
Example ex_read : read_printed ex_guess (print_auto ex_tree) = Some (canon ex_guess ex_tree).
Proof. vm_compute. reflexivity. Qed.
Example ex_read_file :
  match print_auto ex_tree with
  | Some p => read_auto ex_guess [[73;68;61;49;10]; [32] ++ p ++ [32;10]]     (* "ID=1\n", " <line> \n" *)
  | None => None
  end = Some [([73;68;61;49], tokens (canon ex_guess ex_tree), canon ex_guess ex_tree)].
Proof. vm_compute. reflexivity. Qed.
Example ex_no_id_line : match print_auto ex_tree with Some p => read_auto ex_guess [p] | None => None end = None.
Proof. vm_compute. reflexivity. Qed.
Example ex_canon : canon ex_guess ex_tree =
  Bin ex_S [98;97] [60] false
    (Un ex_NP s_lex s_unsym (Leaf (Atom [78] FNone) (reader_token [45;76;82;66;45] [45;76;82;66;45] [45;76;82;66;45]) s_lex s_lexsym))
    (Leaf ex_SNP (reader_token [97;45;76;65;66;45;98;41;91;99;111;110;106;93] s_POS s_POS) s_lex s_lexsym).
Proof. vm_compute. reflexivity. Qed.
(* the second token has no 'pos': the conll fragments then carry "_" where the auto line carries "POS" *)
Example ex_conll_differs_without_pos : all_posb ex_tree = false /\ option_map join_sp (conll_frags ex_tree) <> print_auto ex_tree.
Proof. split; [reflexivity | vm_compute; discriminate]. Qed.
Definition ex_tree_pos : tree :=
  Bin ex_S [98;97] [60] true
    (Leaf ex_NP [(k_word, [72;101]); (k_pos, [80;82;80])] s_lex s_lexsym)
    (Un ex_SNP [108;101;120] s_unsym (Leaf ex_SNP [(k_word, [62]); (k_pos, [86;66;90])] s_lex s_lexsym)).
Example ex_all_pos : all_pos ex_tree_pos.
Proof. apply all_posb_ok. vm_compute. reflexivity. Qed.
Example ex_conll : conll_frags ex_tree_pos =
  Some [[40;60;84;32;83;91;100;99;108;93;32;48;32;50;62;32;40;60;76;32;78;80;32;80;82;80;32;80;82;80;32;72;101;32;78;80;62;41];
        [40;60;84;32;83;91;100;99;108;93;92;78;80;32;48;32;49;62;32;40;60;76;32;83;91;100;99;108;93;92;78;80;32;86;66;90;32;86;66;90;32;45;82;65;66;45;32;83;91;100;99;108;93;92;78;80;62;41;32;41;32;41]].
  (* "(<T S[dcl] 0 2> (<L NP PRP PRP He NP>)" ; "(<T S[dcl]\NP 0 1> (<L S[dcl]\NP VBZ VBZ -RAB- S[dcl]\NP>) ) )" *)
Proof. vm_compute. reflexivity. Qed.
(* outside the domain the statement is not claimed: a word with a blank, a word with a backslash *)
Example ex_blank_word_not_read :
  read_printed ex_guess (print_auto (Leaf ex_NP [(k_word, [97;32;98])] s_lex s_lexsym)) <> Some (canon ex_guess (Leaf ex_NP [(k_word, [97;32;98])] s_lex s_lexsym)).
Proof. vm_compute. discriminate. Qed.
Example ex_backslash_word_changed :
  read_printed ex_guess (print_auto (Leaf ex_NP [(k_word, [97;92;98])] s_lex s_lexsym)) <> Some (canon ex_guess (Leaf ex_NP [(k_word, [97;92;98])] s_lex s_lexsym)).
Proof. vm_compute. discriminate. Qed.
(* the category repair does fire on the CCGbank quirks it was written for, and never on a printed category *)
Example ex_fix_fires : fixcat [40;83;92;78;80;41;92;40;83;92;78;80;41;91;99;111;110;106;93] = [40;83;92;78;80;41;92;40;83;92;78;80;41].
Proof. vm_compute. reflexivity. Qed.
