(* C08 - AUTO text written by depccg reads back to the same tree.  Property theorems only. *)
From Coq Require Import List NArith Bool.
Import ListNotations.
Require Import Cat CatFacts Tree GenTables GenAuto Auto AutoSpec AutoProofs.
Open Scope N_scope.
