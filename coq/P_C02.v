(* C02 - every returned parse is a derivation licensed by grammar and input.  Property theorems only. *)
From Coq Require Import List ZArith Bool Arith.
Import ListNotations.
Require Import AStar AStarLoss AStarOpt AStarImpl AStarRefine AStarThms AStarReplay AStarCheck AStarProblem AStarExample.
Open Scope Z_scope.

(* every item of the goal cell of an accepted run (1-best or n-best) is a complete licensed derivation:
   licensed = leaves are tokens with beam-admitted tags, every unary/binary node's category is the k-th result of the
   grammar on its children's categories (k = the stored rule index), adjacent spans, no unary step at the full span
   unless the sentence has one word; complete = spans the sentence, allowed root *)
Theorem C02_results_are_licensed : forall p hdir tr st g,
  (p_dedup p = true -> uniformb hdir (p_bin p) = true /\ 0 <= p_pen p) ->
  p_accepts p tr = Some st -> In g (jgoal st) -> p_complete p (jder g).
Proof.
  intros p hdir tr st g Hh Hacc Hg. destruct (p_accepts_reach p tr st Hacc) as [Hr _]. unfold p_reach in Hr.
  destruct (p_dedup p) eqn:Hd.
  - destruct (Hh eq_refl) as [Hu Hpen].
    exact (goal_items_complete_T Nat.eqb nat_eqb_eq (p_n p) (p_tagf p) (p_depf p) (p_adm p) (p_besttag p) (p_bestdep p) (lookup2 (p_bin p))
             (lookup1 (p_un p)) (p_isroot p) (p_pen p) (p_max_step p) (p_nbest p) Hpen (p_tag_le p) (p_dep_le p) hdir (p_uniform p hdir Hu) st g Hr Hg).
  - exact (goal_items_complete_N Nat.eqb nat_eqb_eq (p_n p) (p_tagf p) (p_depf p) (p_adm p) (p_besttag p) (p_bestdep p) (lookup2 (p_bin p))
             (lookup1 (p_un p)) (p_isroot p) (p_pen p) (p_max_step p) (p_nbest p) st g Hr Hg).
Qed.

(* exactly one leaf per input token, in order, each with a tag admitted for that token *)
Theorem C02_leaves_are_the_tokens : forall p d, p_complete p d ->
  map fst (dleaves d) = seq 0 (p_n p) /\ forall i c, In (i, c) (dleaves d) -> In c (p_adm p i).
Proof. intros p d. apply complete_leaves. Qed.

(* no unary step sits at the root of a multi-word sentence *)
Theorem C02_no_unary_at_root : forall p k c d, p_licensed p (DUn k c d) -> p_n p = 1%nat \/ dlen d <> p_n p.
Proof. intros p k c d. apply licensed_no_unary_at_root. Qed.

(* every node's category (and head flag) is the grammar result its rule index names *)
Theorem C02_nodes_are_rule_results : forall p d, p_licensed p d ->
  match d with
  | DLeaf i c => (i < p_n p)%nat /\ In c (p_adm p i)
  | DUn k c d' => p_licensed p d' /\ nth_error (lookup1 (p_un p) (dcat d')) k = Some c
  | DBin k c hl l r => p_licensed p l /\ p_licensed p r /\ dstart r = (dstart l + dlen l)%nat /\
                       nth_error (lookup2 (p_bin p) (dcat l) (dcat r)) k = Some (c, hl)
  end.
Proof. intros p d H. inversion H; subst; tauto. Qed.

Example ex_c02 : exists st, p_accepts (ex_problem false 3) ex_trace3 = Some st /\ length (jgoal st) = 3%nat.
Proof. eexists. split; [vm_compute; reflexivity | reflexivity]. Qed.
