(* C17 - model of depccg/parsing.py: _type_check, _binarize, apply_category_filters.   MODEL ONLY.

   A numpy 2-D array is `mat` = (number of columns, list of rows); numpy guarantees that it is rectangular
   (`mat_okb`), its shape is (length rows, ncols) - the column count is a field because an array with no row still
   has one.  Scores are Z: the harness uses integer-valued float32 entries, and the "large negative value" is the
   integer that float32(large_negative_value) denotes, so the comparison with the implementation is exact.
   Words are texts; a document argument is one sentence (list of Token) or a list of sentences, the scores
   argument is one ScoringResult or a list of them - `_type_check` looks at both forms.
   Python exceptions are explicit: IndexError (doc[0], doc[0][0], score_results[0] on empty lists),
   RuntimeError (the two `raise` of _type_check), KeyError (a dictionary category that is not in `categories`),
   and MaskError (numpy's IndexError for a boolean mask of the wrong length / a row index out of range - proved
   unreachable once _type_check has passed on rectangular arrays). *)
From Coq Require Import List NArith ZArith Bool.
Import ListNotations.
Require Import Cat.

Definition word := text.
Record mat := mkMat { ncols : nat; rows : list (list Z) }.
Definition nrows (m : mat) : nat := length (rows m).
Definition mat_okb (m : mat) : bool := forallb (fun r => Nat.eqb (length r) (ncols m)) (rows m).
Record scores := mkSc { tag : mat; dep : mat }.            (* ScoringResult(tag_scores, dep_scores) *)
Definition scores_okb (s : scores) : bool := mat_okb (tag s) && mat_okb (dep s).

Inductive docarg := DocOne (ws : list word) | DocMany (ss : list (list word)).
Inductive scarg := ScOne (s : scores) | ScMany (ss : list scores).

Inductive err := EIndex | ERuntime | EKey | EMask.
Inductive res (A : Type) := Ok (a : A) | Err (e : err).
Arguments Ok {A} a.
Arguments Err {A} e.

(* ---------- _type_check ---------- *)
(* isinstance(doc, list) and isinstance(doc[0], list) and isinstance(doc[0][0], Token) *)
Definition many_sentences (d : docarg) : res bool :=
  match d with
  | DocOne [] => Err EIndex                  (* doc[0] *)
  | DocOne (_ :: _) => Ok false
  | DocMany [] => Err EIndex                 (* doc[0] *)
  | DocMany ([] :: _) => Err EIndex          (* doc[0][0] *)
  | DocMany ((_ :: _) :: _) => Ok true
  end.
(* isinstance(score_results, list) and isinstance(score_results[0], ScoringResult) *)
Definition many_scores (s : scarg) : res bool :=
  match s with
  | ScOne _ => Ok false
  | ScMany [] => Err EIndex
  | ScMany (_ :: _) => Ok true
  end.
Definition doc_list (d : docarg) : list (list word) := match d with DocOne ws => [ws] | DocMany ss => ss end.
Definition sc_list (s : scarg) : list scores := match s with ScOne x => [x] | ScMany l => l end.
Definition doc_len (d : docarg) : nat := match d with DocOne ws => length ws | DocMany ss => length ss end.     (* len(doc) *)
Definition sc_len (s : scarg) : nat := match s with ScOne _ => 2%nat | ScMany l => length l end.               (* len(score_results); a ScoringResult is a 2-tuple *)

(* the body of the loop: both `raise RuntimeError` *)
Definition shape_ok (ntags : nat) (ws : list word) (s : scores) : bool :=
  Nat.eqb ntags (ncols (tag s))
  && (Nat.eqb (length ws) (nrows (tag s)) && Nat.eqb ntags (ncols (tag s)))
  && (Nat.eqb (length ws) (nrows (dep s)) && Nat.eqb (S (length ws)) (ncols (dep s))).

Definition type_check (ntags : nat) (d : docarg) (s : scarg) : res (list (list word) * list scores) :=
  match many_sentences d with
  | Err e => Err e
  | Ok ms =>
    match many_scores s with
    | Err e => Err e
    | Ok msc =>
      if negb (Bool.eqb ms msc) || (ms && negb (Nat.eqb (doc_len d) (sc_len s))) then Err ERuntime
      else if forallb (fun p => shape_ok ntags (fst p) (snd p)) (combine (doc_list d) (sc_list s))    (* zip *)
           then Ok (doc_list d, sc_list s) else Err ERuntime
    end
  end.

(* ---------- category_ids, _binarize ---------- *)
(* {cat: index for index, cat in enumerate(categories)}[c] : a later index overwrites an earlier one *)
Fixpoint index_from (c : cat) (cats : list cat) (i : nat) (acc : option nat) : option nat :=
  match cats with
  | [] => acc
  | x :: r => index_from c r (S i) (if cat_eqb x c then Some i else acc)
  end.
Definition category_id (cats : list cat) (c : cat) : option nat := index_from c cats 0 None.

Fixpoint ids_of (cats : list cat) (cs : list cat) : res (list nat) :=
  match cs with
  | [] => Ok []
  | c :: r => match category_id cats c with
              | None => Err EKey
              | Some i => match ids_of cats r with Ok l => Ok (i :: l) | Err e => Err e end
              end
  end.
(* the dictionary with categories replaced by their indices; KeyError as soon as one is unknown *)
Fixpoint resolve (cats : list cat) (cd : list (word * list cat)) : res (list (word * list nat)) :=
  match cd with
  | [] => Ok []
  | (w, cs) :: r => match ids_of cats cs with
                    | Err e => Err e
                    | Ok ixs => match resolve cats r with Ok l => Ok ((w, ixs) :: l) | Err e => Err e end
                    end
  end.

Definition listed (ixs : list nat) (j : nat) : bool := existsb (Nat.eqb j) ixs.
(* result = ones(length); result[indices] = 0 : true = "to be overwritten" *)
Definition binarize (ixs : list nat) (n : nat) : list bool := map (fun j => negb (listed ixs j)) (seq 0 n).

(* ---------- the filter ---------- *)
Fixpoint lookup {V : Type} (w : word) (d : list (word * V)) : option V :=
  match d with [] => None | (k, v) :: r => if text_eqb k w then Some v else lookup w r end.

(* row[mask] = neg ; None = the mask has another length than the row (numpy IndexError) *)
Fixpoint mask_assign (neg : Z) (row : list Z) (mask : list bool) : option (list Z) :=
  match row, mask with
  | [], [] => Some []
  | v :: r, m :: ms => option_map (cons (if m then neg else v)) (mask_assign neg r ms)
  | _, _ => None
  end.

Section Apply.
Variable neg : Z.
Variable masks : list (word * list bool).

(* for index, token in enumerate(tokens): if token.word in category_dict: tag_scores[index, mask] = neg *)
Fixpoint filter_rows (ws : list word) (rs : list (list Z)) : option (list (list Z)) :=
  match ws with
  | [] => Some rs
  | w :: ws' =>
      match lookup w masks with
      | None => match rs with
                | [] => option_map (fun _ => []) (filter_rows ws' [])       (* nothing indexed for this token *)
                | r :: rs' => option_map (cons r) (filter_rows ws' rs')
                end
      | Some m => match rs with
                  | [] => None                                              (* row index out of range *)
                  | r :: rs' => match mask_assign neg r m with
                                | None => None
                                | Some r' => option_map (cons r') (filter_rows ws' rs')
                                end
                  end
      end
  end.

Definition filter_sentence (ws : list word) (s : scores) : option scores :=
  option_map (fun rs => mkSc (mkMat (ncols (tag s)) rs) (dep s)) (filter_rows ws (rows (tag s))).

Fixpoint filter_all (docs : list (list word)) (scs : list scores) : option (list scores) :=      (* zip(doc, score_results) *)
  match docs, scs with
  | ws :: docs', s :: scs' =>
      match filter_sentence ws s with
      | None => None
      | Some s' => option_map (cons s') (filter_all docs' scs')
      end
  | _, rest => Some rest
  end.
End Apply.

(* the dictionary of index lists, as the task states it *)
Definition apply_filter (neg : Z) (dix : list (word * list nat)) (ntags : nat) (docs : list (list word)) (scs : list scores) : option (list scores) :=
  filter_all neg (map (fun p => (fst p, binarize (snd p) ntags)) dix) docs scs.

(* apply_category_filters(doc, score_results, categories, category_dict, large_negative_value) *)
Definition apply_category_filters (neg : Z) (cats : list cat) (cd : list (word * list cat)) (d : docarg) (s : scarg)
  : res (list (list word) * list scores) :=
  match type_check (length cats) d s with
  | Err e => Err e
  | Ok (docs, scs) =>
      match resolve cats cd with
      | Err e => Err e
      | Ok dix =>
          match scs with
          | [] => Err EIndex                                        (* score_results[0] *)
          | s0 :: _ =>
              match apply_filter neg dix (ncols (tag s0)) docs scs with     (* score_results[0].tag_scores.shape[1] *)
              | None => Err EMask
              | Some scs' => Ok (docs, scs')
              end
          end
      end
  end.

(* the caller's arrays after the call: updated in place on success, as they were on an exception *)
Definition arrays_after (neg : Z) (cats : list cat) (cd : list (word * list cat)) (d : docarg) (s : scarg) : list scores :=
  match apply_category_filters neg cats cd d s with Ok (_, scs') => scs' | Err _ => sc_list s end.
