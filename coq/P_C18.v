(* C18 - Printing is an observation: it changes nothing and is repeatable.  Property theorems only.
   `offered_formats` (one entry per language and --format choice that runs offline) and, for each, the list of mutating
   operations of its printer are regenerated from depccg/argparse.py, depccg/printer/*.py and depccg/tree.py on every
   run (GenRender.v); the theorems below are re-proved against them. *)
From Coq Require Import List NArith Bool.
Import ListNotations.
Require Import Cat Tree GenRender Render RenderProofs RenderFrame.
Open Scope N_scope.

(* rendering in any offered format leaves every tree, token and category of the store as it was *)
Theorem C18_render_frame : forall f s, In f offered_formats -> snd (render f s) = s.
Proof. exact render_frame. Qed.

(* any sequence of renderings of the same objects: each step yields what rendering the original store (a fresh copy) yields,
   and the store is unchanged at the end *)
Theorem C18_render_seq_pure : forall fs s,
  Forall (fun f => In f offered_formats) fs -> run_seq fs s = (map (fun f => fst (render f s)) fs, s).
Proof. exact render_seq_pure. Qed.

(* the same for whatever the printers write, as long as it is a function of the objects they are given *)
Theorem C18_render_seq_pure_any_output : forall (O : Type) (enc : spec -> store -> O) fs s,
  Forall (fun f => In f offered_formats) fs -> run_seq_with O enc fs s = (map (fun f => enc f s) fs, s).
Proof. exact render_seq_pure_any. Qed.

(* repeatable: after any history of renderings, a format gives what it gives on the original *)
Theorem C18_render_repeatable : forall fs f s,
  Forall (fun f => In f offered_formats) fs -> fst (render f (snd (run_seq fs s))) = fst (render f s).
Proof. exact render_after_history. Qed.

(* ---------- non-vacuity ---------- *)
Definition ex_tok (w l p : text) : token := [(k_word, w); (k_lemma, l); (k_pos, p)].
Definition ex_tree : tree :=
  Bin (Atom [83] (FUn [100;99;108])) [98;97] [60] true
      (Leaf (Atom [78;80] FNone) (ex_tok [72;101] [104;101] [80;82;80]) [108;101;120] [60;108;101;120;62])
      (Un (Fun (Atom [83] (FUn [100;99;108])) [cBS] (Atom [78;80] FNone)) [108;101;120] [60;117;110;62]
          (Leaf (Atom [83] FNone) (ex_tok [114;117;110;115] [114;117;110] [86;66;90]) [108;101;120] [60;108;101;120;62])).
Definition ex_store : store := {| trees := [[ex_tree; ex_tree]; [placeholder]]; oplog := [] |}.

Example ex_offered_nonempty : forallb (fun lang => negb (Nat.ltb (length (offered_for lang)) 1)) [l_en; l_ja] = true.
Proof. vm_compute. reflexivity. Qed.

(* the sequence theorem instantiated and computed on a concrete history: every offered format, then all again in reverse order *)
Example ex_history :
  let fs := offered_formats ++ rev offered_formats in
  store_eqb (snd (run_seq fs ex_store)) ex_store = true /\ fst (run_seq fs ex_store) = map (fun f => fst (render f ex_store)) fs.
Proof. vm_compute. split; reflexivity. Qed.

(* the mutation semantics is not idle: the renaming that jigg_xml once did in the caller's tokens (word->surf, lemma->base)
   changes the store, and a following `auto` then fails with KeyError 'word' *)
Definition old_jigg : spec :=
  {| f_lang := l_en; f_name := [106;105;103;103;95;120;109;108]; f_strict := [];
     f_muts := [(s_tok_move, [119;111;114;100;62;115;117;114;102]); (s_tok_move, [108;101;109;109;97;62;98;97;115;101])]; f_labels := [] |}.
Definition auto_like : spec := {| f_lang := l_en; f_name := [97;117;116;111]; f_strict := [k_word]; f_muts := []; f_labels := [] |}.
Example ex_old_jigg_is_caught :
  changed old_jigg ex_store = true
  /\ store_eqb (snd (run_seq [old_jigg; auto_like] ex_store)) ex_store = false
  /\ fst (run_seq [old_jigg; auto_like] ex_store) = [Ok; KeyErr k_word]
  /\ map (fun f => fst (render f ex_store)) [old_jigg; auto_like] = [Ok; Ok].
Proof. vm_compute. repeat split. Qed.
Example ex_opaque_is_caught : changed {| f_lang := l_en; f_name := []; f_strict := []; f_muts := [([115;111;114;116], [120])]; f_labels := [] |} ex_store = true.
Proof. vm_compute. reflexivity. Qed.
