(* Model of the Japanese-CCGbank printer (depccg/printer/ja.py: ja_of, depccg/utils.py: normalize) and of the bank
   line reader (depccg/tools/ja/reader.py: _JaCCGLineReader = a cursor over the line).
   MODEL ONLY - no proofs here.

   Python exceptions (RuntimeError of check, IndexError, ValueError of the 4-field unpacking, AssertionError, KeyError,
   errors of Category.parse, RecursionError) and non-termination are the single error value None. *)
From Coq Require Import List NArith Bool.
Import ListNotations.
Require Import Cat Tree Ptb.
Open Scope N_scope.

Definition cLC := 123.   (* '{' *)
Definition cRC := 125.   (* '}' *)
Definition cUS := 95.    (* '_' *)
Definition cNL := 10.    (* newline: the only character '.' of a regex does not match *)
Definition cDASH := 45.  (* '-' *)
Definition t_star : text := [42].
Definition k_pos1 : text := [112;111;115;49].
Definition k_pos2 : text := [112;111;115;50].
Definition k_pos3 : text := [112;111;115;51].
Definition k_inflForm : text := [105;110;102;108;101;99;116;105;111;110;70;111;114;109].   (* inflectionForm *)
Definition k_inflType : text := [105;110;102;108;101;99;116;105;111;110;84;121;112;101].   (* inflectionType *)
Definition k_surf : text := [115;117;114;102].
Definition k_base : text := [98;97;115;101].

(* ---------- printer ---------- *)
Section Printer.
Variable normalize_table : list (text * text).      (* the if-chain of utils.normalize, from GenTables *)

Definition normalize (w : text) : text :=
  match find (fun p => text_eqb w (fst p)) normalize_table with Some p => snd p | None => w end.

(* [token.get(k, '*') for k in keys], the '*' removed, joined by '-', '_' when nothing is left *)
Definition field_of (keys : list text) (tok : token) : text :=
  match filter (fun v => negb (text_eqb v t_star)) (map (fun k => tok_get_default k t_star tok) keys) with
  | [] => [cUS]
  | vs => join [cDASH] vs
  end.
Definition pos_of (tok : token) : text := field_of [k_pos; k_pos1; k_pos2; k_pos3] tok.
Definition infl_of (tok : token) : text := field_of [k_inflForm; k_inflType] tok.

(* word/word/pos/inflection *)
Definition leaf_fields (w : text) (tok : token) : text :=
  w ++ [cSL] ++ w ++ [cSL] ++ pos_of tok ++ [cSL] ++ infl_of tok.

(* rec(node); None = KeyError (a leaf token without 'word') *)
Fixpoint print_ja (t : tree) : option text :=
  match t with
  | Leaf c tok _ _ =>
      match leaf_word tok with
      | Some w => Some ([cLC] ++ show c ++ [cSP] ++ leaf_fields (normalize w) tok ++ [cRC])
      | None => None
      end
  | Un c _ sym t1 =>
      match print_ja t1 with
      | Some s => Some ([cLC] ++ sym ++ [cSP] ++ show c ++ [cSP] ++ s ++ [cRC])
      | None => None
      end
  | Bin c _ sym _ l r =>
      match print_ja l, print_ja r with
      | Some a, Some b => Some ([cLC] ++ sym ++ [cSP] ++ show c ++ [cSP] ++ a ++ [cSP] ++ b ++ [cRC])
      | _, _ => None
      end
  end.
End Printer.

(* ---------- DEPENDENCY = re.compile(r'{.+?}');  DEPENDENCY.sub('', text) ---------- *)
(* [t] follows the first character of the candidate body; [n] characters after the '{' are consumed so far.
   Some m = the shortest match deletes m characters after the '{' (body and closing brace) *)
Fixpoint dep_close (t : text) (n : nat) : option nat :=
  match t with
  | [] => None
  | c :: r => if N.eqb c cRC then Some (S n) else if N.eqb c cNL then None else dep_close r (S n)
  end.
(* [t] follows a '{' *)
Definition dep_match (t : text) : option nat :=
  match t with
  | [] => None
  | c :: r => if N.eqb c cNL then None else dep_close r 1
  end.
Fixpoint dep_sub_go (t : text) (skip : nat) : text :=
  match t with
  | [] => []
  | c :: r =>
      match skip with
      | S k => dep_sub_go r k
      | O => if N.eqb c cLC
             then match dep_match r with Some m => dep_sub_go r m | None => c :: dep_sub_go r 0 end
             else c :: dep_sub_go r 0
      end
  end.
Definition dep_sub (t : text) : text := dep_sub_go t 0.

(* ---------- reader ---------- *)
Fixpoint index_of (c : N) (t : text) : option nat :=
  match t with
  | [] => None
  | x :: r => if N.eqb x c then Some O else option_map S (index_of c r)
  end.

(* Token(surf=.., base=.., pos1=.., pos2=..) *)
Definition bank_token (surf base pos1 pos2 : text) : token :=
  [(k_surf, surf); (k_base, base); (k_pos1, pos1); (k_pos2, pos2)].

Section Reader.
Variable combinators : list text.                     (* the set `combinators`, from GenTables *)
Variable parse_cat : text -> option cat.              (* Category.parse; None = exception or ill-typed value *)
Variable line : text.

(* self.line.find(c, i): None = -1 *)
Definition find_from (c : N) (i : nat) : option nat := option_map (Nat.add i) (index_of c (skipn i line)).
(* self.line[a:e], e = -1 when the find failed *)
Definition slice (a : nat) (e : option nat) : text :=
  firstn ((match e with Some k => k | None => length line - 1 end) - a) (skipn a line).
(* next(target) at index i: (result, new index) *)
Definition next (c : N) (i : nat) : text * nat :=
  let e := find_from c i in (slice i e, match e with Some k => S k | None => O end).
(* peek(): None = IndexError *)
Definition peek (i : nat) : option N := nth_error line i.
(* check(c) *)
Definition check (c : N) (i : nat) : bool := match peek i with Some x => N.eqb x c | None => false end.

(* the test of next_node *)
Definition is_tree_at (i : nat) : bool := text_in (slice (S i) (find_from cSP i)) combinators.

Definition state := (nat * list token)%type.          (* cursor index, self.tokens in reverse order *)

Definition parse_leaf (s : state) : option (tree * state) :=
  let '(i, toks) := s in
  if check cLC i then
    let '(raw, i1) := next cSP i in
    let cat0 := tl raw in
    let cat1 := match index_of cUS cat0 with Some k => firstn k cat0 | None => cat0 end in
    match parse_cat (dep_sub cat1) with
    | None => None
    | Some c =>
        let '(raw2, i2) := next cRC i1 in
        match split_on cSL (removelast raw2) [] with
        | [surf; base; pos1; pos2] =>
            Some (Leaf c [(k_word, surf)] s_lex s_lexsym, (i2, bank_token surf base pos1 pos2 :: toks))
        | _ => None
        end
    end
  else None.

(* node = next_node()(); kids = the while loop of parse_tree.  Fuel = number of next_node calls still allowed. *)
Fixpoint node (fuel : nat) (s : state) : option (tree * state) :=
  match fuel with
  | O => None
  | S f =>
      let '(i, toks) := s in
      if is_tree_at i then
        (* parse_tree *)
        if check cLC i then
          let '(raw, i1) := next cSP i in
          let ops := tl raw in
          let '(raw2, i2) := next cSP i1 in
          match parse_cat (dep_sub raw2) with
          | None => None
          | Some c =>
              if check cLC i2 then
                match kids f (i2, toks) [] with
                | None => None
                | Some (children, (i3, toks3)) =>
                    let '(_, i4) := next cRC i3 in
                    match children with
                    | [x] => Some (Un c ops ops x, (i4, toks3))
                    | [l; r] => Some (Bin c ops ops true l r, (i4, toks3))
                    | _ => None
                    end
                end
              else None
          end
        else None
      else parse_leaf s
  end
with kids (fuel : nat) (s : state) (acc : list tree) : option (list tree * state) :=
  match fuel with
  | O => None
  | S f =>
      let '(i, toks) := s in
      match peek i with
      | None => None
      | Some ch =>
          if N.eqb ch cRC then Some (rev acc, s)
          else match node f s with
               | None => None
               | Some (t, (j, toks')) =>
                   match peek j with
                   | None => None
                   | Some ch2 =>
                       let j' := if N.eqb ch2 cSP then snd (next cSP j) else j in
                       kids f (j', toks') (t :: acc)
                   end
               end
      end
  end.

Definition fuel_of : nat := (4 * length line + 16)%nat.

(* _JaCCGLineReader(line).parse() -> (tree, tokens) *)
Definition read_ja : option (tree * list token) :=
  match node fuel_of (O, []) with
  | Some (t, (_, toks)) => Some (t, rev toks)
  | None => None
  end.
End Reader.

(* ---------- what the reader returns for a printed tree ---------- *)
Section Canon.
Variable normalize_table : list (text * text).
Definition canon_word (tok : token) : text := normalize normalize_table (tok_get_default k_word [] tok).
Fixpoint canon_ja (t : tree) : tree :=
  match t with
  | Leaf c tok _ _ => Leaf c [(k_word, canon_word tok)] s_lex s_lexsym
  | Un c _ sym t1 => Un c sym sym (canon_ja t1)
  | Bin c _ sym _ l r => Bin c sym sym true (canon_ja l) (canon_ja r)
  end.
(* self.tokens: surf = base = the word, pos1 = the joined pos fields, pos2 = the inflection field minus its last character *)
Fixpoint tokens_ja (t : tree) : list token :=
  match t with
  | Leaf c tok _ _ => [bank_token (canon_word tok) (canon_word tok) (pos_of tok) (removelast (infl_of tok))]
  | Un _ _ _ t1 => tokens_ja t1
  | Bin _ _ _ _ l r => tokens_ja l ++ tokens_ja r
  end.
End Canon.

Fixpoint tokens_eqb (a b : list token) : bool :=
  match a, b with
  | [], [] => true
  | x :: a', y :: b' => token_eqb x y && tokens_eqb a' b'
  | _, _ => false
  end.
Definition ojares_eqb (a b : option (tree * list token)) : bool :=
  match a, b with
  | Some (t, ts), Some (t', ts') => tree_eqb t t' && tokens_eqb ts ts'
  | None, None => true
  | _, _ => false
  end.
