(* Model of the AUTO format: the printer depccg/printer/auto.py (auto_of), the last column of depccg/printer/conll.py
   (conll_of), depccg/utils.py (denormalize) and the reader depccg/tools/reader.py (_fix, _AutoLineReader, read_auto).
   MODEL ONLY - no proofs here, so that the model still runs when a proof breaks.

   Conventions
   * a Python exception is [None]; nothing is silently totalised.
   * the reader's cursor [self.index] over [self.line] is represented by the suffix [skipn index line] (the two are in
     bijection because 0 <= index <= len(line) always holds: index is 0 or (position of a blank)+1); the one place where
     the cursor moves backwards - [find] returns -1, so index becomes 0 - is modelled: the suffix becomes the whole line.
   * recursion of next_node/parse_tree and the `while self.peek() != ')'` loop run on fuel = length of the line;
     exhaustion is an error (Python: RecursionError / no answer), excluded by the theorems.
   * the binary label guess (depccg.grammar.guess_combinator_by_triplet over the language's rules) is the Section
     variable [guess]; only op_string and op_symbol of its result are used by the reader (the head flag comes from the file).
   * tables: GenTables (denormalize, punctuations, category split class), GenAuto (_FIX, the endswith suffixes, the cut). *)
From Coq Require Import List NArith Bool.
Import ListNotations.
Require Import Cat Tree GenTables GenAuto.
Open Scope N_scope.

(* ---------- code points and literals ---------- *)
Definition cL : N := 76.  Definition cT : N := 84.  Definition c0 : N := 48.  Definition c1 : N := 49.  Definition c2 : N := 50.
Definition s_openL : text := [cLP; cLT; cL; cSP].        (* "(<L " *)
Definition s_openT : text := [cLP; cLT; cT; cSP].        (* "(<T " *)
Definition s_closeL : text := [cGT; cRP].                (* ">)"   *)
Definition s_closeT : text := [cSP; cRP].                (* " )"   *)
Definition s_POS : text := [80;79;83].                   (* 'POS'  : auto_of's default for a token without 'pos' *)
Definition s_us : text := [95].                          (* '_'    : conll_of's default *)
Definition s_ID : text := [73;68].                       (* "ID"   *)
Definition k_tag1 : text := [116;97;103;49].             (* 'tag1' *)
Definition k_tag2 : text := [116;97;103;50].             (* 'tag2' *)

(* ---------- Python string primitives ---------- *)
Fixpoint prefixb (p t : text) : bool :=                  (* t.startswith(p) *)
  match p, t with
  | [], _ => true
  | x :: p', y :: t' => N.eqb x y && prefixb p' t'
  | _ :: _, [] => false
  end.
Definition suffixb (p t : text) : bool :=                (* t.endswith(p) *)
  Nat.leb (length p) (length t) && text_eqb (skipn (length t - length p) t) p.

(* t.replace(old, new): leftmost, non-overlapping; an empty [old] matches between all characters *)
Fixpoint replace_go (old new t : text) (skip : nat) : text :=
  match t with
  | [] => []
  | c :: r =>
      match skip with
      | S k => replace_go old new r k
      | O => if prefixb old t then new ++ replace_go old new r (length old - 1)
             else c :: replace_go old new r 0
      end
  end.
Definition replace (old new t : text) : text :=
  match old with
  | [] => new ++ flat_map (fun c => c :: new) t
  | _ => replace_go old new t 0
  end.

Fixpoint assoc (k : text) (l : list (text * text)) : option text :=
  match l with [] => None | (a, b) :: r => if text_eqb k a then Some b else assoc k r end.

(* str.isspace() - the characters removed by str.strip() *)
Definition is_ws (c : N) : bool :=
  (N.leb 9 c && N.leb c 13) || (N.leb 28 c && N.leb c 32) || N.eqb c 133 || N.eqb c 160 || N.eqb c 5760 ||
  (N.leb 8192 c && N.leb c 8202) || N.eqb c 8232 || N.eqb c 8233 || N.eqb c 8239 || N.eqb c 8287 || N.eqb c 12288.
Fixpoint lstrip (t : text) : text := match t with c :: r => if is_ws c then lstrip r else t | [] => [] end.
Definition strip (t : text) : text := rev (lstrip (rev (lstrip t))).

(* ' '.join(l) *)
Fixpoint join_sp (l : list text) : text :=
  match l with [] => [] | [x] => x | x :: r => x ++ [cSP] ++ join_sp r end.

(* ---------- utils.denormalize ---------- *)
Definition denormalize (w : text) : text :=
  match assoc w denormalize_table with
  | Some v => v
  | None => fold_left (fun acc on => replace (fst on) (snd on) acc) denormalize_replace w
  end.

(* ---------- auto_of ---------- *)
Definition leaf_text (c : cat) (pos w : text) : text :=         (* f'(<L {cat} {pos} {pos} {word} {cat}>)' *)
  s_openL ++ show c ++ [cSP] ++ pos ++ [cSP] ++ pos ++ [cSP] ++ denormalize w ++ [cSP] ++ show c ++ s_closeL.
Definition hdr (c : cat) (hl : bool) (n : N) : text :=          (* f'(<T {cat} {head_is_left} {num_children}>' *)
  s_openT ++ show c ++ [cSP] ++ [if hl then c0 else c1] ++ [cSP] ++ [n] ++ [cGT].

(* None = KeyError: a leaf token without 'word' (Tree.word).  A unary node built by Tree.make_unary has head_is_left = True. *)
Fixpoint print_auto (t : tree) : option text :=
  match t with
  | Leaf c tok _ _ =>
      match leaf_word tok with
      | Some w => Some (leaf_text c (tok_get_default k_pos s_POS tok) w)
      | None => None
      end
  | Un c _ _ u =>
      match print_auto u with
      | Some p => Some (hdr c true c1 ++ [cSP] ++ p ++ s_closeT)
      | None => None
      end
  | Bin c _ _ hl l r =>
      match print_auto l, print_auto r with
      | Some a, Some b => Some (hdr c hl c2 ++ [cSP] ++ a ++ [cSP] ++ b ++ s_closeT)
      | _, _ => None
      end
  end.

(* ---------- conll_of, last column ----------
   rec(node) returns the '\n'-joined lines of the subtree; the model returns the list of their last columns.
   [stack] is the nonlocal list of pending '(<T ...>' headers; `+ ' )'` lands at the end of the last line. *)
Fixpoint append_last (s : text) (l : list text) : list text :=
  match l with [] => [s] | [x] => [x ++ s] | x :: r => x :: append_last s r end.
Fixpoint conll_go (t : tree) (stack : list text) : option (list text * list text) :=
  match t with
  | Leaf c tok _ _ =>
      match leaf_word tok with
      | Some w => Some ([join_sp (stack ++ [leaf_text c (tok_get_default k_pos s_us tok) w])], [])
      | None => None
      end
  | Un c _ _ u =>
      match conll_go u (stack ++ [hdr c true c1]) with
      | Some (fs, st) => Some (append_last s_closeT fs, st)
      | None => None
      end
  | Bin c _ _ hl l r =>
      match conll_go l (stack ++ [hdr c hl c2]) with
      | Some (fl, st1) =>
          match conll_go r st1 with
          | Some (fr, st2) => Some (append_last s_closeT (fl ++ fr), st2)
          | None => None
          end
      | None => None
      end
  end.
Definition conll_frags (t : tree) : option (list text) :=
  match conll_go t [] with Some (fs, _) => Some fs | None => None end.

(* ---------- reader._fix ---------- *)
Definition fixcat (t : text) : text :=
  match assoc t fix_table with
  | Some v => v
  | None => if existsb (fun suf => suffixb suf t) fix_suffixes then firstn (length t - fix_cut) t else t
  end.

(* Category.parse; None = exception or an ill-typed value (CatRoundTrip.parse specials puncts, unfolded so that this file
   depends on no proof) *)
Definition parse_cat (t : text) : option cat := Cat.parse_toks puncts (Cat.lex specials t).

(* ---------- _AutoLineReader ---------- *)
(* the first blank at or after the cursor: (text before it, suffix after it) *)
Fixpoint split_sp (s : text) : option (text * text) :=
  match s with
  | [] => None
  | c :: r => if N.eqb c cSP then Some ([], r)
              else match split_sp r with Some (a, b) => Some (c :: a, b) | None => None end
  end.

(* the Token the reader builds: Token(word=word, pos=tag1, tag1=tag1, tag2=tag2) *)
Definition reader_token (word tag1 tag2 : text) : token :=
  [(k_word, word); (k_pos, tag1); (k_tag1, tag1); (k_tag2, tag2)].

Section Reader.
Variable guess : cat -> cat -> cat -> text * text.   (* target, left, right -> (op_string, op_symbol) *)
Variable line : text.                                (* self.line *)

(* next(): end = line.find(' ', index); res = line[index:end]; index = end + 1.
   No blank: end = -1, res = line[index:-1] (all but the last character), index = 0. *)
Definition next (s : text) : text * text :=
  match split_sp s with
  | Some (a, r) => (a, r)
  | None => (removelast s, line)
  end.
(* check(text, offset): IndexError / RuntimeError = false *)
Definition check (s : text) (offset : nat) (ch : N) : bool :=
  match nth_error s offset with Some c => N.eqb c ch | None => false end.

Definition parse_leaf (s : text) (toks : list token) : option (tree * text * list token) :=
  if check s 0 cLP && check s 1 cLT && check s 2 cL then
    let (_, s1) := next s in
    let (ctext, s2) := next s1 in
    match parse_cat (fixcat ctext) with
    | None => None
    | Some c =>
        let (tag1, s3) := next s2 in
        let (tag2, s4) := next s3 in
        let (w, s5) := next s4 in
        let tok := reader_token (replace [cBS] [] w) tag1 tag2 in
        let (_, s6) := next s5 in
        Some (Leaf c tok s_lex s_lexsym, s6, toks ++ [tok])
    end
  else None.

(* [node] = self.next_node(); [kids] = the while loop of parse_tree *)
Fixpoint node (fuel : nat) (s : text) (toks : list token) : option (tree * text * list token) :=
  match fuel with
  | O => None
  | S f =>
      match nth_error s 2 with
      | None => None                                                    (* IndexError *)
      | Some k =>
          if N.eqb k cL then parse_leaf s toks
          else if N.eqb k cT then
            if check s 0 cLP && check s 1 cLT && check s 2 cT then
              let (_, s1) := next s in
              let (ctext, s2) := next s1 in
              match parse_cat (fixcat ctext) with
              | None => None
              | Some c =>
                  let (h, s3) := next s2 in
                  let hl := text_eqb h [c0] in
                  let (_, s4) := next s3 in
                  match kids f s4 toks with
                  | None => None
                  | Some (children, s5, toks') =>
                      let (_, s6) := next s5 in
                      match children with
                      | [l; r] => let (o, y) := guess c (tcat l) (tcat r) in Some (Bin c o y hl l r, s6, toks')
                      | [u] => Some (Un c s_lex s_unsym u, s6, toks')
                      | _ => None                                       (* RuntimeError *)
                      end
                  end
              end
            else None
          else None                                                     (* RuntimeError *)
      end
  end
with kids (fuel : nat) (s : text) (toks : list token) : option (list tree * text * list token) :=
  match fuel with
  | O => None
  | S f =>
      match s with
      | [] => None                                                      (* peek(): IndexError *)
      | k :: _ =>
          if N.eqb k cRP then Some ([], s, toks)
          else match node f s toks with
               | None => None
               | Some (t, s', toks') =>
                   match kids f s' toks' with
                   | None => None
                   | Some (ts, s'', toks'') => Some (t :: ts, s'', toks'')
                   end
               end
      end
  end.
End Reader.

(* _AutoLineReader(line).parse() : (tree, tokens) *)
Definition read_line (guess : cat -> cat -> cat -> text * text) (l : text) : option (tree * list token) :=
  match node guess l (length l) l [] with
  | Some (t, _, toks) => Some (t, toks)
  | None => None
  end.

(* read_auto over the lines of the file (iteration over the file object is the Python library's); the generator is
   consumed completely, any exception - including the unbound `name` when no ID line came first - is None *)
Fixpoint read_lines (guess : cat -> cat -> cat -> text * text) (name : option text) (ls : list text)
  : option (list (text * list token * tree)) :=
  match ls with
  | [] => Some []
  | l :: rest =>
      match strip l with
      | [] => read_lines guess name rest
      | l' =>
          if prefixb s_ID l' then read_lines guess (Some l') rest
          else match read_line guess l', name with
               | Some (t, toks), Some n =>
                   match read_lines guess name rest with
                   | Some rs => Some ((n, toks, t) :: rs)
                   | None => None
                   end
               | _, _ => None
               end
      end
  end.
Definition read_auto (guess : cat -> cat -> cat -> text * text) (ls : list text) := read_lines guess None ls.

(* reading what was printed: the printed line in a file after an ID line *)
Definition read_printed (guess : cat -> cat -> cat -> text * text) (o : option text) : option tree :=
  match o with
  | Some l => match read_line guess l with Some (t, _) => Some t | None => None end
  | None => None
  end.
