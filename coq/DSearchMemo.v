(* The deterministic twin of parse_sentence (DSearch.v: libstdc++'s binary heap as agenda, chart cells in first-use
   order, the push order of the C++) reading the memo layer of one depccg._parsing.run call (GlueMemo.v) incrementally,
   and the batch loop of run driven by it.  MODEL ONLY (DSearchMemoProofs.v has the lemmas, P_C11_d.v the theorems).

   - dkey / dkeys / dneeded: the rule lookups ONE loop iteration of the twin performs, in the order parse_sentence performs
     them (parsing.h: 404 apply_unary_rules(item->cat); 422-452 for each cell starting at the end of the item, in first-use
     order, each item of the cell in list order: apply_binary_rules(item->cat, other->cat); 453-483 the same for the cells
     ending at the start of the item with the arguments exchanged); a goal item and an item chart::update rejects do not look
     anything up.  Generic in the handle type, so that the same function lists the keys of the category-level twin;
   - dmstep: one iteration from a memo state: the lookups of the iteration (GlueMemo.memo_ops: hit = cached vector, miss =
     grammar function on the categories the ids name, results interned in order - this is where the table grows and where
     the history decides which id a new category gets), then DSearch.dstep reading the rule results from the cache exactly
     like GlueMemoSearch.mstep_js; None = IndexError in a callback (proved impossible from an admissible state);
   - dmrun / dmfinal: the loop (fuel = max_step, every iteration increments the step counter);
   - d_outcome: what the finalizer is handed, ids read back through the table (GlueMemoSearch.sentence_outcome for the twin);
   - dcfinal / dc_outcome / twin_outcome: the specification side - the twin over the categories themselves: no table, no
     cache, no ids;
   - dbrun: the loop of depccg._parsing.run over the sentences of one call, threading the memo state; a FUNCTION (the
     pop order is the heap's, nothing is supplied from outside);
   - pblind / dblind / dview: the category-erased view of a heap entry and of the heap vector. *)
From Coq Require Import List ZArith Bool Arith.
Import ListNotations.
Require Import Cat Tree GramPrims AStar AStarImpl Glue GlueMemo GlueMemoSearch Heap DSearch.
Open Scope nat_scope.

(* a rule lookup over handles of type C *)
Inductive dkey {C : Type} := DKUn (x : C) | DKBin (x y : C).

Section DKeys.
Context {C : Type}.
Variable ceqb : C -> C -> bool.
Variable n : nat.
Variable dedup : bool.

(* the lookups of the expansion of a, ch = the chart after chart.update stored a *)
Definition dkeys (a : @jitem C) (ch : list (@cell C)) : list (@dkey C) :=
  (if (n =? 1) || negb (jlen a =? n) then [DKUn (jcat a)] else []) ++
  flat_map (fun c => map (fun o => DKBin (jcat a) (jcat (fst o))) (snd c)) (cells_starting_at ch (jstart a + jlen a)) ++
  flat_map (fun c => map (fun o => DKBin (jcat (fst o)) (jcat a)) (snd c)) (cells_ending_at ch (jstart a)).

(* the lookups of the next loop iteration *)
Definition dneeded (st : @dstate C) : list (@dkey C) :=
  match pop dlt (dheap st) with
  | None => []
  | Some (x, _) =>
      if jfin (d_item x) then []
      else match chart_update ceqb dedup (dchart st) (d_item x) (dstored st) with
           | None => []
           | Some ch => dkeys (d_item x) ch
           end
  end.

(* every lookup of the next iteration lies in the domain UB / UU *)
Definition key_in (UB : C -> C -> Prop) (UU : C -> Prop) (k : @dkey C) : Prop :=
  match k with DKUn x => UU x | DKBin x y => UB x y end.
Definition dstep_within (UB : C -> C -> Prop) (UU : C -> Prop) (st : @dstate C) : Prop :=
  forall k, In k (dneeded st) -> key_in UB UU k.
End DKeys.

Definition mop_of (k : @dkey nat) : mop := match k with DKUn x => OUn x | DKBin x y => OBin x y end.

(* ---------- the category-erased view of the twin ---------- *)
Definition pblind {C} (p : @tpop C) : @tpop unit :=
  match p with
  | TLeaf i _ => TLeaf i tt
  | TUn k _ j => TUn k tt j
  | TBin k _ hl l r => TBin k tt hl l r
  | TFin j => TFin j
  end.
Definition dblind {C} (x : @ditem C) : @ditem unit := {| d_item := blind (d_item x); d_pop := pblind (d_pop x) |}.
(* the heap vector (index 0 = the element the next pop returns) with every category erased *)
Definition dview {C} (st : @dstate C) : list (@ditem unit) := map dblind (dheap st).

Section DMemo.
Variable gbin : cat -> cat -> list cres.
Variable gun : cat -> list cres.
Variable cats roots : list cat.       (* the arguments `categories` and `possible_root_cats` of the call *)
Variable rids : list nat.             (* c_possible_root_cat *)
Variable pen : Z.
Variable dedup : bool.                (* nbest = 1 *)
Variable max_step nbest : nat.

Section OneSentence.
Variable s : sent.

Definition dminit : @dstate nat := dinit (s_n s) (s_tag s) (s_adm s) (s_besttag s) (s_bestdep s).
(* the loop body once the lookups have brought the memo to m' *)
Definition dmstep_ds (m' : mstate) (ds : @dstate nat) : @dstate nat :=
  dstep Nat.eqb (s_n s) (s_dep s) (s_besttag s) (s_bestdep s) (cache_bin m') (cache_un m') (isroot_ids rids) pen dedup ds.
Definition dmkeys (ds : @dstate nat) : list mop := map mop_of (dneeded Nat.eqb (s_n s) dedup ds).
Definition dmstep (ds : @dstate nat) (m : mstate) : option (@dstate nat * mstate) :=
  match memo_ops gbin gun (dmkeys ds) m with
  | Some m' => Some (dmstep_ds m' ds, m')
  | None => None
  end.
Fixpoint dmrun (fuel : nat) (ds : @dstate nat) (m : mstate) : option (@dstate nat * mstate) :=
  match fuel with
  | O => Some (ds, m)
  | S f =>
      if drunning_b max_step nbest ds
      then match dmstep ds m with Some (ds', m') => dmrun f ds' m' | None => None end
      else Some (ds, m)
  end.
Definition dmfinal (m : mstate) : option (@dstate nat * mstate) := dmrun max_step dminit m.

(* the twin over the ids of a FIXED table T with the grammar T induces (GlueMemoSearch.bin_T / un_T) *)
Definition dtfinal (T : table) : @dstate nat :=
  dfinal Nat.eqb (s_n s) (s_tag s) (s_dep s) (s_adm s) (s_besttag s) (s_bestdep s) (bin_T gbin T) (un_T gun T)
         (isroot_ids rids) pen dedup max_step nbest.

(* the twin over the categories themselves: no table, no cache *)
Definition dcinit : @dstate cat := dinit (s_n s) (tag_c cats (s_tag s)) (adm_c cats (s_adm s)) (s_besttag s) (s_bestdep s).
Definition dcstep : @dstate cat -> @dstate cat :=
  dstep cat_eqb (s_n s) (s_dep s) (s_besttag s) (s_bestdep s) (bin_c gbin) (un_c gun) (isroot_c roots) pen dedup.
Definition dcfinal : @dstate cat :=
  dfinal cat_eqb (s_n s) (tag_c cats (s_tag s)) (s_dep s) (adm_c cats (s_adm s)) (s_besttag s) (s_bestdep s)
         (bin_c gbin) (un_c gun) (isroot_c roots) pen dedup max_step nbest.
End OneSentence.

(* what the caller gets for one sentence.  None = IndexError in kwargs['categories'][item.cat] *)
Definition d_outcome (ds : @dstate nat) (t : table) : option outcome :=
  match dgoal ds with
  | [] => Some None                                                   (* status 1: the failure placeholder *)
  | _ => match decode_items t (dresult ds) with Some l => Some (Some l) | None => None end
  end.
Definition dc_outcome (dc : @dstate cat) : outcome := match dgoal dc with [] => None | _ => Some (dresult dc) end.

Variable max_length : nat.
(* specification: the outcome of a sentence, a function of the sentence (and the call's configuration) alone *)
Definition twin_outcome (s : sent) : outcome := if max_length <? s_n s then None else dc_outcome (dcfinal s).

(* the loop of depccg._parsing.run driven by the twin *)
Fixpoint dbrun (ss : list sent) (m : mstate) : option (list outcome * mstate) :=
  match ss with
  | [] => Some ([], m)
  | s :: rest =>
      if max_length <? s_n s
      then match dbrun rest m with Some (rs, m') => Some (None :: rs, m') | None => None end
      else match dmfinal s m with
           | Some (ds, m1) =>
               match d_outcome ds (mtable m1), dbrun rest m1 with
               | Some r, Some (rs, m') => Some (r :: rs, m')
               | _, _ => None
               end
           | None => None
           end
  end.
End DMemo.
