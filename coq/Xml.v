(* C15 - XML formats.  MODEL ONLY (no proofs).
   Infoset-level model of
     depccg/printer/xml.py        xml_of, _process_tree
     depccg/printer/jigg_xml.py   to_jigg_xml, _ConvertToJiggXML, _cat_multi_valued
     depccg/tools/reader.py       read_xml, read_jigg_xml
     depccg/semantics/ccg2lambda/ccg2lambda_tools.py   build_ccg_tree, normalize_tokens
     depccg/semantics/ccg2lambda/normalization.py      normalize_token
   An XML element is tag + ordered attribute list + child elements; lxml's serialiser / parser is a trusted library.
   Python exceptions (KeyError, IndexError, AssertionError, RecursionError, ...) are `None`. *)
From Coq Require Import String Ascii.
From Coq Require Import List NArith Bool.
Import ListNotations.
Require Import Cat Tree.
Open Scope N_scope.

(* ---------- constants ---------- *)
Definition T (s : string) : text := map N_of_ascii (list_ascii_of_string s).

Definition a_id : text := Eval vm_compute in T "id".
Definition a_cat : text := Eval vm_compute in T "cat".
Definition a_start : text := Eval vm_compute in T "start".
Definition a_span : text := Eval vm_compute in T "span".
Definition a_type : text := Eval vm_compute in T "type".
Definition a_sentence : text := Eval vm_compute in T "sentence".
Definition a_category : text := Eval vm_compute in T "category".
Definition a_terminal : text := Eval vm_compute in T "terminal".
Definition a_child : text := Eval vm_compute in T "child".
Definition a_rule : text := Eval vm_compute in T "rule".
Definition a_begin : text := Eval vm_compute in T "begin".
Definition a_end : text := Eval vm_compute in T "end".
Definition a_root : text := Eval vm_compute in T "root".
Definition a_score : text := Eval vm_compute in T "score".
Definition a_surf : text := Eval vm_compute in T "surf".
Definition a_base : text := Eval vm_compute in T "base".
Definition g_candc : text := Eval vm_compute in T "candc".
Definition g_ccg : text := Eval vm_compute in T "ccg".
Definition g_rule : text := Eval vm_compute in T "rule".
Definition g_lf : text := Eval vm_compute in T "lf".
Definition g_root : text := Eval vm_compute in T "root".
Definition g_document : text := Eval vm_compute in T "document".
Definition g_sentences : text := Eval vm_compute in T "sentences".
Definition g_sentence : text := Eval vm_compute in T "sentence".
Definition g_tokens : text := Eval vm_compute in T "tokens".
Definition g_token : text := Eval vm_compute in T "token".
Definition g_span : text := Eval vm_compute in T "span".
Definition v_true : text := Eval vm_compute in T "true".
Definition v_one : text := Eval vm_compute in T "1".
Definition v_star : text := Eval vm_compute in T "*".
Definition v_None : text := Eval vm_compute in T "None".
Definition v_eqtrue : text := Eval vm_compute in T "=true]".
Definition cUS : N := 95.   (* '_' *)
Definition cDQ : N := 34.   (* the double quote character *)
Definition cNL : N := 10.

(* ---------- str(int) for non-negative integers ---------- *)
Fixpoint uint_text (u : Decimal.uint) : text :=
  match u with
  | Decimal.Nil => []
  | Decimal.D0 u => 48 :: uint_text u | Decimal.D1 u => 49 :: uint_text u | Decimal.D2 u => 50 :: uint_text u
  | Decimal.D3 u => 51 :: uint_text u | Decimal.D4 u => 52 :: uint_text u | Decimal.D5 u => 53 :: uint_text u
  | Decimal.D6 u => 54 :: uint_text u | Decimal.D7 u => 55 :: uint_text u | Decimal.D8 u => 56 :: uint_text u
  | Decimal.D9 u => 57 :: uint_text u
  end.
Definition dec (n : nat) : text := uint_text (Nat.to_uint n).

(* ---------- ordered dictionaries: lxml attributes, Python dicts ---------- *)
Definition attrs := list (text * text).
Definition attr_get : text -> attrs -> option text := tok_get.
(* Element.set(k, v) / d[k] = v : overwrite in place, else append *)
Fixpoint attr_set (k v : text) (a : attrs) : attrs :=
  match a with
  | [] => [(k, v)]
  | (k', v') :: r => if text_eqb k k' then (k, v) :: r else (k', v') :: attr_set k v r
  end.
(* for k, v in d.items(): node.set(k, v) *)
Definition attr_set_all (kvs : attrs) (a : attrs) : attrs := fold_left (fun acc kv => attr_set (fst kv) (snd kv) acc) kvs a.
(* del d[k] / d.pop(k) when k is present; no-op otherwise *)
Fixpoint attr_del (k : text) (a : attrs) : attrs :=
  match a with
  | [] => []
  | (k', v') :: r => if text_eqb k k' then r else (k', v') :: attr_del k r
  end.
(* dict(list of pairs)[k] : the last binding wins *)
Fixpoint dict_last {A} (k : text) (l : list (text * A)) : option A :=
  match l with
  | [] => None
  | (k', v) :: r => match dict_last k r with Some x => Some x | None => if text_eqb k k' then Some v else None end
  end.

Inductive elem := El (tag : text) (at_ : attrs) (kids : list elem).
Definition etag (e : elem) : text := match e with El t _ _ => t end.
Definition eattrs (e : elem) : attrs := match e with El _ a _ => a end.
Definition ekids (e : elem) : list elem := match e with El _ _ k => k end.
Definition attr (k : text) (e : elem) : option text := attr_get k (eattrs e).
Definition tag_is (t : text) (e : elem) : bool := text_eqb (etag e) t.
Definition eset (k v : text) (e : elem) : elem := match e with El t a ks => El t (attr_set k v a) ks end.

Fixpoint sequence {A} (l : list (option A)) : option (list A) :=
  match l with
  | [] => Some []
  | None :: _ => None
  | Some x :: r => match sequence r with Some xs => Some (x :: xs) | None => None end
  end.
(* enumerate(l, start) *)
Fixpoint mapi {A B} (f : nat -> A -> B) (start : nat) (l : list A) : list B :=
  match l with [] => [] | x :: r => f start x :: mapi f (S start) r end.

Fixpoint nnodes (t : tree) : nat :=
  match t with Leaf _ _ _ _ => 1%nat | Un _ _ _ t1 => S (nnodes t1) | Bin _ _ _ _ l r => S (nnodes l + nnodes r) end.

(* ================= printer/xml.py ================= *)
(* _process_tree.rec: `start` is the index of the next token popped from list(enumerate(tree.tokens)) *)
Fixpoint xml_node (t : tree) (start : nat) : elem :=
  match t with
  | Leaf c tok _ _ =>
      El g_lf (attr_set_all tok [(a_start, dec start); (a_span, v_one); (a_cat, show c)]) []
  | Un c ops _ t1 =>
      El g_rule [(a_type, ops); (a_cat, show c)] [xml_node t1 start]
  | Bin c ops _ _ l r =>
      El g_rule [(a_type, ops); (a_cat, show c)] [xml_node l start; xml_node r (start + nleaves l)]
  end.
Definition xml_ccg (si ti : nat) (t : tree) : elem :=
  El g_ccg [(a_sentence, dec si); (a_id, dec ti)] [xml_node t 0].
(* xml_of; scores are ignored by the printer *)
Definition enc_xml (nbest : list (list tree)) : elem :=
  El g_candc [] (concat (mapi (fun si trees => mapi (fun ti t => xml_ccg si ti t) 1 trees) 1 nbest)).

(* ================= printer/jigg_xml.py ================= *)
Definition cmv_atom (b : text) (f : feat) : text :=
  match f with
  | FNone => b
  | FUn v => b ++ [cLB] ++ v ++ v_eqtrue
  | FTer _ _ _ _ _ _ => show (Atom b f)
  end.
(* _cat_multi_valued *)
Fixpoint cmv (c : cat) : text :=
  match c with
  | Atom b f => cmv_atom b f
  | Fun l s r =>
      let rec x := match x with Atom b f => cmv_atom b f | Fun _ _ _ => [cLP] ++ cmv x ++ [cRP] end in
      rec l ++ s ++ rec r
  end.

Definition span_id (sid n : nat) : text := [115] ++ dec sid ++ [95; 115; 112] ++ dec n.        (* f's{sid}_sp{n}' *)
Definition tok_id (sid i : nat) : text := [115] ++ dec sid ++ [95] ++ dec i.                    (* f's{sid}_{i}' *)
Definition ccg_id (sid j : nat) : text := [115] ++ dec sid ++ [95; 99; 99; 103] ++ dec j.       (* f's{sid}_ccg{j}' *)

Section Jigg.
Variable use_symbol : bool.
Variable sid : nat.
(* the span element of node t when the span counter is n and the terminal counter is b *)
Definition jspan (t : tree) (n b : nat) : elem :=
  match t with
  | Leaf c _ _ _ =>
      El g_span [(a_category, cmv c); (a_id, span_id sid n); (a_terminal, tok_id sid b);
                 (a_begin, dec b); (a_end, dec (b + 1))] []
  | Un c ops sym t1 =>
      El g_span [(a_category, cmv c); (a_id, span_id sid n); (a_child, span_id sid (S n));
                 (a_rule, if use_symbol then sym else ops); (a_begin, dec b); (a_end, dec (b + nleaves t1))] []
  | Bin c ops sym _ l r =>
      El g_span [(a_category, cmv c); (a_id, span_id sid n);
                 (a_child, span_id sid (S n) ++ [cSP] ++ span_id sid (S n + nnodes l));
                 (a_rule, if use_symbol then sym else ops); (a_begin, dec b); (a_end, dec (b + (nleaves l + nleaves r)))] []
  end.
(* traverse: spans are appended to <ccg> in pre-order *)
Fixpoint jspans (t : tree) (n b : nat) : list elem :=
  jspan t n b ::
  match t with
  | Leaf _ _ _ _ => []
  | Un _ _ _ t1 => jspans t1 (S n) b
  | Bin _ _ _ _ l r => jspans l (S n) b ++ jspans r (S n + nnodes l) (b + nleaves l)
  end.
(* res[0].set('root', 'true') *)
Definition mark_root (l : list elem) : list elem :=
  match l with [] => [] | e :: r => eset a_root v_true e :: r end.
(* _ConvertToJiggXML.process with self._spid + 1 = n, self.processed = j; score = str(score) or None *)
Definition jccg (t : tree) (score : option text) (n j : nat) : elem :=
  El g_ccg ([(a_id, ccg_id sid j); (a_root, span_id sid n)] ++ match score with Some s => [(a_score, s)] | None => [] end)
     (mark_root (jspans t n 0)).
Fixpoint jccgs (ts : list (tree * option text)) (n j : nat) : list elem :=
  match ts with
  | [] => []
  | (t, sc) :: r => jccg t sc n j :: jccgs r (n + nnodes t) (S j)
  end.
End Jigg.

(* token = dict(token); word -> surf, lemma -> base *)
Definition jigg_rename (tok : token) : token :=
  let t1 := match tok_get k_word tok with Some v => attr_set a_surf v (attr_del k_word tok) | None => tok end in
  match tok_get k_lemma t1 with Some v => attr_set a_base v (attr_del k_lemma t1) | None => t1 end.
Definition jtoken (sid i : nat) (ct : cat * token) : elem :=
  El g_token (attr_set_all (jigg_rename (snd ct)) [(a_start, dec i); (a_cat, show (fst ct)); (a_id, tok_id sid i)]) [].
Definition jsentence (use_symbol : bool) (sid : nat) (parsed : list (tree * option text)) : option elem :=
  match parsed with
  | [] => None                                     (* parsed[0]: IndexError *)
  | (t0, _) :: _ =>
      Some (El g_sentence [] (El g_tokens [] (mapi (jtoken sid) 0 (leaves t0)) :: jccgs use_symbol sid parsed 0 0))
  end.
(* to_jigg_xml *)
Definition enc_jigg (use_symbol : bool) (trees : list (list (tree * option text))) : option elem :=
  match sequence (mapi (jsentence use_symbol) 0 trees) with
  | Some ss => Some (El g_root [] [El g_document [] [El g_sentences [] ss]])
  | None => None
  end.

(* ================= tools/reader.py ================= *)
Definition join_with (sep : text) (l : list text) : text :=
  match l with [] => [] | x :: r => x ++ flat_map (fun y => sep ++ y) r end.
(* all descendant elements in document order *)
Fixpoint descendants (e : elem) : list elem :=
  match e with El _ _ kids => flat_map (fun k => k :: descendants k) kids end.
Definition desc_or_self (e : elem) : list elem := e :: descendants e.

Definition reader_result : Type := text * list token * tree.

Section Readers.
Variable parse : text -> option cat.                          (* Category.parse; None = exception or ill-typed value *)
Variable guess : cat -> cat -> cat -> text * text * bool.     (* guess_combinator_by_triplet(binary_rules, target, x, y) -> op_string, op_symbol, head_is_left *)

(* read_xml.parse.rec *)
Fixpoint rx_node (e : elem) : option tree :=
  match e with
  | El tag a kids =>
      if text_eqb tag g_rule then
        match attr_get a_cat a with
        | None => None
        | Some ct =>
            match parse ct with
            | None => None
            | Some c =>
                match sequence (map rx_node kids) with
                | Some [t1] => Some (Un c (tok_get_default a_type s_lex a) s_unsym t1)
                | Some [l; r] =>
                    let '(ops, sym, hl) := guess c (tcat l) (tcat r) in
                    Some (Bin c (tok_get_default a_type ops a) sym hl l r)
                | _ => None
                end
            end
        end
      else if text_eqb tag g_lf then
        match attr_get a_cat a with
        | None => None
        | Some ct =>
            match parse ct with
            | None => None
            | Some c =>
                match attr_get k_word a, attr_get k_pos a, attr_get k_entity a, attr_get k_lemma a, attr_get k_chunk a with
                | Some w, Some p, Some en, Some le, Some ch =>
                    Some (Leaf c [(k_word, w); (k_pos, p); (k_entity, en); (k_lemma, le); (k_chunk, ch)] s_lex s_lexsym)
                | _, _, _, _, _ => None
                end
            end
        end
      else None
  end.
(* '_'.join(f'{k}={v}' for k, v in tree.items()) *)
Definition name_of (a : attrs) : text := join_with [cUS] (map (fun kv => fst kv ++ [cEQ] ++ snd kv) a).
Definition read_xml (root : elem) : option (list reader_result) :=
  sequence (map (fun ccg => match ekids ccg with
                            | [] => None                             (* tree[0]: IndexError *)
                            | k :: _ => match rx_node k with Some t => Some (name_of (eattrs ccg), tokens t, t) | None => None end
                            end)
                (filter (tag_is g_ccg) (ekids root))).

(* read_jigg_xml.try_get_surface *)
Definition surface (tok : token) : option text :=
  match tok_get k_word tok with Some w => Some w | None => tok_get a_surf tok end.
(* read_jigg_xml.parse.rec; fuel bounds the depth of id-chasing (a chain longer than the number of spans
   revisits a span: Python raises RecursionError) *)
Fixpoint rj_node (fuel : nat) (spans : list (text * elem)) (toks : list (text * token)) (e : elem) : option tree :=
  match fuel with
  | O => None
  | S f =>
      let a := eattrs e in
      match attr_get a_terminal a with
      | None =>
          match attr_get a_category a with
          | None => None
          | Some ct =>
              match parse ct with
              | None => None
              | Some c =>
                  match attr_get a_child a with
                  | None => None
                  | Some ch =>
                      match sequence (map (fun cid => match dict_last cid spans with
                                                      | Some s => rj_node f spans toks s
                                                      | None => None end) (split_on cSP ch [])) with
                      | Some [t1] => Some (Un c s_lex s_unsym t1)
                      | Some [l; r] =>
                          let '(ops, sym, hl) := guess c (tcat l) (tcat r) in Some (Bin c ops sym hl l r)
                      | _ => None
                      end
                  end
              end
          end
      | Some term =>
          match attr_get a_category a with
          | None => None
          | Some ct =>
              match parse ct with
              | None => None
              | Some c =>
                  match dict_last term toks with
                  | None => None
                  | Some tk => match surface tk with Some w => Some (Leaf c [(k_word, w)] s_lex s_lexsym) | None => None end
                  end
              end
          end
      end
  end.
(* {span.attrib['id']: span for span in tree.xpath('./span')} as the list of bindings *)
Definition keyed (l : list elem) : option (list (text * elem)) :=
  sequence (map (fun e => match attr a_id e with Some i => Some (i, e) | None => None end) l).
Definition rj_ccg (toks : list (text * token)) (ccg : elem) : option tree :=
  match keyed (filter (tag_is g_span) (ekids ccg)) with
  | None => None
  | Some spans =>
      match attr a_root ccg with
      | None => None
      | Some rid => match dict_last rid spans with
                    | Some s => rj_node (S (length spans)) spans toks s
                    | None => None end
      end
  end.
Definition rj_token (e : elem) : option (text * token) :=
  match attr a_id e with
  | None => None
  | Some i => Some (i, attr_del a_cat (attr_del a_start (attr_del a_id (eattrs e))))
  end.
Definition rj_sentence (s : elem) : option (list reader_result) :=
  match sequence (map rj_token (filter (tag_is g_token) (descendants s))) with
  | None => None
  | Some tids =>
      sequence (map (fun ccg => match rj_ccg tids ccg, attr a_id ccg with
                                | Some t, Some name => Some (name, map snd tids, t)
                                | _, _ => None end)
                    (filter (tag_is g_ccg) (ekids s)))
  end.
Definition read_jigg (root : elem) : option (list reader_result) :=
  match ekids root with
  | d :: _ =>
      match ekids d with
      | ss :: _ =>
          match sequence (map rj_sentence (filter (tag_is g_sentence) (ekids ss))) with
          | Some rs => Some (concat rs)
          | None => None
          end
      | [] => None
      end
  | [] => None
  end.
End Readers.

(* ================= ccg2lambda ================= *)
(* str.isspace() *)
Definition py_space (c : N) : bool :=
  ((9 <=? c) && (c <=? 13)) || ((28 <=? c) && (c <=? 32)) || (c =? 133) || (c =? 160) || (c =? 5760)
  || ((8192 <=? c) && (c <=? 8202)) || (c =? 8232) || (c =? 8233) || (c =? 8239) || (c =? 8287) || (c =? 12288).
(* str.split() *)
Fixpoint py_split_go (t : text) (acc : text) : list text :=
  match t with
  | [] => flush acc
  | c :: r => if py_space c then flush acc ++ py_split_go r [] else py_split_go r (c :: acc)
  end.
Definition py_split (t : text) : list text := py_split_go t [].

(* semantic_index.find_node_by_id: xpath './/descendant-or-self::*[@id=<dq>%s<dq>]', first hit; a double quote in the id
   breaks the xpath string literal (XPathEvalError) *)
Definition find_by_id (i : text) (e : elem) : option elem :=
  if has cDQ i then None
  else find (fun x => match attr a_id x with Some j => text_eqb j i | None => false end) (desc_or_self e).
Fixpoint bct_go (fuel : nat) (ccg : elem) (i : text) : option elem :=
  match fuel with
  | O => None
  | S f =>
      match find_by_id i ccg with
      | None => None
      | Some (El tag a kids) =>
          match attr_get a_child a with
          | None => Some (El tag a kids)
          | Some ch =>
              match sequence (map (bct_go f ccg) (py_split ch)) with
              | Some ks => Some (El tag a (kids ++ ks))
              | None => None
              end
          end
      end
  end.
(* build_ccg_tree(ccg_xml): None = exception, Some None = Python None *)
Definition build_ccg_tree (ccg : elem) : option (option elem) :=
  match ekids ccg with
  | [] => Some None
  | _ :: _ =>
      let rid := match attr a_root ccg with Some v => v | None => v_None end in
      match bct_go (S (length (desc_or_self ccg))) ccg rid with
      | Some e => Some (Some e)
      | None => None
      end
  end.

(* re.sub(c, rep, t) for a one-character pattern *)
Fixpoint replace_char (c : N) (rep : text) (t : text) : text :=
  match t with [] => [] | x :: r => (if N.eqb x c then rep else [x]) ++ replace_char c rep r end.
(* re.sub(r'^c$', rep, t): '$' also matches before a final newline *)
Definition replace_whole (c : N) (rep : text) (t : text) : text :=
  if text_eqb t [c] then rep else if text_eqb t [c; cNL] then rep ++ [cNL] else t.
Definition starts_us (t : text) : bool := match t with c :: _ => N.eqb c cUS | [] => false end.
Definition r_DOT : text := Eval vm_compute in T "_DOT".
Definition r_COMMA : text := Eval vm_compute in T "_COMMA".
Definition r_LEFTB : text := Eval vm_compute in T "_LEFTB".
Definition r_RIGHTB : text := Eval vm_compute in T "_RIGHTB".
Definition r_HYPHEN : text := Eval vm_compute in T "_HYPHEN".
Definition r_AMPERSAND : text := Eval vm_compute in T "_AMPERSAND".
Definition r_EXCLAMATION : text := Eval vm_compute in T "_EXCLAMATION".
Definition r_dash : text := Eval vm_compute in T "_dash_".
Definition normalize_token (t : text) : text :=
  let t := replace_char 46 r_DOT t in
  let t := replace_char 44 r_COMMA t in
  let t := replace_char 40 r_LEFTB t in
  let t := replace_char 41 r_RIGHTB t in
  let t := replace_whole 45 r_HYPHEN t in
  let t := replace_whole 38 r_AMPERSAND t in
  let t := replace_char 33 r_EXCLAMATION t in
  let t := replace_char 45 r_dash t in
  if starts_us t then t else cUS :: t.
(* one iteration of normalize_tokens, on the attributes of a <token> *)
Definition normalize_attrs (a : attrs) : attrs :=
  let a1 := match attr_get a_base a with
            | Some b => if text_eqb b v_star then attr_set a_base (tok_get_default a_surf v_star a) a else a
            | None => a end in
  let a2 := match attr_get a_base a1 with
            | Some b => if starts_us b then a1 else attr_set a_base (normalize_token b) a1
            | None => a1 end in
  match attr_get a_surf a2 with
  | Some s => if starts_us s then a2 else attr_set a_surf (normalize_token s) a2
  | None => a2
  end.

(* ---------- boolean equalities (used by the correspondence cases) ---------- *)
Fixpoint list_eqb {A} (eqb : A -> A -> bool) (a b : list A) : bool :=
  match a, b with
  | [], [] => true
  | x :: a', y :: b' => eqb x y && list_eqb eqb a' b'
  | _, _ => false
  end.
Definition kv_eqb (a b : text * text) : bool := text_eqb (fst a) (fst b) && text_eqb (snd a) (snd b).
Definition attrs_eqb : attrs -> attrs -> bool := list_eqb kv_eqb.
Fixpoint elem_eqb (a b : elem) : bool :=
  match a, b with
  | El t1 a1 k1, El t2 a2 k2 =>
      text_eqb t1 t2 && attrs_eqb a1 a2 &&
      (fix go (l1 l2 : list elem) : bool :=
         match l1, l2 with
         | [], [] => true
         | x :: r1, y :: r2 => elem_eqb x y && go r1 r2
         | _, _ => false
         end) k1 k2
  end.
Fixpoint tree_eqb (a b : tree) : bool :=
  match a, b with
  | Leaf c tok o s, Leaf c' tok' o' s' => cat_eqb c c' && attrs_eqb tok tok' && text_eqb o o' && text_eqb s s'
  | Un c o s t, Un c' o' s' t' => cat_eqb c c' && text_eqb o o' && text_eqb s s' && tree_eqb t t'
  | Bin c o s h l r, Bin c' o' s' h' l' r' =>
      cat_eqb c c' && text_eqb o o' && text_eqb s s' && Bool.eqb h h' && tree_eqb l l' && tree_eqb r r'
  | _, _ => false
  end.
Definition opt_eqb {A} (eqb : A -> A -> bool) (a b : option A) : bool :=
  match a, b with Some x, Some y => eqb x y | None, None => true | _, _ => false end.
Definition rr_eqb (a b : reader_result) : bool :=
  text_eqb (fst (fst a)) (fst (fst b)) && list_eqb attrs_eqb (snd (fst a)) (snd (fst b)) && tree_eqb (snd a) (snd b).
(* a finite table standing for guess_combinator_by_triplet on the triples the implementation asked for *)
Definition guess_of (tab : list (cat * cat * cat * (text * text * bool))) (c l r : cat) : text * text * bool :=
  match find (fun e => match e with (c', l', r', _) => cat_eqb c c' && cat_eqb l l' && cat_eqb r r' end) tab with
  | Some (_, _, _, res) => res
  | None => ([63], [63], true)
  end.
