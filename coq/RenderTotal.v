(* C19: computed facts about the generated key / label tables and vocabularies (GenRender.v, GenTables.v) and what follows. *)
From Coq Require Import List NArith Bool.
Import ListNotations.
Require Import Cat CatFacts Tree GenTables GenRender Render RenderProofs.
Open Scope N_scope.

(* ---------- closure of the generated tables (recomputed against the current source on every build) ---------- *)
Lemma all_offered_total : forallb (fun f => strict_word_only_b f && labels_closed_b f) offered_formats = true.
Proof. vm_compute. reflexivity. Qed.


Lemma check_batch_total lang f b : In f (offered_for lang) -> batch_ok lang b -> check_batch f b = Ok.
Proof.
  intros Hf Hb. apply offered_for_In in Hf as [Hin Hlang]. subst lang.
  pose proof (proj1 (forallb_forall _ offered_formats) all_offered_total f Hin) as H. apply andb_true_iff in H as [Hs Hl].
  unfold check_batch. apply first_err_ok_iff. unfold batch_ok in Hb.
  induction Hb as [|sent b Hsent Hb IH]; constructor; [|exact IH].
  unfold check_sentence. apply first_err_ok_iff.
  induction Hsent as [|t sent Ht Hsent IHs]; constructor; [|exact IHs].
  now apply check_tree_total.
Qed.

Lemma render_total lang f s : In f (offered_for lang) -> batch_ok lang (trees s) -> fst (render f s) = Ok.
Proof. intros Hf Hb. unfold render, render_with. cbn [fst]. now apply (check_batch_total lang). Qed.



Lemma failed_sentence_harmless lang f b1 b2 log :
  In f (offered_for lang) -> batch_ok lang b1 -> batch_ok lang b2 ->
  fst (render f {| trees := b1 ++ [[placeholder]] ++ b2; oplog := log |}) = Ok.
Proof.
  intros Hf H1 H2. apply (render_total lang); [exact Hf|]. cbn [trees]. apply batch_ok_app; [exact H1|]. apply batch_ok_app; [|exact H2].
  constructor; [|constructor]. constructor; [apply placeholder_ok | constructor].
Qed.


(* ---------- label vocabularies of the grammars vs the Prolog tables ---------- *)
Lemma en_labels_closed_b : forallb (fun p => text_in (fst p) (map fst prolog_op_mapping)) en_binary_labels = true.
Proof. vm_compute. reflexivity. Qed.
Lemma ja_symbols_closed_b : forallb (fun p => text_in (snd p) (map fst prolog_ja_combinators)) (ja_binary_labels ++ ja_unary_labels) = true.
Proof. vm_compute. reflexivity. Qed.

Lemma en_labels_closed ops sym : In (ops, sym) en_binary_labels -> In ops (map fst prolog_op_mapping).
Proof. intros H. apply text_in_In. exact (proj1 (forallb_forall _ _) en_labels_closed_b (ops, sym) H). Qed.
Lemma ja_symbols_closed ops sym : In (ops, sym) (ja_binary_labels ++ ja_unary_labels) -> In sym (map fst prolog_ja_combinators).
Proof. intros H. apply text_in_In. exact (proj1 (forallb_forall _ _) ja_symbols_closed_b (ops, sym) H). Qed.

(* the two translators agree: among the lookups of the Prolog printers are `_op_mapping[op_string]` on binary nodes (en) and
   `_ja_combinators[op_symbol]` on every inner node (ja), with the tables of GenTables.v *)
Definition label_check_eqb (a b : label_check) : bool :=
  let '(s1, a1, k1) := a in let '(s2, a2, k2) := b in text_eqb s1 s2 && text_eqb a1 a2 && list_eqb text_eqb k1 k2.
Definition looks_up (lang name : text) (c : label_check) : Prop :=
  match find_spec lang name with Some f => existsb (label_check_eqb c) (f_labels f) = true | None => True end.
Lemma prolog_lookups :
  looks_up l_en [112;114;111;108;111;103] (s_binary, s_op_string, map fst prolog_op_mapping)
  /\ looks_up l_ja [112;114;111;108;111;103] (s_nonleaf, s_op_symbol, map fst prolog_ja_combinators).
Proof. split; vm_compute; reflexivity. Qed.

(* every format of the two CLI lists is modelled, or is one of the formats that need depccg.semantics (nltk) *)
Definition covered_b (lang : text) (name : text) : bool :=
  match find_spec lang name with Some _ => true | None => existsb (fun p => text_eqb (fst p) lang && text_eqb (snd p) name) unmodelled_formats end.
Lemma cli_covered_b : forallb (covered_b l_en) cli_formats_en && forallb (covered_b l_ja) cli_formats_ja = true.
Proof. vm_compute. reflexivity. Qed.
Lemma cli_covered :
  (forall name, In name cli_formats_en -> covered_b l_en name = true) /\ (forall name, In name cli_formats_ja -> covered_b l_ja name = true).
Proof.
  pose proof cli_covered_b as H. apply andb_true_iff in H as [H1 H2]. rewrite forallb_forall in H1. rewrite forallb_forall in H2. now split.
Qed.
Lemma all_dispatched : undispatched_formats = [].
Proof. reflexivity. Qed.
