(* C01, premise about the shipped grammars: all rules of one grammar share one head direction (so the head of a span is a
   function of the span and the first-pop-wins chart is sound).  Over the grammars as translated from the source on every run. *)
From Coq Require Import List NArith Bool.
Import ListNotations.
Require Import Cat CatFacts Unify GramPrims GenTables GenEn GenJa P_C03 P_C04.

Theorem C01_english_rules_all_head_left : forall x y rs r, wf puncts x -> wf puncts y -> EnSpec.one_system x y ->
  GenEn.apply_binary_rules x y None = Ok_ rs -> In r rs -> head_is_left r = true.
Proof. exact C03_en_head_left. Qed.

Theorem C01_japanese_rules_all_head_right : forall x y rs r, JaSpec.ternary x -> JaSpec.ternary y ->
  GenJa.apply_binary_rules x y None = Ok_ rs -> In r rs -> head_is_left r = false.
Proof. exact C04_ja_head_right. Qed.
