(* Proofs about the AUTO model (C08): the reader reads what the printer prints; re-printing; conll fragments. *)
From Coq Require Import List NArith Bool Lia PeanoNat Arith.
Import ListNotations.
Require Import Cat CatFacts CatLex CatRoundTrip Tree GenTables GenAuto Auto AutoSpec.
Open Scope N_scope.

(* ---------- facts about the generated tables, re-checked by computation on every build ---------- *)
Lemma specials_std : forall c, special specials c = special9 c.
Proof. apply existsb_ext_set. vm_compute. reflexivity. Qed.
Lemma puncts_plain : Forall plain puncts.
Proof. apply Forall_plain_of_bool. vm_compute. reflexivity. Qed.

Lemma parse_cat_show c : wf puncts c -> parse_cat (show c) = Some c.
Proof. intros H. exact (parse_show specials specials_std puncts puncts_plain c H). Qed.

(* ---------- texts ---------- *)
Lemma has_app c a b : has c (a ++ b) = has c a || has c b.
Proof. unfold has. apply existsb_app. Qed.
Lemma has_cons c x a : has c (x :: a) = N.eqb c x || has c a.
Proof. reflexivity. Qed.

Lemma nosp_app a b : nosp a -> nosp b -> nosp (a ++ b).
Proof. unfold nosp. intros Ha Hb. now rewrite has_app, Ha, Hb. Qed.

Lemma split_sp_app a r : nosp a -> split_sp (a ++ cSP :: r) = Some (a, r).
Proof.
  unfold nosp. induction a as [|x a IH]; intros H.
  - reflexivity.
  - rewrite has_cons in H. apply orb_false_iff in H as [Hx Ha].
    cbn [app split_sp]. rewrite N.eqb_sym, Hx. now rewrite IH.
Qed.
Lemma split_sp_none a : nosp a -> split_sp a = None.
Proof.
  unfold nosp. induction a as [|x a IH]; intros H.
  - reflexivity.
  - rewrite has_cons in H. apply orb_false_iff in H as [Hx Ha].
    cbn [split_sp]. rewrite N.eqb_sym, Hx. now rewrite IH.
Qed.

(* the key lemma on the cursor: a field without blank, followed by a blank, is what next() returns *)
Lemma next_field line a r : nosp a -> next line (a ++ cSP :: r) = (a, r).
Proof. intros H. unfold next. now rewrite split_sp_app. Qed.

(* what may follow a printed node: the end of the line, or a blank *)
Definition tail_ok (tl : text) : Prop := tl = [] \/ exists r, tl = cSP :: r.
Definition after (line tl : text) : text := match tl with [] => line | _ :: r => r end.

Lemma next_last line a tl : nosp a -> tail_ok tl -> exists x, next line (a ++ tl) = (x, after line tl).
Proof.
  intros Ha [-> | [r ->]].
  - rewrite app_nil_r. unfold next. rewrite split_sp_none by assumption. now eexists.
  - rewrite next_field by assumption. now eexists.
Qed.

(* ---------- a printed category contains no blank ---------- *)
Lemma allplain_nosp t : allplain t = true -> nosp t.
Proof.
  unfold nosp. induction t as [|x t IH]; intros H; [reflexivity|].
  cbn [allplain forallb] in H. apply andb_true_iff in H as [Hx Ht].
  rewrite has_cons. rewrite (IH Ht), orb_false_r.
  unfold plainc in Hx. apply andb_true_iff in Hx as [_ Hx]. apply negb_true_iff in Hx. now rewrite N.eqb_sym.
Qed.

Lemma slash_nosp s : slashP s -> nosp s.
Proof. intros [-> | [-> | ->]]; reflexivity. Qed.

Lemma show_nosp c : wf puncts c -> nosp (show c).
Proof.
  induction c as [b f | l IHl s r IHr]; intros Hwf.
  - destruct Hwf as ([_ Hb] & Hf & _). cbn [show].
    pose proof (allplain_show_feat f Hf) as Hft.
    destruct (show_feat f) as [|x ft] eqn:E.
    + now apply allplain_nosp.
    + apply nosp_app; [now apply allplain_nosp|]. apply nosp_app; [reflexivity|].
      apply nosp_app; [now apply allplain_nosp | reflexivity].
  - destruct Hwf as (Hl & Hs & Hr).
    assert (Hp : forall x, nosp (show x) -> nosp (pshow x)).
    { intros x Hx. destruct x; [exact Hx|]. unfold pshow. apply nosp_app; [reflexivity|]. apply nosp_app; [exact Hx | reflexivity]. }
    change (show (Fun l s r)) with (pshow l ++ s ++ pshow r).
    apply nosp_app; [now apply Hp, IHl|]. apply nosp_app; [now apply slash_nosp | now apply Hp, IHr].
Qed.

(* ---------- str.replace and denormalize never introduce a character that neither the word nor the tables contain ---------- *)
Lemma replace_go_has ch old new t skip : has ch new = false -> has ch t = false -> has ch (replace_go old new t skip) = false.
Proof.
  intros Hn. revert skip. induction t as [|x t IH]; intros skip Ht; [reflexivity|].
  rewrite has_cons in Ht. apply orb_false_iff in Ht as [Hx Ht].
  cbn [replace_go]. destruct skip as [|k]; [|now apply IH].
  destruct (prefixb old (x :: t)).
  - rewrite has_app, Hn. now apply IH.
  - rewrite has_cons, Hx. now apply IH.
Qed.

Lemma replace_has ch old new t : has ch new = false -> has ch t = false -> has ch (replace old new t) = false.
Proof.
  intros Hn Ht. unfold replace. destruct old as [|o old]; [|now apply replace_go_has].
  rewrite has_app, Hn. cbn [orb].
  induction t as [|x t IH]; [reflexivity|].
  rewrite has_cons in Ht. apply orb_false_iff in Ht as [Hx Ht].
  cbn [flat_map app]. rewrite has_cons, Hx, has_app, Hn. now apply IH.
Qed.

Lemma assoc_In k l v : assoc k l = Some v -> In (k, v) l.
Proof.
  induction l as [|[a b] l IH]; intros H; [discriminate|].
  cbn [assoc] in H. destruct (text_eqb k a) eqn:E.
  - apply text_eqb_eq in E. inversion H; subst. now left.
  - right. now apply IH.
Qed.

(* no value of the tables contains ch *)
Definition tables_free (ch : N) : bool :=
  forallb (fun kv => negb (has ch (snd kv))) denormalize_table && forallb (fun kv => negb (has ch (snd kv))) denormalize_replace.

Lemma fold_replace_has ch (l : list (text * text)) w :
  forallb (fun kv => negb (has ch (snd kv))) l = true -> has ch w = false ->
  has ch (fold_left (fun acc on => replace (fst on) (snd on) acc) l w) = false.
Proof.
  revert w. induction l as [|[o n] l IH]; intros w Hl Hw; [exact Hw|].
  cbn [forallb] in Hl. apply andb_true_iff in Hl as [Hn Hl]. apply negb_true_iff in Hn.
  cbn [fold_left]. apply IH; [exact Hl|]. now apply replace_has.
Qed.

Lemma denormalize_has ch w : tables_free ch = true -> has ch w = false -> has ch (denormalize w) = false.
Proof.
  unfold tables_free. intros H Hw. apply andb_true_iff in H as [H1 H2].
  unfold denormalize. destruct (assoc w denormalize_table) as [v|] eqn:E.
  - apply assoc_In in E. rewrite forallb_forall in H1. specialize (H1 _ E). now apply negb_true_iff in H1.
  - now apply fold_replace_has.
Qed.

Lemma denormalize_nosp w : nosp w -> nosp (denormalize w).
Proof. apply denormalize_has. vm_compute. reflexivity. Qed.
Lemma denormalize_nobs w : has cBS w = false -> has cBS (denormalize w) = false.
Proof. apply denormalize_has. vm_compute. reflexivity. Qed.

(* deleting backslashes from a text without backslash *)
Lemma remove_absent ch t : has ch t = false -> replace [ch] [] t = t.
Proof.
  unfold replace. induction t as [|x t IH]; intros H; [reflexivity|].
  rewrite has_cons in H. apply orb_false_iff in H as [Hx Ht].
  cbn [replace_go prefixb]. rewrite Hx. cbn [andb]. now rewrite IH.
Qed.

(* ---------- _fix leaves a printed category alone ---------- *)
(* in a printed category, every '[' directly follows a character of an atom name *)
Fixpoint lbok (prev : option N) (t : text) : bool :=
  match t with
  | [] => true
  | c :: r => (if N.eqb c cLB then match prev with Some p => plainc p | None => false end else true) && lbok (Some c) r
  end.
Definition lastc (prev : option N) (t : text) : option N := match rev t with [] => prev | x :: _ => Some x end.

Lemma lastc_cons prev x t : lastc prev (x :: t) = lastc (Some x) t.
Proof.
  unfold lastc. cbn [rev]. destruct (rev t) as [|y l] eqn:E; reflexivity.
Qed.

Lemma lbok_app prev a b : lbok prev (a ++ b) = lbok prev a && lbok (lastc prev a) b.
Proof.
  revert prev. induction a as [|x a IH]; intros prev.
  - reflexivity.
  - cbn [app lbok]. rewrite IH, lastc_cons. now rewrite andb_assoc.
Qed.

Lemma lbok_plain prev t : allplain t = true -> lbok prev t = true.
Proof.
  revert prev. induction t as [|x t IH]; intros prev H; [reflexivity|].
  cbn [allplain forallb] in H. apply andb_true_iff in H as [Hx Ht]. cbn [lbok].
  rewrite (IH _ Ht), andb_true_r.
  destruct (N.eqb_spec x cLB) as [->|]; [discriminate Hx | reflexivity].
Qed.

Lemma lastc_plain prev t : t <> [] -> allplain t = true -> exists p, lastc prev t = Some p /\ plainc p = true.
Proof.
  intros Hne Hall. unfold lastc. destruct (rev t) as [|x l] eqn:E.
  - exfalso. apply Hne. apply (f_equal (@rev N)) in E. now rewrite rev_involutive in E.
  - exists x. split; [reflexivity|].
    unfold allplain in Hall. rewrite forallb_forall in Hall. apply Hall. apply in_rev. rewrite E. now left.
Qed.

Lemma show_lbok c : wf puncts c -> forall prev, lbok prev (show c) = true.
Proof.
  induction c as [b f | l IHl s r IHr]; intros Hwf prev.
  - destruct Hwf as ([Hne Hb] & Hf & _). cbn [show].
    pose proof (allplain_show_feat f Hf) as Hft.
    destruct (show_feat f) as [|x ft] eqn:E.
    + now apply lbok_plain.
    + rewrite !lbok_app. rewrite (lbok_plain prev b Hb), (lbok_plain _ (x :: ft) Hft). cbn [andb].
      destruct (lastc_plain prev b Hne Hb) as (p & -> & Hp).
      cbn [lbok]. change (N.eqb cLB cLB) with true. cbv iota. rewrite Hp.
      change (N.eqb cRB cLB) with false. reflexivity.
  - destruct Hwf as (Hl & Hs & Hr).
    assert (Hp : forall x, (forall prev, lbok prev (show x) = true) -> forall prev, lbok prev (pshow x) = true).
    { intros x Hx pv. destruct x; [apply Hx|]. unfold pshow. cbn [app lbok]. change (N.eqb cLP cLB) with false. cbv iota. cbn [andb].
      rewrite lbok_app, Hx. reflexivity. }
    change (show (Fun l s r)) with (pshow l ++ s ++ pshow r).
    rewrite lbok_app, (Hp l (IHl Hl)). cbn [andb]. rewrite lbok_app, (Hp r (IHr Hr)), andb_true_r.
    destruct Hs as [-> | [-> | ->]]; reflexivity.
Qed.

Lemma lbok_mid prev x a y : lbok prev (x ++ a :: cLB :: y) = true -> plainc a = true.
Proof.
  rewrite lbok_app. intros H. apply andb_true_iff in H as [_ H].
  cbn [lbok] in H. change (N.eqb cLB cLB) with true in H. cbv iota in H.
  apply andb_true_iff in H as [_ H]. apply andb_true_iff in H as [H _]. exact H.
Qed.

Lemma suffixb_app suf t : suffixb suf t = true -> exists x, t = x ++ suf.
Proof.
  unfold suffixb. intros H. apply andb_true_iff in H as [_ H]. apply text_eqb_eq in H.
  exists (firstn (length t - length suf) t). rewrite <- H at 2. now rewrite firstn_skipn.
Qed.

(* every suffix that triggers the cut starts with a non-name character followed by '[' *)
Definition suffixes_ok : bool :=
  forallb (fun suf => match suf with a :: b :: _ => negb (plainc a) && N.eqb b cLB | _ => false end) fix_suffixes.
(* a key of _FIX is not the printed form of the category it reads as (or is mapped to itself) *)
Definition fix_table_ok : bool :=
  forallb (fun kv => match parse_cat (fst kv) with
                     | None => true
                     | Some c => negb (text_eqb (show c) (fst kv)) || text_eqb (snd kv) (fst kv)
                     end) fix_table.

Lemma fix_show c : wf puncts c -> fixcat (show c) = show c.
Proof.
  intros Hwf. unfold fixcat.
  destruct (assoc (show c) fix_table) as [v|] eqn:E.
  - apply assoc_In in E.
    assert (Hok : fix_table_ok = true) by (vm_compute; reflexivity).
    unfold fix_table_ok in Hok. rewrite forallb_forall in Hok. specialize (Hok _ E). cbn [fst snd] in Hok.
    rewrite (parse_cat_show c Hwf), text_eqb_refl in Hok. cbn [negb orb] in Hok. now apply text_eqb_eq in Hok.
  - destruct (existsb (fun suf => suffixb suf (show c)) fix_suffixes) eqn:Ex; [|reflexivity].
    exfalso. apply existsb_exists in Ex as (suf & Hin & Hsuf).
    assert (Hok : suffixes_ok = true) by (vm_compute; reflexivity).
    unfold suffixes_ok in Hok. rewrite forallb_forall in Hok. specialize (Hok _ Hin).
    destruct suf as [|a [|b suf]]; try discriminate Hok.
    apply andb_true_iff in Hok as [Ha Hb]. apply N.eqb_eq in Hb. subst b.
    apply suffixb_app in Hsuf as [x Hx].
    pose proof (show_lbok c Hwf None) as Hl. rewrite Hx in Hl. apply lbok_mid in Hl. rewrite Hl in Ha. discriminate.
Qed.

Lemma parse_fix_show c : wf puncts c -> parse_cat (fixcat (show c)) = Some c.
Proof. intros H. rewrite fix_show by assumption. now apply parse_cat_show. Qed.

(* ---------- the reader on printed text ---------- *)
Lemma check_0 x s : check (x :: s) 0 x = true.
Proof. unfold check. cbn [nth_error]. apply N.eqb_refl. Qed.
Lemma check_1 a x s : check (a :: x :: s) 1 x = true.
Proof. unfold check. cbn [nth_error]. apply N.eqb_refl. Qed.
Lemma check_2 a b x s : check (a :: b :: x :: s) 2 x = true.
Proof. unfold check. cbn [nth_error]. apply N.eqb_refl. Qed.

Lemma leaf_text_nf c pos w tl :
  leaf_text c pos w ++ tl =
  cLP :: cLT :: cL :: cSP :: (show c ++ cSP :: (pos ++ cSP :: (pos ++ cSP :: (denormalize w ++ cSP :: ((show c ++ s_closeL) ++ tl))))).
Proof. unfold leaf_text, s_openL. repeat (rewrite <- app_assoc; cbn [app]). reflexivity. Qed.

Lemma T_text_nf c hl n body :
  hdr c hl n ++ [cSP] ++ body =
  cLP :: cLT :: cT :: cSP :: (show c ++ cSP :: ([if hl then c0 else c1] ++ cSP :: ([n; cGT] ++ cSP :: body))).
Proof. unfold hdr, s_openT. repeat (rewrite <- app_assoc; cbn [app]). reflexivity. Qed.

Lemma next_open3 line a b c r : a <> cSP -> b <> cSP -> c <> cSP -> next line (a :: b :: c :: cSP :: r) = ([a; b; c], r).
Proof.
  intros Ha Hb Hc. change (a :: b :: c :: cSP :: r) with ([a; b; c] ++ cSP :: r). apply next_field.
  unfold nosp. cbn [has existsb]. apply N.eqb_neq in Ha, Hb, Hc. rewrite (N.eqb_sym cSP a), (N.eqb_sym cSP b), (N.eqb_sym cSP c), Ha, Hb, Hc. reflexivity.
Qed.

Lemma parse_leaf_text line c pos w tl toks :
  wf puncts c -> nosp pos -> word_ok w -> tail_ok tl ->
  parse_leaf line (leaf_text c pos w ++ tl) toks =
  Some (Leaf c (reader_token (denormalize w) pos pos) s_lex s_lexsym, after line tl, toks ++ [reader_token (denormalize w) pos pos]).
Proof.
  intros Hc Hpos [Hw1 Hw2] Htl. rewrite leaf_text_nf. unfold parse_leaf.
  rewrite check_0, check_1, check_2. cbn [andb].
  rewrite next_open3 by discriminate.
  rewrite (next_field line (show c)) by now apply show_nosp.
  rewrite parse_fix_show by assumption.
  rewrite (next_field line pos) by assumption.
  rewrite (next_field line pos) by assumption.
  rewrite (next_field line (denormalize w)) by now apply denormalize_nosp.
  assert (Hlast : nosp (show c ++ s_closeL)) by (apply nosp_app; [now apply show_nosp | reflexivity]).
  destruct (next_last line _ tl Hlast Htl) as [x ->].
  rewrite remove_absent by now apply denormalize_nobs.
  reflexivity.
Qed.

Lemma node_S guess line f s toks :
  node guess line (S f) s toks =
  match nth_error s 2 with
  | None => None
  | Some k =>
      if N.eqb k cL then parse_leaf line s toks
      else if N.eqb k cT then
        if check s 0 cLP && check s 1 cLT && check s 2 cT then
          let (_, s1) := next line s in
          let (ctext, s2) := next line s1 in
          match parse_cat (fixcat ctext) with
          | None => None
          | Some c =>
              let (h, s3) := next line s2 in
              let hl := text_eqb h [c0] in
              let (_, s4) := next line s3 in
              match kids guess line f s4 toks with
              | None => None
              | Some (children, s5, toks') =>
                  let (_, s6) := next line s5 in
                  match children with
                  | [l; r] => let (o, y) := guess c (tcat l) (tcat r) in Some (Bin c o y hl l r, s6, toks')
                  | [u] => Some (Un c s_lex s_unsym u, s6, toks')
                  | _ => None
                  end
              end
          end
        else None
      else None
  end.
Proof. reflexivity. Qed.

Lemma kids_S guess line f s toks :
  kids guess line (S f) s toks =
  match s with
  | [] => None
  | k :: _ =>
      if N.eqb k cRP then Some ([], s, toks)
      else match node guess line f s toks with
           | None => None
           | Some (t, s', toks') =>
               match kids guess line f s' toks' with
               | None => None
               | Some (ts, s'', toks'') => Some (t :: ts, s'', toks'')
               end
           end
  end.
Proof. reflexivity. Qed.

Lemma print_starts t p : print_auto t = Some p -> exists p', p = cLP :: p'.
Proof.
  destruct t as [c tok ops sym | c ops sym u | c ops sym hl l r]; cbn [print_auto]; intros H.
  - destruct (leaf_word tok); [|discriminate]. inversion H. eexists. reflexivity.
  - destruct (print_auto u); [|discriminate]. inversion H. eexists. reflexivity.
  - destruct (print_auto l); [|discriminate]. destruct (print_auto r); [|discriminate]. inversion H. eexists. reflexivity.
Qed.

Lemma wf_printable t : wf_tree t -> exists p, print_auto t = Some p.
Proof.
  induction t as [c tok ops sym | c ops sym u IHu | c ops sym hl l IHl r IHr]; cbn [wf_tree print_auto].
  - intros (_ & (w & -> & _) & _). eexists. reflexivity.
  - intros (_ & Hu). destruct (IHu Hu) as [p ->]. eexists. reflexivity.
  - intros (_ & Hl & Hr). destruct (IHl Hl) as [a ->]. destruct (IHr Hr) as [b ->]. eexists. reflexivity.
Qed.

Lemma tcat_canon guess t : tcat (canon guess t) = tcat t.
Proof. destruct t as [c tok ops sym | c ops sym u | c ops sym hl l r]; cbn [canon tcat]; [reflexivity | reflexivity |]. now destruct (guess c (tcat l) (tcat r)). Qed.

Lemma need_pos t : (1 <= need t)%nat.
Proof. destruct t; cbn [need]; lia. Qed.

Lemma hl_digit (hl : bool) : text_eqb [if hl then c0 else c1] [c0] = hl.
Proof. now destruct hl. Qed.

Section ReadPrint.
Variable guess : cat -> cat -> cat -> text * text.
Variable line : text.

(* a printed subtree, followed by the end of the line or by a blank, is read back as its canonical form; the cursor ends
   behind the blank (or at 0), the token list grows by the tokens of the subtree *)
Lemma node_print t : wf_tree t -> forall p, print_auto t = Some p ->
  forall fuel tl toks, (need t <= fuel)%nat -> tail_ok tl ->
  node guess line fuel (p ++ tl) toks = Some (canon guess t, after line tl, toks ++ tokens (canon guess t)).
Proof.
  induction t as [c tok ops sym | c ops sym u IHu | c ops sym hl l IHl r IHr]; intros Hwf p Hp fuel tl toks Hfuel Htl.
  - (* leaf *)
    cbn [wf_tree] in Hwf. destruct Hwf as (Hc & (w & Hw & Hwo) & Hpos).
    cbn [print_auto] in Hp. rewrite Hw in Hp.
    assert (Ep : p = leaf_text c (tok_get_default k_pos s_POS tok) w) by congruence. subst p. clear Hp.
    destruct fuel as [|f]; [cbn [need] in Hfuel; lia|].
    rewrite node_S.
    assert (nth_error (leaf_text c (tok_get_default k_pos s_POS tok) w ++ tl) 2 = Some cL) as -> by (rewrite leaf_text_nf; reflexivity).
    rewrite N.eqb_refl.
    rewrite parse_leaf_text by assumption.
    cbn [canon]. rewrite Hw. reflexivity.
  - (* unary *)
    cbn [wf_tree] in Hwf. destruct Hwf as (Hc & Hu).
    cbn [print_auto] in Hp. destruct (print_auto u) as [pu|] eqn:Epu; [|discriminate].
    assert (Ep : p = hdr c true c1 ++ [cSP] ++ pu ++ s_closeT) by congruence. subst p. clear Hp.
    cbn [need] in Hfuel.
    pose proof (need_pos u) as Hnu.
    destruct fuel as [|[|[|f]]]; try lia.
    rewrite <- !app_assoc. rewrite T_text_nf. rewrite node_S.
    cbn [nth_error]. change (N.eqb cT cL) with false. rewrite N.eqb_refl. cbv iota.
    rewrite check_0, check_1, check_2. cbn [andb].
    rewrite next_open3 by discriminate.
    rewrite (next_field line (show c)) by now apply show_nosp.
    rewrite parse_fix_show by assumption.
    rewrite (next_field line [c0]) by reflexivity.
    rewrite (next_field line [c1; cGT]) by reflexivity.
    destruct (print_starts u pu Epu) as [pu' Epu'].
    (* first child *)
    rewrite kids_S.
    replace (pu ++ s_closeT ++ tl) with (pu ++ cSP :: (cRP :: tl)) by reflexivity.
    rewrite Epu' at 1. cbn [app]. change (N.eqb cLP cRP) with false. cbv iota.
    rewrite (IHu Hu pu eq_refl (S f) (cSP :: cRP :: tl) toks) by (try lia; right; eexists; reflexivity).
    cbn [after].
    (* the closing bracket *)
    rewrite kids_S. rewrite N.eqb_refl.
    destruct (next_last line [cRP] tl eq_refl Htl) as [x Hx]. cbn [app] in Hx. rewrite Hx.
    reflexivity.
  - (* binary *)
    cbn [wf_tree] in Hwf. destruct Hwf as (Hc & Hl & Hr).
    cbn [print_auto] in Hp. destruct (print_auto l) as [pl|] eqn:Epl; [|discriminate].
    destruct (print_auto r) as [pr|] eqn:Epr; [|discriminate].
    assert (Ep : p = hdr c hl c2 ++ [cSP] ++ pl ++ [cSP] ++ pr ++ s_closeT) by congruence. subst p. clear Hp.
    cbn [need] in Hfuel.
    pose proof (need_pos l) as Hnl. pose proof (need_pos r) as Hnr.
    destruct fuel as [|[|[|[|f]]]]; try lia.
    rewrite <- !app_assoc. rewrite T_text_nf. rewrite node_S.
    cbn [nth_error]. change (N.eqb cT cL) with false. rewrite N.eqb_refl. cbv iota.
    rewrite check_0, check_1, check_2. cbn [andb].
    rewrite next_open3 by discriminate.
    rewrite (next_field line (show c)) by now apply show_nosp.
    rewrite parse_fix_show by assumption.
    rewrite (next_field line [if hl then c0 else c1]) by now destruct hl.
    rewrite (next_field line [c2; cGT]) by reflexivity.
    rewrite hl_digit.
    destruct (print_starts l pl Epl) as [pl' Epl']. destruct (print_starts r pr Epr) as [pr' Epr'].
    (* left child *)
    rewrite kids_S.
    replace (pl ++ [cSP] ++ pr ++ s_closeT ++ tl) with (pl ++ cSP :: (pr ++ cSP :: (cRP :: tl))) by reflexivity.
    rewrite Epl' at 1. cbn [app]. change (N.eqb cLP cRP) with false. cbv iota.
    rewrite (IHl Hl pl eq_refl (S (S f)) (cSP :: (pr ++ cSP :: cRP :: tl)) toks) by (try lia; right; eexists; reflexivity).
    cbn [after].
    (* right child *)
    rewrite kids_S.
    rewrite Epr' at 1. cbn [app]. change (N.eqb cLP cRP) with false. cbv iota.
    rewrite (IHr Hr pr eq_refl (S f) (cSP :: cRP :: tl)) by (try lia; right; eexists; reflexivity).
    cbn [after].
    (* the closing bracket *)
    rewrite kids_S. rewrite N.eqb_refl.
    destruct (next_last line [cRP] tl eq_refl Htl) as [x Hx]. cbn [app] in Hx. rewrite Hx.
    rewrite !tcat_canon. cbn [canon].
    destruct (guess c (tcat l) (tcat r)) as [o y].
    unfold tokens. cbn [leaves]. rewrite map_app, app_assoc. reflexivity.
Qed.
End ReadPrint.

(* ---------- the whole line, the whole file ---------- *)
Lemma need_le_length t : forall p, print_auto t = Some p -> (need t <= length p)%nat.
Proof.
  induction t as [c tok ops sym | c ops sym u IHu | c ops sym hl l IHl r IHr]; intros p Hp; cbn [print_auto] in Hp.
  - destruct (leaf_word tok); [|discriminate]. assert (E : p = leaf_text c (tok_get_default k_pos s_POS tok) t) by congruence.
    subst p. unfold leaf_text, s_openL. rewrite app_length. cbn [length need]. lia.
  - destruct (print_auto u) as [pu|]; [|discriminate].
    assert (E : p = hdr c true c1 ++ [cSP] ++ pu ++ s_closeT) by congruence. subst p.
    specialize (IHu pu eq_refl). unfold s_closeT. rewrite !app_length. cbn [length need]. lia.
  - destruct (print_auto l) as [pl|]; [|discriminate]. destruct (print_auto r) as [pr|]; [|discriminate].
    assert (E : p = hdr c hl c2 ++ [cSP] ++ pl ++ [cSP] ++ pr ++ s_closeT) by congruence. subst p.
    specialize (IHl pl eq_refl). specialize (IHr pr eq_refl). unfold s_closeT. rewrite !app_length. cbn [length need]. lia.
Qed.

Theorem read_line_print guess t p : wf_tree t -> print_auto t = Some p ->
  read_line guess p = Some (canon guess t, tokens (canon guess t)).
Proof.
  intros Hwf Hp. unfold read_line.
  pose proof (node_print guess p t Hwf p Hp (length p) [] [] (need_le_length t p Hp) (or_introl eq_refl)) as H.
  rewrite app_nil_r in H. rewrite H. reflexivity.
Qed.

Lemma print_ends t p : print_auto t = Some p -> exists p', p = p' ++ [cRP].
Proof.
  destruct t as [c tok ops sym | c ops sym u | c ops sym hl l r]; cbn [print_auto]; intros H.
  - destruct (leaf_word tok); [|discriminate].
    assert (E : p = leaf_text c (tok_get_default k_pos s_POS tok) t) by congruence. subst p.
    unfold leaf_text, s_closeL. eexists. change [cGT; cRP] with ([cGT] ++ [cRP]). rewrite !app_assoc. reflexivity.
  - destruct (print_auto u) as [pu|]; [|discriminate].
    assert (E : p = hdr c true c1 ++ [cSP] ++ pu ++ s_closeT) by congruence. subst p.
    unfold s_closeT. eexists. change [cSP; cRP] with ([cSP] ++ [cRP]). rewrite !app_assoc. reflexivity.
  - destruct (print_auto l) as [pl|]; [|discriminate]. destruct (print_auto r) as [pr|]; [|discriminate].
    assert (E : p = hdr c hl c2 ++ [cSP] ++ pl ++ [cSP] ++ pr ++ s_closeT) by congruence. subst p.
    unfold s_closeT. eexists. change [cSP; cRP] with ([cSP] ++ [cRP]). rewrite !app_assoc. reflexivity.
Qed.

Lemma lstrip_ws pad r : forallb is_ws pad = true -> lstrip (pad ++ r) = lstrip r.
Proof.
  induction pad as [|x pad IH]; intros H; [reflexivity|].
  cbn [forallb] in H. apply andb_true_iff in H as [Hx Hp]. cbn [app lstrip]. rewrite Hx. now apply IH.
Qed.

(* str.strip() leaves a printed line alone and removes the newline (or any other white space) after it *)
Lemma strip_printed t p pad : print_auto t = Some p -> forallb is_ws pad = true -> strip (p ++ pad) = p.
Proof.
  intros Hp Hpad. destruct (print_starts t p Hp) as [p1 E1]. destruct (print_ends t p Hp) as [p2 E2].
  unfold strip.
  assert (lstrip (p ++ pad) = p ++ pad) as -> by (rewrite E1; reflexivity).
  rewrite rev_app_distr. rewrite lstrip_ws by (rewrite forallb_forall in *; intros x Hx; apply Hpad; now apply in_rev).
  rewrite E2 at 1. rewrite rev_app_distr. cbn [rev app lstrip]. change (is_ws cRP) with false. cbv iota.
  change (cRP :: rev p2) with (rev [cRP] ++ rev p2). rewrite <- rev_app_distr, rev_involutive. now rewrite <- E2.
Qed.

Theorem read_file_print guess t p name pad :
  wf_tree t -> print_auto t = Some p -> prefixb s_ID (strip name) = true -> forallb is_ws pad = true ->
  read_auto guess [name; p ++ pad] = Some [(strip name, tokens (canon guess t), canon guess t)].
Proof.
  intros Hwf Hp Hid Hpad. unfold read_auto. cbn [read_lines].
  destruct (strip name) as [|n0 n] eqn:En; [discriminate Hid|]. rewrite Hid.
  rewrite (strip_printed t p pad Hp Hpad).
  destruct (print_starts t p Hp) as [p1 E1]. subst p.
  change (prefixb s_ID (cLP :: p1)) with false. cbv iota.
  rewrite (read_line_print guess t _ Hwf Hp). reflexivity.
Qed.

(* ---------- printing what was read: denormalize is idempotent ---------- *)
Lemma replace1_flat o n t : replace [o] n t = flat_map (fun x => if N.eqb o x then n else [x]) t.
Proof.
  unfold replace. induction t as [|x t IH]; [reflexivity|].
  cbn [replace_go prefixb flat_map length Nat.sub]. rewrite andb_true_r.
  destruct (N.eqb o x); rewrite IH; reflexivity.
Qed.

Lemma replace1_absent o n t : has o t = false -> replace [o] n t = t.
Proof.
  rewrite replace1_flat. induction t as [|x t IH]; intros H; [reflexivity|].
  rewrite has_cons in H. apply orb_false_iff in H as [Hx Ht]. cbn [flat_map]. rewrite Hx. cbn [app]. now rewrite IH.
Qed.

Lemma replace1_gone o n t : has o n = false -> has o (replace [o] n t) = false.
Proof.
  intros Hn. rewrite replace1_flat. induction t as [|x t IH]; [reflexivity|].
  cbn [flat_map]. rewrite has_app, IH, orb_false_r.
  destruct (N.eqb o x) eqn:E; [exact Hn|]. rewrite has_cons, E. reflexivity.
Qed.

Lemma replace1_single o n t c : (2 <= length n)%nat -> replace [o] n t = [c] -> t = [c].
Proof.
  intros Hn. rewrite replace1_flat. destruct t as [|x t]; [discriminate|].
  cbn [flat_map]. destruct (N.eqb o x).
  - intros H. apply (f_equal (@length N)) in H. rewrite app_length in H. cbn [length] in H. lia.
  - cbn [app]. intros H. injection H as -> H. destruct t as [|y t]; [reflexivity|].
    exfalso. cbn [flat_map] in H. destruct (N.eqb o y); [destruct n; [cbn in Hn; lia | discriminate] | discriminate].
Qed.

(* shape of the replacement list: single characters are replaced by texts of at least two characters none of which is replaced *)
Definition repl_ok (l : list (text * text)) : bool :=
  forallb (fun on => match fst on with
                     | [o] => Nat.leb 2 (length (snd on)) && forallb (fun on' => match fst on' with [o'] => negb (has o' (snd on)) | _ => false end) l
                     | _ => false
                     end) l.
Definition olds (l : list (text * text)) : list N := flat_map (fun on => fst on) l.
Definition foldrep (l : list (text * text)) (w : text) : text := fold_left (fun acc on => replace (fst on) (snd on) acc) l w.

Section Repl.
Variable R : list (text * text).
Hypothesis R_ok : repl_ok R = true.

Lemma R_entry o n : In (o, n) R -> exists ch, o = [ch] /\ (2 <= length n)%nat /\ forall o', In o' (olds R) -> has o' n = false.
Proof.
  intros Hin. unfold repl_ok in R_ok. rewrite forallb_forall in R_ok. specialize (R_ok _ Hin). cbn [fst snd] in R_ok.
  destruct o as [|ch [|? ?]]; try discriminate R_ok. exists ch. split; [reflexivity|].
  apply andb_true_iff in R_ok as [Hlen Hall]. split; [now apply Nat.leb_le|].
  intros o' Ho'. unfold olds in Ho'. apply in_flat_map in Ho' as ([o2 n2] & Hin2 & Ho2). cbn [fst] in Ho2.
  rewrite forallb_forall in Hall. specialize (Hall _ Hin2). cbn [fst] in Hall.
  destruct o2 as [|c2 [|? ?]]; try discriminate Hall. destruct Ho2 as [<- | []]. now apply negb_true_iff in Hall.
Qed.

(* sub-lists of R *)
Lemma foldrep_keeps_absent l ch w : incl l R -> In ch (olds R) -> has ch w = false -> has ch (foldrep l w) = false.
Proof.
  revert w. induction l as [|[o n] l IH]; intros w Hl Hch Hw; [exact Hw|].
  unfold foldrep. cbn [fold_left fst snd]. apply IH; [intros x Hx; apply Hl; now right | exact Hch |].
  destruct (R_entry o n (Hl _ (or_introl eq_refl))) as (c & -> & _ & Hfree).
  apply replace_has; [now apply Hfree | exact Hw].
Qed.

Lemma foldrep_clean l w : incl l R -> forall ch, In ch (olds l) -> has ch (foldrep l w) = false.
Proof.
  revert w. induction l as [|[o n] l IH]; intros w Hl ch Hch; [destruct Hch|].
  assert (Hl' : incl l R) by (intros x Hx; apply Hl; now right).
  destruct (R_entry o n (Hl _ (or_introl eq_refl))) as (c & -> & _ & Hfree).
  unfold olds in Hch. cbn [flat_map fst app] in Hch. destruct Hch as [<- | Hch].
  - unfold foldrep. cbn [fold_left fst snd].
    apply (foldrep_keeps_absent l c _ Hl').
    + unfold olds. apply in_flat_map. exists ([c], n). split; [apply Hl; now left | now left].
    + apply replace1_gone. apply Hfree. unfold olds. apply in_flat_map. exists ([c], n). split; [apply Hl; now left | now left].
  - unfold foldrep. cbn [fold_left fst snd]. now apply IH.
Qed.

Lemma foldrep_id l w : incl l R -> (forall ch, In ch (olds l) -> has ch w = false) -> foldrep l w = w.
Proof.
  revert w. induction l as [|[o n] l IH]; intros w Hl Hw; [reflexivity|].
  destruct (R_entry o n (Hl _ (or_introl eq_refl))) as (c & -> & _ & _).
  unfold foldrep. cbn [fold_left fst snd].
  rewrite replace1_absent by (apply Hw; unfold olds; cbn [flat_map fst app]; now left).
  apply IH; [intros x Hx; apply Hl; now right|].
  intros ch Hch. apply Hw. unfold olds. cbn [flat_map fst app]. right. exact Hch.
Qed.

Lemma foldrep_single l w c : incl l R -> foldrep l w = [c] -> w = [c].
Proof.
  revert w. induction l as [|[o n] l IH]; intros w Hl H; [exact H|].
  destruct (R_entry o n (Hl _ (or_introl eq_refl))) as (ch & -> & Hlen & _).
  unfold foldrep in H. cbn [fold_left fst snd] in H.
  apply IH in H; [|intros x Hx; apply Hl; now right]. now apply replace1_single in H.
Qed.

Lemma foldrep_idem w : foldrep R (foldrep R w) = foldrep R w.
Proof. apply foldrep_id; [apply incl_refl|]. intros ch Hch. now apply foldrep_clean; [apply incl_refl|]. Qed.
End Repl.

(* every key of the table is a single character, every value of the table is left alone by denormalize *)
Definition table_ok : bool :=
  forallb (fun kv => match fst kv with [_] => true | _ => false end && text_eqb (denormalize (snd kv)) (snd kv)) denormalize_table.

Theorem denormalize_idem w : denormalize (denormalize w) = denormalize w.
Proof.
  assert (HT : table_ok = true) by (vm_compute; reflexivity).
  assert (HR : repl_ok denormalize_replace = true) by (vm_compute; reflexivity).
  unfold table_ok in HT. rewrite forallb_forall in HT.
  unfold denormalize at 2 3. destruct (assoc w denormalize_table) as [v|] eqn:E.
  - apply assoc_In in E. specialize (HT _ E). cbn [fst snd] in HT. apply andb_true_iff in HT as [_ HT]. now apply text_eqb_eq in HT.
  - fold (foldrep denormalize_replace w). unfold denormalize.
    destruct (assoc (foldrep denormalize_replace w) denormalize_table) as [v|] eqn:E2.
    + exfalso. pose proof (assoc_In _ _ _ E2) as Hin. specialize (HT _ Hin). cbn [fst snd] in HT.
      apply andb_true_iff in HT as [HT _].
      destruct (foldrep denormalize_replace w) as [|c [|? ?]] eqn:Ef; try discriminate HT.
      apply (foldrep_single _ HR) in Ef; [|apply incl_refl]. subst w. rewrite E2 in E. discriminate.
    + fold (foldrep denormalize_replace (foldrep denormalize_replace w)). now apply foldrep_idem.
Qed.

Theorem reprint guess t p : print_auto t = Some p -> print_auto (canon guess t) = Some p.
Proof.
  revert p. induction t as [c tok ops sym | c ops sym u IHu | c ops sym hl l IHl r IHr]; intros p Hp; cbn [print_auto canon] in *.
  - destruct (leaf_word tok) as [w|]; [|discriminate].
    change (leaf_word (reader_token (denormalize w) (leaf_pos tok) (leaf_pos tok))) with (Some (denormalize w)).
    change (tok_get_default k_pos s_POS (reader_token (denormalize w) (leaf_pos tok) (leaf_pos tok))) with (leaf_pos tok).
    unfold leaf_text in *. rewrite denormalize_idem. exact Hp.
  - destruct (print_auto u) as [pu|]; [|discriminate]. now rewrite (IHu pu eq_refl).
  - destruct (print_auto l) as [pl|]; [|discriminate]. destruct (print_auto r) as [pr|]; [|discriminate].
    destruct (guess c (tcat l) (tcat r)) as [o y]. cbn [print_auto]. now rewrite (IHl pl eq_refl), (IHr pr eq_refl).
Qed.

(* ---------- conll: the fragments of the last column ---------- *)
Lemma join_one a : join_sp [a] = a.
Proof. reflexivity. Qed.
Lemma join_cons a xs : xs <> [] -> join_sp (a :: xs) = a ++ cSP :: join_sp xs.
Proof. destruct xs; [congruence | reflexivity]. Qed.
Lemma join_snoc xs b : xs <> [] -> join_sp (xs ++ [b]) = join_sp xs ++ cSP :: b.
Proof.
  induction xs as [|a xs IH]; intros H; [congruence|].
  destruct xs as [|a' xs]; [reflexivity|].
  cbn [app]. rewrite (join_cons a (a' :: xs ++ [b])) by discriminate.
  change (a' :: xs ++ [b]) with ((a' :: xs) ++ [b]). rewrite IH by discriminate. rewrite (join_cons a (a' :: xs)) by discriminate.
  rewrite <- app_assoc. reflexivity.
Qed.
Lemma join_last_app st a b : join_sp (st ++ [a ++ b]) = join_sp (st ++ [a]) ++ b.
Proof.
  induction st as [|x st IH]; [reflexivity|].
  cbn [app]. rewrite !join_cons by (destruct st; discriminate). rewrite IH. rewrite <- app_assoc. reflexivity.
Qed.
Lemma join_app xs ys : xs <> [] -> ys <> [] -> join_sp (xs ++ ys) = join_sp xs ++ cSP :: join_sp ys.
Proof.
  induction xs as [|a xs IH]; intros Hx Hy; [congruence|].
  destruct xs as [|a' xs].
  - cbn [app]. now rewrite join_cons.
  - cbn [app]. rewrite (join_cons a (a' :: xs ++ ys)) by discriminate.
    change (a' :: xs ++ ys) with ((a' :: xs) ++ ys). rewrite IH by (try discriminate; assumption). rewrite (join_cons a (a' :: xs)) by discriminate.
    rewrite <- app_assoc. reflexivity.
Qed.
Lemma append_last_nonnil s fs : append_last s fs <> [].
Proof. destruct fs as [|x [|y fs]]; discriminate. Qed.
Lemma join_append_last s fs : fs <> [] -> join_sp (append_last s fs) = join_sp fs ++ s.
Proof.
  induction fs as [|x fs IH]; intros H; [congruence|].
  destruct fs as [|y fs]; [reflexivity|].
  change (append_last s (x :: y :: fs)) with (x :: append_last s (y :: fs)).
  rewrite join_cons by apply append_last_nonnil. rewrite IH by discriminate. rewrite (join_cons x (y :: fs)) by discriminate.
  rewrite <- app_assoc. reflexivity.
Qed.

Lemma pos_default tok d d' : tok_get k_pos tok <> None -> tok_get_default k_pos d tok = tok_get_default k_pos d' tok.
Proof. unfold tok_get_default. destruct (tok_get k_pos tok); congruence. Qed.

Lemma conll_go_spec t : all_pos t -> forall st,
  match print_auto t with
  | Some p => exists fs, conll_go t st = Some (fs, []) /\ fs <> [] /\ join_sp fs = join_sp (st ++ [p])
  | None => conll_go t st = None
  end.
Proof.
  induction t as [c tok ops sym | c ops sym u IHu | c ops sym hl l IHl r IHr]; intros Hpos st; cbn [all_pos print_auto conll_go] in *.
  - destruct (leaf_word tok) as [w|]; [|reflexivity].
    rewrite (pos_default tok s_us s_POS Hpos). eexists. split; [reflexivity|]. split; [discriminate | reflexivity].
  - specialize (IHu Hpos (st ++ [hdr c true c1])). destruct (print_auto u) as [pu|].
    + destruct IHu as (fs & -> & Hne & Hj). eexists. split; [reflexivity|]. split; [apply append_last_nonnil|].
      rewrite join_append_last by assumption. rewrite Hj.
      rewrite join_snoc by (destruct st; discriminate).
      rewrite join_last_app. rewrite <- !app_assoc. reflexivity.
    + now rewrite IHu.
  - destruct Hpos as [Hpl Hpr]. specialize (IHl Hpl (st ++ [hdr c hl c2])). specialize (IHr Hpr []).
    destruct (print_auto l) as [pl|].
    + destruct IHl as (fl & -> & Hnel & Hjl). destruct (print_auto r) as [pr|].
      * destruct IHr as (fr & -> & Hner & Hjr). eexists. split; [reflexivity|]. split; [apply append_last_nonnil|].
        rewrite join_append_last by (destruct fl; [congruence | discriminate]).
        rewrite join_app by assumption. rewrite Hjl, Hjr. cbn [app]. rewrite join_one.
        rewrite join_snoc by (destruct st; discriminate).
        rewrite join_last_app. rewrite <- !app_assoc. reflexivity.
      * now rewrite IHr.
    + now rewrite IHl.
Qed.

Theorem conll_fragments t : all_pos t -> option_map join_sp (conll_frags t) = print_auto t.
Proof.
  intros Hpos. unfold conll_frags. pose proof (conll_go_spec t Hpos []) as H.
  destruct (print_auto t) as [p|].
  - destruct H as (fs & -> & _ & Hj). cbn [option_map]. now rewrite Hj.
  - now rewrite H.
Qed.

(* boolean versions *)
Lemma word_okb_ok w : word_okb w = true <-> word_ok w.
Proof. unfold word_okb, word_ok. rewrite andb_true_iff, !negb_true_iff. tauto. Qed.

Lemma wf_treeb_ok t : wf_treeb t = true <-> wf_tree t.
Proof.
  induction t as [c tok ops sym | c ops sym u IHu | c ops sym hl l IHl r IHr]; cbn [wf_treeb wf_tree].
  - unfold cat_okb, cat_ok, nosp. rewrite !andb_true_iff, wfb_ok, negb_true_iff.
    destruct (leaf_word tok) as [w|].
    + rewrite word_okb_ok. split.
      * intros [[Hc Hw] Hp]. split; [exact Hc|]. split; [|exact Hp]. exists w. now split.
      * intros (Hc & (w' & Hw' & Hw) & Hp). injection Hw' as <-. tauto.
    + split; [intros [[_ H] _]; discriminate | intros (_ & (w & Hw & _) & _); discriminate].
  - unfold cat_okb, cat_ok. rewrite andb_true_iff, wfb_ok, IHu. tauto.
  - unfold cat_okb, cat_ok. rewrite !andb_true_iff, wfb_ok, IHl, IHr. tauto.
Qed.

Lemma all_posb_ok t : all_posb t = true <-> all_pos t.
Proof.
  induction t as [c tok ops sym | c ops sym u IHu | c ops sym hl l IHl r IHr]; cbn [all_posb all_pos].
  - destruct (tok_get k_pos tok); split; intros H; congruence.
  - exact IHu.
  - rewrite andb_true_iff, IHl, IHr. tauto.
Qed.

(* ---------- what canon keeps ---------- *)
Lemma canon_nleaves guess t : nleaves (canon guess t) = nleaves t.
Proof.
  induction t as [c tok ops sym | c ops sym u IHu | c ops sym hl l IHl r IHr]; cbn [canon nleaves]; [reflexivity | exact IHu |].
  destruct (guess c (tcat l) (tcat r)). cbn [nleaves]. now rewrite IHl, IHr.
Qed.
Lemma canon_head_index guess t : head_index (canon guess t) = head_index t.
Proof.
  induction t as [c tok ops sym | c ops sym u IHu | c ops sym hl l IHl r IHr]; cbn [canon head_index]; [reflexivity | exact IHu |].
  destruct (guess c (tcat l) (tcat r)). cbn [head_index]. now rewrite IHl, IHr, canon_nleaves.
Qed.
Lemma canon_leaf_cats guess t : map fst (leaves (canon guess t)) = map fst (leaves t).
Proof.
  induction t as [c tok ops sym | c ops sym u IHu | c ops sym hl l IHl r IHr]; cbn [canon leaves]; [reflexivity | exact IHu |].
  destruct (guess c (tcat l) (tcat r)). cbn [leaves]. now rewrite !map_app, IHl, IHr.
Qed.

Lemma read_printed_print guess t : wf_tree t -> read_printed guess (print_auto t) = Some (canon guess t).
Proof.
  intros Hwf. destruct (wf_printable t Hwf) as [p Hp]. rewrite Hp. unfold read_printed.
  now rewrite (read_line_print guess t p Hwf Hp).
Qed.

Lemma reprint_wf guess t : wf_tree t -> print_auto (canon guess t) = print_auto t.
Proof. intros Hwf. destruct (wf_printable t Hwf) as [p Hp]. rewrite Hp. now apply reprint. Qed.
