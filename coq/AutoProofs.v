(* Proofs about the AUTO model (C08). *)
From Coq Require Import List NArith Bool Lia.
Import ListNotations.
Require Import Cat CatFacts CatLex CatRoundTrip Tree GenTables GenAuto Auto AutoSpec.
Open Scope N_scope.
