(* C14 (Japanese half) - rule application is total on one feature system; the seen-rule filter only removes;
   the unary rules return exactly the configured targets.  Property theorems only, over the GENERATED GenJa.v.
   (Purity and repeatability are structural: the model is a Gallina function of its arguments; the iteration order of
   the shared variables is the insertion order of x_features, as in the source.) *)
From Coq Require Import List NArith Bool.
Import ListNotations.
Require Import Cat CatFacts Unify GramPrims GenTables GenJa GenJaroots JaSpec JaLemmas JaSound JaPure.
Open Scope N_scope.

(* no exception on categories whose atoms all carry triples, with or without a set of seen rules *)
Theorem C14_ja_total : forall x y seen, ternary x -> ternary y -> exists rs, GenJa.apply_binary_rules x y seen = Ok_ rs.
Proof. intros x y seen Tx Ty. now apply ja_binary_total. Qed.
(* unary rules: no exception on keys whose result atom carries a triple (the stated domain); any table *)
Theorem C14_ja_total_unary : forall x t, result_ternary x -> exists rs, GenJa.apply_unary_rules x t = Ok_ rs.
Proof. intros x t H. now apply ja_unary_total. Qed.

(* with a set of seen rules the result is exactly the unrestricted result when the raw pair is in the set, else empty *)
Theorem C14_ja_seen_filter : forall x y S,
  GenJa.apply_binary_rules x y (Some S) = if seen_mem (x, y) S then GenJa.apply_binary_rules x y None else Ok_ [].
Proof. exact ja_seen_filter. Qed.
Theorem C14_ja_seen_key_is_raw : GenJa.seen_clear = [] /\ GenJa.key_clear = [] /\ forall k S, seen_mem k S = true <-> In k S.
Proof. split; [reflexivity | split; [reflexivity | exact seen_mem_In]]. Qed.

(* the unary rules return exactly the configured targets for a category, in order, and nothing for others *)
Theorem C14_ja_unary_exact : forall x t rs, GenJa.apply_unary_rules x t = Ok_ rs -> map rcat rs = targets x t.
Proof. exact ja_unary_exact. Qed.
Theorem C14_ja_unary_none : forall x t, table_get x t = None -> GenJa.apply_unary_rules x t = Ok_ [].
Proof. exact ja_unary_none. Qed.

(* outside the domain the exception is real: a triple meeting a feature-less atom of the same name *)
Example C14_ja_mixed_systems_raise :
  GenJa.apply_binary_rules (Fun (Atom [83] (FTer [109] [110] [102] [98] [105] [102])) [47] (Atom [78;80] (FTer [99] [103] [109] [110] [105] [102])))
                           (Atom [78;80] FNone) None = Err AttrErr.
Proof. vm_compute. reflexivity. Qed.
