(* C14 (Japanese half) - rule application is total and pure; the seen-rule filter only removes.  Property theorems only. *)
From Coq Require Import List NArith Bool.
Import ListNotations.
Require Import Cat CatFacts Unify GramPrims GenTables GenJa GenJaroots JaSpec.
Open Scope N_scope.
