(* C07 - printer/prolog.py: text-level models of the English printer (_prolog_category_string, _escape_prolog,
   _prolog_string, to_prolog_en) and of the Japanese one (to_prolog_ja: traverse_cat, traverse_tree), the token stream
   of a Prolog text (names, parentheses, commas, slashes, quoted atoms) and independent readers of the `ccg(k, term).`
   clauses at token level.   MODEL ONLY - no proofs here.
   Python exceptions are None: KeyError ('word' missing; op_string not in _op_mapping; op_symbol not in _ja_combinators),
   AttributeError (op_string 'conj' on a node whose category is atomic: `node.cat.left`), IndexError (empty batch).
   The rule tables come from GenTables.v (prolog_op_mapping, prolog_ja_combinators), regenerated from the source on every run.

   The header lines (_prolog_header) are not written here: prolog_header is the generated GenFmt.prolog_header_src (translate/gen_fmt.py reads
   depccg/printer/prolog.py on every run).  A reader that takes the declarations apart instead of stripping them as a fixed text is in
   FmtPrologHeader.v.

   str.lower(): one character at a time.  A-Z by the ASCII rule (`lower_c`); a code point >= 128 by the generated table GenFmt.py_lower_table,
   which translate/gen_fmt.py fills with chr(c).lower() of the running interpreter for every code point that str.lower changes (so U+00C9 -> U+00E9,
   U+0130 -> two code points, ...); every other code point is left alone.  That is str.lower exactly, EXCEPT for the code points of
   GenFmt.py_lower_contextual (CPython has one: U+03A3, whose lower-casing depends on its neighbours - final sigma): a text that contains one of
   them is outside the model (`lower_dom` is the boolean test; the correspondence skips and counts such trees).  FmtPrologHeaderProofs.v proves
   that on ASCII text - every category of the shipped inventories - this is the A-Z rule alone. *)
From Coq Require Import List NArith Bool Arith String Ascii.
Import ListNotations.
Require Import Cat Tree GenTables GenFmt Fmt.
Local Open Scope N_scope.

(* ---------- small texts ---------- *)
Definition cQ : N := 39.        (* ' *)
Definition cCOLON : N := 58.
Definition cNL : N := 10.
Definition s_period : text := Eval vm_compute in T "period".
Definition s_comma : text := Eval vm_compute in T "comma".
Definition s_colon : text := Eval vm_compute in T "colon".
Definition s_semicolon : text := Eval vm_compute in T "semicolon".
Definition s_conj : text := Eval vm_compute in T "conj".
Definition s_conj2 : text := Eval vm_compute in T "conj2".
Definition s_lp : text := Eval vm_compute in T "lp".
Definition s_lx : text := Eval vm_compute in T "lx".
Definition s_t : text := Eval vm_compute in T "t".
Definition s_ccg : text := Eval vm_compute in T "ccg".
Definition s_lx_lp : text := Eval vm_compute in T "lx+lp".          (* how the readers name the lx(.., lp(..)) wrapper *)
Definition s_conj_conj : text := Eval vm_compute in T "conj+conj".  (* ... and the conj(.., conj(..)) wrapper *)
Definition s_star : text := [42].
Definition s_cs : text := [44; 32].                                  (* ", " *)
Definition s_cnl : text := [44; 10].                                 (* ",\n" *)
Definition k_surf : text := Eval vm_compute in T "surf".
Definition k_base : text := Eval vm_compute in T "base".
Definition k_pos1 : text := Eval vm_compute in T "pos1".
Definition k_pos2 : text := Eval vm_compute in T "pos2".
Definition k_pos3 : text := Eval vm_compute in T "pos3".
Definition k_inflForm : text := Eval vm_compute in T "inflectionForm".
Definition k_inflType : text := Eval vm_compute in T "inflectionType".
Definition k_case : text := Eval vm_compute in T "case".

(* ---------- str.lower() ---------- *)
Definition lower_c (c : N) : N := if (65 <=? c) && (c <=? 90) then c + 32 else c.
Fixpoint lower_lookup (c : N) (tbl : list (N * list N)) : option (list N) :=
  match tbl with [] => None | (k, v) :: r => if N.eqb c k then Some v else lower_lookup c r end.
Definition lower_cs (c : N) : text :=
  if c <? 128 then [lower_c c] else match lower_lookup c py_lower_table with Some v => v | None => [c] end.
Definition lower (s : text) : text := flat_map lower_cs s.
(* no character whose lower-casing depends on its context *)
Definition lower_dom (s : text) : bool := forallb (fun c => negb (existsb (N.eqb c) py_lower_contextual)) s.
Definition asciib (s : text) : bool := forallb (fun c => c <? 128) s.
(* every text of a category that the printers lower-case is ASCII: base names, and the values of a three-valued feature *)
Definition feat_asciib (f : feat) : bool :=
  match f with FTer _ v1 _ v2 _ v3 => asciib v1 && asciib v2 && asciib v3 | _ => true end.
Fixpoint cat_asciib (c : cat) : bool :=
  match c with Atom b f => asciib b && feat_asciib f | Fun l _ r => cat_asciib l && cat_asciib r end.
(* every text of a category that the printers lower-case is inside the model of str.lower *)
Definition feat_lower_dom (f : feat) : bool :=
  match f with FTer _ v1 _ v2 _ v3 => lower_dom v1 && lower_dom v2 && lower_dom v3 | _ => true end.
Fixpoint cat_lower_dom (c : cat) : bool :=
  match c with Atom b f => lower_dom b && feat_lower_dom f | Fun l _ r => cat_lower_dom l && cat_lower_dom r end.

(* ---------- _escape_prolog: text.replace("'", "\\'") ---------- *)
Definition esc_pl (s : text) : text := flat_map (fun c => if N.eqb c cQ then [cBS; cQ] else [c]) s.
Definition quoted (s : text) : text := [cQ] ++ esc_pl s ++ [cQ].
Definition pl_indent (d : nat) : text := repeat cSP d.

(* ---------- _prolog_category_string ---------- *)
Definition pl_punct (b : text) : option text :=
  if text_eqb b [46] then Some s_period
  else if text_eqb b [44] then Some s_comma
  else if text_eqb b [58] then Some s_colon
  else if text_eqb b [59] then Some s_semicolon
  else None.
Fixpoint pl_cat_en (c : cat) : text :=
  match c with
  | Atom b f =>
      let b' := lower b in
      match pl_punct b' with
      | Some n => n
      | None => match show_feat f with [] => b' | ft => b' ++ [cCOLON] ++ ft end
      end
  | Fun l s r => [cLP] ++ pl_cat_en l ++ s ++ pl_cat_en r ++ [cRP]
  end.

(* ---------- _prolog_string ---------- *)
Definition pl_leaf_en (c : cat) (tok : token) : option text :=
  match leaf_word tok with
  | None => None                                                (* node.word: KeyError *)
  | Some w =>
      Some (s_t ++ [cLP] ++ pl_cat_en c ++ s_cs ++ quoted w ++ s_cs ++ quoted (tok_get_default k_lemma s_XX tok) ++ s_cs ++
            quoted (tok_get_default k_pos s_XX tok) ++ s_cs ++ quoted (tok_get_default k_chunk s_XX tok) ++ s_cs ++
            quoted (tok_get_default k_entity s_XX tok) ++ [cRP])
  end.

(* rec(node, output) at indentation depth d; the three special `if`s are mutually exclusive because op_string has one value *)
Fixpoint pl_rec_en (t : tree) (d : nat) : option text :=
  match t with
  | Leaf c tok _ _ => option_map (app (pl_indent d)) (pl_leaf_en c tok)
  | Un c _ _ t1 =>
      match pl_rec_en t1 (S d) with
      | Some s1 => Some (pl_indent d ++ s_lx ++ [cLP] ++ pl_cat_en c ++ s_cs ++ pl_cat_en (tcat t1) ++ s_cnl ++ s1 ++ [cRP])
      | None => None
      end
  | Bin c ops _ _ l r =>
      match assoc ops prolog_op_mapping with
      | None => None                                            (* _op_mapping[node.op_string]: KeyError *)
      | Some fv =>
          let head := pl_indent d ++ fv ++ pl_cat_en c ++ [cCOMMA] in
          let cs := pl_cat_en (tcat r) in
          let kids (d' : nat) : option text :=
            match pl_rec_en l d', pl_rec_en r d' with
            | Some a, Some b => Some ([cNL] ++ a ++ s_cnl ++ b ++ [cRP])
            | _, _ => None
            end in
          if text_eqb ops s_conj2 then
            option_map (fun k => head ++ [cSP] ++ cs ++ [cBS] ++ cs ++ s_cnl ++ pl_indent (S d) ++ s_conj ++ [cLP] ++ cs ++ [cBS] ++ cs ++
                                 s_cs ++ cs ++ [cCOMMA] ++ k ++ [cRP]) (kids (S (S d)))
          else if text_eqb ops s_conj then
            match c with
            | Fun cl _ _ => option_map (fun k => head ++ [cSP] ++ pl_cat_en cl ++ [cCOMMA] ++ k) (kids (S d))
            | Atom _ _ => None                                  (* node.cat.left: AttributeError *)
            end
          else if text_eqb ops s_lp then
            option_map (fun k => head ++ [cSP] ++ cs ++ s_cnl ++ pl_indent (S d) ++ s_lp ++ [cLP] ++ cs ++ [cCOMMA] ++ k ++ [cRP]) (kids (S (S d)))
          else option_map (fun k => head ++ k) (kids (S d))
      end
  end.

(* _prolog_string(tree, sentence_index) *)
Definition print_prolog_en (k : nat) (t : tree) : option text :=
  option_map (fun s => s_ccg ++ [cLP] ++ show_nat k ++ s_cnl ++ s ++ [cRP; 46; cNL]) (pl_rec_en t 1).

Definition prolog_header : text := prolog_header_src.        (* GenFmt.v: _prolog_header as the source has it *)

(* to_string(batch, format='prolog') for English = to_prolog_en: print(header); print(_prolog_string(tree, k)) for every tree *)
Definition prolog_en_doc (b : list (list tree)) : option text :=
  match b with
  | [] => None                                                  (* nbest_trees[0]: IndexError *)
  | [] :: _ => None                                             (* nbest_trees[0][0]: IndexError *)
  | _ => option_map (fun body => prolog_header ++ [cNL] ++ body)
           (concat_opt (map (fun rec : nat * nat * tree => option_map (fun s => s ++ [cNL]) (print_prolog_en (fst (fst rec)) (snd rec)))
                            (number_batch b)))
  end.

(* ---------- to_prolog_ja ---------- *)
(* dict(node.feature.items())['case']: the LAST pair with that key wins *)
Definition ja_case (f : feat) : option text :=
  match f with
  | FTer k1 v1 k2 v2 k3 v3 =>
      if text_eqb k3 k_case then Some v3 else if text_eqb k2 k_case then Some v2 else if text_eqb k1 k_case then Some v1 else None
  | _ => None
  end.
Fixpoint pl_cat_ja (c : cat) : text :=
  match c with
  | Fun l s r => [cLP] ++ pl_cat_ja l ++ s ++ pl_cat_ja r ++ [cRP]
  | Atom b f => match ja_case f with None => lower b | Some v => lower b ++ [cCOLON] ++ lower v end
  end.

Definition ja_tags (tok : token) : list text :=
  map (fun k => tok_get_default k s_star tok) [k_pos; k_pos1; k_pos2; k_pos3].
Definition ja_pos (tok : token) : text :=
  if forallb (fun x => text_eqb x s_star) (ja_tags tok) then s_star else join [cSL] (map esc_pl (ja_tags tok)).
(* the five quoted fields, BEFORE escaping, as a reader sees them (pos: joined) *)
Definition q_raw (s : text) : text := [cQ] ++ s ++ [cQ].
Definition pl_leaf_ja (c : cat) (tok : token) : option text :=
  match leaf_word tok with
  | None => None                                                (* token.get('surf', node.word): node.word is evaluated first *)
  | Some w =>
      Some (s_t ++ [cLP] ++ pl_cat_ja c ++ s_cs ++ quoted (tok_get_default k_surf w tok) ++ s_cs ++ quoted (tok_get_default k_base s_star tok) ++ s_cs ++
            q_raw (ja_pos tok) ++ s_cs ++ quoted (tok_get_default k_inflForm s_star tok) ++ s_cs ++
            quoted (tok_get_default k_inflType s_star tok) ++ [cRP])
  end.
(* traverse_tree(node, depth) *)
Fixpoint pl_rec_ja (t : tree) (d : nat) : option text :=
  match t with
  | Leaf c tok _ _ => option_map (fun s => [cNL] ++ pl_indent d ++ s) (pl_leaf_ja c tok)
  | Un c _ sym t1 =>
      match assoc sym prolog_ja_combinators with
      | None => None                                            (* _ja_combinators[node.op_symbol]: KeyError *)
      | Some rule =>
          match pl_rec_ja t1 (S d) with
          | Some a => Some ([cNL] ++ pl_indent d ++ rule ++ [cLP] ++ pl_cat_ja c ++ [cCOMMA] ++ a ++ [cRP])
          | None => None
          end
      end
  | Bin c _ sym _ l r =>
      match assoc sym prolog_ja_combinators with
      | None => None
      | Some rule =>
          match pl_rec_ja l (S d), pl_rec_ja r (S d) with
          | Some a, Some b => Some ([cNL] ++ pl_indent d ++ rule ++ [cLP] ++ pl_cat_ja c ++ [cCOMMA] ++ a ++ [cCOMMA] ++ b ++ [cRP])
          | _, _ => None
          end
      end
  end.
Definition print_prolog_ja (k : nat) (t : tree) : option text :=
  option_map (fun s => s_ccg ++ [cLP] ++ show_nat k ++ [cCOMMA] ++ s ++ [cRP; 46; cNL; cNL]) (pl_rec_ja t 1).
Definition prolog_ja_doc (b : list (list tree)) : option text :=
  match b with
  | [] => None
  | [] :: _ => None
  | _ => option_map (fun body => prolog_header ++ [cNL] ++ body)
           (concat_opt (map (fun rec : nat * nat * tree => print_prolog_ja (fst (fst rec)) (snd rec)) (number_batch b)))
  end.

(* ================= the token stream of a Prolog text ================= *)
Inductive ptok := PName (s : text) | PQ (s : text) | PLP | PRP | PComma | PSlash (c : N) | PErr.

Definition is_ws (c : N) : bool := N.eqb c 32 || N.eqb c 10 || N.eqb c 9 || N.eqb c 13.
Definition punct_tok (c : N) : option ptok :=
  if N.eqb c cLP then Some PLP else if N.eqb c cRP then Some PRP else if N.eqb c cCOMMA then Some PComma
  else if N.eqb c cSL || N.eqb c cBS || N.eqb c cBAR then Some (PSlash c) else None.
(* characters that end a name *)
Definition is_delim (c : N) : bool := is_ws c || N.eqb c cQ || match punct_tok c with Some _ => true | None => false end.

(* lexer state: inside a name (reversed), inside a quoted atom, after a backslash inside a quoted atom *)
Inductive lmode := LN (acc : text) | LQ (acc : text) | LE (acc : text).
Definition flushN (acc : text) : list ptok := match acc with [] => [] | _ => [PName (rev acc)] end.
Fixpoint plex (t : text) (m : lmode) : list ptok :=
  match t with
  | [] => match m with LN acc => flushN acc | _ => [PErr] end       (* unterminated quoted atom *)
  | c :: r =>
      match m with
      | LN acc =>
          if N.eqb c cQ then flushN acc ++ plex r (LQ [])
          else if is_ws c then flushN acc ++ plex r (LN [])
          else match punct_tok c with
               | Some k => flushN acc ++ k :: plex r (LN [])
               | None => plex r (LN (c :: acc))
               end
      | LQ acc =>
          if N.eqb c cQ then PQ (rev acc) :: plex r (LN [])
          else if N.eqb c cBS then plex r (LE acc)
          else plex r (LQ (c :: acc))
      | LE acc => plex r (LQ (c :: acc))                            (* \x stands for x *)
      end
  end.
Definition pl_tokens (t : text) : list ptok := plex t (LN []).

(* ================= readers (from the format definition) ================= *)
(* a category atom `base` or `base:feature` (first colon) *)
Fixpoint split_colon (s : text) (acc : text) : text * option text :=
  match s with
  | [] => (rev acc, None)
  | c :: r => if N.eqb c cCOLON then (rev acc, Some r) else split_colon r (c :: acc)
  end.
Definition atom_of (name : text) : cat :=
  match split_colon name [] with (b, None) => Atom b FNone | (b, Some f) => Atom b (FUn f) end.

(* operand := name | ( expr );  expr := operand | operand slash operand *)
Definition dec_poperand (rec : list ptok -> option (cat * list ptok)) (ts : list ptok) : option (cat * list ptok) :=
  match ts with
  | PName a :: r => Some (atom_of a, r)
  | PLP :: r => match rec r with Some (c, PRP :: r') => Some (c, r') | _ => None end
  | _ => None
  end.
Fixpoint dec_pexpr (fuel : nat) (ts : list ptok) : option (cat * list ptok) :=
  match fuel with
  | O => None
  | S n =>
      match dec_poperand (dec_pexpr n) ts with
      | Some (l, PSlash s :: r1) =>
          match dec_poperand (dec_pexpr n) r1 with
          | Some (rr, r2) => Some (Fun l [s] rr, r2)
          | None => None
          end
      | x => x
      end
  end.
(* fuel: every level of nesting consumes a token *)
Definition dec_pcat (ts : list ptok) : option (cat * list ptok) := dec_pexpr (S (List.length ts)) ts.

(* --- English: t(cat, 'word', 'lemma', 'pos', 'chunk', 'entity') | lx(cat, cat, tree) | lx(cat, c, lp(c, tree, tree)) |
       conj(cat, c\c, conj(c\c, c, tree, tree)) | conj(cat, cat.left, tree, tree) | functor(cat, tree, tree).
   The view: categories in the Prolog spelling (as category values: base lower-cased / punctuation name, the feature text as a
   one-valued feature), label = the functor(s) as written, leaf = (word, lemma, pos, chunk, entity) *)
Definition dec_en_body (rec : list ptok -> option (view tok5 * list ptok)) (ts : list ptok) : option (view tok5 * list ptok) :=
    match ts with
    | PName f :: PLP :: r0 =>
      match dec_pcat r0 with
      | Some (c, PComma :: r1) =>
        if text_eqb f s_t then
          match r1 with
          | PQ w :: PComma :: PQ le :: PComma :: PQ po :: PComma :: PQ ch :: PComma :: PQ en :: PRP :: r2 => Some (VLeaf c (w, le, po, ch, en), r2)
          | _ => None
          end
        else if text_eqb f s_lx then
          match dec_pcat r1 with
          | Some (cc, PComma :: r2) =>
              let unary :=
                match rec r2 with
                | Some (v, PRP :: r3) => if cat_eqb cc (vcat v) then Some (VUn c s_lx v, r3) else None
                | _ => None
                end in
              match r2 with
              | PName g :: PLP :: r3 =>
                  if text_eqb g s_lp then
                    match dec_pcat r3 with
                    | Some (c3, PComma :: r4) =>
                        match rec r4 with
                        | Some (l, PComma :: r5) =>
                            match rec r5 with
                            | Some (rv, PRP :: PRP :: r6) =>
                                if cat_eqb cc c3 && cat_eqb cc (vcat rv) then Some (VBin c s_lx_lp true l rv, r6) else None
                            | _ => None
                            end
                        | _ => None
                        end
                    | _ => None
                    end
                  else unary
              | _ => None
              end
          | _ => None
          end
        else if text_eqb f s_conj then
          match dec_pcat r1 with
          | Some (e, PComma :: r2) =>
              match rec r2 with
              | Some (x, PRP :: r3) =>                                  (* three arguments: the wrapper around an inner conj/4 *)
                  match x with
                  | VBin c' lab _ l rv =>
                      if text_eqb lab s_conj && cat_eqb c' e && cat_eqb e (Fun (vcat rv) [cBS] (vcat rv)) then Some (VBin c s_conj_conj true l rv, r3) else None
                  | _ => None
                  end
              | Some (x, PComma :: r3) =>                               (* four arguments: the second one is the left part of the category *)
                  match rec r3 with
                  | Some (rv, PRP :: r4) =>
                      match c with
                      | Fun cl _ _ => if cat_eqb cl e then Some (VBin c s_conj true x rv, r4) else None
                      | Atom _ _ => None
                      end
                  | _ => None
                  end
              | _ => None
              end
          | _ => None
          end
        else
          match rec r1 with
          | Some (l, PComma :: r2) =>
              match rec r2 with
              | Some (rv, PRP :: r3) => Some (VBin c f true l rv, r3)
              | _ => None
              end
          | _ => None
          end
      | _ => None
      end
    | _ => None
    end.
Fixpoint dec_en (fuel : nat) (ts : list ptok) : option (view tok5 * list ptok) :=
  match fuel with O => None | S n => dec_en_body (dec_en n) ts end.

(* one clause  ccg(k, term).  -> (the number as written, the view) *)
Definition dec_clause (dec : nat -> list ptok -> option (view tok5 * list ptok)) (ts : list ptok) : option (text * view tok5) :=
  match ts with
  | PName f :: PLP :: PName k :: PComma :: r =>
      if text_eqb f s_ccg then
        match dec (List.length r) r with
        | Some (v, [PRP; PName [46]]) => Some (k, v)
        | _ => None
        end
      else None
  | _ => None
  end.
Definition dec_prolog_en (txt : text) : option (text * view tok5) := dec_clause dec_en (pl_tokens txt).

(* --- Japanese: t(cat, 'surf', 'base', 'pos', 'inflectionForm', 'inflectionType') | rule(cat, tree) | rule(cat, tree, tree) *)
Definition dec_ja_body (rec : list ptok -> option (view tok5 * list ptok)) (ts : list ptok) : option (view tok5 * list ptok) :=
    match ts with
    | PName f :: PLP :: r0 =>
      match dec_pcat r0 with
      | Some (c, PComma :: r1) =>
        if text_eqb f s_t then
          match r1 with
          | PQ w :: PComma :: PQ ba :: PComma :: PQ po :: PComma :: PQ i1 :: PComma :: PQ i2 :: PRP :: r2 => Some (VLeaf c (w, ba, po, i1, i2), r2)
          | _ => None
          end
        else
          match rec r1 with
          | Some (l, PRP :: r2) => Some (VUn c f l, r2)
          | Some (l, PComma :: r2) =>
              match rec r2 with
              | Some (rv, PRP :: r3) => Some (VBin c f true l rv, r3)
              | _ => None
              end
          | _ => None
          end
      | _ => None
      end
    | _ => None
    end.
Fixpoint dec_ja (fuel : nat) (ts : list ptok) : option (view tok5 * list ptok) :=
  match fuel with O => None | S n => dec_ja_body (dec_ja n) ts end.
Definition dec_prolog_ja (txt : text) : option (text * view tok5) := dec_clause dec_ja (pl_tokens txt).

(* --- the whole output of to_string(format='prolog'): the operator / multifile declarations, an empty line, then clauses.
   The reader takes the declarations off as a fixed text (as harness/fmt_dec.py does) and reads clause after clause. *)
Fixpoint pl_strip_prefix (p s : text) : option text :=
  match p, s with
  | [], _ => Some s
  | x :: p', y :: s' => if N.eqb x y then pl_strip_prefix p' s' else None
  | _ :: _, [] => None
  end.
Fixpoint dec_clauses (dec : nat -> list ptok -> option (view tok5 * list ptok)) (fuel : nat) (ts : list ptok) : option (list (text * view tok5)) :=
  match fuel with
  | O => None
  | S n =>
      match ts with
      | [] => Some []
      | PName f :: PLP :: PName k :: PComma :: r =>
          if text_eqb f s_ccg then
            match dec (List.length r) r with
            | Some (v, PRP :: PName [46] :: rest) =>
                match dec_clauses dec n rest with Some l => Some ((k, v) :: l) | None => None end
            | _ => None
            end
          else None
      | _ => None
      end
  end.
Definition dec_prolog_doc (dec : nat -> list ptok -> option (view tok5 * list ptok)) (txt : text) : option (list (text * view tok5)) :=
  match pl_strip_prefix (prolog_header ++ [cNL]) txt with
  | Some body => let ts := pl_tokens body in dec_clauses dec (S (List.length ts)) ts
  | None => None
  end.

(* what a document is expected to carry: for every record of the batch, in order, the sentence number as text and the view *)
Fixpoint pl_opt_list {A : Type} (l : list (option A)) : option (list A) :=
  match l with
  | [] => Some []
  | None :: _ => None
  | Some x :: r => match pl_opt_list r with Some y => Some (x :: y) | None => None end
  end.
Definition doc_views (vw : tree -> option (view tok5)) (b : list (list tree)) : option (list (text * view tok5)) :=
  pl_opt_list (map (fun r : nat * nat * tree => option_map (fun v => (show_nat (fst (fst r)), v)) (vw (snd r))) (number_batch b)).

(* ================= what the format is expected to carry ================= *)
(* the Prolog spelling of a category, as a category value *)
Fixpoint plc_en (c : cat) : cat :=
  match c with
  | Atom b f =>
      let b' := lower b in
      match pl_punct b' with
      | Some n => Atom n FNone
      | None => match show_feat f with [] => Atom b' FNone | ft => Atom b' (FUn ft) end
      end
  | Fun l s r => Fun (plc_en l) s (plc_en r)
  end.
Fixpoint plc_ja (c : cat) : cat :=
  match c with
  | Atom b f => match ja_case f with None => Atom (lower b) FNone | Some v => Atom (lower b) (FUn (lower v)) end
  | Fun l s r => Fun (plc_ja l) s (plc_ja r)
  end.

(* functor of a binary node: the table entry without its opening parenthesis; wrappers named as the readers name them *)
Definition en_label (ops fv : text) : text :=
  let f := removelast fv in
  if text_eqb ops s_conj2 then f ++ [43] ++ s_conj else if text_eqb ops s_lp then f ++ [43] ++ s_lp else f.
Definition leaf5_en (tok : token) : option tok5 :=
  match leaf_word tok with
  | None => None
  | Some w => Some (w, tok_get_default k_lemma s_XX tok, tok_get_default k_pos s_XX tok, tok_get_default k_chunk s_XX tok, tok_get_default k_entity s_XX tok)
  end.
Fixpoint view_prolog_en (t : tree) : option (view tok5) :=
  match t with
  | Leaf c tok _ _ => match leaf5_en tok with Some x => Some (VLeaf (plc_en c) x) | None => None end
  | Un c _ _ t1 => match view_prolog_en t1 with Some v => Some (VUn (plc_en c) s_lx v) | None => None end
  | Bin c ops _ _ l r =>
      match assoc ops prolog_op_mapping, view_prolog_en l, view_prolog_en r with
      | Some fv, Some a, Some b => Some (VBin (plc_en c) (en_label ops fv) true a b)
      | _, _, _ => None
      end
  end.

(* the `pos` field as a reader sees it: '*' or the four tags joined by '/' *)
Definition ja_pos_raw (tok : token) : text :=
  if forallb (fun x => text_eqb x s_star) (ja_tags tok) then s_star else join [cSL] (ja_tags tok).
Definition leaf5_ja (tok : token) : option tok5 :=
  match leaf_word tok with
  | None => None
  | Some w => Some (tok_get_default k_surf w tok, tok_get_default k_base s_star tok, ja_pos_raw tok,
                    tok_get_default k_inflForm s_star tok, tok_get_default k_inflType s_star tok)
  end.
Fixpoint view_prolog_ja (t : tree) : option (view tok5) :=
  match t with
  | Leaf c tok _ _ => match leaf5_ja tok with Some x => Some (VLeaf (plc_ja c) x) | None => None end
  | Un c _ sym t1 =>
      match assoc sym prolog_ja_combinators, view_prolog_ja t1 with
      | Some rule, Some v => Some (VUn (plc_ja c) rule v)
      | _, _ => None
      end
  | Bin c _ sym _ l r =>
      match assoc sym prolog_ja_combinators, view_prolog_ja l, view_prolog_ja r with
      | Some rule, Some a, Some b => Some (VBin (plc_ja c) rule true a b)
      | _, _, _ => None
      end
  end.

(* a view with its categories mapped (to relate the Prolog view with the views of the other formats) *)
Fixpoint vmapc {L : Type} (g : cat -> cat) (v : view L) : view L :=
  match v with
  | VLeaf c x => VLeaf (g c) x
  | VUn c lab v1 => VUn (g c) lab (vmapc g v1)
  | VBin c lab hl l r => VBin (g c) lab hl (vmapc g l) (vmapc g r)
  end.

(* ================= side conditions of the round trip (boolean) ================= *)
Definition namechars (s : text) : bool := forallb (fun c => negb (is_delim c)) s.
Definition name_ok (s : text) : bool := match s with [] => false | _ => namechars s end.
(* an English category can be read back: atom names are names, bases have no colon, slashes are one of / \ | *)
Fixpoint plcat_okb_en (c : cat) : bool :=
  match c with
  | Atom b f =>
      match pl_punct (lower b) with
      | Some _ => true
      | None => name_ok (lower b) && negb (has cCOLON (lower b)) && namechars (show_feat f)
      end
  | Fun l s r => plcat_okb_en l && is_slash s && plcat_okb_en r
  end.
Fixpoint plcat_okb_ja (c : cat) : bool :=
  match c with
  | Atom b f =>
      name_ok (lower b) && negb (has cCOLON (lower b)) && match ja_case f with Some v => namechars (lower v) | None => true end
  | Fun l s r => plcat_okb_ja l && is_slash s && plcat_okb_ja r
  end.
Definition no_bs (s : text) : bool := negb (has cBS s).
Definition tok5_no_bs (x : tok5) : bool :=
  let '(a, b, c, d, e) := x in no_bs a && no_bs b && no_bs c && no_bs d && no_bs e.
Fixpoint pl_okb_en (t : tree) : bool :=
  match t with
  | Leaf c tok _ _ => plcat_okb_en c && match leaf5_en tok with Some x => tok5_no_bs x | None => true end
  | Un c _ _ t1 => plcat_okb_en c && pl_okb_en t1
  | Bin c _ _ _ l r => plcat_okb_en c && pl_okb_en l && pl_okb_en r
  end.
Fixpoint pl_okb_ja (t : tree) : bool :=
  match t with
  | Leaf c tok _ _ => plcat_okb_ja c && match leaf5_ja tok with Some x => tok5_no_bs x | None => true end
  | Un c _ _ t1 => plcat_okb_ja c && pl_okb_ja t1
  | Bin c _ _ _ l r => plcat_okb_ja c && pl_okb_ja l && pl_okb_ja r
  end.

(* the rule tables are usable by a reader: (English) every entry is a name followed by '(', the special op_strings have the functors
   the wrappers are recognised by, and no other functor collides with t / lx / conj / lp; (Japanese) every entry is a name other than t *)
Definition en_entry_ok (kv : text * text) : bool :=
  let '(k, fv) := kv in
  let f := removelast fv in
  text_eqb fv (f ++ [cLP]) && name_ok f &&
  (if text_eqb k s_lp then text_eqb f s_lx
   else if text_eqb k s_conj || text_eqb k s_conj2 then text_eqb f s_conj
   else negb (text_eqb f s_t) && negb (text_eqb f s_lx) && negb (text_eqb f s_conj) && negb (text_eqb f s_lp)).
Definition en_table_ok : bool := forallb en_entry_ok prolog_op_mapping.
Definition ja_entry_ok (kv : text * text) : bool := name_ok (snd kv) && negb (text_eqb (snd kv) s_t).
Definition ja_table_ok : bool := forallb ja_entry_ok prolog_ja_combinators.
