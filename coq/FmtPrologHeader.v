(* C07 - printer/prolog.py, the declarations at the top of the document (_prolog_header), read instead of stripped.
     hdr_lines            the lines before the first empty line (print(_prolog_header) ends them with one), and the rest of the text
     dec_directive        one line  `:- op(P, T, (S)).`  |  `:- multifile n/a, ... .`  |  `:- discontiguous n/a, ... .`   (tokens of FmtProlog.plex)
     prolog_decls         the declarations the format has: / and \ are infix operators (601, xfx) - the category terms are written with
                          them -, ccg/2 and id/2 are multifile and discontiguous (the clauses of one file are ccg(k, ..) terms, several files
                          are loaded together)
     dec_prolog_doc_h     the whole document: declarations as above (exactly those, in that order, whatever the spacing), then the clauses
   MODEL ONLY - no proofs here.  The printed header itself is FmtProlog.prolog_header = GenFmt.prolog_header_src (generated from the source). *)
From Coq Require Import List NArith Bool Arith String Ascii.
Import ListNotations.
Require Import Cat Tree GenTables GenFmt Fmt FmtProlog.
Local Open Scope N_scope.

Fixpoint hdr_lines (s cur : text) : option (list text * text) :=
  match s with
  | [] => None                                                     (* no empty line: not a document of this format *)
  | c :: r =>
      if N.eqb c cNL then
        match cur with
        | [] => Some ([], r)
        | _ => match hdr_lines r [] with Some (ls, rest) => Some (rev cur :: ls, rest) | None => None end
        end
      else hdr_lines r (c :: cur)
  end.

Inductive pdecl :=
| DOp (prio type : text) (sym : N)
| DMultifile (specs : list (text * text))
| DDiscontiguous (specs : list (text * text)).

Definition s_dir : text := Eval vm_compute in T ":-".
Definition s_op : text := Eval vm_compute in T "op".
Definition s_multifile : text := Eval vm_compute in T "multifile".
Definition s_discontiguous : text := Eval vm_compute in T "discontiguous".
Definition s_xfx : text := Eval vm_compute in T "xfx".
Definition s_601 : text := Eval vm_compute in T "601".
Definition s_2 : text := Eval vm_compute in T "2".
Definition s_id : text := Eval vm_compute in T "id".

(* name/arity, name/arity, ... *)
Fixpoint dec_specs (ts : list ptok) : option (list (text * text)) :=
  match ts with
  | PName n :: PSlash c :: PName a :: r =>
      if N.eqb c cSL then
        match r with
        | [] => Some [(n, a)]
        | PComma :: r' => match dec_specs r' with Some l => Some ((n, a) :: l) | None => None end
        | _ => None
        end
      else None
  | _ => None
  end.

(* a directive ends with '.'; what is before it is tokenised like the clauses *)
Definition dec_directive (line : text) : option pdecl :=
  match rev line with
  | 46 :: body_rev =>
      match pl_tokens (rev body_rev) with
      | PName d :: PName f :: r =>
          if text_eqb d s_dir then
            if text_eqb f s_op then
              match r with
              | [PLP; PName p; PComma; PName ty; PComma; PLP; PSlash c; PRP; PRP] => Some (DOp p ty c)
              | _ => None
              end
            else if text_eqb f s_multifile then option_map DMultifile (dec_specs r)
            else if text_eqb f s_discontiguous then option_map DDiscontiguous (dec_specs r)
            else None
          else None
      | _ => None
      end
  | _ => None
  end.

Definition prolog_decls : list pdecl :=
  [DOp s_601 s_xfx cSL; DOp s_601 s_xfx cBS; DMultifile [(s_ccg, s_2); (s_id, s_2)]; DDiscontiguous [(s_ccg, s_2); (s_id, s_2)]].

Fixpoint specs_eqb (a b : list (text * text)) : bool :=
  match a, b with
  | [], [] => true
  | (n, x) :: a', (m, y) :: b' => text_eqb n m && text_eqb x y && specs_eqb a' b'
  | _, _ => false
  end.
Definition decl_eqb (a b : pdecl) : bool :=
  match a, b with
  | DOp p t s, DOp p' t' s' => text_eqb p p' && text_eqb t t' && N.eqb s s'
  | DMultifile l, DMultifile l' => specs_eqb l l'
  | DDiscontiguous l, DDiscontiguous l' => specs_eqb l l'
  | _, _ => false
  end.
Fixpoint decls_eqb (a b : list pdecl) : bool :=
  match a, b with
  | [], [] => true
  | x :: a', y :: b' => decl_eqb x y && decls_eqb a' b'
  | _, _ => false
  end.

Definition dec_prolog_header (txt : text) : option (list pdecl * text) :=
  match hdr_lines txt [] with
  | Some (ls, body) => match pl_opt_list (map dec_directive ls) with Some ds => Some (ds, body) | None => None end
  | None => None
  end.

Definition dec_prolog_doc_h (dec : nat -> list ptok -> option (view tok5 * list ptok)) (txt : text) : option (list (text * view tok5)) :=
  match dec_prolog_header txt with
  | Some (ds, body) =>
      if decls_eqb ds prolog_decls then let ts := pl_tokens body in dec_clauses dec (S (List.length ts)) ts else None
  | None => None
  end.

(* ---------- str.lower: the A-Z rule alone (what FmtProlog.lower is on ASCII text) ---------- *)
Definition lower_az (s : text) : text := map lower_c s.
