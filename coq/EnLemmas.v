(* C03/C14 - lemmas used by EnSound.v / EnPure.v: facts about categories, the helper predicates of the generated
   grammar, the rule loop, and an adapter from the general specification of `unify` (UnifySpec/UnifyProofs) to
   the relations of EnSpec.v. *)
From Coq Require Import List NArith Bool Lia.
Import ListNotations.
Require Import Cat CatFacts CatLex CatRoundTrip Unify UnifySpec UnifyProofs GramPrims GenTables GenEn EnSpec.
Open Scope N_scope.

(* ================= texts and category values ================= *)
Lemma specials_std : forall c, special specials c = special9 c.
Proof. apply existsb_ext_set. vm_compute. reflexivity. Qed.
Lemma puncts_plain : Forall plain puncts.
Proof. apply Forall_plain_of_bool. vm_compute. reflexivity. Qed.
Lemma show_inj a b : wf puncts a -> wf puncts b -> show a = show b -> a = b.
Proof. exact (show_injective specials specials_std puncts puncts_plain a b). Qed.

(* category == "text" for the text of a well-formed category value *)
Lemma eq_str_wf c d : wf puncts c -> wfb puncts d = true -> eq_str c (show d) = true -> c = d.
Proof. intros Hc Hd H. apply text_eqb_eq in H. apply wfb_ok in Hd. now apply show_inj. Qed.
Lemma eq_str_refl c : eq_str c (show c) = true.
Proof. apply text_eqb_refl. Qed.

Lemma text_in_cons t a l : text_in t (a :: l) = text_eqb t a || text_in t l.
Proof. reflexivity. Qed.

(* ================= leaf features ================= *)
Lemma feats_leaf c : feats c = leaf_feats c.
Proof. unfold feats. now rewrite leaf_feats_atoms. Qed.
Lemma feats_fun l s r : feats (Fun l s r) = feats l ++ feats r.
Proof. unfold feats. cbn [atoms]. now rewrite map_app. Qed.
Lemma feats_atom b f : feats (Atom b f) = [f].
Proof. reflexivity. Qed.

Lemma unary_sys_fun l s r : unary_sys (Fun l s r) <-> unary_sys l /\ unary_sys r.
Proof. unfold unary_sys. rewrite feats_fun. apply Forall_app. Qed.
Lemma unary_featb_ok f : unary_featb f = true <-> unary_feat f.
Proof. destruct f; cbn; split; intros H; auto; try discriminate; contradiction. Qed.
Lemma unary_sysb_ok c : unary_sysb c = true <-> unary_sys c.
Proof.
  unfold unary_sysb, unary_sys. rewrite forallb_forall, Forall_forall. split; intros H f Hf; apply unary_featb_ok; auto.
Qed.
Lemma unary_feat_is_ter f : unary_feat f <-> is_ter f = false.
Proof. destruct f; cbn; split; intros H; auto; try discriminate; contradiction. Qed.
Lemma unary_sys_system c : unary_sys c <-> unary_system c.
Proof.
  unfold unary_sys, unary_system. rewrite feats_leaf, !Forall_forall. split; intros H f Hf; apply unary_feat_is_ter; auto.
Qed.
Lemma one_system_spec x y : EnSpec.one_system x y -> UnifySpec.one_system x y.
Proof. intros [Hx Hy]. left. split; now apply unary_sys_system. Qed.

(* ================= erasing features ================= *)
Lemma clear_idem names c : clear_features names (clear_features names c) = clear_features names c.
Proof.
  induction c as [b f | l IHl s r IHr]; cbn [clear_features].
  - destruct (existsb (feat_eq_str f) names) eqn:E; cbn [clear_features]; [|now rewrite E].
    now destruct (existsb (feat_eq_str FNone) names).
  - now rewrite IHl, IHr.
Qed.
Lemma clear_wf names c : wf puncts c -> wf puncts (clear_features names c).
Proof.
  induction c as [b f | l IHl s r IHr]; cbn [clear_features wf].
  - intros (Hb & Hf & Hp). destruct (existsb (feat_eq_str f) names); cbn [wf wf_feat]; auto.
  - intros (Hl & Hs & Hr). auto.
Qed.
Lemma clear_unary names c : unary_sys c -> unary_sys (clear_features names c).
Proof.
  induction c as [b f | l IHl s r IHr]; cbn [clear_features].
  - intros H. destruct (existsb (feat_eq_str f) names); [|exact H]. constructor; [exact I | constructor].
  - rewrite !unary_sys_fun. intros [Hl Hr]. auto.
Qed.

(* ================= the error monad ================= *)
Lemma bind_ok {A B} (a : res A) (f : A -> res B) b : bind a f = Ok_ b -> exists v, a = Ok_ v /\ f v = Ok_ b.
Proof. destruct a as [v|e]; cbn [bind]; intros H; [now exists v | discriminate]. Qed.

(* ================= the rule loop ================= *)
Lemma collect_In cs x y rs r : collect cs x y = Ok_ rs -> In r rs -> exists c, In c cs /\ c x y = Ok_ (Some r).
Proof.
  revert rs. induction cs as [|c cs IH]; cbn [collect]; intros rs H Hin.
  - inversion H; subst. contradiction.
  - apply bind_ok in H as [o [Ho H]]. apply bind_ok in H as [rest [Hrest H]]. inversion H; subst rs; clear H.
    destruct o as [v|].
    + destruct Hin as [<-|Hin]; [exists c; split; [now left | exact Ho]|].
      destruct (IH rest Hrest Hin) as [c' [Hc' Hr]]. exists c'. split; [now right | exact Hr].
    + destruct (IH rest Hrest Hin) as [c' [Hc' Hr]]. exists c'. split; [now right | exact Hr].
Qed.
Lemma collect_complete cs x y rs c r : collect cs x y = Ok_ rs -> In c cs -> c x y = Ok_ (Some r) -> In r rs.
Proof.
  revert rs. induction cs as [|c0 cs IH]; cbn [collect]; intros rs H Hin Hc; [contradiction|].
  apply bind_ok in H as [o [Ho H]]. apply bind_ok in H as [rest [Hrest H]]. inversion H; subst rs; clear H.
  destruct Hin as [->|Hin].
  - rewrite Hc in Ho. inversion Ho; subst o. now left.
  - specialize (IH rest Hrest Hin Hc). destruct o; [now right | exact IH].
Qed.
Lemma collect_total cs x y : (forall c, In c cs -> exists o, c x y = Ok_ o) -> exists rs, collect cs x y = Ok_ rs.
Proof.
  induction cs as [|c cs IH]; intros H; cbn [collect]; [now eexists|].
  destruct (H c (or_introl eq_refl)) as [o Ho]. rewrite Ho. cbn [bind].
  destruct IH as [rest Hrest]; [intros c' Hc'; apply H; now right|]. rewrite Hrest. cbn [bind]. now eexists.
Qed.

(* ================= the helper predicates of en.py, in closed form ================= *)
(* The translator inlines the private helpers (_is_modifier, _is_punct, _is_type_raised) into the decision tree of every
   function that calls them, so there are no generated definitions to characterise.  The closed forms below are what the
   per-combinator evaluation lemmas of EnSound.v / EnPure.v are stated with; those lemmas are proved by running the
   generated tree on every constructor shape of the inputs (`crunch`), whatever the tree looks like. *)
Ltac step := cbn [bind is_fun left_of right_of base_of feature_of functor_of first_is_ascii_letter negb].
Ltac atomic_of c :=
  lazymatch c with
  | andb ?a _ => atomic_of a
  | orb ?a _ => atomic_of a
  | negb ?a => atomic_of a
  | _ => constr:(c)
  end.
(* closed texts of the specification, written as the code points the generated file contains *)
Ltac norm_lits :=
  repeat match goal with
  | |- context [map show ?l] => let v := eval vm_compute in (map show l) in change (map show l) with v
  | |- context [show ?c] => is_const c; let v := eval vm_compute in (show c) in change (show c) with v
  end.
Ltac crunch :=
  norm_lits;
  repeat first
    [ reflexivity
    | match goal with H1 : ?a = true, H2 : ?b = false |- _ => exfalso; exact (diff_true_false (eq_trans (eq_sym H1) H2)) end
    | progress (step; cbn [andb orb negb])
    | match goal with |- context [if ?c then _ else _] => let a := atomic_of c in destruct a eqn:? end ].
(* (the second line closes a path on which one test was split twice because it occurs in two convertible spellings) *)
Definition modifierb (x : cat) : bool := match x with Fun l _ r => cat_eqb l r | Atom _ _ => false end.
Definition type_raisedb (x : cat) : bool := match x with Fun l _ (Fun rl _ _) => cat_eqb rl l | _ => false end.
Lemma type_raisedb_ok x : type_raisedb x = true <-> type_raised x.
Proof.
  unfold type_raised. split.
  - destruct x as [b f | l s [b f | rl s' rr]]; cbn [type_raisedb]; try discriminate.
    intros H. apply cat_eqb_eq in H. subst rl. now exists l, s, s', rr.
  - intros (t & s1 & s2 & a & ->). cbn [type_raisedb]. apply cat_eqb_refl.
Qed.

Definition letterb (c : N) : bool := (N.leb 65 c && N.leb c 90) || (N.leb 97 c && N.leb c 122).
Definition punctb (x : cat) : bool :=
  match x with
  | Atom b _ => match b with c :: _ => negb (letterb c) || text_in b [n_LRB; n_RRB; n_LQU; n_RQU] | [] => false end
  | Fun _ _ _ => false
  end.
Lemma letterb_ok c : letterb c = true <-> ascii_letter c.
Proof.
  unfold letterb, ascii_letter. rewrite orb_true_iff, !andb_true_iff, !N.leb_le. tauto.
Qed.
Lemma punctb_ok x : punctb x = true <-> punct_cat x.
Proof.
  unfold punct_cat. split.
  - destruct x as [[|c b] f | l s r]; cbn [punctb]; try discriminate.
    intros H. exists (c :: b), f. split; [reflexivity|]. apply orb_true_iff in H as [H|H].
    + left. exists c, b. split; [reflexivity|]. intros Hl. apply letterb_ok in Hl. rewrite Hl in H. discriminate.
    + right. now apply text_in_In.
  - intros (b & f & -> & [(ch & rest & -> & Hn)|Hin]).
    + cbn [punctb]. apply orb_true_iff. left. destruct (letterb ch) eqn:E; [|reflexivity]. apply letterb_ok in E. contradiction.
    + destruct b as [|c b]; [cbn in Hin; intuition discriminate|]. cbn [punctb]. apply orb_true_iff. right. now apply text_in_In.
Qed.

(* ================= from the specification of unify to the relations of EnSpec ================= *)
Lemma lenient_loose f : lenient f <-> loose f.
Proof. reflexivity. Qed.
Lemma compat_ok_feat_compat f g : unary_feat f -> unary_feat g -> compat_ok f g -> feat_compat f g.
Proof.
  intros Hf Hg H. apply compat_true_iff in H. apply unary_feat_is_ter in Hf, Hg. unfold feat_compat.
  destruct H as [->|[(_ & _ & [H|H])|[[H|H]|[_ H]]]].
  - now left.
  - right; left. exact H.
  - right; right. exact H.
  - apply covers_ter in H as [H _]. congruence.
  - apply covers_ter in H as [H _]. congruence.
  - congruence.
Qed.
Lemma Forall2_impl_in {A B} (P Q : A -> B -> Prop) (FA : A -> Prop) (FB : B -> Prop) l1 l2 :
  (forall a b, FA a -> FB b -> P a b -> Q a b) -> Forall FA l1 -> Forall FB l2 -> Forall2 P l1 l2 -> Forall2 Q l1 l2.
Proof.
  intros Himp H1 H2 H. revert H1 H2. induction H as [|a b l1 l2 Hab H IH]; intros H1 H2; constructor.
  - inversion H1; inversion H2; subst. auto.
  - inversion H1; inversion H2; subst. auto.
Qed.
Lemma Forall2_refl {A} (P : A -> A -> Prop) l : (forall a, P a a) -> Forall2 P l l.
Proof. intros H. induction l; constructor; auto. Qed.

Lemma matches_of_unify cx cy : unary_sys cx -> unary_sys cy -> cat_xor cx cy = true ->
  Forall2 compat_ok (leaf_feats cx) (leaf_feats cy) -> matches cx cy.
Proof.
  intros Hx Hy Hxor HF. split; [now apply cat_xor_skeleton|]. rewrite !feats_leaf.
  unfold unary_sys in Hx, Hy. rewrite feats_leaf in Hx, Hy.
  exact (Forall2_impl_in _ _ _ _ _ _ compat_ok_feat_compat Hx Hy HF).
Qed.

Lemma incl_unary c t : incl (leaf_feats c) (leaf_feats t) -> unary_sys t -> unary_sys c.
Proof.
  unfold unary_sys. rewrite !feats_leaf, !Forall_forall. intros Hi H f Hf. apply H. now apply Hi.
Qed.

Lemma is_variable_unary f : unary_feat f -> is_variable f = true -> f = f_X.
Proof.
  destruct f as [|v|]; cbn; intros Hu H; try discriminate; [|contradiction].
  apply text_eqb_eq in H. now subst v.
Qed.

(* everything the rules use from a successful match, in the vocabulary of EnSpec *)
Lemma unify_inv px py x y st : unary_sys x -> unary_sys y -> unify px py x y = Ok_ (Some st) ->
  exists bx by_, binds px x = Some bx /\ binds py y = Some by_ /\
    (forall v c1 c2, In (v, c1) (bx ++ by_) -> In (v, c2) (bx ++ by_) -> cat_xor c1 c2 = true) /\
    (forall v cx cy, last_binding v bx = Some cx -> last_binding v by_ = Some cy ->
                     unary_sys cx /\ unary_sys cy /\ matches cx cy) /\
    (forall v c0, last_binding v (bx ++ by_) = Some c0 -> exists c, uget st v = Ok_ c /\ inst_of x y c0 c).
Proof.
  intros Ux Uy Hu.
  destruct (unify_success_inv _ _ _ _ _ Hu) as (bx & by_ & ps & Hbx & Hby & Ha & Hc & Hps & Hok & Hcats & Hmap).
  exists bx, by_. split; [exact Hbx|]. split; [exact Hby|]. split; [exact Ha|]. split.
  - intros v cx cy Hlx Hly.
    assert (Ucx : unary_sys cx).
    { apply (incl_unary cx x); [|exact Ux]. apply last_binding_In in Hlx. exact (binds_leaf_incl _ _ _ _ _ Hbx Hlx). }
    assert (Ucy : unary_sys cy).
    { apply (incl_unary cy y); [|exact Uy]. apply last_binding_In in Hly. exact (binds_leaf_incl _ _ _ _ _ Hby Hly). }
    split; [exact Ucx|]. split; [exact Ucy|]. apply matches_of_unify; try assumption.
    + apply last_binding_In in Hlx, Hly. apply (Ha v); apply in_or_app; [now left | now right].
    + exact (Hc v cx cy Hlx Hly).
  - intros v c0 Hl. pose proof (uget_char st _ v Hcats) as Hg. rewrite Hl in Hg. eexists. split; [exact Hg|].
    destruct (binding_shape _ _ _ _ _ _ _ Hu Hg) as (c0' & Hl' & Hsk & HF).
    unfold bindings, obinds in Hl'. rewrite Hbx, Hby, Hl in Hl'. inversion Hl'; subst c0'; clear Hl'.
    split; [exact Hsk|]. rewrite !feats_leaf.
    assert (U0 : Forall unary_feat (leaf_feats c0)).
    { apply last_binding_In in Hl. apply Forall_forall. intros f Hf.
      apply in_app_or in Hl as [Hl|Hl].
      - pose proof (binds_leaf_incl _ _ _ _ _ Hbx Hl f Hf) as Hin. unfold unary_sys in Ux. rewrite feats_leaf, Forall_forall in Ux. auto.
      - pose proof (binds_leaf_incl _ _ _ _ _ Hby Hl f Hf) as Hin. unfold unary_sys in Uy. rewrite feats_leaf, Forall_forall in Uy. auto. }
    assert (FI : Forall (from_inputs x y) (leaf_feats (subst (umap st) c0))).
    { apply Forall_forall. intros f Hf. pose proof (binding_feats_from_inputs _ _ _ _ _ _ _ f Hu Hg Hf) as Hin.
      unfold from_inputs. rewrite !feats_leaf. now apply in_app_or. }
    refine (Forall2_impl_in _ _ _ _ _ _ _ FI U0 HF).
    intros f f0 Hfi Hu0 [->|[Hv _]]; [now left | right]. split; [now apply is_variable_unary | exact Hfi].
Qed.

(* identical matched parts: the match succeeds and every variable reads back as the sub-category itself *)
Lemma unify_ident px py x y bx by_ : binds px x = Some bx -> binds py y = Some by_ -> vars_agreeb (bx ++ by_) = true ->
  (forall v cx cy, last_binding v bx = Some cx -> last_binding v by_ = Some cy -> cx = cy) ->
  exists st, unify px py x y = Ok_ (Some st) /\ forall v c0, last_binding v (bx ++ by_) = Some c0 -> uget st v = Ok_ c0.
Proof.
  intros Hbx Hby Ha Hid. apply vars_agreeb_ok in Ha.
  assert (Hc : feats_compatible bx by_).
  { intros v cx cy Hlx Hly. rewrite (Hid v cx cy Hlx Hly). apply Forall2_refl. intros a. apply compat_refl. }
  destruct (unify_success_intro _ _ _ _ _ _ Hbx Hby Ha Hc) as [st Hu]. exists st. split; [exact Hu|].
  intros v c0 Hl. apply (binding_unchanged _ _ _ _ _ _ _ Hu).
  - unfold bindings, obinds. now rewrite Hbx, Hby.
  - unfold obinds. rewrite Hbx, Hby. intros a b (w & cx & cy & i & Hlx & Hly & Hna & Hnb).
    rewrite (Hid w cx cy Hlx Hly) in Hna. congruence.
Qed.

Lemma unify_total px py x y : unary_sys x -> unary_sys y -> exists o, unify px py x y = Ok_ o.
Proof.
  intros Ux Uy. destruct (unify px py x y) as [o|e] eqn:E; [now exists o|].
  exfalso. exact (unify_no_error px py x y e (one_system_spec x y (conj Ux Uy)) E).
Qed.

(* ---------- the shapes of the five pattern literals of en.py ---------- *)
Lemma slash_match_fwd s : slash_match [47] s = true <-> fwd s.
Proof.
  unfold slash_match, fwd, sl, bar. change (text_eqb [47] [cBAR]) with false. rewrite orb_false_r, orb_true_iff, !text_eqb_eq.
  split; intros [H|H]; auto.
Qed.
Lemma slash_match_bwd s : slash_match [92] s = true <-> bwd s.
Proof.
  unfold slash_match, bwd, bs, bar. change (text_eqb [92] [cBAR]) with false. rewrite orb_false_r, orb_true_iff, !text_eqb_eq.
  split; intros [H|H]; auto.
Qed.
Lemma slash_match_bar s : slash_match [124] s = true.
Proof. unfold slash_match. change (text_eqb [124] [cBAR]) with true. now rewrite orb_true_r. Qed.

Notation v_a := [97] (only parsing). Notation v_b := [98] (only parsing). Notation v_c := [99] (only parsing). Notation v_d := [100] (only parsing).

Lemma binds_var x : binds lit_1 x = Some [(v_b, x)].                      (* 'b' *)
Proof. reflexivity. Qed.
Lemma binds_a_sl_b x bx : binds lit_0 x = Some bx ->                        (* 'a/b' *)
  exists a s b, x = Fun a s b /\ fwd s /\ bx = [(v_a, a); (v_b, b)].
Proof.
  destruct x as [n f | a s b]; cbn [binds lit_0]; [discriminate|].
  destruct (slash_match [47] s) eqn:E; [|discriminate]. intros H. inversion H. apply slash_match_fwd in E. now exists a, s, b.
Qed.
Lemma binds_a_bs_b y by_ : binds lit_2 y = Some by_ ->                      (* 'a\b' *)
  exists a s b, y = Fun a s b /\ bwd s /\ by_ = [(v_a, a); (v_b, b)].
Proof.
  destruct y as [n f | a s b]; cbn [binds lit_2]; [discriminate|].
  destruct (slash_match [92] s) eqn:E; [|discriminate]. intros H. inversion H. apply slash_match_bwd in E. now exists a, s, b.
Qed.
Lemma binds_b_sl_c y by_ : binds lit_3 y = Some by_ ->                      (* 'b/c' *)
  exists b s c, y = Fun b s c /\ fwd s /\ by_ = [(v_b, b); (v_c, c)].
Proof.
  destruct y as [n f | b s c]; cbn [binds lit_3]; [discriminate|].
  destruct (slash_match [47] s) eqn:E; [|discriminate]. intros H. inversion H. apply slash_match_fwd in E. now exists b, s, c.
Qed.
Lemma binds_bc_d y by_ : binds lit_4 y = Some by_ ->                        (* '(b/c)|d' *)
  exists b s c s3 d, y = Fun (Fun b s c) s3 d /\ fwd s /\ by_ = [(v_b, b); (v_c, c); (v_d, d)].
Proof.
  destruct y as [n f | [n f | b s c] s3 d]; cbn [binds lit_4]; try discriminate.
  - now destruct (slash_match [124] s3).
  - rewrite slash_match_bar. destruct (slash_match [47] s) eqn:E; [|discriminate]. intros H. inversion H.
    apply slash_match_fwd in E. now exists b, s, c, s3, d.
Qed.
(* and conversely *)
Lemma binds_a_sl_b_intro a s b : fwd s -> binds lit_0 (Fun a s b) = Some [(v_a, a); (v_b, b)].
Proof. intros H. apply slash_match_fwd in H. cbn [binds lit_0]. now rewrite H. Qed.
Lemma binds_a_bs_b_intro a s b : bwd s -> binds lit_2 (Fun a s b) = Some [(v_a, a); (v_b, b)].
Proof. intros H. apply slash_match_bwd in H. cbn [binds lit_2]. now rewrite H. Qed.
Lemma binds_b_sl_c_intro b s c : fwd s -> binds lit_3 (Fun b s c) = Some [(v_b, b); (v_c, c)].
Proof. intros H. apply slash_match_fwd in H. cbn [binds lit_3]. now rewrite H. Qed.
Lemma binds_bc_d_intro b s c s3 d : fwd s -> binds lit_4 (Fun (Fun b s c) s3 d) = Some [(v_b, b); (v_c, c); (v_d, d)].
Proof. intros H. apply slash_match_fwd in H. cbn [binds lit_4]. now rewrite slash_match_bar, H. Qed.

(* an atom without feature is instantiated by itself only *)
Lemma inst_of_bare x y b c : inst_of x y (Atom b FNone) c -> c = Atom b FNone.
Proof.
  intros [Hs HF]. destruct c as [b' f' | l s r]; cbn [skeleton] in Hs; [|discriminate]. inversion Hs; subst b'.
  cbn in HF. inversion HF as [|? ? ? ? H _]; subst. destruct H as [->|[H _]]; [reflexivity | discriminate].
Qed.
Lemma inst_of_refl x y a : inst_of x y a a.
Proof. split; [reflexivity|]. apply Forall2_refl. now left. Qed.

(* category in ("t1", "t2", ...) for texts of well-formed category values *)
Lemma text_in_show x ds : wf puncts x -> forallb (wfb puncts) ds = true -> text_in (show x) (map show ds) = true -> In x ds.
Proof.
  intros Wx Wd H. apply text_in_In in H. apply in_map_iff in H as (d & Hs & Hin).
  rewrite forallb_forall in Wd. specialize (Wd d Hin). apply wfb_ok in Wd. rewrite (show_inj x d Wx Wd); auto.
Qed.
Lemma text_in_show_intro x ds : In x ds -> text_in (show x) (map show ds) = true.
Proof. intros H. apply text_in_In. now apply in_map. Qed.

Lemma if_and (e1 e2 : bool) : (if e1 then Ok_ e2 else @Ok_ bool false) = Ok_ (e1 && e2).
Proof. now destruct e1. Qed.
