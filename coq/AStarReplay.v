(* The executable trace validator is sound: a trace it accepts is a run of the implementation-level model
   (so every theorem about reachable states applies to what the real search did), plus final-state corollaries. *)
From Coq Require Import List ZArith Lia Bool Arith Sorted.
Import ListNotations.
Require Import AStar AStarLoss AStarOpt AStarImpl AStarRefine AStarThms.
Open Scope Z_scope.

Section Replay.
Context {C : Type}.
Variable ceqb : C -> C -> bool.
Hypothesis ceqb_eq : forall a b, ceqb a b = true <-> a = b.
Variable n : nat.
Variable tag : nat -> C -> Z.
Variable dep : nat -> nat -> Z.
Variable adm : nat -> list C.
Variable besttag bestdep : nat -> Z.
Variable bin : C -> C -> list (C * bool).
Variable un : C -> list C.
Variable isroot : C -> bool.
Variable pen : Z.
Variable dedup : bool.
Variable max_step nbest : nat.

Notation jitem := (@jitem C).
Notation jstate := (@jstate C).
Notation jreach := (jreach ceqb n tag dep adm besttag bestdep bin un isroot pen dedup max_step nbest).
Notation jstep := (jstep ceqb n dep besttag bestdep bin un isroot pen dedup).
Notation jreplay := (jreplay ceqb n dep besttag bestdep bin un isroot pen dedup max_step nbest).
Notation jaccepts := (jaccepts ceqb n tag dep adm besttag bestdep bin un isroot pen dedup max_step nbest).

Lemma jitem_eqb_eq (a b : jitem) : jitem_eqb ceqb a b = true -> a = b.
Proof.
  unfold jitem_eqb, jsame. intros H.
  apply andb_true_iff in H as [H Hh]. apply andb_true_iff in H as [H Hl]. apply andb_true_iff in H as [H Hs].
  apply andb_true_iff in H as [H Ho]. apply andb_true_iff in H as [H Hi]. apply andb_true_iff in H as [Hf Hd].
  destruct a, b; simpl in *.
  apply Bool.eqb_prop in Hf. apply (deriv_eqb_eq ceqb ceqb_eq) in Hd.
  apply Z.eqb_eq in Hi, Ho. apply Nat.eqb_eq in Hs, Hl, Hh. congruence.
Qed.

Lemma jrunning_b_ok (st : jstate) : jrunning_b max_step nbest st = true -> jrunning max_step nbest st.
Proof.
  unfold jrunning_b, jrunning. intros H. apply andb_true_iff in H as [H H3]. apply andb_true_iff in H as [H1 H2].
  apply Nat.ltb_lt in H1, H2. repeat split; try assumption. intros E. rewrite E in H3. discriminate.
Qed.

Lemma jvalid_pop_b_ok (a : jitem) (st : jstate) : jvalid_pop_b ceqb a st = true -> jvalid_pop a st.
Proof.
  unfold jvalid_pop_b, jvalid_pop. intros H. apply andb_true_iff in H as [H1 H2].
  apply existsb_exists in H1 as [a' [Hin E]]. apply jitem_eqb_eq in E. subst a'. split; [assumption|].
  rewrite forallb_forall in H2. intros b Hb. apply Z.leb_le. now apply H2.
Qed.

Lemma jreplay_reach tr : forall k stored st st', jreach st -> jreplay tr k stored st = inl st' -> jreach st'.
Proof.
  induction tr as [|t tr IH]; intros k stored st st' Hr H; simpl in H.
  - inversion H; now subst.
  - destruct (resolve stored t) as [a|]; [|discriminate].
    destruct (jrunning_b max_step nbest st && jvalid_pop_b ceqb a st) eqn:E; [|discriminate].
    apply andb_true_iff in E as [E1 E2].
    destruct (Bool.eqb _ _); [|discriminate].
    apply IH in H; [assumption|]. constructor; [assumption | now apply jrunning_b_ok | now apply jvalid_pop_b_ok].
Qed.

Theorem accepts_reach tr st : jaccepts tr = Some st -> jreach st /\ jrunning_b max_step nbest st = false.
Proof.
  unfold AStarImpl.jaccepts. destruct (AStarImpl.jreplay _ _ _ _ _ _ _ _ _ _ _ _ tr 0 [] _) as [st0|k] eqn:E; [|discriminate].
  destruct (jrunning_b max_step nbest st0) eqn:Er; [discriminate|]. intros H. inversion H; subst.
  split; [|assumption]. eapply jreplay_reach; [constructor | exact E].
Qed.
End Replay.

(* ---------- final-state corollaries ---------- *)
Section Final.
Context {C : Type}.
Variable ceqb : C -> C -> bool.
Hypothesis ceqb_eq : forall a b, ceqb a b = true <-> a = b.
Variable n : nat.
Variable tag : nat -> C -> Z.
Variable dep : nat -> nat -> Z.
Variable adm : nat -> list C.
Variable besttag bestdep : nat -> Z.
Variable bin : C -> C -> list (C * bool).
Variable un : C -> list C.
Variable isroot : C -> bool.
Variable pen : Z.
Variable max_step nbest : nat.
Hypothesis pen_nonneg : 0 <= pen.
Hypothesis tag_le : forall i c, (i < n)%nat -> In c (adm i) -> tag i c <= besttag i.
Hypothesis dep_le : forall i j, dep i j <= bestdep i.

Notation jstate := (@jstate C).
Notation complete := (complete n adm bin un isroot).
Notation score := (score tag dep pen).
Notation jreach dd := (jreach ceqb n tag dep adm besttag bestdep bin un isroot pen dd max_step nbest).

(* 1-best: the first element of the goal cell of any reachable state is a best derivation *)
Theorem first_goal_in_state hdir (uniform : forall x y c hl, In (c, hl) (bin x y) -> hl = hdir) st :
  jreach true st -> forall g rest, jgoal st = g :: rest ->
  complete (jder g) /\ jprio g = score (jder g) /\ forall d, complete d -> score d <= jprio g.
Proof.
  induction 1 as [|st a Hr IH Hrun Hv]; intros g rest Hg; [discriminate|].
  unfold jstep in Hg. destruct (jfin a) eqn:Ef.
  - simpl in Hg. destruct (jgoal st) as [|g0 r0] eqn:Eg.
    + simpl in Hg. inversion Hg; subst.
      exact (impl_first_goal_optimal ceqb ceqb_eq n tag dep adm besttag bestdep bin un isroot pen max_step nbest
               pen_nonneg tag_le dep_le hdir uniform st g Hr Eg Hv Ef).
    + simpl in Hg. inversion Hg; subst. now apply (IH g r0).
  - destruct (true && existsb _ _); simpl in Hg; now apply (IH g rest).
Qed.

(* a failed 1-best search: either no derivation exists, or the step budget ran out (or nothing was asked for) *)
Theorem failed_means_none_or_budget hdir (uniform : forall x y c hl, In (c, hl) (bin x y) -> hl = hdir) st :
  jreach true st -> jrunning_b max_step nbest st = false -> jgoal st = [] ->
  (forall d, ~ complete d) \/ (max_step <= jsteps st)%nat \/ nbest = 0%nat.
Proof.
  intros Hr Hnr Hg. unfold jrunning_b in Hnr. rewrite Hg in Hnr. simpl in Hnr.
  destruct (jsteps st <? max_step)%nat eqn:E1; [|right; left; now apply Nat.ltb_ge].
  destruct (0 <? nbest)%nat eqn:E2; [|right; right; apply Nat.ltb_ge in E2; lia].
  simpl in Hnr. destruct (jagenda st) eqn:Ea; [|discriminate]. left.
  exact (impl_fail_only_if_none ceqb ceqb_eq n tag dep adm besttag bestdep bin un isroot pen max_step nbest
           pen_nonneg tag_le dep_le hdir uniform st Hr Ea Hg).
Qed.

(* n-best: every complete derivation that was not returned scores no more than every returned one *)
Theorem nbest_in_state st : jreach false st ->
  forall d, complete d -> ~ In d (map (@jder C) (jgoal st)) -> forall g, In g (jgoal st) -> score d <= jprio g.
Proof.
  induction 1 as [|st a Hr IH Hrun Hv]; intros d Hd Hnin g Hg; [destruct Hg|].
  unfold jstep in *. destruct (jfin a) eqn:Ef.
  - simpl in *. rewrite map_app, in_app_iff in Hnin. apply in_app_iff in Hg as [Hg|[<-|[]]].
    + apply IH; tauto.
    + destruct (impl_goal_best_remaining ceqb ceqb_eq n tag dep adm besttag bestdep bin un isroot pen max_step nbest
                  pen_nonneg tag_le dep_le st a Hr Hv Ef) as (_ & _ & Hb). apply Hb; tauto.
  - destruct (false && existsb _ _); simpl in *; now apply IH.
Qed.
End Final.
