(* The -LRB-/-RRB- escape of ptb_of and its inverse in _parse_ptb: on which words is it a round trip? *)
From Coq Require Import List NArith Bool Lia Arith.
Import ListNotations.
Require Import Cat CatFacts CatRoundTrip Tree Ptb.
Open Scope N_scope.

(* ---------- generalities ---------- *)
Lemma prefixb_app p r : prefixb p (p ++ r) = true.
Proof. induction p as [|x p IH]; cbn; [reflexivity|]. now rewrite N.eqb_refl, IH. Qed.

Lemma prefixb_split p t : prefixb p t = true -> exists r, t = p ++ r.
Proof.
  revert t; induction p as [|x p IH]; intros t H; cbn in *.
  - now exists t.
  - destruct t as [|y t]; [discriminate|]. apply andb_true_iff in H as [H1 H2]. apply N.eqb_eq in H1; subst y.
    destruct (IH t H2) as [r ->]. now exists r.
Qed.

Lemma prefixb_length p t : prefixb p t = true -> (length p <= length t)%nat.
Proof. intros H. destruct (prefixb_split p t H) as [r ->]. rewrite app_length. lia. Qed.

Lemma has_cons c x t : has c (x :: t) = N.eqb c x || has c t.
Proof. reflexivity. Qed.

Lemma has_false_app c a b : has c (a ++ b) = false <-> has c a = false /\ has c b = false.
Proof. rewrite has_app. apply orb_false_iff. Qed.

(* ---------- the printer's escape, character by character ---------- *)
Definition isparen (c : N) : bool := N.eqb c cLP || N.eqb c cRP.
Definition piece (c : N) : text := if N.eqb c cLP then t_LRB else if N.eqb c cRP then t_RRB else [c].

Lemma repl1_app c s a b : repl1 c s (a ++ b) = repl1 c s a ++ repl1 c s b.
Proof. unfold repl1. apply flat_map_app. Qed.

Lemma esc_word_cons c r : esc_word (c :: r) = piece c ++ esc_word r.
Proof.
  unfold esc_word, piece. change (repl1 cLP t_LRB (c :: r)) with ((if N.eqb c cLP then t_LRB else [c]) ++ repl1 cLP t_LRB r).
  rewrite repl1_app. f_equal.
  destruct (N.eqb c cLP) eqn:E1; [reflexivity|]. cbn. destruct (N.eqb c cRP); reflexivity.
Qed.

Lemma esc_word_app a b : esc_word (a ++ b) = esc_word a ++ esc_word b.
Proof. unfold esc_word. now rewrite !repl1_app. Qed.

Lemma piece_no_paren c : has cLP (piece c) = false /\ has cRP (piece c) = false.
Proof.
  unfold piece. destruct (N.eqb c cLP) eqn:E1; [split; reflexivity|]. destruct (N.eqb c cRP) eqn:E2; [split; reflexivity|].
  cbn [has existsb]. rewrite !orb_false_r. rewrite (N.eqb_sym cLP c), (N.eqb_sym cRP c). now rewrite E1, E2.
Qed.

Lemma esc_word_no_paren w : has cLP (esc_word w) = false /\ has cRP (esc_word w) = false.
Proof.
  induction w as [|c w [IH1 IH2]]; [split; reflexivity|]. rewrite esc_word_cons, !has_app, IH1, IH2.
  destruct (piece_no_paren c) as [-> ->]. split; reflexivity.
Qed.

Lemma piece_nonnil c : piece c <> [].
Proof. unfold piece. destruct (N.eqb c cLP); [discriminate|]. destruct (N.eqb c cRP); discriminate. Qed.

Lemma esc_word_nonnil w : w <> [] -> esc_word w <> [].
Proof.
  destruct w as [|c w]; [congruence|]. intros _. rewrite esc_word_cons. intros H. apply app_eq_nil in H as [H _]. now apply (piece_nonnil c).
Qed.

(* a character other than '-', 'L', 'R', 'B', '(' , ')' occurs in the escaped word only if it occurs in the word *)
Lemma has_esc_word x w : N.eqb x 45 = false -> N.eqb x 76 = false -> N.eqb x 82 = false -> N.eqb x 66 = false ->
  has x w = false -> has x (esc_word w) = false.
Proof.
  intros H45 H76 H82 H66. induction w as [|c w IH]; intros H; [reflexivity|].
  cbn [has existsb] in H. apply orb_false_iff in H as [Hc Hw]. rewrite esc_word_cons, has_app, (IH Hw), orb_false_r.
  unfold piece. destruct (N.eqb c cLP); [cbn; now rewrite H45, H76, H82, H66|].
  destruct (N.eqb c cRP); [cbn; now rewrite H45, H82, H66|]. cbn. now rewrite Hc.
Qed.

(* the first character of an escaped word *)
Definition esc_hd (c : N) : N := if isparen c then 45 else c.
Lemma esc_word_hd c r : exists tl, esc_word (c :: r) = esc_hd c :: tl /\ (isparen c = false -> tl = esc_word r).
Proof.
  rewrite esc_word_cons. unfold piece, esc_hd, isparen.
  destruct (N.eqb c cLP); [eexists; split; [reflexivity|discriminate]|].
  destruct (N.eqb c cRP); [eexists; split; [reflexivity|discriminate]|].
  eexists; split; [reflexivity|]. reflexivity.
Qed.

(* ---------- which words survive ---------- *)
Definition isd (c : N) : bool := N.eqb c 45 || isparen c.
(* x LRB y  or  x RRB y  with x, y among '-', '(', ')' at the head of w *)
Definition bad_here (w : text) : bool :=
  match w with
  | x :: a :: b :: c :: y :: _ => isd x && (N.eqb a 76 || N.eqb a 82) && N.eqb b 82 && N.eqb c 66 && isd y
  | _ => false
  end.
Fixpoint esc_safe (w : text) : bool :=
  match w with [] => true | _ :: r => negb (bad_here w) && esc_safe r end.

(* "LRB-" / "RRB-" at the head of an escaped text comes from "LRB"/"RRB" + one of '-', '(', ')' in the word *)
Lemma prefix_xRB_esc a r : N.eqb a 45 = false -> isparen a = false ->
  prefixb [a; 82; 66; 45] (esc_word r) = true -> exists y tl, r = a :: 82 :: 66 :: y :: tl /\ isd y = true.
Proof.
  intros Ha45 Hap H.
  assert (step : forall x p r0, N.eqb x 45 = false -> prefixb (x :: p) (esc_word r0) = true ->
                 exists r1, r0 = x :: r1 /\ prefixb p (esc_word r1) = true).
  { intros x p r0 Hx Hp. destruct r0 as [|c r1]; [discriminate|].
    destruct (esc_word_hd c r1) as (tl & E & Etl). rewrite E in Hp. cbn [prefixb] in Hp.
    apply andb_true_iff in Hp as [Hc Hp]. apply N.eqb_eq in Hc. unfold esc_hd in Hc.
    destruct (isparen c) eqn:Ec; [subst x; discriminate|]. subst c. exists r1. split; [reflexivity|]. now rewrite <- (Etl eq_refl). }
  destruct (step _ _ _ Ha45 H) as (r1 & -> & H1).
  destruct (step 82 _ _ eq_refl H1) as (r2 & -> & H2).
  destruct (step 66 _ _ eq_refl H2) as (r3 & -> & H3).
  destruct r3 as [|y tl]; [discriminate|].
  destruct (esc_word_hd y tl) as (tl' & E & _). rewrite E in H3. cbn [prefixb] in H3.
  apply andb_true_iff in H3 as [Hy _]. apply N.eqb_eq in Hy. exists y, tl. split; [reflexivity|].
  unfold isd. unfold esc_hd in Hy. destruct (isparen y); [apply orb_true_r|]. subst y. reflexivity.
Qed.

Lemma safe_no_LRB x r : isd x = true -> bad_here (x :: r) = false -> prefixb [76; 82; 66; 45] (esc_word r) = false.
Proof.
  intros Hx Hb. destruct (prefixb [76; 82; 66; 45] (esc_word r)) eqn:E; [|reflexivity].
  apply prefix_xRB_esc in E as (y & tl & -> & Hy); [|reflexivity|reflexivity].
  cbn in Hb. rewrite Hx, Hy in Hb. discriminate.
Qed.

(* one step of str.replace *)
Lemma replace_go_nomatch pat rep c r : prefixb pat (c :: r) = false -> replace_go pat rep (c :: r) 0 = c :: replace_go pat rep r 0.
Proof. intros H. cbn [replace_go]. now rewrite H. Qed.
Lemma replace_go_skip pat rep a r : replace_go pat rep (a ++ r) (length a) = replace_go pat rep r 0.
Proof. induction a as [|x a IH]; [reflexivity|]. cbn [app length replace_go]. exact IH. Qed.
Lemma replace_go_match pat rep c a r : pat = c :: a -> replace_go pat rep (pat ++ r) 0 = rep ++ replace_go pat rep r 0.
Proof.
  intros ->. cbn [app replace_go]. change (c :: a ++ r) with ((c :: a) ++ r). rewrite prefixb_app.
  replace (length (c :: a) - 1)%nat with (length a) by (cbn [length]; lia). now rewrite replace_go_skip.
Qed.

(* first pass of the reader: '-LRB-' -> '(' undoes the first pass of the printer *)
Lemma unesc_LRB w : esc_safe w = true -> replace t_LRB [cLP] (esc_word w) = repl1 cRP t_RRB w.
Proof.
  unfold replace. induction w as [|c w IH]; intros Hs; [reflexivity|].
  cbn [esc_safe] in Hs. apply andb_true_iff in Hs as [Hb Hs]. apply negb_true_iff in Hb. specialize (IH Hs).
  rewrite esc_word_cons. unfold piece.
  change (repl1 cRP t_RRB (c :: w)) with ((if N.eqb c cRP then t_RRB else [c]) ++ repl1 cRP t_RRB w).
  destruct (N.eqb c cLP) eqn:E1.
  - apply N.eqb_eq in E1; subst c. rewrite (replace_go_match t_LRB [cLP] 45 [76; 82; 66; 45]) by reflexivity. now rewrite IH.
  - destruct (N.eqb c cRP) eqn:E2.
    + apply N.eqb_eq in E2; subst c.
      assert (Hn : prefixb [76; 82; 66; 45] (esc_word w) = false) by (apply (safe_no_LRB cRP); [reflexivity|assumption]).
      change (t_RRB ++ esc_word w) with (45 :: 82 :: 82 :: 66 :: 45 :: esc_word w).
      rewrite replace_go_nomatch by reflexivity. rewrite replace_go_nomatch by reflexivity.
      rewrite replace_go_nomatch by reflexivity. rewrite replace_go_nomatch by reflexivity.
      rewrite replace_go_nomatch by exact Hn. now rewrite IH.
    + cbn [app].
      assert (Hn : prefixb t_LRB (c :: esc_word w) = false).
      { cbn [prefixb t_LRB]. destruct (N.eqb 45 c) eqn:E3; [|reflexivity].
        apply N.eqb_eq in E3; subst c. cbn [andb]. apply (safe_no_LRB 45); [reflexivity|assumption]. }
      rewrite replace_go_nomatch by exact Hn. now rewrite IH.
Qed.

(* second pass: '-RRB-' -> ')' *)
Definition escR_hd (c : N) : N := if N.eqb c cRP then 45 else c.
Lemma escR_hd_spec c r : exists tl, repl1 cRP t_RRB (c :: r) = escR_hd c :: tl /\ (N.eqb c cRP = false -> tl = repl1 cRP t_RRB r).
Proof.
  change (repl1 cRP t_RRB (c :: r)) with ((if N.eqb c cRP then t_RRB else [c]) ++ repl1 cRP t_RRB r). unfold escR_hd.
  destruct (N.eqb c cRP); eexists; (split; [reflexivity|]); [discriminate|reflexivity].
Qed.

Lemma prefix_RRB_escR r :
  prefixb [82; 82; 66; 45] (repl1 cRP t_RRB r) = true -> exists y tl, r = 82 :: 82 :: 66 :: y :: tl /\ isd y = true.
Proof.
  intros H.
  assert (step : forall x p r0, N.eqb x 45 = false -> prefixb (x :: p) (repl1 cRP t_RRB r0) = true ->
                 exists r1, r0 = x :: r1 /\ prefixb p (repl1 cRP t_RRB r1) = true).
  { intros x p r0 Hx Hp. destruct r0 as [|c r1]; [discriminate|].
    destruct (escR_hd_spec c r1) as (tl & E & Etl). rewrite E in Hp. cbn [prefixb] in Hp.
    apply andb_true_iff in Hp as [Hc Hp]. apply N.eqb_eq in Hc. unfold escR_hd in Hc.
    destruct (N.eqb c cRP) eqn:Ec; [subst x; discriminate|]. subst c. exists r1. split; [reflexivity|]. now rewrite <- (Etl eq_refl). }
  destruct (step 82 _ _ eq_refl H) as (r1 & -> & H1).
  destruct (step 82 _ _ eq_refl H1) as (r2 & -> & H2).
  destruct (step 66 _ _ eq_refl H2) as (r3 & -> & H3).
  destruct r3 as [|y tl]; [discriminate|].
  destruct (escR_hd_spec y tl) as (tl' & E & _). rewrite E in H3. cbn [prefixb] in H3.
  apply andb_true_iff in H3 as [Hy _]. apply N.eqb_eq in Hy. exists y, tl. split; [reflexivity|].
  unfold isd, isparen. unfold escR_hd in Hy. destruct (N.eqb y cRP); [now rewrite !orb_true_r|]. subst y. reflexivity.
Qed.

Lemma unesc_RRB w : esc_safe w = true -> replace t_RRB [cRP] (repl1 cRP t_RRB w) = w.
Proof.
  unfold replace. induction w as [|c w IH]; intros Hs; [reflexivity|].
  cbn [esc_safe] in Hs. apply andb_true_iff in Hs as [Hb Hs]. apply negb_true_iff in Hb. specialize (IH Hs).
  change (repl1 cRP t_RRB (c :: w)) with ((if N.eqb c cRP then t_RRB else [c]) ++ repl1 cRP t_RRB w).
  destruct (N.eqb c cRP) eqn:E2.
  - apply N.eqb_eq in E2; subst c. rewrite (replace_go_match t_RRB [cRP] 45 [82; 82; 66; 45]) by reflexivity. now rewrite IH.
  - cbn [app].
    assert (Hn : prefixb t_RRB (c :: repl1 cRP t_RRB w) = false).
    { change (prefixb t_RRB (c :: repl1 cRP t_RRB w)) with (N.eqb 45 c && prefixb [82; 82; 66; 45] (repl1 cRP t_RRB w)).
      destruct (N.eqb 45 c) eqn:E3; [|reflexivity].
      apply N.eqb_eq in E3; subst c. cbn [andb].
      destruct (prefixb [82; 82; 66; 45] (repl1 cRP t_RRB w)) eqn:E; [|reflexivity].
      apply prefix_RRB_escR in E as (y & tl & -> & Hy). cbn in Hb. rewrite Hy in Hb. discriminate. }
    rewrite replace_go_nomatch by exact Hn. now rewrite IH.
Qed.

Theorem unesc_esc w : esc_safe w = true -> unesc_word (esc_word w) = w.
Proof. intros H. unfold unesc_word. rewrite (unesc_LRB w H). now apply unesc_RRB. Qed.

(* substring test, to state the witness of the collision precisely *)
Fixpoint has_sub (p t : text) : bool :=
  match t with [] => prefixb p [] | _ :: r => prefixb p t || has_sub p r end.

(* the convention is not injective even on words that contain neither spelling: "-LRB(" and "(LRB-" are both printed "-LRB-LRB-" *)
Lemma escape_collision :
  exists w, has_sub t_LRB w = false /\ has_sub t_RRB w = false /\ has cSP w = false /\ has cBS w = false /\ w <> [] /\
            unesc_word (esc_word w) <> w.
Proof. exists [45; 76; 82; 66; 40]. repeat split; try reflexivity; discriminate. Qed.
