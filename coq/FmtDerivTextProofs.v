(* C07 (stretch) - the text-level reader of FmtDerivText.v reads back what deriv_of prints: cut at newlines and blanks,
   count blanks and dashes, read the category texts, then the interval-stack reader of FmtDeriv.v (FmtDerivProofs.v). *)
From Coq Require Import List NArith ZArith Bool Arith Lia.
Import ListNotations.
Require Import Cat CatFacts CatRoundTrip Tree GenTables Fmt FmtCodec FmtDeriv FmtDerivProofs FmtDerivText.
Local Open Scope nat_scope.

(* ================= characters ================= *)
Lemma ws_sp : is_ws cSP = true. Proof. reflexivity. Qed.
Lemma ws_nl : is_ws cNL = true. Proof. reflexivity. Qed.

Lemma nows_has c s : is_ws c = true -> nows s -> has c s = false.
Proof.
  intros Hc. unfold nows, nowsb, has. induction s as [|x s IH]; intros H; [reflexivity|].
  cbn [forallb existsb] in *. apply andb_true_iff in H as [Hx Hs]. rewrite (IH Hs), orb_false_r.
  destruct (N.eqb_spec c x) as [->|]; [|reflexivity]. rewrite Hc in Hx. discriminate.
Qed.

Lemma nows_app a b : nows (a ++ b) -> nows a /\ nows b.
Proof. unfold nows, nowsb. rewrite forallb_app. apply andb_true_iff. Qed.

Lemma has_repeat c x n : N.eqb c x = false -> has c (repeat x n) = false.
Proof. intros H. unfold has. induction n as [|n IH]; [reflexivity|]. cbn [repeat existsb]. now rewrite H, IH. Qed.

Lemma has_rev c s : has c (rev s) = has c s.
Proof.
  induction s as [|x s IH]; [reflexivity|]. cbn [rev]. rewrite has_app, IH. unfold has. cbn [existsb]. rewrite orb_false_r. apply orb_comm.
Qed.

Lemma has_nostart c s : has c s = false -> nostart c s.
Proof.
  destruct s as [|x s]; intros H; [exact I|]. cbn [nostart]. unfold has in H. cbn [existsb] in H.
  apply orb_false_iff in H as [H _]. apply N.eqb_neq in H. congruence.
Qed.

Lemma rev_repeat {A} (x : A) n : rev (repeat x n) = repeat x n.
Proof.
  induction n as [|n IH]; [reflexivity|]. cbn [repeat rev]. rewrite IH. clear IH.
  induction n as [|n IH]; [reflexivity|]. cbn [repeat app]. now rewrite IH.
Qed.

(* ================= str.rstrip() ================= *)
Lemma lstrip_spaces n s : lstrip_ws (spaces n ++ s) = lstrip_ws s.
Proof.
  induction n as [|n IH]; [reflexivity|]. unfold spaces in *. cbn [repeat app lstrip_ws].
  change (existsb (N.eqb cSP) py_space) with (is_ws cSP). now rewrite ws_sp.
Qed.

Lemma lstrip_keep x r : is_ws x = false -> lstrip_ws (x :: r) = x :: r.
Proof. intros H. cbn [lstrip_ws]. change (existsb (N.eqb x) py_space) with (is_ws x). now rewrite H. Qed.

Lemma lstrip_app u v : lstrip_ws u <> [] -> lstrip_ws (u ++ v) = lstrip_ws u ++ v.
Proof.
  induction u as [|x u IH]; intros H; [cbn [lstrip_ws] in H; congruence|].
  cbn [lstrip_ws app] in *. destruct (existsb (N.eqb x) py_space); [now apply IH | reflexivity].
Qed.

Lemma rstrip_app a b : rstrip_ws b <> [] -> rstrip_ws (a ++ b) = a ++ rstrip_ws b.
Proof.
  unfold rstrip_ws. intros H. rewrite rev_app_distr, lstrip_app.
  - now rewrite rev_app_distr, rev_involutive.
  - intros E. rewrite E in H. cbn [rev] in H. congruence.
Qed.

(* a line that ends with a non-empty piece without white space, then blanks: exactly the blanks are removed *)
Lemma rstrip_blanks s n : s <> [] -> nows s -> rstrip_ws (s ++ spaces n) = s.
Proof.
  intros Hs Hn. destruct (exists_last Hs) as (s' & y & ->). apply nows_app in Hn as [_ Hy].
  unfold nows, nowsb in Hy. cbn [forallb] in Hy. rewrite andb_true_r in Hy. apply negb_true_iff in Hy.
  unfold rstrip_ws. rewrite rev_app_distr. unfold spaces at 1. rewrite rev_repeat. fold (spaces n). rewrite lstrip_spaces.
  rewrite rev_app_distr. cbn [rev app]. rewrite (lstrip_keep y _ Hy). cbn [rev]. now rewrite rev_involutive.
Qed.

Lemma rstrip_tail a s n : s <> [] -> nows s -> rstrip_ws (a ++ s ++ spaces n) = a ++ s.
Proof.
  intros Hs Hn. rewrite rstrip_app; rewrite (rstrip_blanks s n Hs Hn); [reflexivity | exact Hs].
Qed.

(* ================= cutting a line at blanks ================= *)
Lemma fields_sp r : fields (cSP :: r) = fields r.
Proof. unfold fields. cbn [split_on]. rewrite N.eqb_refl. reflexivity. Qed.

Lemma fields_spaces n r : fields (spaces n ++ r) = fields r.
Proof. induction n as [|n IH]; [reflexivity|]. unfold spaces in *. cbn [repeat app]. now rewrite fields_sp. Qed.

Lemma fields_word s r : s <> [] -> has cSP s = false -> fields (s ++ cSP :: r) = s :: fields r.
Proof.
  intros Hs Hb. unfold fields. rewrite (split_on_app cSP s r [] Hb). cbn [rev app filter].
  destruct s as [|x s]; [congruence | reflexivity].
Qed.

Lemma fields_last s : s <> [] -> has cSP s = false -> fields s = [s].
Proof.
  intros Hs Hb. unfold fields. rewrite (split_on_nochar cSP s [] Hb). cbn [rev app filter].
  destruct s as [|x s]; [congruence | reflexivity].
Qed.

(* ================= the two top lines ================= *)
Lemma center_shape w s : length s < w -> exists a b, center w s = spaces a ++ s ++ spaces (S b).
Proof.
  intros H. unfold center. set (d := w - length s). assert (Hd : 1 <= d) by (unfold d; lia).
  destruct (d / 2 + d mod 2) as [|b] eqn:E.
  - exfalso. pose proof (Nat.div_mod d 2 ltac:(lia)) as D. lia.
  - exists (d / 2), b. reflexivity.
Qed.

Definition good (s : text) : Prop := s <> [] /\ nows s.
(* catstr.rstrip() / wordstr.rstrip() for the cell texts f *)
Definition cline (f : cell -> text) (cs : list cell) : text :=
  rstrip_ws (concat (map (fun x => center (cell_width x) (f x)) cs)).

Lemma line_fields (f : cell -> text) cs : cs <> [] -> Forall (fun x => good (f x) /\ length (f x) < cell_width x) cs ->
  cline f cs <> [] /\ fields (cline f cs) = map f cs /\ has cNL (cline f cs) = false.
Proof.
  intros Hne H. unfold cline. induction H as [|x r [[Hs Hn] Hw] Hr IH]; [congruence|]. clear Hne.
  pose proof (nows_has cSP _ ws_sp Hn) as Nb. pose proof (nows_has cNL _ ws_nl Hn) as Nl.
  destruct (center_shape _ _ Hw) as (a & b & Ec).
  destruct r as [|y r'] eqn:Er.
  - cbn [map concat]. rewrite app_nil_r, Ec, (rstrip_tail _ _ _ Hs Hn). split; [|split].
    + intros E. apply app_eq_nil in E as [_ E]. contradiction.
    + rewrite fields_spaces. now apply fields_last.
    + rewrite has_app, Nl. unfold spaces. now rewrite has_repeat.
  - rewrite <- Er in *. assert (Hr0 : r <> []) by (rewrite Er; discriminate). clear Er.
    destruct (IH Hr0) as (N0 & F0 & L0). clear IH.
    cbn [map concat]. rewrite (rstrip_app _ _ N0), Ec.
    set (R := rstrip_ws (concat (map (fun x0 : cell => center (cell_width x0) (f x0)) r))) in *.
    split; [|split].
    + intros E. apply app_eq_nil in E as [E _]. apply app_eq_nil in E as [_ E]. apply app_eq_nil in E as [E _]. contradiction.
    + rewrite <- !app_assoc. rewrite fields_spaces. change (spaces (S b)) with (cSP :: spaces b). cbn [app].
      rewrite (fields_word _ _ Hs Nb), fields_spaces, F0. reflexivity.
    + rewrite !has_app, Nl, L0. unfold spaces. now rewrite !has_repeat.
Qed.

Lemma read_cells_show cs : Forall (fun x : cell => wfc (fst x)) cs -> read_cells (map (fun x : cell => show (fst x)) cs) (@map cell text snd cs) = Some cs.
Proof.
  intros H. induction H as [|[c w] r Hc _ IH]; [reflexivity|]. cbn [map read_cells fst snd] in *. now rewrite (parse_cat_show c Hc), IH.
Qed.

(* ================= the node lines ================= *)
Lemma span_repeat c n r : nostart c r -> span_eq c (repeat c n ++ r) = (n, r).
Proof.
  intros H. induction n as [|n IH].
  - cbn [repeat app]. destruct r as [|x r]; [reflexivity|]. cbn [span_eq nostart] in *. apply N.eqb_neq in H. now rewrite H.
  - cbn [repeat app span_eq]. now rewrite N.eqb_refl, IH.
Qed.

Lemma strip_sp_pad p s : has cSP s = false -> strip_sp (spaces p ++ s) = s.
Proof.
  intros H. unfold strip_sp, spaces. rewrite (span_repeat cSP p s (has_nostart _ _ H)). cbn [snd].
  assert (Hr : nostart cSP (rev s)) by (apply has_nostart; now rewrite has_rev).
  pose proof (span_repeat cSP 0 (rev s) Hr) as S0. cbn [repeat app] in S0. rewrite S0. cbn [snd]. apply rev_involutive.
Qed.

Lemma show_nonempty c : wfc c -> show c <> [].
Proof. intros H E. pose proof (parse_cat_show c H) as P. rewrite E in P. vm_compute in P. discriminate. Qed.

Definition dash_line (d : dline) : text := match d with DNode lo hi sym _ => spaces lo ++ dashes (hi - lo) ++ sym end.
Definition cat_line (d : dline) : text :=
  match d with
  | DNode lo hi _ c => spaces (Z.to_nat (Z.div (Z.of_nat hi - Z.of_nat lo - Z.of_nat (length (show c))) 2 + Z.of_nat lo)) ++ show c
  end.
Definition node_lines (d : dline) : list text := [dash_line d; cat_line d].
Definition dline_ok (d : dline) : Prop :=
  match d with DNode lo hi sym c => wfc c /\ has cNL (show c) = false /\ sym_ok sym /\ lo < hi end.
Definition nonl (l : text) : Prop := has cNL l = false.

Lemma render_node_lines d : render_node d = dash_line d ++ [cNL] ++ cat_line d ++ [cNL].
Proof. destruct d as [lo hi sym c]. cbn [render_node dash_line cat_line]. now rewrite <- !app_assoc. Qed.

Lemma read_dash_line lo hi sym c : sym_ok sym -> lo < hi -> read_dash (dash_line (DNode lo hi sym c)) = Some (lo, hi, sym).
Proof.
  intros [_ Hs] Hlt. unfold read_dash, dash_line. destruct (hi - lo) as [|k] eqn:Ek; [lia|].
  unfold spaces. rewrite (span_repeat cSP lo (dashes (S k) ++ sym)) by (cbn; discriminate).
  unfold dashes. change 45%N with cDASH. rewrite (span_repeat cDASH (S k) sym Hs). f_equal. f_equal. f_equal. lia.
Qed.

Lemma read_cat_line lo hi sym c : wfc c -> read_catline (cat_line (DNode lo hi sym c)) = Some c.
Proof.
  intros Hc. pose proof (noblank_show c Hc) as Nb. unfold noblank in Nb. unfold read_catline, cat_line.
  rewrite (strip_sp_pad _ _ Nb). cbv zeta. pose proof (show_nonempty c Hc) as Ne.
  assert (G : forall s : text, s <> [] -> has cSP s = false ->
              match s with [] => None | _ :: _ => if has cSP s then None else parse_cat s end = parse_cat s).
  { intros s Hs Hb. destruct s as [|x s]; [congruence|]. now rewrite Hb. }
  rewrite (G _ Ne Nb). now apply parse_cat_show.
Qed.

Lemma nonl_node_lines d : dline_ok d -> Forall nonl (node_lines d).
Proof.
  destruct d as [lo hi sym c]. intros (_ & Nc & [Ns _] & _). unfold node_lines, nonl, dash_line, cat_line, spaces, dashes.
  repeat constructor; rewrite !has_app, !has_repeat by reflexivity; [exact Ns | exact Nc].
Qed.

Lemma read_nodes_lines lines : Forall dline_ok lines ->
  read_nodes (flat_map node_lines lines) = Some lines /\ Forall nonl (flat_map node_lines lines).
Proof.
  intros H. induction H as [|d r Hd _ [IH1 IH2]]; [split; [reflexivity | constructor]|].
  split.
  - destruct d as [lo hi sym c]. pose proof Hd as (Hc & _ & Hs & Hlt).
    cbn [flat_map node_lines app read_nodes]. now rewrite (read_dash_line _ _ _ _ Hs Hlt), (read_cat_line _ _ _ _ Hc), IH1.
  - cbn [flat_map]. apply Forall_app. split; [now apply nonl_node_lines | exact IH2].
Qed.

Lemma concat_node_lines lines :
  concat (map (fun l => l ++ [cNL]) (flat_map node_lines lines)) = concat (map render_node lines).
Proof.
  induction lines as [|d r IH]; [reflexivity|]. cbn [flat_map node_lines app map concat]. rewrite IH, render_node_lines.
  now rewrite <- !app_assoc.
Qed.

(* ================= cutting the text at newlines ================= *)
Lemma split_lines c ls : Forall (fun l => has c l = false) ls -> split_on c (concat (map (fun l => l ++ [c]) ls)) [] = ls ++ [[]].
Proof.
  intros H. induction H as [|l r Hl _ IH]; [reflexivity|]. cbn [map concat]. rewrite <- app_assoc. cbn [app].
  rewrite (split_on_app c l _ [] Hl), IH. reflexivity.
Qed.

Lemma drop_last_empty_app ls : drop_last_empty (ls ++ [[]]) = Some ls.
Proof.
  induction ls as [|x r IH]; [reflexivity|]. cbn [app drop_last_empty].
  destruct (r ++ [[]]) as [|y r'] eqn:E; [destruct r; discriminate|]. now rewrite IH.
Qed.

(* ================= from the tree to the cells and lines ================= *)
Definition cell_ok (x : cell) : Prop := wfc (fst x) /\ good (show (fst x)) /\ good (snd x).

Lemma cells_ok t : cats_wf t -> deriv_text_ok t -> forall cs, leaf_cells t = Some cs -> Forall cell_ok cs.
Proof.
  induction t as [c tok o y | c o y t1 IH | c o y hl l IHl r IHr]; intros Hc Ht cs E; cbn [cats_wf deriv_text_ok leaf_cells] in *.
  - destruct (leaf_word tok) as [w|]; [|discriminate]. inversion E; subst cs. destruct Ht as (Hw & Nw & Nc).
    constructor; [|constructor]. unfold cell_ok, good. cbn [fst snd]. repeat split; try assumption. now apply show_nonempty.
  - destruct Hc as [_ H1]. destruct Ht as (_ & _ & T1). now apply IH.
  - destruct Hc as (_ & H1 & H2). destruct Ht as (_ & _ & T1 & T2).
    destruct (leaf_cells l) as [a|]; [|discriminate]. destruct (leaf_cells r) as [b|]; [|discriminate]. inversion E; subst cs.
    apply Forall_app. split; [now apply IHl | now apply IHr].
Qed.

Lemma leaf_cells_nonempty t cs : leaf_cells t = Some cs -> cs <> [].
Proof.
  revert cs. induction t as [c tok o y | c o y t1 IH | c o y hl l IHl r IHr]; intros cs E; cbn [leaf_cells] in E.
  - destruct (leaf_word tok); [|discriminate]. inversion E. discriminate.
  - now apply IH.
  - destruct (leaf_cells l) as [a|]; [|discriminate]. destruct (leaf_cells r) as [b|]; [|discriminate]. inversion E; subst cs.
    intros N. apply app_eq_nil in N as [N _]. now apply (IHl a eq_refl).
Qed.

Lemma post_ok t : cats_wf t -> deriv_text_ok t -> forall cs, leaf_cells t = Some cs -> forall lw, Forall dline_ok (post t lw).
Proof.
  induction t as [c tok o y | c o y t1 IH | c o y hl l IHl r IHr]; intros Hc Ht cs E lw; cbn [cats_wf deriv_text_ok leaf_cells post] in *.
  - constructor.
  - destruct Hc as [Hc H1]. destruct Ht as (Nc & Hs & T1). pose proof (tw_pos t1 cs E) as W.
    apply Forall_app. split; [now apply (IH H1 T1 cs) |]. constructor; [|constructor]. cbn [dline_ok]. repeat split; try assumption; try apply Hs. lia.
  - destruct Hc as (Hc & H1 & H2). destruct Ht as (Nc & Hs & T1 & T2).
    destruct (leaf_cells l) as [a|] eqn:Ea; [|discriminate]. destruct (leaf_cells r) as [b|] eqn:Eb; [|discriminate].
    pose proof (tw_pos l a Ea) as Wl.
    apply Forall_app. split; [now apply (IHl H1 T1 a) |]. apply Forall_app. split; [now apply (IHr H2 T2 b) |].
    constructor; [|constructor]. cbn [dline_ok]. repeat split; try assumption; try apply Hs. lia.
Qed.

(* ================= the text-level reader extracts exactly the cells and the node lines ================= *)
Theorem deriv_text_lines t cs txt : cats_wf t -> deriv_text_ok t -> leaf_cells t = Some cs -> print_deriv t = Some txt ->
  deriv_text_struct txt = Some (cs, post t 0).
Proof.
  intros Hc Ht Ec E. unfold print_deriv, deriv_struct in E. rewrite Ec, (deriv_rec_post t cs Ec 0) in E.
  pose proof (cells_ok t Hc Ht cs Ec) as Ck. pose proof (leaf_cells_nonempty t cs Ec) as Cne.
  assert (K1 : Forall (fun x : cell => good (show (fst x)) /\ length (show (fst x)) < cell_width x) cs).
  { eapply Forall_impl; [|exact Ck]. intros x (_ & G & _). split; [exact G | unfold cell_width; lia]. }
  assert (K2 : Forall (fun x : cell => good (snd x) /\ length (snd x) < cell_width x) cs).
  { eapply Forall_impl; [|exact Ck]. intros x (_ & _ & G). split; [exact G | unfold cell_width; lia]. }
  assert (K3 : Forall (fun x : cell => wfc (fst x)) cs) by (eapply Forall_impl; [|exact Ck]; intros x Hx; apply Hx).
  destruct (line_fields (fun x => show (fst x)) cs Cne K1) as (_ & F1 & N1).
  destruct (line_fields snd cs Cne K2) as (_ & F2 & N2).
  destruct (read_nodes_lines (post t 0) (post_ok t Hc Ht cs Ec 0)) as (Rn & Nn).
  unfold cline in *.
  set (L1 := rstrip_ws (concat (map (fun x : cell => center (cell_width x) (show (fst x))) cs))) in *.
  set (L2 := rstrip_ws (concat (map (fun x : cell => center (cell_width x) (snd x)) cs))) in *.
  assert (Etxt : txt = concat (map (fun l => l ++ [cNL]) (L1 :: L2 :: flat_map node_lines (post t 0)))).
  { inversion E as [Ex]. cbn [map concat]. rewrite concat_node_lines. now rewrite <- !app_assoc. }
  unfold deriv_text_struct, text_lines. rewrite Etxt, split_lines by (repeat constructor; assumption).
  rewrite drop_last_empty_app, F1, F2, (read_cells_show cs K3), Rn.
  destruct cs as [|x cs']; [congruence | reflexivity].
Qed.

(* ================= the round trip at the level of the raw text ================= *)
Theorem deriv_text_roundtrip t txt : cats_wf t -> deriv_text_ok t -> print_deriv t = Some txt ->
  dec_deriv_text txt = view_deriv t /\ view_deriv t <> None.
Proof.
  intros Hc Ht E. destruct (leaf_cells t) as [cs|] eqn:Ec; [|unfold print_deriv, deriv_struct in E; rewrite Ec in E; discriminate].
  destruct (deriv_roundtrip t cs Ec) as (lines & v & Es & Ev & Ed).
  unfold deriv_struct in Es. rewrite Ec, (deriv_rec_post t cs Ec 0) in Es. inversion Es; subst lines.
  unfold dec_deriv_text. rewrite (deriv_text_lines t cs txt Hc Ht Ec E), Ed, Ev. split; [reflexivity | discriminate].
Qed.

(* ================= the boolean side condition ================= *)
Lemma nostartb_ok c s : nostartb c s = true -> nostart c s.
Proof. destruct s as [|x s]; cbn [nostartb nostart]; [trivial|]. intros H. apply negb_true_iff, N.eqb_neq in H. exact H. Qed.

Lemma sym_okb_ok s : sym_okb s = true -> sym_ok s.
Proof. unfold sym_okb, sym_ok. intros H. apply andb_true_iff in H as [H1 H2]. apply negb_true_iff in H1. split; [exact H1 | now apply nostartb_ok]. Qed.

Lemma deriv_text_okb_ok t : deriv_text_okb t = true -> deriv_text_ok t.
Proof.
  induction t as [c tok o y | c o y t1 IH | c o y hl l IHl r IHr]; cbn [deriv_text_okb deriv_text_ok]; intros H.
  - destruct (leaf_word tok) as [w|]; [|exact I]. apply andb_true_iff in H as [H H3]. apply andb_true_iff in H as [H1 H2].
    split; [destruct w; [discriminate | discriminate] | split; assumption].
  - apply andb_true_iff in H as [H H3]. apply andb_true_iff in H as [H1 H2]. apply negb_true_iff in H1.
    split; [exact H1 | split; [now apply sym_okb_ok | now apply IH]].
  - apply andb_true_iff in H as [H H4]. apply andb_true_iff in H as [H H3]. apply andb_true_iff in H as [H1 H2]. apply negb_true_iff in H1.
    split; [exact H1 | split; [now apply sym_okb_ok | split; [now apply IHl | now apply IHr]]].
Qed.

Corollary deriv_text_roundtrip_b t txt : cats_wfb t = true -> deriv_text_okb t = true -> print_deriv t = Some txt ->
  dec_deriv_text txt = view_deriv t /\ view_deriv t <> None.
Proof. intros Hc Ht. apply deriv_text_roundtrip; [now apply cats_wfb_ok | now apply deriv_text_okb_ok]. Qed.

(* the reverse direction of the boolean version: the side condition is decided exactly *)
Lemma nostart_b c s : nostart c s -> nostartb c s = true.
Proof. destruct s as [|x s]; cbn [nostartb nostart]; [trivial|]. intros H. apply negb_true_iff, N.eqb_neq. exact H. Qed.

Lemma deriv_text_ok_b t : deriv_text_ok t -> deriv_text_okb t = true.
Proof.
  induction t as [c tok o y | c o y t1 IH | c o y hl l IHl r IHr]; cbn [deriv_text_okb deriv_text_ok]; intros H.
  - destruct (leaf_word tok) as [w|]; [|reflexivity]. destruct H as (H1 & H2 & H3). unfold nows in *. rewrite H2, H3.
    destruct w; [congruence | reflexivity].
  - destruct H as (H1 & [H2 H3] & H4). unfold sym_okb. now rewrite H1, H2, (nostart_b _ _ H3), (IH H4).
  - destruct H as (H1 & [H2 H3] & H4 & H5). unfold sym_okb. now rewrite H1, H2, (nostart_b _ _ H3), (IHl H4), (IHr H5).
Qed.

(* ================= non-vacuity: a unary step, two binary steps, a word made of dashes, a node category with a tab ================= *)
Section Example.
Open Scope N_scope.
Let c_np : cat := Atom [78;80] FNone.
Let c_s : cat := Atom [83] (FUn [100;99;108]).
Let c_vp : cat := Fun c_s [cBS] c_np.
Let c_tab : cat := Atom [83;9;120] FNone.                 (* a base name with U+0009: allowed on an inner node *)
Let tk (w : text) : token := [(k_word, w); (k_pos, [78;78])].
Definition ex_text_tree : tree :=
  Bin c_tab [98;97] [60] false
      (Un c_np [108;101;120] s_unsym (Leaf (Atom [78] FNone) (tk [45;45;45]) s_lex s_lexsym))
      (Bin c_vp [102;97] [62;66;120;49] true (Leaf (Fun c_vp [cSL] c_np) [(k_word, [97;60;98])] s_lex s_lexsym) (Leaf c_np (tk [100;111;103]) s_lex s_lexsym)).
Close Scope N_scope.

Example ex_text_dom : cats_wfb ex_text_tree = true /\ deriv_text_okb ex_text_tree = true.
Proof. vm_compute. split; reflexivity. Qed.
Example ex_text_struct : option_map deriv_text_struct (print_deriv ex_text_tree) = Some (deriv_struct ex_text_tree) /\ deriv_struct ex_text_tree <> None.
Proof. vm_compute. split; [reflexivity | discriminate]. Qed.
Example ex_text_roundtrip : option_map dec_deriv_text (print_deriv ex_text_tree) = Some (view_deriv ex_text_tree) /\ view_deriv ex_text_tree <> None.
Proof. vm_compute. split; [reflexivity | discriminate]. Qed.
(* outside the domain the reader may fail: a word with a blank is cut in two *)
Example ex_text_blank_word :
  let t := Leaf (Atom [78%N] FNone) [(k_word, [97; 32; 98]%N)] s_lex s_lexsym in
  deriv_text_okb t = false /\ option_map dec_deriv_text (print_deriv t) = Some None /\ view_deriv t <> None.
Proof. vm_compute. repeat split; discriminate. Qed.
End Example.

