(* Spike: model of the A* search of depccg/parsing.h, with the outside estimate as a parameter
   sign so that both the code as it is ("-") and the repaired code ("+") are instances. *)
From Coq Require Import List ZArith Lia Bool Arith.
Import ListNotations.
Open Scope Z_scope.

Section AStar.
Context {C : Type}.
Variable ceqb : C -> C -> bool.
Hypothesis ceqb_eq : forall a b, ceqb a b = true <-> a = b.

Variable n : nat.                       (* sentence length *)
Variable tag : nat -> C -> Z.           (* tag score of token i for category c *)
Variable dep : nat -> nat -> Z.         (* dep child col ; col 0 = root, col h+1 = token h *)
Variable adm : nat -> list C.           (* beam-admitted categories of token i *)
Variable besttag bestdep : nat -> Z.    (* row maxima *)
Variable bin : C -> C -> list (C * bool).   (* result category, head_is_left *)
Variable un : C -> list C.
Variable isroot : C -> bool.
Variable pen : Z.
Variable dedup : bool.                  (* true in 1-best mode *)
Variable plus : bool.                   (* sign of the head term in the binary outside estimate *)

Inductive deriv :=
| DLeaf (i : nat) (c : C)
| DUn (k : nat) (c : C) (d : deriv)
| DBin (k : nat) (c : C) (hl : bool) (l r : deriv).

Fixpoint dcat d := match d with DLeaf _ c => c | DUn _ c _ => c | DBin _ c _ _ _ => c end.
Fixpoint dstart d : nat := match d with DLeaf i _ => i | DUn _ _ d => dstart d | DBin _ _ _ l _ => dstart l end.
Fixpoint dlen d : nat := match d with DLeaf _ _ => 1%nat | DUn _ _ d => dlen d | DBin _ _ _ l r => (dlen l + dlen r)%nat end.
Fixpoint dhead d : nat := match d with DLeaf i _ => i | DUn _ _ d => dhead d | DBin _ _ hl l r => if hl then dhead l else dhead r end.
Definition attach (hl : bool) (l r : deriv) : Z :=
  if hl then dep (dhead r) (S (dhead l)) else dep (dhead l) (S (dhead r)).
Fixpoint dins d : Z :=
  match d with
  | DLeaf i c => tag i c
  | DUn _ _ d => dins d - pen
  | DBin _ _ hl l r => dins l + dins r + attach hl l r
  end.
Definition is_leaf d := match d with DLeaf _ _ => true | _ => false end.

Fixpoint sumf (f : nat -> Z) (s len : nat) : Z :=
  match len with O => 0 | S l => f s + sumf f (S s) l end.
(* compute_outside_probabilities: from_left[i] + from_right[j] *)
Definition outside (f : nat -> Z) (s e : nat) : Z := sumf f 0 s + sumf f e (n - e).

Definition out_score (d : deriv) : Z :=
  let s := dstart d in let e := (dstart d + dlen d)%nat in
  match d with
  | DLeaf i _ => outside besttag i (S i) + sumf bestdep 0 n
  | _ => outside besttag s e + outside bestdep s e + (if plus then bestdep (dhead d) else - bestdep (dhead d))
  end.
(* note: a unary item inherits its child's out_score in the C++; for a unary over a leaf that is the leaf
   formula.  Both coincide when plus = true; the faithful model keeps the inherited value: *)
Fixpoint out_inh (d : deriv) : Z :=
  match d with
  | DUn _ _ d' => out_inh d'
  | _ => out_score d
  end.

Record item := { ifin : bool; ider : deriv }.
Definition prio (a : item) : Z :=
  if ifin a then dins (ider a) + dep (dhead (ider a)) 0 else dins (ider a) + out_inh (ider a).

Definition key_eqb (a b : deriv) : bool :=
  (dstart a =? dstart b)%nat && (dlen a =? dlen b)%nat && ceqb (dcat a) (dcat b).

Definition enum {A} (l : list A) : list (nat * A) := combine (seq 0 (length l)) l.

Definition push_fin (d : deriv) : list item :=
  if (dlen d =? n)%nat && isroot (dcat d) then [{| ifin := true; ider := d |}] else [].
Definition push_un (d : deriv) : list item :=
  if (n =? 1)%nat || negb (dlen d =? n)%nat
  then map (fun kc => {| ifin := false; ider := DUn (fst kc) (snd kc) d |}) (enum (un (dcat d))) else [].
Definition push_right (d : deriv) (ch : list deriv) : list item :=
  flat_map (fun o => if (dstart o =? dstart d + dlen d)%nat
    then map (fun kr => {| ifin := false; ider := DBin (fst kr) (fst (snd kr)) (snd (snd kr)) d o |}) (enum (bin (dcat d) (dcat o)))
    else []) ch.
Definition push_left (d : deriv) (ch : list deriv) : list item :=
  flat_map (fun o => if (dstart o + dlen o =? dstart d)%nat
    then map (fun kr => {| ifin := false; ider := DBin (fst kr) (fst (snd kr)) (snd (snd kr)) o d |}) (enum (bin (dcat o) (dcat d)))
    else []) ch.
Definition pushes (d : deriv) (ch : list deriv) : list item :=
  push_fin d ++ push_un d ++ push_right d ch ++ push_left d ch.

Record state := { agenda : list item; chart : list deriv; goal : list deriv; nsteps : nat }.

Definition init : state :=
  {| agenda := flat_map (fun i => map (fun c => {| ifin := false; ider := DLeaf i c |}) (adm i)) (seq 0 n);
     chart := []; goal := []; nsteps := 0 |}.

Variable remove_one : item -> list item -> list item.
Hypothesis remove_one_sub : forall a l x, In x (remove_one a l) -> In x l.
Hypothesis remove_one_keep : forall a l x, In x l -> x = a \/ In x (remove_one a l).

Definition step (a : item) (st : state) : state :=
  let ag := remove_one a (agenda st) in
  if ifin a then {| agenda := ag; chart := chart st; goal := goal st ++ [ider a]; nsteps := S (nsteps st) |}
  else if dedup && existsb (key_eqb (ider a)) (chart st)
  then {| agenda := ag; chart := chart st; goal := goal st; nsteps := S (nsteps st) |}
  else {| agenda := pushes (ider a) (chart st) ++ ag; chart := ider a :: chart st; goal := goal st; nsteps := S (nsteps st) |}.

Definition valid_pop (a : item) (st : state) : Prop :=
  In a (agenda st) /\ forall b, In b (agenda st) -> prio b <= prio a.

Variable max_step nbest : nat.
Definition running (st : state) : Prop :=
  (nsteps st < max_step)%nat /\ (length (goal st) < nbest)%nat /\ agenda st <> [].

Inductive reach : state -> Prop :=
| reach_init : reach init
| reach_step st a : reach st -> running st -> valid_pop a st -> reach (step a st).

(* licensed derivations *)
Inductive licensed : deriv -> Prop :=
| LLeaf i c : (i < n)%nat -> In c (adm i) -> licensed (DLeaf i c)
| LUn k c d : licensed d -> nth_error (un (dcat d)) k = Some c -> (n = 1%nat \/ dlen d <> n) -> licensed (DUn k c d)
| LBin k c hl l r : licensed l -> licensed r -> dstart r = (dstart l + dlen l)%nat ->
    nth_error (bin (dcat l) (dcat r)) k = Some (c, hl) -> licensed (DBin k c hl l r).

End AStar.
