(* C04 / C14 (Japanese half) - the seen-rule gate, absence of errors, and the unary (type-changing) rules of the
   GENERATED GenJa.v: label by shape, configured targets in order. *)
From Coq Require Import List NArith Bool Lia.
Import ListNotations.
Require Import Cat CatFacts Unify GramPrims GenTables GenJa GenJaroots JaSpec JaLemmas JaSound.
Open Scope N_scope.

(* ================= the seen-rule gate ================= *)
Theorem ja_seen_filter x y S :
  apply_binary_rules x y (Some S) = if seen_mem (x, y) S then apply_binary_rules x y None else Ok_ [].
Proof.
  unfold apply_binary_rules, apply_binary, key_clear, seen_clear. rewrite !clear_features_nil. reflexivity.
Qed.
Theorem ja_binary_total x y seen : ternary x -> ternary y -> exists rs, apply_binary_rules x y seen = Ok_ rs.
Proof.
  intros Tx Ty. destruct seen as [S|]; [|now apply ja_binary_total_None].
  rewrite ja_seen_filter. destruct (seen_mem (x, y) S); [now apply ja_binary_total_None | eauto].
Qed.
Lemma seen_mem_In k S : seen_mem k S = true <-> In k S.
Proof.
  unfold seen_mem. rewrite existsb_exists. destruct k as [a b]. split.
  - intros [[a' b'] [Hin H]]. simpl in H. apply andb_true_iff in H as [H1 H2]. apply cat_eqb_eq in H1, H2. now subst.
  - intros H. exists (a, b). split; [assumption|]. simpl. now rewrite !cat_eqb_refl.
Qed.

(* ================= unary labels ================= *)
Lemma arg_0 x : arg x 0 = Some (Atom (fst (result_atom x)) (snd (result_atom x))).
Proof. induction x as [b f | l IHl s r _]; simpl; [reflexivity | exact IHl]. Qed.

Lemma bool_iff (a b : bool) : (a = true <-> b = true) -> a = b.
Proof. destruct a, b; intros [H1 H2]; try reflexivity; [symmetry; now apply H1 | now apply H2]. Qed.
(* a feature-less shape: x ^ shape  is  "x stripped of its features is that shape" *)
Lemma xor_shape x sh : skeleton sh = sh -> cat_xor x sh = shape_is x sh.
Proof.
  intros Hs. apply bool_iff. unfold shape_is. rewrite xor_skeleton, cat_eqb_eq, Hs. tauto.
Qed.
Lemma pair_in_has_kv k v k1 v1 k2 v2 k3 v3 :
  pair_in k v [(k1, v1); (k2, v2); (k3, v3)] = has_kv k v (FTer k1 v1 k2 v2 k3 v3).
Proof. unfold pair_in, has_kv. simpl. now rewrite orb_false_r, orb_assoc. Qed.

Definition targets (x : cat) (t : unary_table) : list cat := match table_get x t with Some rs => rs | None => [] end.
Definition unary_result (lab : text) (c : cat) : cres := {| rcat := c; op_string := lab; op_symbol := lab; head_is_left := true |}.

Lemma mapM_ok {A B} (f : A -> res B) (g : A -> B) l : (forall a, In a l -> f a = Ok_ (g a)) -> mapM f l = Ok_ (map g l).
Proof.
  induction l as [|a l IH]; intros H; simpl; [reflexivity|].
  rewrite (H a (or_introl eq_refl)). simpl. rewrite IH by (intros; apply H; now right). reflexivity.
Qed.
(* _unary_rule_symbol is inlined into the per-result body of apply_unary_rules by the translator; the label is what that body
   puts into op_string and op_symbol *)
Theorem ja_unary_symbol x c : result_ternary x -> unary_body x c = Ok_ (unary_result (ja_unary_label x) c).
Proof.
  unfold result_ternary, unary_body, ja_unary_label, unary_result, arg_of. rewrite arg_0.
  destruct (snd (result_atom x)) as [| |k1 v1 k2 v2 k3 v3]; try contradiction. intros _.
  cbn [feature_of bind feature_items]. rewrite !pair_in_has_kv.
  change lit_24 with sh_S. change lit_25 with sh_S_NP. change lit_26 with sh_S_NP_NP.
  rewrite !xor_shape by reflexivity.
  unfold t_mod, t_adn, t_adv.
  destruct (has_kv [109;111;100] [97;100;110] _); [destruct (shape_is x sh_S); reflexivity|].
  destruct (has_kv [109;111;100] [97;100;118] _); [|reflexivity].
  destruct (shape_is x sh_S_NP); [reflexivity|]. destruct (shape_is x sh_S_NP_NP); reflexivity.
Qed.
(* outside the domain: the result atom carries a unary feature (or none) - AttributeError *)
Theorem ja_unary_symbol_domain x c : ~ result_ternary x -> unary_body x c = Err AttrErr.
Proof.
  unfold result_ternary, unary_body, arg_of. rewrite arg_0.
  destruct (snd (result_atom x)); [reflexivity | reflexivity | intros H; elim H; exact I].
Qed.

Lemma unary_body_ok x c : result_ternary x -> unary_body x c = Ok_ (unary_result (ja_unary_label x) c).
Proof. exact (ja_unary_symbol x c). Qed.
Lemma unary_body_err x c : ~ result_ternary x -> unary_body x c = Err AttrErr.
Proof. exact (ja_unary_symbol_domain x c). Qed.

Theorem ja_unary_rules x t : result_ternary x ->
  apply_unary_rules x t = Ok_ (map (unary_result (ja_unary_label x)) (targets x t)).
Proof.
  intros H. unfold apply_unary_rules, apply_unary, targets. destruct (table_get x t) as [rs|]; [|reflexivity].
  apply mapM_ok. intros c _. now apply unary_body_ok.
Qed.
Theorem ja_unary_rules_domain x t c rest : ~ result_ternary x -> table_get x t = Some (c :: rest) -> apply_unary_rules x t = Err AttrErr.
Proof.
  intros H Ht. unfold apply_unary_rules, apply_unary. rewrite Ht. simpl. now rewrite (unary_body_err x c H).
Qed.
Lemma result_ternary_dec x : {result_ternary x} + {~ result_ternary x}.
Proof. unfold result_ternary. destruct (snd (result_atom x)); [right; tauto | right; tauto | left; exact I]. Qed.
(* whenever the call returns, it returns exactly the configured targets, in order *)
Theorem ja_unary_exact x t rs : apply_unary_rules x t = Ok_ rs -> map rcat rs = targets x t.
Proof.
  destruct (result_ternary_dec x) as [H|H].
  - rewrite (ja_unary_rules x t H). intros E. inversion E. rewrite map_map. simpl. apply map_id.
  - unfold targets. destruct (table_get x t) as [[|c rest]|] eqn:Et.
    + unfold apply_unary_rules, apply_unary. rewrite Et. simpl. intros E. inversion E. reflexivity.
    + rewrite (ja_unary_rules_domain x t c rest H Et). discriminate.
    + unfold apply_unary_rules, apply_unary. rewrite Et. intros E. inversion E. reflexivity.
Qed.
Theorem ja_unary_none x t : table_get x t = None -> apply_unary_rules x t = Ok_ [].
Proof. intros H. unfold apply_unary_rules, apply_unary. now rewrite H. Qed.
Theorem ja_unary_total x t : result_ternary x -> exists rs, apply_unary_rules x t = Ok_ rs.
Proof. intros H. rewrite (ja_unary_rules x t H). eauto. Qed.
