(* C07 - Every output format encodes the same derivation.  Property theorems only (lemmas: FmtProofs.v, FmtCodec.v, FmtDerivProofs.v,
   FmtDerivTextProofs.v, FmtPrologProofs.v, FmtHtmlProofs.v; models: Fmt.v, FmtDeriv.v, FmtDerivText.v, FmtProlog.v, FmtHtml.v).
   The readers of auto / ptb / ja / xml / jigg_xml are covered by P_C08, P_C20, P_C15.
   deriv, prolog (English and Japanese) and html have text-level models and round-trip theorems below (second half of the file); what is
   still outside a theorem: the html document around the <math> elements (string comparison only), Python's str.lower beyond A-Z (prolog).
   Tables (denormalize, punctuations, cat_split) come from GenTables.v, regenerated from the source on every run. *)
From Coq Require Import List NArith Bool Arith.
From Coq Require String.
Import String.StringSyntax.
Import ListNotations.
Require Import GenData FmtDerivText FmtDerivTextProofs FmtProlog FmtPrologProofs FmtHtml FmtHtmlProofs.
Require Import Cat CatFacts Tree GenTables Fmt FmtProofs FmtCodec FmtDeriv FmtDerivProofs.

(* --- the dependency column of conll is the head assignment implied by the head flags:
   it has one entry per word, exactly one root (0) and it sits at the head word of the derivation; at every binary
   node (a subtree starting at word `off`) the head word of the non-head child is attached to the head word of the head
   child; inside every constituent every word other than its head word is attached to a word of that constituent *)
Theorem C07_conll_deps : forall t, exists ds, deps_of t = Some ds /\ length ds = nleaves t /\
  length (filter (Nat.eqb 0) ds) = 1 /\ nth_error ds (head_index t) = Some 0 /\
  (forall off c ops sym (hl : bool) l r, subtree t off (Bin c ops sym hl l r) ->
     if hl then nth_error ds (off + (nleaves l + head_index r)) = Some (S (off + head_index l))
     else nth_error ds (off + head_index l) = Some (S (off + (nleaves l + head_index r)))) /\
  (forall off s i, subtree t off s -> i < nleaves s -> i <> head_index s ->
     exists h, nth_error ds (off + i) = Some (S (off + h)) /\ h < nleaves s /\ h <> i).
Proof. exact conll_deps_all. Qed.

(* --- the rows of conll, read column by column, give the words in order (AUTO spelling), the leaf categories, the
   numbering 1..n, lemma / pos with the "_" default and the dependency column above *)
Theorem C07_conll_rows_view : forall t, has_words t ->
  exists rows ds, conll_rows t = Some rows /\ deps_of t = Some ds /\
    map r_idx rows = seq 1 (nleaves t) /\ map r_cat rows = map fst (leaves t) /\
    map (fun r => Some (r_word r)) rows = leaf_words t /\ map r_head rows = ds /\
    map r_lemma rows = map (fun ct => tok_get_default k_lemma s_us (snd ct)) (leaves t) /\
    map r_pos rows = map (fun ct => tok_get_default k_pos s_us (snd ct)) (leaves t).
Proof. exact conll_rows_view. Qed.

(* --- json: the independent reader gets back shape, categories (as values), op_string labels and every token, in order *)
Theorem C07_json_roundtrip : forall t, cats_wf t -> toks_json_ok t ->
  dec_json (enc_json t) = view_json t /\ view_json t <> None.
Proof. exact dec_json_enc. Qed.

Theorem C07_json_view_tokens : forall t v, view_json t = Some v -> vleaves v = leaves t.
Proof. exact view_json_leaves. Qed.

(* --- auto_extended, field level and line level: shape, categories, rule labels, head flags, the five token fields *)
Theorem C07_autox_roundtrip : forall t fs, cats_wf t -> autox_fields t = Some fs ->
  dec_autox_fields fs = view_autox t /\ view_autox t <> None.
Proof. exact dec_autox_fields_print. Qed.

Theorem C07_autox_roundtrip_text : forall t line, cats_wf t -> text_ok t -> print_autox t = Some line ->
  dec_autox line = view_autox t /\ view_autox t <> None.
Proof. exact dec_autox_print. Qed.

Theorem C07_autox_view_tokens : forall t v, view_autox t = Some v ->
  map (fun cx => Some (snd cx)) (vleaves v) = map (fun ct => leaf5 (snd ct)) (leaves t) /\ map fst (vleaves v) = map fst (leaves t).
Proof. exact view_autox_leaves. Qed.

(* --- deriv (stretch, partial): from the cells of the two top lines and the column extents of the dash lines, the interval-stack
   reader rebuilds shape, words, all categories and rule symbols.  Missing for full strength: reading cells and column extents
   out of the text itself (counting blanks and dashes; needs blank-free words/categories and symbols that do not start with '-');
   that step is covered by the exact-string correspondence of print_deriv and by the Python reader fmt_dec.dec_deriv *)
Theorem C07_deriv_struct_roundtrip_partial : forall t cs, leaf_cells t = Some cs ->
  exists lines v, deriv_struct t = Some (cs, lines) /\ view_deriv t = Some v /\ dec_deriv cs lines = Some v.
Proof. exact deriv_roundtrip. Qed.

Theorem C07_deriv_view_words : forall t v, view_deriv t = Some v -> Some (vleaves v) = leaf_cells t.
Proof. exact view_deriv_leaves. Qed.

(* --- whatever a format carries of the leaves, its view has the derivation's shape, categories, and the labels / head
   flags the format carries; in particular any two views have the same skeleton *)
Theorem C07_views_same_derivation : forall (L : Type) (leaf : token -> option L) k heads t v,
  project leaf k heads t = Some v ->
  project (fun _ => Some tt) k heads t = Some (vmap (fun _ => tt) v) /\ tree_skeleton t = Some (skeleton_of v).
Proof. exact views_same_derivation. Qed.

(* --- numbering: the records of a batch, in input order, are exactly the trees; the j-th tree of the s-th sentence (from 0)
   carries the numbers (s+1, j+1) and nothing else occurs; grouped form = flat form; within a sentence the tree numbers
   count up from 1 under the same sentence number *)
Theorem C07_numbering : forall (A : Type) (b : list (list A)),
  map snd (number_batch b) = concat b /\
  length (number_batch b) = list_sum (map (@length A) b) /\
  (forall k i x, In (k, i, x) (number_batch b) <->
     exists s j ts, k = S s /\ i = S j /\ nth_error b s = Some ts /\ nth_error ts j = Some x) /\
  number_batch b = concat (map (fun g => number_trees (fst g) 1 (snd g)) (number_groups 1 b)) /\
  (forall s, nth_error (number_groups 1 b) s = option_map (fun ts => (S s, ts)) (nth_error b s)) /\
  (forall k i (ts : list A), map (fun x => fst x) (number_trees k i ts) = map (fun j => (k, j)) (seq i (length ts))).
Proof. exact numbering_all. Qed.

(* ===================== text-level results added for deriv, prolog, html =====================
   (models: FmtDerivText.v, FmtProlog.v, FmtHtml.v; every printer model is compared with the real printer on exact strings by
   harness/props/c07.py, and each reader below is also run on the REAL printer's text) *)

(* --- deriv, from the raw text (supersedes C07_deriv_struct_roundtrip_partial, which is kept): the reader cuts the text into lines,
   the first two lines at blanks into category texts and words, counts the blanks and dashes of every dash line for the column extent,
   reads the rule symbol after the dashes and the category of the next line, and rebuilds shape, words, all categories and rule symbols.
   Side condition deriv_text_ok: words non-empty and free of str.isspace() characters (rstrip / the blank split would damage them), the printed
   leaf categories likewise, inner categories and rule symbols free of newlines, rule symbols not starting with '-' *)
Theorem C07_deriv_text_roundtrip : forall t txt, cats_wf t -> deriv_text_ok t -> print_deriv t = Some txt ->
  dec_deriv_text txt = view_deriv t /\ view_deriv t <> None.
Proof. exact deriv_text_roundtrip. Qed.

Theorem C07_deriv_text_lines : forall t cs txt, cats_wf t -> deriv_text_ok t -> leaf_cells t = Some cs -> print_deriv t = Some txt ->
  deriv_text_struct txt = Some (cs, post t 0).
Proof. exact deriv_text_lines. Qed.

Theorem C07_deriv_text_ok_decidable : forall t, deriv_text_okb t = true <-> deriv_text_ok t.
Proof. intros t. split; [exact (deriv_text_okb_ok t) | exact (deriv_text_ok_b t)]. Qed.

(* --- prolog, English (text level).  print_prolog_en k t is the `ccg(k, ...).` clause exactly as _prolog_string writes it.  Reading it back
   (characters -> names / parentheses / commas / slashes / quoted atoms with \' -> ', then the term) gives the sentence number as written and
   the derivation's view: its shape; every category in the Prolog spelling (plc_en: base lower-cased, `period comma colon semicolon`,
   base:feature; as a category value); at a leaf word, lemma, pos, chunk, entity (XX defaults, un-escaped); at a unary node the functor lx,
   whose second argument must be the child's category; at a binary node the functor of _op_mapping, `lx+lp` / `conj+conj` for the
   lx(c, x, lp(x, l, r)) and conj(c, x\x, conj(x\x, x, l, r)) wrappers (x must be the right child's category) and for op_string conj the
   extra argument, which must be the left part of the node's category.  Side condition pl_okb_en: the quoted fields contain no backslash
   (_escape_prolog does not escape it), category atoms are names (no blank , ' ( ) / \ | in base or feature, no colon in the base) and slashes
   are / \ |.  Labels outside _op_mapping, a missing word and op_string conj on an atomic category make the printer fail (hypothesis
   print_prolog_en k t = Some txt).  Model restriction (FmtProlog.v): str.lower() acts on A-Z only, i.e. ASCII category names *)
Theorem C07_prolog_en_roundtrip : forall k t txt, pl_okb_en t = true -> print_prolog_en k t = Some txt ->
  dec_prolog_en txt = option_map (fun v => (show_nat k, v)) (view_prolog_en t) /\ view_prolog_en t <> None.
Proof. exact prolog_en_roundtrip. Qed.

(* the printed text, seen as tokens, is the term (lexer level of the statement above) *)
Theorem C07_prolog_en_tokens : forall t, pl_okb_en t = true -> forall d s, pl_rec_en t d = Some s ->
  exists ts, en_toks t = Some ts /\ forall rest, plex (s ++ rest) (LN []) = ts ++ plex rest (LN []).
Proof. exact en_lex. Qed.

Theorem C07_prolog_en_view_leaves : forall t v, view_prolog_en t = Some v ->
  map (fun cx => Some (snd cx)) (vleaves v) = map (fun ct => leaf5_en (snd ct)) (leaves t) /\
  map fst (vleaves v) = map (fun ct => plc_en (fst ct)) (leaves t).
Proof. exact view_prolog_en_leaves. Qed.

(* same shape as every other format's view, categories mapped to their Prolog spelling *)
Theorem C07_prolog_en_view_skeleton : forall t v, view_prolog_en t = Some v ->
  exists s, tree_skeleton t = Some s /\ skeleton_of v = vmapc plc_en s.
Proof. exact view_prolog_en_skeleton. Qed.

(* --- prolog, Japanese: rule(cat, children...) with rule = _ja_combinators[op_symbol] (unary and binary nodes), categories base or
   base:case (both lower-cased; the LAST `case` entry of a three-valued feature), leaves t(cat, 'surf', 'base', 'pos', 'inflectionForm',
   'inflectionType') with surf defaulting to the word, `*` defaults, pos = the four tags joined by '/' unless all are `*` *)
Theorem C07_prolog_ja_roundtrip : forall k t txt, pl_okb_ja t = true -> print_prolog_ja k t = Some txt ->
  dec_prolog_ja txt = option_map (fun v => (show_nat k, v)) (view_prolog_ja t) /\ view_prolog_ja t <> None.
Proof. exact prolog_ja_roundtrip. Qed.

Theorem C07_prolog_ja_view_leaves : forall t v, view_prolog_ja t = Some v ->
  map (fun cx => Some (snd cx)) (vleaves v) = map (fun ct => leaf5_ja (snd ct)) (leaves t) /\
  map fst (vleaves v) = map (fun ct => plc_ja (fst ct)) (leaves t).
Proof. exact view_prolog_ja_leaves. Qed.

Theorem C07_prolog_ja_view_skeleton : forall t v, view_prolog_ja t = Some v ->
  exists s, tree_skeleton t = Some s /\ skeleton_of v = vmapc plc_ja s.
Proof. exact view_prolog_ja_skeleton. Qed.

(* --- prolog, the whole output of to_string(batch, format='prolog') (declarations, empty line, one clause per tree): after taking the
   declarations off as a fixed text the reader gets, clause after clause, the records of the batch in order - sentence number (all n-best
   trees of a sentence under its number, cf. C07_numbering) and view *)
Theorem C07_prolog_en_doc_roundtrip : forall b txt, Forall (Forall (fun t => pl_okb_en t = true)) b -> prolog_en_doc b = Some txt ->
  dec_prolog_doc dec_en txt = doc_views view_prolog_en b /\ dec_prolog_doc dec_en txt <> None.
Proof. exact prolog_en_doc_roundtrip. Qed.

Theorem C07_prolog_ja_doc_roundtrip : forall b txt, Forall (Forall (fun t => pl_okb_ja t = true)) b -> prolog_ja_doc b = Some txt ->
  dec_prolog_doc dec_ja txt = doc_views view_prolog_ja b /\ dec_prolog_doc dec_ja txt <> None.
Proof. exact prolog_ja_doc_roundtrip. Qed.

(* the rule tables of the source (GenTables.v) can be read back: every _op_mapping entry is a name followed by `(`, lp -> lx, conj / conj2 ->
   conj, no other functor is t / lx / conj / lp; every _ja_combinators entry is a name other than t *)
Theorem C07_prolog_tables_readable : en_table_ok = true /\ ja_table_ok = true.
Proof. exact (conj en_table_ok_true ja_table_ok_true). Qed.

(* --- html (MathML).  mathml_subtree t is the text _mathml_subtree writes; it is the serialisation of an element tree (mathml_nodes:
   tags, raw attribute text, un-escaped character data, the whitespace between the tags); reading that element tree - attributes and
   whitespace ignored: <mrow><mfrac> premises <mstyle>category</mstyle></mfrac><mtext>rule</mtext></mrow>, category text = the <mi>
   texts in document order, read with Category.parse - gives shape, every category (as a value), the op_string labels, the words, and
   `lex` at every leaf.  The regular expression of _mathml_cat (mathml_scan) cuts a category text into (run, [feature]) pairs that
   re-assemble to the text; html.escape is undone by a reader of its five entities.
   Side conditions: categories are category values (cats_wf) without a newline inside a feature (cats_nonl: '.' of the regular
   expression does not match U+000A - C07_html_roundtrip_newline_refuted shows the brackets are lost otherwise); for the text-level
   statement words and rule labels are non-empty (an empty one leaves no text node to parse back).  Not modelled at text level: the
   surrounding document of _MATHML_MAIN (doctype, head) - html_doc is tied to to_string by exact string comparison only. *)
Theorem C07_html_roundtrip : forall t n, cats_wf t -> cats_nonl t = true -> mathml_node t = Some n ->
  dec_mathml n = view_html t /\ view_html t <> None.
Proof. exact html_roundtrip. Qed.

Theorem C07_html_text_is_element_tree : forall t, mathml_subtree t = option_map hser_list (mathml_nodes t).
Proof. exact mathml_subtree_ser. Qed.

(* from the printed text: a tag / text parser for the subset written (no comments, no self-closing tags) gives the element tree back *)
Theorem C07_html_text_roundtrip : forall t s, cats_wf t -> cats_nonl t = true -> texts_nonempty t = true -> mathml_subtree t = Some s ->
  exists ns, hparse s = Some ns /\ dec_mathml_list ns = view_html t /\ view_html t <> None.
Proof. exact html_text_roundtrip. Qed.

Theorem C07_html_parse_ser : forall ns, hnorm_list ns = true -> hparse (hser_list ns) = Some ns.
Proof. exact hparse_ser. Qed.

Theorem C07_html_scan_reassembles : forall c, wf puncts c -> nonl_feats c = true ->
  concat (map (fun p => fst p ++ snd p) (mathml_scan (show c))) = show c.
Proof. exact mathml_scan_reassembles. Qed.

Theorem C07_html_unescape_escape : forall s, html_unescape (html_escape s) = s.
Proof. exact html_unescape_escape. Qed.

Theorem C07_html_view_leaves : forall t v, view_html t = Some v ->
  map (fun cx => Some (snd cx)) (vleaves v) = map (fun ct => leaf_word (snd ct)) (leaves t) /\ map fst (vleaves v) = map fst (leaves t).
Proof. exact view_html_leaves. Qed.

Theorem C07_html_fails_iff_no_word : forall t, mathml_node t = None <-> view_html t = None.
Proof. exact mathml_node_none. Qed.

(* a feature with a newline: the category S[a<LF>b] is a category value, its brackets are not printed, the reader gets another text *)
Theorem C07_html_roundtrip_newline_refuted :
  exists t n, cats_wf t /\ mathml_node t = Some n /\ dec_mathml n <> view_html t /\
              concat (map (fun p => fst p ++ snd p) (mathml_scan (show (tcat t)))) <> show (tcat t).
Proof. exact html_roundtrip_newline_refuted. Qed.

(* ---------- non-vacuity: a derivation with a unary step, both head directions, a bracket word, a bare token ---------- *)
Open Scope N_scope.
Definition c_np : cat := Atom [78;80] FNone.
Definition c_s : cat := Atom [83] (FUn [100;99;108]).
Definition c_vp : cat := Fun c_s [cBS] c_np.
Definition tk (w : text) : token := [(k_word, w); (k_pos, [78;78])].
Definition ex_tree : tree :=
  Bin c_s [98;97] [60] false
      (Un c_np [108;101;120] s_unsym (Leaf (Atom [78] FNone) (tk [40]) s_lex s_lexsym))
      (Bin c_vp [102;97] [62] true (Leaf (Fun c_vp [cSL] c_np) [(k_word, [97;60;98])] s_lex s_lexsym) (Leaf c_np (tk [100;111;103]) s_lex s_lexsym)).
Close Scope N_scope.

Example ex_cats_wf : cats_wf ex_tree. Proof. apply cats_wfb_ok. vm_compute. reflexivity. Qed.
Example ex_toks_ok : toks_json_ok ex_tree. Proof. repeat constructor. Qed.
Example ex_text_ok : text_ok ex_tree. Proof. vm_compute. intuition. Qed.
Example ex_has_words : has_words ex_tree. Proof. repeat constructor; discriminate. Qed.
Example ex_deps : deps_of ex_tree = Some [2; 0; 2]. Proof. vm_compute. reflexivity. Qed.
Example ex_subtree : subtree ex_tree 1 (Bin c_vp [102;97]%N [62]%N true (Leaf (Fun c_vp [cSL] c_np) [(k_word, [97;60;98]%N)] s_lex s_lexsym) (Leaf c_np (tk [100;111;103]%N) s_lex s_lexsym)).
Proof. unfold ex_tree. exact (sub_r _ _ _ _ _ _ 0 _ (sub_refl _)). Qed.
Example ex_json : dec_json (enc_json ex_tree) = view_json ex_tree. Proof. vm_compute. reflexivity. Qed.
Example ex_autox : option_map dec_autox (print_autox ex_tree) = Some (view_autox ex_tree) /\ view_autox ex_tree <> None.
Proof. vm_compute. split; [reflexivity | discriminate]. Qed.
Example ex_autox_line : print_autox ex_tree = Some (T "(<T S[dcl] ba 1 2> (<T NP lex 0 1> (<L N -LRB- XX NN XX XX N>) ) (<T S[dcl]\NP fa 0 2> (<L (S[dcl]\NP)/NP a-LAB-b XX XX XX XX (S[dcl]\NP)/NP>) (<L NP dog XX NN XX XX NP>) ) )").
Proof. vm_compute. reflexivity. Qed.
Example ex_deriv : option_map (fun x => dec_deriv (fst x) (snd x)) (deriv_struct ex_tree) = Some (view_deriv ex_tree) /\ view_deriv ex_tree <> None.
Proof. vm_compute. split; [reflexivity | discriminate]. Qed.
Example ex_numbering : xml_numbers [[tt; tt]; [tt]; [tt; tt; tt]] = [(1, 1); (1, 2); (2, 1); (3, 1); (3, 2); (3, 3)] /\
                       jigg_numbers [[tt; tt]; [tt]] = [(0, 0); (0, 1); (1, 0)].
Proof. vm_compute. split; reflexivity. Qed.


(* ---------- non-vacuity of the text-level results ---------- *)
Example ex_deriv_text : cats_wfb ex_text_tree = true /\ deriv_text_okb ex_text_tree = true /\
  option_map dec_deriv_text (print_deriv ex_text_tree) = Some (view_deriv ex_text_tree) /\ view_deriv ex_text_tree <> None.
Proof. vm_compute. repeat split; discriminate. Qed.

Open Scope N_scope.
Definition c_conj : cat := Atom [99;111;110;106] FNone.
Definition c_comma : cat := Atom [44] FNone.
Definition c_npnp : cat := Fun c_np [cBS] c_np.
Definition lf (c : cat) (w : text) : tree := Leaf c [(k_word, w)] s_lex s_lexsym.
(* conj2 and lp wrappers, plain conj with its extra argument, a unary step, a quote and a comma in words, a punctuation category *)
Definition ex_pl_tree : tree :=
  Bin c_s [98;97] [60] true
      (Bin c_np [99;111;110;106;50] [60;934;62] true (lf c_np [105;116;39;115])
           (Bin c_npnp [99;111;110;106] [60;934;62] true (lf c_conj [97;110;100]) (Un c_np [108;101;120] s_unsym (Leaf (Atom [78] FNone) (tk [100;111;103]) s_lex s_lexsym))))
      (Bin c_vp [108;112] [60;108;112;62] false (lf c_comma [44]) (lf c_vp [114;117;110;115])).
Definition c_ja_np : cat := Atom [78;80] (FTer [99;97;115;101] [103;97] [109;111;100] [110;109] [102;105;110] [102]).
Definition c_ja_s : cat := Atom [83] (FTer [109;111;100] [110;109] [102;111;114;109] [98;97;115;101] [102;105;110] [116]).
Definition ex_pl_ja_tree : tree :=
  Bin c_ja_s [98;97] [60] true
      (Un c_ja_np [65;68;78;105;110;116] [65;68;78;105;110;116] (Leaf c_ja_np [(k_word, [29483]); (k_pos, [21517;35422]); (k_pos1, [39;42])] s_lex s_lexsym))
      (Leaf (Fun c_ja_s [cBS] c_ja_np) [(k_word, [36208;12427]); (k_surf, [36208;39;12427]); (k_base, [42])] s_lex s_lexsym).

Example ex_prolog_en_dom : pl_okb_en ex_pl_tree = true /\ cats_wfb ex_pl_tree = true.
Proof. vm_compute. split; reflexivity. Qed.
Example ex_prolog_en : option_map dec_prolog_en (print_prolog_en 12 ex_pl_tree) = Some (option_map (fun v => (T "12", v)) (view_prolog_en ex_pl_tree)) /\
  view_prolog_en ex_pl_tree <> None.
Proof. vm_compute. split; [reflexivity | discriminate]. Qed.
Example ex_prolog_en_leaf : print_prolog_en 1 (lf c_vp [105;116;39;115]%N) =
  Some (T "ccg(1," ++ [10%N] ++ T " t((s:dcl\np), 'it\'s', 'XX', 'XX', 'XX', 'XX'))." ++ [10%N]).
Proof. vm_compute. reflexivity. Qed.
Example ex_prolog_en_labels : option_map (fun v => match v with VBin _ _ _ (VBin _ a _ _ (VBin _ b _ _ _)) (VBin _ c _ _ _) => [a; b; c] | _ => [] end) (view_prolog_en ex_pl_tree) =
  Some [T "conj+conj"; T "conj"; T "lx+lp"].
Proof. vm_compute. reflexivity. Qed.
(* outside the side condition the round trip fails: a backslash before the closing quote swallows it *)
Example ex_prolog_en_backslash : let t := lf c_np [97;92]%N in
  pl_okb_en t = false /\ option_map dec_prolog_en (print_prolog_en 1 t) = Some None /\ view_prolog_en t <> None.
Proof. vm_compute. repeat split; discriminate. Qed.
(* the printer's errors are in the model: a label outside _op_mapping, conj on an atomic category, a token without a word *)
Example ex_prolog_en_errors :
  print_prolog_en 1 (Bin c_np [116;114] [62] true (lf c_np [97]%N) (lf c_np [98]%N)) = None /\
  print_prolog_en 1 (Bin c_np [99;111;110;106] [62] true (lf c_np [97]%N) (lf c_np [98]%N)) = None /\
  print_prolog_en 1 (Leaf c_np [] s_lex s_lexsym) = None.
Proof. vm_compute. repeat split. Qed.
Example ex_prolog_en_doc : option_map (dec_prolog_doc dec_en) (prolog_en_doc [[ex_pl_tree; lf c_np [97]]; [lf c_vp [98]]]) =
  Some (doc_views view_prolog_en [[ex_pl_tree; lf c_np [97]]; [lf c_vp [98]]]) /\
  option_map (map fst) (doc_views view_prolog_en [[ex_pl_tree; lf c_np [97]]; [lf c_vp [98]]]) = Some [T "1"; T "1"; T "2"].
Proof. vm_compute. split; reflexivity. Qed.
Example ex_prolog_ja_dom : pl_okb_ja ex_pl_ja_tree = true.
Proof. vm_compute. reflexivity. Qed.
Example ex_prolog_ja : option_map dec_prolog_ja (print_prolog_ja 3 ex_pl_ja_tree) = Some (option_map (fun v => (T "3", v)) (view_prolog_ja ex_pl_ja_tree)) /\
  view_prolog_ja ex_pl_ja_tree <> None.
Proof. vm_compute. split; [reflexivity | discriminate]. Qed.
Example ex_prolog_ja_text : print_prolog_ja 3 ex_pl_ja_tree =
  Some (T "ccg(3," ++ [10%N] ++ T " ba(s," ++ [10%N] ++ T "  adnint(np:ga," ++ [10%N] ++ T "   t(np:ga, '" ++ [29483%N] ++ T "', '*', '" ++ [21517;35422]%N ++ T "/\'*/*/*', '*', '*'))," ++ [10%N] ++
        T "  t((s\np:ga), '" ++ [36208%N] ++ T "\'" ++ [12427%N] ++ T "', '*', '*', '*', '*')))." ++ [10;10]%N).
Proof. vm_compute. reflexivity. Qed.

(* the side conditions hold on the shipped category inventories (GenData.v, regenerated from depccg/models on every run): every lexical
   category of targets.en / targets.en_rebank / targets.ja can be read back from its Prolog spelling and is inside the lower-casing model *)
Definition shipped_all (ok : cat -> bool) (l : list (list text)) : bool :=
  forallb (fun ts => match Cat.parse_toks puncts ts with Some c => ok c | None => false end) l.
Example ex_shipped_prolog_en : shipped_all (fun c => plcat_okb_en c && cat_asciib c) targets_en = true /\
                               shipped_all (fun c => plcat_okb_en c && cat_asciib c) targets_en_rebank = true.
Proof. vm_compute. split; reflexivity. Qed.
Example ex_shipped_prolog_ja : shipped_all (fun c => plcat_okb_ja c && cat_asciib c) targets_ja = true.
Proof. vm_compute. reflexivity. Qed.

(* html: a derivation with escaped characters in words, a unary step, features *)
Example ex_html_dom : cats_wfb html_example = true /\ cats_nonl html_example = true /\ texts_nonempty html_example = true.
Proof. vm_compute. repeat split. Qed.
Example ex_html : option_map dec_mathml (mathml_node html_example) = Some (view_html html_example) /\ view_html html_example <> None.
Proof. vm_compute. split; [reflexivity | discriminate]. Qed.
Example ex_html_text : option_map (fun s => option_map dec_mathml_list (hparse s)) (mathml_subtree html_example) = Some (Some (view_html html_example)).
Proof. vm_compute. reflexivity. Qed.
Example ex_html_scan : mathml_scan (T "(S[dcl]\NP)/NP") = [(T "(S", T "[dcl]"); (T "\NP)/NP", [])] /\
                       mathml_scan (T "a[b][c]d]e[") = [(T "a", T "[c]"); (T "d", []); (T "e", [])].
Proof. vm_compute. split; reflexivity. Qed.
Example ex_shipped_html : shipped_all nonl_feats targets_en = true /\ shipped_all nonl_feats targets_en_rebank = true /\ shipped_all nonl_feats targets_ja = true.
Proof. vm_compute. repeat split. Qed.
Close Scope N_scope.

(* ===================== document level over GENERATED constants (appended; the 33 theorems above are unchanged) =====================
   GenFmt.v is written by translate/gen_fmt.py from depccg/printer/html.py (_MATHML_MAIN, the three f-strings of to_mathml) and
   depccg/printer/prolog.py (_prolog_header) on every run; FmtHtmlDoc.html_doc and FmtProlog.prolog_header are built from it, no page or
   header text is written in a model file any more.  What the proofs need of the generated texts is re-established by computation on every
   build (C07_html_template_facts, C07_html_fstring_facts, C07_prolog_header_declarations): a changed template either still satisfies them -
   then the statements below hold for the changed source - or the build breaks.
   This lifts the two restrictions noted in the comments above: "the surrounding document of _MATHML_MAIN is tied by string comparison only"
   and "str.lower() acts on A-Z only" (now: every code point, from the interpreter's own table, except context-dependent U+03A3). *)
Require Import GenFmt FmtHtmlDoc FmtHtmlDocProofs FmtPrologHeader FmtPrologHeaderProofs.

(* --- html, the whole text of to_string(batch, format='html').  The reader (dec_html_doc) finds <body>, checks what is before it (doctype,
   <html ..>, one well-nested <head>; <meta> is void) and after it (</body>, </html>), parses the body with the tag / text parser of
   C07_html_parse_ser, takes the elements (<p>ID=k: words</p>, <p>Log prob=s</p>, <math ..>) apart and reads every <math> content with
   dec_mathml_list.  It returns the sentence headers and, for every tree of every sentence in order, (sentence number, index of the tree in
   its sentence, score text, view_html of the tree) - html_doc_views, spelled out by C07_html_doc_records; both numbers count from 1
   (C07_numbering).  Side conditions per record: those of C07_html_text_roundtrip on the tree, and the score text has none of the five characters
   html.escape rewrites (to_mathml does not escape it; f'{prob:.5e}' never produces one - float formatting is a trusted library function, its text is an
   input of the model and comes back verbatim). *)
Theorem C07_html_doc_roundtrip : forall b txt,
  Forall (Forall (fun st : text * tree =>
                    score_plain (fst st) = true /\ cats_wf (snd st) /\ cats_nonl (snd st) = true /\ texts_nonempty (snd st) = true)) b ->
  html_doc b = Some txt ->
  dec_html_doc txt = html_doc_views b /\ html_doc_views b <> None.
Proof. exact html_doc_roundtrip. Qed.

Theorem C07_html_doc_records : forall b hs rs, html_doc_views b = Some (hs, rs) ->
  map Some rs = map (fun r : nat * nat * (text * tree) =>
                       option_map (fun v => (fst (fst r), snd (fst r), fst (snd r), v)) (view_html (snd (snd r)))) (number_batch b) /\
  map Some hs = map (fun g : nat * list (text * tree) =>
                       match snd g with (_, t0) :: _ => option_map (fun w => (fst g, w)) (tree_word t0) | [] => None end) (number_groups 1 b).
Proof. exact html_doc_views_spec. Qed.

(* the facts about _MATHML_MAIN that the proof uses, computed from the generated text: the template has exactly one field and it is {0};
   the part before the field contains <body>, and what precedes <body> is accepted by the frame check; between <body> and the field,
   and between the field and </body>, there is only whitespace; after </body> comes </html> *)
Theorem C07_html_template_facts :
  fparse html_main_template = Some [FLit main_pre; FArg 0; FLit main_post] /\
  find_split x_body_open main_pre = Some (main_before, main_lead) /\ frame_before_ok main_before = true /\
  main_post = main_trail ++ x_body_close ++ main_tail /\ frame_tail_ok main_tail = true /\
  h_is_ws (html_unescape main_lead) = true /\ h_is_ws (html_unescape main_trail) = true.
Proof.
  exact (conj main_parse (conj main_pre_split (conj main_before_ok (conj main_post_split (conj main_tail_ok
        (conj (proj2 main_lead_text) (proj2 main_trail_text))))))).
Qed.

(* the three f-strings of to_mathml are the elements and keywords the reader looks for (math_attrs = whatever stands between `<math`
   and `>` in the source, free of '>') *)
Theorem C07_html_fstring_facts :
  html_id_lits = [[cLT] ++ t_p ++ [cGT] ++ html_escape k_id; html_escape k_colon_sp; [cLT; cSL] ++ t_p ++ [cGT]] /\
  html_prob_lits = [[cLT] ++ t_p ++ [cGT] ++ html_escape k_logprob; [cLT; cSL] ++ t_p ++ [cGT]] /\
  html_math_lits = [[cLT] ++ t_math ++ math_attrs ++ [cGT]; [cLT; cSL] ++ t_math ++ [cGT]] /\ attrs_ok math_attrs = true.
Proof. exact (conj gen_id_lits (conj gen_prob_lits (conj gen_math_lits math_attrs_ok))). Qed.

Theorem C07_html_read_number : forall k, read_nat (show_nat k) = Some k.
Proof. exact read_nat_show. Qed.

(* --- prolog, the whole document over the generated header.  prolog_header is the generated text (first statement), so
   C07_prolog_en_doc_roundtrip / _ja_doc_roundtrip above are statements about the source's header too; there the reader strips the header as
   a fixed text.  dec_prolog_doc_h READS it: the lines up to the first empty line, each `:- op(P, T, (S)).` / `:- multifile n/a, ...` /
   `:- discontiguous n/a, ...` (tokens of the clause lexer), and they must be the declarations of the format (prolog_decls: / and \ infix
   601 xfx, ccg/2 and id/2 multifile and discontiguous; spacing is free) before the clauses are read as before. *)
Theorem C07_prolog_header_generated : prolog_header = prolog_header_src.
Proof. reflexivity. Qed.

Theorem C07_prolog_en_doc_roundtrip_generated_header : forall b txt,
  Forall (Forall (fun t => pl_okb_en t = true)) b -> prolog_en_doc b = Some txt ->
  dec_prolog_doc_h dec_en txt = doc_views view_prolog_en b /\ dec_prolog_doc_h dec_en txt <> None.
Proof. exact prolog_en_doc_roundtrip_generated_header. Qed.

Theorem C07_prolog_ja_doc_roundtrip_generated_header : forall b txt,
  Forall (Forall (fun t => pl_okb_ja t = true)) b -> prolog_ja_doc b = Some txt ->
  dec_prolog_doc_h dec_ja txt = doc_views view_prolog_ja b /\ dec_prolog_doc_h dec_ja txt <> None.
Proof. exact prolog_ja_doc_roundtrip_generated_header. Qed.

(* every printed document (any trees) starts with the declarations of the format *)
Theorem C07_prolog_header_declarations : forall b txt, prolog_en_doc b = Some txt \/ prolog_ja_doc b = Some txt ->
  exists ds body, dec_prolog_header txt = Some (ds, body) /\ decls_eqb ds prolog_decls = true.
Proof. exact prolog_doc_header_decls. Qed.

(* --- str.lower.  FmtProlog.lower is now: A-Z by the ASCII rule, a code point >= 128 by py_lower_table (chr(c).lower() of the running
   interpreter for every code point it changes), anything else unchanged; outside the model only texts with a context-dependent character
   (py_lower_contextual, found by probing the interpreter: U+03A3).  On the ASCII range the interpreter's table IS the A-Z rule; on ASCII
   text the model is the A-Z rule and inside its domain; every character of every category string of the shipped model files is ASCII. *)
Theorem C07_prolog_lower_table_ascii : lower_table_ascii_agrees = true.
Proof. exact lower_table_ascii. Qed.

Theorem C07_prolog_lower_ascii : forall s, asciib s = true -> lower s = lower_az s /\ lower_dom s = true.
Proof. exact lower_ascii. Qed.

Theorem C07_prolog_lower_cat_ascii : forall c, cat_asciib c = true -> cat_lower_dom c = true.
Proof. exact cat_lower_ascii. Qed.

Theorem C07_prolog_lower_shipped_ascii : shipped_chars_ascii = true.
Proof. exact shipped_ascii. Qed.

(* --- the remaining constants of the html model.  FmtHtml.v has the two templates of _mathml_subtree and the two f-strings of _mathml_cat as
   its own texts (the theorems about mathml_subtree above compute with them).  GenFmt.v has the same four texts as the source writes them, and
   on every build they are compared: formatting the source's templates is fmt_terminal / fmt_nonterminal (fourth argument = the bgcolor
   attribute = the empty text), and the source's f-strings give mathml_piece.  So no text of printer/html.py is trusted as a copy any more. *)
Theorem C07_html_tree_templates_from_source :
  (forall w c, fformat html_terminal_template [w; c] = Some (fmt_terminal w c)) /\
  (forall ch c r, fformat html_nonterminal_template [ch; c; r; []] = Some (fmt_nonterminal ch c r)) /\
  (forall p, mathml_piece p = let mi := fstr html_mi_lits [html_escape (fst p)] in
                              match html_escape (snd p) with [] => mi | f => fstr html_msub_lits [mi; f] end).
Proof. exact (conj terminal_format (conj nonterminal_format mathml_piece_fstr)). Qed.

(* ---------- non-vacuity of the document-level results ---------- *)
Example ex_html_doc : forallb (forallb html_rec_okb) html_doc_example = true /\
  option_map dec_html_doc (html_doc html_doc_example) = Some (html_doc_views html_doc_example) /\
  option_map (fun v => (map fst (fst v), map (fun r : html_rec => fst (fst r)) (snd v))) (html_doc_views html_doc_example) =
    Some ([1; 2]%nat, [(1, 1); (1, 2); (2, 1)]%nat).
Proof. exact html_doc_example_ok. Qed.
Example ex_html_rec_okb : forall st, html_rec_okb st = true ->
  score_plain (fst st) = true /\ cats_wf (snd st) /\ cats_nonl (snd st) = true /\ texts_nonempty (snd st) = true.
Proof. exact html_rec_okb_ok. Qed.
(* a page whose <head> is not closed, and one without </html>, are not read *)
Example ex_html_doc_frame : dec_html_doc (T "<!doctype html><html><head><body><p>ID=1: a</p></body></html>") = None /\
  dec_html_doc (T "<!doctype html><html><head></head><body>  </body>") = None /\
  dec_html_doc (T "<!DOCTYPE html> <html><head><meta charset='UTF-8'></head><body>  </body> </html> ") = Some ([], []).
Proof. vm_compute. repeat split. Qed.
Example ex_prolog_doc_h : option_map (dec_prolog_doc_h dec_en) (prolog_en_doc [[ex_pl_tree; lf c_np [97%N]]; [lf c_vp [98%N]]]) =
  Some (doc_views view_prolog_en [[ex_pl_tree; lf c_np [97%N]]; [lf c_vp [98%N]]]) /\
  option_map (fun x => decls_eqb (fst x) prolog_decls) (dec_prolog_header (prolog_header ++ [10%N] ++ T "ccg(1, t(np, 'a', 'a', 'a', 'a', 'a')).")) = Some true.
Proof. vm_compute. split; reflexivity. Qed.
(* other declarations, or the same text without the empty line after it, are not a document of the format *)
Example ex_prolog_doc_h_strict :
  dec_prolog_doc_h dec_en (T ":- op(600, xfx, (/))." ++ [10; 10]%N) = None /\ dec_prolog_doc_h dec_en (prolog_header ++ T "ccg(1, t(np, 'a', 'a', 'a', 'a', 'a')).") = None /\
  dec_prolog_doc_h dec_en (prolog_header ++ [10%N]) = Some [].
Proof. vm_compute. repeat split. Qed.
(* U+00C9 -> U+00E9, U+0130 -> two code points, kana unchanged, ASCII by the A-Z rule; U+03A3 is outside the domain *)
Example ex_lower : lower [201; 65; 304; 12459; 90; 91]%N = [233; 97; 105; 775; 12459; 122; 91]%N /\
  lower_dom [201; 65; 304; 12459]%N = true /\ lower_dom [65; 931]%N = false.
Proof. vm_compute. repeat split. Qed.
