(* C07 - Every output format encodes the same derivation.  Property theorems only (lemmas: FmtProofs.v, FmtCodec.v;
   models: Fmt.v).  The readers of auto / ptb / ja / xml / jigg_xml are covered by P_C08, P_C20, P_C15;
   deriv, html and prolog are covered by the independent Python readers of harness/fmt_dec.py (declared partial here).
   Tables (denormalize, punctuations, cat_split) come from GenTables.v, regenerated from the source on every run. *)
From Coq Require Import List NArith Bool Arith.
From Coq Require String.
Import String.StringSyntax.
Import ListNotations.
Require Import Cat CatFacts Tree GenTables Fmt FmtProofs FmtCodec FmtDeriv FmtDerivProofs.

(* --- the dependency column of conll is the head assignment implied by the head flags:
   it has one entry per word, exactly one root (0) and it sits at the head word of the derivation; at every binary
   node (a subtree starting at word `off`) the head word of the non-head child is attached to the head word of the head
   child; inside every constituent every word other than its head word is attached to a word of that constituent *)
Theorem C07_conll_deps : forall t, exists ds, deps_of t = Some ds /\ length ds = nleaves t /\
  length (filter (Nat.eqb 0) ds) = 1 /\ nth_error ds (head_index t) = Some 0 /\
  (forall off c ops sym (hl : bool) l r, subtree t off (Bin c ops sym hl l r) ->
     if hl then nth_error ds (off + (nleaves l + head_index r)) = Some (S (off + head_index l))
     else nth_error ds (off + head_index l) = Some (S (off + (nleaves l + head_index r)))) /\
  (forall off s i, subtree t off s -> i < nleaves s -> i <> head_index s ->
     exists h, nth_error ds (off + i) = Some (S (off + h)) /\ h < nleaves s /\ h <> i).
Proof. exact conll_deps_all. Qed.

(* --- the rows of conll, read column by column, give the words in order (AUTO spelling), the leaf categories, the
   numbering 1..n, lemma / pos with the "_" default and the dependency column above *)
Theorem C07_conll_rows_view : forall t, has_words t ->
  exists rows ds, conll_rows t = Some rows /\ deps_of t = Some ds /\
    map r_idx rows = seq 1 (nleaves t) /\ map r_cat rows = map fst (leaves t) /\
    map (fun r => Some (r_word r)) rows = leaf_words t /\ map r_head rows = ds /\
    map r_lemma rows = map (fun ct => tok_get_default k_lemma s_us (snd ct)) (leaves t) /\
    map r_pos rows = map (fun ct => tok_get_default k_pos s_us (snd ct)) (leaves t).
Proof. exact conll_rows_view. Qed.

(* --- json: the independent reader gets back shape, categories (as values), op_string labels and every token, in order *)
Theorem C07_json_roundtrip : forall t, cats_wf t -> toks_json_ok t ->
  dec_json (enc_json t) = view_json t /\ view_json t <> None.
Proof. exact dec_json_enc. Qed.

Theorem C07_json_view_tokens : forall t v, view_json t = Some v -> vleaves v = leaves t.
Proof. exact view_json_leaves. Qed.

(* --- auto_extended, field level and line level: shape, categories, rule labels, head flags, the five token fields *)
Theorem C07_autox_roundtrip : forall t fs, cats_wf t -> autox_fields t = Some fs ->
  dec_autox_fields fs = view_autox t /\ view_autox t <> None.
Proof. exact dec_autox_fields_print. Qed.

Theorem C07_autox_roundtrip_text : forall t line, cats_wf t -> text_ok t -> print_autox t = Some line ->
  dec_autox line = view_autox t /\ view_autox t <> None.
Proof. exact dec_autox_print. Qed.

Theorem C07_autox_view_tokens : forall t v, view_autox t = Some v ->
  map (fun cx => Some (snd cx)) (vleaves v) = map (fun ct => leaf5 (snd ct)) (leaves t) /\ map fst (vleaves v) = map fst (leaves t).
Proof. exact view_autox_leaves. Qed.

(* --- deriv (stretch, partial): from the cells of the two top lines and the column extents of the dash lines, the interval-stack
   reader rebuilds shape, words, all categories and rule symbols.  Missing for full strength: reading cells and column extents
   out of the text itself (counting blanks and dashes; needs blank-free words/categories and symbols that do not start with '-');
   that step is covered by the exact-string correspondence of print_deriv and by the Python reader fmt_dec.dec_deriv *)
Theorem C07_deriv_struct_roundtrip_partial : forall t cs, leaf_cells t = Some cs ->
  exists lines v, deriv_struct t = Some (cs, lines) /\ view_deriv t = Some v /\ dec_deriv cs lines = Some v.
Proof. exact deriv_roundtrip. Qed.

Theorem C07_deriv_view_words : forall t v, view_deriv t = Some v -> Some (vleaves v) = leaf_cells t.
Proof. exact view_deriv_leaves. Qed.

(* --- whatever a format carries of the leaves, its view has the derivation's shape, categories, and the labels / head
   flags the format carries; in particular any two views have the same skeleton *)
Theorem C07_views_same_derivation : forall (L : Type) (leaf : token -> option L) k heads t v,
  project leaf k heads t = Some v ->
  project (fun _ => Some tt) k heads t = Some (vmap (fun _ => tt) v) /\ tree_skeleton t = Some (skeleton_of v).
Proof. exact views_same_derivation. Qed.

(* --- numbering: the records of a batch, in input order, are exactly the trees; the j-th tree of the s-th sentence (from 0)
   carries the numbers (s+1, j+1) and nothing else occurs; grouped form = flat form; within a sentence the tree numbers
   count up from 1 under the same sentence number *)
Theorem C07_numbering : forall (A : Type) (b : list (list A)),
  map snd (number_batch b) = concat b /\
  length (number_batch b) = list_sum (map (@length A) b) /\
  (forall k i x, In (k, i, x) (number_batch b) <->
     exists s j ts, k = S s /\ i = S j /\ nth_error b s = Some ts /\ nth_error ts j = Some x) /\
  number_batch b = concat (map (fun g => number_trees (fst g) 1 (snd g)) (number_groups 1 b)) /\
  (forall s, nth_error (number_groups 1 b) s = option_map (fun ts => (S s, ts)) (nth_error b s)) /\
  (forall k i (ts : list A), map (fun x => fst x) (number_trees k i ts) = map (fun j => (k, j)) (seq i (length ts))).
Proof. exact numbering_all. Qed.

(* ---------- non-vacuity: a derivation with a unary step, both head directions, a bracket word, a bare token ---------- *)
Open Scope N_scope.
Definition c_np : cat := Atom [78;80] FNone.
Definition c_s : cat := Atom [83] (FUn [100;99;108]).
Definition c_vp : cat := Fun c_s [cBS] c_np.
Definition tk (w : text) : token := [(k_word, w); (k_pos, [78;78])].
Definition ex_tree : tree :=
  Bin c_s [98;97] [60] false
      (Un c_np [108;101;120] s_unsym (Leaf (Atom [78] FNone) (tk [40]) s_lex s_lexsym))
      (Bin c_vp [102;97] [62] true (Leaf (Fun c_vp [cSL] c_np) [(k_word, [97;60;98])] s_lex s_lexsym) (Leaf c_np (tk [100;111;103]) s_lex s_lexsym)).
Close Scope N_scope.

Example ex_cats_wf : cats_wf ex_tree. Proof. apply cats_wfb_ok. vm_compute. reflexivity. Qed.
Example ex_toks_ok : toks_json_ok ex_tree. Proof. repeat constructor. Qed.
Example ex_text_ok : text_ok ex_tree. Proof. vm_compute. intuition. Qed.
Example ex_has_words : has_words ex_tree. Proof. repeat constructor; discriminate. Qed.
Example ex_deps : deps_of ex_tree = Some [2; 0; 2]. Proof. vm_compute. reflexivity. Qed.
Example ex_subtree : subtree ex_tree 1 (Bin c_vp [102;97]%N [62]%N true (Leaf (Fun c_vp [cSL] c_np) [(k_word, [97;60;98]%N)] s_lex s_lexsym) (Leaf c_np (tk [100;111;103]%N) s_lex s_lexsym)).
Proof. unfold ex_tree. exact (sub_r _ _ _ _ _ _ 0 _ (sub_refl _)). Qed.
Example ex_json : dec_json (enc_json ex_tree) = view_json ex_tree. Proof. vm_compute. reflexivity. Qed.
Example ex_autox : option_map dec_autox (print_autox ex_tree) = Some (view_autox ex_tree) /\ view_autox ex_tree <> None.
Proof. vm_compute. split; [reflexivity | discriminate]. Qed.
Example ex_autox_line : print_autox ex_tree = Some (T "(<T S[dcl] ba 1 2> (<T NP lex 0 1> (<L N -LRB- XX NN XX XX N>) ) (<T S[dcl]\NP fa 0 2> (<L (S[dcl]\NP)/NP a-LAB-b XX XX XX XX (S[dcl]\NP)/NP>) (<L NP dog XX NN XX XX NP>) ) )").
Proof. vm_compute. reflexivity. Qed.
Example ex_deriv : option_map (fun x => dec_deriv (fst x) (snd x)) (deriv_struct ex_tree) = Some (view_deriv ex_tree) /\ view_deriv ex_tree <> None.
Proof. vm_compute. split; [reflexivity | discriminate]. Qed.
Example ex_numbering : xml_numbers [[tt; tt]; [tt]; [tt; tt; tt]] = [(1, 1); (1, 2); (2, 1); (3, 1); (3, 2); (3, 3)] /\
                       jigg_numbers [[tt; tt]; [tt]] = [(0, 0); (0, 1); (1, 0)].
Proof. vm_compute. split; reflexivity. Qed.
