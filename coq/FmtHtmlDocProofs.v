(* C07 - the html document of FmtHtmlDoc.v: the reader gets back, from the whole text of to_string(format='html'), the sentence headers
   and, for every tree of every sentence in order, sentence number, tree index, score text and the view of the derivation.
   The page template and the three f-strings are the GENERATED constants of GenFmt.v; everything the proof needs to know about them is
   established in "facts about the generated constants" below by computation, so a changed source re-checks (or breaks) those facts. *)
From Coq Require Import List NArith Bool Arith Lia.
Import ListNotations.
Require Import Cat CatFacts CatLex Tree GenTables GenFmt Fmt FmtProofs FmtCodec FmtHtml FmtHtmlProofs FmtHtmlDoc.
Local Open Scope N_scope.

Lemma some_inj {A} (a b : A) : Some a = Some b -> a = b.
Proof. congruence. Qed.

(* ================= decimal numbers: int(str(k)) = k ================= *)
Lemma size_nat_bound n : n < 2 ^ N.of_nat (N.size_nat n).
Proof.
  destruct n as [|p]; [reflexivity|]. cbn [N.size_nat].
  induction p as [p IH | p IH | ]; cbn [Pos.size_nat].
  - rewrite Nat2N.inj_succ, N.pow_succ_r'. change (N.pos p~1) with (2 * N.pos p + 1). lia.
  - rewrite Nat2N.inj_succ, N.pow_succ_r'. change (N.pos p~0) with (2 * N.pos p). lia.
  - reflexivity.
Qed.

Definition dstep (a c : N) : N := a * 10 + (c - 48).
Definition dval (ds : text) : N := fold_left dstep ds 0.

Lemma read_N_go_fold ds : forall a, forallb is_digit ds = true -> read_N_go ds a = Some (fold_left dstep ds a).
Proof.
  induction ds as [|c ds IH]; intros a H; [reflexivity|]. cbn [forallb] in H. apply andb_true_iff in H as [Hc H].
  cbn [read_N_go fold_left]. rewrite Hc. now apply IH.
Qed.

(* n = 10 q + m with m < 10, as plain variables (lia is not given the division itself) *)
Lemma divmod10 n : exists q m, n / 10 = q /\ n mod 10 = m /\ n = 10 * q + m /\ m < 10.
Proof. exists (n / 10), (n mod 10). repeat split; [apply N.div_mod; discriminate | apply N.mod_upper_bound; discriminate]. Qed.

Lemma is_digit_small m : m < 10 -> is_digit (48 + m) = true.
Proof. intros H. unfold is_digit. apply andb_true_iff; split; apply N.leb_le; lia. Qed.

Lemma digits_spec : forall f n acc, n < 2 ^ N.of_nat f -> n <> 0 ->
  exists ds, digits f n acc = ds ++ acc /\ ds <> [] /\ forallb is_digit ds = true /\ dval ds = n.
Proof.
  induction f as [|f IH]; intros n acc Hb Hn.
  - change (2 ^ N.of_nat 0) with 1 in Hb. lia.
  - cbn [digits]. rewrite Nat2N.inj_succ, N.pow_succ_r' in Hb.
    destruct (divmod10 n) as (q & m & Eq & Em & Hdm & Hm). rewrite Eq, Em. set (d := 48 + m).
    destruct (N.eqb_spec q 0) as [E|E].
    + exists [d]. split; [reflexivity|]. split; [discriminate|]. split.
      * cbn [forallb]. unfold d. now rewrite (is_digit_small m Hm).
      * unfold dval, dstep, d. cbn [fold_left]. lia.
    + assert (Hb' : q < 2 ^ N.of_nat f) by lia.
      destruct (IH q (d :: acc) Hb' E) as (ds & Ed & Hne & Hdig & Hval).
      exists (ds ++ [d]). rewrite Ed, <- app_assoc. split; [reflexivity|]. split; [destruct ds; discriminate|]. split.
      * rewrite forallb_app, Hdig. cbn [forallb]. unfold d. now rewrite (is_digit_small m Hm).
      * unfold dval in *. rewrite fold_left_app, Hval. cbn [fold_left]. unfold dstep, d. lia.
Qed.

Lemma show_N_spec n : show_N n <> [] /\ forallb is_digit (show_N n) = true /\ dval (show_N n) = n.
Proof.
  destruct (N.eqb_spec n 0) as [->|Hn]; [repeat split; discriminate|].
  assert (Hb : n < 2 ^ N.of_nat (S (N.size_nat n))).
  { rewrite Nat2N.inj_succ, N.pow_succ_r'. pose proof (size_nat_bound n). lia. }
  destruct (digits_spec (S (N.size_nat n)) n [] Hb Hn) as (ds & Ed & Hne & Hdig & Hval).
  unfold show_N. rewrite Ed, app_nil_r. auto.
Qed.

Lemma show_nat_digits k : forallb is_digit (show_nat k) = true.
Proof. apply show_N_spec. Qed.

Lemma read_nat_show k : read_nat (show_nat k) = Some k.
Proof.
  unfold show_nat. destruct (show_N_spec (N.of_nat k)) as (Hne & Hd & Hv). unfold read_nat.
  destruct (show_N (N.of_nat k)) as [|c ds] eqn:E; [congruence|].
  rewrite (read_N_go_fold _ 0 Hd). fold (dval (c :: ds)). rewrite Hv. cbn [option_map]. now rewrite Nat2N.id.
Qed.

(* ================= html.escape leaves plain text alone ================= *)
Lemma esc_plain s : score_plain s = true -> html_escape s = s.
Proof.
  unfold score_plain, html_escape. induction s as [|c s IH]; intros H; [reflexivity|].
  cbn [forallb] in H. apply andb_true_iff in H as [Hc H]. cbn [flat_map]. rewrite (IH H). apply negb_true_iff in Hc.
  cbn [existsb] in Hc. rewrite !orb_false_iff in Hc. destruct Hc as (H1 & H2 & H3 & H4 & H5 & _).
  unfold esc1. now rewrite H1, H2, H3, H4, H5.
Qed.

Lemma digits_plain s : forallb is_digit s = true -> score_plain s = true.
Proof.
  unfold score_plain. induction s as [|c s IH]; intros H; [reflexivity|].
  cbn [forallb] in *. apply andb_true_iff in H as [Hc H]. rewrite (IH H), andb_true_r. apply negb_true_iff.
  unfold is_digit in Hc. apply andb_true_iff in Hc as [H1 H2]. apply N.leb_le in H1, H2.
  cbn [existsb]. unfold cAMP, cLT, cGT, cQUOT, cAPOS.
  repeat match goal with |- context [N.eqb ?a ?b] => destruct (N.eqb_spec a b) as [E|_]; [lia|] end. reflexivity.
Qed.

Lemma html_escape_app a b : html_escape (a ++ b) = html_escape a ++ html_escape b.
Proof. unfold html_escape. apply flat_map_app. Qed.

(* ================= str.format with one field ================= *)
Lemma fformat_1 tmpl pre post x : fparse tmpl = Some [FLit pre; FArg 0%nat; FLit post] -> fformat tmpl [x] = Some (pre ++ x ++ post).
Proof. intros E. unfold fformat. rewrite E. cbn [fsubst nth_error option_map]. now rewrite app_nil_r. Qed.

(* ================= the first occurrence of a pattern ================= *)
Lemma find_split_unfold p s : find_split p s =
  match strip_prefix p s with
  | Some y => Some ([], y)
  | None => match s with [] => None | c :: r => match find_split p r with Some (x, y) => Some (c :: x, y) | None => None end end
  end.
Proof. destruct s; reflexivity. Qed.

Lemma strip_prefix_len p : forall s y, strip_prefix p s = Some y -> (List.length p <= List.length s)%nat.
Proof.
  induction p as [|a p IH]; intros s y E; [cbn; lia|]. destruct s as [|b s]; [discriminate|]. cbn [strip_prefix] in E.
  destruct (N.eqb a b); [|discriminate]. apply IH in E. cbn [List.length]. lia.
Qed.

Lemma strip_prefix_app_l p : forall a y z, strip_prefix p a = Some y -> strip_prefix p (a ++ z) = Some (y ++ z).
Proof.
  induction p as [|c p IH]; intros a y z E; cbn [strip_prefix] in *; [apply some_inj in E; now subst|].
  destruct a as [|d a]; [discriminate|]. cbn [app strip_prefix]. destruct (N.eqb c d); [now apply IH | discriminate].
Qed.

Lemma strip_prefix_none_app p : forall a z, strip_prefix p a = None -> (List.length p <= List.length a)%nat -> strip_prefix p (a ++ z) = None.
Proof.
  induction p as [|c p IH]; intros a z E L; cbn [strip_prefix] in *; [discriminate|].
  destruct a as [|d a]; [cbn [List.length] in L; lia|]. cbn [app strip_prefix]. destruct (N.eqb c d); [|reflexivity].
  apply IH; [exact E | cbn [List.length] in L; lia].
Qed.

Lemma find_split_len p : forall s x y, find_split p s = Some (x, y) -> (List.length p <= List.length s)%nat.
Proof.
  induction s as [|c r IH]; intros x y E; rewrite find_split_unfold in E.
  - destruct (strip_prefix p []) as [y0|] eqn:Es; [now apply strip_prefix_len in Es | discriminate].
  - destruct (strip_prefix p (c :: r)) as [y0|] eqn:Es; [now apply strip_prefix_len in Es|].
    destruct (find_split p r) as [[x1 y1]|] eqn:Er; [|discriminate]. specialize (IH x1 y1 eq_refl). cbn [List.length]. lia.
Qed.

Lemma find_split_app p : forall a x y z, find_split p a = Some (x, y) -> find_split p (a ++ z) = Some (x, y ++ z).
Proof.
  induction a as [|c r IH]; intros x y z E; rewrite find_split_unfold in E; rewrite find_split_unfold.
  - destruct (strip_prefix p []) as [y0|] eqn:Es; [|discriminate]. apply some_inj in E. inversion E; subst.
    now rewrite (strip_prefix_app_l p [] y z Es).
  - destruct (strip_prefix p (c :: r)) as [y0|] eqn:Es.
    + apply some_inj in E. inversion E; subst. now rewrite (strip_prefix_app_l p (c :: r) y z Es).
    + destruct (find_split p r) as [[x1 y1]|] eqn:Er; [|discriminate]. apply some_inj in E. inversion E; subst.
      rewrite (strip_prefix_none_app p (c :: r) z Es); [|pose proof (find_split_len p r x1 y Er); cbn [List.length]; lia].
      cbn [app]. now rewrite (IH x1 y z eq_refl).
Qed.

(* ================= node lists: elements between two optional text nodes ================= *)
Definition otext (s : text) : list hnode := match s with [] => [] | _ => [HText s] end.
Definition is_el (n : hnode) : bool := negb (is_text n).

Lemma hser_list_app a b : hser_list (a ++ b) = hser_list a ++ hser_list b.
Proof. unfold hser_list. now rewrite map_app, concat_app. Qed.

Lemma hser_otext s : hser_list (otext s) = html_escape s.
Proof. destruct s as [|c s]; [reflexivity|]. unfold otext. now rewrite hser_list_cons, hser_list_nil, hser_text, app_nil_r. Qed.

Lemma no_adj_els_tail b : forall els, els <> [] -> forallb is_el els = true -> no_adj (els ++ otext b) = true.
Proof.
  induction els as [|e els IH]; intros Hne H; [congruence|]. cbn [forallb] in H. apply andb_true_iff in H as [He H].
  unfold is_el in He. apply negb_true_iff in He. destruct els as [|e2 els].
  - cbn [app no_adj]. rewrite He. destruct b as [|c b]; reflexivity.
  - cbn [app no_adj]. rewrite He. cbn [andb negb]. apply (IH ltac:(discriminate) H).
Qed.

Lemma no_adj_cons2 x y l : no_adj (x :: y :: l) = negb (is_text x && is_text y) && no_adj (y :: l).
Proof. reflexivity. Qed.

Lemma no_adj_frame a b els : els <> [] -> forallb is_el els = true -> no_adj (otext a ++ els ++ otext b) = true.
Proof.
  intros Hne H. pose proof (no_adj_els_tail b els Hne H) as Ht. destruct a as [|c a]; [exact Ht|].
  unfold otext at 1. destruct els as [|e els]; [congruence|]. cbn [forallb] in H. apply andb_true_iff in H as [He _].
  unfold is_el in He. apply negb_true_iff in He. cbn [app] in *. rewrite no_adj_cons2, He, Ht. reflexivity.
Qed.

Lemma forallb_hnorm_otext s : forallb hnorm (otext s) = true.
Proof. destruct s; reflexivity. Qed.

Lemma frame_norm a b els : els <> [] -> forallb hnorm els = true -> forallb is_el els = true -> hnorm_list (otext a ++ els ++ otext b) = true.
Proof.
  intros Hne Hn He. unfold hnorm_list. rewrite (no_adj_frame a b els Hne He), !forallb_app, !forallb_hnorm_otext, Hn. reflexivity.
Qed.

Definition keep_node (n : hnode) : bool := negb (h_is_ws_node n).
Lemma filter_els els : forallb is_el els = true -> filter keep_node els = els.
Proof.
  induction els as [|e els IH]; intros H; [reflexivity|]. cbn [forallb] in H. apply andb_true_iff in H as [He H].
  cbn [filter]. destruct e as [s|tag a kids]; [discriminate He|]. unfold keep_node at 1. cbn [h_is_ws_node negb]. now rewrite (IH H).
Qed.
Lemma filter_otext s : h_is_ws s = true -> filter keep_node (otext s) = [].
Proof. intros H. destruct s as [|c s]; [reflexivity|]. unfold otext. cbn [filter]. unfold keep_node. cbn [h_is_ws_node]. now rewrite H. Qed.
Lemma filter_frame a b els : h_is_ws a = true -> h_is_ws b = true -> forallb is_el els = true -> filter keep_node (otext a ++ els ++ otext b) = els.
Proof. intros Ha Hb He. now rewrite !filter_app, (filter_otext a Ha), (filter_otext b Hb), (filter_els els He), app_nil_r. Qed.

(* ================= facts about the generated constants (re-established by computation on every build) ================= *)
(* --- the three f-strings of to_mathml are the tags and keywords the reader looks for --- *)
Definition math_attrs : text := Eval vm_compute in match html_math_lits with l0 :: _ => removelast (skipn 5 l0) | [] => [] end.
Lemma gen_id_lits : html_id_lits = [[cLT] ++ t_p ++ [cGT] ++ html_escape k_id; html_escape k_colon_sp; [cLT; cSL] ++ t_p ++ [cGT]].
Proof. vm_compute. reflexivity. Qed.
Lemma gen_prob_lits : html_prob_lits = [[cLT] ++ t_p ++ [cGT] ++ html_escape k_logprob; [cLT; cSL] ++ t_p ++ [cGT]].
Proof. vm_compute. reflexivity. Qed.
Lemma gen_math_lits : html_math_lits = [[cLT] ++ t_math ++ math_attrs ++ [cGT]; [cLT; cSL] ++ t_math ++ [cGT]].
Proof. vm_compute. reflexivity. Qed.
Lemma math_attrs_ok : attrs_ok math_attrs = true.
Proof. vm_compute. reflexivity. Qed.

(* --- the page template: one field, number 0; <body> occurs in what is before the field; what precedes <body> is a doctype, <html ..>
   and a well-nested <head>; between <body> and the field and between the field and </body> there is only whitespace; after </body> comes
   </html> --- *)
Definition main_pre : text := Eval vm_compute in match fparse html_main_template with Some [FLit a; FArg 0%nat; FLit b] => a | _ => [] end.
Definition main_post : text := Eval vm_compute in match fparse html_main_template with Some [FLit a; FArg 0%nat; FLit b] => b | _ => [] end.
Lemma main_parse : fparse html_main_template = Some [FLit main_pre; FArg 0%nat; FLit main_post].
Proof. vm_compute. reflexivity. Qed.
Definition main_before : text := Eval vm_compute in match find_split x_body_open main_pre with Some (x, _) => x | None => [] end.
Definition main_lead : text := Eval vm_compute in match find_split x_body_open main_pre with Some (_, y) => y | None => [] end.
Lemma main_pre_split : find_split x_body_open main_pre = Some (main_before, main_lead).
Proof. vm_compute. reflexivity. Qed.
Lemma main_before_ok : frame_before_ok main_before = true.
Proof. vm_compute. reflexivity. Qed.
Definition main_trail : text := Eval vm_compute in match find_split x_body_close main_post with Some (x, _) => x | None => [] end.
Definition main_tail : text := Eval vm_compute in match find_split x_body_close main_post with Some (_, y) => y | None => [] end.
Lemma main_post_split : main_post = main_trail ++ x_body_close ++ main_tail.
Proof. vm_compute. reflexivity. Qed.
Lemma main_tail_ok : frame_tail_ok main_tail = true.
Proof. vm_compute. reflexivity. Qed.
Definition main_lead_t : text := Eval vm_compute in html_unescape main_lead.
Definition main_trail_t : text := Eval vm_compute in html_unescape main_trail.
Lemma main_lead_text : html_escape main_lead_t = main_lead /\ h_is_ws main_lead_t = true.
Proof. vm_compute. split; reflexivity. Qed.
Lemma main_trail_text : html_escape main_trail_t = main_trail /\ h_is_ws main_trail_t = true.
Proof. vm_compute. split; reflexivity. Qed.

(* ================= the printed pieces are serialised elements ================= *)
Definition p_node (s : text) : hnode := HEl t_p [] [HText s].
Definition math_node (kids : list hnode) : hnode := HEl t_math math_attrs kids.

Lemma p_id_ser k ws : fstr html_id_lits [show_nat k; html_escape ws] = hser (p_node (k_id ++ show_nat k ++ k_colon_sp ++ ws)).
Proof.
  rewrite gen_id_lits. unfold p_node. rewrite hser_el, hser_list_cons, hser_list_nil, hser_text, !html_escape_app.
  rewrite (esc_plain (show_nat k) (digits_plain _ (show_nat_digits k))).
  cbn [fstr]. rewrite ?app_nil_r, <- ?app_assoc. reflexivity.
Qed.

Lemma p_prob_ser s : score_plain s = true -> fstr html_prob_lits [s] = hser (p_node (k_logprob ++ s)).
Proof.
  intros Hs. rewrite gen_prob_lits. unfold p_node. rewrite hser_el, hser_list_cons, hser_list_nil, hser_text, html_escape_app, (esc_plain s Hs).
  cbn [fstr]. rewrite ?app_nil_r, <- ?app_assoc. reflexivity.
Qed.

Lemma math_ser kids : fstr html_math_lits [hser_list kids] = hser (math_node kids).
Proof.
  rewrite gen_math_lits. unfold math_node. rewrite hser_el. cbn [fstr]. rewrite ?app_nil_r, <- ?app_assoc. reflexivity.
Qed.

(* concatenation of optional lists *)
Fixpoint ocat {A : Type} (l : list (option (list A))) : option (list A) :=
  match l with
  | [] => Some []
  | None :: _ => None
  | Some x :: r => match ocat r with Some y => Some (x ++ y) | None => None end
  end.

Lemma concat_opt_ser {X : Type} (f : X -> option text) (g : X -> option (list hnode)) l :
  Forall (fun x => f x = option_map hser_list (g x)) l -> concat_opt (map f l) = option_map hser_list (ocat (map g l)).
Proof.
  intros H. induction H as [|x l Hx _ IH]; [reflexivity|]. cbn [map concat_opt ocat]. rewrite Hx, IH.
  destruct (g x) as [a|]; [|reflexivity]. cbn [option_map]. destruct (ocat (map g l)) as [y|]; [|reflexivity]. cbn [option_map].
  now rewrite hser_list_app.
Qed.

(* the side condition on one (score, tree) record *)
Definition html_rec_ok (st : text * tree) : Prop :=
  score_plain (fst st) = true /\ cats_wf (snd st) /\ cats_nonl (snd st) = true /\ texts_nonempty (snd st) = true.
Definition html_rec_okb (st : text * tree) : bool :=
  score_plain (fst st) && cats_wfb (snd st) && cats_nonl (snd st) && texts_nonempty (snd st).
Lemma html_rec_okb_ok st : html_rec_okb st = true -> html_rec_ok st.
Proof. unfold html_rec_okb, html_rec_ok. rewrite !andb_true_iff. intros (((A & B) & C) & D). auto using cats_wfb_ok. Qed.

Definition rec_nodes (st : text * tree) : option (list hnode) :=
  option_map (fun ns => [p_node (k_logprob ++ fst st); math_node ns]) (mathml_nodes (snd st)).
Definition sent_nodes (g : nat * list (text * tree)) : option (list hnode) :=
  match snd g with
  | [] => None
  | (_, t0) :: _ =>
      match tree_word t0, ocat (map rec_nodes (snd g)) with
      | Some ws, Some body => Some (p_node (k_id ++ show_nat (fst g) ++ k_colon_sp ++ ws) :: body)
      | _, _ => None
      end
  end.

Lemma rec_ser st : html_rec_ok st -> html_record st = option_map hser_list (rec_nodes st).
Proof.
  intros (Hs & _). unfold html_record, rec_nodes. rewrite mathml_subtree_ser. destruct (mathml_nodes (snd st)) as [ns|]; [|reflexivity].
  cbn [option_map]. f_equal. rewrite (p_prob_ser _ Hs), math_ser, !hser_list_cons, hser_list_nil, app_nil_r. reflexivity.
Qed.

Lemma sent_ser g : Forall html_rec_ok (snd g) -> html_sentence g = option_map hser_list (sent_nodes g).
Proof.
  intros H. unfold html_sentence, sent_nodes. destruct (snd g) as [|[s0 t0] r] eqn:Eg; [reflexivity|].
  destruct (tree_word t0) as [ws|]; [|reflexivity].
  rewrite (concat_opt_ser html_record rec_nodes ((s0, t0) :: r)); [|eapply Forall_impl; [|exact H]; exact rec_ser].
  destruct (ocat (map rec_nodes ((s0, t0) :: r))) as [body|]; [|reflexivity]. cbn [option_map]. f_equal.
  now rewrite p_id_ser, hser_list_cons.
Qed.

(* what is printed for the sentences is a non-empty list of well-formed elements *)
Lemma hnorm_p s : s <> [] -> hnorm (p_node s) = true.
Proof. intros H. destruct s as [|c s]; [congruence | reflexivity]. Qed.

Lemma rec_nodes_norm st ns : html_rec_ok st -> rec_nodes st = Some ns -> forallb hnorm ns = true /\ forallb is_el ns = true.
Proof.
  intros (_ & _ & _ & Ht) E. unfold rec_nodes in E. destruct (mathml_nodes (snd st)) as [kids|] eqn:Ek; [|discriminate].
  cbn [option_map] in E. apply some_inj in E. subst ns. split; [|reflexivity].
  cbn [forallb]. rewrite hnorm_p by discriminate. unfold math_node. rewrite hnorm_el, math_attrs_ok, (hnorm_mathml_nodes (snd st) kids Ht Ek). reflexivity.
Qed.

Lemma ocat_norm {X : Type} (g : X -> option (list hnode)) l : forall ns,
  Forall (fun x => forall n, g x = Some n -> forallb hnorm n = true /\ forallb is_el n = true) l ->
  ocat (map g l) = Some ns -> forallb hnorm ns = true /\ forallb is_el ns = true.
Proof.
  induction l as [|x l IH]; intros ns H E; cbn [map ocat] in E; [apply some_inj in E; subst; split; reflexivity|].
  apply Forall_cons_iff in H as [Hx H]. destruct (g x) as [a|] eqn:Ea; [|discriminate].
  destruct (ocat (map g l)) as [y|] eqn:Ey; [|discriminate]. apply some_inj in E. subst ns.
  destruct (Hx a eq_refl) as [A1 A2]. destruct (IH y H eq_refl) as [B1 B2]. now rewrite !forallb_app, A1, A2, B1, B2.
Qed.

Lemma sent_nodes_norm g ns : Forall html_rec_ok (snd g) -> sent_nodes g = Some ns ->
  forallb hnorm ns = true /\ forallb is_el ns = true /\ ns <> [].
Proof.
  intros H E. unfold sent_nodes in E. destruct (snd g) as [|[s0 t0] r] eqn:Eg; [discriminate|].
  destruct (tree_word t0) as [ws|]; [|discriminate]. destruct (ocat (map rec_nodes ((s0, t0) :: r))) as [body|] eqn:Eb; [|discriminate].
  apply some_inj in E. subst ns.
  destruct (ocat_norm rec_nodes ((s0, t0) :: r) body) as [B1 B2]; [|exact Eb|].
  { eapply Forall_impl; [|exact H]. intros st Hst n. now apply rec_nodes_norm. }
  cbn [forallb]. rewrite hnorm_p by discriminate. rewrite B1, B2. repeat split; discriminate.
Qed.

Lemma Forall_groups (P : list (text * tree) -> Prop) b : forall k, Forall P b -> Forall (fun g : nat * list (text * tree) => P (snd g)) (number_groups k b).
Proof. induction b as [|ts b IH]; intros k H; cbn [number_groups]; [constructor|]. apply Forall_cons_iff in H as [H1 H2]. constructor; [exact H1 | now apply IH]. Qed.

(* ================= reading the body elements ================= *)
Lemma classify_id k ws : classify (p_node (k_id ++ show_nat k ++ k_colon_sp ++ ws)) = BId k ws.
Proof.
  unfold p_node, classify. change (text_eqb t_p t_p) with true. cbv iota. cbn [h_text_of]. rewrite app_nil_r, strip_prefix_app.
  rewrite (span_until_app (fun c => negb (is_digit c)) (show_nat k) (k_colon_sp ++ ws)); [| |reflexivity].
  - now rewrite read_nat_show, strip_prefix_app.
  - pose proof (show_nat_digits k) as H. induction (show_nat k) as [|c s IH]; [reflexivity|]. cbn [forallb] in *.
    apply andb_true_iff in H as [Hc H]. now rewrite Hc, (IH H).
Qed.

Lemma classify_prob s : classify (p_node (k_logprob ++ s)) = BProb s.
Proof.
  unfold p_node, classify. change (text_eqb t_p t_p) with true. cbv iota. cbn [h_text_of]. rewrite app_nil_r.
  change (strip_prefix k_id (k_logprob ++ s)) with (@None text). cbv iota. now rewrite strip_prefix_app.
Qed.

Lemma classify_math kids : classify (math_node kids) = BMath kids.
Proof. reflexivity. Qed.

Definition rcd (r : nat * nat * (text * tree)) : option html_rec :=
  option_map (fun v => (fst (fst r), snd (fst r), fst (snd r), v)) (view_html (snd (snd r))).
Definition hdr (g : nat * list (text * tree)) : option (nat * text) :=
  match snd g with (_, t0) :: _ => option_map (fun w => (fst g, w)) (tree_word t0) | [] => None end.

Lemma opt_list_app {A : Type} (a b : list (option A)) x y : opt_list a = Some x -> opt_list b = Some y -> opt_list (a ++ b) = Some (x ++ y).
Proof.
  revert x. induction a as [|o a IH]; intros x Ea Eb; cbn [opt_list app] in *; [apply some_inj in Ea; now subst|].
  destruct o as [v|]; [|discriminate]. destruct (opt_list a) as [x'|]; [|discriminate]. apply some_inj in Ea. subst x.
  now rewrite (IH x' eq_refl Eb).
Qed.

Lemma dec_items_trees k : forall trees i ns rest out, Forall html_rec_ok trees -> ocat (map rec_nodes trees) = Some ns ->
  (forall cur, dec_items cur rest = Some out) ->
  exists rs, opt_list (map rcd (number_trees k i trees)) = Some rs /\
             dec_items (Some (k, i)) (map classify ns ++ rest) = Some (rs ++ out) /\ dec_headers (map classify ns) = [].
Proof.
  induction trees as [|[s t] trees IH]; intros i ns rest out H E Hrest; cbn [map ocat] in E.
  - apply some_inj in E. subst ns. exists []. split; [reflexivity|]. split; [apply Hrest | reflexivity].
  - apply Forall_cons_iff in H as [Hst H]. unfold rec_nodes at 1 in E. cbn [fst snd] in E.
    destruct (mathml_nodes t) as [kids|] eqn:Ek; [|discriminate]. cbn [option_map] in E.
    destruct (ocat (map rec_nodes trees)) as [ns'|] eqn:En; [|discriminate]. apply some_inj in E. subst ns.
    destruct (IH (S i) ns' rest out H eq_refl Hrest) as (rs & Ers & Ed & Eh).
    destruct Hst as (_ & Hc & Hn & _). cbn [snd] in Hc, Hn. destruct (html_roundtrip_list t kids Hc Hn Ek) as [Edec Hv].
    destruct (view_html t) as [v|] eqn:Ev; [|congruence].
    exists ((k, i, s, v) :: rs). cbn [number_trees map opt_list]. unfold rcd at 1. cbn [fst snd]. rewrite Ev. cbn [option_map]. rewrite Ers.
    split; [reflexivity|]. cbn [app map]. rewrite classify_prob, classify_math. cbn [dec_items]. rewrite Edec, Ed.
    split; [reflexivity|]. cbn [dec_headers flat_map app] in *. exact Eh.
Qed.

Lemma sent_nodes_some g ns : sent_nodes g = Some ns ->
  exists s0 t0 r ws body, snd g = (s0, t0) :: r /\ tree_word t0 = Some ws /\ ocat (map rec_nodes (snd g)) = Some body /\
                          ns = p_node (k_id ++ show_nat (fst g) ++ k_colon_sp ++ ws) :: body.
Proof.
  unfold sent_nodes. destruct (snd g) as [|[s0 t0] r]; [discriminate|]. destruct (tree_word t0) as [ws|] eqn:Ew; [|discriminate].
  destruct (ocat (map rec_nodes ((s0, t0) :: r))) as [body|] eqn:Eb; [|discriminate]. intros E. apply some_inj in E. subst ns.
  exists s0, t0, r, ws, body. repeat split; assumption || reflexivity.
Qed.

Lemma dec_items_groups : forall b k ns, Forall (Forall html_rec_ok) b -> ocat (map sent_nodes (number_groups k b)) = Some ns ->
  exists rs hs, opt_list (map rcd (number_from k b)) = Some rs /\ opt_list (map hdr (number_groups k b)) = Some hs /\
                (forall cur, dec_items cur (map classify ns) = Some rs) /\ dec_headers (map classify ns) = hs.
Proof.
  induction b as [|trees b IH]; intros k ns H E; cbn [number_groups map ocat] in E.
  - apply some_inj in E. subst ns. exists [], []. repeat split; reflexivity.
  - apply Forall_cons_iff in H as [Ht H].
    destruct (sent_nodes (k, trees)) as [sn|] eqn:Es; [|discriminate].
    destruct (ocat (map sent_nodes (number_groups (S k) b))) as [ns'|] eqn:En; [|discriminate]. apply some_inj in E. subst ns.
    destruct (sent_nodes_some _ _ Es) as (s0 & t0 & r & ws & body & Etr & Ew & Eb & ->). cbn [fst snd] in Etr, Eb |- *.
    destruct (IH (S k) ns' H En) as (rs' & hs' & Ers' & Ehs' & Ed' & Eh').
    destruct (dec_items_trees k trees 1%nat body (map classify ns') rs' Ht Eb Ed') as (rs1 & Ers1 & Ed1 & Eh1).
    exists (rs1 ++ rs'), ((k, ws) :: hs'). split; [|split; [|split]].
    + cbn [number_from]. rewrite map_app. now apply opt_list_app.
    + cbn [number_groups map opt_list]. unfold hdr at 1. cbn [fst snd]. rewrite Etr, Ew. cbn [option_map]. now rewrite Ehs'.
    + intros cur. cbn [app map]. rewrite classify_id. cbn [dec_items]. rewrite map_app. exact Ed1.
    + cbn [app map]. rewrite classify_id, map_app. unfold dec_headers in *. cbn [flat_map]. rewrite flat_map_app, Eh1, Eh'. reflexivity.
Qed.

(* ================= the round trip of the whole document ================= *)
Lemma html_doc_views_eq b : html_doc_views b =
  match opt_list (map hdr (number_groups 1 b)), opt_list (map rcd (number_from 1 b)) with Some h, Some r => Some (h, r) | _, _ => None end.
Proof. reflexivity. Qed.

Theorem html_doc_roundtrip : forall b txt, Forall (Forall html_rec_ok) b -> html_doc b = Some txt ->
  dec_html_doc txt = html_doc_views b /\ html_doc_views b <> None.
Proof.
  intros b txt H E. unfold html_doc in E. destruct b as [|ts0 b0] eqn:Eb0; [discriminate|]. rewrite <- Eb0 in *.
  assert (E1 : match concat_opt (map html_sentence (number_groups 1 b)) with Some r => fformat html_main_template [r] | None => None end = Some txt)
    by (subst b; exact E). clear E.
  pose proof (Forall_groups (Forall html_rec_ok) b 1 H) as Hg.
  rewrite (concat_opt_ser html_sentence sent_nodes) in E1; [|eapply Forall_impl; [|exact Hg]; exact sent_ser].
  destruct (ocat (map sent_nodes (number_groups 1 b))) as [els|] eqn:Eels; [|discriminate]. cbn [option_map] in E1.
  rewrite (fformat_1 _ _ _ _ main_parse) in E1. apply some_inj in E1. subst txt.
  (* the elements *)
  destruct (ocat_norm sent_nodes (number_groups 1 b) els) as [Hnorm Hel]; [|exact Eels|].
  { eapply Forall_impl; [|exact Hg]. intros g Hgg n En. destruct (sent_nodes_norm g n Hgg En) as (A & B & _). now split. }
  assert (Hne : els <> []).
  { subst b. cbn [number_groups map ocat] in Eels. destruct (sent_nodes (1%nat, ts0)) as [n0|] eqn:E0; [|discriminate].
    apply Forall_cons_iff in H as [H0 _]. destruct (sent_nodes_norm (1%nat, ts0) n0 H0 E0) as (_ & _ & N0).
    destruct (ocat (map sent_nodes (number_groups 2 b0))) as [y|]; [|discriminate]. apply some_inj in Eels. subst els.
    destruct n0; [congruence | discriminate]. }
  destruct main_lead_text as [Llead Wlead]. destruct main_trail_text as [Ltrail Wtrail].
  set (body := otext main_lead_t ++ els ++ otext main_trail_t).
  assert (Ebody : main_lead ++ hser_list els ++ main_post = hser_list body ++ x_body_close ++ main_tail).
  { unfold body. rewrite !hser_list_app, !hser_otext, Llead, Ltrail, main_post_split, <- !app_assoc. reflexivity. }
  unfold dec_html_doc, dec_html_frame.
  rewrite (find_split_app _ _ _ _ (hser_list els ++ main_post) main_pre_split), main_before_ok, Ebody.
  rewrite (hparse_nodes_ser _ body (x_body_close ++ main_tail)); [| | split; reflexivity | lia].
  2:{ unfold body. now apply frame_norm. }
  rewrite strip_prefix_app, main_tail_ok.
  fold keep_node. unfold body. rewrite (filter_frame _ _ els Wlead Wtrail Hel).
  destruct (dec_items_groups b 1%nat els H Eels) as (rs & hs & Ers & Ehs & Ed & Eh).
  rewrite (Ed None), Eh. cbn [option_map].
  rewrite html_doc_views_eq, Ehs, Ers.
  split; [reflexivity | discriminate].
Qed.

(* what html_doc_views holds, record by record *)
Lemma opt_list_some {A : Type} (l : list (option A)) : forall rs, opt_list l = Some rs -> map Some rs = l.
Proof.
  induction l as [|o l IH]; intros rs E; cbn [opt_list] in E; [apply some_inj in E; now subst|].
  destruct o as [x|]; [|discriminate]. destruct (opt_list l) as [y|]; [|discriminate]. apply some_inj in E. subst rs.
  cbn [map]. now rewrite (IH y eq_refl).
Qed.

Lemma html_doc_views_spec b hs rs : html_doc_views b = Some (hs, rs) ->
  map Some rs = map rcd (number_batch b) /\ map Some hs = map hdr (number_groups 1 b).
Proof.
  rewrite html_doc_views_eq. destruct (opt_list (map hdr (number_groups 1 b))) as [h|] eqn:Eh; [|discriminate].
  destruct (opt_list (map rcd (number_from 1 b))) as [r|] eqn:Er; [|discriminate]. intros E. apply some_inj in E. inversion E; subst.
  split; [exact (opt_list_some _ _ Er) | exact (opt_list_some _ _ Eh)].
Qed.

(* non-vacuity: two sentences, two trees in the first, escaped characters in words, scores as Python prints them *)
Definition html_doc_example : list (list (text * tree)) :=
  [[([45; 49; 46; 50; 51; 52; 53; 48; 101; 43; 48; 48], html_example);
    ([45; 105; 110; 102], Leaf (Atom [78; 80] FNone) [(k_word, [38; 60])] s_lex s_lexsym)];
   [([45; 50; 46; 48; 48; 48; 48; 48; 101; 45; 48; 49], Leaf (Atom [78] FNone) [(k_word, [39; 34])] s_lex s_lexsym)]].
Lemma html_doc_example_ok : forallb (forallb html_rec_okb) html_doc_example = true /\
  option_map dec_html_doc (html_doc html_doc_example) = Some (html_doc_views html_doc_example) /\
  option_map (fun v => (map fst (fst v), map (fun r : html_rec => fst (fst r)) (snd v))) (html_doc_views html_doc_example) =
    Some ([1; 2]%nat, [(1, 1); (1, 2); (2, 1)]%nat).
Proof. vm_compute. repeat split. Qed.

(* ================= the constants of FmtHtml.v are the source's =================
   FmtHtml.v writes the two templates of _mathml_subtree and the two f-strings of _mathml_cat as its own constants (x_term_*, x_non_*,
   x_mi_*, x_msub_open, x_feat_*; the theorems about mathml_subtree compute with them).  The generated GenFmt.v has the same four texts as the
   source writes them; here they are compared, by computation on every build: formatting the source's templates IS fmt_terminal /
   fmt_nonterminal (the fourth argument of the non-terminal template, the bgcolor attribute, is the empty text), and the f-strings of the
   source give mathml_piece. *)
Lemma gen_terminal_parse : fparse html_terminal_template = Some [FLit x_term_a; FArg 0%nat; FLit x_term_b; FArg 1%nat; FLit x_term_c].
Proof. vm_compute. reflexivity. Qed.
Definition non_a1 : text := Eval vm_compute in match fparse html_nonterminal_template with Some (FLit a :: _) => a | _ => [] end.
Definition non_a2 : text := Eval vm_compute in match fparse html_nonterminal_template with Some (_ :: _ :: FLit a :: _) => a | _ => [] end.
Lemma gen_nonterminal_parse :
  fparse html_nonterminal_template =
    Some [FLit non_a1; FArg 3%nat; FLit non_a2; FArg 0%nat; FLit x_non_b; FArg 1%nat; FLit x_non_c; FArg 2%nat; FLit x_non_d] /\
  non_a1 ++ non_a2 = x_non_a.
Proof. vm_compute. split; reflexivity. Qed.

Lemma terminal_format w c : fformat html_terminal_template [w; c] = Some (fmt_terminal w c).
Proof.
  unfold fformat. rewrite gen_terminal_parse. cbn [fsubst nth_error option_map]. unfold fmt_terminal. now rewrite app_nil_r.
Qed.

Lemma nonterminal_format ch c r : fformat html_nonterminal_template [ch; c; r; []] = Some (fmt_nonterminal ch c r).
Proof.
  destruct gen_nonterminal_parse as [E Ea]. unfold fformat. rewrite E. cbn [fsubst nth_error option_map]. unfold fmt_nonterminal.
  rewrite <- Ea, app_nil_r, <- !app_assoc. reflexivity.
Qed.

Lemma gen_mi_lits : html_mi_lits = [x_mi_cat_open; x_mi_close].
Proof. vm_compute. reflexivity. Qed.
Lemma gen_msub_lits : html_msub_lits = [x_msub_open; x_feat_open; x_feat_close].
Proof. vm_compute. reflexivity. Qed.

Lemma mathml_piece_fstr p :
  mathml_piece p = let mi := fstr html_mi_lits [html_escape (fst p)] in
                   match html_escape (snd p) with [] => mi | f => fstr html_msub_lits [mi; f] end.
Proof.
  unfold mathml_piece. rewrite gen_mi_lits, gen_msub_lits. cbv zeta. cbn [fstr]. rewrite !app_nil_r.
  destruct (html_escape (snd p)); [reflexivity|]. now rewrite <- !app_assoc.
Qed.
