(* C06 - Pattern matching of categories succeeds exactly when it should.  Property theorems + examples only.
   Model: Unify.v (class Unification of depccg/unification.py).  Specification: UnifySpec.v.  Lemmas: UnifyProofs.v.
   The pattern pairs of the grammars are regenerated from depccg/grammar/{en,ja}.py on every run (GenUnif.v). *)
From Coq Require Import List NArith Bool.
Import ListNotations.
Require Import Cat CatFacts Unify UnifySpec UnifyProofs GenUnif.
Open Scope N_scope.

(* ---- success: exactly when shape, agreement of the variables and compatibility of the compared features hold.
   `compat_ok a b` is `compat a b = Ok_ true`: the test succeeds AND does not raise - that is the precise
   no-error side condition; it is part of the right-hand side, not an extra hypothesis. ---- *)
Theorem C06_success_iff : forall px py x y,
  (exists st, unify px py x y = Ok_ (Some st)) <->
  shape px x /\ shape py y /\ vars_agree (bindings px py x y) /\ feats_compatible (obinds px x) (obinds py y).
Proof. exact unify_success_iff. Qed.

(* what "compatible" means, feature by feature, and when the test raises *)
Theorem C06_compat_meaning : forall a b, compat a b = Ok_ true <-> compatible_decl a b.
Proof. exact compat_true_iff. Qed.
Theorem C06_compat_raises : forall a b e, compat a b = Err e <-> e = AttrErr /\ compat_raises a b.
Proof. exact compat_err_iff. Qed.

(* ---- otherwise: False; an exception is possible only if the two inputs mix the feature systems ---- *)
Theorem C06_failure_iff : forall px py x y, one_system x y ->
  (unify px py x y = Ok_ None <-> ~ (shape px x /\ shape py y /\ vars_agree (bindings px py x y) /\ feats_compatible (obinds px x) (obinds py y))).
Proof. exact unify_fail_iff. Qed.
Theorem C06_no_error : forall px py x y e, one_system x y -> unify px py x y <> Err e.
Proof. exact unify_no_error. Qed.
Theorem C06_not_success : forall px py x y, ~ matches px py x y -> unify px py x y = Ok_ None \/ unify px py x y = Err AttrErr.
Proof. exact unify_not_matches. Qed.
(* a wrong shape or disagreeing variables give False in every feature system (the loop is never reached) *)
Theorem C06_shape_or_agreement_failure : forall px py x y,
  ~ (shape px x /\ shape py y /\ vars_agree (bindings px py x y)) -> unify px py x y = Ok_ None.
Proof. exact unify_fail_shape_agree. Qed.
Theorem C06_error_only_if : forall px py x y e, unify px py x y = Err e ->
  e = AttrErr /\ exists bx by_ a b, binds px x = Some bx /\ binds py y = Some by_ /\ vars_agree (bx ++ by_) /\
                                   compared bx by_ a b /\ compat a b = Err AttrErr.
Proof. exact unify_error_inv. Qed.

(* ... and that hypothesis cannot be dropped: "False otherwise" is refuted when the inputs mix the feature systems *)
Theorem C06_otherwise_false_mixed_refuted : exists px py x y, ~ matches px py x y /\ unify px py x y = Err AttrErr.
Proof. exact otherwise_false_mixed_witness. Qed.
(* the exact outcome once shape and agreement hold: the tests `comparisons` are run in order (variables in order of
   first occurrence in the first pattern, leaves left to right); the first test that is not true decides *)
Theorem C06_outcome : forall px py x y bx by_, binds px x = Some bx -> binds py y = Some by_ -> vars_agree (bx ++ by_) ->
  unify px py x y =
  match run_tests (comparisons bx by_) with
  | Err e => Err e
  | Ok_ false => Ok_ None
  | Ok_ true => Ok_ (Some {| ucats := set_all (bx ++ by_) []; umap := build_map (comparisons bx by_) [] |})
  end.
Proof. exact unify_outcome_ordered. Qed.
Theorem C06_error_iff : forall px py x y e, unify px py x y = Err e <->
  e = AttrErr /\ exists bx by_ pre a b post, binds px x = Some bx /\ binds py y = Some by_ /\ vars_agree (bx ++ by_) /\
     comparisons bx by_ = pre ++ (a, b) :: post /\ all_ok pre /\ compat a b = Err AttrErr.
Proof. exact unify_error_iff. Qed.
Theorem C06_false_iff : forall px py x y, unify px py x y = Ok_ None <->
  ~ (shape px x /\ shape py y /\ vars_agree (bindings px py x y)) \/
  exists bx by_ pre a b post, binds px x = Some bx /\ binds py y = Some by_ /\ vars_agree (bx ++ by_) /\
     comparisons bx by_ = pre ++ (a, b) :: post /\ all_ok pre /\ compat a b = Ok_ false.
Proof. exact unify_false_iff. Qed.

(* ---- bindings ---- *)
Theorem C06_binding_shape : forall px py x y st v c, unify px py x y = Ok_ (Some st) -> uget st v = Ok_ c ->
  exists c0, last_binding v (bindings px py x y) = Some c0 /\ binding_of (obinds px x) (obinds py y) c c0.
Proof. exact binding_shape. Qed.
Theorem C06_binding_xor : forall px py x y st v c, unify px py x y = Ok_ (Some st) -> uget st v = Ok_ c ->
  exists c0, last_binding v (bindings px py x y) = Some c0 /\ cat_xor c c0 = true.
Proof. exact binding_xor. Qed.
(* exactly: every variable feature stands for the feature it was last instantiated with *)
Theorem C06_binding_exact : forall px py x y st v c, unify px py x y = Ok_ (Some st) -> uget st v = Ok_ c ->
  exists c0, last_binding v (bindings px py x y) = Some c0 /\ skeleton c = skeleton c0 /\
             leaf_feats c = map (instantiate_feat (comparisons (obinds px x) (obinds py y))) (leaf_feats c0).
Proof. exact binding_exact. Qed.
Theorem C06_binding_feats_from_inputs : forall px py x y st v c f, unify px py x y = Ok_ (Some st) -> uget st v = Ok_ c ->
  In f (leaf_feats c) -> In f (leaf_feats x ++ leaf_feats y).
Proof. exact binding_feats_from_inputs. Qed.
Theorem C06_bound_vars_readable : forall px py x y st v, unify px py x y = Ok_ (Some st) ->
  In v (pattern_vars px ++ pattern_vars py) -> exists c, uget st v = Ok_ c.
Proof. exact bound_vars_readable. Qed.
Theorem C06_missing_var_keyerror : forall px py x y st v, unify px py x y = Ok_ (Some st) ->
  ~ In v (pattern_vars px ++ pattern_vars py) -> uget st v = Err KeyErr.
Proof. exact missing_var_keyerror. Qed.
Theorem C06_binding_ground : forall px py x y st v c0, unify px py x y = Ok_ (Some st) ->
  last_binding v (bindings px py x y) = Some c0 -> Forall (fun f => is_variable f = false) (leaf_feats c0) -> uget st v = Ok_ c0.
Proof. exact binding_ground. Qed.
Theorem C06_binding_unchanged : forall px py x y st v c0, unify px py x y = Ok_ (Some st) ->
  last_binding v (bindings px py x y) = Some c0 -> (forall a b, compared (obinds px x) (obinds py y) a b -> a = b) -> uget st v = Ok_ c0.
Proof. exact binding_unchanged. Qed.

(* ---- the object protocol ---- *)
Theorem C06_no_read_after_failure : forall px py x y o v, ucall (UFresh px py) x y = Ok_ (false, o) -> uread o v = Err AssertErr.
Proof. exact no_read_after_failure. Qed.
Theorem C06_no_read_before_call : forall px py v, uread (UFresh px py) v = Err AssertErr.
Proof. exact no_read_before_call. Qed.
Theorem C06_answers_once : forall st x y, ucall (UDone st) x y = Err Twice.
Proof. exact answers_once. Qed.
Theorem C06_answers_once_after_call : forall o x y b o' x' y', ucall o x y = Ok_ (b, o') -> ucall o' x' y' = Err Twice.
Proof. exact answers_once_after_call. Qed.
Theorem C06_read_after_success : forall px py x y o v, ucall (UFresh px py) x y = Ok_ (true, o) ->
  exists st, unify px py x y = Ok_ (Some st) /\ uread o v = uget st v.
Proof. exact read_after_success. Qed.

(* ---- patterns without a repeated variable inside one pattern (all grammar patterns) ---- *)
Theorem C06_grammar_patterns_linear :
  forallb (fun p => linear_pattern (fst p) && linear_pattern (snd p)) (en_pairs ++ ja_pairs) = true.
Proof. vm_compute. reflexivity. Qed.
Theorem C06_linear_last_binding : forall p t bs v c, linear_pattern p = true -> binds p t = Some bs ->
  (last_binding v bs = Some c <-> In (v, c) bs).
Proof. exact linear_last_binding. Qed.
Theorem C06_linear_vars_agree : forall px py x y bx by_, linear_pattern px = true -> linear_pattern py = true ->
  binds px x = Some bx -> binds py y = Some by_ ->
  (vars_agree (bx ++ by_) <-> forall v cx cy, In (v, cx) bx -> In (v, cy) by_ -> cat_xor cx cy = true).
Proof. exact linear_vars_agree. Qed.
(* x_features keys in order; the shared keys are those of the variables occurring in both patterns *)
Theorem C06_linear_shared : forall px py x y bx by_ c1 xf c2 yf, linear_pattern px = true -> linear_pattern py = true ->
  binds px x = Some bx -> binds py y = Some by_ -> scan px x [] [] = (true, c1, xf) -> scan py y c1 [] = (true, c2, yf) ->
  map fst xf = flat_map (fun vc => map fst (entries vc)) bx /\
  shared xf yf = flat_map (fun vc => map fst (entries vc)) (filter (fun vc => text_in (fst vc) (pattern_vars py)) bx).
Proof. exact linear_shared. Qed.

(* ---- non-vacuity ---- *)
(* "a/b", "b" against S[X]/NP[X], NP[mod]  (the example of the class docstring): a = S[mod] *)
Definition ex_px : cat := fst (nth 0 en_pairs (Atom [] FNone, Atom [] FNone)).
Definition ex_py : cat := snd (nth 0 en_pairs (Atom [] FNone, Atom [] FNone)).
Definition ex_x : cat := Fun (Atom [83] (FUn [88])) [cSL] (Atom [78;80] (FUn [88])).
Definition ex_y : cat := Atom [78;80] (FUn [109;111;100]).
Example ex_matches : matches ex_px ex_py ex_x ex_y.
Proof.
  apply matches_inv. exists [([97], Atom [83] (FUn [88])); ([98], Atom [78;80] (FUn [88]))], [([98], ex_y)].
  repeat split; try reflexivity.
  - apply vars_agreeb_ok. vm_compute. reflexivity.
  - apply feats_compatibleb_ok. vm_compute. reflexivity.
Qed.
Example ex_success : option_map (fun st => (uget st [97], uget st [98], uget st [99]))
                       (match unify ex_px ex_py ex_x ex_y with Ok_ r => r | Err _ => None end)
  = Some (Ok_ (Atom [83] (FUn [109;111;100])), Ok_ (Atom [78;80] (FUn [109;111;100])), Err KeyErr).
Proof. vm_compute. reflexivity. Qed.
(* a feature clash: False, and nothing can be read *)
Example ex_clash : ucall (UFresh ex_px ex_py) (Fun (Atom [83] FNone) [cSL] (Atom [78;80] (FUn [100]))) (Atom [78;80] (FUn [101]))
  = Ok_ (false, UDone None).
Proof. vm_compute. reflexivity. Qed.
(* mixed feature systems: a unary feature that is neither absent, nb nor X meets a triple -> AttributeError *)
Example ex_mixed_error : unify ex_px ex_py (Fun (Atom [83] FNone) [cSL] (Atom [78;80] (FUn [100])))
                                           (Atom [78;80] (FTer [97] [98] [99] [100] [101] [102])) = Err AttrErr.
Proof. vm_compute. reflexivity. Qed.
Example ex_one_system : one_system ex_x ex_y.
Proof. left. split; repeat constructor. Qed.
(* a repeated variable inside one pattern: "a/a" against S/NP fails, against (S/NP)|(S[b]/NP) ... succeeds with the LAST binding *)
Definition ex_rep : cat := Fun (Atom [97] FNone) [cSL] (Atom [97] FNone).
Example ex_repeated : (match unify ex_rep (Atom [98] FNone) (Fun (Atom [83] (FUn [98])) [cSL] (Atom [83] (FUn [100]))) (Atom [78] FNone) with
                       | Ok_ (Some st) => uget st [97] | _ => Err TypeErr end) = Ok_ (Atom [83] (FUn [100]))
                      /\ unify ex_rep (Atom [98] FNone) (Fun (Atom [83] FNone) [cSL] (Atom [78] FNone)) (Atom [78] FNone) = Ok_ None.
Proof. split; vm_compute; reflexivity. Qed.
(* one variable feature meets two values: the later test wins ("a/b", "b" with b = NP[X]/N[X] against NP[dcl]/N[b]) *)
Example ex_last_wins :
  (match unify ex_px ex_py (Fun (Atom [83] (FUn [88])) [cSL] (Fun (Atom [78;80] (FUn [88])) [cSL] (Atom [78] (FUn [88]))))
                           (Fun (Atom [78;80] (FUn [100;99;108])) [cSL] (Atom [78] (FUn [98]))) with
   | Ok_ (Some st) => uget st [97] | _ => Err TypeErr end) = Ok_ (Atom [83] (FUn [98])).
Proof. vm_compute. reflexivity. Qed.
