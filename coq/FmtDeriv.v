(* C07 (stretch) - printer/deriv.py: the ASCII-art derivation.  Structured output (cells of the two top lines, one
   dash line + category line per inner node, in post-order, with column extents), its rendering as text, and an
   independent reader of the structured form: an interval stack over *columns*.   MODEL ONLY. *)
From Coq Require Import List NArith ZArith Bool Arith.
Import ListNotations.
Require Import Cat Tree Fmt.
Local Open Scope nat_scope.

Definition cell := (cat * text)%type.                       (* leaf category, word *)
Definition cell_width (x : cell) : nat := 2 + Nat.max (length (show (fst x))) (length (snd x)).

Fixpoint leaf_cells (t : tree) : option (list cell) :=
  match t with
  | Leaf c tok _ _ => match leaf_word tok with Some w => Some [(c, w)] | None => None end     (* KeyError: 'word' *)
  | Un _ _ _ t1 => leaf_cells t1
  | Bin _ _ _ _ l r => match leaf_cells l, leaf_cells r with Some a, Some b => Some (a ++ b) | _, _ => None end
  end.

(* one inner node: the dash line spans the columns [lo, hi), then the rule symbol; the next line is the category *)
Inductive dline := DNode (lo hi : nat) (sym : text) (c : cat).

(* deriv_of.rec(lwidth, node): the lines printed and the returned rwidth *)
Fixpoint deriv_rec (t : tree) (lw : nat) : option (list dline * nat) :=
  match t with
  | Leaf c tok _ _ =>
      match leaf_word tok with
      | Some w => Some ([], Nat.max lw (Nat.max (2 + lw + length (show c)) (2 + lw + length w)))
      | None => None
      end
  | Un c _ sym t1 =>
      match deriv_rec t1 lw with
      | Some (l1, r1) => let rw := Nat.max lw r1 in Some (l1 ++ [DNode lw rw sym c], rw)
      | None => None
      end
  | Bin c _ sym _ l r =>
      match deriv_rec l lw with
      | Some (l1, r1) =>
          let rwa := Nat.max lw r1 in
          match deriv_rec r rwa with
          | Some (l2, r2) => let rwb := Nat.max rwa r2 in Some (l1 ++ l2 ++ [DNode lw rwb sym c], rwb)
          | None => None
          end
      | None => None
      end
  end.

Definition deriv_struct (t : tree) : option (list cell * list dline) :=
  match leaf_cells t, deriv_rec t 0 with
  | Some cells, Some (lines, _) => Some (cells, lines)
  | _, _ => None
  end.

(* ---------- rendering ---------- *)
Definition spaces (n : nat) : text := repeat cSP n.
Definition dashes (n : nat) : text := repeat 45%N n.
Definition center (width : nat) (s : text) : text :=
  let d := width - length s in spaces (d / 2) ++ s ++ spaces (d / 2 + d mod 2).
(* str.rstrip(): trailing characters with str.isspace() *)
Definition py_space : list N := [9; 10; 11; 12; 13; 28; 29; 30; 31; 32; 133; 160; 5760; 8192; 8193; 8194; 8195; 8196; 8197; 8198; 8199; 8200;
                                 8201; 8202; 8232; 8233; 8239; 8287; 12288]%N.
Fixpoint lstrip_ws (s : text) : text :=
  match s with [] => [] | x :: r => if existsb (N.eqb x) py_space then lstrip_ws r else s end.
Definition rstrip_ws (s : text) : text := rev (lstrip_ws (rev s)).

Definition render_node (d : dline) : text :=
  match d with
  | DNode lo hi sym c =>
      let res := show c in
      let pad := Z.to_nat (Z.div (Z.of_nat hi - Z.of_nat lo - Z.of_nat (length res)) 2 + Z.of_nat lo) in     (* // on Python ints; a negative count gives '' *)
      spaces lo ++ dashes (hi - lo) ++ sym ++ [10%N] ++ spaces pad ++ res ++ [10%N]
  end.
Definition print_deriv (t : tree) : option text :=
  match deriv_struct t with
  | Some (cells, lines) =>
      Some (rstrip_ws (concat (map (fun x => center (cell_width x) (show (fst x))) cells)) ++ [10%N] ++
            rstrip_ws (concat (map (fun x => center (cell_width x) (snd x)) cells)) ++ [10%N] ++
            concat (map render_node lines))
  | None => None
  end.

(* ---------- independent reader of the structured form ---------- *)
Definition view_deriv (t : tree) : option (view text) := project leaf_word LabSymbol false t.

Definition item := (nat * nat * view text)%type.            (* columns [start, end) and what was built over them *)
Definition dstate := (list item * list cell * nat)%type.      (* stack (top first), cells not yet pushed, column of the next cell *)

(* push leaves while they start left of column hi *)
Fixpoint flush (hi : nat) (cells : list cell) (col : nat) (stack : list item) : dstate :=
  match cells with
  | [] => (stack, [], col)
  | x :: r => if col <? hi then flush hi r (col + cell_width x) ((col, col + cell_width x, VLeaf (fst x) (snd x)) :: stack)
              else (stack, cells, col)
  end.
Fixpoint flush_all (cells : list cell) (col : nat) (stack : list item) : dstate :=
  match cells with
  | [] => (stack, [], col)
  | x :: r => flush_all r (col + cell_width x) ((col, col + cell_width x, VLeaf (fst x) (snd x)) :: stack)
  end.
(* pop the constituents that start at or right of column lo; returned left to right *)
Fixpoint pop_from (lo : nat) (stack : list item) (acc : list item) : list item * list item :=
  match stack with
  | (s, e, v) :: r => if lo <=? s then pop_from lo r ((s, e, v) :: acc) else (acc, stack)
  | [] => (acc, [])
  end.
Definition dstep (d : dline) (st : dstate) : option dstate :=
  match d, st with
  | DNode lo hi sym c, (stack, cells, col) =>
      match flush hi cells col stack with
      | (stack1, cells1, col1) =>
          match pop_from lo stack1 [] with
          | ([(s, e, v)], rest) =>
              if Nat.eqb s lo && Nat.eqb e hi then Some ((lo, hi, VUn c sym v) :: rest, cells1, col1) else None
          | ([(s, _, l); (_, e, r)], rest) =>
              if Nat.eqb s lo && Nat.eqb e hi then Some ((lo, hi, VBin c sym true l r) :: rest, cells1, col1) else None
          | _ => None
          end
      end
  end.
Fixpoint drun (ls : list dline) (st : dstate) : option dstate :=
  match ls with
  | [] => Some st
  | d :: r => match dstep d st with Some st' => drun r st' | None => None end
  end.
Definition dec_deriv (cells : list cell) (lines : list dline) : option (view text) :=
  match drun lines ([], cells, 0) with
  | Some (stack, cells1, col1) =>
      match flush_all cells1 col1 stack with
      | ([(_, _, v)], _, _) => Some v
      | _ => None
      end
  | None => None
  end.
