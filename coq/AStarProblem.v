(* Instantiation of the A* theorems on concrete problems (AStarCheck.problem: the record the correspondence cases are
   written in): the computed beam, best scores and table grammar satisfy the hypotheses of the abstract theorems. *)
From Coq Require Import List ZArith Lia Bool Arith Sorted.
Import ListNotations.
Require Import AStar AStarLoss AStarOpt AStarImpl AStarRefine AStarThms AStarReplay AStarCheck.
Open Scope Z_scope.

Lemma nat_eqb_eq a b : Nat.eqb a b = true <-> a = b. Proof. apply Nat.eqb_eq. Qed.

Lemma fold_max_ge (l : list Z) : forall x, x <= fold_left Z.max l x.
Proof. induction l as [|y l IH]; intros x; simpl; [lia|]. specialize (IH (Z.max x y)). lia. Qed.
Lemma fold_max_in (l : list Z) : forall x y, In y l -> y <= fold_left Z.max l x.
Proof.
  induction l as [|z l IH]; intros x y H; [destruct H|]. simpl. destruct H as [->|H].
  - pose proof (fold_max_ge l (Z.max x y)). lia.
  - now apply IH.
Qed.
Lemma zmax_ge l y : In y l -> y <= zmax l.
Proof.
  destruct l as [|x l]; [intros []|]. simpl. intros [->|H]; [apply fold_max_ge | now apply fold_max_in].
Qed.

Lemma p_dep_le p i j : p_depf p i j <= p_bestdep p i.
Proof.
  unfold p_depf, p_bestdep. set (row := nth i (p_dep p) []).
  destruct (nth_in_or_default j row (zmax row)) as [H|H]; [now apply zmax_ge | rewrite H; lia].
Qed.

Lemma p_tag_le p i c : (i < p_n p)%nat -> In c (p_adm p i) -> p_tagf p i c <= p_besttag p i.
Proof.
  intros _ H. unfold p_adm in H. apply beam_member in H as (_ & H & _). exact H.
Qed.

Definition uniformb (hdir : bool) (t : list (nat * nat * list (nat * bool))) : bool :=
  forallb (fun e => forallb (fun r => Bool.eqb (snd r) hdir) (snd e)) t.
Lemma lookup2_in t x y r : In r (lookup2 t x y) -> exists e, In e t /\ In r (snd e).
Proof.
  induction t as [|[[a b] rs] t IH]; simpl; [tauto|]. destruct (_ && _).
  - intros H. exists (a, b, rs). split; [now left | assumption].
  - intros H. destruct (IH H) as [e [He Hr]]. exists e. split; [now right | assumption].
Qed.
Lemma p_uniform p hdir : uniformb hdir (p_bin p) = true ->
  forall x y c hl, In (c, hl) (lookup2 (p_bin p) x y) -> hl = hdir.
Proof.
  intros H x y c hl Hin. apply lookup2_in in Hin as [e [He Hr]]. unfold uniformb in H. rewrite forallb_forall in H.
  specialize (H e He). rewrite forallb_forall in H. specialize (H _ Hr). simpl in H. now apply Bool.eqb_prop in H.
Qed.

(* shorthands *)
Definition p_reach (p : problem) : @jstate nat -> Prop :=
  jreach Nat.eqb (p_n p) (p_tagf p) (p_depf p) (p_adm p) (p_besttag p) (p_bestdep p) (lookup2 (p_bin p)) (lookup1 (p_un p))
         (p_isroot p) (p_pen p) (p_dedup p) (p_max_step p) (p_nbest p).
Definition p_licensed (p : problem) : @deriv nat -> Prop := licensed (p_n p) (p_adm p) (lookup2 (p_bin p)) (lookup1 (p_un p)).
Definition p_complete (p : problem) : @deriv nat -> Prop := complete (p_n p) (p_adm p) (lookup2 (p_bin p)) (lookup1 (p_un p)) (p_isroot p).
Definition p_score (p : problem) : @deriv nat -> Z := score (p_tagf p) (p_depf p) (p_pen p).
Definition p_ins (p : problem) : @deriv nat -> Z := dins (p_tagf p) (p_depf p) (p_pen p).
Definition p_running_b (p : problem) (st : @jstate nat) : bool := jrunning_b (p_max_step p) (p_nbest p) st.

Lemma p_accepts_reach p tr st : p_accepts p tr = Some st -> p_reach p st /\ p_running_b p st = false.
Proof. apply (accepts_reach Nat.eqb nat_eqb_eq). Qed.

(* ---- the beam has no duplicates ---- *)
From Coq Require Import Permutation.
Lemma insert_pair_perm a l : Permutation (insert_pair a l) (a :: l).
Proof.
  induction l as [|b r IH]; simpl; [reflexivity|]. destruct (pair_ltb b a); [reflexivity|].
  rewrite IH. apply perm_swap.
Qed.
Lemma sort_pairs_perm l : Permutation (sort_pairs l) l.
Proof. induction l as [|a l IH]; [reflexivity|]. unfold sort_pairs in *. simpl. rewrite insert_pair_perm. now constructor. Qed.
Lemma NoDup_firstn {A} m (l : list A) : NoDup l -> NoDup (firstn m l).
Proof.
  revert l; induction m as [|m IH]; intros [|x l] H; simpl; try constructor.
  - inversion H; subst. intros Hin. apply firstn_in in Hin. contradiction.
  - inversion H; subst. now apply IH.
Qed.
Lemma map_snd_combine_eq {A B} (l1 : list A) (l2 : list B) : length l1 = length l2 -> map snd (combine l1 l2) = l2.
Proof. revert l2; induction l1 as [|a l1 IH]; intros [|b l2] H; simpl in *; try discriminate; [reflexivity|]. f_equal. apply IH. lia. Qed.
Lemma firstn_map {A B} (f : A -> B) m l : firstn m (map f l) = map f (firstn m l).
Proof. revert l; induction m as [|m IH]; intros [|x l]; simpl; try reflexivity. now rewrite IH. Qed.

Lemma beam_nodup ub th pr row : NoDup (beam ub th pr row).
Proof.
  destruct (beam_spec ub th pr row) as (m & _ & -> & _). rewrite <- firstn_map. apply NoDup_firstn.
  apply (Permutation_NoDup (l := map snd (row_pairs row))).
  - apply Permutation_map. symmetry. apply sort_pairs_perm.
  - unfold row_pairs. rewrite map_snd_combine_eq by (now rewrite seq_length). apply seq_NoDup.
Qed.
Lemma p_adm_nodup p i : NoDup (p_adm p i).
Proof. apply beam_nodup. Qed.

Lemma jreach_goal_count {C} ceqb n tag dep adm bt bd bin un isroot pen dd ms nb (st : @jstate C) :
  jreach ceqb n tag dep adm bt bd bin un isroot pen dd ms nb st -> (length (jgoal st) <= nb)%nat.
Proof.
  induction 1 as [|st a Hr IH (H1 & H2 & H3) Hv]; [simpl; lia|].
  unfold jstep. destruct (jfin a); [simpl; rewrite app_length; simpl; lia|]. destruct (dd && existsb _ _); simpl; lia.
Qed.
