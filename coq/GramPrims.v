(* Primitives the translated grammar files (GenEn.v, GenJa.v) are written in.  MODEL ONLY. *)
From Coq Require Import List NArith Bool.
Import ListNotations.
Require Import Cat Unify.
Open Scope N_scope.

Definition is_fun (c : cat) : bool := match c with Fun _ _ _ => true | _ => false end.
Definition left_of (c : cat) : res cat := match c with Fun l _ _ => Ok_ l | _ => Err AttrErr end.
Definition right_of (c : cat) : res cat := match c with Fun _ _ r => Ok_ r | _ => Err AttrErr end.
Definition base_of (c : cat) : res text := match c with Atom b _ => Ok_ b | _ => Err AttrErr end.
Definition feature_of (c : cat) : res feat := match c with Atom _ f => Ok_ f | _ => Err AttrErr end.
(* c.functor(a, b) *)
Definition functor_of (c a b : cat) : res cat := match c with Fun _ s _ => Ok_ (Fun a s b) | _ => Err AttrErr end.
(* t[0] in string.ascii_letters *)
Definition first_is_ascii_letter (t : text) : res bool :=
  match t with [] => Err IndexErr | c :: _ => Ok_ ((N.leb 65 c && N.leb c 90) || (N.leb 97 c && N.leb c 122)) end.
(* x.arg(0).feature.items() : the (key, value) pairs of a feature triple; AttributeError on a unary feature *)
Definition arg_of (c : cat) (i : nat) : res cat := match arg c i with Some a => Ok_ a | None => Err AttrErr end.
Definition feature_items (f : feat) : res (list (text * text)) :=
  match f with FTer k1 v1 k2 v2 k3 v3 => Ok_ [(k1, v1); (k2, v2); (k3, v3)] | _ => Err AttrErr end.
Definition pair_in (k v : text) (l : list (text * text)) : bool :=
  existsb (fun kv => text_eqb k (fst kv) && text_eqb v (snd kv)) l.
Definition cat_in (c : cat) (l : list cat) : bool := existsb (cat_eqb c) l.

(* CombinatorResult *)
Record cres := { rcat : cat; op_string : text; op_symbol : text; head_is_left : bool }.
Definition cres_eqb (a b : cres) : bool :=
  cat_eqb (rcat a) (rcat b) && text_eqb (op_string a) (op_string b) && text_eqb (op_symbol a) (op_symbol b)
  && Bool.eqb (head_is_left a) (head_is_left b).

(* a category literal of the source, read by the model's own reader when the generated file is compiled *)
Definition parse_lit (puncts : list text) (ts : list text) : option cat := parse_toks puncts ts.
Definition force (o : option cat) : cat := match o with Some c => c | None => Atom [] FNone end.

Definition combinator := cat -> cat -> res (option cres).

(* for combinator in combinators: result = combinator(x, y); if result is not None: results.append(result) *)
Fixpoint collect (cs : list combinator) (x y : cat) : res (list cres) :=
  match cs with
  | [] => Ok_ []
  | c :: r => do o <- c x y; do rest <- collect r x y; Ok_ (match o with Some v => v :: rest | None => rest end)
  end.

Definition seen_t := list (cat * cat).
Definition seen_mem (k : cat * cat) (s : seen_t) : bool :=
  existsb (fun p => cat_eqb (fst k) (fst p) && cat_eqb (snd k) (snd p)) s.

(* apply_binary_rules(x, y, seen_rules): [key_clear]/[seen_clear] are the feature names erased for the rule key and
   the seen-rule key ([] = the category itself), as extracted from the source by the translator *)
Definition apply_binary (combs : list combinator) (key_clear seen_clear : list text) (x y : cat) (seen : option seen_t) : res (list cres) :=
  let kx := clear_features key_clear x in let ky := clear_features key_clear y in
  let sk := (clear_features seen_clear x, clear_features seen_clear y) in
  match seen with
  | Some s => if seen_mem sk s then collect combs kx ky else Ok_ []
  | None => collect combs kx ky
  end.

Definition unary_table := list (cat * list cat).
Fixpoint table_get (x : cat) (t : unary_table) : option (list cat) :=
  match t with [] => None | (k, v) :: r => if cat_eqb x k then Some v else table_get x r end.
Fixpoint mapM {A B} (f : A -> res B) (l : list A) : res (list B) :=
  match l with [] => Ok_ [] | a :: r => do b <- f a; do bs <- mapM f r; Ok_ (b :: bs) end.
(* apply_unary_rules(x, unary_rules) with the per-result body translated from the source *)
Definition apply_unary (body : cat -> cat -> res cres) (x : cat) (t : unary_table) : res (list cres) :=
  match table_get x t with None => Ok_ [] | Some rs => mapM (body x) rs end.
