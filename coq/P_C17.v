(* C17 - The category dictionary restricts exactly the listed words.  Property theorems only.
   Model: Filter.v (_type_check, _binarize, apply_category_filters of depccg/parsing.py).
   GenData.v is regenerated from depccg/models/*.jsonnet on every run, GenTables.v from depccg/cat.py. *)
From Coq Require Import List NArith ZArith Bool.
Import ListNotations.
Require Import Cat CatFacts CatLex CatRoundTrip Filter FilterProofs GenTables GenData P_C05.
Open Scope nat_scope.

Notation parse_toks := (Cat.parse_toks puncts).

(* ---- the filter, for every document, score matrices, category list and dictionary ---- *)
(* filtered_value neg cats cd w j v = v   if w is not a key of cd, or some category listed for w has id j in cats
                                   = neg otherwise                                                              *)
Theorem C17_filter_spec : forall neg cats cd d s docs' scs',
  apply_category_filters neg cats cd d s = Ok (docs', scs') ->
  docs' = doc_list d /\ length scs' = length (sc_list s) /\ length (doc_list d) = length (sc_list s) /\     (* sentences, their order, their number *)
  forall k ws sc, nth_error (doc_list d) k = Some ws -> nth_error (sc_list s) k = Some sc ->
    exists sc', nth_error scs' k = Some sc' /\
      dep sc' = dep sc /\                                                                                   (* dependency scores untouched *)
      ncols (tag sc') = ncols (tag sc) /\ nrows (tag sc') = nrows (tag sc) /\ nrows (tag sc) = length ws /\ (* shapes unchanged *)
      forall i w row, nth_error ws i = Some w -> nth_error (rows (tag sc)) i = Some row ->
        exists row', nth_error (rows (tag sc')) i = Some row' /\ length row' = length row /\
          forall j v, nth_error row j = Some v -> nth_error row' j = Some (filtered_value neg cats cd w j v).
Proof. exact filter_spec. Qed.

(* "listed" in terms of the category list: with a duplicate-free list, the id of a category is its position *)
Theorem C17_category_id_position : forall cats c j, NoDup cats -> (category_id cats c = Some j <-> nth_error cats j = Some c).
Proof. exact category_id_nodup. Qed.

Theorem C17_category_id_sound : forall cats c j, category_id cats c = Some j -> nth_error cats j = Some c /\ j < length cats.
Proof. intros cats c j H. split; [now apply category_id_sound | now apply (category_id_bound cats c)]. Qed.

(* shapes are validated before anything else: a shape/type error is the result, whatever the dictionary *)
Theorem C17_type_check_first : forall neg cats cd d s e,
  type_check (length cats) d s = Err e ->
  apply_category_filters neg cats cd d s = Err e /\ arrays_after neg cats cd d s = sc_list s.
Proof. intros neg cats cd d s e H. pose proof (type_check_err_first neg cats cd d s e H) as H'. split; [exact H' | exact (err_arrays_untouched _ _ _ _ _ _ H')]. Qed.

(* any error (shape, form, unknown dictionary category) leaves every row as it was *)
Theorem C17_error_no_change : forall neg cats cd d s e,
  apply_category_filters neg cats cd d s = Err e -> arrays_after neg cats cd d s = sc_list s.
Proof. exact err_arrays_untouched. Qed.

(* what _type_check accepts: matching forms and counts, and for every sentence tag scores of shape (tokens, categories), dependency scores (tokens, tokens + 1) *)
Theorem C17_type_check_ok : forall n d s docs scs, type_check n d s = Ok (docs, scs) ->
  docs = doc_list d /\ scs = sc_list s /\ length docs = length scs /\ scs <> [] /\
  forall k ws sc, nth_error docs k = Some ws -> nth_error scs k = Some sc ->
    ncols (tag sc) = n /\ nrows (tag sc) = length ws /\ nrows (dep sc) = length ws /\ ncols (dep sc) = S (length ws).
Proof.
  intros n d s docs scs H. destruct (type_check_ok n d s docs scs H) as (H1 & H2 & H3 & H4 & H5).
  repeat split; try assumption; apply (shape_ok_iff n ws sc); now apply (H5 k).
Qed.

Theorem C17_result_was_checked : forall neg cats cd d s r,
  apply_category_filters neg cats cd d s = Ok r -> exists docs scs, type_check (length cats) d s = Ok (docs, scs).
Proof. exact apply_ok_checked. Qed.

(* the only other error is a dictionary category that is not in the category list (KeyError), raised before any row changes;
   with well-shaped rectangular arrays and a dictionary over the category list the operation always succeeds *)
Theorem C17_applicable : forall neg cats cd d s docs scs,
  type_check (length cats) d s = Ok (docs, scs) -> forallb scores_okb (sc_list s) = true ->
  (forall w cs, In (w, cs) cd -> forall c, In c cs -> In c cats) ->
  exists scs', apply_category_filters neg cats cd d s = Ok (docs, scs').
Proof. exact filter_total. Qed.

Theorem C17_key_error : forall cats cd e, resolve cats cd = Err e -> e = EKey /\ exists w cs c, In (w, cs) cd /\ In c cs /\ ~ In c cats.
Proof. exact resolve_err. Qed.

(* ---- the shipped files ---- *)
Definition shipped_toks : list (list text) := targets_en ++ targets_en_rebank ++ targets_ja ++ rules_toks.

(* every shipped category string (targets, seen_rules, unary_rules of en / en_rebank / ja) reads to a well-formed value
   whose own text reads back to it *)
Theorem C17_shipped_wellformed : forall ts, In ts shipped_toks ->
  exists c, parse_toks ts = Some c /\ wf puncts c /\ parse_toks (toks c) = Some c /\ P_C05.parse (show c) = Some c.
Proof.
  assert (H : forallb (toks_wfb puncts) shipped_toks = true) by (vm_compute; reflexivity).
  intros ts Hin. rewrite forallb_forall in H. destruct (toks_wfb_ok puncts ts (H ts Hin)) as (c & H1 & H2 & H3).
  exists c. repeat split; try assumption. now apply C05_parse_show.
Qed.

(* the three inventories are duplicate-free as values (so a category id is a position, and no two ids mean the same category) *)
Theorem C17_targets_nodup :
  (exists cs, parse_all puncts targets_en = Some cs /\ NoDup cs) /\
  (exists cs, parse_all puncts targets_en_rebank = Some cs /\ NoDup cs) /\
  (exists cs, parse_all puncts targets_ja = Some cs /\ NoDup cs).
Proof. repeat split; apply inv_nodupb_ok; vm_compute; reflexivity. Qed.

(* every distinct category of cat_dict.en is, as a value, a member of targets.en: the dictionary never raises KeyError there *)
Theorem C17_dict_subset_targets : exists inv, parse_all puncts targets_en = Some inv /\
  forall e, In e cat_dict_en_entries ->
    exists ts c, entry_toks targets_en e = Some ts /\ parse_toks ts = Some c /\ In c inv.
Proof. apply dict_inb_ok. vm_compute. reflexivity. Qed.

(* ---- non-vacuity: a two-sentence document, a dictionary with one known and one absent word ---- *)
Definition cS := Atom [83%N] FNone. Definition cN := Atom [78%N] FNone. Definition cNP := Atom [78%N;80%N] FNone.
Definition ex_cats := [cS; cN; cNP].
Definition ex_cd : list (word * list cat) := [([97%N], [cNP; cS]); ([122%N], [])].        (* a -> [NP, S];  z -> [] *)
Definition ex_doc := DocMany [[[97%N]; [98%N]]; [[122%N]]].                              (* [[a, b], [z]] *)
Definition ex_sc := ScMany [mkSc (mkMat 3 [[1;2;3];[4;5;6]]%Z) (mkMat 3 [[0;0;0];[0;0;0]]%Z); mkSc (mkMat 3 [[7;8;9]]%Z) (mkMat 2 [[0;0]]%Z)].
Example ex_filter : apply_category_filters (-99)%Z ex_cats ex_cd ex_doc ex_sc =
  Ok ([[[97%N]; [98%N]]; [[122%N]]],
      [mkSc (mkMat 3 [[1;-99;3];[4;5;6]]%Z) (mkMat 3 [[0;0;0];[0;0;0]]%Z); mkSc (mkMat 3 [[-99;-99;-99]]%Z) (mkMat 2 [[0;0]]%Z)]).
Proof. vm_compute. reflexivity. Qed.
Example ex_shape_error : apply_category_filters (-99)%Z [cS; cN] ex_cd ex_doc ex_sc = Err ERuntime.
Proof. vm_compute. reflexivity. Qed.
Example ex_key_error : apply_category_filters (-99)%Z ex_cats [([97%N], [Atom [80%N;80%N] FNone])] ex_doc ex_sc = Err EKey.
Proof. vm_compute. reflexivity. Qed.
Example ex_form_error : apply_category_filters (-99)%Z ex_cats ex_cd (DocOne [[97%N]]) ex_sc = Err ERuntime.
Proof. vm_compute. reflexivity. Qed.
Example ex_counts : (length targets_en, length targets_en_rebank, length targets_ja, length cat_dict_en_entries) <> (0, 0, 0, 0).
Proof. vm_compute. discriminate. Qed.
