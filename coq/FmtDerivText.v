(* C07 (stretch) - printer/deriv.py: an independent reader of the printed TEXT of the ASCII-art derivation.
   The text is cut into lines at U+000A; line 1 / line 2 are cut at blanks into the leaf category texts / the words;
   every further pair of lines is a dash line (blanks, a run of '-', the rule symbol) and a category line (blanks, one
   category text).  Column extents are counted (blanks -> lo, dashes -> hi - lo), category texts are read with
   Fmt.parse_cat, and the result is handed to the interval-stack reader FmtDeriv.dec_deriv.
   Also: the side condition under which the round trip is proved (FmtDerivTextProofs.v), with its boolean version.
   MODEL ONLY - no proofs here. *)
From Coq Require Import List NArith Bool Arith.
Import ListNotations.
Require Import Cat Tree Fmt FmtDeriv.
Local Open Scope nat_scope.

Definition cNL : N := 10%N.          (* '\n' *)
Definition cDASH : N := 45%N.        (* '-' *)

(* text.split('\n'): the text must end with a newline, i.e. the last piece is ''; that piece is dropped *)
Fixpoint drop_last_empty (l : list text) : option (list text) :=
  match l with
  | [] => None
  | x :: r =>
      match r with
      | [] => match x with [] => Some [] | _ :: _ => None end
      | _ :: _ => match drop_last_empty r with Some r' => Some (x :: r') | None => None end
      end
  end.
Definition text_lines (txt : text) : option (list text) := drop_last_empty (split_on cNL txt []).

(* [x for x in line.split(' ') if x] *)
Definition nonemptyb (s : text) : bool := match s with [] => false | _ :: _ => true end.
Definition fields (line : text) : list text := filter nonemptyb (split_on cSP line []).

(* the longest prefix made of the character c: its length, and the rest *)
Fixpoint span_eq (c : N) (s : text) : nat * text :=
  match s with
  | [] => (0, [])
  | x :: r => if N.eqb x c then let '(n, rest) := span_eq c r in (S n, rest) else (0, s)
  end.
(* line.strip(' ') *)
Definition strip_sp (s : text) : text := rev (snd (span_eq cSP (rev (snd (span_eq cSP s))))).

(* a dash line: lo blanks, a run of hi - lo >= 1 dashes, then the rule symbol (the rest of the line; since the run is
   maximal a symbol cannot start with '-') *)
Definition read_dash (line : text) : option (nat * nat * text) :=
  let '(lo, r1) := span_eq cSP line in
  let '(n, sym) := span_eq cDASH r1 in
  match n with
  | O => None
  | S _ => Some (lo, lo + n, sym)
  end.

(* a category line: blanks around exactly one category text *)
Definition read_catline (line : text) : option cat :=
  let s := strip_sp line in
  match s with
  | [] => None
  | _ :: _ => if has cSP s then None else parse_cat s
  end.

(* the lines after the first two come in pairs *)
Fixpoint read_nodes (ls : list text) : option (list dline) :=
  match ls with
  | [] => Some []
  | [_] => None
  | d :: c :: r =>
      match read_dash d, read_catline c, read_nodes r with
      | Some (lo, hi, sym), Some k, Some rest => Some (DNode lo hi sym k :: rest)
      | _, _, _ => None
      end
  end.

(* as many category texts as words; every category text must be readable *)
Fixpoint read_cells (cs ws : list text) : option (list cell) :=
  match cs, ws with
  | [], [] => Some []
  | c :: cs', w :: ws' =>
      match parse_cat c, read_cells cs' ws' with
      | Some k, Some r => Some ((k, w) :: r)
      | _, _ => None
      end
  | _, _ => None
  end.

(* the structured form read out of the text: the cells of the two top lines, one dline per pair of further lines *)
Definition deriv_text_struct (txt : text) : option (list cell * list dline) :=
  match text_lines txt with
  | Some (l1 :: l2 :: rest) =>
      match read_cells (fields l1) (fields l2), read_nodes rest with
      | Some (x :: cells), Some lines => Some (x :: cells, lines)
      | _, _ => None
      end
  | _ => None
  end.

(* the reader of the text: the column arithmetic (cell boundaries from cell_width) is inside FmtDeriv.dec_deriv *)
Definition dec_deriv_text (txt : text) : option (view text) :=
  match deriv_text_struct txt with
  | Some (cells, lines) => dec_deriv cells lines
  | None => None
  end.

(* ---------- the domain of the round trip ---------- *)
(* str.isspace() *)
Definition is_ws (x : N) : bool := existsb (N.eqb x) py_space.
(* free of the characters str.rstrip() removes (among them U+0020 and U+000A) *)
Definition nowsb (s : text) : bool := forallb (fun x => negb (is_ws x)) s.
Definition nows (s : text) : Prop := nowsb s = true.
(* s does not start with the character c *)
Definition nostart (c : N) (s : text) : Prop := match s with [] => True | x :: _ => x <> c end.
Definition nostartb (c : N) (s : text) : bool := match s with [] => true | x :: _ => negb (N.eqb x c) end.
(* a rule symbol: stays on its line and can be told from the run of dashes before it *)
Definition sym_ok (sym : text) : Prop := has cNL sym = false /\ nostart cDASH sym.
Definition sym_okb (sym : text) : bool := negb (has cNL sym) && nostartb cDASH sym.

(* words: non-empty, no str.isspace() character (a blank would cut the word in two, a newline the line, and any of them
   at the end of the word line is eaten by str.rstrip()); leaf categories as printed: the same (blanks are excluded by
   well-formedness already; a base name may still contain e.g. a tab or U+00A0); categories of inner nodes as printed: no
   newline; rule symbols: no newline, not starting with '-'.  Leaves without a word are unconstrained (deriv_of raises) *)
Fixpoint deriv_text_ok (t : tree) : Prop :=
  match t with
  | Leaf c tok _ _ =>
      match leaf_word tok with
      | Some w => w <> [] /\ nows w /\ nows (show c)
      | None => True
      end
  | Un c _ sym t1 => has cNL (show c) = false /\ sym_ok sym /\ deriv_text_ok t1
  | Bin c _ sym _ l r => has cNL (show c) = false /\ sym_ok sym /\ deriv_text_ok l /\ deriv_text_ok r
  end.
Fixpoint deriv_text_okb (t : tree) : bool :=
  match t with
  | Leaf c tok _ _ =>
      match leaf_word tok with
      | Some w => nonemptyb w && nowsb w && nowsb (show c)
      | None => true
      end
  | Un c _ sym t1 => negb (has cNL (show c)) && sym_okb sym && deriv_text_okb t1
  | Bin c _ sym _ l r => negb (has cNL (show c)) && sym_okb sym && deriv_text_okb l && deriv_text_okb r
  end.
