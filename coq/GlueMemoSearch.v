(* The search of parse_sentence (AStarImpl.v) reading the memo layer of one depccg._parsing.run call (GlueMemo.v)
   incrementally, and the batch loop over it.  MODEL ONLY.

   - id_of / bin_T / un_T: the id-level grammar a category table T induces: the rule results for the categories two
     ids name, each result category replaced by the id maybe_add_and_get returns for it under T;
   - bin_c / un_c: the grammar as a search over the categories themselves sees it (handles = categories);
   - cache_bin / cache_un: what the two lambdas of parse_sentence return for a key that is in the cache;
   - mreach: runs of the search from a memo state.  One loop iteration = the lookups of that iteration (memo_ops over
     the keys the expansion needs: the unary key of the popped item and one binary key per adjacent chart item; ANY
     order, any repetition - parse_sentence interleaves them with the pushes, the order only decides which new
     category gets which id) followed by the pure step of AStarImpl.jstep reading the rule results from the cache;
     a goal item or (1-best mode) an item whose chart cell already has its category is not expanded: no lookup;
   - sent: what parse_sentence is given for one sentence; adm_c / tag_c: the same sentence with lexical ids read
     through the input category list (lexical id = position in that list);
   - ddecode / jdecode / sentence_outcome: what the finalizer is handed, with ids read back through the table
     (kwargs['categories'][item.cat]); None = IndexError;
   - brun: the loop of depccg._parsing.run over the sentences of one call, threading the memo state;
   - cat_outcome: the specification side - the outcome of a sentence by the category-level search, no table, no cache;
   - mrun_f: an executable driver (first maximal agenda element) used for examples. *)
From Coq Require Import List ZArith Bool Arith.
Import ListNotations.
Require Import Cat Tree GramPrims AStar AStarImpl Glue GlueMemo.
Open Scope nat_scope.

(* the id maybe_add_and_get returns for c when the table is T (its position, or len(T) if it has to be appended) *)
Definition id_of (T : table) (c : cat) : nat := fst (get_or_add c T).
Definition in_table (c : cat) (T : table) : bool := match index_of c T 0 with Some _ => true | None => false end.

Section TableGrammar.
Variable gbin : cat -> cat -> list cres.
Variable gun : cat -> list cres.

(* ids outside the table: categories_[x_id] raises IndexError in the callback; the stateful search below returns None
   there (memo_ops), and GlueMemoSearchProofs.v proves that no reachable state contains such an id *)
Definition bin_T (T : table) (x y : nat) : list (nat * bool) :=
  match nth_error T x, nth_error T y with
  | Some cx, Some cy => map (fun r => (id_of T (rcat r), head_is_left r)) (gbin cx cy)
  | _, _ => []
  end.
Definition un_T (T : table) (x : nat) : list nat :=
  match nth_error T x with Some cx => map (fun r => id_of T (rcat r)) (gun cx) | None => [] end.

Definition bin_c (x y : cat) : list (cat * bool) := cat_view (gbin x y).
Definition un_c (x : cat) : list cat := map rcat (gun x).

(* T already contains every result of the pair / of the category: a lookup of that key does not extend T *)
Definition bin_closed (T : table) (cx cy : cat) : bool := forallb (fun r => in_table (rcat r) T) (gbin cx cy).
Definition un_closed (T : table) (cx : cat) : bool := forallb (fun r => in_table (rcat r) T) (gun cx).
End TableGrammar.

(* c_possible_root_cat.count(item->cat) / membership of a category in the root list *)
Definition isroot_ids (rids : list nat) (i : nat) : bool := existsb (Nat.eqb i) rids.
Definition isroot_c (roots : list cat) (c : cat) : bool := existsb (cat_eqb c) roots.

(* &cache->at(key) as parse_sentence reads it.  A key that is not cached does not occur: the lambdas insert before they
   read; in mreach every key a step reads has been looked up by the memo_ops of that step (proved) *)
Definition cache_bin (st : mstate) (x y : nat) : list (nat * bool) :=
  match cache_find (KBin x y) (mcache st) with Some e => id_view e | None => [] end.
Definition cache_un (st : mstate) (x : nat) : list nat :=
  match cache_find (KUn x) (mcache st) with Some e => map fst e | None => [] end.

(* ---------- one sentence as parse_sentence receives it ---------- *)
(* n tokens; tag i j = tag score of token i for lexical id j (column j); dep; adm i = the ids the beam admits for
   token i in push order; row maxima *)
Record sent := { s_n : nat; s_tag : nat -> nat -> Z; s_dep : nat -> nat -> Z; s_adm : nat -> list nat;
                 s_besttag : nat -> Z; s_bestdep : nat -> Z }.
(* every admitted id is a column of the tag matrix = a position of the input category list *)
Definition lex_ok (cats : list cat) (s : sent) : Prop := forall i j, In j (s_adm s i) -> j < length cats.
Definition lex_okb (cats : list cat) (s : sent) : bool :=
  forallb (fun i => forallb (fun j => j <? length cats) (s_adm s i)) (seq 0 (s_n s)).

(* the same sentence over categories: lexical id j stands for cats[j] *)
Definition adm_c (cats : list cat) (adm : nat -> list nat) (i : nat) : list cat :=
  flat_map (fun j => match nth_error cats j with Some c => [c] | None => [] end) (adm i).
Definition tag_c (cats : list cat) (tag : nat -> nat -> Z) (i : nat) (c : cat) : Z :=
  match index_of c cats 0 with Some j => tag i j | None => 0%Z end.

(* ---------- what a pop rule that does not look at categories can see ---------- *)
(* an item with every category erased: shape of the derivation, rule indices, head flags, leaf positions, all numeric
   fields.  parsing::operator<(cell_item, cell_item) compares score() only, so std::priority_queue's choice is a
   function of the history of such views (the pushes in the order parse_sentence makes them - token order, chart cell
   creation order, push_front order within a cell, rule result order - and the pops). *)
Fixpoint derase {C} (d : @deriv C) : @deriv unit :=
  match d with
  | DLeaf i _ => DLeaf i tt
  | DUn k _ d' => DUn k tt (derase d')
  | DBin k _ hl l r => DBin k tt hl (derase l) (derase r)
  end.
Definition blind {C} (a : @jitem C) : @jitem unit :=
  {| jfin := jfin a; jder := derase (jder a); jin := jin a; jout := jout a; jstart := jstart a; jlen := jlen a; jhead := jhead a |}.
Definition view {C} (js : @jstate C) : list (@jitem unit) := map blind (jagenda js).
(* a pop policy: from the history of agenda views (latest first) to the position of the item to pop *)
Definition policy_t := list (list (@jitem unit)) -> nat.

(* an example of such a policy, the one the executable driver mrun_f uses: the first item of maximal priority *)
Fixpoint first_max (l : list Z) : option (nat * Z) :=
  match l with
  | [] => None
  | x :: r => match first_max r with Some (k, m) => if (x <? m)%Z then Some (S k, m) else Some (0, x) | None => Some (0, x) end
  end.
Definition policy_first_max : policy_t :=
  fun hist => match hist with v :: _ => match first_max (map jprio v) with Some (k, _) => k | None => 0 end | [] => 0 end.

Section Search.
Variable gbin : cat -> cat -> list cres.
Variable gun : cat -> list cres.
Variable cats roots : list cat.       (* the arguments `categories` and `possible_root_cats` of the call *)
Variable rids : list nat.             (* c_possible_root_cat: the ids of the roots *)
Variable pen : Z.
Variable dedup : bool.                (* nbest = 1 *)
Variable max_step nbest : nat.

Section OneSentence.
Variable s : sent.

(* the cache keys the expansion of a needs, given the chart *)
Definition step_keys (a : @jitem nat) (ch : list (@jitem nat)) : list mop :=
  (if (s_n s =? 1) || negb (jlen a =? s_n s) then [OUn (jcat a)] else []) ++
  flat_map (fun o => if jstart o =? jstart a + jlen a then [OBin (jcat a) (jcat o)] else []) ch ++
  flat_map (fun o => if jstart o + jlen o =? jstart a then [OBin (jcat o) (jcat a)] else []) ch.
Definition needed (a : @jitem nat) (js : @jstate nat) : list mop :=
  if jfin a then [] else if dedup && existsb (jkey_eqb Nat.eqb a) (jchart js) then [] else step_keys a (jchart js).

(* the loop body once the lookups have brought the memo to st' *)
Definition mstep_js (st' : mstate) (a : @jitem nat) (js : @jstate nat) : @jstate nat :=
  jstep Nat.eqb (s_n s) (s_dep s) (s_besttag s) (s_bestdep s) (cache_bin st') (cache_un st') (isroot_ids rids) pen dedup a js.
Definition minit : @jstate nat := jinit (s_n s) (s_tag s) (s_adm s) (s_besttag s) (s_bestdep s).

(* runs of the search of this sentence started in memo state st0 *)
Inductive mreach (st0 : mstate) : @jstate nat * mstate -> Prop :=
| mreach_init : mreach st0 (minit, st0)
| mreach_step js st a ks st' : mreach st0 (js, st) -> jrunning max_step nbest js -> jvalid_pop a js ->
    (forall k, In k ks <-> In k (needed a js)) -> memo_ops gbin gun ks st = Some st' ->
    mreach st0 (mstep_js st' a js, st').

(* the same sentence searched over the categories themselves: no table, no cache *)
Definition creach : @jstate cat -> Prop :=
  jreach cat_eqb (s_n s) (tag_c cats (s_tag s)) (s_dep s) (adm_c cats (s_adm s)) (s_besttag s) (s_bestdep s)
         (bin_c gbin) (un_c gun) (isroot_c roots) pen dedup max_step nbest.
Definition cstep : @jitem cat -> @jstate cat -> @jstate cat :=
  jstep cat_eqb (s_n s) (s_dep s) (s_besttag s) (s_bestdep s) (bin_c gbin) (un_c gun) (isroot_c roots) pen dedup.
(* ... and over the ids of a fixed table T with the grammar T induces *)
Definition treach (T : table) : @jstate nat -> Prop :=
  jreach Nat.eqb (s_n s) (s_tag s) (s_dep s) (s_adm s) (s_besttag s) (s_bestdep s)
         (bin_T gbin T) (un_T gun T) (isroot_ids rids) pen dedup max_step nbest.

(* runs driven by a category-blind pop policy (deterministic up to the ids new categories get) *)
Variable policy : policy_t.
Inductive mreach_p (st0 : mstate) : list (list (@jitem unit)) -> @jstate nat * mstate -> Prop :=
| mreach_p_init : mreach_p st0 [view minit] (minit, st0)
| mreach_p_step hist js st a ks st' : mreach_p st0 hist (js, st) -> jrunning max_step nbest js ->
    nth_error (jagenda js) (policy hist) = Some a -> jvalid_pop a js ->
    (forall k, In k ks <-> In k (needed a js)) -> memo_ops gbin gun ks st = Some st' ->
    mreach_p st0 (view (mstep_js st' a js) :: hist) (mstep_js st' a js, st').
Inductive creach_p : list (list (@jitem unit)) -> @jstate cat -> Prop :=
| creach_p_init : creach_p [view (jinit (s_n s) (tag_c cats (s_tag s)) (adm_c cats (s_adm s)) (s_besttag s) (s_bestdep s))]
                           (jinit (s_n s) (tag_c cats (s_tag s)) (adm_c cats (s_adm s)) (s_besttag s) (s_bestdep s))
| creach_p_step hist js a : creach_p hist js -> jrunning max_step nbest js ->
    nth_error (jagenda js) (policy hist) = Some a -> jvalid_pop a js ->
    creach_p (view (cstep a js) :: hist) (cstep a js).

(* executable: one iteration with the lookups in the order step_keys lists them; None = IndexError in a callback *)
Definition mstep_f (a : @jitem nat) (js : @jstate nat) (st : mstate) : option (@jstate nat * mstate) :=
  match memo_ops gbin gun (needed a js) st with Some st' => Some (mstep_js st' a js, st') | None => None end.
Fixpoint pick_max (l : list (@jitem nat)) : option (@jitem nat) :=
  match l with
  | [] => None
  | a :: r => match pick_max r with Some b => if (jprio a <? jprio b)%Z then Some b else Some a | None => Some a end
  end.
Fixpoint mrun_f (fuel : nat) (js : @jstate nat) (st : mstate) : option (@jstate nat * mstate) :=
  if jrunning_b max_step nbest js then
    match fuel with
    | O => None
    | S f => match pick_max (jagenda js) with
             | Some a => match mstep_f a js st with Some (js', st') => mrun_f f js' st' | None => None end
             | None => None
             end
    end
  else Some (js, st).
End OneSentence.

(* ---------- what the finalizer is handed, ids read back through the table ---------- *)
Fixpoint ddecode (t : table) (d : @deriv nat) : option (@deriv cat) :=
  match d with
  | DLeaf i c => match nth_error t c with Some x => Some (DLeaf i x) | None => None end
  | DUn k c d' => match nth_error t c, ddecode t d' with Some x, Some e => Some (DUn k x e) | _, _ => None end
  | DBin k c hl l r =>
      match nth_error t c, ddecode t l, ddecode t r with Some x, Some e, Some f => Some (DBin k x hl e f) | _, _, _ => None end
  end.
Definition jdecode (t : table) (a : @jitem nat) : option (@jitem cat) :=
  match ddecode t (jder a) with
  | Some d => Some {| jfin := jfin a; jder := d; jin := jin a; jout := jout a; jstart := jstart a; jlen := jlen a; jhead := jhead a |}
  | None => None
  end.
Fixpoint decode_items (t : table) (l : list (@jitem nat)) : option (list (@jitem cat)) :=
  match l with
  | [] => Some []
  | a :: r => match jdecode t a, decode_items t r with Some x, Some xs => Some (x :: xs) | _, _ => None end
  end.

(* the result list of one sentence: None = [the failure placeholder]; Some l = the goal cell, best first, every item
   with its derivation over categories (shape, rule indices, head flags) and all its numeric fields *)
Definition outcome := option (list (@jitem cat)).
Definition sentence_outcome (js : @jstate nat) (t : table) : option outcome :=
  match jgoal js with
  | [] => Some None                                                   (* status 1 *)
  | _ => match decode_items t (jresult js) with Some l => Some (Some l) | None => None end
  end.

(* ---------- the loop of depccg._parsing.run over the sentences of one call ---------- *)
Variable max_length : nat.
Inductive brun : list sent -> mstate -> list outcome -> mstate -> Prop :=
| brun_nil st : brun [] st [] st
| brun_long s ss st rs st' : max_length < s_n s -> brun ss st rs st' -> brun (s :: ss) st (None :: rs) st'
| brun_search s ss st js st1 r rs st' : s_n s <= max_length ->
    mreach s st (js, st1) -> ~ jrunning max_step nbest js -> sentence_outcome js (mtable st1) = Some r ->
    brun ss st1 rs st' -> brun (s :: ss) st (r :: rs) st'.

(* the same loop with the searches driven by a pop policy *)
Variable policy : policy_t.
Inductive brun_p : list sent -> mstate -> list outcome -> mstate -> Prop :=
| brun_p_nil st : brun_p [] st [] st
| brun_p_long s ss st rs st' : max_length < s_n s -> brun_p ss st rs st' -> brun_p (s :: ss) st (None :: rs) st'
| brun_p_search s ss st hist js st1 r rs st' : s_n s <= max_length ->
    mreach_p s policy st hist (js, st1) -> ~ jrunning max_step nbest js -> sentence_outcome js (mtable st1) = Some r ->
    brun_p ss st1 rs st' -> brun_p (s :: ss) st (r :: rs) st'.

(* specification: the outcome of a sentence by the category-level search *)
Definition cat_outcome (s : sent) (r : outcome) : Prop :=
  if max_length <? s_n s then r = None
  else exists js, creach s js /\ ~ jrunning max_step nbest js /\
                  r = match jgoal js with [] => None | _ => Some (jresult js) end.

(* executable batch driver for examples *)
Fixpoint brun_f (fuel : nat) (ss : list sent) (st : mstate) : option (list outcome * mstate) :=
  match ss with
  | [] => Some ([], st)
  | s :: rest =>
      if max_length <? s_n s
      then match brun_f fuel rest st with Some (rs, st') => Some (None :: rs, st') | None => None end
      else match mrun_f s fuel (minit s) st with
           | Some (js, st1) =>
               match sentence_outcome js (mtable st1), brun_f fuel rest st1 with
               | Some r, Some (rs, st') => Some (r :: rs, st')
               | _, _ => None
               end
           | None => None
           end
  end.
End Search.
