(* Model of the PTB-style printer (depccg/printer/ptb.py: ptb_of) and of the PTB reader
   (depccg/tools/reader.py: _parse_ptb = the stack machine `rec`/`reduce` over blank-split items).
   MODEL ONLY - no proofs here.

   Python exceptions (AssertionError -> RuntimeError, IndexError, KeyError, errors of Category.parse) and values that
   are not well-typed trees (a node whose category slot holds a Tree, ...) are the single error value None. *)
From Coq Require Import List NArith Bool.
Import ListNotations.
Require Import Cat Tree.
Open Scope N_scope.

Definition t_LRB : text := [45;76;82;66;45].        (* "-LRB-" *)
Definition t_RRB : text := [45;82;82;66;45].        (* "-RRB-" *)
Definition t_ROOT : text := [40;82;79;79;84;32].    (* "(ROOT " *)
Definition t_unk : text := [117;110;107].           (* "unk" *)
Definition t_unksym : text := [60;117;110;107;62].  (* "<unk>" *)

(* ---------- str.replace ---------- *)
(* pattern of one character *)
Definition repl1 (c : N) (s : text) (w : text) : text := flat_map (fun x => if N.eqb x c then s else [x]) w.
(* word.replace('(', '-LRB-').replace(')', '-RRB-')   (ptb.py:18) *)
Definition esc_word (w : text) : text := repl1 cRP t_RRB (repl1 cLP t_LRB w).

Fixpoint prefixb (p t : text) : bool :=
  match p, t with
  | [], _ => true
  | x :: p', y :: t' => N.eqb x y && prefixb p' t'
  | _ :: _, [] => false
  end.
(* general non-empty pattern: leftmost, non-overlapping.  [skip] = characters of a match still to be dropped *)
Fixpoint replace_go (pat rep t : text) (skip : nat) : text :=
  match t with
  | [] => []
  | c :: r =>
      match skip with
      | S k => replace_go pat rep r k
      | O => if prefixb pat t then rep ++ replace_go pat rep r (length pat - 1) else c :: replace_go pat rep r 0
      end
  end.
Definition replace (pat rep t : text) : text := replace_go pat rep t 0.
(* item.replace('-LRB-', '(').replace('-RRB-', ')')   (reader.py:296) *)
Definition unesc_word (w : text) : text := replace t_RRB [cRP] (replace t_LRB [cLP] w).

(* sep.join(xs) *)
Fixpoint join (sep : text) (xs : list text) : text :=
  match xs with
  | [] => []
  | [x] => x
  | x :: r => x ++ sep ++ join sep r
  end.

(* ---------- printer ---------- *)
(* rec(node); None = KeyError (a leaf token without 'word') *)
Fixpoint ptb_rec (t : tree) : option text :=
  match t with
  | Leaf c tok _ _ =>
      match leaf_word tok with
      | Some w => Some ([cLP] ++ show c ++ [cSP] ++ esc_word w ++ [cRP])
      | None => None
      end
  | Un c _ _ t1 =>
      match ptb_rec t1 with
      | Some s => Some ([cLP] ++ show c ++ [cSP] ++ s ++ [cRP])
      | None => None
      end
  | Bin c _ _ _ l r =>
      match ptb_rec l, ptb_rec r with
      | Some a, Some b => Some ([cLP] ++ show c ++ [cSP] ++ a ++ [cSP] ++ b ++ [cRP])
      | _, _ => None
      end
  end.
Definition print_ptb (t : tree) : option text :=
  match ptb_rec t with Some s => Some (t_ROOT ++ s ++ [cRP]) | None => None end.

(* ---------- reader ---------- *)
Inductive pitem := PCat (c : cat) | PTree (t : tree).

(* the recursion of `reduce` on item[:-1]: the item without its trailing run of ')' and the length of that run *)
Fixpoint peel (item : text) : text * nat :=
  match item with
  | [] => ([], O)
  | c :: r =>
      let '(core, n) := peel r in
      match core with
      | [] => if N.eqb c cRP then ([], S n) else ([c], n)
      | _ => (c :: core, n)
      end
  end.

Section Reader.
Variable parse_cat : text -> option cat.              (* Category.parse; None = exception or ill-typed value *)
Variable guess : cat -> cat -> cat -> text * text * bool.
   (* guess_combinator_by_triplet(binary_rules, target, left, right) -> (op_string, op_symbol, head_is_left) *)

(* word = stack.pop(); category = stack.pop(); Tree.make_terminal(word, category) *)
Definition terminal (w : text) (st : list pitem) : option (list pitem) :=
  match st with
  | PCat c :: r => Some (PTree (Leaf c [(k_word, w)] s_lex s_lexsym) :: r)
  | _ => None
  end.

(* while isinstance(stack[-1], Tree): children.append(stack.pop());  category = stack.pop()
   [acc] collects the popped trees left-to-right (the reverse of the pop order) *)
Fixpoint pop_trees (st : list pitem) (acc : list tree) : option (list tree * cat * list pitem) :=
  match st with
  | PTree t :: r => pop_trees r (t :: acc)
  | PCat c :: r => Some (acc, c, r)
  | [] => None
  end.

(* one ')' above the leaf level *)
Definition close_node (st : list pitem) : option (list pitem) :=
  match pop_trees st [] with
  | Some ([x], c, r) => Some (PTree (Un c s_lex s_unsym x) :: r)
  | Some ([l; rr], c, r) =>
      let '(ops, sym, hl) := guess c (tcat l) (tcat rr) in
      Some (PTree (Bin c ops sym hl l rr) :: r)
  | _ => None
  end.

Fixpoint closes (k : nat) (st : list pitem) : option (list pitem) :=
  match k with
  | O => Some st
  | S k' => match close_node st with Some st' => closes k' st' | None => None end
  end.

(* reduce(item) for an item whose last character is ')' *)
Definition reduce (item : text) (st : list pitem) : option (list pitem) :=
  match peel item with
  | (_, O) => None                              (* not reached: rec() calls reduce only when item[-1] == ')' *)
  | ([], S _) => None                           (* ''[-1] : IndexError *)
  | (core, S k) =>
      match terminal (unesc_word core) st with
      | Some st1 => closes k st1
      | None => None
      end
  end.

(* rec() *)
Fixpoint run (items : list text) (st : list pitem) : option (list pitem) :=
  match items with
  | [] => Some st
  | item :: rest =>
      match item with
      | [] => None                              (* item[0] : IndexError *)
      | c0 :: tl0 =>
          if N.eqb c0 cLP then
            match parse_cat tl0 with
            | Some c => run rest (PCat c :: st)
            | None => None
            end
          else match peel item with
               | (_, O) => None                 (* assert item[0] == '(' or item[-1] == ')' *)
               | (_, S _) => match reduce item st with Some st' => run rest st' | None => None end
               end
      end
  end.

(* assert len(stack) == 1 and isinstance(stack[0], Tree) *)
Definition finish (st : option (list pitem)) : option tree :=
  match st with Some [PTree t] => Some t | _ => None end.

Definition read_items (items : list text) : option tree := finish (run items []).

(* _parse_ptb(tree_string): assert startswith('(ROOT '); tree_string[6:-1].split(' ') *)
Definition line_items (line : text) : list text := split_on cSP (removelast (skipn 6 line)) [].
Definition read_line (line : text) : option tree :=
  if prefixb t_ROOT line then read_items (line_items line) else None.

(* what the reader can return for a printed tree: same categories, shape and words; the token reduced to its word,
   labels 'lex'/'<lex>' on leaves, 'lex'/'<un>' on unary nodes, the guessed rule on binary nodes *)
Fixpoint canon_ptb (t : tree) : tree :=
  match t with
  | Leaf c tok _ _ => Leaf c [(k_word, tok_get_default k_word [] tok)] s_lex s_lexsym
  | Un c _ _ t1 => Un c s_lex s_unsym (canon_ptb t1)
  | Bin c _ _ _ l r =>
      let '(ops, sym, hl) := guess c (tcat l) (tcat r) in
      Bin c ops sym hl (canon_ptb l) (canon_ptb r)
  end.
End Reader.

(* ---------- bracket counting (used to state "unbalanced lines are rejected") ---------- *)
Definition is_opener (item : text) : bool := match item with c :: _ => N.eqb c cLP | [] => false end.
Definition opens (items : list text) : nat := length (filter is_opener items).
Fixpoint closers (items : list text) : nat :=
  match items with
  | [] => O
  | i :: r => ((if is_opener i then O else snd (peel i)) + closers r)%nat
  end.

(* ---------- equality tests on results (for the correspondence cases) ---------- *)
Fixpoint token_eqb (a b : token) : bool :=
  match a, b with
  | [], [] => true
  | (k, v) :: a', (k', v') :: b' => text_eqb k k' && text_eqb v v' && token_eqb a' b'
  | _, _ => false
  end.
Fixpoint tree_eqb (a b : tree) : bool :=
  match a, b with
  | Leaf c tok o s, Leaf c' tok' o' s' => cat_eqb c c' && token_eqb tok tok' && text_eqb o o' && text_eqb s s'
  | Un c o s t, Un c' o' s' t' => cat_eqb c c' && text_eqb o o' && text_eqb s s' && tree_eqb t t'
  | Bin c o s h l r, Bin c' o' s' h' l' r' =>
      cat_eqb c c' && text_eqb o o' && text_eqb s s' && Bool.eqb h h' && tree_eqb l l' && tree_eqb r r'
  | _, _ => false
  end.
Definition otree_eqb (a b : option tree) : bool :=
  match a, b with Some x, Some y => tree_eqb x y | None, None => true | _, _ => false end.
Definition otext_eqb (a b : option text) : bool :=
  match a, b with Some x, Some y => text_eqb x y | None, None => true | _, _ => false end.

(* a finite table standing for guess_combinator_by_triplet on the triples of one case *)
Definition guess_table := list (cat * cat * cat * (text * text * bool)).
Fixpoint guess_of (tb : guess_table) (c l r : cat) : text * text * bool :=
  match tb with
  | [] => ([], [], true)
  | (c', l', r', v) :: tb' => if cat_eqb c c' && cat_eqb l l' && cat_eqb r r' then v else guess_of tb' c l r
  end.
