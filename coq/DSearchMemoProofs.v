(* The deterministic twin of parse_sentence threaded through the incremental memo (DSearchMemo.v) is, from EVERY admissible
   memo state - whatever earlier sentences put into the category table and the rule cache - in lock step with the twin over
   the categories themselves: heap vectors, ordered chart cells, goal cells, counters and hook traces related position by
   position by "id i names category c under the table of the moment".  Hence its pop trace, status, scores and decoded results
   are a function of the sentence alone, and the batch loop driven by it is a function of the batch.

   1. generic (any two handle types):
      - monotonicity of DSearchBlind.dsrel in R, composition of two dsrel through a common third system;
      - dstep_ext_on: an iteration depends on the rule functions only through the keys of DSearchMemo.dneeded;
      - dstep_rel_on / drun_rel_on: the simulation of DSearchBlind.v with the rule-result hypotheses required only on the
        keys an iteration really uses, the two sides being free to use other rule functions at every iteration;
      - dneeded_rel: related states look up related keys;
   2. the memo: dmstep_rel, dmrun_rel, dmfinal_rel (lock step with the category-level twin, no IndexError), the run under the
      memo IS the pure twin over the grammar the final table induces (dmrun_is_table_run), same sentence after two histories,
      the batch loop (dbrun_spec), the batch is an execution in the sense of GlueMemoSearch.brun (dbrun_is_brun);
   3. the heap commutes with erasing categories (the closest statement to "the heap is a GlueMemoSearch.policy_t"). *)
From Coq Require Import List ZArith Bool Arith Lia Permutation.
Import ListNotations.
Require Import Cat CatFacts Tree GramPrims AStar AStarLoss AStarOpt AStarImpl AStarRefine AStarEquiv AStarEquivOn Glue GlueProofs GlueMemo GlueMemoProofs
               AStarEquivTables GlueMemoSearch GlueMemoSearchProofs Heap HeapProofs DSearch DSearchBlind DSearchProofs DSearchMemo.
Open Scope nat_scope.

(* ---------- Forall2 tools ---------- *)
Lemma F2_flat_map_in {A B A' B'} (P : A -> B -> Prop) (Q : A' -> B' -> Prop) (f : A -> list A') (g : B -> list B') l l' :
  (forall x y, In x l -> P x y -> Forall2 Q (f x) (g y)) -> Forall2 P l l' -> Forall2 Q (flat_map f l) (flat_map g l').
Proof.
  intros H HF. induction HF as [|x y l l' Hxy _ IH]; cbn [flat_map]; [constructor|].
  apply Forall2_app; [apply H; [now left | assumption]|]. apply IH. intros a b Ha. apply H. now right.
Qed.
Lemma F2_map_in {A B A' B'} (P : A -> B -> Prop) (Q : A' -> B' -> Prop) (f : A -> A') (g : B -> B') l l' :
  (forall x y, In x l -> P x y -> Q (f x) (g y)) -> Forall2 P l l' -> Forall2 Q (map f l) (map g l').
Proof.
  intros H HF. induction HF as [|x y l l' Hxy _ IH]; cbn [map]; constructor; [apply H; [now left | assumption]|].
  apply IH. intros a b Ha. apply H. now right.
Qed.
Lemma F2_compose {A B D} (P : A -> D -> Prop) (Q : B -> D -> Prop) (S : A -> B -> Prop) :
  (forall a d b, P a d -> Q b d -> S a b) -> forall l ld, Forall2 P l ld -> forall l2, Forall2 Q l2 ld -> Forall2 S l l2.
Proof.
  intros H l ld HF. induction HF as [|a d l ld Had _ IH]; intros l2 H2; inversion H2; subst; constructor; eauto.
Qed.
Lemma F2_fun_map {A B} (f : A -> B) l l' : Forall2 (fun x u => f x = u) l l' <-> l' = map f l.
Proof.
  split.
  - induction 1 as [|x u l l' Hx _ IH]; cbn [map]; congruence.
  - intros ->. induction l as [|x l IH]; cbn [map]; constructor; [reflexivity | assumption].
Qed.
Lemma fm_ext_in {A B} (f g : A -> list B) l : (forall x, In x l -> f x = g x) -> flat_map f l = flat_map g l.
Proof.
  induction l as [|x l IH]; intros H; cbn [flat_map]; [reflexivity|].
  rewrite (H x (or_introl eq_refl)), IH; [reflexivity|]. intros y Hy. apply H. now right.
Qed.

(* ---------- 1a. the lifted relations of DSearchBlind.v are monotone in R ---------- *)
Section DMono.
Context {C C' : Type}.
Variables R R' : C -> C' -> Prop.
Hypothesis Hsub : forall x y, R x y -> R' x y.

Lemma prel_mono p p' : prel R p p' -> prel R' p p'.
Proof. destruct 1; constructor; auto. Qed.
Lemma direl_mono x x' : direl R x x' -> direl R' x x'.
Proof. intros [Hi Hp]. split; [now apply (irel_mono R R' Hsub) | now apply prel_mono]. Qed.
Lemma trel_mono t t' : trel R t t' -> trel R' t t'.
Proof. intros (Hp & Hrest). split; [now apply prel_mono | exact Hrest]. Qed.
Lemma sirel_mono o o' : sirel R o o' -> sirel R' o o'.
Proof. intros [Hi Hn]. split; [now apply (irel_mono R R' Hsub) | exact Hn]. Qed.
Lemma crel_mono c c' : crel R c c' -> crel R' c c'.
Proof. intros [Hk Hi]. split; [exact Hk|]. eapply F2_impl; [|exact Hi]. exact sirel_mono. Qed.
(* a larger relation still relates the states *)
Theorem dsrel_mono st st' : dsrel R st st' -> dsrel R' st st'.
Proof.
  intros (Hh & Hc & Hs & Hg & Hn & Ht). split; [eapply F2_impl; [|exact Hh]; exact direl_mono|].
  split; [eapply F2_impl; [|exact Hc]; exact crel_mono|]. split; [exact Hs|].
  split; [now apply (F2_irel_mono R R' Hsub)|]. split; [exact Hn|]. eapply F2_impl; [|exact Ht]. exact trel_mono.
Qed.
End DMono.

(* ---------- 1b. two systems related to a common third one are related to each other ---------- *)
Section DCompose.
Context {A B D : Type}.
Variable R1 : A -> D -> Prop.
Variable R2 : B -> D -> Prop.
Variable S : A -> B -> Prop.
Hypothesis Hc : forall a b d, R1 a d -> R2 b d -> S a b.

Lemma drel_compose d1 dc : drel R1 d1 dc -> forall d2, drel R2 d2 dc -> drel S d1 d2.
Proof.
  induction 1 as [i c c' Hcc | k c c' d d' Hcc Hd IH | k c c' hl l l' r r' Hcc Hl IHl Hr IHr]; intros d2 H2; inversion H2; subst;
    constructor; eauto.
Qed.
Lemma irel_compose a1 ac a2 : irel R1 a1 ac -> irel R2 a2 ac -> irel S a1 a2.
Proof.
  intros (Hf & Hd & Hi & Ho & Hs & Hl & Hh) (Hf2 & Hd2 & Hi2 & Ho2 & Hs2 & Hl2 & Hh2). unfold irel.
  rewrite Hf, Hi, Ho, Hs, Hl, Hh, Hf2, Hi2, Ho2, Hs2, Hl2, Hh2. repeat split. now apply (drel_compose _ (jder ac)).
Qed.
Lemma prel_compose p1 pc p2 : prel R1 p1 pc -> prel R2 p2 pc -> prel S p1 p2.
Proof. intros H1 H2. destruct H1; inversion H2; subst; constructor; eauto. Qed.
Lemma direl_compose x1 xc x2 : direl R1 x1 xc -> direl R2 x2 xc -> direl S x1 x2.
Proof. intros [Hi Hp] [Hi2 Hp2]. split; [now apply (irel_compose _ (d_item xc)) | now apply (prel_compose _ (d_pop xc))]. Qed.
Lemma trel_compose t1 tc t2 : trel R1 t1 tc -> trel R2 t2 tc -> trel S t1 t2.
Proof.
  intros (Hp & Hi & Ho & Hs & Hl & Hh & Hst) (Hp2 & Hi2 & Ho2 & Hs2 & Hl2 & Hh2 & Hst2). unfold trel.
  rewrite Hi, Ho, Hs, Hl, Hh, Hst, Hi2, Ho2, Hs2, Hl2, Hh2, Hst2. repeat split. now apply (prel_compose _ (t_pop tc)).
Qed.
Lemma sirel_compose o1 oc o2 : sirel R1 o1 oc -> sirel R2 o2 oc -> sirel S o1 o2.
Proof. intros [Hi Hn] [Hi2 Hn2]. split; [now apply (irel_compose _ (fst oc)) | congruence]. Qed.
Lemma crel_compose c1 cc c2 : crel R1 c1 cc -> crel R2 c2 cc -> crel S c1 c2.
Proof. intros [Hk Hi] [Hk2 Hi2]. split; [congruence|]. exact (F2_compose _ _ _ sirel_compose _ _ Hi _ Hi2). Qed.
Theorem dsrel_compose st1 stc st2 : dsrel R1 st1 stc -> dsrel R2 st2 stc -> dsrel S st1 st2.
Proof.
  intros (Hh & Hch & Hs & Hg & Hn & Ht) (Hh2 & Hch2 & Hs2 & Hg2 & Hn2 & Ht2).
  split; [exact (F2_compose _ _ _ direl_compose _ _ Hh _ Hh2)|]. split; [exact (F2_compose _ _ _ crel_compose _ _ Hch _ Hch2)|].
  split; [congruence|]. split; [exact (F2_compose _ _ _ irel_compose _ _ Hg _ Hg2)|]. split; [congruence|].
  exact (F2_compose _ _ _ trel_compose _ _ Ht _ Ht2).
Qed.
End DCompose.

(* ---------- 1c. the keys of an iteration ---------- *)
Section KeysIn.
Context {C : Type}.
Variable n : nat.
Lemma in_dkeys_un (a : @jitem C) ch : (n =? 1) || negb (jlen a =? n) = true -> In (DKUn (jcat a)) (dkeys n a ch).
Proof. intros H. unfold dkeys. rewrite H. apply in_or_app. left. now left. Qed.
Lemma in_dkeys_right (a : @jitem C) ch c o : In c (cells_starting_at ch (jstart a + jlen a)) -> In o (snd c) ->
  In (DKBin (jcat a) (jcat (fst o))) (dkeys n a ch).
Proof.
  intros Hc Ho. unfold dkeys. apply in_or_app. right. apply in_or_app. left. apply in_flat_map. exists c. split; [exact Hc|].
  apply in_map_iff. exists o. split; [reflexivity | exact Ho].
Qed.
Lemma in_dkeys_left (a : @jitem C) ch c o : In c (cells_ending_at ch (jstart a)) -> In o (snd c) ->
  In (DKBin (jcat (fst o)) (jcat a)) (dkeys n a ch).
Proof.
  intros Hc Ho. unfold dkeys. apply in_or_app. right. apply in_or_app. right. apply in_flat_map. exists c. split; [exact Hc|].
  apply in_map_iff. exists o. split; [reflexivity | exact Ho].
Qed.
End KeysIn.

(* ---------- 1d. an iteration depends on the rule functions only through the keys it looks up ---------- *)
Section DExt.
Context {C : Type}.
Variable ceqb : C -> C -> bool.
Variable n : nat.
Variable dep : nat -> nat -> Z.
Variable besttag bestdep : nat -> Z.
Variable bin1 bin2 : C -> C -> list (C * bool).
Variable un1 un2 : C -> list C.
Variable isroot : C -> bool.
Variable pen : Z.
Variable dedup : bool.

Theorem dstep_ext_on st :
  dstep_within ceqb n dedup (fun x y => bin1 x y = bin2 x y) (fun x => un1 x = un2 x) st ->
  dstep ceqb n dep besttag bestdep bin1 un1 isroot pen dedup st = dstep ceqb n dep besttag bestdep bin2 un2 isroot pen dedup st.
Proof.
  intros Hw. unfold dstep_within, dneeded in Hw. unfold dstep.
  destruct (pop dlt (dheap st)) as [[x h]|]; [|reflexivity]. cbv zeta.
  destruct (jfin (d_item x)); [reflexivity|].
  destruct (chart_update ceqb dedup (dchart st) (d_item x) (dstored st)) as [ch|]; [|reflexivity].
  assert (E : dpushes n dep besttag bestdep bin1 un1 isroot pen (d_item x) (dstored st) ch =
              dpushes n dep besttag bestdep bin2 un2 isroot pen (d_item x) (dstored st) ch).
  { unfold dpushes. f_equal. f_equal; [|f_equal].
    - unfold dpush_un. destruct ((n =? 1) || negb (jlen (d_item x) =? n)) eqn:Eu; [|reflexivity].
      now rewrite (Hw _ (in_dkeys_un n (d_item x) ch Eu)).
    - unfold dpush_right. apply fm_ext_in. intros c Hc. apply fm_ext_in. intros o Ho. unfold dcomb_right.
      now rewrite (Hw _ (in_dkeys_right n (d_item x) ch c o Hc Ho)).
    - unfold dpush_left. apply fm_ext_in. intros c Hc. apply fm_ext_in. intros o Ho. unfold dcomb_left.
      now rewrite (Hw _ (in_dkeys_left n (d_item x) ch c o Hc Ho)). }
  now rewrite E.
Qed.

Variable max_step nbest : nat.
(* every iteration of a run of `fuel` iterations looks up keys of the domain only *)
Fixpoint drun_within (UB : C -> C -> Prop) (UU : C -> Prop) (fuel : nat) (st : @dstate C) : Prop :=
  match fuel with
  | O => True
  | S f => drunning_b max_step nbest st = true ->
           dstep_within ceqb n dedup UB UU st /\
           drun_within UB UU f (dstep ceqb n dep besttag bestdep bin1 un1 isroot pen dedup st)
  end.
End DExt.

(* ---------- 1e. the domain-restricted simulation ---------- *)
Section DOn.
Context {C C' : Type}.
Variable ceqb : C -> C -> bool.
Variable ceqb' : C' -> C' -> bool.
Variable n : nat.
Variable dep : nat -> nat -> Z.
Variable besttag bestdep : nat -> Z.
Variable isroot : C -> bool.
Variable isroot' : C' -> bool.
Variable pen : Z.
Variable dedup : bool.
Variable R : C -> C' -> Prop.
Hypothesis R_eqb : forall a a' b b', R a a' -> R b b' -> ceqb a b = ceqb' a' b'.
Hypothesis R_root : forall a a', R a a' -> isroot a = isroot' a'.

(* related keys *)
Definition krel (k : @dkey C) (k' : @dkey C') : Prop :=
  match k, k' with
  | DKUn x, DKUn x' => R x x'
  | DKBin x y, DKBin x' y' => R x x' /\ R y y'
  | _, _ => False
  end.

Lemma dkeys_rel a a' ch ch' : irel R a a' -> Forall2 (crel R) ch ch' -> Forall2 krel (dkeys n a ch) (dkeys n a' ch').
Proof.
  intros Ha HF. unfold dkeys. rewrite (irel_jlen _ _ _ Ha), (irel_jstart _ _ _ Ha). repeat apply Forall2_app.
  - destruct ((n =? 1) || negb (jlen a' =? n)); [|constructor]. constructor; [|constructor]. exact (irel_jcat R _ _ Ha).
  - apply F2_flat_map with (P := crel R); [|now apply cells_starting_at_rel].
    intros c c' [_ Hc]. apply F2_map with (P := sirel R); [|exact Hc].
    intros o o' [Ho _]. split; [exact (irel_jcat R _ _ Ha) | exact (irel_jcat R _ _ Ho)].
  - apply F2_flat_map with (P := crel R); [|now apply cells_ending_at_rel].
    intros c c' [_ Hc]. apply F2_map with (P := sirel R); [|exact Hc].
    intros o o' [Ho _]. split; [exact (irel_jcat R _ _ Ho) | exact (irel_jcat R _ _ Ha)].
Qed.

(* related states look up related keys, in the same order *)
Theorem dneeded_rel st st' : dsrel R st st' -> Forall2 krel (dneeded ceqb n dedup st) (dneeded ceqb' n dedup st').
Proof.
  intros (Hh & Hc & Hs & _). unfold dneeded.
  pose proof (pop_rel dlt dlt (direl R) (dlt_rel R) _ _ Hh) as Hp. unfold pop_res_rel in Hp.
  destruct (pop dlt (dheap st)) as [[x h]|], (pop dlt (dheap st')) as [[x' h']|]; try contradiction; [|constructor].
  destruct Hp as [[Hxi _] _]. rewrite (irel_jfin _ _ _ Hxi). destruct (jfin (d_item x')); [constructor|].
  pose proof (chart_update_rel ceqb ceqb' dedup R R_eqb _ _ _ _ (dstored st) Hc Hxi) as Hu. rewrite Hs in Hu at 2. unfold orel in Hu.
  destruct (chart_update ceqb dedup (dchart st) (d_item x) (dstored st)) as [ch|],
           (chart_update ceqb' dedup (dchart st') (d_item x') (dstored st')) as [ch'|]; try contradiction; [|constructor].
  now apply dkeys_rel.
Qed.

Section OneStep.
(* the rule functions of THIS iteration on both sides, and the domain on which they are known to agree up to R *)
Variable bin : C -> C -> list (C * bool).
Variable bin' : C' -> C' -> list (C' * bool).
Variable un : C -> list C.
Variable un' : C' -> list C'.
Variable UB : C -> C -> Prop.
Variable UU : C -> Prop.
Hypothesis R_bin_on : forall a a' b b', R a a' -> R b b' -> UB a b -> res_rel R (bin a b) (bin' a' b').
Hypothesis R_un_on : forall a a', R a a' -> UU a -> Forall2 R (un a) (un' a').

Lemma dpush_un_rel_on a a' ia : irel R a a' -> ((n =? 1) || negb (jlen a =? n) = true -> UU (jcat a)) ->
  Forall2 (direl R) (dpush_un n un pen a ia) (dpush_un n un' pen a' ia).
Proof.
  intros Ha HU. unfold dpush_un. rewrite <- (irel_jlen _ _ _ Ha).
  destruct ((n =? 1) || negb (jlen a =? n)); [|constructor].
  apply F2_map with (P := fun p q => fst p = fst q /\ R (snd p) (snd q)).
  - intros p q [Hk Hc]. rewrite Hk. split; cbn [d_item d_pop]; [now apply junary_rel | now constructor].
  - apply (F2_enum R). apply R_un_on; [now apply irel_jcat | now apply HU].
Qed.

Lemma dcomb_right_rel_on a a' ia o o' : irel R a a' -> sirel R o o' -> UB (jcat a) (jcat (fst o)) ->
  Forall2 (direl R) (dcomb_right n dep besttag bestdep bin a ia o) (dcomb_right n dep besttag bestdep bin' a' ia o').
Proof.
  intros Ha [Ho Hi] HU. unfold dcomb_right.
  apply F2_map with (P := fun p q => fst p = fst q /\ (R (fst (snd p)) (fst (snd q)) /\ snd (snd p) = snd (snd q))).
  - intros p q [Hk [Hc Hh]]. rewrite Hk, Hh, Hi. split; cbn [d_item d_pop]; [now apply jcombine_rel | now constructor].
  - apply (F2_enum (fun p q => R (fst p) (fst q) /\ snd p = snd q)). apply R_bin_on; [now apply irel_jcat | now apply irel_jcat | exact HU].
Qed.

Lemma dcomb_left_rel_on a a' ia o o' : irel R a a' -> sirel R o o' -> UB (jcat (fst o)) (jcat a) ->
  Forall2 (direl R) (dcomb_left n dep besttag bestdep bin a ia o) (dcomb_left n dep besttag bestdep bin' a' ia o').
Proof.
  intros Ha [Ho Hi] HU. unfold dcomb_left.
  apply F2_map with (P := fun p q => fst p = fst q /\ (R (fst (snd p)) (fst (snd q)) /\ snd (snd p) = snd (snd q))).
  - intros p q [Hk [Hc Hh]]. rewrite Hk, Hh, Hi. split; cbn [d_item d_pop]; [now apply jcombine_rel | now constructor].
  - apply (F2_enum (fun p q => R (fst p) (fst q) /\ snd p = snd q)). apply R_bin_on; [now apply irel_jcat | now apply irel_jcat | exact HU].
Qed.

Lemma dpush_right_rel_on a a' ia ch ch' : irel R a a' -> Forall2 (crel R) ch ch' ->
  (forall c o, In c (cells_starting_at ch (jstart a + jlen a)) -> In o (snd c) -> UB (jcat a) (jcat (fst o))) ->
  Forall2 (direl R) (dpush_right n dep besttag bestdep bin a ia ch) (dpush_right n dep besttag bestdep bin' a' ia ch').
Proof.
  intros Ha HF HU. unfold dpush_right. rewrite <- (irel_jstart _ _ _ Ha), <- (irel_jlen _ _ _ Ha).
  apply F2_flat_map_in with (P := crel R); [|now apply cells_starting_at_rel].
  intros c c' Hin [_ Hc]. apply F2_flat_map_in with (P := sirel R); [|exact Hc].
  intros o o' Hoin Ho. apply dcomb_right_rel_on; [assumption | assumption | now apply (HU c)].
Qed.

Lemma dpush_left_rel_on a a' ia ch ch' : irel R a a' -> Forall2 (crel R) ch ch' ->
  (forall c o, In c (cells_ending_at ch (jstart a)) -> In o (snd c) -> UB (jcat (fst o)) (jcat a)) ->
  Forall2 (direl R) (dpush_left n dep besttag bestdep bin a ia ch) (dpush_left n dep besttag bestdep bin' a' ia ch').
Proof.
  intros Ha HF HU. unfold dpush_left. rewrite <- (irel_jstart _ _ _ Ha).
  apply F2_flat_map_in with (P := crel R); [|now apply cells_ending_at_rel].
  intros c c' Hin [_ Hc]. apply F2_flat_map_in with (P := sirel R); [|exact Hc].
  intros o o' Hoin Ho. apply dcomb_left_rel_on; [assumption | assumption | now apply (HU c)].
Qed.

Lemma dpushes_rel_on a a' ia ch ch' : irel R a a' -> Forall2 (crel R) ch ch' ->
  (forall k, In k (dkeys n a ch) -> key_in UB UU k) ->
  Forall2 (direl R) (dpushes n dep besttag bestdep bin un isroot pen a ia ch)
                    (dpushes n dep besttag bestdep bin' un' isroot' pen a' ia ch').
Proof.
  intros Ha HF HU. unfold dpushes. repeat apply Forall2_app.
  - now apply (dpush_fin_rel n dep isroot isroot' R R_root).
  - apply dpush_un_rel_on; [assumption|]. intros Hu. exact (HU _ (in_dkeys_un n a ch Hu)).
  - apply dpush_right_rel_on; [assumption | assumption|]. intros c o Hc Ho. exact (HU _ (in_dkeys_right n a ch c o Hc Ho)).
  - apply dpush_left_rel_on; [assumption | assumption|]. intros c o Hc Ho. exact (HU _ (in_dkeys_left n a ch c o Hc Ho)).
Qed.

(* one loop iteration keeps the states related, provided the keys THIS iteration looks up lie in the domain on which
   the rule functions of this iteration agree up to R *)
Theorem dstep_rel_on st st' : dsrel R st st' -> dstep_within ceqb n dedup UB UU st ->
  dsrel R (dstep ceqb n dep besttag bestdep bin un isroot pen dedup st)
          (dstep ceqb' n dep besttag bestdep bin' un' isroot' pen dedup st').
Proof.
  intros Hst Hw. pose proof Hst as (Hh & Hc & Hs & Hg & Hn & Ht). unfold dstep_within, dneeded in Hw. unfold dstep.
  pose proof (pop_rel dlt dlt (direl R) (dlt_rel R) _ _ Hh) as Hp. unfold pop_res_rel in Hp.
  destruct (pop dlt (dheap st)) as [[x h]|], (pop dlt (dheap st')) as [[x' h']|]; try contradiction; [|exact Hst].
  destruct Hp as [Hx Hh2]. pose proof Hx as [Hxi Hxp]. cbv zeta.
  rewrite <- (irel_jfin _ _ _ Hxi). destruct (jfin (d_item x)).
  - unfold dsrel; cbn [dheap dchart dstored dgoal dsteps dtrace].
    rewrite (goal_contains_rel ceqb ceqb' R R_eqb _ _ _ _ Hxi Hg).
    split; [exact Hh2|]. split; [exact Hc|]. split; [exact Hs|].
    split; [|split; [now rewrite Hn | constructor; [now apply mk_trec_rel | exact Ht]]].
    destruct (dedup && existsb (fun g => ceqb' (jcat (d_item x')) (jcat g)) (dgoal st')); [exact Hg | now constructor].
  - pose proof (chart_update_rel ceqb ceqb' dedup R R_eqb _ _ _ _ (dstored st) Hc Hxi) as Hu. rewrite Hs in Hu at 2. unfold orel in Hu.
    destruct (chart_update ceqb dedup (dchart st) (d_item x) (dstored st)) as [ch|],
             (chart_update ceqb' dedup (dchart st') (d_item x') (dstored st')) as [ch'|]; try contradiction.
    + unfold dsrel; cbn [dheap dchart dstored dgoal dsteps dtrace].
      split; [|split; [exact Hu|]].
      * apply push_all_rel; [|exact Hh2]. rewrite <- Hs. now apply dpushes_rel_on.
      * split; [now rewrite Hs|]. split; [exact Hg|].
        split; [now rewrite Hn | constructor; [now apply mk_trec_rel | exact Ht]].
    + unfold dsrel; cbn [dheap dchart dstored dgoal dsteps dtrace].
      split; [exact Hh2|]. split; [exact Hc|]. split; [exact Hs|]. split; [exact Hg|].
      split; [now rewrite Hn | constructor; [now apply mk_trec_rel | exact Ht]].
Qed.
End OneStep.

(* ---------- whole runs with fixed rule functions, every iteration staying in the domain ---------- *)
Section Runs.
Variable tag : nat -> C -> Z.
Variable tag' : nat -> C' -> Z.
Variable adm : nat -> list C.
Variable adm' : nat -> list C'.
Variable bin : C -> C -> list (C * bool).
Variable bin' : C' -> C' -> list (C' * bool).
Variable un : C -> list C.
Variable un' : C' -> list C'.
Variable max_step nbest : nat.
Variable UB : C -> C -> Prop.
Variable UU : C -> Prop.
Hypothesis R_bin_on : forall a a' b b', R a a' -> R b b' -> UB a b -> res_rel R (bin a b) (bin' a' b').
Hypothesis R_un_on : forall a a', R a a' -> UU a -> Forall2 R (un a) (un' a').
Hypothesis R_adm : forall i, Forall2 (fun c c' => R c c' /\ tag i c = tag' i c') (adm i) (adm' i).

Theorem drun_rel_on fuel : forall st st', dsrel R st st' ->
  drun_within ceqb n dep besttag bestdep bin un isroot pen dedup max_step nbest UB UU fuel st ->
  dsrel R (drun ceqb n dep besttag bestdep bin un isroot pen dedup max_step nbest fuel st)
          (drun ceqb' n dep besttag bestdep bin' un' isroot' pen dedup max_step nbest fuel st').
Proof.
  induction fuel as [|f IH]; intros st st' Hst Hw; cbn [drun]; [exact Hst|].
  rewrite <- (drunning_rel max_step nbest R _ _ Hst). cbn [drun_within] in Hw.
  destruct (drunning_b max_step nbest st); [|exact Hst]. destruct (Hw eq_refl) as [Hw1 Hw2].
  apply IH; [|exact Hw2]. now apply (dstep_rel_on bin bin' un un' UB UU R_bin_on R_un_on).
Qed.

(* the twin on two systems whose rule functions agree up to R on the keys the FIRST run looks up: position-wise related
   pop traces, equal status, related results, equal scores *)
Theorem dsearch_is_category_blind_on :
  let st := dfinal ceqb n tag dep adm besttag bestdep bin un isroot pen dedup max_step nbest in
  let st' := dfinal ceqb' n tag' dep adm' besttag bestdep bin' un' isroot' pen dedup max_step nbest in
  drun_within ceqb n dep besttag bestdep bin un isroot pen dedup max_step nbest UB UU max_step (dinit n tag adm besttag bestdep) ->
  dsrel R st st' /\ Forall2 (trel R) (dpops st) (dpops st') /\ dstatus st = dstatus st' /\
  Forall2 (irel R) (dresult st) (dresult st') /\ map (@jprio C) (dresult st) = map (@jprio C') (dresult st').
Proof.
  intros st st' Hw. assert (Hst : dsrel R st st').
  { unfold st, st', dfinal. apply drun_rel_on; [|exact Hw]. now apply dinit_rel. }
  split; [exact Hst|]. split; [now apply dpops_rel|]. split; [now apply (dstatus_rel R)|].
  split; [now apply dresult_rel | apply (irel_scores R); now apply dresult_rel].
Qed.
End Runs.
End DOn.

(* ---------- 3. the heap commutes with erasing the categories ---------- *)
Lemma pblind_rel {C C'} (R : C -> C' -> Prop) p p' : prel R p p' -> pblind p = pblind p'.
Proof. destruct 1; reflexivity. Qed.
Lemma dblind_rel {C C'} (R : C -> C' -> Prop) x x' : direl R x x' -> dblind x = dblind x'.
Proof. intros [Hi Hp]. unfold dblind. now rewrite (blind_rel R _ _ Hi), (pblind_rel R _ _ Hp). Qed.
(* related states have THE SAME erased heap vector: the element the heap releases next sits at the same index (0) and the
   whole layout - hence every later choice among equal scores - is the same *)
Theorem dview_rel {C C'} (R : C -> C' -> Prop) st st' : dsrel R st st' -> dview st = dview st'.
Proof.
  intros (Hh & _). unfold dview. induction Hh as [|x x' l l' Hx _ IH]; cbn [map]; [reflexivity|].
  now rewrite (dblind_rel R _ _ Hx), IH.
Qed.

Section Erase.
Context {C : Type}.
Lemma dlt_dblind (x y : @ditem C) : dlt (dblind x) (dblind y) = dlt x y.
Proof. reflexivity. Qed.
Let E (x : @ditem C) (u : @ditem unit) : Prop := dblind x = u.
Lemma E_lt a a' b b' : E a a' -> E b b' -> dlt a b = dlt a' b'.
Proof. unfold E. intros <- <-. reflexivity. Qed.
(* agenda.push commutes with erasure: the layout of the erased vector after a push is a function of the erased vector before
   and of the erased element *)
Theorem push_dblind (v : list (@ditem C)) x : map dblind (push dlt v x) = push dlt (map dblind v) (dblind x).
Proof.
  symmetry. apply (F2_fun_map dblind). apply (push_rel dlt dlt E E_lt); [now apply F2_fun_map | reflexivity].
Qed.
Theorem push_all_dblind (l h : list (@ditem C)) : map dblind (push_all l h) = push_all (map dblind l) (map dblind h).
Proof.
  unfold push_all. revert h. induction l as [|x l IH]; intros h; cbn [fold_left map]; [reflexivity|].
  now rewrite IH, push_dblind.
Qed.
(* agenda.top()/pop() commute with erasure *)
Theorem pop_dblind (v : list (@ditem C)) :
  pop dlt (map dblind v) = match pop dlt v with Some (x, w) => Some (dblind x, map dblind w) | None => None end.
Proof.
  pose proof (pop_rel dlt dlt E E_lt v (map dblind v) (proj2 (F2_fun_map dblind v _) eq_refl)) as H. unfold pop_res_rel in H.
  destruct (pop dlt v) as [[x w]|], (pop dlt (map dblind v)) as [[x' w']|]; try contradiction; [|reflexivity].
  destruct H as [Hx Hw]. unfold E in Hx. apply F2_fun_map in Hw. now subst.
Qed.
End Erase.

(* ---------- DSearchProofs.dstep_sim with the popped item named: the item the twin pops is the top of the heap ---------- *)
Section SimTop.
Context {C : Type}.
Variable ceqb : C -> C -> bool.
Hypothesis ceqb_eq : forall a b, ceqb a b = true <-> a = b.
Variable n : nat.
Variable tag : nat -> C -> Z.
Variable dep : nat -> nat -> Z.
Variable adm : nat -> list C.
Variable besttag bestdep : nat -> Z.
Variable bin : C -> C -> list (C * bool).
Variable un : C -> list C.
Variable isroot : C -> bool.
Variable pen : Z.
Variable dedup : bool.
Variable max_step nbest : nat.
Hypothesis Hmode : dedup = true -> nbest <= 1.
Notation jreachN := (jreach ceqb n tag dep adm besttag bestdep bin un isroot pen dedup max_step nbest).
Notation jstepN := (jstep ceqb n dep besttag bestdep bin un isroot pen dedup).
Notation dstepN := (dstep ceqb n dep besttag bestdep bin un isroot pen dedup).
Notation fields_okN := (fields_ok n tag dep besttag bestdep pen).

Theorem dstep_sim_top ds js x h : jreachN js -> dinv ds -> sim ds js -> drunning_b max_step nbest ds = true ->
  pop dlt (dheap ds) = Some (x, h) ->
  jrunning max_step nbest js /\ jvalid_pop (d_item x) js /\ fields_okN (d_item x) /\
  sim (dstepN ds) (jstepN (d_item x) js) /\ dinv (dstepN ds).
Proof.
  intros Hr [Hh Hw] Hsim Hrun Ep. pose proof (running_sim max_step nbest ds js Hsim Hrun) as Hjrun.
  destruct Hsim as (Ha & Hc & Hg & Hs).
  destruct (refinement ceqb n tag dep adm besttag bestdep bin un isroot pen dedup max_step nbest js Hr) as [_ (Jag & Jch & Jgo)].
  unfold dstep. rewrite Ep.
  pose proof (pop_perm dlt _ _ _ Ep) as Pp. pose proof (pop_max dlt _ _ _ (@dlt_swo C) Hh Ep) as Pm.
  pose proof (pop_heap_ok dlt _ _ _ (@dlt_swo C) Hh Ep) as Ph.
  set (a := d_item x).
  assert (Hin : In a (jagenda js)).
  { apply (Permutation_in _ Ha). apply in_map. apply (Permutation_in _ (Permutation_sym Pp)). now left. }
  assert (Hv : jvalid_pop a js).
  { split; [exact Hin|]. intros b Hb. apply (Permutation_in _ (Permutation_sym Ha)) in Hb. apply in_map_iff in Hb as [y [<- Hy]].
    specialize (Pm y Hy). unfold dlt in Pm. apply Z.ltb_ge in Pm. exact Pm. }
  assert (Hrem : Permutation (map (@d_item C) h) (jremove ceqb a (jagenda js))).
  { apply (Permutation_cons_inv (a := a)). rewrite <- (jremove_perm ceqb ceqb_eq n tag dep besttag bestdep pen a (jagenda js) Jag Hin). rewrite <- Ha.
    change (a :: map (@d_item C) h) with (map (@d_item C) (x :: h)). apply Permutation_map. now symmetry. }
  split; [exact Hjrun|]. split; [exact Hv|]. split; [apply Jag; exact Hin|].
  unfold jstep. fold a. cbv zeta. destruct (jfin a) eqn:Ef.
  - assert (Hgoal : (if dedup && existsb (fun g => ceqb (jcat a) (jcat g)) (dgoal ds) then dgoal ds else a :: dgoal ds) = a :: dgoal ds).
    { destruct dedup eqn:Ed; [|reflexivity]. destruct Hjrun as (_ & Hlen & _). rewrite <- Hg, rev_length in Hlen.
      specialize (Hmode eq_refl). destruct (dgoal ds); [reflexivity | simpl in Hlen; lia]. }
    rewrite Hgoal. split; [|split; simpl; assumption].
    split; [|split; [|split]]; simpl; try assumption; [now rewrite Hg | now rewrite Hs].
  - assert (Hfa : fields_okN a) by (apply Jag; exact Hin).
    assert (Hcont : existsb (jkey_eqb ceqb a) (jchart js) = cell_contains ceqb (cell_items (dchart ds) (jstart a) (jlen a)) a).
    { rewrite <- (existsb_perm _ _ _ Hc). now apply contains_eq. }
    unfold chart_update. rewrite <- Hcont. destruct (dedup && existsb (jkey_eqb ceqb a) (jchart js)).
    + split; [|split; simpl; assumption]. split; [|split; [|split]]; simpl; try assumption. now rewrite Hs.
    + pose proof (cell_add_wf (dchart ds) a (dstored ds) Hw) as Hw'.
      pose proof (cabs_cell_add (dchart ds) (jstart a) (jlen a) (a, dstored ds)) as Hc'. simpl in Hc'.
      assert (Hlen : 1 <= jlen a).
      { destruct Hfa as (_ & _ & _ & Hl & _). rewrite Hl. apply dlen_pos. }
      split; [|split; simpl; [apply push_all_ok; exact Ph | exact Hw']].
      split; [|split; [|split]]; simpl; try assumption.
      * rewrite (push_all_perm _ h), map_app. apply Permutation_app; [|exact Hrem].
        apply (pushes_perm n tag dep adm besttag bestdep bin un isroot pen dedup nbest Hmode); [exact (proj1 Hw') | | exact Hlen].
        rewrite Hc'. now constructor.
      * rewrite Hc'. now constructor.
      * now rewrite Hs.
Qed.
End SimTop.

(* ---------- 2. the memo ---------- *)
Section G.
Variable gbin : cat -> cat -> list cres.
Variable gun : cat -> list cres.
Notation memo_ops := (memo_ops gbin gun).
Notation coherent := (coherent gbin gun).

Section Call.
Variable cats roots : list cat.
Variable rids : list nat.
Variable pen : Z.
Variable dedup : bool.
Variable max_step nbest : nat.
Notation start_ok := (start_ok gbin gun cats roots rids).

Lemma krel_in_range t k kc : krel (names t) k kc -> op_in_range t (mop_of k).
Proof.
  destruct k as [x|x y], kc as [cx|cx cy]; cbn [krel mop_of op_in_range]; try contradiction.
  - apply names_lt.
  - intros [Hx Hy]. split; [exact (names_lt _ _ _ Hx) | exact (names_lt _ _ _ Hy)].
Qed.

Section OneSentence.
Variable s : sent.
Notation dmstep := (dmstep gbin gun rids pen dedup s).
Notation dmstep_ds := (dmstep_ds rids pen dedup s).
Notation dmkeys := (dmkeys dedup s).
Notation dmrun := (dmrun gbin gun rids pen dedup max_step nbest s).
Notation dmfinal := (dmfinal gbin gun rids pen dedup max_step nbest s).
Notation dtfinal := (dtfinal gbin gun rids pen dedup max_step nbest s).
Notation dcstep := (dcstep gbin gun roots pen dedup s).
Notation dcinit := (dcinit cats s).
Notation dcfinal := (dcfinal gbin gun cats roots pen dedup max_step nbest s).
Notation drun_c := (drun cat_eqb (s_n s) (s_dep s) (s_besttag s) (s_bestdep s) (bin_c gbin) (un_c gun) (isroot_c roots) pen dedup max_step nbest).
Notation drun_T T := (drun Nat.eqb (s_n s) (s_dep s) (s_besttag s) (s_bestdep s) (bin_T gbin T) (un_T gun T) (isroot_ids rids) pen dedup max_step nbest).
Notation cached_bin st := (fun x y => exists e, cache_find (KBin x y) (mcache st) = Some e).
Notation cached_un st := (fun x => exists e, cache_find (KUn x) (mcache st) = Some e).

(* every key the next iteration looks up is a key over ids of the table: no IndexError in categories_[id] *)
Lemma dmkeys_in_range t ds (dc : @dstate cat) : NoDup t -> dsrel (names t) ds dc -> forall o, In o (dmkeys ds) -> op_in_range t o.
Proof.
  intros Hnd Hs o Ho. unfold DSearchMemo.dmkeys in Ho. apply in_map_iff in Ho as [k [<- Hk]].
  destruct (F2_in_l _ _ _ _ (dneeded_rel Nat.eqb cat_eqb (s_n s) dedup (names t) (names_eqb t Hnd) ds dc Hs) Hk) as [kc [_ Hkk]].
  exact (krel_in_range t k kc Hkk).
Qed.

(* every key the iteration looked up is in the cache afterwards *)
Lemma dmkeys_cached ds m m' : memo_ops (dmkeys ds) m = Some m' ->
  dstep_within Nat.eqb (s_n s) dedup (cached_bin m') (cached_un m') ds.
Proof.
  intros Hops k Hk. destruct (memo_ops_cached gbin gun _ _ _ (mop_of k) Hops (in_map mop_of _ _ Hk)) as [e He].
  destruct k as [x|x y]; cbn [key_in mop_of key_of] in *; eauto.
Qed.

(* ---------- one iteration under the memo = one iteration of the twin over the categories ---------- *)
Theorem dmstep_rel m ds dc : start_ok m -> dsrel (names (mtable m)) ds dc ->
  exists m', dmstep ds m = Some (dmstep_ds m' ds, m') /\ start_ok m' /\ (exists u, mtable m' = mtable m ++ u) /\
             dsrel (names (mtable m')) (dmstep_ds m' ds) (dcstep dc).
Proof.
  intros Hst Hs. destruct (start_ok_nodup gbin gun cats roots rids m Hst) as [_ Hnd].
  destruct (memo_ops_total gbin gun (dmkeys ds) m (proj1 Hst) (dmkeys_in_range _ ds dc Hnd Hs)) as [m' Hops].
  exists m'. unfold DSearchMemo.dmstep. rewrite Hops. split; [reflexivity|].
  pose proof (start_ok_ops gbin gun cats roots rids _ _ _ Hst Hops) as Hst'.
  destruct (memo_ops_coherent_from gbin gun _ _ _ (proj1 Hst) Hops) as (Hc' & [u Hu] & _).
  split; [assumption|]. split; [now exists u|].
  assert (Hsub : forall i c, names (mtable m) i c -> names (mtable m') i c) by (intros i c H; rewrite Hu; now apply names_ext).
  destruct Hst' as (_ & _ & HR'). pose proof Hc' as [Hnd' _].
  unfold DSearchMemo.dmstep_ds, DSearchMemo.dcstep.
  apply (dstep_rel_on Nat.eqb cat_eqb (s_n s) (s_dep s) (s_besttag s) (s_bestdep s) (isroot_ids rids) (isroot_c roots) pen dedup
           (names (mtable m')) (names_eqb _ Hnd') (fun i c => isroot_rel roots rids _ i c Hnd' HR')
           (cache_bin m') (bin_c gbin) (cache_un m') (un_c gun) (cached_bin m') (cached_un m')).
  - intros x cx y cy Hx Hy Hex. now apply (cache_bin_rel gbin gun).
  - intros x cx Hx Hex. now apply (cache_un_rel gbin gun).
  - now apply (dsrel_mono (names (mtable m))).
  - now apply (dmkeys_cached ds m).
Qed.

(* ---------- the loop ---------- *)
Theorem dmrun_rel fuel : forall m ds dc, start_ok m -> dsrel (names (mtable m)) ds dc ->
  exists ds' m', dmrun fuel ds m = Some (ds', m') /\ start_ok m' /\ (exists u, mtable m' = mtable m ++ u) /\
                 dsrel (names (mtable m')) ds' (drun_c fuel dc).
Proof.
  induction fuel as [|f IH]; intros m ds dc Hst Hs; cbn [DSearchMemo.dmrun drun].
  - exists ds, m. split; [reflexivity|]. split; [assumption|]. split; [exists []; now rewrite app_nil_r | assumption].
  - rewrite <- (drunning_rel max_step nbest _ _ _ Hs). destruct (drunning_b max_step nbest ds).
    + destruct (dmstep_rel m ds dc Hst Hs) as (m1 & E1 & Hst1 & [u1 Hu1] & Hs1). rewrite E1.
      destruct (IH m1 _ _ Hst1 Hs1) as (ds' & m' & E & Hst' & [u Hu] & Hs'). exists ds', m'.
      split; [exact E|]. split; [assumption|]. split; [exists (u1 ++ u); rewrite Hu, Hu1; now rewrite app_assoc | assumption].
    + exists ds, m. split; [reflexivity|]. split; [assumption|]. split; [exists []; now rewrite app_nil_r | assumption].
Qed.

Hypothesis Hlex : lex_ok cats s.

Lemma dminit_rel m : start_ok m -> dsrel (names (mtable m)) (dminit s) dcinit.
Proof.
  intros Hst. unfold dminit, DSearchMemo.dcinit. apply dinit_rel. intros i.
  destruct (start_ok_nodup gbin gun cats roots rids m Hst) as [Hnd _]. destruct Hst as (_ & Hu & _). now apply adm_rel.
Qed.

(* THE run of the twin from ANY admissible memo state: it terminates normally (no IndexError), the memo state it leaves is
   admissible again and extends the table, and its final state is related to the final state of the category-level twin *)
Theorem dmfinal_rel m : start_ok m ->
  exists ds' m', dmfinal m = Some (ds', m') /\ start_ok m' /\ (exists u, mtable m' = mtable m ++ u) /\
                 dsrel (names (mtable m')) ds' dcfinal.
Proof. intros Hst. unfold DSearchMemo.dmfinal, DSearchMemo.dcfinal, dfinal. apply dmrun_rel; [assumption | now apply dminit_rel]. Qed.

(* what the caller gets, decoded through the table, is the category-level outcome *)
Lemma d_outcome_rel t ds (dc : @dstate cat) : dsrel (names t) ds dc -> d_outcome ds t = Some (dc_outcome dc).
Proof.
  intros Hs. pose proof (dresult_rel _ _ _ Hs) as Hr. destruct Hs as (_ & _ & _ & Hg & _). unfold d_outcome, dc_outcome.
  destruct Hg as [|g gc gs gcs Hgg Hgs]; [reflexivity|]. now rewrite (decode_items_rel _ _ _ Hr).
Qed.

(* ---------- the same sentence after two histories ---------- *)
Theorem d_same_sentence_any_history m1 m2 d1 m1' d2 m2' : start_ok m1 -> start_ok m2 ->
  dmfinal m1 = Some (d1, m1') -> dmfinal m2 = Some (d2, m2') ->
  dsrel (same_cat (mtable m1') (mtable m2')) d1 d2 /\
  Forall2 (trel (same_cat (mtable m1') (mtable m2'))) (dpops d1) (dpops d2) /\
  dstatus d1 = dstatus d2 /\
  Forall2 (irel (same_cat (mtable m1') (mtable m2'))) (dresult d1) (dresult d2) /\
  map (@jprio nat) (dresult d1) = map (@jprio nat) (dresult d2) /\
  dview d1 = dview d2 /\
  d_outcome d1 (mtable m1') = Some (dc_outcome dcfinal) /\
  d_outcome d2 (mtable m2') = Some (dc_outcome dcfinal).
Proof.
  intros S1 S2 E1 E2.
  destruct (dmfinal_rel m1 S1) as (d1x & m1x & E1x & _ & _ & R1). rewrite E1 in E1x. inversion E1x; subst d1x m1x.
  destruct (dmfinal_rel m2 S2) as (d2x & m2x & E2x & _ & _ & R2). rewrite E2 in E2x. inversion E2x; subst d2x m2x.
  assert (Hs : dsrel (same_cat (mtable m1') (mtable m2')) d1 d2).
  { apply (dsrel_compose (names (mtable m1')) (names (mtable m2')) _ (fun a b d Ha Hb => ex_intro _ d (conj Ha Hb)) d1 dcfinal d2 R1 R2). }
  split; [exact Hs|]. split; [now apply dpops_rel|]. split; [now apply (dstatus_rel _ _ _ Hs)|].
  split; [now apply dresult_rel|]. split; [apply (irel_scores _ _ _ (dresult_rel _ _ _ Hs))|].
  split; [now apply (dview_rel _ _ _ Hs)|]. split; now apply d_outcome_rel.
Qed.
End OneSentence.

(* ---------- the run under the memo IS the pure twin over the grammar any later table induces ---------- *)
Section TableRun.
Variable s : sent.
Notation dmrun := (dmrun gbin gun rids pen dedup max_step nbest s).
Notation dmkeys := (dmkeys dedup s).
Notation drun_T T := (drun Nat.eqb (s_n s) (s_dep s) (s_besttag s) (s_bestdep s) (bin_T gbin T) (un_T gun T) (isroot_ids rids) pen dedup max_step nbest).

Theorem dmrun_is_table_run fuel : forall ds m ds' m', coherent m -> dmrun fuel ds m = Some (ds', m') ->
  coherent m' /\ (exists u, mtable m' = mtable m ++ u) /\
  forall T, NoDup T -> (exists u, T = mtable m' ++ u) -> ds' = drun_T T fuel ds.
Proof.
  induction fuel as [|f IH]; intros ds m ds' m' Hc H; cbn [DSearchMemo.dmrun] in H.
  - inversion H; subst. split; [assumption|]. split; [exists []; now rewrite app_nil_r|]. reflexivity.
  - destruct (drunning_b max_step nbest ds) eqn:Er.
    + unfold dmstep in H. destruct (memo_ops (dmkeys ds) m) as [m1|] eqn:Eo; [|discriminate].
      destruct (memo_ops_coherent_from gbin gun _ _ _ Hc Eo) as (Hc1 & [u1 Hu1] & _).
      destruct (IH _ _ _ _ Hc1 H) as (Hc' & [u2 Hu2] & IHT).
      split; [assumption|]. split; [exists (u1 ++ u2); rewrite Hu2, Hu1; now rewrite app_assoc|].
      intros T Hnd [w Hw]. cbn [drun]. rewrite Er. rewrite (IHT T Hnd (ex_intro _ w Hw)). f_equal.
      unfold dmstep_ds. apply dstep_ext_on. intros k Hk.
      destruct (memo_ops_cached gbin gun _ _ _ (mop_of k) Eo (in_map mop_of _ _ Hk)) as [e He].
      assert (HT : T = mtable m1 ++ (u2 ++ w)) by (rewrite Hw, Hu2; now rewrite app_assoc).
      destruct Hc1 as [_ Hcc1]. rewrite HT in Hnd |- *.
      destruct k as [x|x y]; cbn [key_in mop_of key_of] in *.
      * unfold cache_un. rewrite He. apply (entry_un_table gbin gun); [assumption | now apply Hcc1].
      * unfold cache_bin. rewrite He. apply (entry_bin_table gbin gun); [assumption | now apply Hcc1].
    + inversion H; subst. split; [assumption|]. split; [exists []; now rewrite app_nil_r|].
      intros T _ _. cbn [drun]. now rewrite Er.
Qed.

(* in particular: THE run from memo state m is the pure twin DSearch.dfinal over the ids of the table the call ends with (or any
   duplicate-free extension of the table the sentence leaves), with the grammar that table induces *)
Corollary dmfinal_is_table_twin m ds' m' : coherent m -> dmfinal gbin gun rids pen dedup max_step nbest s m = Some (ds', m') ->
  coherent m' /\ (exists u, mtable m' = mtable m ++ u) /\
  forall T, NoDup T -> (exists u, T = mtable m' ++ u) -> ds' = dtfinal gbin gun rids pen dedup max_step nbest s T.
Proof. intros Hc H. exact (dmrun_is_table_run max_step _ _ _ _ Hc H). Qed.
End TableRun.

(* the same sentence after two histories, stated for the pure twins over the two table-induced grammars: T1, T2 = the tables the
   two runs leave; the run under the memo from m_i IS the twin over (bin_T T_i, un_T T_i) *)
Theorem d_same_sentence_any_history_tables (s : sent) m1 m2 d1 m1' d2 m2' : lex_ok cats s -> start_ok m1 -> start_ok m2 ->
  dmfinal gbin gun rids pen dedup max_step nbest s m1 = Some (d1, m1') ->
  dmfinal gbin gun rids pen dedup max_step nbest s m2 = Some (d2, m2') ->
  let T1 := mtable m1' in let T2 := mtable m2' in
  let t1 := dtfinal gbin gun rids pen dedup max_step nbest s T1 in
  let t2 := dtfinal gbin gun rids pen dedup max_step nbest s T2 in
  d1 = t1 /\ d2 = t2 /\
  dsrel (same_cat T1 T2) t1 t2 /\ Forall2 (trel (same_cat T1 T2)) (dpops t1) (dpops t2) /\ dstatus t1 = dstatus t2 /\
  Forall2 (irel (same_cat T1 T2)) (dresult t1) (dresult t2) /\ map (@jprio nat) (dresult t1) = map (@jprio nat) (dresult t2) /\
  d_outcome t1 T1 = d_outcome t2 T2 /\
  d_outcome t1 T1 = Some (dc_outcome (dcfinal gbin gun cats roots pen dedup max_step nbest s)).
Proof.
  intros Hlex S1 S2 E1 E2. cbv zeta.
  destruct (dmfinal_is_table_twin s m1 d1 m1' (proj1 S1) E1) as ([Hnd1 _] & _ & H1).
  destruct (dmfinal_is_table_twin s m2 d2 m2' (proj1 S2) E2) as ([Hnd2 _] & _ & H2).
  assert (Ed1 : d1 = dtfinal gbin gun rids pen dedup max_step nbest s (mtable m1')) by (apply H1; [exact Hnd1 | exists []; now rewrite app_nil_r]).
  assert (Ed2 : d2 = dtfinal gbin gun rids pen dedup max_step nbest s (mtable m2')) by (apply H2; [exact Hnd2 | exists []; now rewrite app_nil_r]).
  destruct (d_same_sentence_any_history s Hlex m1 m2 d1 m1' d2 m2' S1 S2 E1 E2) as (Hs & Ht & Hst & Hr & Hp & _ & O1 & O2).
  rewrite <- Ed1, <- Ed2. repeat (split; [first [reflexivity | assumption]|]). split; [now rewrite O1, O2 | exact O1].
Qed.

(* ---------- the run of the twin under the memo IS a run in the sense of GlueMemoSearch.mreach ---------- *)
(* every iteration pops a maximal agenda item, looks up exactly the keys GlueMemoSearch.needed lists (in the order of parsing.h)
   and performs mstep_js on the abstraction of its state (DSearchProofs.sim: heap vector -> agenda, ordered cells -> chart, both
   up to permutation; goal cell reversed) *)
Section MemoIsMreach.
Variable s : sent.
Notation mreach := (mreach gbin gun rids pen dedup max_step nbest s).
Notation dmrun := (dmrun gbin gun rids pen dedup max_step nbest s).
Notation dmkeys := (dmkeys dedup s).
Notation dmstep_ds := (dmstep_ds rids pen dedup s).
Notation cached_bin st := (fun x y => exists e, cache_find (KBin x y) (mcache st) = Some e).
Notation cached_un st := (fun x => exists e, cache_find (KUn x) (mcache st) = Some e).

Lemma in_cabs (ch : list (@cell nat)) o' : In o' (cabs ch) <-> exists c o, In c ch /\ In o (snd c) /\ fst o = o'.
Proof.
  unfold cabs. rewrite in_flat_map. split.
  - intros (c & Hc & Ho). apply in_map_iff in Ho as (o & Ho & Hin). exists c, o. auto.
  - intros (c & o & Hc & Ho & E). exists c. split; [exact Hc|]. apply in_map_iff. exists o. auto.
Qed.

(* the lookups of the twin's iteration are the keys the expansion of the popped item needs *)
Lemma dmkeys_needed ds js x h : dinv ds -> sim ds js -> pop dlt (dheap ds) = Some (x, h) -> 1 <= jlen (d_item x) ->
  forall k, In k (dmkeys ds) <-> In k (needed dedup s (d_item x) js).
Proof.
  intros [_ Hw] (_ & Hc & _) Ep Hlen k. unfold DSearchMemo.dmkeys, dneeded, needed. rewrite Ep. set (a := d_item x) in *.
  destruct (jfin a); [simpl; tauto|].
  unfold chart_update. rewrite <- (contains_eq Nat.eqb (dchart ds) a Hw), (existsb_perm _ _ _ Hc).
  destruct (dedup && existsb (jkey_eqb Nat.eqb a) (jchart js)); [simpl; tauto|].
  set (ch' := cell_add (dchart ds) (jstart a) (jlen a) (a, dstored ds)).
  destruct (cell_add_wf (dchart ds) a (dstored ds) Hw) as [Hw' _]. fold ch' in Hw'. rewrite Forall_forall in Hw'.
  assert (Hmem : forall o', In o' (cabs ch') <-> o' = a \/ In o' (jchart js)).
  { intros o'. pose proof (cabs_cell_add (dchart ds) (jstart a) (jlen a) (a, dstored ds)) as Hp. fold ch' in Hp. cbn [fst] in Hp. split.
    - intros Hin. apply (Permutation_in _ Hp) in Hin. destruct Hin as [<-|Hin]; [now left | right; now apply (Permutation_in _ Hc)].
    - intros [->|Hin]; apply (Permutation_in _ (Permutation_sym Hp)); [now left | right; now apply (Permutation_in _ (Permutation_sym Hc))]. }
  unfold dkeys, step_keys. rewrite !map_app, !in_app_iff.
  assert (H1 : In k (map mop_of (if (s_n s =? 1) || negb (jlen a =? s_n s) then [DKUn (jcat a)] else [])) <->
               In k (if (s_n s =? 1) || negb (jlen a =? s_n s) then [OUn (jcat a)] else [])).
  { destruct ((s_n s =? 1) || negb (jlen a =? s_n s)); simpl; tauto. }
  assert (H2 : In k (map mop_of (flat_map (fun c => map (fun o => DKBin (jcat a) (jcat (fst o))) (snd c)) (cells_starting_at ch' (jstart a + jlen a)))) <->
               In k (flat_map (fun o => if jstart o =? jstart a + jlen a then [OBin (jcat a) (jcat o)] else []) (jchart js))).
  { rewrite in_map_iff, in_flat_map. split.
    - intros (dk & <- & Hdk). apply in_flat_map in Hdk as (c & Hc1 & Ho). apply in_map_iff in Ho as (o & <- & Ho).
      unfold cells_starting_at in Hc1. apply filter_In in Hc1 as [Hc1 Hs]. apply Nat.eqb_eq in Hs.
      destruct (Hw' c Hc1 o Ho) as [Hso _].
      assert (Hin : In (fst o) (cabs ch')) by (apply in_cabs; exists c, o; auto).
      apply Hmem in Hin as [Ea|Hin]; [rewrite Ea in Hso; lia|].
      exists (fst o). split; [exact Hin|]. rewrite Hso, Hs, Nat.eqb_refl. now left.
    - intros (o' & Hin & Hk). destruct (jstart o' =? jstart a + jlen a) eqn:Es; [|destruct Hk]. destruct Hk as [<-|[]]. apply Nat.eqb_eq in Es.
      assert (Hin' : In o' (cabs ch')) by (apply Hmem; now right). apply in_cabs in Hin' as (c & o & Hc1 & Ho & <-).
      destruct (Hw' c Hc1 o Ho) as [Hso _].
      exists (DKBin (jcat a) (jcat (fst o))). split; [reflexivity|]. apply in_flat_map. exists c. split.
      + unfold cells_starting_at. apply filter_In. split; [exact Hc1|]. apply Nat.eqb_eq. congruence.
      + apply in_map_iff. exists o. auto. }
  assert (H3 : In k (map mop_of (flat_map (fun c => map (fun o => DKBin (jcat (fst o)) (jcat a)) (snd c)) (cells_ending_at ch' (jstart a)))) <->
               In k (flat_map (fun o => if jstart o + jlen o =? jstart a then [OBin (jcat o) (jcat a)] else []) (jchart js))).
  { rewrite in_map_iff, in_flat_map. split.
    - intros (dk & <- & Hdk). apply in_flat_map in Hdk as (c & Hc1 & Ho). apply in_map_iff in Ho as (o & <- & Ho).
      unfold cells_ending_at in Hc1. apply filter_In in Hc1 as [Hc1 Hs]. apply Nat.eqb_eq in Hs.
      destruct (Hw' c Hc1 o Ho) as [Hso Hlo].
      assert (Hin : In (fst o) (cabs ch')) by (apply in_cabs; exists c, o; auto).
      apply Hmem in Hin as [Ea|Hin]; [rewrite Ea in Hso, Hlo; lia|].
      exists (fst o). split; [exact Hin|]. rewrite Hso, Hlo, Hs, Nat.eqb_refl. now left.
    - intros (o' & Hin & Hk). destruct (jstart o' + jlen o' =? jstart a) eqn:Es; [|destruct Hk]. destruct Hk as [<-|[]]. apply Nat.eqb_eq in Es.
      assert (Hin' : In o' (cabs ch')) by (apply Hmem; now right). apply in_cabs in Hin' as (c & o & Hc1 & Ho & <-).
      destruct (Hw' c Hc1 o Ho) as [Hso Hlo].
      exists (DKBin (jcat (fst o)) (jcat a)). split; [reflexivity|]. apply in_flat_map. exists c. split.
      + unfold cells_ending_at. apply filter_In. split; [exact Hc1|]. apply Nat.eqb_eq. congruence.
      + apply in_map_iff. exists o. auto. }
  tauto.
Qed.

(* what a coherent cache answers for a cached key is the grammar any later table induces *)
Lemma cached_is_table m T : coherent m -> NoDup T -> (exists u, T = mtable m ++ u) ->
  (forall x y, cached_bin m x y -> cache_bin m x y = bin_T gbin T x y) /\ (forall x, cached_un m x -> cache_un m x = un_T gun T x).
Proof.
  intros [_ Hcc] Hnd [u ->]. split.
  - intros x y [e He]. unfold cache_bin. rewrite He. apply (entry_bin_table gbin gun); [assumption | now apply Hcc].
  - intros x [e He]. unfold cache_un. rewrite He. apply (entry_un_table gbin gun); [assumption | now apply Hcc].
Qed.

(* the `nbest_` flag of the charts is nbest > 1 *)
Hypothesis Hmode : dedup = true -> nbest <= 1.

Theorem dmrun_is_mreach m0 fuel : coherent m0 -> forall ds m js ds' m',
  mreach m0 (js, m) -> sim ds js -> dinv ds -> dmrun fuel ds m = Some (ds', m') ->
  exists js', mreach m0 (js', m') /\ sim ds' js' /\ dinv ds'.
Proof.
  intros Hc0. induction fuel as [|f IH]; intros ds m js ds' m' Hm Hsim Hinv H; cbn [DSearchMemo.dmrun] in H.
  - inversion H; subst. exists js. auto.
  - destruct (drunning_b max_step nbest ds) eqn:Er; [|inversion H; subst; exists js; auto].
    unfold dmstep in H. destruct (memo_ops (dmkeys ds) m) as [m1|] eqn:Eo; [|discriminate].
    destruct (pop dlt (dheap ds)) as [[x h]|] eqn:Ep.
    2:{ apply pop_none in Ep. unfold drunning_b in Er. rewrite Ep in Er. rewrite andb_false_r in Er. discriminate. }
    destruct (mreach_is_table_run gbin gun rids pen dedup max_step nbest s m0 (js, m) Hc0 Hm) as (Hcm & _ & Htab). cbn [fst snd] in Hcm, Htab.
    destruct (memo_ops_coherent_from gbin gun _ _ _ Hcm Eo) as (Hc1 & [u1 Hu1] & _). pose proof Hc1 as [Hnd1 _].
    destruct (cached_is_table m1 (mtable m1) Hc1 Hnd1 (ex_intro _ [] (eq_sym (app_nil_r _)))) as [HB HU].
    assert (Hjr : jreach Nat.eqb (s_n s) (s_tag s) (s_dep s) (s_adm s) (s_besttag s) (s_bestdep s) (bin_T gbin (mtable m1)) (un_T gun (mtable m1))
                         (isroot_ids rids) pen dedup max_step nbest js).
    { eapply jreach_on_jreach. apply Htab; [exact Hnd1 | now exists u1]. }
    destruct (dstep_sim_top Nat.eqb nat_eqb_iff (s_n s) (s_tag s) (s_dep s) (s_adm s) (s_besttag s) (s_bestdep s) (bin_T gbin (mtable m1))
                (un_T gun (mtable m1)) (isroot_ids rids) pen dedup max_step nbest Hmode ds js x h Hjr Hinv Hsim Er Ep)
      as (Hjrun & Hv & Hfa & Hsim' & Hinv').
    assert (Hlen : 1 <= jlen (d_item x)) by (destruct Hfa as (_ & _ & _ & Hl & _); rewrite Hl; apply dlen_pos).
    pose proof (dmkeys_needed ds js x h Hinv Hsim Ep Hlen) as Hks.
    assert (E1 : dmstep_ds m1 ds = dstep Nat.eqb (s_n s) (s_dep s) (s_besttag s) (s_bestdep s) (bin_T gbin (mtable m1)) (un_T gun (mtable m1))
                                         (isroot_ids rids) pen dedup ds).
    { unfold DSearchMemo.dmstep_ds. apply dstep_ext_on. intros k Hk.
      destruct (memo_ops_cached gbin gun _ _ _ (mop_of k) Eo (in_map mop_of _ _ Hk)) as [e He].
      destruct k as [x0|x0 y0]; cbn [key_in mop_of key_of] in *; [apply HU | apply HB]; eauto. }
    assert (E2 : mstep_js rids pen dedup s m1 (d_item x) js =
                 jstep Nat.eqb (s_n s) (s_dep s) (s_besttag s) (s_bestdep s) (bin_T gbin (mtable m1)) (un_T gun (mtable m1)) (isroot_ids rids) pen dedup (d_item x) js).
    { unfold mstep_js. apply jstep_ext_on.
      eapply step_within_impl; [exact HB | exact HU | exact (needed_cached gbin gun dedup s (d_item x) js _ m m1 Hks Eo)]. }
    apply (IH (dmstep_ds m1 ds) m1 (mstep_js rids pen dedup s m1 (d_item x) js) ds' m'); [| | |exact H].
    + now apply (mreach_step gbin gun rids pen dedup max_step nbest s m0 js m (d_item x) (dmkeys ds) m1).
    + rewrite E1, E2. exact Hsim'.
    + rewrite E1. exact Hinv'.
Qed.

Lemma dmrun_stops fuel : forall ds m ds' m', dmrun fuel ds m = Some (ds', m') -> max_step <= dsteps ds + fuel -> drunning_b max_step nbest ds' = false.
Proof.
  induction fuel as [|f IH]; intros ds m ds' m' H Hle; cbn [DSearchMemo.dmrun] in H.
  - inversion H; subst. unfold drunning_b. replace (dsteps ds' <? max_step) with false by (symmetry; apply Nat.ltb_ge; lia). reflexivity.
  - destruct (drunning_b max_step nbest ds) eqn:Er; [|inversion H; subst; exact Er].
    unfold dmstep in H. destruct (memo_ops (dmkeys ds) m) as [m1|]; [|discriminate].
    apply (IH _ _ _ _ H). unfold DSearchMemo.dmstep_ds. rewrite dstep_steps; [lia|].
    unfold drunning_b in Er. destruct (dheap ds); [rewrite andb_false_r in Er; discriminate | discriminate].
Qed.

(* THE run of the twin from a coherent memo state is a finished run of the search reading the memo incrementally
   (GlueMemoSearch.mreach), ending in the same memo state, with the same status, result list and decoded outcome *)
Theorem dmfinal_is_mreach m ds' m' : coherent m -> dmfinal gbin gun rids pen dedup max_step nbest s m = Some (ds', m') ->
  exists js, mreach m (js, m') /\ ~ jrunning max_step nbest js /\
             jstatus js = dstatus ds' /\ jresult js = dresult ds' /\
             sentence_outcome js (mtable m') = d_outcome ds' (mtable m').
Proof.
  intros Hc H. unfold DSearchMemo.dmfinal in H.
  destruct (init_sim (s_n s) (s_tag s) (s_adm s) (s_besttag s) (s_bestdep s)) as [Hs0 Hi0].
  destruct (dmrun_is_mreach m max_step Hc (dminit s) m (minit s) ds' m' (mreach_init gbin gun rids pen dedup max_step nbest s m) Hs0 Hi0 H)
    as (js & Hm & (Ha & _ & Hg & Hs) & _).
  pose proof (dmrun_stops max_step _ _ _ _ H ltac:(cbn; lia)) as Hstop.
  exists js. split; [exact Hm|].
  assert (Hres : jresult js = dresult ds') by (unfold jresult, dresult; now rewrite <- Hg, rev_involutive).
  split; [|split; [|split; [exact Hres|]]].
  - intros (H1 & H2 & H3). unfold drunning_b in Hstop. rewrite <- Hs, <- Hg, rev_length in *.
    apply Nat.ltb_lt in H1, H2. rewrite H1, H2 in Hstop. cbn [andb] in Hstop.
    destruct (dheap ds') as [|y r]; [|discriminate]. cbn [map] in Ha. apply Permutation_nil in Ha. contradiction.
  - unfold jstatus, dstatus. rewrite <- Hg. destruct (dgoal ds') as [|g r]; [reflexivity|]. cbn [rev]. destruct (rev r); reflexivity.
  - unfold sentence_outcome, d_outcome. rewrite Hres, <- Hg. destruct (dgoal ds') as [|g r]; [reflexivity|]. cbn [rev].
    destruct (rev r ++ [g]) eqn:E; [apply app_eq_nil in E; destruct E; discriminate | reflexivity].
Qed.
End MemoIsMreach.

(* ---------- the loop of run driven by the twin ---------- *)
Variable max_length : nat.
Notation dbrun := (dbrun gbin gun rids pen dedup max_step nbest max_length).
Notation twin_outcome := (twin_outcome gbin gun cats roots pen dedup max_step nbest max_length).
Notation brun := (brun gbin gun rids pen dedup max_step nbest max_length).
Notation cat_outcome := (cat_outcome gbin gun cats roots pen dedup max_step nbest max_length).

(* from ANY admissible memo state the loop terminates normally and returns, sentence by sentence, the outcome of the
   category-level twin of that sentence alone - nothing of the table, the cache, the position or the other sentences is left *)
Theorem dbrun_spec ss : forall m, Forall (lex_ok cats) ss -> start_ok m ->
  exists m', dbrun ss m = Some (map twin_outcome ss, m') /\ start_ok m'.
Proof.
  induction ss as [|s ss IH]; intros m Hlex Hst; cbn [DSearchMemo.dbrun map].
  - exists m. split; [reflexivity | assumption].
  - inversion Hlex as [|? ? Hl1 Hl2]; subst. unfold DSearchMemo.twin_outcome at 1. destruct (max_length <? s_n s).
    + destruct (IH m Hl2 Hst) as (m' & E & Hst'). rewrite E. exists m'. split; [reflexivity | assumption].
    + destruct (dmfinal_rel s Hl1 m Hst) as (ds & m1 & E1 & Hst1 & _ & Hs). rewrite E1.
      rewrite (d_outcome_rel _ _ _ Hs). destruct (IH m1 Hl2 Hst1) as (m' & E & Hst'). rewrite E.
      exists m'. split; [reflexivity | assumption].
Qed.

(* the loop is a function of the batch: two executions - from any two admissible memo states - return the same list *)
Corollary dbrun_deterministic ss ma mb rsa rsb ma' mb' : Forall (lex_ok cats) ss -> start_ok ma -> start_ok mb ->
  dbrun ss ma = Some (rsa, ma') -> dbrun ss mb = Some (rsb, mb') -> rsa = rsb /\ rsa = map twin_outcome ss.
Proof.
  intros Hlex Sa Sb Ea Eb. destruct (dbrun_spec ss ma Hlex Sa) as (ma2 & Ea2 & _). destruct (dbrun_spec ss mb Hlex Sb) as (mb2 & Eb2 & _).
  rewrite Ea in Ea2. rewrite Eb in Eb2. inversion Ea2; inversion Eb2; subst. split; reflexivity.
Qed.

(* the outcome of the category-level twin is an outcome of the category-level search in the sense of GlueMemoSearch.cat_outcome
   (the twin pops a maximal item at every step: DSearchProofs.dsearch_run_is_jreach) *)
Hypothesis Hmode : dedup = true -> nbest <= 1.
Lemma twin_outcome_is_cat_outcome s : cat_outcome s (twin_outcome s).
Proof.
  unfold GlueMemoSearch.cat_outcome, DSearchMemo.twin_outcome. destruct (max_length <? s_n s); [reflexivity|].
  destruct (dsearch_run_is_jreach cat_eqb cat_eqb_eq (s_n s) (tag_c cats (s_tag s)) (s_dep s) (adm_c cats (s_adm s)) (s_besttag s) (s_bestdep s)
              (bin_c gbin) (un_c gun) (isroot_c roots) pen dedup max_step nbest Hmode) as (js & Hr & Hnr & Hg & _ & _ & Hres).
  exists js. split; [exact Hr|]. split; [intros Hrun; apply jrunning_b_iff in Hrun; congruence|].
  unfold dc_outcome, DSearchMemo.dcfinal. rewrite Hg, Hres.
  destruct (dgoal _) as [|g l]; [reflexivity|]. cbn [rev]. destruct (rev l ++ [g]) eqn:E; [|reflexivity].
  apply app_eq_nil in E. destruct E; discriminate.
Qed.

(* hence an execution of the loop driven by the twin is an execution in the sense of GlueMemoSearch.brun: every theorem of
   P_C11.v (g) applies to it *)
Theorem dbrun_is_brun ss m rs m' : Forall (lex_ok cats) ss -> start_ok m -> dbrun ss m = Some (rs, m') ->
  Forall2 cat_outcome ss rs /\ exists st', brun ss m rs st'.
Proof.
  intros Hlex Hst E. destruct (dbrun_spec ss m Hlex Hst) as (m2 & E2 & _). rewrite E in E2. inversion E2; subst.
  assert (HF : Forall2 cat_outcome ss (map twin_outcome ss)).
  { clear -Hmode. induction ss as [|s ss IH]; cbn [map]; [constructor|]. constructor; [apply twin_outcome_is_cat_outcome | exact IH]. }
  split; [exact HF|]. destruct (brun_complete gbin gun cats roots rids pen dedup max_step nbest max_length ss m _ Hlex Hst HF) as (st' & Hb & _).
  now exists st'.
Qed.

(* ... and literally: the execution of the loop driven by the twin, WITH the memo state it ends in, is an execution of
   GlueMemoSearch.brun - each sentence's search is an mreach run from the state the previous sentences left *)
Theorem dbrun_is_brun_exact ss : forall m rs m', coherent m -> dbrun ss m = Some (rs, m') -> brun ss m rs m'.
Proof.
  induction ss as [|s ss IH]; intros m rs m' Hc H; cbn [DSearchMemo.dbrun] in H.
  - inversion H; subst. constructor.
  - destruct (max_length <? s_n s) eqn:El.
    + destruct (dbrun ss m) as [[rs0 m0]|] eqn:E; [|discriminate]. inversion H; subst.
      apply brun_long; [now apply Nat.ltb_lt | now apply IH].
    + destruct (dmfinal gbin gun rids pen dedup max_step nbest s m) as [[ds m1]|] eqn:Em; [|discriminate].
      destruct (d_outcome ds (mtable m1)) as [r|] eqn:Eo; [|discriminate].
      destruct (dbrun ss m1) as [[rs0 m2]|] eqn:E; [|discriminate]. inversion H; subst.
      destruct (dmfinal_is_mreach s Hmode m ds m1 Hc Em) as (js & Hm & Hend & _ & _ & Hout).
      destruct (dmfinal_is_table_twin s m ds m1 Hc Em) as (Hc1 & _).
      apply (brun_search gbin gun rids pen dedup max_step nbest max_length s ss m js m1); try assumption.
      * apply Nat.ltb_ge in El. lia.
      * now rewrite Hout.
      * now apply IH.
Qed.
End Call.

(* ---------- the pure twins over two tables (the analogue of GlueMemoSearchProofs.table_runs_correspond) ---------- *)
Section TwoTables.
Variable T1 T2 : table.
Hypothesis Hnd1 : NoDup T1.
Hypothesis Hnd2 : NoDup T2.

Theorem d_table_runs_correspond cats roots rids1 rids2 pen dedup max_step nbest (s : sent) :
  (exists u, T1 = cats ++ u) -> (exists u, T2 = cats ++ u) -> lex_ok cats s ->
  Forall2 (names T1) rids1 roots -> Forall2 (names T2) rids2 roots ->
  let st := dtfinal gbin gun rids1 pen dedup max_step nbest s T1 in
  let st' := dtfinal gbin gun rids2 pen dedup max_step nbest s T2 in
  drun_within Nat.eqb (s_n s) (s_dep s) (s_besttag s) (s_bestdep s) (bin_T gbin T1) (un_T gun T1) (isroot_ids rids1) pen dedup max_step nbest
              (both_closed_bin gbin T1 T2) (both_closed_un gun T1 T2) max_step (dminit s) ->
  dsrel (same_cat T1 T2) st st' /\ Forall2 (trel (same_cat T1 T2)) (dpops st) (dpops st') /\ dstatus st = dstatus st' /\
  Forall2 (irel (same_cat T1 T2)) (dresult st) (dresult st') /\ map (@jprio nat) (dresult st) = map (@jprio nat) (dresult st').
Proof.
  intros Hp1 Hp2 Hlex Hr1 Hr2. unfold dtfinal, dminit.
  apply (dsearch_is_category_blind_on Nat.eqb Nat.eqb (s_n s) (s_dep s) (s_besttag s) (s_bestdep s) (isroot_ids rids1) (isroot_ids rids2) pen dedup
           (same_cat T1 T2) (same_cat_eqb T1 T2 Hnd1 Hnd2) (fun a a' => tables_R_root T1 T2 Hnd1 Hnd2 roots rids1 rids2 a a' Hr1 Hr2)
           (s_tag s) (s_tag s) (s_adm s) (s_adm s) (bin_T gbin T1) (bin_T gbin T2) (un_T gun T1) (un_T gun T2) max_step nbest
           (both_closed_bin gbin T1 T2) (both_closed_un gun T1 T2) (tables_R_bin gbin T1 T2) (tables_R_un gun T1 T2)
           (fun i => tables_R_adm T1 T2 Hnd1 Hnd2 cats s i Hp1 Hp2 Hlex)).
Qed.
End TwoTables.
End G.
