(* Model of depccg/cat.py: texts, features, categories, the printer (__str__), the reader
   (Category.parse), equality, feature-blind comparison, feature erasure.
   MODEL ONLY - no proofs here, so that the model still runs when a proof breaks. *)
From Coq Require Import List NArith Bool.
Import ListNotations.
Open Scope N_scope.

(* ---------- text = list of Unicode code points ---------- *)
Definition text := list N.
Fixpoint text_eqb (a b : text) : bool :=
  match a, b with
  | [], [] => true
  | x :: a', y :: b' => N.eqb x y && text_eqb a' b'
  | _, _ => false
  end.
Definition text_in (t : text) (l : list text) : bool := existsb (text_eqb t) l.
Definition has (c : N) (t : text) : bool := existsb (N.eqb c) t.

(* code points *)
Definition cLP := 40. Definition cRP := 41. Definition cSL := 47. Definition cBS := 92. Definition cBAR := 124.
Definition cLT := 60. Definition cGT := 62. Definition cLB := 91. Definition cRB := 93. Definition cEQ := 61.
Definition cCOMMA := 44. Definition cSP := 32. Definition cX : N := 88.

(* ---------- values ---------- *)
(* UnaryFeature(None) = FNone; UnaryFeature(v) = FUn v; TernaryFeature((k1,v1),(k2,v2),(k3,v3)) = FTer ... *)
Inductive feat := FNone | FUn (v : text) | FTer (k1 v1 k2 v2 k3 v3 : text).
Inductive cat := Atom (b : text) (f : feat) | Fun (l : cat) (s : text) (r : cat).

Definition show_feat (f : feat) : text :=
  match f with
  | FNone => []
  | FUn v => v
  | FTer k1 v1 k2 v2 k3 v3 => k1 ++ [cEQ] ++ v1 ++ [cCOMMA] ++ k2 ++ [cEQ] ++ v2 ++ [cCOMMA] ++ k3 ++ [cEQ] ++ v3
  end.

(* str(cat) *)
Fixpoint show (c : cat) : text :=
  match c with
  | Atom b f => match show_feat f with [] => b | ft => b ++ [cLB] ++ ft ++ [cRB] end
  | Fun l s r =>
      let p x := match x with Fun _ _ _ => [cLP] ++ show x ++ [cRP] | _ => show x end in
      p l ++ s ++ p r
  end.
Definition pshow (x : cat) : text := match x with Fun _ _ _ => [cLP] ++ show x ++ [cRP] | _ => show x end.

(* token-level printer: what the regex split yields on str(cat) (proved in CatLex.v) *)
Fixpoint toks (c : cat) : list text :=
  match c with
  | Atom b f => match show_feat f with [] => [b] | ft => [b; [cLB]; ft; [cRB]] end
  | Fun l s r =>
      let p x := match x with Fun _ _ _ => [[cLP]] ++ toks x ++ [[cRP]] | _ => toks x end in
      p l ++ [s] ++ p r
  end.
Definition ptoks (x : cat) : list text := match x with Fun _ _ _ => [[cLP]] ++ toks x ++ [[cRP]] | _ => toks x end.

(* ---------- equality, feature-blind comparison ---------- *)
Definition feat_eqb (a b : feat) : bool :=
  match a, b with
  | FNone, FNone => true
  | FUn x, FUn y => text_eqb x y
  | FTer a1 b1 a2 b2 a3 b3, FTer c1 d1 c2 d2 c3 d3 =>
      text_eqb a1 c1 && text_eqb b1 d1 && text_eqb a2 c2 && text_eqb b2 d2 && text_eqb a3 c3 && text_eqb b3 d3
  | _, _ => false
  end.
Fixpoint cat_eqb (a b : cat) : bool :=
  match a, b with
  | Atom x f, Atom y g => text_eqb x y && feat_eqb f g
  | Fun l s r, Fun l' s' r' => cat_eqb l l' && text_eqb s s' && cat_eqb r r'
  | _, _ => false
  end.
(* x ^ y *)
Fixpoint cat_xor (a b : cat) : bool :=
  match a, b with
  | Atom x _, Atom y _ => text_eqb x y
  | Fun l s r, Fun l' s' r' => cat_xor l l' && text_eqb s s' && cat_xor r r'
  | _, _ => false
  end.
(* category == "text"  is  str(category) == "text" *)
Definition eq_str (c : cat) (s : text) : bool := text_eqb (show c) s.

(* ---------- lexer: cat_split.sub(r' \1 ', text).split(' ') without the empty pieces ---------- *)
Section Lexer.
Variable specials : list N.       (* the character class of cat_split *)
Definition special (c : N) : bool := existsb (N.eqb c) specials.
Definition flush (acc : text) : list text := match acc with [] => [] | _ => [rev acc] end.
Fixpoint lex_go (t : text) (acc : text) : list text :=
  match t with
  | [] => flush acc
  | c :: r =>
      if special c then flush acc ++ [c] :: lex_go r []
      else if N.eqb c cSP then flush acc ++ lex_go r []
      else lex_go r (c :: acc)
  end.
Definition lex (t : text) : list text := lex_go t [].
End Lexer.

(* ---------- reader ---------- *)
Inductive sitem := SCat (c : cat) | SStr (t : text).

(* item in "ab" (Python substring test) for a non-empty token *)
Definition in2 (item : text) (a b : N) : bool :=
  match item with [] => true | [x] => N.eqb x a || N.eqb x b | [x; y] => N.eqb x a && N.eqb y b | _ => false end.
Definition in3 (item : text) (a b c : N) : bool :=
  match item with
  | [] => true
  | [x] => N.eqb x a || N.eqb x b || N.eqb x c
  | [x; y] => (N.eqb x a && N.eqb y b) || (N.eqb x b && N.eqb y c)
  | [x; y; z] => N.eqb x a && N.eqb y b && N.eqb z c
  | _ => false
  end.
Definition is_slash (s : text) : bool := text_eqb s [cSL] || text_eqb s [cBS] || text_eqb s [cBAR].

Fixpoint split_on (c : N) (t : text) (acc : text) : list text :=
  match t with
  | [] => [rev acc]
  | x :: r => if N.eqb x c then rev acc :: split_on c r [] else split_on c r (x :: acc)
  end.

(* Feature.parse; None = TypeError or an ill-typed TernaryFeature *)
Definition parse_feat (t : text) : option feat :=
  if has cEQ t && has cCOMMA t then
    match map (fun kv => split_on cEQ kv []) (split_on cCOMMA t []) with
    | [[k1; v1]; [k2; v2]; [k3; v3]] => Some (FTer k1 v1 k2 v2 k3 v3)
    | _ => None
    end
  else Some (FUn t).

Section Parser.
Variable puncts : list text.       (* cat.punctuations *)

Definition sitem_is (s : sitem) (t : text) : bool := match s with SStr u => text_eqb u t | SCat _ => false end.

(* one ')' / '>' step on the stack; None = exception or ill-typed value *)
Definition close (item : text) (stack : list sitem) : option (list sitem) :=
  match stack with
  | y :: top :: rest =>
      if (sitem_is top [cLP] && text_eqb item [cRP]) || (sitem_is top [cLT] && text_eqb item [cGT])
      then Some (y :: rest)
      else match top, rest with
           | SStr f, SCat x :: SStr o :: rest' =>
               if in2 o cLP cLT && is_slash f
               then match y with SCat yc => Some (SCat (Fun x f yc) :: rest') | _ => None end
               else None
           | _, _ => None
           end
  | _ => None
  end.

Fixpoint run (buf : list text) (stack : list sitem) : option (list sitem) :=
  match buf with
  | [] => Some stack
  | item :: rest =>
      if text_in item puncts then run rest (SCat (Atom item FNone) :: stack)
      else if in2 item cLP cLT then run rest (SStr item :: stack)
      else if in2 item cRP cGT then match close item stack with Some st => run rest st | None => None end
      else if in3 item cSL cBS cBAR then run rest (SStr item :: stack)
      else match rest with
           | lb :: ft :: rb :: rest' =>
               if text_eqb lb [cLB] then
                 match parse_feat ft with
                 | Some f => if text_eqb rb [cRB] then run rest' (SCat (Atom item f) :: stack) else None
                 | None => None
                 end
               else run rest (SCat (Atom item FNone) :: stack)
           | _ => run rest (SCat (Atom item FNone) :: stack)
           end
  end.

Definition finish (st : option (list sitem)) : option cat :=
  match st with
  | Some [SCat c] => Some c
  | Some [SCat y; SStr f; SCat x] => if is_slash f then Some (Fun x f y) else None
  | _ => None
  end.

Definition parse_toks (ts : list text) : option cat := finish (run ts []).
End Parser.

(* ---------- feature operations ---------- *)
(* Feature == "text": the text is parsed as a feature first *)
Definition feat_eq_str (f : feat) (s : text) : bool :=
  match parse_feat s with Some g => feat_eqb f g | None => false end.
(* clear_features with a list of names *)
Fixpoint clear_features (names : list text) (c : cat) : cat :=
  match c with
  | Atom b f => if existsb (feat_eq_str f) names then Atom b FNone else c
  | Fun l s r => Fun (clear_features names l) s (clear_features names r)
  end.

Definition starts_X (v : text) : bool := match v with x :: _ => N.eqb x cX | [] => false end.
Definition is_variable (f : feat) : bool :=
  match f with
  | FNone => false
  | FUn v => text_eqb v [cX]
  | FTer _ v1 _ v2 _ v3 => starts_X v1 || starts_X v2 || starts_X v3
  end.

Fixpoint nargs (c : cat) : nat := match c with Atom _ _ => O | Fun l _ _ => S (nargs l) end.
(* Category.arg(index); None = Python None *)
Fixpoint arg (c : cat) (i : nat) : option cat :=
  match c with
  | Atom _ _ => if Nat.eqb i 0 then Some c else None
  | Fun l _ _ => if Nat.eqb (nargs c) i then Some c else arg l i
  end.

(* ---------- size, atoms ---------- *)
Fixpoint atoms (c : cat) : list (text * feat) :=
  match c with Atom b f => [(b, f)] | Fun l _ r => atoms l ++ atoms r end.
Fixpoint skeleton (c : cat) : cat :=
  match c with Atom b _ => Atom b FNone | Fun l s r => Fun (skeleton l) s (skeleton r) end.
