(* Facts about the glue model: retrieve_tree consumes the tokens left to right and labels every node with the
   rule result its index names; the category table only grows and never reassigns an id; chunking loses nothing. *)
From Coq Require Import List ZArith Bool Arith Lia.
Import ListNotations.
Require Import Cat CatFacts Tree GramPrims AStar Glue.
Open Scope nat_scope.

Section Retrieve.
Variable catof : nat -> cat.
Variable binres : nat -> nat -> list cres.
Variable unres : nat -> list cres.
Variable toks : list token.
Notation tree_of := (tree_of catof binres unres toks).

(* what retrieve_tree builds, as a relation: leaf j of the derivation gets token (tok + j); node labels, symbols and
   head flags are those of the rule_id-th cached result for the children's category ids *)
Inductive Built : @deriv nat -> nat -> tree -> Prop :=
| BLeaf i c tok t : nth_error toks tok = Some t -> Built (DLeaf i c) tok (Leaf (catof c) t s_lex s_lexsym)
| BUn k c d tok t r : Built d tok t -> nth_error (unres (dcat d)) k = Some r ->
    Built (DUn k c d) tok (Un (catof c) (op_string r) (op_symbol r) t)
| BBin k c hl l r tok tl tr res : Built l tok tl -> Built r (tok + dlen l) tr ->
    nth_error (binres (dcat l) (dcat r)) k = Some res ->
    Built (DBin k c hl l r) tok (Bin (catof c) (op_string res) (op_symbol res) (head_is_left res) tl tr).

Lemma tree_of_built d : forall tok t tok', tree_of d tok = Some (t, tok') -> Built d tok t /\ tok' = tok + dlen d.
Proof.
  induction d as [i c | k c d IH | k c hl l IHl r IHr]; intros tok t tok' H; simpl in H.
  - destruct (nth_error toks tok) as [x|] eqn:E; [|discriminate]. inversion H; subst. split; [now constructor | simpl; lia].
  - destruct (tree_of d tok) as [[t1 tok1]|] eqn:E1; [|discriminate].
    destruct (nth_error (unres (dcat d)) k) as [r|] eqn:E2; [|discriminate]. inversion H; subst.
    destruct (IH _ _ _ E1) as [Hb ->]. split; [now constructor | reflexivity].
  - destruct (tree_of l tok) as [[tl tok1]|] eqn:E1; [|discriminate].
    destruct (tree_of r tok1) as [[tr tok2]|] eqn:E2; [|discriminate].
    destruct (nth_error (binres (dcat l) (dcat r)) k) as [res|] eqn:E3; [|discriminate]. inversion H; subst.
    destruct (IHl _ _ _ E1) as [Hl ->]. destruct (IHr _ _ _ E2) as [Hr ->]. split; [now constructor | simpl; lia].
Qed.

Lemma built_tree_of d tok t : Built d tok t -> tree_of d tok = Some (t, tok + dlen d).
Proof.
  induction 1 as [i c tok t Ht | k c d tok t r Hb IH Hn | k c hl l r tok tl tr res Hl IHl Hr IHr Hn]; simpl.
  - rewrite Ht. f_equal. f_equal. lia.
  - rewrite IH, Hn. reflexivity.
  - rewrite IHl, IHr, Hn. f_equal. f_equal. lia.
Qed.

Lemma firstn_add {A} a b (l : list A) : firstn (a + b) l = firstn a l ++ firstn b (skipn a l).
Proof. revert l; induction a as [|a IH]; intros [|x l]; simpl; try reflexivity; [now rewrite firstn_nil | now rewrite IH]. Qed.

Lemma skipn_add {A} a b (l : list A) : skipn b (skipn a l) = skipn (a + b) l.
Proof. revert l; induction a as [|a IH]; intros l; simpl; [reflexivity|]. destruct l; [now destruct b | apply IH]. Qed.

(* the leaves of the built tree carry exactly the tokens tok .. tok + len - 1, in order *)
Lemma built_tokens d tok t : Built d tok t -> tokens t = firstn (dlen d) (skipn tok toks) /\ nleaves t = dlen d.
Proof.
  induction 1 as [i c tok t Ht | k c d tok t r Hb IH Hn | k c hl l r tok tl tr res Hl IHl Hr IHr Hn].
  - simpl. split; [|reflexivity]. unfold tokens. simpl.
    revert tok Ht. induction toks as [|x xs IHx]; intros [|tok] H; simpl in *; try discriminate.
    + inversion H. reflexivity.
    + now apply IHx.
  - simpl. unfold tokens in *. simpl. exact IH.
  - destruct IHl as [El Nl], IHr as [Er Nr]. split; [|simpl; lia].
    unfold tokens in *. simpl. rewrite map_app, El, Er.
    rewrite firstn_add, skipn_add. reflexivity.
Qed.

Theorem retrieve_tokens d t : retrieve catof binres unres toks d = Some t -> dlen d = length toks -> tokens t = toks.
Proof.
  unfold retrieve. destruct (tree_of d 0) as [[t0 k]|] eqn:E; [|discriminate]. intros H Hl. inversion H; subst.
  destruct (tree_of_built d 0 t k E) as [Hb _]. destruct (built_tokens d 0 t Hb) as [Ht _].
  rewrite Ht. simpl. rewrite Hl. apply firstn_all.
Qed.
End Retrieve.

(* ---------- the category table ---------- *)
Lemma index_of_bound c t k i : index_of c t k = Some i -> k <= i < k + length t /\ nth_error t (i - k) = Some c.
Proof.
  revert k; induction t as [|x r IH]; intros k H; simpl in H; [discriminate|].
  destruct (cat_eqb c x) eqn:E.
  - inversion H; subst. apply cat_eqb_eq in E; subst. simpl. rewrite Nat.sub_diag. split; [lia | reflexivity].
  - destruct (IH _ H) as [Hb Hn]. split; [simpl; lia|]. replace (i - k) with (S (i - S k)) by lia. exact Hn.
Qed.
Lemma index_of_none c t k : index_of c t k = None -> ~ In c t.
Proof.
  revert k; induction t as [|x r IH]; intros k H; simpl in *; [tauto|].
  destruct (cat_eqb c x) eqn:E; [discriminate|]. intros [->|Hin]; [rewrite cat_eqb_refl in E; discriminate | now apply (IH _ H)].
Qed.
Lemma index_of_app c t u k i : index_of c t k = Some i -> index_of c (t ++ u) k = Some i.
Proof.
  revert k; induction t as [|x r IH]; intros k H; simpl in *; [discriminate|]. destruct (cat_eqb c x); [assumption | now apply IH].
Qed.

(* ids are positions in a list that only grows: the old table is a prefix of the new one, the returned id names the
   category, ids handed out earlier keep their meaning, and no category gets two ids *)
Theorem get_or_add_spec c t : NoDup t ->
  let '(i, t') := get_or_add c t in
  (exists u, t' = t ++ u) /\ nth_error t' i = Some c /\ NoDup t' /\
  (forall j x, nth_error t j = Some x -> nth_error t' j = Some x).
Proof.
  intros Hnd. unfold get_or_add. destruct (index_of c t 0) as [i|] eqn:E.
  - destruct (index_of_bound _ _ _ _ E) as [_ Hn]. rewrite Nat.sub_0_r in Hn.
    split; [exists []; now rewrite app_nil_r|]. split; [exact Hn|]. split; [exact Hnd | auto].
  - pose proof (index_of_none _ _ _ E) as Hnin.
    split; [now exists [c]|]. split; [rewrite nth_error_app2 by lia; now rewrite Nat.sub_diag|].
    split.
    + clear E. induction t as [|y t IHt]; simpl; [constructor; [intros []|constructor]|].
      inversion Hnd; subst. constructor.
      * intros Hin. apply in_app_iff in Hin as [Hin|[<-|[]]]; [contradiction|]. apply Hnin. now left.
      * apply IHt; [assumption|]. intros Hin. apply Hnin. now right.
    + intros j x Hj. rewrite nth_error_app1; [assumption|]. apply nth_error_Some. congruence.
Qed.

(* ---------- chunking ---------- *)
Lemma take_drop {A} n (l : list A) : take n l ++ drop n l = l.
Proof. revert l; induction n as [|n IH]; intros [|x l]; simpl; try reflexivity. now rewrite IH. Qed.
Lemma drop_length {A} n (l : list A) : length (drop n l) = length l - n.
Proof. revert l; induction n as [|n IH]; intros [|x l]; simpl; try lia. apply IH. Qed.
Lemma take_length {A} n (l : list A) : length (take n l) = Nat.min n (length l).
Proof. revert l; induction n as [|n IH]; intros [|x l]; simpl; try lia. now rewrite IH. Qed.

Lemma chunks_go_concat {A} fuel splits : forall (l : list A), 1 <= splits -> length l <= fuel -> concat (chunks_go fuel splits l) = l.
Proof.
  induction fuel as [|f IH]; intros l Hs Hf.
  - destruct l; [reflexivity | simpl in Hf; lia].
  - destruct l as [|x l]; [reflexivity|]. cbn [chunks_go concat]. rewrite IH.
    + apply take_drop.
    + exact Hs.
    + rewrite drop_length. cbn [length] in *. lia.
Qed.

Lemma chunks_go_sizes {A} fuel splits : forall (l : list A) c, 1 <= splits -> In c (chunks_go fuel splits l) -> 1 <= length c <= splits.
Proof.
  induction fuel as [|f IH]; intros l c Hs Hin.
  - destruct l; destruct Hin.
  - destruct l as [|x l]; [destruct Hin|]. cbn [chunks_go] in Hin. destruct Hin as [<-|Hin].
    + rewrite take_length. simpl. destruct splits; [lia|]. simpl. lia.
    + eapply IH; eassumption.
Qed.

Lemma ceil_div_pos a b : 1 <= a -> 1 <= b -> 1 <= ceil_div a b.
Proof.
  intros Ha Hb. unfold ceil_div. apply Nat.div_le_lower_bound; lia.
Qed.

(* contiguous chunks: concatenating them gives the batch back, none is empty *)
Theorem chunks_concat {A} (l : list A) k : concat (chunks l k) = l.
Proof.
  unfold chunks. destruct l as [|x l]; [reflexivity|].
  apply chunks_go_concat; [|lia]. apply ceil_div_pos; simpl; lia.
Qed.
Theorem chunks_nonempty {A} (l : list A) k c : In c (chunks l k) -> c <> [].
Proof.
  unfold chunks. destruct l as [|x l]; [intros []|]. intros Hin.
  apply chunks_go_sizes in Hin; [|apply ceil_div_pos; simpl; lia]. destruct c; [simpl in Hin; lia | discriminate].
Qed.

(* results collected task by task, in task order, are the per-sentence results in input order *)
Theorem collect_in_order {A B} (f : A -> B) (l : list A) k : concat (map (map f) (chunks l k)) = map f l.
Proof. rewrite <- concat_map. now rewrite chunks_concat. Qed.

(* ---------- search results can always be retrieved: rule indices of licensed derivations are valid cache indices ---------- *)
Section RetrieveLicensed.
Variable catof : nat -> cat.
Variable binres : nat -> nat -> list cres.
Variable unres : nat -> list cres.
Variable toks : list token.
Variable n : nat.
Variable adm : nat -> list nat.
Variable bin : nat -> nat -> list (nat * bool).
Variable un : nat -> list nat.
(* the id-level grammar the search saw is the cached result lists, position by position *)
Hypothesis bin_coherent : forall x y k c hl, nth_error (bin x y) k = Some (c, hl) ->
  exists res, nth_error (binres x y) k = Some res /\ head_is_left res = hl /\ rcat res = catof c.
Hypothesis un_coherent : forall x k c, nth_error (un x) k = Some c ->
  exists res, nth_error (unres x) k = Some res /\ rcat res = catof c.
Hypothesis toks_len : length toks = n.

Lemma licensed_span d : licensed n adm bin un d -> (1 <= dlen d /\ dstart d + dlen d <= n)%nat.
Proof.
  induction 1 as [i c Hi Hc | k c d Hd IH Hn Hs | k c hl l r Hl IHl Hr IHr Hadj Hn]; simpl; lia.
Qed.

Theorem licensed_retrievable d : licensed n adm bin un d ->
  exists t, Built catof binres unres toks d (dstart d) t /\ tcat t = catof (dcat d) /\
            match d, t with
            | DBin _ _ hl _ _, Bin _ _ _ h _ _ => h = hl
            | _, _ => True
            end.
Proof.
  induction 1 as [i c Hi Hc | k c d Hd IH Hn Hs | k c hl l r Hl IHl Hr IHr Hadj Hn].
  - assert (Ht : exists tk, nth_error toks i = Some tk).
    { destruct (nth_error toks i) eqn:E; [eauto|]. apply nth_error_None in E. lia. }
    destruct Ht as [tk Ht]. exists (Leaf (catof c) tk s_lex s_lexsym). simpl. split; [now constructor | tauto].
  - destruct IH as (t & Hb & Hc & _). destruct (un_coherent _ _ _ Hn) as (res & Hres & _).
    exists (Un (catof c) (op_string res) (op_symbol res) t). simpl. split; [econstructor; eassumption | tauto].
  - destruct IHl as (tl & Hbl & _). destruct IHr as (tr & Hbr & _).
    destruct (bin_coherent _ _ _ _ _ Hn) as (res & Hres & Hh & _).
    exists (Bin (catof c) (op_string res) (op_symbol res) (head_is_left res) tl tr). simpl. split; [|tauto].
    econstructor; [exact Hbl | rewrite <- Hadj; exact Hbr | exact Hres].
Qed.

Corollary complete_retrieve d : licensed n adm bin un d -> dstart d = 0 -> dlen d = n ->
  exists t, retrieve catof binres unres toks d = Some t /\ tokens t = toks.
Proof.
  intros Hl Hs Hn. destruct (licensed_retrievable d Hl) as (t & Hb & _). rewrite Hs in Hb.
  exists t. unfold retrieve. rewrite (built_tree_of catof binres unres toks d 0 t Hb). split; [reflexivity|].
  destruct (built_tokens catof binres unres toks d 0 t Hb) as [Ht _]. rewrite Ht. simpl. rewrite Hn, <- toks_len. apply firstn_all.
Qed.
End RetrieveLicensed.
