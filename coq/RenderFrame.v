(* C18: computed facts about the generated mutation lists (GenRender.v) and what follows from them. *)
From Coq Require Import List NArith Bool.
Import ListNotations.
Require Import Cat CatFacts Tree GenRender Render RenderProofs.
Open Scope N_scope.

(* ---------- the generated mutation lists are empty (recomputed against the current source on every build) ---------- *)
Lemma all_offered_no_muts : forallb no_muts_b offered_formats = true.
Proof. vm_compute. reflexivity. Qed.

Lemma offered_no_muts f : In f offered_formats -> no_muts_b f = true.
Proof. intros H. exact (proj1 (forallb_forall no_muts_b offered_formats) all_offered_no_muts f H). Qed.

Lemma Forall_offered_no_muts fs : Forall (fun f => In f offered_formats) fs -> Forall (fun f => no_muts_b f = true) fs.
Proof. intros H. induction H as [|f fs Hf Hfs IH]; constructor; [now apply offered_no_muts | exact IH]. Qed.

Lemma render_frame f s : In f offered_formats -> snd (render f s) = s.
Proof. intros H. unfold render. apply render_with_frame. now apply offered_no_muts. Qed.

Lemma render_seq_pure_any (O : Type) (enc : spec -> store -> O) fs s :
  Forall (fun f => In f offered_formats) fs -> run_seq_with O enc fs s = (map (fun f => enc f s) fs, s).
Proof. intros H. apply run_seq_with_pure. now apply Forall_offered_no_muts. Qed.

Lemma render_seq_pure fs s :
  Forall (fun f => In f offered_formats) fs -> run_seq fs s = (map (fun f => fst (render f s)) fs, s).
Proof. intros H. unfold run_seq. rewrite (render_seq_pure_any _ _ fs s H). reflexivity. Qed.

Lemma render_after_history fs f s :
  Forall (fun f => In f offered_formats) fs -> fst (render f (snd (run_seq fs s))) = fst (render f s).
Proof. intros H. rewrite (render_seq_pure fs s H). reflexivity. Qed.

