(* C12 - rule labels and head directions on trees are those the grammar assigned.  Property theorems only. *)
From Coq Require Import List NArith Bool Arith.
Import ListNotations.
Require Import Cat CatFacts Tree Unify GramPrims AStar Glue GlueProofs GenGuess.

(* parser side: the tree retrieve_tree builds for a derivation labels every unary and binary node with the op_string,
   op_symbol (and head_is_left) of exactly the rule_id-th cached result for its children - also when several results
   exist for the same children - and hands leaf j the j-th token *)
Theorem C12_parser_nodes_carry_their_rule_result : forall catof binres unres toks d t,
  retrieve catof binres unres toks d = Some t -> Built catof binres unres toks d 0 t.
Proof.
  intros catof binres unres toks d t H. unfold retrieve in H.
  destruct (tree_of catof binres unres toks d 0) as [[t0 k]|] eqn:E; [|discriminate]. inversion H; subst.
  exact (proj1 (tree_of_built catof binres unres toks d 0 t k E)).
Qed.

Theorem C12_built_node_shape : forall catof binres unres toks d tok t, Built catof binres unres toks d tok t ->
  match d, t with
  | DLeaf _ c, Leaf c' tk _ _ => c' = catof c /\ nth_error toks tok = Some tk
  | DUn k c d', Un c' o s _ => c' = catof c /\ exists r, nth_error (unres (dcat d')) k = Some r /\ o = op_string r /\ s = op_symbol r
  | DBin k c _ l r, Bin c' o s h _ _ => c' = catof c /\ exists res, nth_error (binres (dcat l) (dcat r)) k = Some res /\
                                        o = op_string res /\ s = op_symbol res /\ h = head_is_left res
  | _, _ => False
  end.
Proof.
  intros catof binres unres toks d tok t H. destruct H.
  - now split.
  - split; [reflexivity|]. exists r. tauto.
  - split; [reflexivity|]. exists res. tauto.
Qed.

Theorem C12_tokens_in_order : forall catof binres unres toks d t,
  retrieve catof binres unres toks d = Some t -> dlen d = length toks -> tokens t = toks.
Proof. exact retrieve_tokens. Qed.

(* every derivation the search can return (licensed: each rule index names an existing result) can be retrieved - the cache
   lookup never leaves the cached vector - and each binary node gets exactly the head direction the search used for it,
   each node the category of its rule result; a complete derivation yields a tree over exactly the sentence's tokens *)
Theorem C12_search_results_are_retrievable : forall (catof : nat -> cat) (binres : nat -> nat -> list cres) (unres : nat -> list cres) (toks : list token) n adm bin un,
  (forall x y k c hl, nth_error (bin x y) k = Some (c, hl) ->
     exists res, nth_error (binres x y) k = Some res /\ head_is_left res = hl /\ rcat res = catof c) ->
  (forall x k c, nth_error (un x) k = Some c -> exists res, nth_error (unres x) k = Some res /\ rcat res = catof c) ->
  length toks = n ->
  forall d, licensed n adm bin un d ->
  exists t, Built catof binres unres toks d (dstart d) t /\ tcat t = catof (dcat d) /\
            match d, t with DBin _ _ hl _ _, Bin _ _ _ h _ _ => h = hl | _, _ => True end.
Proof. exact licensed_retrievable. Qed.

Theorem C12_complete_derivation_gives_tree_over_the_sentence : forall (catof : nat -> cat) (binres : nat -> nat -> list cres) (unres : nat -> list cres) (toks : list token) n adm bin un,
  (forall x y k c hl, nth_error (bin x y) k = Some (c, hl) ->
     exists res, nth_error (binres x y) k = Some res /\ head_is_left res = hl /\ rcat res = catof c) ->
  (forall x k c, nth_error (un x) k = Some c -> exists res, nth_error (unres x) k = Some res /\ rcat res = catof c) ->
  length toks = n ->
  forall d, licensed n adm bin un d -> dstart d = 0%nat -> dlen d = n ->
  exists t, retrieve catof binres unres toks d = Some t /\ tokens t = toks.
Proof. exact complete_retrieve. Qed.

(* reader side: guess_combinator_by_triplet (translated from depccg/grammar/__init__.py on every run) returns the first
   rule whose category is the node's category - its label and head direction - and 'unk' only when no rule derives it *)
Theorem C12_guess_returns_first_deriving_rule : forall rules target r,
  find (fun r => cat_eqb (rcat r) target) rules = Some r -> guess rules target = r.
Proof. intros rules target r H. unfold guess. now rewrite H. Qed.

Theorem C12_guess_label_of_a_deriving_rule : forall rules target,
  (exists r, In r rules /\ rcat r = target) ->
  In (guess rules target) rules /\ rcat (guess rules target) = target.
Proof.
  intros rules target [r [Hin Hc]]. unfold guess.
  destruct (find (fun r0 => cat_eqb (rcat r0) target) rules) as [r1|] eqn:E.
  - apply find_some in E as [H1 H2]. apply cat_eqb_eq in H2. now split.
  - exfalso. apply (find_none _ _ E) in Hin. rewrite Hc, cat_eqb_refl in Hin. discriminate.
Qed.

Theorem C12_guess_unknown_only_if_underivable : forall rules target,
  (forall r, In r rules -> rcat r <> target) ->
  op_string (guess rules target) = [117;110;107]%N /\ rcat (guess rules target) = target.
Proof.
  intros rules target H. unfold guess.
  destruct (find (fun r0 => cat_eqb (rcat r0) target) rules) as [r1|] eqn:E.
  - apply find_some in E as [H1 H2]. apply cat_eqb_eq in H2. exfalso. now apply (H r1).
  - split; reflexivity.
Qed.
