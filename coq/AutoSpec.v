(* Specification vocabulary of C08 (definitions only, no proofs): what the AUTO line carries ([canon]),
   the domain of the round-trip theorem ([wf_tree], with a boolean version), trees whose tokens all have 'pos'. *)
From Coq Require Import List NArith Bool.
Import ListNotations.
Require Import Cat CatFacts Tree GenTables GenAuto Auto.
Open Scope N_scope.

(* a field of the line: no blank (the reader's `find(' ')` separates fields on U+0020 only) *)
Definition nosp (t : text) : Prop := has cSP t = false.
(* a word: no blank and no backslash (the reader deletes backslashes from the word field) *)
Definition word_ok (w : text) : Prop := has cSP w = false /\ has cBS w = false.
Definition word_okb (w : text) : bool := negb (has cSP w) && negb (has cBS w).

(* a category value in the domain of C05 *)
Definition cat_ok (c : cat) : Prop := wf puncts c.
Definition cat_okb (c : cat) : bool := wfb puncts c.

Definition leaf_pos (tok : token) : text := tok_get_default k_pos s_POS tok.

Fixpoint wf_tree (t : tree) : Prop :=
  match t with
  | Leaf c tok _ _ => cat_ok c /\ (exists w, leaf_word tok = Some w /\ word_ok w) /\ nosp (leaf_pos tok)
  | Un c _ _ u => cat_ok c /\ wf_tree u
  | Bin c _ _ _ l r => cat_ok c /\ wf_tree l /\ wf_tree r
  end.
Fixpoint wf_treeb (t : tree) : bool :=
  match t with
  | Leaf c tok _ _ => cat_okb c && match leaf_word tok with Some w => word_okb w | None => false end && negb (has cSP (leaf_pos tok))
  | Un c _ _ u => cat_okb c && wf_treeb u
  | Bin c _ _ _ l r => cat_okb c && wf_treeb l && wf_treeb r
  end.

(* every leaf token has the key 'pos' (then auto_of and conll_of, whose defaults differ, print the same leaf) *)
Fixpoint all_pos (t : tree) : Prop :=
  match t with
  | Leaf _ tok _ _ => tok_get k_pos tok <> None
  | Un _ _ _ u => all_pos u
  | Bin _ _ _ _ l r => all_pos l /\ all_pos r
  end.
Fixpoint all_posb (t : tree) : bool :=
  match t with
  | Leaf _ tok _ _ => match tok_get k_pos tok with Some _ => true | None => false end
  | Un _ _ _ u => all_posb u
  | Bin _ _ _ _ l r => all_posb l && all_posb r
  end.

Section Canon.
Variable guess : cat -> cat -> cat -> text * text.
(* what an AUTO line carries of a tree: shape, categories, head flags of binary nodes, pos (auto_of's default 'POS' when absent),
   the escaped spelling of each word; labels are the reader's: ('lex','<lex>') on leaves, ('lex','<un>') on unary nodes,
   the grammar's guess on binary nodes; the token is the reader's (word, pos, tag1, tag2) *)
Fixpoint canon (t : tree) : tree :=
  match t with
  | Leaf c tok _ _ =>
      let w := match leaf_word tok with Some w => denormalize w | None => [] end in
      Leaf c (reader_token w (leaf_pos tok) (leaf_pos tok)) s_lex s_lexsym
  | Un c _ _ u => Un c s_lex s_unsym (canon u)
  | Bin c _ _ hl l r =>
      let (o, y) := guess c (tcat l) (tcat r) in Bin c o y hl (canon l) (canon r)
  end.
End Canon.

(* fuel the reader needs on the printed text of t *)
Fixpoint need (t : tree) : nat :=
  match t with
  | Leaf _ _ _ _ => 1
  | Un _ _ _ u => need u + 2
  | Bin _ _ _ _ l r => need l + need r + 2
  end.

(* decidable equality on trees, for computed examples and for the correspondence *)
Fixpoint token_eqb (a b : token) : bool :=
  match a, b with
  | [], [] => true
  | (k, v) :: a', (k', v') :: b' => text_eqb k k' && text_eqb v v' && token_eqb a' b'
  | _, _ => false
  end.
Fixpoint tree_eqb (a b : tree) : bool :=
  match a, b with
  | Leaf c tok o y, Leaf c' tok' o' y' => cat_eqb c c' && token_eqb tok tok' && text_eqb o o' && text_eqb y y'
  | Un c o y u, Un c' o' y' u' => cat_eqb c c' && text_eqb o o' && text_eqb y y' && tree_eqb u u'
  | Bin c o y h l r, Bin c' o' y' h' l' r' =>
      cat_eqb c c' && text_eqb o o' && text_eqb y y' && Bool.eqb h h' && tree_eqb l l' && tree_eqb r r'
  | _, _ => false
  end.
