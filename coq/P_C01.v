(* C01 - A* search returns the highest-scoring derivation; pops are monotone.  Property theorems only.
   `problem` is the record the correspondence cases of every run are written in; `p_accepts p tr = Some st` is exactly
   what is evaluated (vm_compute) on the pop trace of the real parsing.h. *)
From Coq Require Import List ZArith Bool Arith.
Import ListNotations.
Require Import AStar AStarLoss AStarOpt AStarImpl AStarRefine AStarThms AStarReplay AStarCheck AStarProblem AStarExample.
Open Scope Z_scope.

(* the first parse of an accepted 1-best run is a complete licensed derivation of maximum model score *)
Theorem C01_first_parse_is_optimal : forall p hdir tr st,
  0 <= p_pen p -> uniformb hdir (p_bin p) = true -> p_dedup p = true ->
  p_accepts p tr = Some st ->
  forall g rest, jgoal st = g :: rest ->
    p_complete p (jder g) /\ jprio g = p_score p (jder g) /\ forall d, p_complete p d -> p_score p d <= jprio g.
Proof.
  intros p hdir tr st Hpen Hu Hd Hacc g rest Hg. destruct (p_accepts_reach p tr st Hacc) as [Hr _].
  unfold p_reach in Hr. rewrite Hd in Hr.
  exact (first_goal_in_state Nat.eqb nat_eqb_eq (p_n p) (p_tagf p) (p_depf p) (p_adm p) (p_besttag p) (p_bestdep p) (lookup2 (p_bin p))
           (lookup1 (p_un p)) (p_isroot p) (p_pen p) (p_max_step p) (p_nbest p) Hpen (p_tag_le p) (p_dep_le p) hdir (p_uniform p hdir Hu) st Hr g rest Hg).
Qed.

(* a sentence is reported as failed only if no derivation exists - or the step budget ran out *)
Theorem C01_failure_only_if_no_parse : forall p hdir tr st,
  0 <= p_pen p -> uniformb hdir (p_bin p) = true -> p_dedup p = true ->
  p_accepts p tr = Some st -> jgoal st = [] ->
  (forall d, ~ p_complete p d) \/ (p_max_step p <= jsteps st)%nat \/ p_nbest p = 0%nat.
Proof.
  intros p hdir tr st Hpen Hu Hd Hacc Hg. destruct (p_accepts_reach p tr st Hacc) as [Hr Hnr].
  unfold p_reach in Hr. rewrite Hd in Hr.
  exact (failed_means_none_or_budget Nat.eqb nat_eqb_eq (p_n p) (p_tagf p) (p_depf p) (p_adm p) (p_besttag p) (p_bestdep p) (lookup2 (p_bin p))
           (lookup1 (p_un p)) (p_isroot p) (p_pen p) (p_max_step p) (p_nbest p) Hpen (p_tag_le p) (p_dep_le p) hdir (p_uniform p hdir Hu) st Hr Hnr Hg).
Qed.

(* the priorities of the items taken from the agenda never increase, whatever the tie-breaking *)
Theorem C01_pops_monotone : forall p hdir st a a',
  0 <= p_pen p -> uniformb hdir (p_bin p) = true -> p_dedup p = true ->
  p_reach p st -> jrunning (p_max_step p) (p_nbest p) st -> jvalid_pop a st ->
  jvalid_pop a' (jstep Nat.eqb (p_n p) (p_depf p) (p_besttag p) (p_bestdep p) (lookup2 (p_bin p)) (lookup1 (p_un p)) (p_isroot p) (p_pen p) true a st) ->
  jprio a' <= jprio a.
Proof.
  intros p hdir st a a' Hpen Hu Hd Hr Hrun Hv Hv'. unfold p_reach in Hr. rewrite Hd in Hr.
  exact (impl_pops_monotone Nat.eqb nat_eqb_eq (p_n p) (p_tagf p) (p_depf p) (p_adm p) (p_besttag p) (p_bestdep p) (lookup2 (p_bin p))
           (lookup1 (p_un p)) (p_isroot p) (p_pen p) (p_max_step p) (p_nbest p) Hpen (p_tag_le p) (p_dep_le p) hdir (p_uniform p hdir Hu) st a a' Hr Hrun Hv Hv').
Qed.

(* non-vacuity: a real trace is accepted, the hypotheses hold for it, and the optimum is the derivation returned *)
Example ex_accepted : exists st, p_accepts (ex_problem true 1) ex_trace1 = Some st /\ map (@jder nat) (jgoal st) = [ex_d1] /\ map (@jprio nat) (jgoal st) = [-44].
Proof. eexists. split; [vm_compute; reflexivity|]. split; reflexivity. Qed.
Example ex_hyps : 0 <= p_pen (ex_problem true 1) /\ uniformb true (p_bin (ex_problem true 1)) = true /\ p_dedup (ex_problem true 1) = true.
Proof. repeat split; vm_compute; congruence. Qed.
