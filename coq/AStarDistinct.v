(* n-best mode: every derivation is created at most once, so the goal cell never holds the same derivation twice;
   and when the agenda runs empty every complete derivation has been returned. *)
From Coq Require Import List ZArith Lia Bool Arith.
Import ListNotations.
Require Import AStar AStarLoss AStarOpt AStarImpl AStarRefine AStarThms.
Open Scope Z_scope.

Section Distinct.
Context {C : Type}.
Variable ceqb : C -> C -> bool.
Hypothesis ceqb_eq : forall a b, ceqb a b = true <-> a = b.
Variable n : nat.
Variable tag : nat -> C -> Z.
Variable dep : nat -> nat -> Z.
Variable adm : nat -> list C.
Variable besttag bestdep : nat -> Z.
Variable bin : C -> C -> list (C * bool).
Variable un : C -> list C.
Variable isroot : C -> bool.
Variable pen : Z.
Variable max_step nbest : nat.
Hypothesis adm_nodup : forall i, NoDup (adm i).

Notation deriv := (@deriv C).
Notation item := (@item C).
Notation rspec := (remove_spec ceqb).
Notation stepN := (AStar.step ceqb n bin un isroot false rspec).
Notation reachN := (AStar.reach ceqb n tag dep adm besttag bestdep bin un isroot pen false true rspec max_step nbest).
Notation pushes := (AStar.pushes n bin un isroot).
Notation children := (@children C).
Notation nf := (@nf C).
Notation fi := (@fi C).

(* ---- generic list facts ---- *)
Lemma NoDup_map_inj {A B} (f : A -> B) l : (forall x y, In x l -> In y l -> f x = f y -> x = y) -> NoDup l -> NoDup (map f l).
Proof.
  induction l as [|a l IH]; intros Hinj Hnd; [constructor|]. inversion Hnd; subst. simpl. constructor.
  - intros Hin. apply in_map_iff in Hin as [y [E Hy]]. assert (y = a) by (apply Hinj; [now right | now left | assumption]). subst. contradiction.
  - apply IH; [|assumption]. intros x y Hx Hy. apply Hinj; now right.
Qed.

Lemma NoDup_app_intro {A} (l1 l2 : list A) : NoDup l1 -> NoDup l2 -> (forall x, In x l1 -> In x l2 -> False) -> NoDup (l1 ++ l2).
Proof.
  induction l1 as [|a l1 IH]; intros H1 H2 Hd; [exact H2|]. inversion H1; subst. simpl. constructor.
  - intros Hin. apply in_app_iff in Hin as [Hin|Hin]; [contradiction | apply (Hd a); [now left | assumption]].
  - apply IH; [assumption | assumption |]. intros x Hx. apply Hd. now right.
Qed.

Lemma NoDup_flat_map {A B} (f : A -> list B) l :
  NoDup l -> (forall x, In x l -> NoDup (f x)) -> (forall x y z, In x l -> In y l -> In z (f x) -> In z (f y) -> x = y) -> NoDup (flat_map f l).
Proof.
  induction l as [|a l IH]; intros Hnd Hf Hdis; [constructor|]. inversion Hnd; subst. simpl. apply NoDup_app_intro.
  - apply Hf. now left.
  - apply IH; [assumption | intros x Hx; apply Hf; now right | intros x y z Hx Hy; apply Hdis; now right].
  - intros z Hz1 Hz2. apply in_flat_map in Hz2 as [y [Hy Hz2]].
    assert (a = y) by (apply (Hdis a y z); [now left | now right | assumption | assumption]). subst. contradiction.
Qed.

Lemma map_fst_combine_eq {A B} (l1 : list A) (l2 : list B) : length l1 = length l2 -> map fst (combine l1 l2) = l1.
Proof. revert l2; induction l1 as [|a l1 IH]; intros [|b l2] H; simpl in *; try discriminate; [reflexivity|]. f_equal. apply IH. lia. Qed.

Lemma enum_nodup_fst {A} (l : list A) : NoDup (map fst (enum l)).
Proof. unfold enum. rewrite map_fst_combine_eq by apply seq_length. apply seq_NoDup. Qed.

Lemma enum_nodup {A} (l : list A) : NoDup (enum l).
Proof. apply (NoDup_map_inv fst). apply enum_nodup_fst. Qed.

Lemma enum_fst_inj {A} (l : list A) x y : In x (enum l) -> In y (enum l) -> fst x = fst y -> x = y.
Proof.
  destruct x as [k a], y as [k' b]. simpl. intros Hx Hy E. subst k'.
  apply In_enum in Hx. apply In_enum in Hy. congruence.
Qed.

Lemma remove_nodup a (l : list item) : NoDup l -> NoDup (rspec a l) /\ (In a l -> ~ In a (rspec a l)).
Proof.
  induction l as [|b r IH]; intros H; simpl; [split; [constructor | tauto]|].
  inversion H as [|? ? Hnb Hndr]; subst.
  destruct (item_eqb ceqb a b) eqn:E.
  - apply (item_eqb_eq ceqb ceqb_eq) in E. subst b. split; [assumption | tauto].
  - destruct (IH Hndr) as [K1 K2]. split.
    + constructor; [|assumption]. intros Hin. apply Hnb. revert Hin. apply remove_spec_sub; assumption.
    + intros [->|Hin]; [rewrite (proj2 (item_eqb_eq ceqb ceqb_eq a a) eq_refl) in E; discriminate|].
      intros [->|Hin']; [rewrite (proj2 (item_eqb_eq ceqb ceqb_eq a a) eq_refl) in E; discriminate | now apply K2].
Qed.

Lemma rsub a l x : In x (rspec a l) -> In x l.
Proof. apply remove_spec_sub; assumption. Qed.

(* a derivation is never one of its own children *)
Fixpoint dsize (d : deriv) : nat := match d with DLeaf _ _ => 1%nat | DUn _ _ d => S (dsize d) | DBin _ _ _ l r => S (dsize l + dsize r) end.
Lemma child_smaller d c : In c (children d) -> (dsize c < dsize d)%nat.
Proof. destruct d; simpl; intros H; [destruct H | destruct H as [<-|[]]; lia | destruct H as [<-|[<-|[]]]; lia]. Qed.
Lemma not_own_child d : ~ In d (children d).
Proof. intros H. apply child_smaller in H. lia. Qed.

(* ---- the invariant ---- *)
Definition DInv (st : @state C) : Prop :=
  NoDup (chart st) /\ NoDup (agenda st) /\
  (forall a, In a (agenda st) -> ifin a = false -> ~ In (ider a) (chart st)) /\
  (forall a, In a (agenda st) -> ifin a = false -> forall c, In c (children (ider a)) -> In c (chart st)) /\
  (forall a, In a (agenda st) -> ifin a = true -> In (ider a) (chart st) /\ ~ In (ider a) (goal st)) /\
  NoDup (goal st) /\ (forall g, In g (goal st) -> In g (chart st)) /\
  (forall e, In e (chart st) -> forall c, In c (children e) -> In c (chart st)).

Lemma init_dinv : DInv (AStar.init n adm).
Proof.
  unfold DInv, AStar.init. simpl. split; [constructor|]. split.
  - apply NoDup_flat_map; [apply seq_NoDup | |].
    + intros i _. apply NoDup_map_inj; [|apply adm_nodup]. intros x y _ _ E. now inversion E.
    + intros i j z _ _ Hi Hj. apply in_map_iff in Hi as [c [<- _]]. apply in_map_iff in Hj as [c' [E _]]. now inversion E.
  - split; [intros a _ _ []|]. split.
    + intros a Ha _ c Hc. apply in_flat_map in Ha as [i [_ Ha]]. apply in_map_iff in Ha as [c0 [<- _]]. destruct Hc.
    + split; [|split; [constructor|split; intros ? []]].
      intros a Ha Hf. apply in_flat_map in Ha as [i [_ Ha]]. apply in_map_iff in Ha as [c0 [<- _]]. discriminate.
Qed.

(* the pushes of one step *)
Lemma pushes_nonfinal_child d ch x : In x (pushes d ch) -> ifin x = false ->
  In d (children (ider x)) /\ forall c, In c (children (ider x)) -> c = d \/ In c ch.
Proof.
  intros Hx Hf. unfold AStar.pushes in Hx. rewrite !in_app_iff in Hx. destruct Hx as [Hx|[Hx|[Hx|Hx]]].
  - unfold push_fin in Hx. destruct (_ && _); [|destruct Hx]. destruct Hx as [<-|[]]. discriminate.
  - unfold push_un in Hx. destruct (_ || _); [|destruct Hx]. apply in_map_iff in Hx as [kc [<- _]]. simpl.
    split; [now left|]. intros c [<-|[]]. now left.
  - unfold push_right in Hx. apply in_flat_map in Hx as [o [Ho Hx]]. destruct (_ =? _)%nat; [|destruct Hx].
    apply in_map_iff in Hx as [kr [<- _]]. simpl. split; [now left|]. intros c [<-|[<-|[]]]; [now left | now right].
  - unfold push_left in Hx. apply in_flat_map in Hx as [o [Ho Hx]]. destruct (_ =? _)%nat; [|destruct Hx].
    apply in_map_iff in Hx as [kr [<- _]]. simpl. split; [right; now left|]. intros c [<-|[<-|[]]]; [now right | now left].
Qed.

Lemma pushes_final d ch x : In x (pushes d ch) -> ifin x = true -> x = fi d.
Proof.
  intros Hx Hf. unfold AStar.pushes in Hx. rewrite !in_app_iff in Hx. destruct Hx as [Hx|[Hx|[Hx|Hx]]].
  - unfold push_fin in Hx. destruct (_ && _); [|destruct Hx]. destruct Hx as [<-|[]]. reflexivity.
  - unfold push_un in Hx. destruct (_ || _); [|destruct Hx]. apply in_map_iff in Hx as [kc [<- _]]. discriminate.
  - unfold push_right in Hx. apply in_flat_map in Hx as [o [Ho Hx]]. destruct (_ =? _)%nat; [|destruct Hx].
    apply in_map_iff in Hx as [kr [<- _]]. discriminate.
  - unfold push_left in Hx. apply in_flat_map in Hx as [o [Ho Hx]]. destruct (_ =? _)%nat; [|destruct Hx].
    apply in_map_iff in Hx as [kr [<- _]]. discriminate.
Qed.

Lemma pushes_nodup d ch : NoDup ch -> ~ In d ch -> NoDup (pushes d ch).
Proof.
  intros Hnd Hd. unfold AStar.pushes.
  assert (Hun : NoDup (push_un n un d)).
  { unfold push_un. destruct (_ || _); [|constructor]. apply NoDup_map_inj; [|apply enum_nodup].
    intros x y Hx Hy E. inversion E. apply (enum_fst_inj (un (dcat d))); assumption. }
  assert (Hr : NoDup (push_right bin d ch)).
  { unfold push_right. apply NoDup_flat_map; [assumption | |].
    - intros o _. destruct (_ =? _)%nat; [|constructor]. apply NoDup_map_inj; [|apply enum_nodup].
      intros x y Hx Hy E. inversion E. apply (enum_fst_inj (bin (dcat d) (dcat o))); assumption.
    - intros o o' z _ _ Hz Hz'. destruct (_ =? _)%nat; [|destruct Hz]. destruct (_ =? _)%nat; [|destruct Hz'].
      apply in_map_iff in Hz as [kr [<- _]]. apply in_map_iff in Hz' as [kr' [E _]]. now inversion E. }
  assert (Hl : NoDup (push_left bin d ch)).
  { unfold push_left. apply NoDup_flat_map; [assumption | |].
    - intros o _. destruct (_ =? _)%nat; [|constructor]. apply NoDup_map_inj; [|apply enum_nodup].
      intros x y Hx Hy E. inversion E. apply (enum_fst_inj (bin (dcat o) (dcat d))); assumption.
    - intros o o' z _ _ Hz Hz'. destruct (_ =? _)%nat; [|destruct Hz]. destruct (_ =? _)%nat; [|destruct Hz'].
      apply in_map_iff in Hz as [kr [<- _]]. apply in_map_iff in Hz' as [kr' [E _]]. now inversion E. }
  apply NoDup_app_intro.
  - unfold push_fin. destruct (_ && _); [constructor; [intros []|constructor] | constructor].
  - apply NoDup_app_intro; [assumption | |].
    + apply NoDup_app_intro; [assumption | assumption |].
      intros z Hz Hz'. unfold push_right in Hz. apply in_flat_map in Hz as [o [Ho Hz]]. destruct (_ =? _)%nat; [|destruct Hz].
      apply in_map_iff in Hz as [kr [<- _]].
      unfold push_left in Hz'. apply in_flat_map in Hz' as [o' [Ho' Hz']]. destruct (_ =? _)%nat; [|destruct Hz'].
      apply in_map_iff in Hz' as [kr' [E _]]. inversion E; subst. contradiction.
    + intros z Hz Hz'. unfold push_un in Hz. destruct (_ || _); [|destruct Hz]. apply in_map_iff in Hz as [kc [<- _]].
      apply in_app_iff in Hz' as [Hz'|Hz'].
      * unfold push_right in Hz'. apply in_flat_map in Hz' as [o [_ Hz']]. destruct (_ =? _)%nat; [|destruct Hz'].
        apply in_map_iff in Hz' as [kr [E _]]. discriminate.
      * unfold push_left in Hz'. apply in_flat_map in Hz' as [o [_ Hz']]. destruct (_ =? _)%nat; [|destruct Hz'].
        apply in_map_iff in Hz' as [kr [E _]]. discriminate.
  - intros z Hz Hz'. unfold push_fin in Hz. destruct (_ && _); [|destruct Hz]. destruct Hz as [<-|[]].
    assert (Hnf : forall x, In x (push_un n un d ++ push_right bin d ch ++ push_left bin d ch) -> ifin x = false).
    { intros x Hx. rewrite !in_app_iff in Hx. destruct Hx as [Hx|[Hx|Hx]].
      - unfold push_un in Hx. destruct (_ || _); [|destruct Hx]. apply in_map_iff in Hx as [kc [<- _]]. reflexivity.
      - unfold push_right in Hx. apply in_flat_map in Hx as [o [_ Hx]]. destruct (_ =? _)%nat; [|destruct Hx].
        apply in_map_iff in Hx as [kr [<- _]]. reflexivity.
      - unfold push_left in Hx. apply in_flat_map in Hx as [o [_ Hx]]. destruct (_ =? _)%nat; [|destruct Hx].
        apply in_map_iff in Hx as [kr [<- _]]. reflexivity. }
    specialize (Hnf _ Hz'). discriminate.
Qed.

Lemma step_dinv a st : DInv st -> In a (agenda st) -> DInv (stepN a st).
Proof.
  intros (D1 & D2 & D3 & D4 & D5 & D6 & D7 & D8) Ha. unfold AStar.step.
  destruct (remove_nodup a (agenda st) D2) as [R1 R2]. specialize (R2 Ha).
  destruct (ifin a) eqn:Ef.
  - (* a goal item *)
    destruct (D5 a Ha Ef) as [Hc Hg]. unfold DInv. simpl.
    split; [assumption|]. split; [assumption|]. split; [intros b Hb; apply D3; now apply rsub in Hb|].
    split; [intros b Hb; apply D4; now apply rsub in Hb|]. split.
    + intros b Hb Hfb. pose proof (rsub _ _ _ Hb) as Hb'. destruct (D5 b Hb' Hfb) as [H1 H2]. split; [assumption|].
      intros Hin. apply in_app_iff in Hin as [Hin|[E|[]]]; [contradiction|].
      assert (b = a) by (destruct a, b; simpl in *; congruence). subst. contradiction.
    + split.
      * apply NoDup_app_intro; [assumption | constructor; [intros []|constructor] |]. intros x Hx [<-|[]]. contradiction.
      * split; [|assumption]. intros g Hg'. apply in_app_iff in Hg' as [Hg'|[<-|[]]]; auto.
  - simpl. set (d := ider a).
    assert (Hdn : ~ In d (chart st)) by (apply D3; assumption).
    unfold DInv. simpl. split; [constructor; assumption|]. split.
    + apply NoDup_app_intro; [now apply pushes_nodup | assumption |].
      intros x Hx Hx'. apply rsub in Hx'. destruct (ifin x) eqn:Efx.
      * apply pushes_final in Hx; [|assumption]. subst x. destruct (D5 _ Hx' eq_refl) as [H1 _]. simpl in H1. contradiction.
      * destruct (pushes_nonfinal_child d (chart st) x Hx Efx) as [H1 _]. apply Hdn. apply (D4 x Hx' Efx). exact H1.
    + split.
      * intros b Hb Hfb. apply in_app_iff in Hb as [Hb|Hb].
        -- destruct (pushes_nonfinal_child d (chart st) b Hb Hfb) as [H1 _]. intros [E|Hin].
           ++ rewrite <- E in H1. now apply not_own_child in H1.
           ++ apply Hdn. now apply (D8 _ Hin).
        -- pose proof (rsub _ _ _ Hb) as Hb'. intros [E|Hin]; [|now apply (D3 b Hb' Hfb)].
           assert (b = a) by (destruct a, b; simpl in *; unfold d in E; simpl in E; congruence). subst. contradiction.
      * split.
        -- intros b Hb Hfb c Hc. apply in_app_iff in Hb as [Hb|Hb].
           ++ destruct (pushes_nonfinal_child d (chart st) b Hb Hfb) as [_ H2]. destruct (H2 c Hc) as [->|Hin]; [now left | now right].
           ++ right. apply (D4 b (rsub _ _ _ Hb) Hfb c Hc).
        -- split.
           ++ intros b Hb Hfb. apply in_app_iff in Hb as [Hb|Hb].
              ** apply pushes_final in Hb; [|assumption]. subst b. simpl. split; [now left|]. intros Hin. apply Hdn. now apply D7.
              ** destruct (D5 b (rsub _ _ _ Hb) Hfb) as [H1 H2]. split; [now right | assumption].
           ++ split; [assumption|]. split; [intros g Hg; right; now apply D7|].
              intros e [<-|He] c Hc; [right; now apply (D4 a Ha Ef) | right; now apply (D8 e He)].
Qed.

Theorem reachN_dinv st : reachN st -> DInv st.
Proof. induction 1 as [|st a Hr IH Hrun [Ha _]]; [apply init_dinv | now apply step_dinv]. Qed.

Corollary goals_distinct st : reachN st -> NoDup (goal st).
Proof. intros H. apply reachN_dinv in H. destruct H as (_ & _ & _ & _ & _ & H & _). exact H. Qed.

(* when the agenda is empty every complete derivation has been returned *)
Theorem exhausted_means_all_returned st :
  reachN st -> agenda st = [] -> forall d, complete n adm bin un isroot d -> In d (goal st).
Proof.
  intros Hr Hag d (Hl & Hs & Hn & Hroot).
  destruct (reachN_inv ceqb n tag dep adm besttag bestdep bin un isroot pen rspec
              (remove_spec_sub ceqb n tag dep adm besttag bestdep) (remove_spec_keep ceqb ceqb_eq n tag dep adm besttag bestdep)
              max_step nbest (deriv_eq_dec ceqb ceqb_eq) st Hr) as (Hwf & HI & HF).
  assert (Hin : In d (chart st)).
  { clear Hs Hn Hroot. induction d as [i c | k c d1 IH | k c hl l IHl r IHr].
    - destruct (HI _ Hl) as [H|H]; [intros c0 []|exact H|]. rewrite Hag in H. destruct H.
    - assert (Hl1 : licensed n adm bin un d1) by (inversion Hl; assumption).
      destruct (HI _ Hl) as [H|H]; [intros c0 [<-|[]]; now apply IH | exact H|]. rewrite Hag in H. destruct H.
    - assert (Hll : licensed n adm bin un l) by (inversion Hl; assumption).
      assert (Hlr : licensed n adm bin un r) by (inversion Hl; assumption).
      destruct (HI _ Hl) as [H|H]; [intros c0 [<-|[<-|[]]]; auto | exact H|]. rewrite Hag in H. destruct H. }
  destruct (HF d Hin Hn Hroot) as [H|H]; [rewrite Hag in H; destruct H | exact H].
Qed.
End Distinct.

(* ---- transfer to the implementation-level model ---- *)
Section Impl.
Context {C : Type}.
Variable ceqb : C -> C -> bool.
Hypothesis ceqb_eq : forall a b, ceqb a b = true <-> a = b.
Variable n : nat.
Variable tag : nat -> C -> Z.
Variable dep : nat -> nat -> Z.
Variable adm : nat -> list C.
Variable besttag bestdep : nat -> Z.
Variable bin : C -> C -> list (C * bool).
Variable un : C -> list C.
Variable isroot : C -> bool.
Variable pen : Z.
Variable max_step nbest : nat.
Hypothesis adm_nodup : forall i, NoDup (adm i).
Notation jreachN := (jreach ceqb n tag dep adm besttag bestdep bin un isroot pen false max_step nbest).

Theorem impl_goals_distinct st : jreachN st -> NoDup (map (@jder C) (jgoal st)).
Proof.
  intros Hr. destruct (refinement ceqb n tag dep adm besttag bestdep bin un isroot pen false max_step nbest st Hr) as [Ha _].
  exact (goals_distinct ceqb ceqb_eq n tag dep adm besttag bestdep bin un isroot pen max_step nbest adm_nodup _ Ha).
Qed.

Theorem impl_exhausted_means_all_returned st : jreachN st -> jagenda st = [] ->
  forall d, complete n adm bin un isroot d -> In d (map (@jder C) (jgoal st)).
Proof.
  intros Hr Hag. destruct (refinement ceqb n tag dep adm besttag bestdep bin un isroot pen false max_step nbest st Hr) as [Ha _].
  apply (exhausted_means_all_returned ceqb ceqb_eq n tag dep adm besttag bestdep bin un isroot pen max_step nbest _ Ha).
  simpl. now rewrite Hag.
Qed.
End Impl.
