(* Model of the Cython/Python glue around the search: retrieve_tree (parsing.pyx), the category table and rule cache
   (maybe_add_and_get, binary_callback/unary_callback, cache_type), the failure placeholder, _chunks and the in-order
   collection of worker results (parsing.py).  MODEL ONLY. *)
From Coq Require Import List ZArith Bool Arith.
Import ListNotations.
Require Import Cat Tree GramPrims AStar.
Open Scope nat_scope.

(* ---------- retrieve_tree ---------- *)
Section Retrieve.
Variable catof : nat -> cat.                         (* kwargs['categories'][id] *)
Variable binres : nat -> nat -> list cres.           (* cache[0][(x, y)]: the CombinatorResults cached for a pair of ids *)
Variable unres : nat -> list cres.                   (* cache[0][(x, UINT_MAX)] *)
Variable toks : list token.                          (* kwargs['tokens'] *)

(* the tree built for a derivation: tokens are consumed left to right, one per leaf; a unary/binary node carries the
   op_string, op_symbol (and, binary, head_is_left) of the rule_id-th cached result for its children's category ids.
   None = IndexError / undefined behaviour (rule index outside the cached list, token index outside the sentence) *)
Fixpoint tree_of (d : @deriv nat) (tok : nat) : option (tree * nat) :=
  match d with
  | DLeaf _ c =>
      match nth_error toks tok with
      | Some t => Some (Leaf (catof c) t s_lex s_lexsym, S tok)
      | None => None
      end
  | DUn k c d' =>
      match tree_of d' tok with
      | Some (t, tok') =>
          match nth_error (unres (dcat d')) k with
          | Some r => Some (Un (catof c) (op_string r) (op_symbol r) t, tok')
          | None => None
          end
      | None => None
      end
  | DBin k c _ l r =>
      match tree_of l tok with
      | Some (tl, tok1) =>
          match tree_of r tok1 with
          | Some (tr, tok2) =>
              match nth_error (binres (dcat l) (dcat r)) k with
              | Some res => Some (Bin (catof c) (op_string res) (op_symbol res) (head_is_left res) tl tr, tok2)
              | None => None
              end
          | None => None
          end
      | None => None
      end
  end.

Definition retrieve (d : @deriv nat) : option tree := match tree_of d 0 with Some (t, _) => Some t | None => None end.
End Retrieve.

(* ---------- category table: maybe_add_and_get ---------- *)
Definition table := list cat.                         (* categories_; category_ids[c] = position of c *)
Fixpoint index_of (c : cat) (t : table) (k : nat) : option nat :=
  match t with [] => None | x :: r => if cat_eqb c x then Some k else index_of c r (S k) end.
Definition get_or_add (c : cat) (t : table) : nat * table :=
  match index_of c t 0 with Some i => (i, t) | None => (length t, t ++ [c]) end.
(* the callback: ids of the results of a rule application, table extended as needed *)
Fixpoint intern_all (rs : list cres) (t : table) : list nat * table :=
  match rs with
  | [] => ([], t)
  | r :: rest => let '(i, t1) := get_or_add (rcat r) t in let '(is_, t2) := intern_all rest t1 in (i :: is_, t2)
  end.

(* ---------- _chunks and collection ---------- *)
Fixpoint take {A} (n : nat) (l : list A) : list A := match n, l with S k, x :: r => x :: take k r | _, _ => [] end.
Fixpoint drop {A} (n : nat) (l : list A) : list A := match n, l with S k, _ :: r => drop k r | _, _ => l end.
(* for i in range(0, len(l), splits): yield l[i:i+splits]   (fuel = len(l); splits >= 1) *)
Fixpoint chunks_go {A} (fuel : nat) (splits : nat) (l : list A) : list (list A) :=
  match fuel, l with
  | _, [] => []
  | O, _ => []
  | S f, _ => take splits l :: chunks_go f splits (drop splits l)
  end.
Definition ceil_div (a b : nat) : nat := (a + b - 1) / b.
Definition chunks {A} (l : list A) (num_chunks : nat) : list (list A) :=
  let splits := ceil_div (length l) (Nat.max num_chunks 1) in chunks_go (length l) splits l.

(* run: one result list per sentence; a sentence that is too long or whose search fails yields the placeholder only *)
Inductive outcome (R : Type) := Parsed (r : R) | Failed.
Arguments Parsed {R}. Arguments Failed {R}.

(* ---------- structural equality of trees (for the correspondence cases) ---------- *)
Fixpoint token_eqb (a b : token) : bool :=
  match a, b with
  | [], [] => true
  | (k, v) :: a', (k', v') :: b' => text_eqb k k' && text_eqb v v' && token_eqb a' b'
  | _, _ => false
  end.
Fixpoint tree_eqb (a b : tree) : bool :=
  match a, b with
  | Leaf c t o s, Leaf c' t' o' s' => cat_eqb c c' && token_eqb t t' && text_eqb o o' && text_eqb s s'
  | Un c o s t, Un c' o' s' t' => cat_eqb c c' && text_eqb o o' && text_eqb s s' && tree_eqb t t'
  | Bin c o s h l r, Bin c' o' s' h' l' r' =>
      cat_eqb c c' && text_eqb o o' && text_eqb s s' && Bool.eqb h h' && tree_eqb l l' && tree_eqb r r'
  | _, _ => false
  end.
Definition otree_eqb (a b : option tree) : bool :=
  match a, b with Some x, Some y => tree_eqb x y | None, None => true | _, _ => false end.

(* finite tables for the cases *)
Definition assoc1 {V} (d : V) (t : list (nat * V)) (x : nat) : V :=
  match find (fun e => Nat.eqb (fst e) x) t with Some e => snd e | None => d end.
Definition assoc2 {V} (d : V) (t : list (nat * nat * V)) (x y : nat) : V :=
  match find (fun e => Nat.eqb (fst (fst e)) x && Nat.eqb (snd (fst e)) y) t with Some e => snd e | None => d end.
