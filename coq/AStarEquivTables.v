(* The relation AStarEquiv.v is instantiated with: ids under one category table vs. ids under another table (or vs. the
   categories themselves).  Tables without duplicates make it bi-unique, so the equality tests the search performs
   (unsigned == unsigned in the C++, Category.__eq__ at the Python level) agree on related handles; and a coherent
   cache entry, seen as the search sees it (result id + head flag), is position-wise related to the grammar's answer
   on the categories.  A small concrete instance shows that the hypotheses of the simulation are satisfiable. *)
From Coq Require Import List ZArith Bool Arith Lia.
Import ListNotations.
Require Import Cat CatFacts Tree GramPrims AStar AStarImpl AStarEquiv Glue GlueProofs GlueMemo GlueMemoProofs.
Open Scope nat_scope.

(* id i under table t1 and id j under table t2 name the same category *)
Definition same_cat (t1 t2 : table) (i j : nat) : Prop := exists c, nth_error t1 i = Some c /\ nth_error t2 j = Some c.
(* id i under table t names category c *)
Definition names (t : table) (i : nat) (c : cat) : Prop := nth_error t i = Some c.

Lemma nat_eqb_iff a b : Nat.eqb a b = true <-> a = b.
Proof. apply Nat.eqb_eq. Qed.

Lemma nodup_inj (t : table) i j c : NoDup t -> nth_error t i = Some c -> nth_error t j = Some c -> i = j.
Proof.
  intros Hnd Hi Hj. apply (proj1 (NoDup_nth_error t) Hnd); [apply nth_error_Some; congruence | congruence].
Qed.

Theorem same_cat_eqb t1 t2 : NoDup t1 -> NoDup t2 ->
  forall a a' b b', same_cat t1 t2 a a' -> same_cat t1 t2 b b' -> Nat.eqb a b = Nat.eqb a' b'.
Proof.
  intros H1 H2. apply (biunique_eqb Nat.eqb Nat.eqb (same_cat t1 t2) nat_eqb_iff nat_eqb_iff).
  - intros a a' b' (c & Ha & Ha') (d & Hb & Hb'). assert (c = d) by congruence. subst d. now apply (nodup_inj t2 a' b' c).
  - intros a b a' (c & Ha & Ha') (d & Hb & Hb'). assert (c = d) by congruence. subst d. now apply (nodup_inj t1 a b c).
Qed.

Theorem names_eqb t : NoDup t -> forall i c j d, names t i c -> names t j d -> Nat.eqb i j = cat_eqb c d.
Proof.
  intros Hnd. apply (biunique_eqb Nat.eqb cat_eqb (names t) nat_eqb_iff cat_eqb_eq).
  - unfold names. intros a a' b' Ha Hb. congruence.
  - unfold names. intros a b a' Ha Hb. now apply (nodup_inj t a b a').
Qed.

(* id_view / cat_view (what parse_sentence reads of a cached vector / of the grammar's answer) are defined in GlueMemo.v *)

Section View.
Variable gbin : cat -> cat -> list cres.
Variable gun : cat -> list cres.

(* a sound cache entry is related, position by position, to the grammar's answer for the categories its key names:
   this is hypothesis R_bin / R_un of the simulation for the pair (ids under the table, categories) *)
Theorem entry_view_related t k e : entry_ok gbin gun t k e ->
  exists rs, key_cats gbin gun t k = Some rs /\
             Forall2 (fun p q => names t (fst p) (fst q) /\ snd p = snd q) (id_view e) (cat_view rs).
Proof.
  intros (rs & Hk & Hm & HF). exists rs. split; [assumption|]. subst rs. unfold id_view, cat_view.
  clear Hk. induction HF as [|p e Hp _ IH]; simpl; [constructor|]. constructor; [|assumption]. simpl. now split.
Qed.
End View.

(* ---------- a concrete instance of the simulation: the same toy grammar under two different id assignments ---------- *)
Section Instance.
Open Scope Z_scope.
(* system 1: A=0 B=1 S=2 ; system 2 (another history): A=2 B=0 S=1 *)
Definition ex_ren : list (nat * nat) := [(0, 2); (1, 0); (2, 1)]%nat.
Definition ex_R (a a' : nat) : Prop := In (a, a') ex_ren.
Definition ex_bin1 (x y : nat) : list (nat * bool) :=
  match x, y with 0%nat, 1%nat => [(2%nat, true); (0%nat, false)] | 2%nat, 1%nat => [(2%nat, true)] | _, _ => [] end.
Definition ex_bin2 (x y : nat) : list (nat * bool) :=
  match x, y with 2%nat, 0%nat => [(1%nat, true); (2%nat, false)] | 1%nat, 0%nat => [(1%nat, true)] | _, _ => [] end.
Definition ex_un1 (x : nat) : list nat := match x with 1%nat => [0%nat] | _ => [] end.
Definition ex_un2 (x : nat) : list nat := match x with 0%nat => [2%nat] | _ => [] end.
Definition ex_root1 (x : nat) : bool := Nat.eqb x 2.
Definition ex_root2 (x : nat) : bool := Nat.eqb x 1.
Definition ex_adm1 (i : nat) : list nat := match i with 0%nat => [0; 1]%nat | _ => [1%nat] end.
Definition ex_adm2 (i : nat) : list nat := match i with 0%nat => [2; 0]%nat | _ => [0%nat] end.
Definition ex_tag1 (i c : nat) : Z := - Z.of_nat (i + c).
Definition ex_tag2 (i c : nat) : Z := - Z.of_nat (i + match c with 2%nat => 0 | 0%nat => 1 | _ => 2 end).

Ltac ex_cases H := unfold ex_R, ex_ren in H; simpl in H;
  repeat (destruct H as [H|H]; [inversion H; subst; clear H|]); try contradiction.

Lemma ex_R_eqb a a' b b' : ex_R a a' -> ex_R b b' -> Nat.eqb a b = Nat.eqb a' b'.
Proof. intros Ha Hb. ex_cases Ha; ex_cases Hb; reflexivity. Qed.
Lemma ex_R_bin a a' b b' : ex_R a a' -> ex_R b b' ->
  Forall2 (fun p q => ex_R (fst p) (fst q) /\ snd p = snd q) (ex_bin1 a b) (ex_bin2 a' b').
Proof. intros Ha Hb. ex_cases Ha; ex_cases Hb; simpl; repeat constructor; unfold ex_R, ex_ren; simpl; tauto. Qed.
Lemma ex_R_un a a' : ex_R a a' -> Forall2 ex_R (ex_un1 a) (ex_un2 a').
Proof. intros Ha. ex_cases Ha; simpl; repeat constructor; unfold ex_R, ex_ren; simpl; tauto. Qed.
Lemma ex_R_root a a' : ex_R a a' -> ex_root1 a = ex_root2 a'.
Proof. intros Ha. ex_cases Ha; reflexivity. Qed.
Lemma ex_R_adm i : Forall2 (fun c c' => ex_R c c' /\ ex_tag1 i c = ex_tag2 i c') (ex_adm1 i) (ex_adm2 i).
Proof.
  destruct i as [|i]; simpl; repeat constructor; try reflexivity; unfold ex_R, ex_ren; simpl; tauto.
Qed.
End Instance.
