(* A fully DETERMINISTIC executable twin of parse_sentence (depccg/parsing.h): nothing is supplied from outside, the
   order in which equal-priority items leave the agenda is the one libstdc++'s std::priority_queue produces (Heap.v).
   MODEL ONLY.  DSearchProofs.v proves that every step is a step of AStarImpl.jstep popping a maximal item.

   What is modelled, line by line (line numbers of depccg/parsing.h):
   - 325-331 scored_cats[token]: a Heap of pair<float, category_id> (lexicographic std::pair operator<) filled in
     category_id order; 343-365 the candidate loop: up to pruning_size times top()/pop(), stop at the first tag that does not
     pass exp(score) > exp(best) * beta (log domain: theta < score - best; `passes` of AStarImpl.v);
   - 323 agenda: a Heap of items ordered by parsing::operator< (score() = in_score + out_score only);  352 leaf pushes in token
     order and, per token, in the order the tag heap releases the tags;
   - 368 chart: cells keyed (start, length) in order of FIRST use (chart::operator() appends the cell to
     starting_cells_[row] and ending_cells_[row + column + 1] the first time it is touched, so cells_starting_at(i) /
     cells_ending_at(i) are the sub-sequences of one global first-use order); a cell is a std::list filled by push_front;
     chart::update rejects an item whose category the cell already contains unless nbest > 1;
   - 371 the loop: s < max_step && goal.size() < nbest && agenda.size();  373-374 top()/pop();  375-381 goal items go to the goal
     cell (goal.update, same rule);  384 chart.update;  389-402 the fin push;  404-420 unary pushes in cached order;
     422-452 for each cell starting at the end of the item (first-use order), each item in it (list order), each rule result in
     order: push;  453-483 the same for the cells ending at the start of the item;
   - 489-498 status; the goal cell (push_front order = reverse pop order) stably sorted by descending score.
   Items are AStarImpl.jitem (the derivation is the unfolding of the back-pointers) together with the hook's view of the
   back-pointers (`tpop`: indices of the chart slots of the children, in order of storing), so that the model's pop trace can be
   compared with the recorded one record by record.
   Scores are integers (scaled, see AStarProblem.v / harness/astar.py); float rounding is not modelled. *)
From Coq Require Import List ZArith Bool Arith.
Import ListNotations.
Require Import AStar AStarImpl Heap.
Open Scope Z_scope.

(* ---------- the per-word tag heaps and the candidate loop ---------- *)
Section DBeam.
Variable use_beta : bool.
Variable theta : Z.
(* scored_cats[token].emplace(tag_in_scores(token, category_id), category_id) for category_id = 0 .. num_tags-1 *)
Definition tag_heap (row : list Z) : list (Z * nat) := fold_left (push pair_ltb) (row_pairs row) [].
(* for (i = 0; i < pruning_size && scored_cats[token].size(); i++) { top(); pop(); if passes push else break } *)
Fixpoint dbeam_loop (k : nat) (best : Z) (h : list (Z * nat)) : list nat :=
  match k with
  | O => []
  | S k' => match pop pair_ltb h with
            | None => []
            | Some (p, h') => if passes use_beta theta (fst p) best then snd p :: dbeam_loop k' best h' else []
            end
  end.
(* threshold from scored_cats[token].top().first; an empty row (num_tags = 0) is undefined behaviour in C++: no tags here *)
Definition dbeam (pruning : nat) (row : list Z) : list nat :=
  let h := tag_heap row in
  match top h with Some p => dbeam_loop pruning (fst p) h | None => [] end.
(* best_tag_scores[token] = scored_cats[token].top().first *)
Definition dbest (row : list Z) : Z := match top (tag_heap row) with Some p => fst p | None => 0 end.
End DBeam.

Section DSearch.
Context {C : Type}.
Variable ceqb : C -> C -> bool.
Variable n : nat.
Variable tag : nat -> C -> Z.
Variable dep : nat -> nat -> Z.
Variable adm : nat -> list C.           (* admitted categories of token i in the order the candidate loop pushes them *)
Variable besttag bestdep : nat -> Z.
Variable bin : C -> C -> list (C * bool).
Variable un : C -> list C.
Variable isroot : C -> bool.
Variable pen : Z.
Variable dedup : bool.                  (* !(nbest > 1): the `nbest_` flag of both charts, negated *)
Variable max_step nbest : nat.

Notation jitem := (@jitem C).

(* an agenda entry: the item and the hook's view of its back-pointers *)
Record ditem := { d_item : jitem; d_pop : @tpop C }.
(* parsing::operator<(cell_item, cell_item): left.score() < right.score() *)
Definition dlt (x y : ditem) : bool := jprio (d_item x) <? jprio (d_item y).

(* a chart slot: the stored item and its index in order of storing; a cell: (start, length, items front first) *)
Definition sitem : Type := jitem * nat.
Definition cell : Type := nat * nat * list sitem.
Definition cell_is (s l : nat) (c : cell) : bool := (fst (fst c) =? s)%nat && (snd (fst c) =? l)%nat.
Fixpoint cell_items (ch : list cell) (s l : nat) : list sitem :=
  match ch with [] => [] | c :: r => if cell_is s l c then snd c else cell_items r s l end.
(* cell::emplace (push_front); a cell used for the first time is appended to the first-use order *)
Fixpoint cell_add (ch : list cell) (s l : nat) (x : sitem) : list cell :=
  match ch with
  | [] => [(s, l, [x])]
  | c :: r => if cell_is s l c then (fst c, x :: snd c) :: r else c :: cell_add r s l x
  end.
(* cell::contains(item.cat) *)
Definition cell_contains (its : list sitem) (a : jitem) : bool := existsb (fun o => ceqb (jcat a) (jcat (fst o))) its.
(* chart::update(start, length - 1, item): None = nullptr *)
Definition chart_update (ch : list cell) (a : jitem) (idx : nat) : option (list cell) :=
  if dedup && cell_contains (cell_items ch (jstart a) (jlen a)) a then None
  else Some (cell_add ch (jstart a) (jlen a) (a, idx)).

(* the pushes of one iteration, in the order parse_sentence makes them; ia = chart slot of the item *)
Definition dpush_fin (a : jitem) (ia : nat) : list ditem :=
  if (jlen a =? n)%nat && isroot (jcat a) then [{| d_item := jfinal dep a; d_pop := TFin ia |}] else [].
Definition dpush_un (a : jitem) (ia : nat) : list ditem :=
  if (n =? 1)%nat || negb (jlen a =? n)%nat
  then map (fun kc => {| d_item := junary pen a (fst kc) (snd kc); d_pop := TUn (fst kc) (snd kc) ia |}) (enum (un (jcat a)))
  else [].
Definition dcomb_right (a : jitem) (ia : nat) (o : sitem) : list ditem :=
  map (fun kr => {| d_item := jcombine n dep besttag bestdep a (fst o) (fst kr) (fst (snd kr)) (snd (snd kr));
                    d_pop := TBin (fst kr) (fst (snd kr)) (snd (snd kr)) ia (snd o) |})
      (enum (bin (jcat a) (jcat (fst o)))).
Definition dcomb_left (a : jitem) (ia : nat) (o : sitem) : list ditem :=
  map (fun kr => {| d_item := jcombine n dep besttag bestdep (fst o) a (fst kr) (fst (snd kr)) (snd (snd kr));
                    d_pop := TBin (fst kr) (fst (snd kr)) (snd (snd kr)) (snd o) ia |})
      (enum (bin (jcat (fst o)) (jcat a))).
(* chart.cells_starting_at(item->end_of_span()) / chart.cells_ending_at(item->start_of_span) *)
Definition cells_starting_at (ch : list cell) (i : nat) : list cell := filter (fun c => (fst (fst c) =? i)%nat) ch.
Definition cells_ending_at (ch : list cell) (i : nat) : list cell := filter (fun c => (fst (fst c) + snd (fst c) =? i)%nat) ch.
Definition dpush_right (a : jitem) (ia : nat) (ch : list cell) : list ditem :=
  flat_map (fun c => flat_map (dcomb_right a ia) (snd c)) (cells_starting_at ch (jstart a + jlen a)).
Definition dpush_left (a : jitem) (ia : nat) (ch : list cell) : list ditem :=
  flat_map (fun c => flat_map (dcomb_left a ia) (snd c)) (cells_ending_at ch (jstart a)).
Definition dpushes (a : jitem) (ia : nat) (ch : list cell) : list ditem :=
  dpush_fin a ia ++ dpush_un a ia ++ dpush_right a ia ch ++ dpush_left a ia ch.

(* agenda.push for each, in order *)
Definition push_all (l : list ditem) (h : list ditem) : list ditem := fold_left (push dlt) l h.

(* dgoal: the goal cell (push_front: latest first); dtrace: the hook calls, latest first *)
Record dstate := { dheap : list ditem; dchart : list cell; dstored : nat; dgoal : list jitem; dsteps : nat; dtrace : list (@trec C) }.

Definition mk_trec (x : ditem) (stored : bool) : @trec C :=
  {| t_pop := d_pop x; t_in := jin (d_item x); t_out := jout (d_item x); t_start := jstart (d_item x); t_len := jlen (d_item x);
     t_head := jhead (d_item x); t_stored := stored |}.

Definition dleaves : list ditem :=
  flat_map (fun i => map (fun c => {| d_item := jleaf n tag besttag bestdep i c; d_pop := TLeaf i c |}) (adm i)) (seq 0 n).
Definition dinit : dstate :=
  {| dheap := push_all dleaves []; dchart := []; dstored := 0; dgoal := []; dsteps := 0; dtrace := [] |}.

(* s < max_step && goal.size() < nbest && agenda.size() *)
Definition drunning_b (st : dstate) : bool :=
  (dsteps st <? max_step)%nat && (length (dgoal st) <? nbest)%nat && negb (match dheap st with [] => true | _ => false end).

(* one loop iteration (the loop condition holds) *)
Definition dstep (st : dstate) : dstate :=
  match pop dlt (dheap st) with
  | None => st
  | Some (x, h) =>
      let a := d_item x in
      if jfin a then
        (* goal.update(0, 0, top_item); the hook reports no chart slot *)
        {| dheap := h; dchart := dchart st; dstored := dstored st;
           dgoal := if dedup && existsb (fun g => ceqb (jcat a) (jcat g)) (dgoal st) then dgoal st else a :: dgoal st;
           dsteps := S (dsteps st); dtrace := mk_trec x false :: dtrace st |}
      else
        match chart_update (dchart st) a (dstored st) with
        | None =>
            {| dheap := h; dchart := dchart st; dstored := dstored st; dgoal := dgoal st;
               dsteps := S (dsteps st); dtrace := mk_trec x false :: dtrace st |}
        | Some ch =>
            {| dheap := push_all (dpushes a (dstored st) ch) h; dchart := ch; dstored := S (dstored st); dgoal := dgoal st;
               dsteps := S (dsteps st); dtrace := mk_trec x true :: dtrace st |}
        end
  end.

(* the loop; fuel = max_step is enough (every iteration increments s) *)
Fixpoint drun (fuel : nat) (st : dstate) : dstate :=
  match fuel with
  | O => st
  | S f => if drunning_b st then drun f (dstep st) else st
  end.
Definition dfinal : dstate := drun max_step dinit.

(* what the caller sees: status, the goal cell after cell.sort() (std::list::sort, stable, descending score), the hook calls *)
Definition dstatus (st : dstate) : nat := match dgoal st with [] => 1%nat | _ => 0%nat end.
Definition dresult (st : dstate) : list jitem := sort_desc (dgoal st).
Definition dpops (st : dstate) : list (@trec C) := rev (dtrace st).
End DSearch.
