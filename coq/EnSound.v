(* C03 - soundness, head direction and completeness of the English combinators, over the GENERATED GenEn.v. *)
From Coq Require Import List NArith Bool Lia.
Import ListNotations.
Require Import Cat CatFacts Unify UnifySpec UnifyProofs GramPrims GenTables GenEn EnSpec EnLemmas.
Open Scope N_scope.

(* what is shown of every combinator: on well-formed categories of the English feature system it never raises, and
   whatever it returns is justified by the schema its label names, with the head on the left *)
Definition good (c : combinator) : Prop :=
  forall x y, wf puncts x -> wf puncts y -> unary_sys x -> unary_sys y ->
    c x y = Ok_ None \/ exists r, c x y = Ok_ (Some r) /\ Justified_en r x y /\ head_is_left r = true.

Ltac lb v bs := let H := fresh in assert (H : last_binding v bs = _) by reflexivity.

Lemma fa_good : good forward_application.
Proof.
  intros x y Wx Wy Ux Uy. unfold forward_application. cbn [bind].
  destruct (unify_total lit_0 lit_1 x y Ux Uy) as [[st|] Hu]; rewrite Hu; cbn [bind]; [|now left]. right.
  destruct (unify_inv _ _ _ _ _ Ux Uy Hu) as (bx & by_ & Hbx & Hby & Hag & Hm & Hrd).
  apply binds_a_sl_b in Hbx as (a & s & b & -> & Hs & ->). rewrite binds_var in Hby. inversion Hby; subst by_; clear Hby.
  destruct (Hm v_b b y eq_refl eq_refl) as (_ & _ & Hmat).
  step.
  destruct (cat_eqb a b) eqn:E.
  - eexists. split; [reflexivity|]. split; [|reflexivity].
    apply cat_eqb_eq in E. apply (J_fa _ _ _ a s b); try assumption; try reflexivity. split; reflexivity. left. now split.
  - destruct (Hrd v_a a eq_refl) as (c & Hc & Hi). rewrite Hc. cbn [bind].
    eexists. split; [reflexivity|]. split; [|reflexivity].
    apply (J_fa _ _ _ a s b); try assumption; try reflexivity. split; reflexivity. right. split; [|exact Hi].
    intros ->. now rewrite cat_eqb_refl in E.
Qed.

Ltac done_some := eexists; split; [reflexivity|]; split; [|reflexivity].
Ltac lab := split; reflexivity.

Lemma ba_good : good backward_application.
Proof.
  intros x y Wx Wy Ux Uy. unfold backward_application.
  change [83;91;100;99;108;93] with (show c_S_dcl). change [83;91;101;109;93;92;83;91;101;109;93] with (show c_Sem_Sem).
  (* the listed special case is asked first; every other path is the unification *)
  destruct (eq_str x (show c_S_dcl)) eqn:E1; [destruct (eq_str y (show c_Sem_Sem)) eqn:E2|].
  1: { right. apply eq_str_wf in E1, E2; try assumption; try reflexivity.
       done_some. apply J_ba_em; try assumption; try reflexivity. lab. }
  all: destruct (unify_total lit_1 lit_2 x y Ux Uy) as [[st|] Hu]; rewrite Hu; cbn [bind]; [|now left]; right;
    destruct (unify_inv _ _ _ _ _ Ux Uy Hu) as (bx & by_ & Hbx & Hby & Hag & Hm & Hrd);
    rewrite binds_var in Hbx; inversion Hbx; subst bx; clear Hbx;
    apply binds_a_bs_b in Hby as (a & s & b & -> & Hs & ->);
    destruct (Hm v_b x b eq_refl eq_refl) as (_ & _ & Hmat);
    step;
    destruct (cat_eqb a b) eqn:Eab;
    [ done_some; apply cat_eqb_eq in Eab; apply (J_ba _ _ _ a s b); try assumption; try reflexivity; [lab | left; now split]
    | destruct (Hrd v_a a eq_refl) as (c & Hc & Hi); rewrite Hc; cbn [bind]; done_some;
      apply (J_ba _ _ _ a s b); try assumption; try reflexivity; [lab | right; split; [|exact Hi]; intros ->; now rewrite cat_eqb_refl in Eab] ].
Qed.

Lemma fc_good : good forward_composition.
Proof.
  intros x y Wx Wy Ux Uy. unfold forward_composition. cbn [bind].
  destruct (unify_total lit_0 lit_3 x y Ux Uy) as [[st|] Hu]; rewrite Hu; cbn [bind]; [|now left]. right.
  destruct (unify_inv _ _ _ _ _ Ux Uy Hu) as (bx & by_ & Hbx & Hby & Hag & Hm & Hrd).
  apply binds_a_sl_b in Hbx as (a & s1 & b & -> & Hs1 & ->).
  apply binds_b_sl_c in Hby as (b' & s2 & c & -> & Hs2 & ->).
  destruct (Hm v_b b b' eq_refl eq_refl) as (_ & _ & Hmat).
  step.
  destruct (cat_eqb a b) eqn:Eab.
  - done_some. apply cat_eqb_eq in Eab. apply (J_fc _ _ _ a s1 b b' s2 c); try assumption; try reflexivity. lab. left. now split.
  - destruct (Hrd v_a a eq_refl) as (a' & Ha & Hia). destruct (Hrd v_c c eq_refl) as (c' & Hc & Hic).
    rewrite Ha. cbn [bind]. rewrite Hc. cbn [bind]. done_some.
    apply (J_fc _ _ _ a s1 b b' s2 c); try assumption; try reflexivity. lab. right. split; [intros ->; now rewrite cat_eqb_refl in Eab|].
    exists a', c'. auto.
Qed.

Lemma not_bare_of_text x y b c : inst_of x y b c -> text_in (show c) (map show [c_N; c_NP]) = false -> ~ bare_N_NP b.
Proof.
  intros Hi Ht [->| ->]; apply inst_of_bare in Hi; subst c; discriminate.
Qed.

Lemma bx_good : good backward_composition.
Proof.
  intros x y Wx Wy Ux Uy. unfold backward_composition. cbn [bind].
  destruct (unify_total lit_3 lit_2 x y Ux Uy) as [[st|] Hu]; rewrite Hu; cbn [bind]; [|now left].
  destruct (unify_inv _ _ _ _ _ Ux Uy Hu) as (bx & by_ & Hbx & Hby & Hag & Hm & Hrd).
  apply binds_b_sl_c in Hbx as (b & s1 & c & -> & Hs1 & ->).
  apply binds_a_bs_b in Hby as (a & s2 & b' & -> & Hs2 & ->).
  destruct (Hm v_b b b' eq_refl eq_refl) as (_ & _ & Hmat).
  destruct (Hrd v_b b' eq_refl) as (b2 & Hb2 & Hib). rewrite Hb2. cbn [bind].
  change [[78]; [78; 80]] with (map show [c_N; c_NP]).
  destruct (text_in (show b2) (map show [c_N; c_NP])) eqn:EN; [now left|]. right.
  pose proof (not_bare_of_text _ _ _ _ Hib EN) as Hnb.
  step.
  destruct (cat_eqb a b') eqn:Eab.
  - done_some. apply cat_eqb_eq in Eab. apply (J_bx _ _ _ b s1 c a s2 b'); try assumption; try reflexivity. lab. left. now split.
  - destruct (Hrd v_a a eq_refl) as (a' & Ha & Hia). destruct (Hrd v_c c eq_refl) as (c' & Hc & Hic).
    rewrite Ha. cbn [bind]. rewrite Hc. cbn [bind]. done_some.
    apply (J_bx _ _ _ b s1 c a s2 b'); try assumption; try reflexivity. lab. right. split; [intros ->; now rewrite cat_eqb_refl in Eab|].
    exists a', c'. auto.
Qed.

Lemma gfc_good : good generalized_forward_composition.
Proof.
  intros x y Wx Wy Ux Uy. unfold generalized_forward_composition. cbn [bind].
  destruct (unify_total lit_0 lit_4 x y Ux Uy) as [[st|] Hu]; rewrite Hu; cbn [bind]; [|now left]. right.
  destruct (unify_inv _ _ _ _ _ Ux Uy Hu) as (bx & by_ & Hbx & Hby & Hag & Hm & Hrd).
  apply binds_a_sl_b in Hbx as (a & s1 & b & -> & Hs1 & ->).
  apply binds_bc_d in Hby as (b' & s2 & c & s3 & d & -> & Hs2 & ->).
  destruct (Hm v_b b b' eq_refl eq_refl) as (_ & _ & Hmat).
  step.
  destruct (cat_eqb a b) eqn:Eab.
  - done_some. apply cat_eqb_eq in Eab. apply (J_gfc _ _ _ a s1 b b' s2 c s3 d); try assumption; try reflexivity. lab. left. now split.
  - destruct (Hrd v_a a eq_refl) as (a' & Ha & Hia). destruct (Hrd v_c c eq_refl) as (c' & Hc & Hic).
    destruct (Hrd v_d d eq_refl) as (d' & Hd & Hid).
    rewrite Ha. cbn [bind]. rewrite Hc. cbn [bind]. rewrite Hd. cbn [bind functor_of]. done_some.
    apply (J_gfc _ _ _ a s1 b b' s2 c s3 d); try assumption; try reflexivity. lab. right. split; [intros ->; now rewrite cat_eqb_refl in Eab|].
    exists a', c', d'. auto.
Qed.

Lemma gbx_good : good generalized_backward_composition.
Proof.
  intros x y Wx Wy Ux Uy. unfold generalized_backward_composition. cbn [bind].
  destruct (unify_total lit_4 lit_2 x y Ux Uy) as [[st|] Hu]; rewrite Hu; cbn [bind]; [|now left].
  destruct (unify_inv _ _ _ _ _ Ux Uy Hu) as (bx & by_ & Hbx & Hby & Hag & Hm & Hrd).
  apply binds_bc_d in Hbx as (b & s1 & c & s3 & d & -> & Hs1 & ->).
  apply binds_a_bs_b in Hby as (a & s2 & b' & -> & Hs2 & ->).
  destruct (Hm v_b b b' eq_refl eq_refl) as (_ & _ & Hmat).
  destruct (Hrd v_b b' eq_refl) as (b2 & Hb2 & Hib). rewrite Hb2. cbn [bind].
  change [[78]; [78; 80]] with (map show [c_N; c_NP]).
  destruct (text_in (show b2) (map show [c_N; c_NP])) eqn:EN; [now left|]. right.
  pose proof (not_bare_of_text _ _ _ _ Hib EN) as Hnb.
  step.
  destruct (cat_eqb a b') eqn:Eab.
  - done_some. apply cat_eqb_eq in Eab. apply (J_gbx _ _ _ b s1 c s3 d a s2 b'); try assumption; try reflexivity. lab. left. now split.
  - destruct (Hrd v_a a eq_refl) as (a' & Ha & Hia). destruct (Hrd v_c c eq_refl) as (c' & Hc & Hic).
    destruct (Hrd v_d d eq_refl) as (d' & Hd & Hid).
    rewrite Ha. cbn [bind]. rewrite Hc. cbn [bind]. rewrite Hd. cbn [bind functor_of]. done_some.
    apply (J_gbx _ _ _ b s1 c s3 d a s2 b'); try assumption; try reflexivity. lab. right. split; [intros ->; now rewrite cat_eqb_refl in Eab|].
    exists a', c', d'. auto.
Qed.

(* ---------- the rules without unification: what each generated decision tree computes (proved by running it on every
   constructor shape of the inputs - nothing here depends on how the tree is arranged) ---------- *)
Definition mk (c : cat) (l sy : text) : cres := {| rcat := c; op_string := l; op_symbol := sy; head_is_left := true |}.
Definition when (b : bool) (r : cres) : res (option cres) := Ok_ (if b then Some r else None).

Ltac evald := unfold when, mk, n_LRB, n_RRB, n_LQU, n_RQU; crunch.

Lemma conjunction_eval x y : wf puncts y ->
  conjunction x y = when (negb (punctb y) && negb (type_raisedb y) && text_in (show x) (map show [c_comma; c_semi; c_conj])) (mk (Fun y bs y) l_conj y_conj).
Proof.
  intros W. unfold conjunction.
  destruct y as [[|c b] f | l s [b f | rl s' rr]]; [cbn [wf] in W; destruct W as [[W _] _]; congruence | | |];
    cbn [punctb type_raisedb]; step; try fold (letterb c); evald.
Qed.
Lemma conjunction2_eval x y :
  conjunction2 x y = when (eq_str x (show c_conj) && eq_str y (show c_NP_NP)) (mk y l_conj y_conj).
Proof. unfold conjunction2. evald. Qed.
Lemma rp1_eval x y : wf puncts x -> remove_punctuation1 x y = when (punctb x) (mk y l_lp y_lp).
Proof.
  intros W. unfold remove_punctuation1.
  destruct x as [[|c b] f | l s r]; [cbn [wf] in W; destruct W as [[W _] _]; congruence | |];
    cbn [punctb]; step; try fold (letterb c); evald.
Qed.
Lemma rp2_eval x y : wf puncts y -> remove_punctuation2 x y = when (punctb y) (mk x l_rp y_rp).
Proof.
  intros W. unfold remove_punctuation2.
  destruct y as [[|c b] f | l s r]; [cbn [wf] in W; destruct W as [[W _] _]; congruence | |];
    cbn [punctb]; step; try fold (letterb c); evald.
Qed.
Lemma rpl_eval x y : remove_punctuation_left x y = when (text_in (show x) (map show [c_LQU; c_LRB])) (mk (Fun y bs y) l_lp y_lp).
Proof. unfold remove_punctuation_left. evald. Qed.
Lemma comma_vp_eval x y :
  comma_vp_to_adv x y = when (eq_str x (show c_comma) && text_in (show y) (map show [c_Sng_NP; c_Spss_NP])) (mk c_VP_bs_VP l_lp y_star).
Proof. unfold comma_vp_to_adv. evald. Qed.
Lemma paren_eval x y :
  parenthetical_direct_speech x y = when (eq_str x (show c_comma) && eq_str y (show c_Sdcl_Sdcl)) (mk c_VP_sl_VP l_lp y_star).
Proof. unfold parenthetical_direct_speech. evald. Qed.

(* a rule that fires exactly when a test holds is good when the test implies its schema *)
Lemma when_good (c : combinator) (t : cat -> cat -> bool) (r : cat -> cat -> cres) :
  (forall x y, wf puncts x -> wf puncts y -> c x y = when (t x y) (r x y)) ->
  (forall x y, wf puncts x -> wf puncts y -> t x y = true -> Justified_en (r x y) x y /\ head_is_left (r x y) = true) -> good c.
Proof.
  intros He Hj x y Wx Wy _ _. rewrite (He x y Wx Wy). unfold when. destruct (t x y) eqn:E; [right | now left].
  eexists. split; [reflexivity|]. now apply Hj.
Qed.

Lemma conj_good : good conjunction.
Proof.
  apply (when_good _ _ _ (fun x y _ Wy => conjunction_eval x y Wy)). intros x y Wx Wy E.
  apply andb_true_iff in E as [E Ex]. apply andb_true_iff in E as [Ep Et]. apply negb_true_iff in Ep, Et.
  split; [|reflexivity]. apply J_conj; try reflexivity.
  - apply text_in_show; [assumption | reflexivity | assumption].
  - intros H. apply punctb_ok in H. congruence.
  - intros H. apply type_raisedb_ok in H. congruence.
  - lab.
Qed.

Lemma conj2_good : good conjunction2.
Proof.
  apply (when_good _ _ _ (fun x y _ _ => conjunction2_eval x y)). intros x y Wx Wy E. apply andb_true_iff in E as [E1 E2].
  apply (eq_str_wf x c_conj Wx eq_refl) in E1. apply (eq_str_wf y c_NP_NP Wy eq_refl) in E2.
  split; [|reflexivity]. apply J_conj_NP; try assumption; try reflexivity. lab.
Qed.

Lemma rp1_good : good remove_punctuation1.
Proof.
  apply (when_good _ _ _ (fun x y Wx _ => rp1_eval x y Wx)). intros x y Wx Wy E.
  split; [|reflexivity]. apply J_lp; try reflexivity. now apply punctb_ok. lab.
Qed.

Lemma rp2_good : good remove_punctuation2.
Proof.
  apply (when_good _ _ _ (fun x y _ Wy => rp2_eval x y Wy)). intros x y Wx Wy E.
  split; [|reflexivity]. apply J_rp; try reflexivity. now apply punctb_ok. lab.
Qed.

Lemma rpl_good : good remove_punctuation_left.
Proof.
  apply (when_good _ _ _ (fun x y _ _ => rpl_eval x y)). intros x y Wx Wy E.
  split; [|reflexivity]. apply J_lp_open; try reflexivity.
  - apply text_in_show; [assumption | reflexivity | assumption].
  - lab.
Qed.

Lemma comma_vp_good : good comma_vp_to_adv.
Proof.
  apply (when_good _ _ _ (fun x y _ _ => comma_vp_eval x y)). intros x y Wx Wy E. apply andb_true_iff in E as [E1 E2].
  apply (eq_str_wf x c_comma Wx eq_refl) in E1.
  apply (text_in_show y [c_Sng_NP; c_Spss_NP] Wy eq_refl) in E2.
  split; [|reflexivity]. apply J_comma_vp; try assumption; try reflexivity. lab.
Qed.

Lemma paren_good : good parenthetical_direct_speech.
Proof.
  apply (when_good _ _ _ (fun x y _ _ => paren_eval x y)). intros x y Wx Wy E. apply andb_true_iff in E as [E1 E2].
  apply (eq_str_wf x c_comma Wx eq_refl) in E1. apply (eq_str_wf y c_Sdcl_Sdcl Wy eq_refl) in E2.
  split; [|reflexivity]. apply J_comma_ds; try assumption; try reflexivity. lab.
Qed.

Lemma all_good c : In c combinators -> good c.
Proof.
  unfold combinators. cbn [In].
  intros [<-|[<-|[<-|[<-|[<-|[<-|[<-|[<-|[<-|[<-|[<-|[<-|[<-|[]]]]]]]]]]]]]].
  - exact fa_good. - exact ba_good. - exact fc_good. - exact bx_good. - exact gfc_good. - exact gbx_good.
  - exact conj_good. - exact conj2_good. - exact rp1_good. - exact rp2_good. - exact rpl_good.
  - exact comma_vp_good. - exact paren_good.
Qed.

(* ================= the rule loop ================= *)
Notation kc := (clear_features key_clear).

Lemma en_results x y rs r : wf puncts x -> wf puncts y -> one_system x y ->
  apply_binary_rules x y None = Ok_ rs -> In r rs -> Justified_en r (kc x) (kc y) /\ head_is_left r = true.
Proof.
  intros Wx Wy [Ux Uy] H Hin. unfold apply_binary_rules, apply_binary in H.
  destruct (collect_In _ _ _ _ _ H Hin) as (c & Hc & Hr).
  destruct (all_good c Hc (kc x) (kc y)) as [Hn|(r' & Hr' & HJ & Hh)];
    try (now apply clear_wf); try (now apply clear_unary).
  - congruence.
  - rewrite Hr in Hr'. inversion Hr'; subst r'. now split.
Qed.

Theorem en_sound x y rs r : wf puncts x -> wf puncts y -> one_system x y ->
  apply_binary_rules x y None = Ok_ rs -> In r rs -> Justified_en r (kc x) (kc y).
Proof. intros Wx Wy Hs H Hin. exact (proj1 (en_results x y rs r Wx Wy Hs H Hin)). Qed.

Theorem en_head_left x y rs r : wf puncts x -> wf puncts y -> one_system x y ->
  apply_binary_rules x y None = Ok_ rs -> In r rs -> head_is_left r = true.
Proof. intros Wx Wy Hs H Hin. exact (proj2 (en_results x y rs r Wx Wy Hs H Hin)). Qed.

Lemma collect_ok x y : wf puncts x -> wf puncts y -> unary_sys x -> unary_sys y -> exists rs, collect combinators x y = Ok_ rs.
Proof.
  intros Wx Wy Ux Uy. apply collect_total. intros c Hc.
  destruct (all_good c Hc x y Wx Wy Ux Uy) as [H|(r & H & _)]; rewrite H; now eexists.
Qed.

(* a combinator that yields r on the erased pair puts r into the result list *)
Lemma lift_result c x y r : In c combinators -> wf puncts x -> wf puncts y -> one_system x y ->
  c (kc x) (kc y) = Ok_ (Some r) -> exists rs, apply_binary_rules x y None = Ok_ rs /\ In r rs.
Proof.
  intros Hc Wx Wy [Ux Uy] Hr. unfold apply_binary_rules, apply_binary.
  destruct (collect_ok (kc x) (kc y)) as [rs Hrs]; try (now apply clear_wf); try (now apply clear_unary).
  exists rs. split; [exact Hrs|]. exact (collect_complete _ _ _ _ _ _ Hrs Hc Hr).
Qed.

(* ================= no bx / gbx over a bare N or NP ================= *)
Lemma labelled_inj r l1 s1 l2 s2 : labelled r l1 s1 -> labelled r l2 s2 -> l1 = l2 /\ s1 = s2.
Proof. intros [H1 H2] [H3 H4]. split; congruence. Qed.

Theorem bx_never_over_N_NP x y rs r : wf puncts x -> wf puncts y -> one_system x y ->
  apply_binary_rules x y None = Ok_ rs -> In r rs -> op_string r = l_bx \/ op_string r = l_gbx ->
  forall a s b, kc y = Fun a s b -> ~ bare_N_NP b.
Proof.
  intros Wx Wy Hs H Hin Hl a s b Hy. pose proof (en_sound x y rs r Wx Wy Hs H Hin) as HJ.
  destruct HJ;
    match goal with L : labelled r _ _ |- _ =>
      let L' := fresh "L" in destruct L as [L' _];
      try (exfalso; destruct Hl as [Hl|Hl]; rewrite Hl in L'; vm_compute in L'; discriminate)
    end;
    match goal with E : kc y = Fun _ _ _ |- _ => rewrite E in Hy; inversion Hy; subst; assumption end.
Qed.

(* ================= completeness on identical matched parts ================= *)
Ltac va := apply vars_agreeb_ok; intros v c1 c2 H1 H2; cbn [In app] in H1, H2;
  repeat match goal with H : _ \/ _ |- _ => destruct H as [H|H] | H : False |- _ => contradiction end;
  inversion H1; inversion H2; subst; try apply cat_xor_refl; try discriminate.
Ltac hid := intros v cx cy H1 H2; cbn [last_binding] in H1, H2;
  repeat match type of H2 with context [text_eqb v ?k] =>
    let E := fresh "E" in destruct (text_eqb v k) eqn:E; [apply text_eqb_eq in E; subst v; cbn in H1, H2 | ] end;
  congruence.
Ltac some_r := eexists; split; [reflexivity|]; split; [|lab].

Lemma fa_complete a s b : fwd s ->
  exists r, forward_application (Fun a s b) b = Ok_ (Some r) /\ rcat r = a /\ labelled r l_fa y_fa.
Proof.
  intros Hs. destruct (unify_ident lit_0 lit_1 (Fun a s b) b _ _ (binds_a_sl_b_intro a s b Hs) (binds_var b)) as (st & Hu & Hrd); [va | hid |].
  unfold forward_application. cbn [bind]. rewrite Hu. cbn [bind]. step.
  destruct (cat_eqb a b) eqn:E.
  - some_r. cbn. apply cat_eqb_eq in E. congruence.
  - rewrite (Hrd v_a a eq_refl). cbn [bind]. some_r. reflexivity.
Qed.

Lemma ba_complete a s b : bwd s -> eq_str b (show c_S_dcl) && eq_str (Fun a s b) (show c_Sem_Sem) = false ->
  exists r, backward_application b (Fun a s b) = Ok_ (Some r) /\ rcat r = a /\ labelled r l_ba y_ba.
Proof.
  intros Hs Hsp. destruct (unify_ident lit_1 lit_2 b (Fun a s b) _ _ (binds_var b) (binds_a_bs_b_intro a s b Hs)) as (st & Hu & Hrd); [va | hid |].
  unfold backward_application.
  change [83;91;100;99;108;93] with (show c_S_dcl). change [83;91;101;109;93;92;83;91;101;109;93] with (show c_Sem_Sem).
  destruct (eq_str b (show c_S_dcl)); [destruct (eq_str (Fun a s b) (show c_Sem_Sem)); [discriminate Hsp|]|].
  all: rewrite Hu; cbn [bind]; step; destruct (cat_eqb a b) eqn:Eab;
    [ some_r; cbn; apply cat_eqb_eq in Eab; congruence
    | rewrite (Hrd v_a a eq_refl); cbn [bind]; some_r; reflexivity ].
Qed.

Lemma fc_complete a s1 b s2 c : fwd s1 -> fwd s2 ->
  exists r, forward_composition (Fun a s1 b) (Fun b s2 c) = Ok_ (Some r) /\
            rcat r = (if cat_eqb a b then Fun b s2 c else Fun a sl c) /\ labelled r l_fc y_fc.
Proof.
  intros Hs1 Hs2.
  destruct (unify_ident lit_0 lit_3 (Fun a s1 b) (Fun b s2 c) _ _ (binds_a_sl_b_intro a s1 b Hs1) (binds_b_sl_c_intro b s2 c Hs2)) as (st & Hu & Hrd); [va | hid |].
  unfold forward_composition. cbn [bind]. rewrite Hu. cbn [bind]. step.
  destruct (cat_eqb a b) eqn:E.
  - some_r. reflexivity.
  - rewrite (Hrd v_a a eq_refl). cbn [bind]. rewrite (Hrd v_c c eq_refl). cbn [bind]. some_r. reflexivity.
Qed.

Lemma bx_complete b s1 c a s2 : fwd s1 -> bwd s2 -> text_in (show b) (map show [c_N; c_NP]) = false ->
  exists r, backward_composition (Fun b s1 c) (Fun a s2 b) = Ok_ (Some r) /\
            rcat r = (if cat_eqb a b then Fun b s1 c else Fun a sl c) /\ labelled r l_bx y_bx.
Proof.
  intros Hs1 Hs2 HN.
  destruct (unify_ident lit_3 lit_2 (Fun b s1 c) (Fun a s2 b) _ _ (binds_b_sl_c_intro b s1 c Hs1) (binds_a_bs_b_intro a s2 b Hs2)) as (st & Hu & Hrd); [va | hid |].
  unfold backward_composition. cbn [bind]. rewrite Hu. cbn [bind]. rewrite (Hrd v_b b eq_refl). cbn [bind].
  change [[78]; [78; 80]] with (map show [c_N; c_NP]). rewrite HN.
  step.
  destruct (cat_eqb a b) eqn:E.
  - some_r. reflexivity.
  - rewrite (Hrd v_a a eq_refl). cbn [bind]. rewrite (Hrd v_c c eq_refl). cbn [bind]. some_r. reflexivity.
Qed.

Lemma gfc_complete a s1 b s2 c s3 d : fwd s1 -> fwd s2 ->
  exists r, generalized_forward_composition (Fun a s1 b) (Fun (Fun b s2 c) s3 d) = Ok_ (Some r) /\
            rcat r = (if cat_eqb a b then Fun (Fun b s2 c) s3 d else Fun (Fun a sl c) s3 d) /\ labelled r l_gfc y_fc.
Proof.
  intros Hs1 Hs2.
  destruct (unify_ident lit_0 lit_4 (Fun a s1 b) (Fun (Fun b s2 c) s3 d) _ _ (binds_a_sl_b_intro a s1 b Hs1) (binds_bc_d_intro b s2 c s3 d Hs2)) as (st & Hu & Hrd); [va | hid |].
  unfold generalized_forward_composition. cbn [bind]. rewrite Hu. cbn [bind]. step.
  destruct (cat_eqb a b) eqn:E.
  - some_r. reflexivity.
  - rewrite (Hrd v_a a eq_refl). cbn [bind]. rewrite (Hrd v_c c eq_refl). cbn [bind]. rewrite (Hrd v_d d eq_refl). cbn [bind functor_of].
    some_r. reflexivity.
Qed.

Lemma gbx_complete b s1 c s3 d a s2 : fwd s1 -> bwd s2 -> text_in (show b) (map show [c_N; c_NP]) = false ->
  exists r, generalized_backward_composition (Fun (Fun b s1 c) s3 d) (Fun a s2 b) = Ok_ (Some r) /\
            rcat r = (if cat_eqb a b then Fun (Fun b s1 c) s3 d else Fun (Fun a sl c) s3 d) /\ labelled r l_gbx y_bx.
Proof.
  intros Hs1 Hs2 HN.
  destruct (unify_ident lit_4 lit_2 (Fun (Fun b s1 c) s3 d) (Fun a s2 b) _ _ (binds_bc_d_intro b s1 c s3 d Hs1) (binds_a_bs_b_intro a s2 b Hs2)) as (st & Hu & Hrd); [va | hid |].
  unfold generalized_backward_composition. cbn [bind]. rewrite Hu. cbn [bind]. rewrite (Hrd v_b b eq_refl). cbn [bind].
  change [[78]; [78; 80]] with (map show [c_N; c_NP]). rewrite HN.
  step.
  destruct (cat_eqb a b) eqn:E.
  - some_r. reflexivity.
  - rewrite (Hrd v_a a eq_refl). cbn [bind]. rewrite (Hrd v_c c eq_refl). cbn [bind]. rewrite (Hrd v_d d eq_refl). cbn [bind functor_of].
    some_r. reflexivity.
Qed.

Lemma conj_complete x y : wf puncts y -> In x [c_comma; c_semi; c_conj] -> ~ punct_cat y -> ~ type_raised y ->
  exists r, conjunction x y = Ok_ (Some r) /\ rcat r = Fun y bs y /\ labelled r l_conj y_conj.
Proof.
  intros Wy Hx Hp Ht. rewrite (conjunction_eval x y Wy).
  destruct (punctb y) eqn:Ep; [exfalso; apply Hp; now apply punctb_ok|].
  destruct (type_raisedb y) eqn:Et; [exfalso; apply Ht; now apply type_raisedb_ok|].
  rewrite (text_in_show_intro x _ Hx). some_r. reflexivity.
Qed.

Lemma lp_complete x y : wf puncts x -> punct_cat x ->
  exists r, remove_punctuation1 x y = Ok_ (Some r) /\ rcat r = y /\ labelled r l_lp y_lp.
Proof.
  intros Wx Hp. rewrite (rp1_eval x y Wx). apply punctb_ok in Hp. rewrite Hp. some_r. reflexivity.
Qed.
Lemma rp_complete x y : wf puncts y -> punct_cat y ->
  exists r, remove_punctuation2 x y = Ok_ (Some r) /\ rcat r = x /\ labelled r l_rp y_rp.
Proof.
  intros Wy Hp. rewrite (rp2_eval x y Wy). apply punctb_ok in Hp. rewrite Hp. some_r. reflexivity.
Qed.

(* ---------- lifted to apply_binary_rules (which erases 'nb' first) ---------- *)
Ltac inc := unfold combinators; cbn [In]; repeat (first [now left | right]).

Lemma not_bare_text b : wf puncts b -> ~ bare_N_NP b -> text_in (show b) (map show [c_N; c_NP]) = false.
Proof.
  intros W H. destruct (text_in (show b) (map show [c_N; c_NP])) eqn:E; [|reflexivity].
  apply (text_in_show b [c_N; c_NP] W eq_refl) in E. exfalso. apply H. destruct E as [<-|[<-|[]]]; [now left | now right].
Qed.

Theorem en_complete_fa a s b : wf puncts (Fun a s b) -> unary_sys (Fun a s b) -> fwd s ->
  exists rs r, apply_binary_rules (Fun a s b) b None = Ok_ rs /\ In r rs /\ rcat r = kc a /\ labelled r l_fa y_fa.
Proof.
  intros W U Hs. destruct (fa_complete (kc a) s (kc b) Hs) as (r & Hr & Hc & Hl).
  pose proof W as (Wa & _ & Wb). pose proof (proj1 (unary_sys_fun _ _ _) U) as [Ua Ub].
  destruct (lift_result forward_application (Fun a s b) b r) as (rs & Hrs & Hin); [inc | assumption | assumption | now split | exact Hr |].
  now exists rs, r.
Qed.

Theorem en_complete_ba a s b : wf puncts (Fun a s b) -> unary_sys (Fun a s b) -> bwd s ->
  exists rs r, apply_binary_rules b (Fun a s b) None = Ok_ rs /\ In r rs /\ rcat r = kc a /\ labelled r l_ba y_ba.
Proof.
  intros W U Hs. pose proof W as (Wa & _ & Wb). pose proof (proj1 (unary_sys_fun _ _ _) U) as [Ua Ub].
  assert (Hsp : eq_str (kc b) (show c_S_dcl) && eq_str (Fun (kc a) s (kc b)) (show c_Sem_Sem) = false).
  { destruct (eq_str (kc b) (show c_S_dcl)) eqn:E1; [|reflexivity]. destruct (eq_str (Fun (kc a) s (kc b)) (show c_Sem_Sem)) eqn:E2; [|reflexivity].
    exfalso. apply (eq_str_wf (kc b) c_S_dcl (clear_wf _ _ Wb) eq_refl) in E1.
    apply (eq_str_wf (Fun (kc a) s (kc b)) c_Sem_Sem (clear_wf _ (Fun a s b) W) eq_refl) in E2.
    unfold c_Sem_Sem in E2. injection E2 as Ea Es Eb. assert (X : c_S_dcl = c_S_em) by congruence. vm_compute in X. discriminate. }
  destruct (ba_complete (kc a) s (kc b) Hs Hsp) as (r & Hr & Hc & Hl).
  destruct (lift_result backward_application b (Fun a s b) r) as (rs & Hrs & Hin); [inc | assumption | assumption | now split | exact Hr |].
  now exists rs, r.
Qed.

Theorem en_complete_fc a s1 b s2 c : wf puncts (Fun a s1 b) -> wf puncts (Fun b s2 c) -> unary_sys (Fun a s1 b) -> unary_sys (Fun b s2 c) ->
  fwd s1 -> fwd s2 ->
  exists rs r, apply_binary_rules (Fun a s1 b) (Fun b s2 c) None = Ok_ rs /\ In r rs /\
               rcat r = (if cat_eqb (kc a) (kc b) then Fun (kc b) s2 (kc c) else Fun (kc a) sl (kc c)) /\ labelled r l_fc y_fc.
Proof.
  intros Wx Wy Ux Uy H1 H2. destruct (fc_complete (kc a) s1 (kc b) s2 (kc c) H1 H2) as (r & Hr & Hc & Hl).
  destruct (lift_result forward_composition (Fun a s1 b) (Fun b s2 c) r) as (rs & Hrs & Hin); [inc | assumption | assumption | now split | exact Hr |].
  now exists rs, r.
Qed.

Theorem en_complete_bx b s1 c a s2 : wf puncts (Fun b s1 c) -> wf puncts (Fun a s2 b) -> unary_sys (Fun b s1 c) -> unary_sys (Fun a s2 b) ->
  fwd s1 -> bwd s2 -> ~ bare_N_NP (kc b) ->
  exists rs r, apply_binary_rules (Fun b s1 c) (Fun a s2 b) None = Ok_ rs /\ In r rs /\
               rcat r = (if cat_eqb (kc a) (kc b) then Fun (kc b) s1 (kc c) else Fun (kc a) sl (kc c)) /\ labelled r l_bx y_bx.
Proof.
  intros Wx Wy Ux Uy H1 H2 Hb. pose proof Wx as (Wb & _ & _).
  destruct (bx_complete (kc b) s1 (kc c) (kc a) s2 H1 H2 (not_bare_text _ (clear_wf _ _ Wb) Hb)) as (r & Hr & Hc & Hl).
  destruct (lift_result backward_composition (Fun b s1 c) (Fun a s2 b) r) as (rs & Hrs & Hin); [inc | assumption | assumption | now split | exact Hr |].
  now exists rs, r.
Qed.

Theorem en_complete_gfc a s1 b s2 c s3 d : wf puncts (Fun a s1 b) -> wf puncts (Fun (Fun b s2 c) s3 d) ->
  unary_sys (Fun a s1 b) -> unary_sys (Fun (Fun b s2 c) s3 d) -> fwd s1 -> fwd s2 ->
  exists rs r, apply_binary_rules (Fun a s1 b) (Fun (Fun b s2 c) s3 d) None = Ok_ rs /\ In r rs /\
               rcat r = (if cat_eqb (kc a) (kc b) then Fun (Fun (kc b) s2 (kc c)) s3 (kc d) else Fun (Fun (kc a) sl (kc c)) s3 (kc d)) /\
               labelled r l_gfc y_fc.
Proof.
  intros Wx Wy Ux Uy H1 H2. destruct (gfc_complete (kc a) s1 (kc b) s2 (kc c) s3 (kc d) H1 H2) as (r & Hr & Hc & Hl).
  destruct (lift_result generalized_forward_composition (Fun a s1 b) (Fun (Fun b s2 c) s3 d) r) as (rs & Hrs & Hin);
    [inc | assumption | assumption | now split | exact Hr |].
  now exists rs, r.
Qed.

Theorem en_complete_gbx b s1 c s3 d a s2 : wf puncts (Fun (Fun b s1 c) s3 d) -> wf puncts (Fun a s2 b) ->
  unary_sys (Fun (Fun b s1 c) s3 d) -> unary_sys (Fun a s2 b) -> fwd s1 -> bwd s2 -> ~ bare_N_NP (kc b) ->
  exists rs r, apply_binary_rules (Fun (Fun b s1 c) s3 d) (Fun a s2 b) None = Ok_ rs /\ In r rs /\
               rcat r = (if cat_eqb (kc a) (kc b) then Fun (Fun (kc b) s1 (kc c)) s3 (kc d) else Fun (Fun (kc a) sl (kc c)) s3 (kc d)) /\
               labelled r l_gbx y_bx.
Proof.
  intros Wx Wy Ux Uy H1 H2 Hb. pose proof Wy as (_ & _ & Wb).
  destruct (gbx_complete (kc b) s1 (kc c) s3 (kc d) (kc a) s2 H1 H2 (not_bare_text _ (clear_wf _ _ Wb) Hb)) as (r & Hr & Hc & Hl).
  destruct (lift_result generalized_backward_composition (Fun (Fun b s1 c) s3 d) (Fun a s2 b) r) as (rs & Hrs & Hin);
    [inc | assumption | assumption | now split | exact Hr |].
  now exists rs, r.
Qed.

Lemma kc_listed x l : forallb (fun c => cat_eqb (kc c) c) l = true -> In x l -> kc x = x.
Proof. intros H Hin. rewrite forallb_forall in H. apply cat_eqb_eq. now apply H. Qed.

Theorem en_complete_conj x y : wf puncts y -> unary_sys y -> In x [c_comma; c_semi; c_conj] -> ~ punct_cat (kc y) -> ~ type_raised (kc y) ->
  exists rs r, apply_binary_rules x y None = Ok_ rs /\ In r rs /\ rcat r = Fun (kc y) bs (kc y) /\ labelled r l_conj y_conj.
Proof.
  intros Wy Uy Hx Hp Ht.
  destruct (conj_complete x (kc y) (clear_wf _ _ Wy) Hx Hp Ht) as (r & Hr & Hc & Hl).
  assert (Wx : wf puncts x) by (apply wfb_ok; destruct Hx as [<-|[<-|[<-|[]]]]; reflexivity).
  assert (Ux : unary_sys x) by (apply unary_sysb_ok; destruct Hx as [<-|[<-|[<-|[]]]]; reflexivity).
  rewrite <- (kc_listed x [c_comma; c_semi; c_conj] eq_refl Hx) in Hr.
  destruct (lift_result conjunction x y r) as (rs & Hrs & Hin); [inc | assumption | assumption | now split | exact Hr |].
  now exists rs, r.
Qed.

Theorem en_complete_lp x y : wf puncts x -> wf puncts y -> one_system x y -> punct_cat (kc x) ->
  exists rs r, apply_binary_rules x y None = Ok_ rs /\ In r rs /\ rcat r = kc y /\ labelled r l_lp y_lp.
Proof.
  intros Wx Wy Hs Hp. destruct (lp_complete (kc x) (kc y) (clear_wf _ _ Wx) Hp) as (r & Hr & Hc & Hl).
  destruct (lift_result remove_punctuation1 x y r) as (rs & Hrs & Hin); [inc | assumption | assumption | assumption | exact Hr |].
  now exists rs, r.
Qed.
Theorem en_complete_rp x y : wf puncts x -> wf puncts y -> one_system x y -> punct_cat (kc y) ->
  exists rs r, apply_binary_rules x y None = Ok_ rs /\ In r rs /\ rcat r = kc x /\ labelled r l_rp y_rp.
Proof.
  intros Wx Wy Hs Hp. destruct (rp_complete (kc x) (kc y) (clear_wf _ _ Wy) Hp) as (r & Hr & Hc & Hl).
  destruct (lift_result remove_punctuation2 x y r) as (rs & Hrs & Hin); [inc | assumption | assumption | assumption | exact Hr |].
  now exists rs, r.
Qed.
