(* _JaCCGLineReader on lines printed by ja_of, with or without the bank's annotations on category texts (C20, bank half). *)
From Coq Require Import List NArith Bool Lia Arith.
Import ListNotations.
Require Import Cat CatFacts CatRoundTrip Tree Ptb PtbEscape PtbProofs JaBank JaBankFacts.
Open Scope N_scope.

(* a leaf category may carry a suffix '_...' (no blank inside) *)
Definition suffix_ok (s : text) : Prop := s = [] \/ exists r, s = cUS :: r /\ has cSP r = false.

Section Bank.
Variable puncts : list text.
Variable normalize_table : list (text * text).
Variable combinators : list text.
Variable parse_cat : text -> option cat.
Hypothesis parse_show : forall c, wf puncts c -> parse_cat (show c) = Some c.
(* no rule symbol of the reader's set contains a blank, '{' or '_' (a computed fact about the generated table) *)
Hypothesis comb_ok : Forall (fun s => has cSP s = false /\ has cLC s = false /\ has cUS s = false) combinators.

Notation normalize := (normalize normalize_table).
Notation canon := (canon_ja normalize_table).
Notation tokens_of := (tokens_ja normalize_table).
Notation canon_word := (canon_word normalize_table).

(* ---------- bank texts of a tree: the printed line, possibly with annotations on the category texts ---------- *)
Inductive JaText : tree -> text -> Prop :=
| JT_leaf c tok ops sym w ct sfx :
    leaf_word tok = Some w -> Annot (show c) ct -> suffix_ok sfx ->
    JaText (Leaf c tok ops sym) ([cLC] ++ (ct ++ sfx) ++ [cSP] ++ leaf_fields (normalize w) tok ++ [cRC])
| JT_un c ops sym t1 ct s1 :
    Annot (show c) ct -> JaText t1 s1 ->
    JaText (Un c ops sym t1) ([cLC] ++ sym ++ [cSP] ++ ct ++ [cSP] ++ s1 ++ [cRC])
| JT_bin c ops sym hl l r ct sl sr :
    Annot (show c) ct -> JaText l sl -> JaText r sr ->
    JaText (Bin c ops sym hl l r) ([cLC] ++ sym ++ [cSP] ++ ct ++ [cSP] ++ sl ++ [cSP] ++ sr ++ [cRC]).

Lemma JaText_head t s : JaText t s -> exists s', s = cLC :: s'.
Proof. destruct 1; eexists; reflexivity. Qed.

(* ---------- the domain ---------- *)
(* what the reader needs of a leaf: '/' and '}' delimit the fields, the last field loses its last character *)
Definition wf_fields (nw : text) (tok : token) : Prop :=
  has cSL nw = false /\ has cRC nw = false /\
  has cSL (pos_of tok) = false /\ has cRC (pos_of tok) = false /\
  has cSL (infl_of tok) = false /\ has cRC (infl_of tok) = false /\ infl_of tok <> [].
Definition wf_fieldsb (nw : text) (tok : token) : bool :=
  negb (has cSL nw) && negb (has cRC nw) && negb (has cSL (pos_of tok)) && negb (has cRC (pos_of tok)) &&
  negb (has cSL (infl_of tok)) && negb (has cRC (infl_of tok)) && match infl_of tok with [] => false | _ => true end.

Fixpoint wf_ja (t : tree) : Prop :=
  match t with
  | Leaf c tok _ _ =>
      wf puncts c /\ has cLC (show c) = false /\ has cUS (show c) = false /\ text_in (show c) combinators = false /\
      exists w, leaf_word tok = Some w /\ wf_fields (normalize w) tok
  | Un c _ sym t1 => wf puncts c /\ has cLC (show c) = false /\ text_in sym combinators = true /\ wf_ja t1
  | Bin c _ sym _ l r => wf puncts c /\ has cLC (show c) = false /\ text_in sym combinators = true /\ wf_ja l /\ wf_ja r
  end.
Fixpoint wf_jab (t : tree) : bool :=
  match t with
  | Leaf c tok _ _ =>
      wfb puncts c && negb (has cLC (show c)) && negb (has cUS (show c)) && negb (text_in (show c) combinators) &&
      match leaf_word tok with Some w => wf_fieldsb (normalize w) tok | None => false end
  | Un c _ sym t1 => wfb puncts c && negb (has cLC (show c)) && text_in sym combinators && wf_jab t1
  | Bin c _ sym _ l r => wfb puncts c && negb (has cLC (show c)) && text_in sym combinators && wf_jab l && wf_jab r
  end.

Lemma wf_fieldsb_ok nw tok : wf_fieldsb nw tok = true -> wf_fields nw tok.
Proof.
  unfold wf_fieldsb, wf_fields. rewrite !andb_true_iff, !negb_true_iff. intros [[[[[[H1 H2] H3] H4] H5] H6] H7].
  repeat split; try assumption. intros E. now rewrite E in H7.
Qed.

Lemma wf_jab_ok t : wf_jab t = true -> wf_ja t.
Proof.
  induction t as [c tok ops sym | c ops sym t1 IH | c ops sym hl l IHl r IHr]; cbn [wf_jab wf_ja]; rewrite ?andb_true_iff, ?negb_true_iff.
  - intros [[[[H1 H2] H3] H4] H5]. repeat split; try assumption; [now apply wfb_ok|].
    destruct (leaf_word tok) as [w|]; [|discriminate]. exists w. split; [reflexivity | now apply wf_fieldsb_ok].
  - intros [[[H1 H2] H3] H4]. repeat split; try assumption; [now apply wfb_ok | now apply IH].
  - intros [[[[H1 H2] H3] H4] H5]. repeat split; try assumption; [now apply wfb_ok | now apply IHl | now apply IHr].
Qed.

(* same categories, shape, rule symbols of inner nodes, and normalize'd words *)
Fixpoint same_ja (a b : tree) : Prop :=
  match a, b with
  | Leaf c tok _ _, Leaf c' tok' _ _ => c' = c /\ leaf_word tok' = option_map normalize (leaf_word tok)
  | Un c _ sym t, Un c' _ sym' t' => c' = c /\ sym' = sym /\ same_ja t t'
  | Bin c _ sym _ l r, Bin c' _ sym' _ l' r' => c' = c /\ sym' = sym /\ same_ja l l' /\ same_ja r r'
  | _, _ => False
  end.

Lemma canon_same_ja t : wf_ja t -> same_ja t (canon t).
Proof.
  induction t as [c tok ops sym | c ops sym t1 IH | c ops sym hl l IHl r IHr]; cbn [wf_ja canon_ja same_ja].
  - intros (_ & _ & _ & _ & w & Hw & _). split; [reflexivity|]. rewrite Hw. cbn [option_map].
    unfold JaBank.canon_word, tok_get_default. unfold leaf_word in Hw. now rewrite Hw.
  - intros (_ & _ & _ & Ht). repeat split; now apply IH.
  - intros (_ & _ & _ & Hl & Hr). repeat split; [now apply IHl | now apply IHr].
Qed.

(* ---------- the printer produces a bank text ---------- *)
Lemma print_ja_text t : wf_ja t -> exists s, print_ja normalize_table t = Some s /\ JaText t s.
Proof.
  induction t as [c tok ops sym | c ops sym t1 IH | c ops sym hl l IHl r IHr]; cbn [wf_ja print_ja].
  - intros (_ & _ & _ & _ & w & Hw & _). rewrite Hw. eexists; split; [reflexivity|].
    pose proof (JT_leaf c tok ops sym w (show c) [] Hw (Annot_refl _) (or_introl eq_refl)) as H. now rewrite app_nil_r in H.
  - intros (_ & _ & _ & Ht). destruct (IH Ht) as (s1 & -> & H1). eexists; split; [reflexivity|].
    apply JT_un; [apply Annot_refl | assumption].
  - intros (_ & _ & _ & Hl & Hr). destruct (IHl Hl) as (sl & -> & H1). destruct (IHr Hr) as (sr & -> & H2). eexists; split; [reflexivity|].
    apply JT_bin; [apply Annot_refl | assumption | assumption].
Qed.

(* ---------- the leaf category text is not taken for a rule symbol ---------- *)
Lemma leaf_cat_not_comb c ct sfx : Annot (show c) ct -> suffix_ok sfx -> text_in (show c) combinators = false ->
  text_in (ct ++ sfx) combinators = false.
Proof.
  intros Ha Hs Hc. destruct (text_in (ct ++ sfx) combinators) eqn:E; [|reflexivity]. exfalso.
  apply text_in_In in E. rewrite Forall_forall in comb_ok. destruct (comb_ok _ E) as (_ & HnoL & HnoU).
  apply has_false_app in HnoL as [HnoL _]. apply has_false_app in HnoU as [_ HnoU].
  assert (sfx = []) as -> by (destruct Hs as [-> | (r & -> & _)]; [reflexivity | cbn in HnoU; discriminate]).
  rewrite app_nil_r in E. destruct (Annot_same_or_brace _ _ Ha) as [-> | Hb]; [|congruence].
  apply text_in_In in E. congruence.
Qed.

Lemma comb_noblank sym : text_in sym combinators = true -> has cSP sym = false.
Proof. intros H. apply text_in_In in H. rewrite Forall_forall in comb_ok. now destruct (comb_ok _ H). Qed.

(* ---------- fuel ---------- *)
Fixpoint bound (t : tree) : nat :=
  match t with Leaf _ _ _ _ => 1%nat | Un _ _ _ t1 => (3 + bound t1)%nat | Bin _ _ _ _ l r => (4 + bound l + bound r)%nat end.

Lemma bound_pos t : (1 <= bound t)%nat.
Proof. destruct t; cbn; lia. Qed.

Lemma JaText_length t s : JaText t s -> (bound t <= 4 * length s)%nat.
Proof.
  induction 1 as [c tok ops sym w ct sfx Hw Ha Hs | c ops sym t1 ct s1 Ha H1 IH1 | c ops sym hl l r ct sl sr Ha H1 IH1 H2 IH2];
    cbn [bound]; rewrite ?app_length; cbn [length]; rewrite ?app_length; cbn [length]; lia.
Qed.

(* ---------- unfolding equations of the mutual fixpoint ---------- *)
Section Run.
Variable line : text.
Notation node := (node combinators parse_cat line).
Notation kids := (kids combinators parse_cat line).

Lemma node_eq f i toks :
  node (S f) (i, toks) =
  if is_tree_at combinators line i then
    if check line cLC i then
      let '(raw, i1) := next line cSP i in
      let ops := tl raw in
      let '(raw2, i2) := next line cSP i1 in
      match parse_cat (dep_sub raw2) with
      | None => None
      | Some c =>
          if check line cLC i2 then
            match kids f (i2, toks) [] with
            | None => None
            | Some (children, (i3, toks3)) =>
                let '(_, i4) := next line cRC i3 in
                match children with
                | [x] => Some (Un c ops ops x, (i4, toks3))
                | [l; r] => Some (Bin c ops ops true l r, (i4, toks3))
                | _ => None
                end
            end
          else None
      end
    else None
  else parse_leaf parse_cat line (i, toks).
Proof. reflexivity. Qed.

Lemma kids_eq f i toks acc :
  kids (S f) (i, toks) acc =
  match peek line i with
  | None => None
  | Some ch =>
      if N.eqb ch cRC then Some (rev acc, (i, toks))
      else match node f (i, toks) with
           | None => None
           | Some (t, (j, toks')) =>
               match peek line j with
               | None => None
               | Some ch2 => kids f ((if N.eqb ch2 cSP then snd (next line cSP j) else j), toks') (t :: acc)
               end
           end
  end.
Proof. reflexivity. Qed.

Lemma node_leaf f i toks : is_tree_at combinators line i = false -> node (S f) (i, toks) = parse_leaf parse_cat line (i, toks).
Proof. intros H. rewrite node_eq. now rewrite H. Qed.

Lemma kids_stop f i toks acc : peek line i = Some cRC -> kids (S f) (i, toks) acc = Some (rev acc, (i, toks)).
Proof. intros H. rewrite kids_eq. rewrite H. now rewrite N.eqb_refl. Qed.

Lemma kids_step f i toks acc ch t j toks' ch2 :
  peek line i = Some ch -> N.eqb ch cRC = false -> node f (i, toks) = Some (t, (j, toks')) -> peek line j = Some ch2 ->
  kids (S f) (i, toks) acc = kids f ((if N.eqb ch2 cSP then snd (next line cSP j) else j), toks') (t :: acc).
Proof. intros H1 H2 H3 H4. rewrite kids_eq. rewrite H1, H2, H3, H4. reflexivity. Qed.

Lemma node_tree f i toks raw i1 raw2 i2 c :
  is_tree_at combinators line i = true -> check line cLC i = true -> next line cSP i = (raw, i1) -> next line cSP i1 = (raw2, i2) ->
  parse_cat (dep_sub raw2) = Some c -> check line cLC i2 = true ->
  node (S f) (i, toks) =
  match kids f (i2, toks) [] with
  | None => None
  | Some (children, (i3, toks3)) =>
      match children with
      | [x] => Some (Un c (tl raw) (tl raw) x, (snd (next line cRC i3), toks3))
      | [l; r] => Some (Bin c (tl raw) (tl raw) true l r, (snd (next line cRC i3), toks3))
      | _ => None
      end
  end.
Proof.
  intros H1 H2 H3 H4 H5 H6. rewrite node_eq. rewrite H1, H2, H3, H4, H5, H6.
  destruct (kids f (i2, toks) []) as [[children [i3 toks3]]|]; [|reflexivity].
  destruct (next line cRC i3) as [x0 i4]. cbn [snd]. reflexivity.
Qed.
End Run.

(* ---------- the reader on a bank text ---------- *)
Ltac norm_app := repeat first [rewrite <- app_assoc | progress cbn [app]].
Ltac line_eq H := rewrite H; norm_app; reflexivity.

Lemma leaf_fields_split nw tok : wf_fields nw tok ->
  split_on cSL (removelast (leaf_fields nw tok)) [] = [nw; nw; pos_of tok; removelast (infl_of tok)] /\ has cRC (leaf_fields nw tok) = false.
Proof.
  intros (H1 & H2 & H3 & H4 & H5 & H6 & H7). unfold leaf_fields. split.
  - rewrite !app_assoc. rewrite removelast_app by assumption. rewrite <- !app_assoc. cbn [app].
    rewrite split_on_app by assumption. rewrite split_on_app by assumption. rewrite split_on_app by assumption.
    rewrite split_on_nochar by now apply has_removelast. reflexivity.
  - rewrite !has_app. rewrite H2, H4, H6. reflexivity.
Qed.

Lemma read_node t s : JaText t s -> wf_ja t -> forall line pre post fuel toks,
  line = pre ++ s ++ post -> (bound t <= fuel)%nat ->
  node combinators parse_cat line fuel (length pre, toks) = Some (canon t, (length (pre ++ s), rev (tokens_of t) ++ toks)).
Proof.
  induction 1 as [c tok ops sym w ct sfx Hw Ha Hs | c ops sym t1 ct s1 Ha H1 IH1 | c ops sym hl l r ct sl sr Ha Hl IHl Hr IHr];
    cbn [wf_ja]; intros Hwf line pre post fuel toks Hline Hfuel.
  - (* leaf *)
    destruct Hwf as (Hc & HnoL & HnoU & Hncomb & w' & Hw' & Hf). rewrite Hw in Hw'. injection Hw' as <-.
    destruct fuel as [|f]; [cbn in Hfuel; lia|].
    pose proof (show_noblank puncts c Hc) as Hnb. pose proof (Annot_noblank _ _ Ha Hnb) as Hctb. pose proof (Annot_nous _ _ Ha HnoU) as Hctu.
    assert (Hsb : has cSP sfx = false) by (destruct Hs as [-> | (r & -> & Hr)]; [reflexivity | exact Hr]).
    assert (Hraw : has cSP (cLC :: ct ++ sfx) = false) by (rewrite has_cons, has_app, Hctb, Hsb; reflexivity).
    set (F := leaf_fields (normalize w) tok) in *.
    assert (L1 : line = pre ++ cLC :: (ct ++ sfx) ++ cSP :: F ++ cRC :: post) by line_eq Hline.
    rewrite node_leaf by (rewrite (is_tree_at_spec line combinators pre cLC (ct ++ sfx) _ L1 Hraw); exact (leaf_cat_not_comb c ct sfx Ha Hs Hncomb)).
    unfold parse_leaf. rewrite (check_at line pre cLC _ L1).
    assert (L2 : line = pre ++ (cLC :: ct ++ sfx) ++ cSP :: F ++ cRC :: post) by line_eq Hline.
    rewrite (next_at line pre _ cSP _ L2 Hraw). cbn [tl].
    assert (Hcut : match index_of cUS (ct ++ sfx) with Some k => firstn k (ct ++ sfx) | None => ct ++ sfx end = ct).
    { destruct Hs as [-> | (r & -> & Hr)].
      - rewrite app_nil_r. now rewrite index_of_none.
      - rewrite index_of_app by assumption. rewrite firstn_app, Nat.sub_diag, firstn_all. cbn [firstn]. apply app_nil_r. }
    rewrite Hcut. rewrite (dep_sub_annot _ _ Ha HnoL). rewrite (parse_show c Hc).
    destruct (leaf_fields_split (normalize w) tok Hf) as [Hsplit HFc]. fold F in Hsplit, HFc.
    assert (L3 : line = (pre ++ (cLC :: ct ++ sfx) ++ [cSP]) ++ F ++ cRC :: post) by line_eq Hline.
    rewrite (next_at line _ F cRC post L3 HFc). rewrite Hsplit.
    cbn [canon_ja tokens_ja rev app]. unfold JaBank.canon_word. fold (leaf_word tok). unfold tok_get_default.
    unfold leaf_word in Hw. rewrite Hw. do 3 f_equal. f_equal. norm_app. reflexivity.
  - (* unary node *)
    destruct Hwf as (Hc & HnoL & Hsym & Hwf1).
    pose proof (comb_noblank sym Hsym) as Hsb. pose proof (show_noblank puncts c Hc) as Hnb. pose proof (Annot_noblank _ _ Ha Hnb) as Hctb.
    destruct (JaText_head _ _ H1) as (s1' & Es1).
    cbn [bound] in Hfuel. destruct fuel as [|[|[|f]]]; try lia.
    assert (Hraw : has cSP (cLC :: sym) = false) by (rewrite has_cons, Hsb; reflexivity).
    assert (L1 : line = pre ++ cLC :: sym ++ cSP :: ct ++ cSP :: s1 ++ cRC :: post) by line_eq Hline.
    assert (L2 : line = pre ++ (cLC :: sym) ++ cSP :: ct ++ cSP :: s1 ++ cRC :: post) by line_eq Hline.
    set (pre1 := pre ++ (cLC :: sym) ++ [cSP]).
    assert (L3 : line = pre1 ++ ct ++ cSP :: s1 ++ cRC :: post) by (unfold pre1; line_eq Hline).
    set (pre2 := pre1 ++ ct ++ [cSP]).
    assert (L4 : line = pre2 ++ s1 ++ cRC :: post) by (unfold pre2, pre1; line_eq Hline).
    assert (L4' : line = pre2 ++ cLC :: s1' ++ cRC :: post) by (rewrite L4, Es1; reflexivity).
    assert (L5 : line = (pre2 ++ s1) ++ cRC :: post) by (rewrite L4; now rewrite <- app_assoc).
    assert (L5' : line = (pre2 ++ s1) ++ [] ++ cRC :: post) by exact L5.
    rewrite (node_tree line (S (S f)) (length pre) toks (cLC :: sym) (length pre1) ct (length pre2) c).
    2: { rewrite (is_tree_at_spec line combinators pre cLC sym _ L1 Hraw). exact Hsym. }
    2: { exact (check_at line pre cLC _ L1). }
    2: { exact (next_at line pre _ cSP _ L2 Hraw). }
    2: { exact (next_at line pre1 ct cSP _ L3 Hctb). }
    2: { rewrite (dep_sub_annot _ _ Ha HnoL). now apply parse_show. }
    2: { exact (check_at line pre2 cLC _ L4'). }
    rewrite (kids_step line (S f) (length pre2) toks [] cLC (canon t1) (length (pre2 ++ s1)) (rev (tokens_of t1) ++ toks) cRC).
    2: { exact (peek_at line pre2 cLC _ L4'). }
    2: { reflexivity. }
    2: { apply (IH1 Hwf1 line pre2 (cRC :: post)); [exact L4 | lia]. }
    2: { exact (peek_at line _ cRC _ L5). }
    change (N.eqb cRC cSP) with false. cbn iota.
    rewrite (kids_stop line f _ _ _ (peek_at line _ cRC _ L5)). cbn [rev app].
    rewrite (next_at line _ [] cRC post L5' eq_refl). cbn [snd tl canon_ja tokens_ja].
    do 3 f_equal. f_equal. unfold pre2, pre1. norm_app. reflexivity.
  - (* binary node *)
    destruct Hwf as (Hc & HnoL & Hsym & Hwfl & Hwfr).
    pose proof (comb_noblank sym Hsym) as Hsb. pose proof (show_noblank puncts c Hc) as Hnb. pose proof (Annot_noblank _ _ Ha Hnb) as Hctb.
    destruct (JaText_head _ _ Hl) as (sl' & Esl). destruct (JaText_head _ _ Hr) as (sr' & Esr).
    cbn [bound] in Hfuel. pose proof (bound_pos l) as Hbl. pose proof (bound_pos r) as Hbr.
    destruct fuel as [|[|[|[|f]]]]; try lia.
    assert (Hraw : has cSP (cLC :: sym) = false) by (rewrite has_cons, Hsb; reflexivity).
    assert (L1 : line = pre ++ cLC :: sym ++ cSP :: ct ++ cSP :: sl ++ cSP :: sr ++ cRC :: post) by line_eq Hline.
    assert (L2 : line = pre ++ (cLC :: sym) ++ cSP :: ct ++ cSP :: sl ++ cSP :: sr ++ cRC :: post) by line_eq Hline.
    set (pre1 := pre ++ (cLC :: sym) ++ [cSP]).
    assert (L3 : line = pre1 ++ ct ++ cSP :: sl ++ cSP :: sr ++ cRC :: post) by (unfold pre1; line_eq Hline).
    set (pre2 := pre1 ++ ct ++ [cSP]).
    assert (L4 : line = pre2 ++ sl ++ cSP :: sr ++ cRC :: post) by (unfold pre2, pre1; line_eq Hline).
    assert (L4' : line = pre2 ++ cLC :: sl' ++ cSP :: sr ++ cRC :: post) by (rewrite L4, Esl; reflexivity).
    assert (L5 : line = (pre2 ++ sl) ++ cSP :: sr ++ cRC :: post) by (rewrite L4; now rewrite <- app_assoc).
    assert (L5' : line = (pre2 ++ sl) ++ [] ++ cSP :: sr ++ cRC :: post) by exact L5.
    set (pre3 := (pre2 ++ sl) ++ [] ++ [cSP]).
    assert (L6 : line = pre3 ++ sr ++ cRC :: post) by (unfold pre3; rewrite L5; norm_app; reflexivity).
    assert (L6' : line = pre3 ++ cLC :: sr' ++ cRC :: post) by (rewrite L6, Esr; reflexivity).
    assert (L7 : line = (pre3 ++ sr) ++ cRC :: post) by (rewrite L6; now rewrite <- app_assoc).
    assert (L7' : line = (pre3 ++ sr) ++ [] ++ cRC :: post) by exact L7.
    rewrite (node_tree line (S (S (S f))) (length pre) toks (cLC :: sym) (length pre1) ct (length pre2) c).
    2: { rewrite (is_tree_at_spec line combinators pre cLC sym _ L1 Hraw). exact Hsym. }
    2: { exact (check_at line pre cLC _ L1). }
    2: { exact (next_at line pre _ cSP _ L2 Hraw). }
    2: { exact (next_at line pre1 ct cSP _ L3 Hctb). }
    2: { rewrite (dep_sub_annot _ _ Ha HnoL). now apply parse_show. }
    2: { exact (check_at line pre2 cLC _ L4'). }
    rewrite (kids_step line (S (S f)) (length pre2) toks [] cLC (canon l) (length (pre2 ++ sl)) (rev (tokens_of l) ++ toks) cSP).
    2: { exact (peek_at line pre2 cLC _ L4'). }
    2: { reflexivity. }
    2: { apply (IHl Hwfl line pre2 (cSP :: sr ++ cRC :: post)); [exact L4 | lia]. }
    2: { exact (peek_at line _ cSP _ L5). }
    rewrite N.eqb_refl. rewrite (next_at line _ [] cSP _ L5' eq_refl). cbn [snd]. fold pre3.
    rewrite (kids_step line (S f) (length pre3) _ _ cLC (canon r) (length (pre3 ++ sr)) (rev (tokens_of r) ++ rev (tokens_of l) ++ toks) cRC).
    2: { exact (peek_at line pre3 cLC _ L6'). }
    2: { reflexivity. }
    2: { apply (IHr Hwfr line pre3 (cRC :: post)); [exact L6 | lia]. }
    2: { exact (peek_at line _ cRC _ L7). }
    change (N.eqb cRC cSP) with false. cbn iota.
    rewrite (kids_stop line f _ _ _ (peek_at line _ cRC _ L7)). cbn [rev app].
    rewrite (next_at line _ [] cRC post L7' eq_refl). cbn [snd tl canon_ja tokens_ja].
    rewrite rev_app_distr. rewrite <- (app_assoc (rev (tokens_of r))).
    do 3 f_equal. f_equal. unfold pre3, pre2, pre1. norm_app. reflexivity.
Qed.

(* the whole line (anything may follow it: the reader does not look) *)
Theorem read_ja_text t s post : JaText t s -> wf_ja t ->
  read_ja combinators parse_cat (s ++ post) = Some (canon t, tokens_of t).
Proof.
  intros Ht Hwf. unfold read_ja.
  assert (Hb : (bound t <= fuel_of (s ++ post))%nat).
  { pose proof (JaText_length t s Ht). unfold fuel_of. rewrite app_length. lia. }
  pose proof (read_node t s Ht Hwf (s ++ post) [] post (fuel_of (s ++ post)) [] eq_refl Hb) as H.
  cbn [length app] in H. rewrite H. rewrite app_nil_r, rev_involutive. reflexivity.
Qed.

Theorem read_print_ja t : wf_ja t ->
  exists s, print_ja normalize_table t = Some s /\ read_ja combinators parse_cat s = Some (canon t, tokens_of t).
Proof.
  intros Hwf. destruct (print_ja_text t Hwf) as (s & Hs & Ht). exists s. split; [exact Hs|].
  rewrite <- (app_nil_r s). now apply read_ja_text.
Qed.
End Bank.
