(* C14, English half - rule application is total; the seen-rule gate only removes; 'nb' marks do not matter; the unary
   rules return exactly the configured targets, in order.  Property theorems only (collected by P_C14.v).
   Purity and reproducibility are structural here: `GenEn.apply_binary_rules` is a Gallina function of its arguments
   (no state, no hash order - the loop over shared variables follows the insertion order of the first dictionary). *)
From Coq Require Import List NArith Bool.
Import ListNotations.
Require Import Cat CatFacts Unify GramPrims GenTables GenEn EnSpec EnLemmas EnSound EnPure.
Open Scope N_scope.

Notation kc := (clear_features GenEn.key_clear).
Notation sc := (clear_features GenEn.seen_clear).

(* never an exception on well-formed categories of the English feature system, whatever the seen-rule set *)
Theorem C14_en_total : forall x y seen, wf puncts x -> wf puncts y -> one_system x y ->
  exists rs, GenEn.apply_binary_rules x y seen = Ok_ rs.
Proof. exact en_total. Qed.

(* with a set of seen rules: exactly the unrestricted result when the pair (X and nb erased) is in the set, else nothing *)
Theorem C14_en_seen_filter : forall x y S,
  GenEn.apply_binary_rules x y (Some S) = if seen_mem (sc x, sc y) S then GenEn.apply_binary_rules x y None else Ok_ [].
Proof. exact en_seen_filter. Qed.

(* results do not depend on 'nb' marks *)
Theorem C14_en_nb_invariant : forall x y, GenEn.apply_binary_rules x y None = GenEn.apply_binary_rules (kc x) (kc y) None.
Proof. exact en_nb_invariant. Qed.

(* unary rules: never an exception (any category, any table) ... *)
Theorem C14_en_unary_total : forall x t, exists rs, GenEn.apply_unary_rules x t = Ok_ rs.
Proof. exact en_unary_total. Qed.

(* ... and exactly the targets configured for x, in order (none when x is not a key); label 'tr' exactly when x is an
   atomic NP/PP and the target is type-raised, otherwise 'lex'; symbol <un>; head left *)
Theorem C14_en_unary_exact : forall x t,
  exists rs, GenEn.apply_unary_rules x t = Ok_ rs /\ map rcat rs = targets x t /\ Forall (unary_result x) rs.
Proof. exact en_unary_exact. Qed.

Example seen_clear_is_X_nb : GenEn.seen_clear = [[88]; [110; 98]].        (* 'X', 'nb' *)
Proof. reflexivity. Qed.
Example ex_unary :
  let NP := Atom n_NP FNone in let S := Atom n_S FNone in let N := Atom n_N FNone in
  let tr := Fun S sl (Fun S bs NP) in
  GenEn.apply_unary_rules NP [(N, [NP]); (NP, [tr; Fun NP sl NP])] =
  Ok_ [{| rcat := tr; op_string := l_tr; op_symbol := y_un; head_is_left := true |};
       {| rcat := Fun NP sl NP; op_string := l_lex; op_symbol := y_un; head_is_left := true |}].
Proof. vm_compute. reflexivity. Qed.
