(* Theorems about the implementation-level model, obtained through the refinement (AStarRefine.v) from the
   abstract invariants (AStarOpt.v), plus: goal items are complete derivations, leaves are the tokens in order,
   stored scores are the model scores, n-best order, the beam. *)
From Coq Require Import List ZArith Lia Bool Arith Sorted Permutation.
Import ListNotations.
Require Import AStar AStarLoss AStarOpt AStarImpl AStarRefine.
Open Scope Z_scope.

Section Thms.
Context {C : Type}.
Variable ceqb : C -> C -> bool.
Hypothesis ceqb_eq : forall a b, ceqb a b = true <-> a = b.
Variable n : nat.
Variable tag : nat -> C -> Z.
Variable dep : nat -> nat -> Z.
Variable adm : nat -> list C.
Variable besttag bestdep : nat -> Z.
Variable bin : C -> C -> list (C * bool).
Variable un : C -> list C.
Variable isroot : C -> bool.
Variable pen : Z.
Variable max_step nbest : nat.
Hypothesis pen_nonneg : 0 <= pen.
Hypothesis tag_le : forall i c, (i < n)%nat -> In c (adm i) -> tag i c <= besttag i.
Hypothesis dep_le : forall i j, dep i j <= bestdep i.

Notation deriv := (@deriv C).
Notation jitem := (@jitem C).
Notation jstate := (@jstate C).
Notation licensed := (licensed n adm bin un).
Notation complete := (complete n adm bin un isroot).
Notation score := (score tag dep pen).
Notation dins := (dins tag dep pen).
Notation rspec := (remove_spec ceqb).
Notation jreach dd := (jreach ceqb n tag dep adm besttag bestdep bin un isroot pen dd max_step nbest).
Notation jstep dd := (jstep ceqb n dep besttag bestdep bin un isroot pen dd).
Notation reach dd := (AStar.reach ceqb n tag dep adm besttag bestdep bin un isroot pen dd true rspec max_step nbest).
Notation step dd := (AStar.step ceqb n bin un isroot dd rspec).
Notation prio := (AStar.prio n tag dep besttag bestdep pen true).
Notation valid_pop := (AStar.valid_pop n tag dep besttag bestdep pen true).
Notation Wf := (Wf n adm bin un isroot).
Notation item_ok := (item_ok n adm bin un isroot).
Notation abs_state := (@abs_state C).
Notation abs_item := (@abs_item C).
Notation fields_ok := (fields_ok n tag dep besttag bestdep pen).
Notation JOK := (JOK n tag dep besttag bestdep pen).

Let rsub := remove_spec_sub ceqb n tag dep adm besttag bestdep.
Let rkeep := remove_spec_keep ceqb ceqb_eq n tag dep adm besttag bestdep.
Let ddec := deriv_eq_dec ceqb ceqb_eq.

(* ---------- well-formedness for both modes ---------- *)
Section Mode.
Variable hdir : bool.
Hypothesis uniform : forall x y c hl, In (c, hl) (bin x y) -> hl = hdir.

Lemma reach_wf dd st : (dd = true \/ dd = false) -> reach dd st -> Wf st.
Proof.
  intros [->| ->] H.
  - exact (proj1 (reach_inv ceqb ceqb_eq n tag dep adm besttag bestdep bin un isroot pen rspec rsub rkeep max_step nbest
                            pen_nonneg tag_le dep_le hdir uniform st H)).
  - exact (proj1 (reachN_inv ceqb n tag dep adm besttag bestdep bin un isroot pen rspec rsub rkeep max_step nbest ddec st H)).
Qed.
End Mode.

(* in n-best mode no head-uniformity is needed *)
Lemma reachN_wf st : reach false st -> Wf st.
Proof. intros H. exact (proj1 (reachN_inv ceqb n tag dep adm besttag bestdep bin un isroot pen rspec rsub rkeep max_step nbest ddec st H)). Qed.

(* ---------- C02: goal items are complete licensed derivations ---------- *)
Definition GOK (st : @state C) : Prop := forall g, In g (goal st) -> complete g.

Lemma step_gok dd a st : Wf st -> GOK st -> In a (agenda st) -> GOK (step dd a st).
Proof.
  intros (Hag & _ & _) Hg Ha. unfold AStar.step. destruct (Hag a Ha) as [Hl Hf].
  destruct (ifin a) eqn:Ef.
  - intros g Hin. simpl in Hin. apply in_app_iff in Hin as [Hin|[<-|[]]]; [now apply Hg|].
    destruct (Hf eq_refl) as (H1 & H2 & H3). repeat split; assumption.
  - destruct (dd && existsb _ _); exact Hg.
Qed.

Lemma reach_gok_T hdir (uniform : forall x y c hl, In (c, hl) (bin x y) -> hl = hdir) st : reach true st -> GOK st.
Proof.
  induction 1 as [|st a Hr IH Hrun [Ha _]]; [intros g []|].
  apply step_gok; try assumption. exact (reach_wf hdir uniform true st (or_introl eq_refl) Hr).
Qed.
Lemma reach_gok_N st : reach false st -> GOK st.
Proof.
  induction 1 as [|st a Hr IH Hrun [Ha _]]; [intros g []|].
  apply step_gok; try assumption. now apply reachN_wf.
Qed.

(* leaves of a licensed derivation: exactly the tokens of its span, in order, each with an admitted tag *)
Fixpoint dleaves (d : deriv) : list (nat * C) :=
  match d with DLeaf i c => [(i, c)] | DUn _ _ d => dleaves d | DBin _ _ _ l r => dleaves l ++ dleaves r end.

Lemma licensed_leaves d : licensed d ->
  map fst (dleaves d) = seq (dstart d) (dlen d) /\ (forall i c, In (i, c) (dleaves d) -> (i < n)%nat /\ In c (adm i)).
Proof.
  induction 1 as [i c Hi Hc | k c d Hd IH Hn Hs | k c hl l r Hl IHl Hr IHr Hadj Hn]; simpl.
  - split; [reflexivity|]. intros j c' [E|[]]. inversion E; subst. now split.
  - exact IH.
  - destruct IHl as [El Al], IHr as [Er Ar]. split.
    + rewrite map_app, El, Er, Hadj. now rewrite seq_app.
    + intros i c' Hin. apply in_app_iff in Hin as [Hin|Hin]; auto.
Qed.

Lemma complete_leaves d : complete d -> map fst (dleaves d) = seq 0 n /\ (forall i c, In (i, c) (dleaves d) -> In c (adm i)).
Proof.
  intros (Hl & Hs & Hn & _). destruct (licensed_leaves d Hl) as [E A]. rewrite Hs, Hn in E. split; [exact E|].
  intros i c Hin. now apply A.
Qed.

Lemma licensed_no_unary_at_root k c d : licensed (DUn k c d) -> n = 1%nat \/ dlen d <> n.
Proof. intros H. inversion H; subst. assumption. Qed.

(* ---------- results on the implementation-level model ---------- *)
Theorem goal_items_complete_T hdir (uniform : forall x y c hl, In (c, hl) (bin x y) -> hl = hdir) st g :
  jreach true st -> In g (jgoal st) -> complete (jder g).
Proof.
  intros Hr Hg. destruct (refinement ceqb n tag dep adm besttag bestdep bin un isroot pen true max_step nbest st Hr) as [Ha _].
  apply (reach_gok_T hdir uniform _ Ha). simpl. now apply in_map.
Qed.
Theorem goal_items_complete_N st g : jreach false st -> In g (jgoal st) -> complete (jder g).
Proof.
  intros Hr Hg. destruct (refinement ceqb n tag dep adm besttag bestdep bin un isroot pen false max_step nbest st Hr) as [Ha _].
  apply (reach_gok_N _ Ha). simpl. now apply in_map.
Qed.

(* C09: the score of a goal item is the model score of its derivation; inside scores of chart items likewise *)
Theorem goal_score dd st g : jreach dd st -> In g (jgoal st) -> jprio g = score (jder g).
Proof.
  intros Hr Hg. destruct (refinement ceqb n tag dep adm besttag bestdep bin un isroot pen dd max_step nbest st Hr) as [_ (_ & _ & Hgo)].
  destruct (Hgo g Hg) as [(Hi & Ho & _) Hf]. rewrite Hf in Hi, Ho. unfold jprio, AStarOpt.score. lia.
Qed.
Theorem chart_fields dd st a : jreach dd st -> In a (jchart st) ->
  jin a = dins (jder a) /\ jhead a = dhead (jder a) /\ jstart a = dstart (jder a) /\ jlen a = dlen (jder a).
Proof.
  intros Hr Ha. destruct (refinement ceqb n tag dep adm besttag bestdep bin un isroot pen dd max_step nbest st Hr) as [_ (_ & Hch & _)].
  destruct (Hch a Ha) as [(Hi & _ & Hs & Hl & Hh) Hf]. rewrite Hf in Hi. tauto.
Qed.

(* C01 *)
Section OneBest.
Variable hdir : bool.
Hypothesis uniform : forall x y c hl, In (c, hl) (bin x y) -> hl = hdir.

Theorem impl_first_goal_optimal st a :
  jreach true st -> jgoal st = [] -> jvalid_pop a st -> jfin a = true ->
  complete (jder a) /\ jprio a = score (jder a) /\ forall d, complete d -> score d <= jprio a.
Proof.
  intros Hr Hg Hv Hf.
  destruct (refinement ceqb n tag dep adm besttag bestdep bin un isroot pen true max_step nbest st Hr) as [Ha Hj].
  pose proof (valid_pop_abs n tag dep besttag bestdep pen a st Hj Hv) as Hv'.
  pose proof Hj as (Hag & _). pose proof Hv as [Hin _]. pose proof (Hag a Hin) as Hfa.
  pose proof (reach_wf hdir uniform true _ (or_introl eq_refl) Ha) as (Hwag & _).
  destruct Hv' as [Hin' Hmax'].
  destruct (Hwag _ Hin') as [Hl Hfin]. simpl in Hfin. destruct (Hfin Hf) as (H1 & H2 & H3).
  assert (Hsc : jprio a = score (jder a)).
  { destruct Hfa as (Hi & Ho & _). rewrite Hf in Hi, Ho. unfold jprio, AStarOpt.score. lia. }
  split; [repeat split; assumption|]. split; [exact Hsc|].
  intros d Hd. rewrite Hsc.
  refine (first_goal_optimal ceqb ceqb_eq n tag dep adm besttag bestdep bin un isroot pen rspec rsub rkeep max_step nbest
            pen_nonneg tag_le dep_le hdir uniform (abs_state st) (abs_item a) Ha _ (conj Hin' Hmax') Hf d Hd).
  simpl. now rewrite Hg.
Qed.

Theorem impl_fail_only_if_none st :
  jreach true st -> jagenda st = [] -> jgoal st = [] -> forall d, ~ complete d.
Proof.
  intros Hr Hag Hg.
  destruct (refinement ceqb n tag dep adm besttag bestdep bin un isroot pen true max_step nbest st Hr) as [Ha _].
  refine (fail_only_if_none ceqb ceqb_eq n tag dep adm besttag bestdep bin un isroot pen rspec rsub rkeep max_step nbest
            pen_nonneg tag_le dep_le hdir uniform (abs_state st) Ha _ _); simpl; [now rewrite Hag | now rewrite Hg].
Qed.

Theorem impl_pops_monotone st a a' :
  jreach true st -> jrunning max_step nbest st -> jvalid_pop a st -> jvalid_pop a' (jstep true a st) -> jprio a' <= jprio a.
Proof.
  intros Hr Hrun Hv Hv'.
  destruct (refinement ceqb n tag dep adm besttag bestdep bin un isroot pen true max_step nbest st Hr) as [Ha Hj].
  assert (Hr' : jreach true (jstep true a st)) by (constructor; assumption).
  destruct (refinement ceqb n tag dep adm besttag bestdep bin un isroot pen true max_step nbest _ Hr') as [Ha' Hj'].
  pose proof (valid_pop_abs n tag dep besttag bestdep pen a st Hj Hv) as Hva.
  pose proof (valid_pop_abs n tag dep besttag bestdep pen a' _ Hj' Hv') as Hva'.
  rewrite (step_abs ceqb n tag dep besttag bestdep bin un isroot pen true a st Hj (proj1 Hv)) in Hva'.
  rewrite (jprio_prio n tag dep besttag bestdep pen a) by (apply (proj1 Hj); apply Hv).
  rewrite (jprio_prio n tag dep besttag bestdep pen a') by (apply (proj1 Hj'); apply Hv').
  exact (pops_monotone ceqb ceqb_eq n tag dep adm besttag bestdep bin un isroot pen rspec rsub rkeep max_step nbest
           pen_nonneg tag_le dep_le hdir uniform (abs_state st) (abs_item a) (abs_item a') Ha Hva Hva').
Qed.
End OneBest.

(* C10 *)
Theorem impl_goal_best_remaining st a :
  jreach false st -> jvalid_pop a st -> jfin a = true ->
  complete (jder a) /\ jprio a = score (jder a) /\
  forall d, complete d -> ~ In d (map (@jder C) (jgoal st)) -> score d <= jprio a.
Proof.
  intros Hr Hv Hf.
  destruct (refinement ceqb n tag dep adm besttag bestdep bin un isroot pen false max_step nbest st Hr) as [Ha Hj].
  pose proof (valid_pop_abs n tag dep besttag bestdep pen a st Hj Hv) as Hv'.
  pose proof Hj as (Hag & _). pose proof Hv as [Hin _]. pose proof (Hag a Hin) as Hfa.
  pose proof (reachN_wf _ Ha) as (Hwag & _).
  destruct (Hwag _ (proj1 Hv')) as [Hl Hfin]. simpl in Hfin. destruct (Hfin Hf) as (H1 & H2 & H3).
  assert (Hsc : jprio a = score (jder a)).
  { destruct Hfa as (Hi & Ho & _). rewrite Hf in Hi, Ho. unfold jprio, AStarOpt.score. lia. }
  split; [repeat split; assumption|]. split; [exact Hsc|].
  intros d Hd Hnin. rewrite Hsc.
  exact (goal_best_remaining ceqb n tag dep adm besttag bestdep bin un isroot pen rspec rsub rkeep max_step nbest
           pen_nonneg tag_le dep_le ddec (abs_state st) (abs_item a) Ha Hv' Hf d Hd Hnin).
Qed.

(* priorities never increase along a run, in n-best mode too; hence the goal list is popped best first *)
Notation iloss := (iloss tag dep besttag bestdep pen).
Notation Kc := (K n besttag bestdep).

Lemma prio_iloss a : item_ok a -> prio a = Kc - iloss a.
Proof. intros H. rewrite (prio_item n tag dep adm besttag bestdep bin un isroot pen a H). unfold AStarOpt.iloss. reflexivity. Qed.

Definition Bound (st : @state C) : Prop :=
  forall g b, In g (goal st) -> In b (agenda st) -> prio b <= score g.

Lemma step_bound dd a st : Wf st -> GOK st -> Bound st -> valid_pop a st -> Bound (step dd a st).
Proof.
  intros Hwf Hgok Hb [Ha Hmax]. pose proof Hwf as (Hag & Hch & _). destruct (Hag a Ha) as [Hl Hf].
  unfold AStar.step. destruct (ifin a) eqn:Ef.
  - intros g b Hg Hin. simpl in *. apply rsub in Hin. apply in_app_iff in Hg as [Hg|[<-|[]]]; [now apply Hb|].
    specialize (Hmax b Hin). destruct (Hf eq_refl) as (H1 & H2 & _).
    assert (prio a = score (ider a)) as <-; [|assumption].
    destruct a as [f d]. simpl in *. subst f. reflexivity.
  - destruct (dd && existsb _ _) eqn:Ed.
    + intros g b Hg Hin. simpl in *. apply rsub in Hin. now apply Hb.
    + intros g b Hg Hin. simpl in *. apply in_app_iff in Hin as [Hin|Hin]; [|apply rsub in Hin; now apply Hb].
      pose proof (pushes_loss n tag dep adm besttag bestdep bin un isroot pen pen_nonneg tag_le dep_le (ider a) (chart st) Hl Hch b Hin) as Hlo.
      pose proof (pushes_ok n adm bin un isroot (ider a) (chart st) Hl Hch b Hin) as Hok.
      specialize (Hb g a Hg Ha). rewrite (prio_iloss b Hok). rewrite (prio_iloss a (Hag a Ha)) in Hb.
      unfold AStarOpt.iloss in Hb at 1. rewrite Ef in Hb. lia.
Qed.

Definition GSorted (st : @state C) : Prop := StronglySorted (fun x y => score y <= score x) (goal st).

Lemma ssorted_app_one {A} (R : A -> A -> Prop) l x : StronglySorted R l -> (forall y, In y l -> R y x) -> StronglySorted R (l ++ [x]).
Proof.
  induction 1 as [|y l Hs IH Hf]; intros H; simpl.
  - constructor; constructor.
  - constructor.
    + apply IH. intros z Hz. apply H. now right.
    + apply Forall_app. split; [assumption|]. constructor; [apply H; now left | constructor].
Qed.

Lemma step_sorted dd a st : Wf st -> Bound st -> GSorted st -> valid_pop a st -> GSorted (step dd a st).
Proof.
  intros (Hag & _) Hb Hs [Ha _]. unfold GSorted, AStar.step. destruct (Hag a Ha) as [Hl Hf].
  destruct (ifin a) eqn:Ef.
  - simpl. apply ssorted_app_one; [exact Hs|]. intros g Hg. specialize (Hb g a Hg Ha).
    assert (prio a = score (ider a)) as <-; [|assumption].
    destruct a as [f d]. simpl in *. subst f. reflexivity.
  - destruct (dd && existsb _ _); exact Hs.
Qed.

Lemma reachN_sorted st : reach false st -> GOK st /\ Bound st /\ GSorted st.
Proof.
  induction 1 as [|st a Hr (IH1 & IH2 & IH3) Hrun Hv].
  - split; [intros g []|]. split; [intros g b []|]. constructor.
  - pose proof (reachN_wf _ Hr) as Hwf. split; [apply step_gok; try assumption; apply Hv|].
    split; [now apply step_bound | now apply step_sorted].
Qed.

Theorem impl_goals_sorted st : jreach false st -> StronglySorted (fun x y => jprio y <= jprio x) (jgoal st).
Proof.
  intros Hr.
  destruct (refinement ceqb n tag dep adm besttag bestdep bin un isroot pen false max_step nbest st Hr) as [Ha (_ & _ & Hgo)].
  destruct (reachN_sorted _ Ha) as (_ & _ & Hs). unfold GSorted in Hs. simpl in Hs.
  assert (Hsc : forall g, In g (jgoal st) -> jprio g = score (jder g)) by (intros g Hg; now apply (goal_score false st)).
  revert Hs Hsc. generalize (jgoal st). induction l as [|x l IH]; intros Hs Hsc; [constructor|].
  simpl in Hs. inversion Hs as [|? ? Hs' Hf]; subst. constructor.
  - apply IH; [assumption|]. intros g Hg. apply Hsc. now right.
  - rewrite Forall_map in Hf. rewrite Forall_forall in *. intros y Hy. rewrite (Hsc x (or_introl eq_refl)), (Hsc y (or_intror Hy)). now apply Hf.
Qed.
End Thms.

(* ---------- the beam ---------- *)
Section BeamFacts.
Variable use_beta : bool.
Variable theta : Z.

Lemma insert_pair_in a l x : In x (insert_pair a l) <-> a = x \/ In x l.
Proof.
  induction l as [|b r IH]; simpl; [tauto|]. destruct (pair_ltb b a); simpl; [tauto|]. rewrite IH. tauto.
Qed.
Lemma sort_pairs_in l x : In x (sort_pairs l) <-> In x l.
Proof. induction l as [|a l IH]; simpl; [tauto|]. unfold sort_pairs in *. simpl. rewrite insert_pair_in, IH. tauto. Qed.
Lemma insert_pair_length a l : length (insert_pair a l) = S (length l).
Proof. induction l as [|b r IH]; simpl; [reflexivity|]. destruct (pair_ltb b a); simpl; congruence. Qed.

Definition pair_geb (a b : Z * nat) : bool := negb (pair_ltb a b).   (* a >= b *)
Lemma pair_ltb_total a b : pair_ltb a b = false -> pair_ltb b a = false -> a = b.
Proof.
  destruct a as [x i], b as [y j]. unfold pair_ltb. simpl. intros H1 H2.
  apply orb_false_iff in H1 as [A1 A2]. apply orb_false_iff in H2 as [B1 B2].
  apply Z.ltb_ge in A1, B1. assert (x = y) by lia. subst. rewrite Z.eqb_refl in A2, B2. simpl in *.
  apply Nat.ltb_ge in A2, B2. f_equal. lia.
Qed.
Lemma pair_ltb_trans a b c : pair_ltb a b = true -> pair_ltb b c = true -> pair_ltb a c = true.
Proof.
  destruct a as [x i], b as [y j], c as [z k]. unfold pair_ltb. simpl. rewrite !orb_true_iff, !andb_true_iff, !Z.ltb_lt, !Z.eqb_eq, !Nat.ltb_lt. lia.
Qed.
Lemma pair_ltb_asym a b : pair_ltb a b = true -> pair_ltb b a = false.
Proof.
  destruct a as [x i], b as [y j]. unfold pair_ltb. simpl. rewrite orb_true_iff, andb_true_iff, Z.ltb_lt, Z.eqb_eq, Nat.ltb_lt.
  intros H. apply orb_false_iff. rewrite andb_false_iff, Z.ltb_ge, Z.eqb_neq, Nat.ltb_ge. lia.
Qed.

(* sorted: every earlier element is not smaller than every later one *)
Definition psorted := StronglySorted (fun a b => pair_ltb a b = false).
Lemma insert_pair_sorted a l : psorted l -> psorted (insert_pair a l).
Proof.
  induction 1 as [|b r Hs IH Hf]; simpl; [repeat constructor|].
  destruct (pair_ltb b a) eqn:E.
  - constructor; [now constructor|]. constructor; [now apply pair_ltb_asym|].
    rewrite Forall_forall in *. intros x Hx. specialize (Hf x Hx).
    destruct (pair_ltb a x) eqn:E2; [|reflexivity]. rewrite (pair_ltb_trans b a x E E2) in Hf. discriminate.
  - constructor; [exact IH|]. rewrite Forall_forall in *. intros x Hx. apply insert_pair_in in Hx as [<-|Hx]; auto.
Qed.
Lemma sort_pairs_sorted l : psorted (sort_pairs l).
Proof. induction l as [|a l IH]; [constructor|]. unfold sort_pairs in *. simpl. now apply insert_pair_sorted. Qed.
Lemma sort_pairs_length l : length (sort_pairs l) = length l.
Proof. induction l as [|a l IH]; [reflexivity|]. unfold sort_pairs in *. simpl. now rewrite insert_pair_length, IH. Qed.

Lemma combine_seq_in (row : list Z) s : forall off c,
  In (s, c) (combine row (seq off (length row))) <-> (off <= c < off + length row)%nat /\ nth (c - off) row 0 = s.
Proof.
  induction row as [|x row IH]; intros off c; simpl.
  - split; [tauto|]. intros [H _]. lia.
  - rewrite IH. split.
    + intros [E|[H1 H2]].
      * inversion E; subst. split; [lia|]. now rewrite Nat.sub_diag.
      * split; [lia|]. replace (c - off)%nat with (S (c - S off)) by lia. exact H2.
    + intros [H1 H2]. destruct (Nat.eq_dec c off) as [->|Hne].
      * left. rewrite Nat.sub_diag in H2. now subst.
      * right. split; [lia|]. replace (c - off)%nat with (S (c - S off)) in H2 by lia. exact H2.
Qed.

Lemma row_pairs_in row s c : In (s, c) (row_pairs row) <-> (c < length row)%nat /\ nth c row 0 = s.
Proof.
  unfold row_pairs. rewrite combine_seq_in. rewrite Nat.sub_0_r. split; intros [H1 H2]; (split; [lia|assumption]).
Qed.

Lemma row_best_ge row s c : In (s, c) (row_pairs row) -> s <= row_best row.
Proof.
  intros Hin. unfold row_best. pose proof (sort_pairs_sorted (row_pairs row)) as Hs.
  pose proof (proj2 (sort_pairs_in (row_pairs row) (s, c)) Hin) as Hin'. clear Hin.
  destruct (sort_pairs (row_pairs row)) as [|p r]; [destruct Hin'|].
  destruct Hin' as [->|Hin]; [simpl; lia|].
  inversion Hs as [|? ? _ Hf]; subst. rewrite Forall_forall in Hf. specialize (Hf _ Hin).
  destruct p as [x i]. unfold pair_ltb in Hf. simpl in *. apply orb_false_iff in Hf as [Hf _]. apply Z.ltb_ge in Hf. exact Hf.
Qed.

Lemma take_firstn best k l : exists m, (m <= k)%nat /\ take_while_passing use_beta theta best k l = firstn m l /\
  (forall p, In p (firstn m l) -> passes use_beta theta (fst p) best = true) /\
  (m = k \/ m = length l \/ exists p, nth_error l m = Some p /\ passes use_beta theta (fst p) best = false).
Proof.
  revert l. induction k as [|k IH]; intros l.
  - exists 0%nat. simpl. split; [lia|]. split; [reflexivity|]. split; [intros p []|]. now left.
  - destruct l as [|p r]; simpl.
    + exists 0%nat. split; [lia|]. split; [reflexivity|]. split; [intros p []|]. right. now left.
    + destruct (passes use_beta theta (fst p) best) eqn:E.
      * destruct (IH r) as (m & Hm & Ht & Hall & Hend). exists (S m). split; [lia|]. simpl. split; [now rewrite Ht|].
        split; [intros q [<-|Hq]; auto|].
        destruct Hend as [->|[->|Hx]]; [now left | right; now left | right; right; exact Hx].
      * exists 0%nat. split; [lia|]. split; [reflexivity|]. split; [intros q []|]. right. right. exists p. now split.
Qed.

(* C16: the candidates of a token are a prefix of its score-sorted tags: at most [pruning] of them, every one
   passes the threshold, and the prefix stops early only at the end of the row or at the first tag that fails *)
Theorem beam_spec pruning row :
  exists m, (m <= pruning)%nat /\
    beam use_beta theta pruning row = map snd (firstn m (sort_pairs (row_pairs row))) /\
    (forall p, In p (firstn m (sort_pairs (row_pairs row))) -> passes use_beta theta (fst p) (row_best row) = true) /\
    (m = pruning \/ m = length row \/
     exists p, nth_error (sort_pairs (row_pairs row)) m = Some p /\ passes use_beta theta (fst p) (row_best row) = false).
Proof.
  destruct (take_firstn (row_best row) pruning (sort_pairs (row_pairs row))) as (m & Hm & Ht & Hall & Hend).
  exists m. split; [exact Hm|]. unfold beam. rewrite Ht. split; [reflexivity|]. split; [exact Hall|].
  destruct Hend as [H|[H|H]]; [now left | right; left | right; now right].
  rewrite H, sort_pairs_length. unfold row_pairs. rewrite combine_length, seq_length. lia.
Qed.

Lemma firstn_in {A} m (l : list A) x : In x (firstn m l) -> In x l.
Proof. revert l; induction m as [|m IH]; intros [|y l]; simpl; try tauto. intros [->|H]; auto. Qed.

Theorem beam_member pruning row c : In c (beam use_beta theta pruning row) ->
  (c < length row)%nat /\ nth c row 0 <= row_best row /\ passes use_beta theta (nth c row 0) (row_best row) = true.
Proof.
  destruct (beam_spec pruning row) as (m & _ & -> & Hall & _). intros Hin.
  apply in_map_iff in Hin as [[s c'] [E Hin]]. simpl in E. subst c'.
  pose proof (Hall _ Hin) as Hp. apply firstn_in in Hin. apply (proj1 (sort_pairs_in _ _)) in Hin.
  pose proof (row_best_ge row s c Hin) as Hle. apply row_pairs_in in Hin as [Hc Hs]. subst s. simpl in Hp. tauto.
Qed.

Theorem beam_length pruning row : (length (beam use_beta theta pruning row) <= pruning)%nat.
Proof.
  destruct (beam_spec pruning row) as (m & Hm & -> & _). rewrite map_length, firstn_length. lia.
Qed.
End BeamFacts.
