(* Robustness of the A* optimality theorem (AStarOpt.v) against an inexact agenda: if every pop is within a slack
   delta of the best exact priority on the agenda (AStarApprox.reach_d), the first goal popped in 1-best mode is
   within  delta * (nodes(d) + 1)  of every complete derivation d; in n-best mode within delta; failure still means
   that no parse exists; delta = 0 gives back the exact theorems; the bound is attained (examples). *)
From Coq Require Import List ZArith Lia Bool Arith.
Import ListNotations.
Require Import AStar AStarLoss AStarOpt AStarImpl AStarRefine AStarThms AStarReplay AStarCheck AStarProblem AStarApprox.
Open Scope Z_scope.

(* ------------------------------------------------------------------ facts that need no hypothesis on the scores *)
Section General.
Context {C : Type}.
Variable ceqb : C -> C -> bool.
Variable n : nat.
Variable tag : nat -> C -> Z.
Variable dep : nat -> nat -> Z.
Variable adm : nat -> list C.
Variable besttag bestdep : nat -> Z.
Variable bin : C -> C -> list (C * bool).
Variable un : C -> list C.
Variable isroot : C -> bool.
Variable pen : Z.
Variable dedup plus : bool.
Variable remove_one : @item C -> list (@item C) -> list (@item C).
Variable max_step nbest : nat.

Notation state := (@state C).
Notation reach := (reach ceqb n tag dep adm besttag bestdep bin un isroot pen dedup plus remove_one max_step nbest).
Notation reach_d := (reach_d ceqb n tag dep adm besttag bestdep bin un isroot pen dedup plus remove_one max_step nbest).
Notation valid_pop := (valid_pop n tag dep besttag bestdep pen plus).
Notation valid_pop_d := (valid_pop_d n tag dep besttag bestdep pen plus).
Notation run_d := (run_d ceqb n tag dep besttag bestdep bin un isroot pen dedup plus remove_one max_step nbest).

Lemma valid_pop_d_zero a st : valid_pop_d 0 a st <-> valid_pop a st.
Proof.
  unfold AStarApprox.valid_pop_d, AStar.valid_pop. split; intros [Ha H]; (split; [exact Ha|]); intros b Hb; specialize (H b Hb); lia.
Qed.

Theorem reach_d_zero st : reach_d 0 st <-> reach st.
Proof.
  split.
  - induction 1 as [|st a Hr IH Hrun Hv]; [constructor|]. constructor; [exact IH|exact Hrun|now apply valid_pop_d_zero].
  - induction 1 as [|st a Hr IH Hrun Hv]; [constructor|]. constructor; [exact IH|exact Hrun|now apply valid_pop_d_zero].
Qed.

Lemma valid_pop_d_mono d1 d2 a st : d1 <= d2 -> valid_pop_d d1 a st -> valid_pop_d d2 a st.
Proof. intros Hle [Ha H]. split; [exact Ha|]. intros b Hb. specialize (H b Hb). lia. Qed.

Theorem reach_d_mono d1 d2 st : d1 <= d2 -> reach_d d1 st -> reach_d d2 st.
Proof.
  intros Hle. induction 1 as [|st a Hr IH Hrun Hv]; [constructor|].
  constructor; [exact IH|exact Hrun|exact (valid_pop_d_mono d1 d2 a st Hle Hv)].
Qed.

(* the executable run checker is sound *)
Lemma running_b_ok (st : state) : running_b max_step nbest st = true -> running max_step nbest st.
Proof.
  unfold running_b, running. intros H. apply andb_true_iff in H as [H H3]. apply andb_true_iff in H as [H1 H2].
  apply Nat.ltb_lt in H1, H2. repeat split; try assumption. intros E. rewrite E in H3. discriminate.
Qed.

Lemma run_d_reach delta ks : forall st st', reach_d delta st -> run_d delta ks st = Some st' -> reach_d delta st'.
Proof.
  induction ks as [|k ks IH]; intros st st' Hr H; simpl in H.
  - inversion H; subst. exact Hr.
  - destruct (nth_error (agenda st) k) as [a|] eqn:En; [|discriminate].
    destruct (running_b max_step nbest st && valid_pop_d_b n tag dep besttag bestdep pen plus delta a st) eqn:E; [|discriminate].
    apply andb_true_iff in E as [E1 E2]. apply IH in H; [exact H|].
    constructor; [exact Hr|now apply running_b_ok|]. split; [eapply nth_error_In; exact En|].
    unfold valid_pop_d_b in E2. rewrite forallb_forall in E2. intros b Hb. apply Z.leb_le. now apply E2.
Qed.
End General.

(* ------------------------------------------------------------------ 1-best mode *)
Section ApproxOpt.
Context {C : Type}.
Variable ceqb : C -> C -> bool.
Hypothesis ceqb_eq : forall a b, ceqb a b = true <-> a = b.
Variable n : nat.
Variable tag : nat -> C -> Z.
Variable dep : nat -> nat -> Z.
Variable adm : nat -> list C.
Variable besttag bestdep : nat -> Z.
Variable bin : C -> C -> list (C * bool).
Variable un : C -> list C.
Variable isroot : C -> bool.
Variable pen : Z.
Variable remove_one : @item C -> list (@item C) -> list (@item C).
Hypothesis remove_one_sub : forall a l x, In x (remove_one a l) -> In x l.
Hypothesis remove_one_keep : forall a l x, In x l -> x = a \/ In x (remove_one a l).
Variable max_step nbest : nat.

Hypothesis pen_nonneg : 0 <= pen.
Hypothesis tag_le : forall i c, (i < n)%nat -> In c (adm i) -> tag i c <= besttag i.
Hypothesis dep_le : forall i j, dep i j <= bestdep i.
Variable hdir : bool.
Hypothesis uniform : forall x y c hl, In (c, hl) (bin x y) -> hl = hdir.
Variable delta : Z.
Hypothesis delta_nonneg : 0 <= delta.

Notation deriv := (@deriv C).
Notation item := (@item C).
Notation state := (@state C).
Notation licensed := (licensed n adm bin un).
Notation loss := (loss tag dep besttag bestdep pen).
Notation iloss := (iloss tag dep besttag bestdep pen).
Notation prio := (prio n tag dep besttag bestdep pen true).
Notation step := (step ceqb n bin un isroot true remove_one).
Notation init := (init n adm).
Notation reach_d := (reach_d ceqb n tag dep adm besttag bestdep bin un isroot pen true true remove_one max_step nbest delta).
Notation valid_pop_d := (valid_pop_d n tag dep besttag bestdep pen true delta).
Notation pushes := (pushes n bin un isroot).
Notation Kc := (K n besttag bestdep).
Notation root_loss := (root_loss dep bestdep).
Notation Wf := (Wf n adm bin un isroot).
Notation item_ok := (item_ok n adm bin un isroot).
Notation FinInv := (FinInv n isroot).
Notation complete := (complete n adm bin un isroot).
Notation score := (score tag dep pen).

Let Lstep_ok := step_ok ceqb n adm bin un isroot remove_one remove_one_sub.
Let Lpushes_ok := pushes_ok n adm bin un isroot.
Let Lpushes_loss := pushes_loss n tag dep adm besttag bestdep bin un isroot pen pen_nonneg tag_le dep_le.
Let Lprio_item := prio_item n tag dep adm besttag bestdep bin un isroot pen.
Let Lkey_head := key_head n adm bin un hdir uniform.
Let Lspan_ok := span_ok n adm bin un.
Let Lchild_loss_le := child_loss_le n tag dep adm besttag bestdep bin un pen pen_nonneg tag_le dep_le.
Let Lchild_licensed := child_licensed n tag adm besttag bin un isroot tag_le.
Let Lstep_fin := step_fin ceqb n bin un isroot remove_one remove_one_keep.
Let Lscore_loss := score_loss n tag dep adm besttag bestdep bin un isroot pen.
Let Lkey_eqb_iff := key_eqb_iff ceqb ceqb_eq.

Definition sz (d : deriv) : Z := Z.of_nat (dsize d).
Arguments sz : simpl never.
Lemma sz_un k c d : sz (DUn k c d) = sz d + 1.
Proof. unfold sz. cbn [dsize]. lia. Qed.
Lemma sz_bin k c hl l r : sz (DBin k c hl l r) = sz l + sz r + 1.
Proof. unfold sz. cbn [dsize]. lia. Qed.
Lemma sz_pos d : 1 <= sz d.
Proof. unfold sz. destruct d; cbn [dsize]; lia. Qed.
Lemma dsz_nonneg d : 0 <= delta * sz d.
Proof. pose proof (sz_pos d). apply Z.mul_nonneg_nonneg; lia. Qed.

(* M_d: a chart item was popped at a loss at most delta above anything still on the agenda *)
Definition Mono_d (st : state) : Prop := forall e b, In e (chart st) -> In b (agenda st) -> loss e <= iloss b + delta.

Lemma valid_pop_d_loss a st : Wf st -> valid_pop_d a st -> forall b, In b (agenda st) -> iloss a <= iloss b + delta.
Proof.
  intros (Hag & _ & _) [Ha Hmax] b Hb. specialize (Hmax b Hb).
  rewrite (Lprio_item a (Hag a Ha)), (Lprio_item b (Hag b Hb)) in Hmax. unfold AStarOpt.iloss. lia.
Qed.

Lemma step_mono_d a st : Wf st -> Mono_d st -> valid_pop_d a st -> Mono_d (step a st).
Proof.
  intros Hwf HM Hv. pose proof Hwf as (Hag & Hch & _). pose proof Hv as [Ha _].
  pose proof (valid_pop_d_loss a st Hwf Hv) as Hmin.
  unfold AStar.step. destruct (ifin a) eqn:Ef.
  - intros e b He Hb. simpl in *. apply remove_one_sub in Hb. auto.
  - destruct (true && existsb (key_eqb ceqb (ider a)) (chart st)) eqn:Ed.
    + intros e b He Hb. simpl in *. apply remove_one_sub in Hb. auto.
    + assert (Hla : iloss a = loss (ider a)) by (unfold AStarOpt.iloss; rewrite Ef; lia).
      intros e b He Hb. simpl in *. apply in_app_iff in Hb. destruct He as [<-|He].
      * destruct Hb as [Hb|Hb].
        -- pose proof (Lpushes_loss (ider a) (chart st) (proj1 (Hag a Ha)) Hch b Hb). lia.
        -- apply remove_one_sub in Hb. rewrite <- Hla. auto.
      * destruct Hb as [Hb|Hb].
        -- pose proof (Lpushes_loss (ider a) (chart st) (proj1 (Hag a Ha)) Hch b Hb). specialize (HM e a He Ha). lia.
        -- apply remove_one_sub in Hb. auto.
Qed.

(* frontier invariant with accumulated slack: a derivation with k nodes is represented in the chart by an item of
   the same key at most k * delta worse, or on the agenda by an item at most (k - 1) * delta worse *)
Definition Done_d (st : state) (d : deriv) : Prop :=
  exists e, In e (chart st) /\ key e = key d /\ loss e <= loss d + delta * sz d.
Definition Rep_d (st : state) (d : deriv) : Prop :=
  exists a, In a (agenda st) /\ ifin a = false /\ key (ider a) = key d /\ loss (ider a) <= loss d + delta * (sz d - 1).
Definition Inv_d (st : state) : Prop :=
  forall d, licensed d -> (forall c, In c (children d) -> Done_d st c) -> Done_d st d \/ Rep_d st d.

Lemma done_d_dec st d : Done_d st d \/ ~ Done_d st d.
Proof.
  unfold Done_d. induction (chart st) as [|e ch IH].
  - right. intros [e [[] _]].
  - destruct IH as [[e' [He' R]]|IH]; [left; exists e'; split; [right; exact He'|exact R]|].
    destruct (key_eqb ceqb e d) eqn:Ek.
    + apply Lkey_eqb_iff in Ek. destruct (Z_le_dec (loss e) (loss d + delta * sz d)) as [Hl|Hl].
      * left. exists e. split; [left; reflexivity|auto].
      * right. intros [e' [[<-|He'] [Hk Hl']]]; [contradiction|]. apply IH. exists e'. auto.
    + right. intros [e' [[<-|He'] [Hk Hl']]].
      * apply Lkey_eqb_iff in Hk. congruence.
      * apply IH. exists e'. auto.
Qed.

Lemma init_inv_d : Inv_d init.
Proof.
  intros d Hd Hc. right. destruct Hd as [i c Hi Hin | k c d Hd Hn Hs | k c hl l r Hl Hr Hadj Hn].
  - exists (nf (DLeaf i c)). split; [|split; [reflexivity|split; [reflexivity|]]].
    + simpl. apply in_flat_map. exists i. split; [apply in_seq; lia|]. apply in_map_iff. exists c. auto.
    + simpl. unfold sz. cbn [dsize]. lia.
  - destruct (Hc d (or_introl eq_refl)) as [e [[] _]].
  - destruct (Hc l (or_introl eq_refl)) as [e [[] _]].
Qed.

Lemma done_d_mono_chart st st' d : (forall e, In e (chart st) -> In e (chart st')) -> Done_d st d -> Done_d st' d.
Proof. intros H [e [He R]]. exists e. auto. Qed.

Lemma step_inv_d a st : Wf st -> Mono_d st -> Inv_d st -> valid_pop_d a st -> Inv_d (step a st).
Proof.
  intros Hwf HM HI Hv. pose proof Hwf as (Hag & Hch & _). pose proof Hv as [Ha _].
  pose proof (Hag a Ha) as [Hla _].
  unfold AStar.step. destruct (ifin a) eqn:Ef.
  - (* final item popped: chart unchanged, only a (final) leaves the agenda *)
    intros d Hd Hc. simpl in *. destruct (HI d Hd Hc) as [HD|[b (Hb & Hbf & Hk & Hl)]]; [left; exact HD|].
    right. exists b. repeat split; try assumption. simpl.
    destruct (remove_one_keep a _ b Hb) as [->|Hin]; [congruence|exact Hin].
  - destruct (true && existsb (key_eqb ceqb (ider a)) (chart st)) eqn:Ed.
    + (* duplicate key: dropped; the chart item of that key is at most delta worse than the dropped one *)
      simpl in Ed. apply existsb_exists in Ed as [e [He Hke]]. apply Lkey_eqb_iff in Hke.
      intros d Hd Hc. simpl in *. destruct (HI d Hd Hc) as [HD|[b (Hb & Hbf & Hk & Hl)]]; [left; exact HD|].
      destruct (remove_one_keep a _ b Hb) as [->|Hin].
      * left. exists e. split; [exact He|]. split; [congruence|].
        specialize (HM e a He Ha). unfold AStarOpt.iloss in HM. rewrite Ef in HM. lia.
      * right. exists b. repeat split; assumption.
    + (* a enters the chart *)
      remember (ider a) as da eqn:Eda.
      set (st' := {| agenda := pushes da (chart st) ++ remove_one a (agenda st); chart := da :: chart st; goal := goal st; nsteps := S (nsteps st) |}).
      assert (Hsub : forall e, In e (chart st) -> In e (chart st')) by (intros e He; right; exact He).
      intros d Hd Hc.
      assert (Hcase : (forall c, In c (children d) -> Done_d st c) \/
                      exists c, In c (children d) /\ ~ Done_d st c /\ key da = key c /\ loss da <= loss c + delta * sz c).
      { assert (Hnew : forall c, Done_d st' c -> Done_d st c \/ (key da = key c /\ loss da <= loss c + delta * sz c)).
        { intros c [e [[<-|He] [Hk Hl]]]; [right; auto|left; exists e; auto]. }
        destruct d as [i c | k c d1 | k c hl l r]; simpl in *.
        - left. intros c0 [].
        - destruct (Hnew d1 (Hc d1 (or_introl eq_refl))) as [H|[H1 H2]].
          + left. intros c0 [<-|[]]. exact H.
          + destruct (done_d_dec st d1) as [H|H]; [left; intros c0 [<-|[]]; exact H|].
            right. exists d1. auto.
        - destruct (done_d_dec st l) as [HL|HL]; destruct (done_d_dec st r) as [HR|HR].
          + left. intros c0 [<-|[<-|[]]]; assumption.
          + right. exists r. destruct (Hnew r (Hc r (or_intror (or_introl eq_refl)))) as [H|[H1 H2]]; [contradiction|auto].
          + right. exists l. destruct (Hnew l (Hc l (or_introl eq_refl))) as [H|[H1 H2]]; [contradiction|auto].
          + right. exists l. destruct (Hnew l (Hc l (or_introl eq_refl))) as [H|[H1 H2]]; [contradiction|auto]. }
      assert (Hda_in : In da (chart st')) by (left; reflexivity).
      assert (Hpush : forall x, In x (pushes da (chart st)) -> In x (agenda st')) by (intros x Hx; simpl; apply in_app_iff; left; exact Hx).
      destruct Hcase as [Hall|[c (Hcin & Hnd & Hkc & Hlc)]].
      { (* nothing new below d *)
        destruct (HI d Hd Hall) as [HD|[b (Hb & Hbf & Hk & Hl)]].
        + left. eapply done_d_mono_chart; eauto.
        + destruct (remove_one_keep a _ b Hb) as [->|Hin].
          * left. exists da. split; [exact Hda_in|]. rewrite <- Eda in Hk, Hl. split; [exact Hk|].
            pose proof (sz_pos d). lia.
          * right. exists b. repeat split; try assumption. simpl. apply in_app_iff. right. exact Hin. }
      { (* the child c has just become done through da: the parent is pushed *)
        right.
        assert (Hother : forall c', In c' (children d) -> key c' <> key da ->
                  exists e, In e (chart st) /\ key e = key c' /\ loss e <= loss c' + delta * sz c').
        { intros c' Hc' Hne. destruct (Hc c' Hc') as [e [[<-|He] [Hk Hl]]]; [congruence|]. exists e. auto. }
        inversion Hd as [i c0 Hi Hin | k c0 d1 Hd1 Hn Hs | k c0 hl l r Hl Hr Hadj Hn]; subst d; simpl in Hcin.
        + destruct Hcin.
        + destruct Hcin as [<-|[]].
          exists (nf (DUn k c0 da)). split; [|split; [reflexivity|split]].
          * apply Hpush. unfold AStar.pushes. rewrite !in_app_iff. right; left.
            apply in_push_un. split.
            -- rewrite (key_dlen _ _ Hkc). exact Hs.
            -- exists k, c0. split; [|reflexivity]. rewrite (key_dcat _ _ Hkc). exact Hn.
          * unfold key. simpl. rewrite (key_dstart _ _ Hkc), (key_dlen _ _ Hkc). reflexivity.
          * rewrite sz_un. cbn [AStarLoss.loss ider nf]. lia.
        + pose proof (Lspan_ok l Hl) as Sl. pose proof (Lspan_ok r Hr) as Sr.
          destruct Hcin as [<-|[<-|[]]].
          * (* c = l *)
            destruct (Hother r (or_intror (or_introl eq_refl))) as [e (He & Hke & Hle)].
            { intros E. rewrite Hkc in E. apply key_dstart in E. lia. }
            exists (nf (DBin k c0 hl da e)). split; [|split; [reflexivity|split]].
            -- apply Hpush. unfold AStar.pushes. rewrite !in_app_iff. right; right; left.
               apply in_push_right. exists e. split; [exact He|]. split.
               ++ rewrite (key_dstart _ _ Hke), (key_dstart _ _ Hkc), (key_dlen _ _ Hkc). exact Hadj.
               ++ exists k, c0, hl. split; [|reflexivity]. rewrite (key_dcat _ _ Hkc), (key_dcat _ _ Hke). exact Hn.
            -- unfold key. simpl. rewrite (key_dstart _ _ Hkc), (key_dlen _ _ Hkc), (key_dlen _ _ Hke). reflexivity.
            -- cbn [AStarLoss.loss ider nf]. assert (Ea : attach_loss dep bestdep hl da e = attach_loss dep bestdep hl l r).
               { unfold attach_loss. rewrite (Lkey_head da l Hla Hl Hkc), (Lkey_head e r (Hch e He) Hr Hke). reflexivity. }
               rewrite Ea, sz_bin. lia.
          * (* c = r *)
            destruct (Hother l (or_introl eq_refl)) as [e (He & Hke & Hle)].
            { intros E. rewrite Hkc in E. apply key_dstart in E. lia. }
            exists (nf (DBin k c0 hl e da)). split; [|split; [reflexivity|split]].
            -- apply Hpush. unfold AStar.pushes. rewrite !in_app_iff. right; right; right.
               apply in_push_left. exists e. split; [exact He|]. split.
               ++ rewrite (key_dstart _ _ Hke), (key_dlen _ _ Hke), (key_dstart _ _ Hkc). symmetry. exact Hadj.
               ++ exists k, c0, hl. split; [|reflexivity]. rewrite (key_dcat _ _ Hkc), (key_dcat _ _ Hke). exact Hn.
            -- unfold key. simpl. rewrite (key_dstart _ _ Hke), (key_dlen _ _ Hkc), (key_dlen _ _ Hke). reflexivity.
            -- cbn [AStarLoss.loss ider nf]. assert (Ea : attach_loss dep bestdep hl e da = attach_loss dep bestdep hl l r).
               { unfold attach_loss. rewrite (Lkey_head da r Hla Hr Hkc), (Lkey_head e l (Hch e He) Hl Hke). reflexivity. }
               rewrite Ea, sz_bin. lia. }
Qed.

Definition AllInv_d (st : state) : Prop := Wf st /\ Mono_d st /\ Inv_d st /\ FinInv st.

Theorem reach_d_inv st : reach_d st -> AllInv_d st.
Proof.
  induction 1 as [|st a Hr IH Hrun Hv].
  - split; [apply init_ok|split; [intros e b []|split; [apply init_inv_d|apply init_fin]]].
  - destruct IH as (Hwf & HM & HI & HF). pose proof Hv as [Ha _].
    split; [apply Lstep_ok; assumption|split; [apply step_mono_d; assumption|split; [apply step_inv_d; assumption|apply Lstep_fin; assumption]]].
Qed.

(* whatever is not yet done has a representative on the agenda that is at most (nodes - 1) * delta worse *)
Lemma cover_d st : Inv_d st -> forall d, licensed d ->
  Done_d st d \/ exists b, In b (agenda st) /\ iloss b <= loss d + delta * (sz d - 1).
Proof.
  intros HI d. induction d as [i c | k c d1 IH | k c hl l IHl r IHr]; intros Hd.
  - destruct (HI _ Hd) as [H|[b (Hb & Hf & Hk & Hl)]]; [intros c0 []|left; exact H|].
    right. exists b. split; [exact Hb|]. unfold AStarOpt.iloss. rewrite Hf. lia.
  - assert (Hd1 : licensed d1) by (apply (Lchild_licensed _ d1 Hd); left; reflexivity).
    destruct (IH Hd1) as [HD|[b (Hb & Hl)]].
    + destruct (HI _ Hd) as [H|[b (Hb & Hf & Hk & Hl)]]; [intros c0 [<-|[]]; exact HD|left; exact H|].
      right. exists b. split; [exact Hb|]. unfold AStarOpt.iloss. rewrite Hf. lia.
    + right. exists b. split; [exact Hb|]. pose proof (Lchild_loss_le _ d1 Hd (or_introl eq_refl)). rewrite sz_un. lia.
  - assert (Hl : licensed l) by (apply (Lchild_licensed _ l Hd); left; reflexivity).
    assert (Hr : licensed r) by (apply (Lchild_licensed _ r Hd); right; left; reflexivity).
    pose proof (dsz_nonneg l) as Nl. pose proof (dsz_nonneg r) as Nr.
    destruct (IHl Hl) as [HDl|[b (Hb & Hlb)]].
    + destruct (IHr Hr) as [HDr|[b (Hb & Hlb)]].
      * destruct (HI _ Hd) as [H|[b (Hb & Hf & Hk & Hlb)]]; [intros c0 [<-|[<-|[]]]; assumption|left; exact H|].
        right. exists b. split; [exact Hb|]. unfold AStarOpt.iloss. rewrite Hf. lia.
      * right. exists b. split; [exact Hb|]. pose proof (Lchild_loss_le _ r Hd (or_intror (or_introl eq_refl))). rewrite sz_bin. lia.
    + right. exists b. split; [exact Hb|]. pose proof (Lchild_loss_le _ l Hd (or_introl eq_refl)). rewrite sz_bin. lia.
Qed.

(* the first goal item popped is within delta * (nodes + 1) of every complete derivation *)
Theorem first_goal_near_optimal st a :
  reach_d st -> goal st = [] -> valid_pop_d a st -> ifin a = true ->
  forall d, complete d -> score d - delta * approxB d <= score (ider a).
Proof.
  intros Hr Hg Hv Hf d Hc. destruct (reach_d_inv st Hr) as (Hwf & HM & HI & HF).
  pose proof Hwf as (Hag & Hch & _). pose proof Hv as [Ha _].
  pose proof (Hag a Ha) as [Hla Hfa]. destruct (Hfa Hf) as (Hsa & Hna & Hra).
  rewrite (Lscore_loss d Hc). rewrite (Lscore_loss (ider a)) by (repeat split; assumption).
  pose proof (valid_pop_d_loss a st Hwf Hv) as Hmin. unfold AStarOpt.iloss at 1 in Hmin. rewrite Hf in Hmin.
  destruct Hc as (Hl & Hs & Hn & Hroot).
  pose proof (root_loss_nonneg dep bestdep dep_le d).
  unfold approxB. fold (sz d).
  destruct (cover_d st HI d Hl) as [[e (He & Hk & Hle)]|[b (Hb & Hlb)]].
  - destruct (HF e He) as [Hin|Hin]; [rewrite (key_dlen _ _ Hk); exact Hn|rewrite (key_dcat _ _ Hk); exact Hroot| |rewrite Hg in Hin; destruct Hin].
    specialize (Hmin _ Hin). unfold AStarOpt.iloss in Hmin. simpl in Hmin.
    assert (root_loss e = root_loss d) by (unfold AStarLoss.root_loss; rewrite (Lkey_head e d (Hch e He) Hl Hk); reflexivity).
    lia.
  - specialize (Hmin _ Hb). lia.
Qed.

(* ... and so is the first element of the goal cell of every reachable state *)
Theorem first_goal_in_state_d st :
  reach_d st -> forall g rest, goal st = g :: rest ->
  complete g /\ forall d, complete d -> score d - delta * approxB d <= score g.
Proof.
  induction 1 as [|st a Hr IH Hrun Hv]; intros g rest Hg; [discriminate|].
  unfold AStar.step in Hg. destruct (ifin a) eqn:Ef.
  - simpl in Hg. destruct (goal st) as [|g0 r0] eqn:Eg.
    + simpl in Hg. inversion Hg; subst. split.
      * destruct (reach_d_inv st Hr) as ((Hag & _) & _). destruct (Hag a (proj1 Hv)) as [Hl Hfin].
        destruct (Hfin Ef) as (H1 & H2 & H3). repeat split; assumption.
      * exact (first_goal_near_optimal st a Hr Eg Hv Ef).
    + simpl in Hg. inversion Hg; subst. now apply (IH g r0).
  - destruct (true && existsb _ _); simpl in Hg; now apply (IH g rest).
Qed.

(* an exhausted agenda with an empty goal cell means there is no parse, whatever the slack *)
Theorem fail_only_if_none_d st : reach_d st -> agenda st = [] -> goal st = [] -> forall d, ~ complete d.
Proof.
  intros Hr Hag Hg d (Hl & Hs & Hn & Hroot). destruct (reach_d_inv st Hr) as (Hwf & HM & HI & HF).
  destruct (cover_d st HI d Hl) as [[e (He & Hk & Hle)]|[b (Hb & _)]].
  - destruct (HF e He) as [Hin|Hin]; [rewrite (key_dlen _ _ Hk); exact Hn|rewrite (key_dcat _ _ Hk); exact Hroot| |].
    + rewrite Hag in Hin. destruct Hin.
    + rewrite Hg in Hin. destruct Hin.
  - rewrite Hag in Hb. destruct Hb.
Qed.

(* successive pops: the priority rises by at most delta *)
Theorem pops_monotone_d st a a' :
  reach_d st -> valid_pop_d a st -> valid_pop_d a' (step a st) -> prio a' <= prio a + delta.
Proof.
  intros Hr Hv Hv'. destruct (reach_d_inv st Hr) as (Hwf & HM & HI & HF).
  pose proof Hwf as (Hag & Hch & _). pose proof Hv as [Ha Hmax]. pose proof Hv' as [Ha' _].
  destruct (Hag a Ha) as [Hla _].
  revert Ha'. unfold AStar.step. destruct (ifin a) eqn:Ef.
  - simpl. intros H. apply remove_one_sub in H. auto.
  - destruct (true && existsb (key_eqb ceqb (ider a)) (chart st)) eqn:Ed.
    + simpl. intros H. apply remove_one_sub in H. auto.
    + simpl. intros H. apply in_app_iff in H as [H|H]; [|apply remove_one_sub in H; auto].
      pose proof (Lpushes_loss (ider a) (chart st) Hla Hch a' H) as Hl.
      rewrite (Lprio_item a (Hag a Ha)). rewrite (Lprio_item a' (Lpushes_ok (ider a) (chart st) Hla Hch a' H)).
      unfold AStarOpt.iloss in Hl. rewrite Ef. lia.
Qed.
End ApproxOpt.

(* ------------------------------------------------------------------ consequences without a sign condition on delta *)
Section AnyDelta.
Context {C : Type}.
Variable ceqb : C -> C -> bool.
Hypothesis ceqb_eq : forall a b, ceqb a b = true <-> a = b.
Variable n : nat.
Variable tag : nat -> C -> Z.
Variable dep : nat -> nat -> Z.
Variable adm : nat -> list C.
Variable besttag bestdep : nat -> Z.
Variable bin : C -> C -> list (C * bool).
Variable un : C -> list C.
Variable isroot : C -> bool.
Variable pen : Z.
Variable remove_one : @item C -> list (@item C) -> list (@item C).
Hypothesis remove_one_sub : forall a l x, In x (remove_one a l) -> In x l.
Hypothesis remove_one_keep : forall a l x, In x l -> x = a \/ In x (remove_one a l).
Variable max_step nbest : nat.
Hypothesis pen_nonneg : 0 <= pen.
Hypothesis tag_le : forall i c, (i < n)%nat -> In c (adm i) -> tag i c <= besttag i.
Hypothesis dep_le : forall i j, dep i j <= bestdep i.
Variable hdir : bool.
Hypothesis uniform : forall x y c hl, In (c, hl) (bin x y) -> hl = hdir.

Notation reach_d := (reach_d ceqb n tag dep adm besttag bestdep bin un isroot pen true true remove_one max_step nbest).
Notation reach := (reach ceqb n tag dep adm besttag bestdep bin un isroot pen true true remove_one max_step nbest).
Notation complete := (complete n adm bin un isroot).
Notation score := (score tag dep pen).

Theorem fail_only_if_none_any delta st : reach_d delta st -> agenda st = [] -> goal st = [] -> forall d, ~ complete d.
Proof.
  intros Hr. apply (reach_d_mono ceqb n tag dep adm besttag bestdep bin un isroot pen true true remove_one max_step nbest
                      delta (Z.max 0 delta) st (Z.le_max_r 0 delta)) in Hr.
  exact (fail_only_if_none_d ceqb ceqb_eq n tag dep adm besttag bestdep bin un isroot pen remove_one remove_one_sub remove_one_keep
           max_step nbest pen_nonneg tag_le dep_le hdir uniform (Z.max 0 delta) (Z.le_max_l 0 delta) st Hr).
Qed.

(* delta = 0: exact optimality of the first goal (the statement of AStarOpt.first_goal_optimal, state form) *)
Corollary exact_from_approx st : reach st -> forall g rest, goal st = g :: rest ->
  complete g /\ forall d, complete d -> score d <= score g.
Proof.
  intros Hr g rest Hg.
  apply (reach_d_zero ceqb n tag dep adm besttag bestdep bin un isroot pen true true remove_one max_step nbest) in Hr.
  destruct (first_goal_in_state_d ceqb ceqb_eq n tag dep adm besttag bestdep bin un isroot pen remove_one remove_one_sub remove_one_keep
              max_step nbest pen_nonneg tag_le dep_le hdir uniform 0 (Z.le_refl 0) st Hr g rest Hg) as [Hc Hb].
  split; [exact Hc|]. intros d Hd. specialize (Hb d Hd). lia.
Qed.
End AnyDelta.

(* ------------------------------------------------------------------ n-best mode (no dedup): the loss is delta, once *)
Section ApproxN.
Context {C : Type}.
Variable ceqb : C -> C -> bool.
Hypothesis ceqb_eq : forall a b, ceqb a b = true <-> a = b.
Variable n : nat.
Variable tag : nat -> C -> Z.
Variable dep : nat -> nat -> Z.
Variable adm : nat -> list C.
Variable besttag bestdep : nat -> Z.
Variable bin : C -> C -> list (C * bool).
Variable un : C -> list C.
Variable isroot : C -> bool.
Variable pen : Z.
Variable remove_one : @item C -> list (@item C) -> list (@item C).
Hypothesis remove_one_sub : forall a l x, In x (remove_one a l) -> In x l.
Hypothesis remove_one_keep : forall a l x, In x l -> x = a \/ In x (remove_one a l).
Variable max_step nbest : nat.
Hypothesis pen_nonneg : 0 <= pen.
Hypothesis tag_le : forall i c, (i < n)%nat -> In c (adm i) -> tag i c <= besttag i.
Hypothesis dep_le : forall i j, dep i j <= bestdep i.
Variable delta : Z.

Notation state := (@state C).
Notation item := (@item C).
Notation loss := (loss tag dep besttag bestdep pen).
Notation iloss := (iloss tag dep besttag bestdep pen).
Notation reachN_d := (reach_d ceqb n tag dep adm besttag bestdep bin un isroot pen false true remove_one max_step nbest delta).
Notation valid_pop_d := (valid_pop_d n tag dep besttag bestdep pen true delta).
Notation stepN := (AStar.step ceqb n bin un isroot false remove_one).
Notation Wf := (Wf n adm bin un isroot).
Notation InvN := (InvN n adm bin un).
Notation FinInvN := (FinInvN n isroot).
Notation complete := (complete n adm bin un isroot).
Notation score := (score tag dep pen).

Let ddec := deriv_eq_dec ceqb ceqb_eq.

Theorem reachN_d_inv st : reachN_d st -> Wf st /\ InvN st /\ FinInvN st.
Proof.
  induction 1 as [|st a Hr IH Hrun Hv].
  - split; [apply init_ok|split; [apply initN_inv|apply initN_fin]].
  - destruct IH as (Hwf & HI & HF). pose proof Hv as [Ha _].
    split; [apply (stepN_ok ceqb n adm bin un isroot remove_one remove_one_sub); assumption|].
    split; [apply (stepN_inv ceqb n adm bin un isroot remove_one remove_one_keep ddec); assumption|].
    apply (stepN_fin ceqb n bin un isroot remove_one remove_one_keep); assumption.
Qed.

(* each goal item popped is within delta of every complete derivation not yet returned *)
Theorem goal_near_best_remaining st a :
  reachN_d st -> valid_pop_d a st -> ifin a = true ->
  forall d, complete d -> ~ In d (goal st) -> score d - delta <= score (ider a).
Proof.
  intros Hr Hv Hf d Hc Hng. destruct (reachN_d_inv st Hr) as (Hwf & HI & HF).
  pose proof Hwf as (Hag & Hch & _). pose proof Hv as [Ha Hmax].
  pose proof (Hag a Ha) as [Hla Hfa]. destruct (Hfa Hf) as (Hsa & Hna & Hra).
  rewrite (score_loss n tag dep adm besttag bestdep bin un isroot pen d Hc).
  rewrite (score_loss n tag dep adm besttag bestdep bin un isroot pen (ider a)) by (repeat split; assumption).
  assert (Hmin : forall b, In b (agenda st) -> iloss a <= iloss b + delta).
  { intros b Hb. specialize (Hmax b Hb).
    rewrite (prio_item n tag dep adm besttag bestdep bin un isroot pen a (Hag a Ha)),
            (prio_item n tag dep adm besttag bestdep bin un isroot pen b (Hag b Hb)) in Hmax. unfold AStarOpt.iloss. lia. }
  unfold AStarOpt.iloss at 1 in Hmin. rewrite Hf in Hmin.
  destruct Hc as (Hl & Hs & Hn & Hroot).
  pose proof (root_loss_nonneg dep bestdep dep_le d).
  destruct (coverN n tag dep adm besttag bestdep bin un isroot pen pen_nonneg tag_le dep_le st HI d Hl) as [Hin|[b (Hb & Hlb)]].
  - destruct (HF d Hin Hn Hroot) as [H1|H1]; [|contradiction].
    specialize (Hmin _ H1). unfold AStarOpt.iloss in Hmin. simpl in Hmin. lia.
  - specialize (Hmin _ Hb). lia.
Qed.

(* state form: every complete derivation that was not returned scores at most delta more than any returned one *)
Theorem nbest_in_state_d st : reachN_d st ->
  forall d, complete d -> ~ In d (goal st) -> forall g, In g (goal st) -> score d - delta <= score g.
Proof.
  induction 1 as [|st a Hr IH Hrun Hv]; intros d Hd Hnin g Hg; [destruct Hg|].
  unfold AStar.step in *. destruct (ifin a) eqn:Ef.
  - simpl in *. rewrite in_app_iff in Hnin. apply in_app_iff in Hg as [Hg|[<-|[]]].
    + apply IH; tauto.
    + apply (goal_near_best_remaining st a Hr Hv Ef d Hd). tauto.
  - destruct (false && existsb _ _); simpl in *; now apply IH.
Qed.
End ApproxN.

(* ------------------------------------------------------------------ transfer to the implementation-level model *)
Section ApproxImplProofs.
Context {C : Type}.
Variable ceqb : C -> C -> bool.
Hypothesis ceqb_eq : forall a b, ceqb a b = true <-> a = b.
Variable n : nat.
Variable tag : nat -> C -> Z.
Variable dep : nat -> nat -> Z.
Variable adm : nat -> list C.
Variable besttag bestdep : nat -> Z.
Variable bin : C -> C -> list (C * bool).
Variable un : C -> list C.
Variable isroot : C -> bool.
Variable pen : Z.
Variable max_step nbest : nat.

Notation jitem := (@jitem C).
Notation jstate := (@jstate C).
Notation rspec := (remove_spec ceqb).
Notation jreach dd := (jreach ceqb n tag dep adm besttag bestdep bin un isroot pen dd max_step nbest).
Notation jreach_d dd := (jreach_d ceqb n tag dep adm besttag bestdep bin un isroot pen dd max_step nbest).
Notation reach_d dd := (AStarApprox.reach_d ceqb n tag dep adm besttag bestdep bin un isroot pen dd true rspec max_step nbest).
Notation valid_pop_d := (AStarApprox.valid_pop_d n tag dep besttag bestdep pen true).
Notation JOK := (JOK n tag dep besttag bestdep pen).
Notation complete := (complete n adm bin un isroot).
Notation score := (score tag dep pen).

Let rsub := remove_spec_sub ceqb n tag dep adm besttag bestdep.
Let rkeep := remove_spec_keep ceqb ceqb_eq n tag dep adm besttag bestdep.

Lemma valid_pop_d_abs delta a st : JOK st -> jvalid_pop_d delta a st -> valid_pop_d delta (abs_item a) (abs_state st).
Proof.
  intros (Hag & _) [Ha Hmax]. split.
  - simpl. now apply in_map.
  - intros b Hb. simpl in Hb. apply in_map_iff in Hb as [b' [<- Hb']].
    rewrite <- !(jprio_prio n tag dep besttag bestdep pen) by auto. now apply Hmax.
Qed.

(* a run of the implementation-level model with slack delta is a run of the abstract search with slack delta, and
   every stored field is the function of the derivation it stands for *)
Theorem refinement_d dd delta st : jreach_d dd delta st -> reach_d dd delta (abs_state st) /\ JOK st.
Proof.
  induction 1 as [|st a Hr [IHr IHj] Hrun Hv].
  - rewrite init_abs. split; [constructor | apply init_jok].
  - pose proof Hv as [Ha _]. split; [|now apply (step_jok ceqb n tag dep adm besttag bestdep bin un isroot pen dd)].
    rewrite (step_abs ceqb n tag dep besttag bestdep bin un isroot pen dd a st IHj Ha).
    constructor; [assumption | now apply running_abs | now apply valid_pop_d_abs].
Qed.

Theorem jreach_d_zero dd st : jreach_d dd 0 st <-> jreach dd st.
Proof.
  assert (V : forall (a : jitem) (s : jstate), jvalid_pop_d 0 a s <-> jvalid_pop a s).
  { intros a s. unfold jvalid_pop_d, jvalid_pop. split; intros [Ha H]; (split; [exact Ha|]); intros b Hb; specialize (H b Hb); lia. }
  split.
  - induction 1 as [|st a Hr IH Hrun Hv]; [constructor|]. constructor; [exact IH|exact Hrun|now apply V].
  - induction 1 as [|st a Hr IH Hrun Hv]; [constructor|]. constructor; [exact IH|exact Hrun|now apply V].
Qed.

Theorem jreach_d_mono dd d1 d2 st : d1 <= d2 -> jreach_d dd d1 st -> jreach_d dd d2 st.
Proof.
  intros Hle. induction 1 as [|st a Hr IH Hrun [Ha Hv]]; [constructor|].
  constructor; [exact IH|exact Hrun|]. split; [exact Ha|]. intros b Hb. specialize (Hv b Hb). lia.
Qed.

Lemma goal_prio_score dd delta st g : jreach_d dd delta st -> In g (jgoal st) -> jprio g = score (jder g).
Proof.
  intros Hr Hg. destruct (refinement_d dd delta st Hr) as [_ (_ & _ & Hgo)].
  destruct (Hgo g Hg) as [(Hi & Ho & _) Hf]. rewrite Hf in Hi, Ho. unfold jprio, AStarOpt.score. lia.
Qed.

Section OneBestImpl.
Hypothesis pen_nonneg : 0 <= pen.
Hypothesis tag_le : forall i c, (i < n)%nat -> In c (adm i) -> tag i c <= besttag i.
Hypothesis dep_le : forall i j, dep i j <= bestdep i.
Variable hdir : bool.
Hypothesis uniform : forall x y c hl, In (c, hl) (bin x y) -> hl = hdir.

Theorem impl_first_goal_in_state_d delta st : 0 <= delta -> jreach_d true delta st ->
  forall g rest, jgoal st = g :: rest ->
  complete (jder g) /\ jprio g = score (jder g) /\ forall d, complete d -> score d - delta * approxB d <= jprio g.
Proof.
  intros Hd Hr g rest Hg. destruct (refinement_d true delta st Hr) as [Ha Hj].
  assert (Hga : goal (abs_state st) = jder g :: map (@jder C) rest) by (simpl; now rewrite Hg).
  destruct (first_goal_in_state_d ceqb ceqb_eq n tag dep adm besttag bestdep bin un isroot pen rspec rsub rkeep max_step nbest
              pen_nonneg tag_le dep_le hdir uniform delta Hd (abs_state st) Ha _ _ Hga) as [Hc Hb].
  assert (Hsc : jprio g = score (jder g)) by (apply (goal_prio_score true delta st g Hr); rewrite Hg; now left).
  split; [exact Hc|]. split; [exact Hsc|]. intros d Hdc. rewrite Hsc. now apply Hb.
Qed.

Theorem impl_fail_only_if_none_d delta st :
  jreach_d true delta st -> jagenda st = [] -> jgoal st = [] -> forall d, ~ complete d.
Proof.
  intros Hr Hag Hg. destruct (refinement_d true delta st Hr) as [Ha _].
  refine (fail_only_if_none_any ceqb ceqb_eq n tag dep adm besttag bestdep bin un isroot pen rspec rsub rkeep max_step nbest
            pen_nonneg tag_le dep_le hdir uniform delta (abs_state st) Ha _ _); simpl; [now rewrite Hag | now rewrite Hg].
Qed.

Theorem impl_pops_monotone_d delta st a a' : 0 <= delta ->
  jreach_d true delta st -> jrunning max_step nbest st -> jvalid_pop_d delta a st ->
  jvalid_pop_d delta a' (jstep ceqb n dep besttag bestdep bin un isroot pen true a st) -> jprio a' <= jprio a + delta.
Proof.
  intros Hd Hr Hrun Hv Hv'.
  destruct (refinement_d true delta st Hr) as [Ha Hj].
  assert (Hr' : jreach_d true delta (jstep ceqb n dep besttag bestdep bin un isroot pen true a st)) by (constructor; assumption).
  destruct (refinement_d true delta _ Hr') as [Ha' Hj'].
  pose proof (valid_pop_d_abs delta a st Hj Hv) as Hva.
  pose proof (valid_pop_d_abs delta a' _ Hj' Hv') as Hva'.
  rewrite (step_abs ceqb n tag dep besttag bestdep bin un isroot pen true a st Hj (proj1 Hv)) in Hva'.
  rewrite (jprio_prio n tag dep besttag bestdep pen a) by (apply (proj1 Hj); apply Hv).
  rewrite (jprio_prio n tag dep besttag bestdep pen a') by (apply (proj1 Hj'); apply Hv').
  exact (pops_monotone_d ceqb ceqb_eq n tag dep adm besttag bestdep bin un isroot pen rspec rsub rkeep max_step nbest
           pen_nonneg tag_le dep_le hdir uniform delta Hd (abs_state st) (abs_item a) (abs_item a') Ha Hva Hva').
Qed.
End OneBestImpl.

Section NBestImpl.
Hypothesis pen_nonneg : 0 <= pen.
Hypothesis tag_le : forall i c, (i < n)%nat -> In c (adm i) -> tag i c <= besttag i.
Hypothesis dep_le : forall i j, dep i j <= bestdep i.

Theorem impl_nbest_in_state_d delta st : jreach_d false delta st ->
  forall d, complete d -> ~ In d (map (@jder C) (jgoal st)) -> forall g, In g (jgoal st) -> score d - delta <= jprio g.
Proof.
  intros Hr d Hd Hnin g Hg. destruct (refinement_d false delta st Hr) as [Ha _].
  rewrite (goal_prio_score false delta st g Hr Hg).
  refine (nbest_in_state_d ceqb ceqb_eq n tag dep adm besttag bestdep bin un isroot pen rspec rsub rkeep max_step nbest
            pen_nonneg tag_le dep_le delta (abs_state st) Ha d Hd Hnin (jder g) _).
  simpl. now apply in_map.
Qed.
End NBestImpl.
End ApproxImplProofs.

(* ------------------------------------------------------------------ the slack-measuring replay is sound *)
Section ApproxReplayProofs.
Context {C : Type}.
Variable ceqb : C -> C -> bool.
Hypothesis ceqb_eq : forall a b, ceqb a b = true <-> a = b.
Variable n : nat.
Variable tag : nat -> C -> Z.
Variable dep : nat -> nat -> Z.
Variable adm : nat -> list C.
Variable besttag bestdep : nat -> Z.
Variable bin : C -> C -> list (C * bool).
Variable un : C -> list C.
Variable isroot : C -> bool.
Variable pen : Z.
Variable dedup : bool.
Variable max_step nbest : nat.

Notation jitem := (@jitem C).
Notation jstate := (@jstate C).
Notation jreach_d := (jreach_d ceqb n tag dep adm besttag bestdep bin un isroot pen dedup max_step nbest).
Notation jreplay_s := (jreplay_s ceqb n dep besttag bestdep bin un isroot pen dedup max_step nbest).
Notation jaccepts_s := (jaccepts_s ceqb n tag dep adm besttag bestdep bin un isroot pen dedup max_step nbest).

Lemma fold_slack_ge (f : jitem -> Z) (l : list jitem) : forall x, x <= fold_left (fun m b => Z.max m (f b)) l x.
Proof. induction l as [|y l IH]; intros x; simpl; [lia|]. specialize (IH (Z.max x (f y))). lia. Qed.
Lemma fold_slack_in (f : jitem -> Z) (l : list jitem) : forall x b, In b l -> f b <= fold_left (fun m b => Z.max m (f b)) l x.
Proof.
  induction l as [|z l IH]; intros x b H; [destruct H|]. simpl. destruct H as [->|H].
  - pose proof (fold_slack_ge f l (Z.max x (f b))). lia.
  - now apply IH.
Qed.
Lemma jslack_nonneg a (st : jstate) : 0 <= jslack a st.
Proof. unfold jslack. apply (fold_slack_ge (fun b => jprio b - jprio a)). Qed.
Lemma jslack_ge a (st : jstate) b : In b (jagenda st) -> jprio b <= jprio a + jslack a st.
Proof. intros H. unfold jslack. pose proof (fold_slack_in (fun b => jprio b - jprio a) (jagenda st) 0 b H). simpl in *. lia. Qed.

Lemma jreplay_s_reach tr : forall k stored st acc st' d,
  jreach_d acc st -> jreplay_s tr k stored st acc = inl (st', d) -> jreach_d d st' /\ acc <= d.
Proof.
  induction tr as [|t tr IH]; intros k stored st acc st' d Hr H; simpl in H.
  - inversion H; subst. split; [exact Hr|lia].
  - destruct (resolve stored t) as [a|]; [|discriminate].
    destruct (jrunning_b max_step nbest st && existsb (jitem_eqb ceqb a) (jagenda st)) eqn:E; [|discriminate].
    apply andb_true_iff in E as [E1 E2].
    destruct (Bool.eqb _ _); [|discriminate].
    apply existsb_exists in E2 as [a' [Hin Ea]]. apply (jitem_eqb_eq ceqb ceqb_eq) in Ea. subst a'.
    pose proof (jslack_nonneg a st) as Hs.
    apply IH in H.
    + destruct H as [H1 H2]. split; [exact H1|lia].
    + constructor.
      * apply (jreach_d_mono ceqb n tag dep adm besttag bestdep bin un isroot pen max_step nbest dedup acc); [lia|exact Hr].
      * now apply jrunning_b_ok.
      * split; [exact Hin|]. intros b Hb. pose proof (jslack_ge a st b Hb). lia.
Qed.

Theorem accepts_s_reach tr st d : jaccepts_s tr = Some (st, d) -> jreach_d d st /\ 0 <= d /\ jrunning_b max_step nbest st = false.
Proof.
  unfold AStarApprox.jaccepts_s.
  destruct (AStarApprox.jreplay_s _ _ _ _ _ _ _ _ _ _ _ _ tr 0 [] _ 0) as [[st0 d0]|k] eqn:E; [|discriminate].
  destruct (jrunning_b max_step nbest st0) eqn:Er; [discriminate|]. intros H. inversion H; subst.
  destruct (jreplay_s_reach tr 0%nat [] _ 0 st d (jreach_d_init _ _ _ _ _ _ _ _ _ _ _ _ _ _ _) E) as [H1 H2].
  split; [exact H1|]. split; [exact H2|exact Er].
Qed.
End ApproxReplayProofs.

(* ------------------------------------------------------------------ on concrete problems *)
Lemma p_accepts_s_reach p tr st d : p_accepts_s p tr = Some (st, d) -> p_reach_d p d st /\ 0 <= d /\ p_running_b p st = false.
Proof. apply (accepts_s_reach Nat.eqb nat_eqb_eq). Qed.

(* the two worked examples: a run with slack 4 whose result is worse than the optimum by exactly 4 * (nodes + 1) *)
Definition ax_final : option (@state nat) :=
  run_d Nat.eqb 1 ax_tag ax_dep ax_best ax_best ax_bin ax_un ax_isroot 0 true true (remove_spec Nat.eqb) 100 1 ax_delta ax_run (init 1 ax_adm).
Definition bx_final : option (@state nat) :=
  run_d Nat.eqb 2 bx_tag ax_dep ax_best ax_best bx_bin ax_un bx_isroot 0 true true (remove_spec Nat.eqb) 100 1 ax_delta bx_run (init 2 bx_adm).

Lemma p_first_parse_near_optimal p hdir delta st :
  0 <= p_pen p -> uniformb hdir (p_bin p) = true -> p_dedup p = true -> 0 <= delta -> p_reach_d p delta st ->
  forall g rest, jgoal st = g :: rest ->
    p_complete p (jder g) /\ jprio g = p_score p (jder g) /\ forall d, p_complete p d -> p_score p d - delta * approxB d <= jprio g.
Proof.
  intros Hpen Hu Hd Hdl Hr. unfold p_reach_d in Hr. rewrite Hd in Hr.
  exact (impl_first_goal_in_state_d Nat.eqb nat_eqb_eq (p_n p) (p_tagf p) (p_depf p) (p_adm p) (p_besttag p) (p_bestdep p) (lookup2 (p_bin p))
           (lookup1 (p_un p)) (p_isroot p) (p_pen p) (p_max_step p) (p_nbest p) Hpen (p_tag_le p) (p_dep_le p) hdir (p_uniform p hdir Hu) delta st Hdl Hr).
Qed.

(* the form the correspondence cases of the real-valued stream are evaluated in: the slack is the one the replay measured *)
Lemma p_measured_run_near_optimal p hdir tr st delta :
  0 <= p_pen p -> uniformb hdir (p_bin p) = true -> p_dedup p = true -> p_accepts_s p tr = Some (st, delta) ->
  forall g rest, jgoal st = g :: rest ->
    p_complete p (jder g) /\ jprio g = p_score p (jder g) /\ forall d, p_complete p d -> p_score p d - delta * approxB d <= jprio g.
Proof.
  intros Hpen Hu Hd Hacc. destruct (p_accepts_s_reach p tr st delta Hacc) as (Hr & Hdl & _).
  exact (p_first_parse_near_optimal p hdir delta st Hpen Hu Hd Hdl Hr).
Qed.

Lemma p_measured_failure_means_none_or_budget p hdir tr st delta :
  0 <= p_pen p -> uniformb hdir (p_bin p) = true -> p_dedup p = true -> p_accepts_s p tr = Some (st, delta) -> jgoal st = [] ->
  (forall d, ~ p_complete p d) \/ (p_max_step p <= jsteps st)%nat \/ p_nbest p = 0%nat.
Proof.
  intros Hpen Hu Hd Hacc Hg. destruct (p_accepts_s_reach p tr st delta Hacc) as (Hr & _ & Hnr).
  unfold p_reach_d in Hr. rewrite Hd in Hr. unfold p_running_b, jrunning_b in Hnr. rewrite Hg in Hnr. simpl in Hnr.
  destruct (jsteps st <? p_max_step p)%nat eqn:E1; [|right; left; now apply Nat.ltb_ge].
  destruct (0 <? p_nbest p)%nat eqn:E2; [|right; right; apply Nat.ltb_ge in E2; lia].
  simpl in Hnr. destruct (jagenda st) eqn:Ea; [|discriminate]. left.
  exact (impl_fail_only_if_none_d Nat.eqb nat_eqb_eq (p_n p) (p_tagf p) (p_depf p) (p_adm p) (p_besttag p) (p_bestdep p) (lookup2 (p_bin p))
           (lookup1 (p_un p)) (p_isroot p) (p_pen p) (p_max_step p) (p_nbest p) Hpen (p_tag_le p) (p_dep_le p) hdir (p_uniform p hdir Hu) delta st Hr Ea Hg).
Qed.

Lemma p_nbest_near_best p delta st :
  0 <= p_pen p -> p_dedup p = false -> p_reach_d p delta st ->
  forall d, p_complete p d -> ~ In d (map (@jder nat) (jgoal st)) -> forall g, In g (jgoal st) -> p_score p d - delta <= jprio g.
Proof.
  intros Hpen Hd Hr. unfold p_reach_d in Hr. rewrite Hd in Hr.
  exact (impl_nbest_in_state_d Nat.eqb nat_eqb_eq (p_n p) (p_tagf p) (p_depf p) (p_adm p) (p_besttag p) (p_bestdep p) (lookup2 (p_bin p))
           (lookup1 (p_un p)) (p_isroot p) (p_pen p) (p_max_step p) (p_nbest p) Hpen (p_tag_le p) (p_dep_le p) delta st Hr).
Qed.

Lemma p_reach_d_zero p st : p_reach_d p 0 st <-> p_reach p st.
Proof. apply (jreach_d_zero Nat.eqb). Qed.

(* facts about the two examples *)
Lemma ax_hyps : (forall i c, (i < 1)%nat -> In c (ax_adm i) -> ax_tag i c <= ax_best i) /\ (forall i j, ax_dep i j <= ax_best i) /\
  (forall x y c hl, In (c, hl) (ax_bin x y) -> hl = true).
Proof.
  split; [|split].
  - intros i c _ _. unfold ax_tag, ax_best. destruct c as [|[|c]]; lia.
  - intros i j. unfold ax_dep, ax_best. lia.
  - intros x y c hl [].
Qed.

Lemma bx_hyps : (forall i c, (i < 2)%nat -> In c (bx_adm i) -> bx_tag i c <= ax_best i) /\
  (forall x y c hl, In (c, hl) (bx_bin x y) -> hl = true).
Proof.
  split.
  - intros i c _ _. unfold bx_tag, ax_best. destruct c as [|[|[|[|[|[|c]]]]]]; lia.
  - intros x y c hl H. unfold bx_bin in H.
    repeat match type of H with In _ (match ?v with _ => _ end) => destruct v end;
      simpl in H; try contradiction; destruct H as [H|[]]; inversion H; reflexivity.
Qed.
