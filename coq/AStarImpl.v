(* Implementation-level model of depccg/parsing.h: items carry the fields the C++ struct carries
   (in_score, out_score, start, length, head) computed incrementally exactly as parse_sentence computes them;
   the derivation stored in an item is the unfolding of its back-pointers (left, right, rule_id, cat).
   Also: the supertag beam (per-token candidate loop), an executable agenda, and a trace validator.
   MODEL ONLY.  AStarRefine.v proves that this model refines the abstract search of AStar.v. *)
From Coq Require Import List ZArith Bool Arith Lia.
Import ListNotations.
Require Import AStar.
Open Scope Z_scope.

Section Impl.
Context {C : Type}.
Variable ceqb : C -> C -> bool.
Variable n : nat.                       (* sentence length *)
Variable tag : nat -> C -> Z.
Variable dep : nat -> nat -> Z.         (* dep i 0 = root attachment of token i; dep i (S h) = i attaches to h *)
Variable adm : nat -> list C.           (* beam-admitted categories of token i, in push order *)
Variable besttag bestdep : nat -> Z.
Variable bin : C -> C -> list (C * bool).
Variable un : C -> list C.
Variable isroot : C -> bool.
Variable pen : Z.
Variable dedup : bool.                  (* 1-best mode: first pop wins per (span, category) *)

Notation deriv := (@deriv C).

Record jitem := { jfin : bool; jder : deriv; jin : Z; jout : Z; jstart : nat; jlen : nat; jhead : nat }.
Definition jcat (a : jitem) : C := dcat (jder a).
Definition jprio (a : jitem) : Z := jin a + jout a.        (* cell_item::score() *)

Definition jleaf (i : nat) (c : C) : jitem :=
  {| jfin := false; jder := DLeaf i c; jin := tag i c;
     jout := outside n besttag i (S i) + sumf bestdep 0 n; jstart := i; jlen := 1; jhead := i |}.

Definition jfinal (a : jitem) : jitem :=
  {| jfin := true; jder := jder a; jin := jin a + dep (jhead a) 0; jout := 0;
     jstart := jstart a; jlen := jlen a; jhead := jhead a |}.

Definition junary (a : jitem) (k : nat) (c : C) : jitem :=
  {| jfin := false; jder := DUn k c (jder a); jin := jin a - pen; jout := jout a;
     jstart := jstart a; jlen := jlen a; jhead := jhead a |}.

Definition jcombine (l r : jitem) (k : nat) (c : C) (hl : bool) : jitem :=
  let head := if hl then jhead l else jhead r in
  let child := if hl then jhead r else jhead l in
  let s := jstart l in
  let len := (jlen l + jlen r)%nat in
  {| jfin := false; jder := DBin k c hl (jder l) (jder r);
     jin := jin l + jin r + dep child (S head);
     jout := outside n besttag s (s + len) + outside n bestdep s (s + len) + bestdep head;
     jstart := s; jlen := len; jhead := head |}.

Definition jpush_fin (a : jitem) : list jitem :=
  if (jlen a =? n)%nat && isroot (jcat a) then [jfinal a] else [].
Definition jpush_un (a : jitem) : list jitem :=
  if (n =? 1)%nat || negb (jlen a =? n)%nat
  then map (fun kc => junary a (fst kc) (snd kc)) (enum (un (jcat a))) else [].
Definition jpush_right (a : jitem) (ch : list jitem) : list jitem :=
  flat_map (fun o => if (jstart o =? jstart a + jlen a)%nat
    then map (fun kr => jcombine a o (fst kr) (fst (snd kr)) (snd (snd kr))) (enum (bin (jcat a) (jcat o)))
    else []) ch.
Definition jpush_left (a : jitem) (ch : list jitem) : list jitem :=
  flat_map (fun o => if (jstart o + jlen o =? jstart a)%nat
    then map (fun kr => jcombine o a (fst kr) (fst (snd kr)) (snd (snd kr))) (enum (bin (jcat o) (jcat a)))
    else []) ch.
Definition jpushes (a : jitem) (ch : list jitem) : list jitem :=
  jpush_fin a ++ jpush_un a ++ jpush_right a ch ++ jpush_left a ch.

Record jstate := { jagenda : list jitem; jchart : list jitem; jgoal : list jitem; jsteps : nat }.

Definition jinit : jstate :=
  {| jagenda := flat_map (fun i => map (jleaf i) (adm i)) (seq 0 n); jchart := []; jgoal := []; jsteps := 0 |}.

Definition jkey_eqb (a b : jitem) : bool :=
  (jstart a =? jstart b)%nat && (jlen a =? jlen b)%nat && ceqb (jcat a) (jcat b).

(* structural equality of derivations and items *)
Fixpoint deriv_eqb (a b : deriv) : bool :=
  match a, b with
  | DLeaf i c, DLeaf j d => (i =? j)%nat && ceqb c d
  | DUn k c x, DUn k' c' x' => (k =? k')%nat && ceqb c c' && deriv_eqb x x'
  | DBin k c h l r, DBin k' c' h' l' r' => (k =? k')%nat && ceqb c c' && Bool.eqb h h' && deriv_eqb l l' && deriv_eqb r r'
  | _, _ => false
  end.
Definition jsame (a b : jitem) : bool := Bool.eqb (jfin a) (jfin b) && deriv_eqb (jder a) (jder b).
Definition jitem_eqb (a b : jitem) : bool :=
  jsame a b && (jin a =? jin b) && (jout a =? jout b) && (jstart a =? jstart b)%nat && (jlen a =? jlen b)%nat && (jhead a =? jhead b)%nat.

Fixpoint jremove (a : jitem) (l : list jitem) : list jitem :=
  match l with [] => [] | b :: r => if jsame a b then r else b :: jremove a r end.

Definition jstep (a : jitem) (st : jstate) : jstate :=
  let ag := jremove a (jagenda st) in
  if jfin a then {| jagenda := ag; jchart := jchart st; jgoal := jgoal st ++ [a]; jsteps := S (jsteps st) |}
  else if dedup && existsb (jkey_eqb a) (jchart st)
  then {| jagenda := ag; jchart := jchart st; jgoal := jgoal st; jsteps := S (jsteps st) |}
  else {| jagenda := jpushes a (jchart st) ++ ag; jchart := a :: jchart st; jgoal := jgoal st; jsteps := S (jsteps st) |}.

Definition jvalid_pop (a : jitem) (st : jstate) : Prop :=
  In a (jagenda st) /\ forall b, In b (jagenda st) -> jprio b <= jprio a.

Variable max_step nbest : nat.
Definition jrunning (st : jstate) : Prop :=
  (jsteps st < max_step)%nat /\ (length (jgoal st) < nbest)%nat /\ jagenda st <> [].

Inductive jreach : jstate -> Prop :=
| jreach_init : jreach jinit
| jreach_step st a : jreach st -> jrunning st -> jvalid_pop a st -> jreach (jstep a st).

(* ---- what parse_sentence hands to the finalizer: the goal cell, best first (stable sort of the cell, whose
   list is in reverse pop order because emplace pushes to the front) ---- *)
Fixpoint insert_desc (a : jitem) (l : list jitem) : list jitem :=
  match l with
  | [] => [a]
  | b :: r => if jprio b <=? jprio a then a :: b :: r else b :: insert_desc a r
  end.
Definition sort_desc (l : list jitem) : list jitem := fold_right insert_desc [] l.
Definition jresult (st : jstate) : list jitem := sort_desc (rev (jgoal st)).
Definition jstatus (st : jstate) : nat := match jgoal st with [] => 1%nat | _ => 0%nat end.

(* ---- executable trace validation: the pops reported by the hook, replayed on the model ---- *)
Definition jrunning_b (st : jstate) : bool :=
  (jsteps st <? max_step)%nat && (length (jgoal st) <? nbest)%nat && negb (match jagenda st with [] => true | _ => false end).

Definition jvalid_pop_b (a : jitem) (st : jstate) : bool :=
  existsb (jitem_eqb a) (jagenda st) && forallb (fun b => jprio b <=? jprio a) (jagenda st).

(* a popped item as the hook reports it: fields + references to the chart slots of its children *)
Inductive tpop :=
| TLeaf (i : nat) (c : C)
| TUn (k : nat) (c : C) (child : nat)
| TBin (k : nat) (c : C) (hl : bool) (l r : nat)
| TFin (child : nat).
Record trec := { t_pop : tpop; t_in : Z; t_out : Z; t_start : nat; t_len : nat; t_head : nat; t_stored : bool }.

Definition resolve (stored : list jitem) (t : trec) : option jitem :=
  let mk f d := Some {| jfin := f; jder := d; jin := t_in t; jout := t_out t; jstart := t_start t; jlen := t_len t; jhead := t_head t |} in
  match t_pop t with
  | TLeaf i c => mk false (DLeaf i c)
  | TUn k c j => match nth_error stored j with Some x => mk false (DUn k c (jder x)) | None => None end
  | TBin k c hl l r =>
      match nth_error stored l, nth_error stored r with
      | Some x, Some y => mk false (DBin k c hl (jder x) (jder y))
      | _, _ => None
      end
  | TFin j => match nth_error stored j with Some x => mk true (jder x) | None => None end
  end.

(* replay; returns the final state, or the index of the first pop the model does not accept *)
Fixpoint jreplay (tr : list trec) (k : nat) (stored : list jitem) (st : jstate) : jstate + nat :=
  match tr with
  | [] => inl st
  | t :: rest =>
      match resolve stored t with
      | None => inr k
      | Some a =>
          if jrunning_b st && jvalid_pop_b a st then
            let st' := jstep a st in
            let was_stored := negb (jfin a) && negb (dedup && existsb (jkey_eqb a) (jchart st)) in
            if Bool.eqb was_stored (t_stored t)
            then jreplay rest (S k) (if was_stored then stored ++ [a] else stored) st'
            else inr k
          else inr k
      end
  end.

(* the whole run is accepted when every pop is accepted and the loop condition is false at the end *)
Definition jaccepts (tr : list trec) : option jstate :=
  match jreplay tr 0 [] jinit with
  | inl st => if jrunning_b st then None else Some st
  | inr _ => None
  end.
End Impl.

(* ---- the supertag beam: the per-token candidate loop of parse_sentence (lines 334-359) ---- *)
Section Beam.
(* a row of tag scores as (score, category id) pairs; std::priority_queue<pair<float, id>> pops the
   lexicographically largest pair first *)
Definition pair_ltb (a b : Z * nat) : bool := (fst a <? fst b) || ((fst a =? fst b) && (snd a <? snd b)%nat).
Fixpoint insert_pair (a : Z * nat) (l : list (Z * nat)) : list (Z * nat) :=
  match l with [] => [a] | b :: r => if pair_ltb b a then a :: b :: r else b :: insert_pair a r end.
Definition sort_pairs (l : list (Z * nat)) : list (Z * nat) := fold_right insert_pair [] l.
Definition row_pairs (row : list Z) : list (Z * nat) := combine row (seq 0 (length row)).
Definition row_best (row : list Z) : Z := match sort_pairs (row_pairs row) with [] => 0 | p :: _ => fst p end.

(* admitted s best: exp(s) > beta * exp(best), in the log domain  s - best > theta  (theta = ln beta, scaled);
   with the filter off every tag passes *)
Variable use_beta : bool.
Variable theta : Z.
Definition passes (s best : Z) : bool := if use_beta then theta <? s - best else true.
Fixpoint take_while_passing (best : Z) (k : nat) (l : list (Z * nat)) : list (Z * nat) :=
  match k, l with
  | S k', p :: r => if passes (fst p) best then p :: take_while_passing best k' r else []
  | _, _ => []
  end.
Definition beam (pruning : nat) (row : list Z) : list nat :=
  map snd (take_while_passing (row_best row) pruning (sort_pairs (row_pairs row))).
End Beam.
