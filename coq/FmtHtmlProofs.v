(* C07 - the html (MathML) format of FmtHtml.v: html.unescape undoes html.escape, the regular expression of _mathml_cat
   keeps every character of a category text, the text model is the serialisation of the element tree, and the
   independent reader of the element tree gives back the view of the derivation. *)
From Coq Require Import List NArith Bool Arith Lia.
Import ListNotations.
Require Import Cat CatFacts CatLex Tree GenTables Fmt FmtCodec FmtHtml.
Local Open Scope N_scope.

(* ================= html.escape / unescape ================= *)
Lemma entity_at_nonamp c r : N.eqb cAMP c = false -> entity_at (c :: r) = None.
Proof.
  intros H. unfold entity_at, e_amp, e_lt, e_gt, e_quot, e_apos. cbn [starts_with].
  change 38 with cAMP. now rewrite H.
Qed.

Lemma unesc_esc1 c rest : unesc 0 (esc1 c ++ rest) = c :: unesc 0 rest.
Proof.
  unfold esc1.
  destruct (N.eqb_spec c cAMP) as [->|H1]; [reflexivity|].
  destruct (N.eqb_spec c cLT) as [->|H2]; [reflexivity|].
  destruct (N.eqb_spec c cGT) as [->|H3]; [reflexivity|].
  destruct (N.eqb_spec c cQUOT) as [->|H4]; [reflexivity|].
  destruct (N.eqb_spec c cAPOS) as [->|H5]; [reflexivity|].
  cbn [app unesc]. rewrite entity_at_nonamp; [reflexivity|].
  apply N.eqb_neq. congruence.
Qed.

Theorem html_unescape_escape : forall s, html_unescape (html_escape s) = s.
Proof.
  unfold html_unescape, html_escape. induction s as [|c s IH]; [reflexivity|].
  cbn [flat_map]. now rewrite unesc_esc1, IH.
Qed.

Lemma esc1_nonnil c : esc1 c <> [].
Proof.
  unfold esc1. repeat match goal with |- context [N.eqb ?a ?b] => destruct (N.eqb a b) end; discriminate.
Qed.

Lemma html_escape_nil_iff s : html_escape s = [] <-> s = [].
Proof.
  split; [|now intros ->]. destruct s as [|c s]; [reflexivity|]. unfold html_escape. cbn [flat_map]. intros H.
  apply app_eq_nil in H as [H _]. now apply esc1_nonnil in H.
Qed.

(* ================= the scanner ================= *)
Definition glue (p : text * text) : text := fst p ++ snd p.

(* the texts on which the expression loses nothing: runs of non-bracket characters, each followed by at most one
   [feature] whose content is non-empty, free of brackets and of U+000A, and a bracket group is never followed by '[' *)
Inductive sst := SQ0 | SQ1 | SQ2 | SQ3.    (* after a group / at the start;  inside a run;  just after '[';  inside a feature *)
Definition sstep (q : sst) (c : N) : option sst :=
  match q with
  | SQ0 => if is_br c then None else Some SQ1
  | SQ1 => if N.eqb c cLB then Some SQ2 else if N.eqb c cRB then None else Some SQ1
  | SQ2 => if is_br c || N.eqb c hNL then None else Some SQ3
  | SQ3 => if N.eqb c cRB then Some SQ0 else if N.eqb c cLB || N.eqb c hNL then None else Some SQ3
  end.
Fixpoint srun (q : sst) (s : text) : option sst :=
  match s with
  | [] => Some q
  | c :: r => match sstep q c with Some q' => srun q' r | None => None end
  end.
Definition outside (q : sst) : Prop := q = SQ0 \/ q = SQ1.

Lemma srun_app q a b : srun q (a ++ b) = match srun q a with Some q' => srun q' b | None => None end.
Proof.
  revert q. induction a as [|c a IH]; intros q; cbn [app srun]; [reflexivity|].
  destruct (sstep q c); [apply IH | reflexivity].
Qed.

Lemma span_run_spec s : forall a b, span_run s = (a, b) ->
  s = a ++ b /\ srun SQ1 s = srun SQ1 b /\ match b with [] => True | c :: _ => is_br c = true end /\
  (List.length b <= List.length s)%nat.
Proof.
  induction s as [|c r IH]; intros a b E; cbn [span_run] in E.
  - inversion E; subst. cbn. auto.
  - destruct (is_br c) eqn:Hc.
    + inversion E; subst. cbn [app]. repeat split; [exact Hc | lia].
    + destruct (span_run r) as [a1 b1] eqn:E1. inversion E; subst.
      destruct (IH a1 b eq_refl) as (Hs & Hr & Hb & Hl). repeat split.
      * cbn [app]. now f_equal.
      * cbn [srun sstep]. unfold is_br in Hc. apply orb_false_iff in Hc as [C1 C2]. now rewrite C1, C2.
      * exact Hb.
      * cbn [List.length]. lia.
Qed.

Lemma find_close_spec s : forall q, srun SQ3 s = Some q -> outside q ->
  exists a b, find_close s = Some (a, b) /\ s = a ++ [cRB] ++ b /\ srun SQ3 s = srun SQ0 b.
Proof.
  induction s as [|c r IH]; intros q E Hq; cbn [srun] in E.
  - inversion E; subst. destruct Hq; discriminate.
  - cbn [find_close srun]. cbn [sstep] in *. destruct (N.eqb_spec c cRB) as [->|Hc].
    + exists [], r. repeat split.
    + destruct (N.eqb c cLB); [discriminate|]. destruct (N.eqb c hNL); [discriminate|]. cbn [orb] in *.
      destruct (IH q E Hq) as (a & b & Ef & Es & Er). exists (c :: a), b. rewrite Ef, Er. subst r. repeat split.
Qed.

(* a bracket met inside a run opens a complete group *)
Lemma bracket_group_spec c r q : is_br c = true -> srun SQ1 (c :: r) = Some q -> outside q ->
  exists g b, bracket_group (c :: r) = Some (g, b) /\ c :: r = g ++ b /\ srun SQ1 (c :: r) = srun SQ0 b /\
              (List.length b < List.length (c :: r))%nat.
Proof.
  intros Hc E Hq. cbn [srun sstep] in *. destruct (N.eqb_spec c cLB) as [->|N1].
  - destruct r as [|x r]; [inversion E; subst; destruct Hq; discriminate|].
    cbn [srun sstep] in *. destruct (is_br x) eqn:Bx; [discriminate|]. destruct (N.eqb x hNL) eqn:Nx; [discriminate|]. cbn [orb] in *.
    destruct (find_close_spec r q E Hq) as (a & b & Ef & Es & Er).
    exists (cLB :: x :: a ++ [cRB]), b. cbn [bracket_group]. rewrite N.eqb_refl, Nx, Ef. cbn [andb negb]. subst r.
    repeat split.
    + cbn [app]. now rewrite <- app_assoc.
    + exact Er.
    + cbn [List.length]. rewrite !app_length. cbn [List.length]. lia.
  - unfold is_br in Hc. apply orb_true_iff in Hc as [Hc|Hc]; [apply N.eqb_eq in Hc; congruence|]. rewrite Hc in E. discriminate.
Qed.

(* after a group (or at the start) nothing but a run can follow: no second group *)
Lemma bracket_group_none b q : srun SQ0 b = Some q -> bracket_group b = None.
Proof.
  destruct b as [|c r]; [reflexivity|]. cbn [srun sstep]. intros E. destruct (is_br c) eqn:Hc; [discriminate|].
  unfold is_br in Hc. apply orb_false_iff in Hc as [C1 _]. destruct r as [|x r]; cbn [bracket_group]; [reflexivity|]. now rewrite C1.
Qed.

Lemma hgroups_stop n b g q : srun SQ0 b = Some q -> hgroups n b g = (g, b).
Proof. intros E. destruct n as [|n]; cbn [hgroups]; [reflexivity|]. now rewrite (bracket_group_none b q E). Qed.

Lemma hscan_reassembles : forall f s q, (List.length s <= f)%nat -> srun SQ0 s = Some q -> outside q ->
  concat (map glue (hscan f s)) = s.
Proof.
  induction f as [|f IH]; intros s q Hl E Hq.
  - destruct s; [reflexivity | cbn [List.length] in Hl; lia].
  - destruct s as [|c r]; [reflexivity|]. cbn [hscan]. pose proof E as E0. cbn [srun sstep] in E.
    destruct (is_br c) eqn:Hc; [discriminate|].
    destruct (span_run (c :: r)) as [g1 rest] eqn:Es.
    destruct (span_run_spec (c :: r) g1 rest Es) as (Hs & Hr & Hb & Hlen).
    assert (E1 : srun SQ1 rest = Some q).
    { rewrite <- Hr. cbn [srun sstep]. unfold is_br in Hc. apply orb_false_iff in Hc as [C1 C2]. rewrite C1, C2.
      cbn [srun sstep] in E0. exact E. }
    assert (Hg1 : (1 <= List.length g1)%nat).
    { cbn [span_run] in Es. rewrite Hc in Es. destruct (span_run r) as [a1 b1]. inversion Es; subst. cbn [List.length]. lia. }
    destruct rest as [|c' r'].
    + cbn [List.length hgroups]. cbn [map concat glue fst snd].
      assert (Hz : hscan f [] = []) by (destruct f; reflexivity). rewrite Hz. cbn [map concat]. unfold glue. cbn [fst snd]. rewrite !app_nil_r. rewrite app_nil_r in Hs. now symmetry.
    + destruct (bracket_group_spec c' r' q Hb E1 Hq) as (g & b & Eg & Ecr & Eq & Hlb).
      cbn [List.length]. cbn [hgroups]. rewrite Eg. rewrite Eq in E1. rewrite (hgroups_stop _ b g q E1).
      cbn [map concat]. unfold glue at 1. cbn [fst snd]. rewrite (IH b q); [| | exact E1 | exact Hq].
      * rewrite Hs, Ecr. now rewrite <- app_assoc.
      * assert (HL : List.length (c :: r) = (List.length g1 + List.length (c' :: r'))%nat) by (rewrite Hs at 1; apply app_length).
        cbn [List.length] in *. lia.
Qed.

(* ---- str(c) of a category value is such a text ---- *)
Lemma plainc_nobr c : plainc c = true -> is_br c = false.
Proof.
  unfold plainc, is_br. intros H. apply andb_true_iff in H as [H _]. apply negb_true_iff in H.
  destruct (N.eqb_spec c cLB) as [->|_]; [discriminate H|]. destruct (N.eqb_spec c cRB) as [->|_]; [discriminate H|]. reflexivity.
Qed.

Lemma srun_plain b : allplain b = true -> forall q, outside q -> b <> [] -> srun q b = Some SQ1.
Proof.
  induction b as [|c b IH]; intros Hb q Hq Hne; [congruence|].
  unfold allplain in Hb. cbn [forallb] in Hb. apply andb_true_iff in Hb as [Hc Hb].
  pose proof (plainc_nobr c Hc) as Bc. pose proof Bc as Bc'. unfold is_br in Bc'. apply orb_false_iff in Bc' as [C1 C2].
  cbn [srun]. assert (Es : sstep q c = Some SQ1) by (destruct Hq as [-> | ->]; cbn [sstep]; [now rewrite Bc | now rewrite C1, C2]).
  rewrite Es. destruct b as [|c2 b2]; [reflexivity|]. apply IH; [exact Hb | now right | discriminate].
Qed.

Lemma srun_feat ft : allplain ft = true -> has hNL ft = false -> forall q, q = SQ2 \/ q = SQ3 -> ft <> [] -> srun q ft = Some SQ3.
Proof.
  induction ft as [|c b IH]; intros Hb Hn q Hq Hne; [congruence|].
  unfold allplain in Hb. cbn [forallb] in Hb. apply andb_true_iff in Hb as [Hc Hb].
  unfold has in Hn. cbn [existsb] in Hn. apply orb_false_iff in Hn as [N1 N2]. rewrite N.eqb_sym in N1.
  pose proof (plainc_nobr c Hc) as Bc. pose proof Bc as Bc'. unfold is_br in Bc'. apply orb_false_iff in Bc' as [C1 C2].
  cbn [srun]. assert (Es : sstep q c = Some SQ3) by (destruct Hq as [-> | ->]; cbn [sstep]; [now rewrite Bc, N1 | now rewrite C2, C1, N1]).
  rewrite Es. destruct b as [|c2 b2]; [reflexivity|]. apply IH; [exact Hb | exact N2 | now right | discriminate].
Qed.

Lemma srun_single c q : outside q -> is_br c = false -> srun q [c] = Some SQ1.
Proof.
  intros Hq Bc. pose proof Bc as Bc'. unfold is_br in Bc'. apply orb_false_iff in Bc' as [C1 C2].
  destruct Hq as [-> | ->]; cbn [srun sstep]; [now rewrite Bc | now rewrite C1, C2].
Qed.

Lemma srun_show c : wfc c -> nonl_feats c = true -> forall q, outside q -> exists q', srun q (show c) = Some q' /\ outside q'.
Proof.
  induction c as [b f | l IHl s r IHr]; intros Hw Hn q Hq; cbn [wf nonl_feats show] in *.
  - destruct Hw as ([Hb0 Hb] & Hf & _). apply negb_true_iff in Hn.
    pose proof (allplain_show_feat f Hf) as Pf.
    destruct (show_feat f) as [|x ft] eqn:Ef.
    + exists SQ1. split; [now apply srun_plain | now right].
    + exists SQ0. split; [|now left]. rewrite srun_app, (srun_plain b Hb q Hq Hb0). rewrite srun_app. cbn [srun sstep].
      change (N.eqb cLB cLB) with true. cbv iota. rewrite srun_app, (srun_feat (x :: ft) Pf Hn SQ2 (or_introl eq_refl) ltac:(discriminate)).
      reflexivity.
  - destruct Hw as (Hl & Hs & Hr). apply andb_true_iff in Hn as [Nl Nr].
    assert (P : forall x, (forall q, outside q -> exists q', srun q (show x) = Some q' /\ outside q') ->
                forall q, outside q -> exists q', srun q (match x with Fun _ _ _ => [cLP] ++ show x ++ [cRP] | _ => show x end) = Some q' /\ outside q').
    { intros x Hx q0 Hq0. destruct x as [xb xf | xl xs xr]; [now apply Hx|].
      rewrite srun_app, (srun_single cLP q0 Hq0 eq_refl), srun_app.
      destruct (Hx SQ1 (or_intror eq_refl)) as (q1 & E1 & O1). rewrite E1, (srun_single cRP q1 O1 eq_refl). exists SQ1. split; [reflexivity | now right]. }
    destruct (P l (IHl Hl Nl) q Hq) as (q1 & E1 & O1).
    rewrite srun_app, E1, srun_app.
    assert (Es : srun q1 s = Some SQ1) by (destruct Hs as [-> | [-> | ->]]; now apply srun_single).
    rewrite Es. apply (P r (IHr Hr Nr) SQ1). now right.
Qed.

Theorem mathml_scan_reassembles : forall c, wfc c -> nonl_feats c = true ->
  concat (map (fun p => fst p ++ snd p) (mathml_scan (show c))) = show c.
Proof.
  intros c Hw Hn. destruct (srun_show c Hw Hn SQ0 (or_introl eq_refl)) as (q & E & O).
  exact (hscan_reassembles (List.length (show c)) (show c) q (le_n _) E O).
Qed.

(* ================= the text model is the serialised element tree ================= *)
Lemma hser_el tag a kids : hser (HEl tag a kids) = [cLT] ++ tag ++ a ++ [cGT] ++ hser_list kids ++ [cLT; cSL] ++ tag ++ [cGT].
Proof.
  cbn [hser]. do 5 f_equal. unfold hser_list. induction kids as [|k r IH]; [reflexivity|]. cbn [map concat]. now rewrite IH.
Qed.
Lemma hser_list_cons n l : hser_list (n :: l) = hser n ++ hser_list l.
Proof. reflexivity. Qed.
Lemma hser_list_nil : hser_list [] = [].
Proof. reflexivity. Qed.
Lemma hser_text s : hser (HText s) = html_escape s.
Proof. reflexivity. Qed.

Lemma mathml_piece_ser p : mathml_piece p = hser (cat_piece_node p).
Proof.
  destruct p as [a f]. unfold mathml_piece, cat_piece_node. cbn [fst snd].
  destruct f as [|x f].
  - cbn [html_escape flat_map]. rewrite hser_el, hser_list_cons, hser_list_nil, hser_text, app_nil_r.
    rewrite <- ?app_assoc. reflexivity.
  - destruct (html_escape (x :: f)) as [|y e] eqn:E; [apply (proj1 (html_escape_nil_iff _)) in E; discriminate E|]. rewrite <- E. clear E y e.
    rewrite !hser_el, !hser_list_cons, !hser_list_nil, !hser_el, !hser_list_cons, !hser_list_nil, !hser_text, !hser_el, !hser_list_cons, !hser_list_nil, !hser_text.
    rewrite ?app_nil_r. rewrite <- ?app_assoc. reflexivity.
Qed.

Lemma mathml_cat_ser c : mathml_cat (show c) = hser_list (cat_nodes c).
Proof.
  unfold mathml_cat, cat_nodes, hser_list. rewrite map_map. f_equal. apply map_ext. exact mathml_piece_ser.
Qed.

Lemma hser_tree_el fa top c rule :
  hser (tree_el fa top c rule) ++ ws0 =
  [cLT] ++ t_mrow ++ [cGT] ++ ws2 ++ [cLT] ++ t_mfrac ++ fa ++ [cGT] ++ ws4 ++ hser top ++ ws4 ++
  [cLT] ++ t_mstyle ++ a_style ++ [cGT] ++ mathml_cat (show c) ++ [cLT; cSL] ++ t_mstyle ++ [cGT] ++ ws2 ++ [cLT; cSL] ++ t_mfrac ++ [cGT] ++ ws2 ++
  [cLT] ++ t_mtext ++ a_rule ++ [cGT] ++ html_escape rule ++ [cLT; cSL] ++ t_mtext ++ [cGT] ++ ws0 ++ [cLT; cSL] ++ t_mrow ++ [cGT] ++ ws0.
Proof.
  unfold tree_el. rewrite mathml_cat_ser.
  rewrite hser_el, !hser_list_cons, hser_list_nil, !hser_text.
  rewrite hser_el, !hser_list_cons, hser_list_nil, !hser_text.
  rewrite (hser_el t_mstyle), (hser_el t_mtext), !hser_list_cons, hser_list_nil, !hser_text.
  rewrite ?app_nil_r. rewrite <- ?app_assoc. reflexivity.
Qed.

Lemma mathml_subtree_node t : mathml_subtree t = option_map (fun n => hser n ++ ws0) (mathml_node t).
Proof.
  induction t as [c tok o y | c o y t1 IH | c o y hl l IHl r IHr]; cbn [mathml_subtree mathml_node].
  - destruct (leaf_word tok) as [w|]; [|reflexivity]. cbn [option_map]. f_equal.
    rewrite hser_tree_el. rewrite hser_el, hser_list_cons, hser_list_nil, hser_text, app_nil_r.
    unfold fmt_terminal. rewrite <- ?app_assoc. reflexivity.
  - rewrite IH. destruct (mathml_node t1) as [n1|]; [|reflexivity]. cbn [option_map]. f_equal.
    rewrite hser_tree_el. rewrite hser_el, !hser_list_cons, hser_list_nil, hser_text, app_nil_r.
    unfold fmt_nonterminal. rewrite <- ?app_assoc. reflexivity.
  - rewrite IHl, IHr. destruct (mathml_node l) as [n1|]; [|reflexivity]. destruct (mathml_node r) as [n2|]; [|reflexivity]. cbn [option_map]. f_equal.
    rewrite hser_tree_el. rewrite hser_el, !hser_list_cons, hser_list_nil, !hser_text, app_nil_r.
    unfold fmt_nonterminal. rewrite <- ?app_assoc. reflexivity.
Qed.

Theorem mathml_subtree_ser : forall t, mathml_subtree t = option_map hser_list (mathml_nodes t).
Proof.
  intros t. rewrite mathml_subtree_node. unfold mathml_nodes. destruct (mathml_node t) as [n|]; [|reflexivity].
  cbn [option_map]. now rewrite hser_list_cons, hser_list_cons, hser_list_nil, hser_text, app_nil_r.
Qed.

(* ================= the reader of the element tree ================= *)
Lemma hdec_unfold tag a kids : hdec (HEl tag a kids) = hdec_el tag kids (filter hkeep (map (fun k => (k, hdec k)) kids)).
Proof.
  reflexivity.
Qed.

Lemma hkeep_ws s ro l : h_is_ws s = true -> filter hkeep ((HText s, ro) :: l) = filter hkeep l.
Proof. intros H. cbn [filter]. unfold hkeep. cbn [fst h_is_ws_node]. now rewrite H. Qed.
Lemma hkeep_el tag a kids ro l : filter hkeep ((HEl tag a kids, ro) :: l) = (HEl tag a kids, ro) :: filter hkeep l.
Proof. reflexivity. Qed.
Lemma ws_ws0 : h_is_ws ws0 = true. Proof. reflexivity. Qed.
Lemma ws_ws2 : h_is_ws ws2 = true. Proof. reflexivity. Qed.
Lemma ws_ws4 : h_is_ws ws4 = true. Proof. reflexivity. Qed.

Lemma hdec_mtext a s : hdec (HEl t_mtext a [HText s]) = RWord s.
Proof. rewrite hdec_unfold. unfold hdec_el. cbn [h_text_of]. rewrite app_nil_r. reflexivity. Qed.

(* the category text *)
Fixpoint mi_list (l : list hnode) : option text :=
  match l with
  | [] => Some []
  | k :: r => match mi_texts k, mi_list r with Some a, Some b => Some (a ++ b) | _, _ => None end
  end.
Lemma mi_texts_style a kids : mi_texts (HEl t_mstyle a kids) = mi_list kids.
Proof. cbn [mi_texts]. change (text_eqb t_mstyle t_mi) with false. change (text_eqb t_mstyle t_mstyle) with true. cbv iota. cbn [orb].
  induction kids as [|k r IH]; [reflexivity|]. cbn [mi_list]. now rewrite IH. Qed.

Lemma mi_texts_piece p : mi_texts (cat_piece_node p) = Some (fst p ++ snd p).
Proof.
  destruct p as [a f]. unfold cat_piece_node. cbn [fst snd]. destruct f as [|x f].
  - cbn [mi_texts]. change (text_eqb t_mi t_mi) with true. cbv iota. cbn [h_text_of]. reflexivity.
  - cbn [mi_texts]. change (text_eqb t_msub t_mi) with false. change (text_eqb t_msub t_mstyle) with false. change (text_eqb t_msub t_msub) with true.
    change (text_eqb t_mrow t_mi) with false. change (text_eqb t_mrow t_mstyle) with false. change (text_eqb t_mrow t_msub) with false.
    change (text_eqb t_mrow t_mrow) with true. change (text_eqb t_mi t_mi) with true. cbv iota. cbn [orb].
    change (h_is_ws ws2) with true. change (h_is_ws ws0) with true. cbv iota. cbn [h_text_of]. cbn [app].
    rewrite !app_nil_r. reflexivity.
Qed.

Lemma mi_list_pieces l : mi_list (map cat_piece_node l) = Some (concat (map glue l)).
Proof.
  induction l as [|p l IH]; [reflexivity|]. cbn [map mi_list concat]. now rewrite mi_texts_piece, IH.
Qed.

Lemma mi_texts_cat c a : wfc c -> nonl_feats c = true -> mi_texts (HEl t_mstyle a (cat_nodes c)) = Some (show c).
Proof.
  intros Hw Hn. rewrite mi_texts_style. unfold cat_nodes. rewrite mi_list_pieces. f_equal. exact (mathml_scan_reassembles c Hw Hn).
Qed.

(* one tree element, given what its premise part is *)
Lemma hdec_tree_el fa top c rule : wfc c -> nonl_feats c = true -> h_is_ws_node top = false ->
  hdec (tree_el fa top c rule) =
  match hdec top with
  | RWord w => if text_eqb rule s_lex then RTree (VLeaf c w) else RNothing
  | RPrems [v] => RTree (VUn c rule v)
  | RPrems [l; r] => RTree (VBin c rule true l r)
  | _ => RNothing
  end.
Proof.
  intros Hw Hn Ht. unfold tree_el. rewrite hdec_unfold. cbn [map].
  rewrite (hkeep_ws ws2 _ _ ws_ws2), hkeep_el, (hkeep_ws ws2 _ _ ws_ws2), hkeep_el, (hkeep_ws ws0 _ _ ws_ws0). cbn [filter].
  rewrite hdec_mtext.
  rewrite (hdec_unfold t_mfrac). cbn [map].
  rewrite (hkeep_ws ws4 _ _ ws_ws4).
  assert (Kt : forall ro l, filter hkeep ((top, ro) :: l) = (top, ro) :: filter hkeep l).
  { intros ro l. cbn [filter]. unfold hkeep at 1. cbn [fst]. now rewrite Ht. }
  rewrite Kt, (hkeep_ws ws4 _ _ ws_ws4), hkeep_el, (hkeep_ws ws2 _ _ ws_ws2). cbn [filter].
  unfold hdec_el at 2.
  change (text_eqb t_mfrac t_mtext) with false. change (text_eqb t_mfrac t_mfrac) with true. cbv iota.
  cbn [h_tag_is]. change (text_eqb t_mstyle t_mstyle) with true. cbv iota.
  rewrite (mi_texts_cat c a_style Hw Hn), (parse_cat_show c Hw).
  unfold hdec_el.
  change (text_eqb t_mrow t_mtext) with false. change (text_eqb t_mrow t_mfrac) with false. change (text_eqb t_mrow t_mrow) with true. cbv iota.
  destruct (hdec top) as [v | c0 w0 | c0 vs0 | vs | w | ]; cbn [h_all_trees]; try reflexivity.
Qed.

Lemma mathml_node_is_el t n : mathml_node t = Some n -> h_is_ws_node n = false.
Proof.
  destruct t as [c tok o y | c o y t1 | c o y hl l r]; cbn [mathml_node]; intros E.
  - destruct (leaf_word tok); [|discriminate]. inversion E; reflexivity.
  - destruct (mathml_node t1); [|discriminate]. inversion E; reflexivity.
  - destruct (mathml_node l); [|discriminate]. destruct (mathml_node r); [|discriminate]. inversion E; reflexivity.
Qed.

Lemma cats_nonl_cat t : cats_nonl t = true -> nonl_feats (tcat t) = true.
Proof. destruct t; cbn [cats_nonl tcat]; rewrite ?andb_true_iff; tauto. Qed.

Lemma hdec_mathml_node t : cats_wf t -> cats_nonl t = true -> forall n, mathml_node t = Some n ->
  exists v, view_html t = Some v /\ hdec n = RTree v.
Proof.
  unfold view_html.
  induction t as [c tok o y | c o y t1 IH | c o y hl l IHl r IHr]; intros Hc Hn n E; cbn [cats_wf cats_nonl mathml_node project pick_label] in *.
  - destruct (leaf_word tok) as [w|]; [|discriminate]. inversion E; subst n. exists (VLeaf c w). split; [reflexivity|].
    rewrite hdec_tree_el; [| exact Hc | exact Hn | reflexivity]. rewrite hdec_mtext. now rewrite text_eqb_refl.
  - destruct Hc as [Hc H1]. apply andb_true_iff in Hn as [Hn N1].
    destruct (mathml_node t1) as [n1|] eqn:E1; [|discriminate]. inversion E; subst n.
    destruct (IH H1 N1 n1 eq_refl) as (v1 & Ev1 & Ed1). rewrite Ev1. exists (VUn c o v1). split; [reflexivity|].
    rewrite hdec_tree_el; [| exact Hc | exact Hn | reflexivity].
    rewrite hdec_unfold. cbn [map]. pose proof (mathml_node_is_el t1 n1 E1) as W1.
    assert (K1 : forall ro l, filter hkeep ((n1, ro) :: l) = (n1, ro) :: filter hkeep l) by (intros ro l0; cbn [filter]; unfold hkeep at 1; cbn [fst]; now rewrite W1).
    rewrite K1, (hkeep_ws ws0 _ _ ws_ws0). cbn [filter]. rewrite Ed1.
    unfold hdec_el. change (text_eqb t_mrow t_mtext) with false. change (text_eqb t_mrow t_mfrac) with false. change (text_eqb t_mrow t_mrow) with true.
    reflexivity.
  - destruct Hc as (Hc & H1 & H2). apply andb_true_iff in Hn as [Hn N2]. apply andb_true_iff in Hn as [Hn N1].
    destruct (mathml_node l) as [n1|] eqn:E1; [|discriminate]. destruct (mathml_node r) as [n2|] eqn:E2; [|discriminate]. inversion E; subst n.
    destruct (IHl H1 N1 n1 eq_refl) as (v1 & Ev1 & Ed1). destruct (IHr H2 N2 n2 eq_refl) as (v2 & Ev2 & Ed2). rewrite Ev1, Ev2.
    exists (VBin c o true v1 v2). split; [reflexivity|].
    rewrite hdec_tree_el; [| exact Hc | exact Hn | reflexivity].
    rewrite hdec_unfold. cbn [map]. pose proof (mathml_node_is_el l n1 E1) as W1. pose proof (mathml_node_is_el r n2 E2) as W2.
    assert (K1 : forall ro l0, filter hkeep ((n1, ro) :: l0) = (n1, ro) :: filter hkeep l0) by (intros ro l0; cbn [filter]; unfold hkeep at 1; cbn [fst]; now rewrite W1).
    assert (K2 : forall ro l0, filter hkeep ((n2, ro) :: l0) = (n2, ro) :: filter hkeep l0) by (intros ro l0; cbn [filter]; unfold hkeep at 1; cbn [fst]; now rewrite W2).
    rewrite K1, (hkeep_ws ws0 _ _ ws_ws0), K2, (hkeep_ws ws0 _ _ ws_ws0). cbn [filter]. rewrite Ed1, Ed2.
    unfold hdec_el. change (text_eqb t_mrow t_mtext) with false. change (text_eqb t_mrow t_mfrac) with false. change (text_eqb t_mrow t_mrow) with true.
    reflexivity.
Qed.

(* the reader gives the view of the derivation: shape, every category as a value, op_string labels, words.
   Hypotheses: the categories are category values (cats_wf) and no feature text contains U+000A (cats_nonl);
   without the second one the statement is false, see html_roundtrip_newline_refuted *)
Theorem html_roundtrip : forall t n, cats_wf t -> cats_nonl t = true -> mathml_node t = Some n ->
  dec_mathml n = view_html t /\ view_html t <> None.
Proof.
  intros t n Hc Hn E. destruct (hdec_mathml_node t Hc Hn n E) as (v & Ev & Ed). unfold dec_mathml. rewrite Ed, Ev. split; [reflexivity | discriminate].
Qed.

(* the same on the node list that _mathml_subtree serialises (element + trailing newline) *)
Corollary html_roundtrip_list : forall t ns, cats_wf t -> cats_nonl t = true -> mathml_nodes t = Some ns ->
  dec_mathml_list ns = view_html t /\ view_html t <> None.
Proof.
  intros t ns Hc Hn E. unfold mathml_nodes in E. destruct (mathml_node t) as [n|] eqn:En; [|discriminate]. inversion E; subst ns.
  unfold dec_mathml_list. cbn [filter]. rewrite (mathml_node_is_el t n En). cbn [negb h_is_ws_node]. change (h_is_ws ws0) with true. cbn [negb].
  now apply html_roundtrip.
Qed.

(* the printer fails exactly when the view is undefined (a token without 'word') *)
Lemma mathml_node_none t : mathml_node t = None <-> view_html t = None.
Proof.
  unfold view_html. induction t as [c tok o y | c o y t1 IH | c o y hl l IHl r IHr]; cbn [mathml_node project].
  - destruct (leaf_word tok); split; congruence.
  - destruct (mathml_node t1), (project leaf_word LabString false t1); split; intros H; try congruence; try discriminate;
      destruct IH as [I1 I2]; try (specialize (I1 eq_refl)); try (specialize (I2 eq_refl)); congruence.
  - destruct (mathml_node l), (project leaf_word LabString false l), (mathml_node r), (project leaf_word LabString false r); split; intros H;
      try congruence; try discriminate; destruct IHl as [I1 I2]; destruct IHr as [J1 J2];
      try (specialize (I1 eq_refl)); try (specialize (I2 eq_refl)); try (specialize (J1 eq_refl)); try (specialize (J2 eq_refl)); congruence.
Qed.

(* what the view keeps of the leaves: the words and the leaf categories, in order *)
Lemma view_html_leaves t v : view_html t = Some v ->
  map (fun cx => Some (snd cx)) (vleaves v) = map (fun ct => leaf_word (snd ct)) (leaves t) /\ map fst (vleaves v) = map fst (leaves t).
Proof.
  unfold view_html. revert v. induction t as [c tok o y | c o y t1 IH | c o y hl l IHl r IHr]; intros v E; cbn [project] in E.
  - destruct (leaf_word tok) as [w|] eqn:Ew; [|discriminate]. inversion E; subst. cbn [vleaves leaves map fst snd]. now rewrite Ew.
  - destruct (project _ _ _ t1) as [v1|]; [|discriminate]. inversion E; subst. cbn [vleaves leaves]. now apply IH.
  - destruct (project _ _ _ l) as [v1|]; [|discriminate]. destruct (project _ _ _ r) as [v2|]; [|discriminate].
    inversion E; subst. cbn [vleaves leaves]. rewrite !map_app. destruct (IHl v1 eq_refl) as [A1 B1]. destruct (IHr v2 eq_refl) as [A2 B2].
    now rewrite A1, A2, B1, B2.
Qed.

(* ---- the newline hypothesis is needed: '.' of the regular expression does not match U+000A, so the brackets of a
   feature that contains a newline are dropped (html.py:63) and the category S[a<newline>b] is printed like an atom *)
Definition newline_cat : cat := Atom [83] (FUn [97; 10; 98]).
Definition newline_tree : tree := Leaf newline_cat [(k_word, [119])] s_lex s_lexsym.
Lemma html_roundtrip_newline_refuted :
  exists t n, cats_wf t /\ mathml_node t = Some n /\ dec_mathml n <> view_html t /\
              concat (map (fun p => fst p ++ snd p) (mathml_scan (show (tcat t)))) <> show (tcat t).
Proof.
  exists newline_tree. eexists. split; [apply cats_wfb_ok; vm_compute; reflexivity|]. split; [reflexivity|].
  split; vm_compute; discriminate.
Qed.

(* the hypotheses are satisfiable by a non-trivial derivation: (S[dcl]\NP)/NP applied, with escaped characters *)
Definition html_example : tree :=
  Bin (Fun (Atom [83] (FUn [100; 99; 108])) [cBS] (Atom [78; 80] FNone)) [102; 97] [62] true
      (Leaf (Fun (Fun (Atom [83] (FUn [100; 99; 108])) [cBS] (Atom [78; 80] FNone)) [cSL] (Atom [78; 80] FNone)) [(k_word, [38; 60])] s_lex s_lexsym)
      (Un (Atom [78; 80] FNone) [108; 101; 120] s_unsym (Leaf (Atom [78] FNone) [(k_word, [39; 34])] s_lex s_lexsym)).
Lemma html_example_ok : cats_wfb html_example = true /\ cats_nonl html_example = true /\
  (exists n, mathml_node html_example = Some n /\ dec_mathml n = view_html html_example) /\
  option_map html_unescape (option_map html_escape (Some [38; 60; 39; 34])) = Some [38; 60; 39; 34].
Proof. split; [vm_compute; reflexivity|]. split; [vm_compute; reflexivity|]. split; [eexists; split; [reflexivity | vm_compute; reflexivity] | vm_compute; reflexivity]. Qed.

(* ================= the parser reads back what hser writes ================= *)
Local Open Scope nat_scope.

Lemma span_until_app stop a b : forallb (fun c => negb (stop c)) a = true ->
  match b with [] => True | c :: _ => stop c = true end -> span_until stop (a ++ b) = (a, b).
Proof.
  intros Ha Hb. induction a as [|c a IH]; cbn [app].
  - destruct b as [|c b]; [reflexivity|]. cbn [span_until]. now rewrite Hb.
  - cbn [forallb] in Ha. apply andb_true_iff in Ha as [Hc Ha]. apply negb_true_iff in Hc. cbn [span_until]. now rewrite Hc, (IH Ha).
Qed.

Lemma strip_prefix_app p x : strip_prefix p (p ++ x) = Some x.
Proof. induction p as [|c p IH]; cbn [app strip_prefix]; [reflexivity|]. now rewrite N.eqb_refl. Qed.

Lemma esc_no_lt s : forallb (fun c => negb (N.eqb cLT c)) (html_escape s) = true.
Proof.
  unfold html_escape. induction s as [|c s IH]; [reflexivity|]. cbn [flat_map]. rewrite forallb_app, IH, andb_true_r.
  unfold esc1. repeat match goal with |- context [if N.eqb ?a ?b then _ else _] => destruct (N.eqb_spec a b) end; try reflexivity.
  cbn [forallb]. rewrite andb_true_r. apply negb_true_iff. apply N.eqb_neq. congruence.
Qed.

Lemma hnorm_el tag a kids : hnorm (HEl tag a kids) = tag_ok tag && attrs_ok a && hnorm_list kids.
Proof. unfold hnorm_list. cbn [hnorm]. rewrite <- !andb_assoc. reflexivity. Qed.

(* what may follow a node list: the end of the text or a closing tag *)
Definition rest_ok (rest : text) : Prop :=
  match rest with [] => True | c :: r => c = cLT /\ match r with d :: _ => d = cSL | [] => False end end.

Lemma starts_lt sibs rest : match sibs with n :: _ => is_text n = false | [] => True end -> rest_ok rest ->
  match hser_list sibs ++ rest with [] => True | c :: _ => N.eqb cLT c = true end.
Proof.
  intros Hs Hr. destruct sibs as [|n sibs].
  - cbn [hser_list map concat app]. destruct rest as [|c r]; [exact I|]. destruct Hr as [-> _]. reflexivity.
  - destruct n as [s | tag a kids]; [discriminate|]. rewrite hser_list_cons, hser_el. reflexivity.
Qed.

Lemma hparse_nodes_ser : forall f ns rest, hnorm_list ns = true -> rest_ok rest ->
  List.length (hser_list ns ++ rest) < f -> hparse_nodes f (hser_list ns ++ rest) = Some (ns, rest).
Proof.
  induction f as [|f IH]; intros ns rest Hn Hr Hl; [lia|].
  destruct ns as [|n sibs].
  - cbn [hser_list map concat app hparse_nodes]. destruct rest as [|c r]; [reflexivity|]. destruct Hr as [-> Hr].
    destruct r as [|d r]; [contradiction|]. subst d. reflexivity.
  - unfold hnorm_list in Hn. cbn [no_adj forallb] in Hn. apply andb_true_iff in Hn as [Hadj Hall].
    apply andb_true_iff in Hadj as [Hadj1 Hadj]. apply andb_true_iff in Hall as [Hn1 Hall].
    assert (Hsibs : hnorm_list sibs = true) by (unfold hnorm_list; now rewrite Hadj, Hall).
    rewrite hser_list_cons, <- app_assoc in *.
    destruct n as [s | tag a kids].
    + (* character data *)
      cbn [hnorm] in Hn1. destruct s as [|x s]; [discriminate|]. rewrite hser_text in *.
      pose proof (esc_no_lt (x :: s)) as Nl.
      destruct (html_escape (x :: s)) as [|c e] eqn:Ee; [apply (proj1 (html_escape_nil_iff _)) in Ee; discriminate Ee|].
      assert (Hst : match sibs with n :: _ => is_text n = false | [] => True end).
      { destruct sibs as [|n2 sibs2]; [exact I|]. cbn [is_text andb] in Hadj1. now apply negb_true_iff in Hadj1. }
      pose proof (span_until_app (N.eqb cLT) (c :: e) (hser_list sibs ++ rest) Nl (starts_lt sibs rest Hst Hr)) as Sp.
      cbn [forallb] in Nl. apply andb_true_iff in Nl as [Nc _]. apply negb_true_iff in Nc. rewrite N.eqb_sym in Nc.
      cbn [app] in *. cbn [hparse_nodes]. rewrite Nc, Sp.
      rewrite (IH sibs rest Hsibs Hr); [| cbn [List.length] in Hl; rewrite app_length in Hl; lia].
      rewrite <- Ee. fold (html_unescape (html_escape (x :: s))). now rewrite html_unescape_escape.
    + (* an element *)
      rewrite hnorm_el in Hn1. apply andb_true_iff in Hn1 as [Hn1 Hkids]. apply andb_true_iff in Hn1 as [Htag Hattr].
      set (closing := [cLT; cSL] ++ tag ++ [cGT]).
      set (tail := hser_list sibs ++ rest) in *.
      assert (Et : hser (HEl tag a kids) ++ tail = cLT :: tag ++ a ++ cGT :: hser_list kids ++ closing ++ tail).
      { rewrite hser_el. unfold closing. rewrite <- !app_assoc. reflexivity. }
      rewrite Et in *. clear Et.
      destruct tag as [|t0 tag']; [discriminate|]. unfold tag_ok in Htag. pose proof Htag as Htag0. cbn [forallb] in Htag0.
      apply andb_true_iff in Htag0 as [Ht0 _]. apply negb_true_iff in Ht0.
      assert (Ht0s : N.eqb t0 cSL = false).
      { unfold name_stop in Ht0. repeat (apply orb_false_iff in Ht0 as [Ht0 ?]). assumption. }
      assert (Sp1 : span_until name_stop ((t0 :: tag') ++ a ++ cGT :: hser_list kids ++ closing ++ tail) =
                    (t0 :: tag', a ++ cGT :: hser_list kids ++ closing ++ tail)).
      { apply span_until_app; [exact Htag|]. unfold attrs_ok in Hattr. apply andb_true_iff in Hattr as [Ha0 _].
        destruct a as [|a0 a']; [reflexivity|]. cbn [app]. unfold name_stop. apply orb_true_iff in Ha0 as [Ha0|Ha0]; rewrite Ha0; [reflexivity | now rewrite orb_true_r]. }
      assert (Sp2 : span_until (N.eqb cGT) (a ++ cGT :: hser_list kids ++ closing ++ tail) = (a, cGT :: hser_list kids ++ closing ++ tail)).
      { apply span_until_app; [|reflexivity]. unfold attrs_ok in Hattr. now apply andb_true_iff in Hattr as [_ Ha]. }
      cbn [hparse_nodes]. rewrite N.eqb_refl. cbn [app] in Sp1 |- *. rewrite Ht0s, Sp1, Sp2.
      assert (Rk : rest_ok (closing ++ tail)) by (unfold closing; cbn [app rest_ok]; split; reflexivity).
      assert (Lk : List.length (hser_list kids ++ closing ++ tail) < f).
      { cbn [List.length] in Hl. rewrite !app_length in Hl. cbn [List.length] in Hl. rewrite !app_length in Hl. rewrite !app_length. lia. }
      rewrite (IH kids (closing ++ tail) Hkids Rk Lk).
      fold closing. rewrite strip_prefix_app.
      unfold tail. rewrite (IH sibs rest Hsibs Hr); [reflexivity|].
      fold tail. rewrite !app_length in Lk. lia.
Qed.

Theorem hparse_ser : forall ns, hnorm_list ns = true -> hparse (hser_list ns) = Some ns.
Proof.
  intros ns Hn. unfold hparse. pose proof (hparse_nodes_ser (S (List.length (hser_list ns))) ns [] Hn I) as H.
  rewrite app_nil_r in H. rewrite H; [reflexivity | lia].
Qed.

(* ---- what _mathml_subtree writes is such a node list ---- *)
Lemma hscan_fst_nonnil : forall f s, Forall (fun p : text * text => fst p <> []) (hscan f s).
Proof.
  induction f as [|f IH]; intros s; cbn [hscan]; [constructor|].
  destruct s as [|c r]; [constructor|]. destruct (is_br c) eqn:Hc; [apply IH|].
  cbn [span_run]. rewrite Hc. destruct (span_run r) as [a b]. destruct (hgroups (List.length b) b []) as [g2 rest'].
  constructor; [cbn [fst]; discriminate | apply IH].
Qed.

Lemma hnorm_piece p : fst p <> [] -> hnorm (cat_piece_node p) = true /\ is_text (cat_piece_node p) = false.
Proof.
  destruct p as [a f]. cbn [fst]. intros Ha. destruct a as [|x a]; [congruence|]. destruct f as [|y f]; split; reflexivity.
Qed.

Lemma hnorm_pieces l : Forall (fun p : text * text => fst p <> []) l -> hnorm_list (map cat_piece_node l) = true.
Proof.
  intros H. induction H as [|p l Hp _ IH]; [reflexivity|]. destruct (hnorm_piece p Hp) as [N1 T1].
  unfold hnorm_list in *. apply andb_true_iff in IH as [A1 A2]. cbn [map no_adj forallb]. rewrite N1, A1, A2, T1. cbn [andb negb].
  destruct (map cat_piece_node l); reflexivity.
Qed.

Lemma hnorm_cat_nodes c : hnorm_list (cat_nodes c) = true.
Proof. unfold cat_nodes, mathml_scan. apply hnorm_pieces, hscan_fst_nonnil. Qed.

Lemma hnorm_tree_el fa top c rule : attrs_ok fa = true -> hnorm top = true -> is_text top = false -> rule <> [] ->
  hnorm (tree_el fa top c rule) = true.
Proof.
  intros Hfa Htop Tt Hrule. destruct rule as [|r0 rule]; [congruence|]. unfold tree_el.
  rewrite hnorm_el. unfold hnorm_list. cbn [no_adj forallb is_text andb negb].
  rewrite (hnorm_el t_mfrac). unfold hnorm_list at 1. cbn [no_adj forallb is_text andb negb].
  rewrite Tt, Htop, Hfa. rewrite (hnorm_el t_mstyle), hnorm_cat_nodes. reflexivity.
Qed.

Lemma hnorm_mathml_node t : texts_nonempty t = true -> forall n, mathml_node t = Some n -> hnorm n = true /\ is_text n = false.
Proof.
  induction t as [c tok o y | c o y t1 IH | c o y hl l IHl r IHr]; intros Ht n E; cbn [texts_nonempty mathml_node] in *.
  - destruct (leaf_word tok) as [w|]; [|discriminate]. inversion E; subst n. split; [|reflexivity].
    destruct w as [|w0 w]; [discriminate|]. apply hnorm_tree_el; [reflexivity | reflexivity | reflexivity | discriminate].
  - apply andb_true_iff in Ht as [Ho T1]. destruct (mathml_node t1) as [n1|]; [|discriminate]. inversion E; subst n. split; [|reflexivity].
    destruct (IH T1 n1 eq_refl) as [N1 X1].
    apply hnorm_tree_el; [reflexivity | | reflexivity | destruct o; [discriminate Ho | discriminate]].
    rewrite hnorm_el. unfold hnorm_list. cbn [no_adj forallb is_text]. now rewrite N1, X1.
  - apply andb_true_iff in Ht as [Ht T2]. apply andb_true_iff in Ht as [Ho T1].
    destruct (mathml_node l) as [n1|]; [|discriminate]. destruct (mathml_node r) as [n2|]; [|discriminate]. inversion E; subst n. split; [|reflexivity].
    destruct (IHl T1 n1 eq_refl) as [N1 X1]. destruct (IHr T2 n2 eq_refl) as [N2 X2].
    apply hnorm_tree_el; [reflexivity | | reflexivity | destruct o; [discriminate Ho | discriminate]].
    rewrite hnorm_el. unfold hnorm_list. cbn [no_adj forallb is_text]. now rewrite N1, X1, N2, X2.
Qed.

Lemma hnorm_mathml_nodes t ns : texts_nonempty t = true -> mathml_nodes t = Some ns -> hnorm_list ns = true.
Proof.
  intros Ht E. unfold mathml_nodes in E. destruct (mathml_node t) as [n|] eqn:En; [|discriminate]. inversion E; subst ns.
  destruct (hnorm_mathml_node t Ht n En) as [N1 X1]. unfold hnorm_list. cbn [no_adj forallb is_text]. now rewrite N1, X1.
Qed.

(* the parser gives back the element tree of what _mathml_subtree printed (words and rule labels non-empty) *)
Theorem hparse_mathml_subtree : forall t s, texts_nonempty t = true -> mathml_subtree t = Some s -> hparse s = mathml_nodes t.
Proof.
  intros t s Ht E. rewrite mathml_subtree_ser in E. destruct (mathml_nodes t) as [ns|] eqn:En; [|discriminate].
  cbn [option_map] in E. inversion E; subst s. now rewrite (hparse_ser ns (hnorm_mathml_nodes t ns Ht En)).
Qed.

(* from the printed TEXT back to the derivation: parse the tags, read the element tree *)
Theorem html_text_roundtrip : forall t s, cats_wf t -> cats_nonl t = true -> texts_nonempty t = true -> mathml_subtree t = Some s ->
  exists ns, hparse s = Some ns /\ dec_mathml_list ns = view_html t /\ view_html t <> None.
Proof.
  intros t s Hc Hn Ht E. rewrite (hparse_mathml_subtree t s Ht E).
  pose proof E as E'. rewrite mathml_subtree_ser in E'. destruct (mathml_nodes t) as [ns|] eqn:En; [|discriminate].
  exists ns. split; [reflexivity|]. now apply html_roundtrip_list.
Qed.

Lemma html_example_text_ok : texts_nonempty html_example = true /\
  (exists s ns, mathml_subtree html_example = Some s /\ hparse s = Some ns /\ dec_mathml_list ns = view_html html_example /\ view_html html_example <> None).
Proof.
  split; [vm_compute; reflexivity|].
  destruct (mathml_subtree html_example) as [s|] eqn:E; [|vm_compute in E; discriminate].
  destruct (html_text_roundtrip html_example s) as (ns & Ep & Ed & Ev); [apply cats_wfb_ok | | | exact E |]; try (vm_compute; reflexivity).
  exists s, ns. auto.
Qed.
