(* C06 - SPECIFICATION of pattern matching of categories (depccg/unification.py), written from the property
   text and independent of the algorithm of Unify.v (no dictionaries, no scan, no loop).
   Definitions only; the lemmas are in UnifyProofs.v, the property theorems in P_C06.v.

   The only pieces shared with the model are the value types (Cat.cat, Cat.feat), the feature-blind comparison
   `cat_xor` (Category.__xor__), the result type `res` and the one-directional feature relation `unifies`
   (Feature.unifies of cat.py, whose AttributeError on "triple meets unary" is the explicit `Err AttrErr`). *)
From Coq Require Import List NArith Bool.
Import ListNotations.
Require Import Cat Unify.
Open Scope N_scope.

(* ---------- shape ---------- *)
(* slashes match when equal, or when either side is '|' *)
Definition slash_match (p t : text) : bool := text_eqb p t || text_eqb p [cBAR] || text_eqb t [cBAR].

(* the (variable, sub-category) pairs in left-to-right order when t has the shape that pattern p requires:
   a pattern atom is a variable (its name) and matches any sub-category; a pattern functor needs a functor
   with a matching slash.  None = t does not have the shape. *)
Fixpoint binds (p t : cat) : option (list (text * cat)) :=
  match p with
  | Atom v _ => Some [(v, t)]
  | Fun pl ps pr =>
      match t with
      | Fun tl ts tr =>
          if slash_match ps ts then
            match binds pl tl, binds pr tr with
            | Some a, Some b => Some (a ++ b)
            | _, _ => None
            end
          else None
      | Atom _ _ => None
      end
  end.
Definition shape (p t : cat) : Prop := binds p t <> None.
Definition obinds (p t : cat) : list (text * cat) := match binds p t with Some b => b | None => [] end.
(* all bindings of a match of (x, y) against (px, py): those of x first *)
Definition bindings (px py x y : cat) : list (text * cat) := obinds px x ++ obinds py y.

(* ---------- variables agree ---------- *)
(* all sub-categories bound to one variable (across the two patterns and within one) are identical up to features *)
Definition vars_agree (bs : list (text * cat)) : Prop :=
  forall v c1 c2, In (v, c1) bs -> In (v, c2) bs -> cat_xor c1 c2 = true.

(* the last sub-category bound to v *)
Fixpoint last_binding (v : text) (bs : list (text * cat)) : option cat :=
  match bs with
  | [] => None
  | (w, c) :: r =>
      match last_binding v r with
      | Some c' => Some c'
      | None => if text_eqb v w then Some c else None
      end
  end.

(* ---------- features ---------- *)
(* the features of the atoms of c, left to right *)
Fixpoint leaf_feats (c : cat) : list feat :=
  match c with Atom _ f => [f] | Fun l _ r => leaf_feats l ++ leaf_feats r end.

(* the compatibility test: a.unifies(b), or else b.unifies(a); Err AttrErr = a feature triple was asked to unify
   with a unary feature (Python raises AttributeError) *)
Definition compat (a b : feat) : res bool :=
  match unifies a b with
  | Err e => Err e
  | Ok_ true => Ok_ true
  | Ok_ false => unifies b a
  end.
Definition compat_ok (a b : feat) : Prop := compat a b = Ok_ true.

(* for every variable bound on both sides: the leaf features of its last binding in x and of its last binding in y
   are position-wise compatible (each test succeeds, without error) *)
Definition feats_compatible (bx by_ : list (text * cat)) : Prop :=
  forall v cx cy, last_binding v bx = Some cx -> last_binding v by_ = Some cy ->
                  Forall2 compat_ok (leaf_feats cx) (leaf_feats cy).

(* the whole success condition *)
Definition matches (px py x y : cat) : Prop :=
  shape px x /\ shape py y /\ vars_agree (bindings px py x y) /\ feats_compatible (obinds px x) (obinds py y).

(* ---------- what "compatible" means, feature by feature (declarative; compat_true_iff in UnifyProofs) ---------- *)
Definition s_X : text := [cX].
(* a unary/absent feature that matches anything: absent, 'nb', or the variable 'X' *)
Definition lenient (f : feat) : Prop := f = FNone \/ f = FUn s_nb \/ f = FUn s_X.
(* triple a covers triple b: same keys and each value of a equals that of b or is a variable (starts with 'X') *)
Definition covers (a b : feat) : Prop :=
  match a, b with
  | FTer k1 v1 k2 v2 k3 v3, FTer l1 w1 l2 w2 l3 w3 =>
      k1 = l1 /\ k2 = l2 /\ k3 = l3 /\ (v1 = w1 \/ starts_X v1 = true) /\ (v2 = w2 \/ starts_X v2 = true) /\ (v3 = w3 \/ starts_X v3 = true)
  | _, _ => False
  end.
Definition is_ter (f : feat) : bool := match f with FTer _ _ _ _ _ _ => true | _ => false end.
(* compatible: equal; or unary features one of which is lenient; or triples one of which covers the other;
   or (mixed systems) a lenient first feature against a triple *)
Definition compatible_decl (a b : feat) : Prop :=
  a = b \/
  (is_ter a = false /\ is_ter b = false /\ (lenient a \/ lenient b)) \/
  (covers a b \/ covers b a) \/
  (lenient a /\ is_ter b = true).
(* the test raises: a triple first against a different non-triple, or a non-lenient unary feature first against a triple *)
Definition compat_raises (a b : feat) : Prop :=
  (is_ter a = true /\ is_ter b = false) \/ (is_ter a = false /\ ~ lenient a /\ is_ter b = true).

(* one feature system: no leaf feature of c is a triple / every leaf feature is a triple *)
Definition unary_system (c : cat) : Prop := Forall (fun f => is_ter f = false) (leaf_feats c).
Definition ternary_system (c : cat) : Prop := Forall (fun f => is_ter f = true) (leaf_feats c).
Definition one_system (x y : cat) : Prop :=
  (unary_system x /\ unary_system y) \/ (ternary_system x /\ ternary_system y).

(* ---------- the ordered list of comparisons (needed only to say which outcome - False or an exception - a
   failing match has; success does not depend on the order) ---------- *)
(* distinct variables in order of first occurrence *)
Fixpoint first_occ (seen vs : list text) : list text :=
  match vs with
  | [] => []
  | v :: r => if text_in v seen then first_occ seen r else v :: first_occ (v :: seen) r
  end.
Definition comparisons (bx by_ : list (text * cat)) : list (feat * feat) :=
  flat_map (fun v => match last_binding v bx, last_binding v by_ with
                     | Some cx, Some cy => combine (leaf_feats cx) (leaf_feats cy)
                     | _, _ => []
                     end) (first_occ [] (map fst bx)).
(* outcome of running the tests in order: the first test that is not `Ok_ true` decides *)
Fixpoint run_tests (l : list (feat * feat)) : res bool :=
  match l with
  | [] => Ok_ true
  | (a, b) :: r => match compat a b with Err e => Err e | Ok_ true => run_tests r | Ok_ false => Ok_ false end
  end.

(* ---------- patterns ---------- *)
Definition pattern_vars (p : cat) : list text := map fst (atoms p).
Fixpoint nodupb (l : list text) : bool := match l with [] => true | v :: r => negb (text_in v r) && nodupb r end.
(* no variable occurs twice inside the pattern *)
Definition linear_pattern (p : cat) : bool := nodupb (pattern_vars p).

(* ---------- boolean versions (for computing with the specification) ---------- *)
Definition vars_agreeb (bs : list (text * cat)) : bool :=
  forallb (fun p => forallb (fun q => negb (text_eqb (fst p) (fst q)) || cat_xor (snd p) (snd q)) bs) bs.
Definition compat_okb (a b : feat) : bool := match compat a b with Ok_ true => true | _ => false end.
Fixpoint forall2b {A B} (f : A -> B -> bool) (l1 : list A) (l2 : list B) : bool :=
  match l1, l2 with [] , [] => true | a :: r1, b :: r2 => f a b && forall2b f r1 r2 | _, _ => false end.
Definition feats_compatibleb (bx by_ : list (text * cat)) : bool :=
  forallb (fun v => match last_binding v bx, last_binding v by_ with
                    | Some cx, Some cy => forall2b compat_okb (leaf_feats cx) (leaf_feats cy)
                    | _, _ => true
                    end) (map fst bx).
Definition matchesb (px py x y : cat) : bool :=
  match binds px x, binds py y with
  | Some bx, Some by_ => vars_agreeb (bx ++ by_) && feats_compatibleb bx by_
  | _, _ => false
  end.

(* a and b stand at the same leaf position of the last bindings of a variable bound on both sides: these are
   exactly the pairs of features that a match compares *)
Definition compared (bx by_ : list (text * cat)) (a b : feat) : Prop :=
  exists v cx cy i, last_binding v bx = Some cx /\ last_binding v by_ = Some cy /\
                    nth_error (leaf_feats cx) i = Some a /\ nth_error (leaf_feats cy) i = Some b.
(* f0 (a feature of a bound sub-category) met f at a compared position of the other input *)
Definition instantiated (bx by_ : list (text * cat)) (f0 f : feat) : Prop := compared bx by_ f0 f \/ compared bx by_ f f0.
(* how a binding c relates to the bound sub-category c0: same skeleton; each feature kept, or a variable feature
   replaced by a feature it met *)
Definition binding_of (bx by_ : list (text * cat)) (c c0 : cat) : Prop :=
  skeleton c = skeleton c0 /\
  Forall2 (fun f f0 => f = f0 \/ (is_variable f0 = true /\ instantiated bx by_ f0 f)) (leaf_feats c) (leaf_feats c0).

(* ---------- which feature a variable feature ends up standing for ---------- *)
(* at a compared pair (a, b) the accepting side, if it is a variable feature, is instantiated with the other side:
   a when a.unifies(b), otherwise b *)
Definition inst_step (g : feat) (p : feat * feat) : option feat :=
  match unifies (fst p) (snd p) with
  | Ok_ true => if is_variable (fst p) && feat_eqb g (fst p) then Some (snd p) else None
  | _ => if is_variable (snd p) && feat_eqb g (snd p) then Some (fst p) else None
  end.
(* the LAST instantiation wins *)
Fixpoint instantiation (g : feat) (ps : list (feat * feat)) : option feat :=
  match ps with
  | [] => None
  | p :: r => match instantiation g r with Some h => Some h | None => inst_step g p end
  end.
Definition instantiate_feat (ps : list (feat * feat)) (f : feat) : feat :=
  match instantiation f ps with Some h => h | None => f end.
