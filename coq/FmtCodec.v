(* C07 - the independent readers of Fmt.v read back what the encoder models print: json, auto_extended. *)
From Coq Require Import List NArith Bool Arith Lia.
Import ListNotations.
Require Import Cat CatFacts CatRoundTrip Tree GenTables P_C05 Fmt.
Open Scope nat_scope.

Notation wfc := (wf puncts).

Lemma parse_cat_show c : wfc c -> parse_cat (show c) = Some c.
Proof. exact (C05_parse_show c). Qed.

(* all categories of a derivation are category values *)
Fixpoint cats_wf (t : tree) : Prop :=
  match t with
  | Leaf c _ _ _ => wfc c
  | Un c _ _ t1 => wfc c /\ cats_wf t1
  | Bin c _ _ _ l r => wfc c /\ cats_wf l /\ cats_wf r
  end.
Fixpoint cats_wfb (t : tree) : bool :=
  match t with
  | Leaf c _ _ _ => wfb puncts c
  | Un c _ _ t1 => wfb puncts c && cats_wfb t1
  | Bin c _ _ _ l r => wfb puncts c && cats_wfb l && cats_wfb r
  end.
Lemma cats_wfb_ok t : cats_wfb t = true -> cats_wf t.
Proof.
  induction t as [c tok o y | c o y t1 IH | c o y hl l IHl r IHr]; cbn [cats_wfb cats_wf]; rewrite ?andb_true_iff, ?wfb_ok; tauto.
Qed.

(* ================= json ================= *)
Definition lacks {V} (k : text) (d : list (text * V)) : Prop := Forall (fun kv => text_eqb k (fst kv) = false) d.
(* a token that can be told from a node: no key 'cat' (json_of would overwrite it) and no key 'children' *)
Fixpoint toks_json_ok (t : tree) : Prop :=
  match t with
  | Leaf _ tok _ _ => lacks k_cat tok /\ lacks k_children tok
  | Un _ _ _ t1 => toks_json_ok t1
  | Bin _ _ _ _ l r => toks_json_ok l /\ toks_json_ok r
  end.

Lemma jfold_obj {A} (fs fn : text -> A) fo fa items :
  jfold fs fn fo fa (JObj items) = fo (map (fun kv => (fst kv, jfold fs fn fo fa (snd kv))) items).
Proof.
  cbn [jfold]. f_equal. induction items as [|[k v] r IH]; [reflexivity|]. cbn [map fst snd]. now rewrite IH.
Qed.

Lemma dict_get_set_same {V} k (v : V) d : dict_get k (dict_set k v d) = Some v.
Proof.
  induction d as [|[k' v'] r IH]; cbn [dict_set dict_get].
  - now rewrite text_eqb_refl.
  - destruct (text_eqb k k') eqn:E; cbn [dict_get]; rewrite E; [reflexivity | exact IH].
Qed.

Lemma dict_get_set_other {V} k k' (v : V) d : text_eqb k k' = false -> dict_get k (dict_set k' v d) = dict_get k d.
Proof.
  intros Hk. induction d as [|[k2 v2] r IH]; cbn [dict_set dict_get].
  - now rewrite Hk.
  - destruct (text_eqb k' k2) eqn:E; cbn [dict_get].
    + apply text_eqb_eq in E. subst k2. now rewrite Hk.
    + now rewrite IH.
Qed.

Lemma dict_get_lacks {V} k (d : list (text * V)) : lacks k d -> dict_get k d = None.
Proof.
  intros H. induction H as [|[k' v'] r Hk _ IH]; cbn [dict_get]; [reflexivity|]. cbn [fst] in Hk. now rewrite Hk.
Qed.

Lemma dict_del_set_lacks {V} k (v : V) d : lacks k d -> dict_del k (dict_set k v d) = d.
Proof.
  intros H. induction H as [|[k' v'] r Hk _ IH]; cbn [dict_set dict_del].
  - now rewrite text_eqb_refl.
  - cbn [fst] in Hk. rewrite Hk. cbn [dict_del]. now rewrite Hk, IH.
Qed.

Lemma lacks_map {V W} k (f : V -> W) (d : list (text * V)) : lacks k d -> lacks k (map (fun kv => (fst kv, f (snd kv))) d).
Proof. intros H. induction H as [|kv r Hk _ IH]; cbn [map]; constructor; [exact Hk | exact IH]. Qed.

Lemma all_strings_map (tok : token) : all_strings (map (fun kv => (fst kv, DStr (snd kv))) tok) = Some tok.
Proof. induction tok as [|[k v] r IH]; cbn [map all_strings fst snd]; [reflexivity | now rewrite IH]. Qed.

Lemma map_dict_set {V W} (f : V -> W) k v (d : list (text * V)) :
  map (fun kv => (fst kv, f (snd kv))) (dict_set k v d) = dict_set k (f v) (map (fun kv => (fst kv, f (snd kv))) d).
Proof.
  induction d as [|[k' v'] r IH]; cbn [dict_set map fst snd]; [reflexivity|].
  destruct (text_eqb k k'); cbn [map fst snd]; [reflexivity | now rewrite IH].
Qed.

Lemma keys_distinct : text_eqb k_children k_cat = false /\ text_eqb k_children k_type = false /\ text_eqb k_type k_cat = false /\
                      text_eqb k_cat k_type = false /\ text_eqb k_cat k_children = false /\ text_eqb k_type k_children = false.
Proof. vm_compute. repeat split. Qed.

Theorem json_roundtrip t : cats_wf t -> toks_json_ok t ->
  exists v, view_json t = Some v /\ jfold DStr DNum dec_obj DArr (enc_json t) = DNode (Some v).
Proof.
  destruct keys_distinct as (K1 & K2 & K3 & K4 & K5 & K6).
  unfold view_json.
  induction t as [c tok o y | c o y t1 IH | c o y hl l IHl r IHr]; intros Hc Ht; cbn [cats_wf toks_json_ok] in Hc, Ht.
  - destruct Ht as [L1 L2]. exists (VLeaf c tok). split; [reflexivity|].
    cbn [enc_json]. rewrite jfold_obj.
    rewrite (map_dict_set (jfold DStr DNum dec_obj DArr)). rewrite map_map. cbn [fst snd jfold].
    set (items := map (fun kv : text * text => (fst kv, DStr (snd kv))) tok).
    assert (M1 : lacks k_cat items) by (apply (lacks_map k_cat DStr tok L1)).
    assert (M2 : lacks k_children items) by (apply (lacks_map k_children DStr tok L2)).
    unfold dec_obj. rewrite (dict_get_set_other _ _ _ _ K1), (dict_get_lacks _ _ M2), dict_get_set_same.
    rewrite (parse_cat_show c Hc), (dict_del_set_lacks _ _ _ M1). unfold items. now rewrite all_strings_map.
  - destruct Hc as [Hc H1]. destruct (IH H1 Ht) as (v & Ev & Ej). exists (VUn c o v). cbn [project pick_label]. rewrite Ev. split; [reflexivity|].
    cbn [enc_json]. rewrite jfold_obj. cbn [map fst snd]. cbn [jfold]. fold (jfold DStr DNum dec_obj DArr (enc_json t1)). rewrite Ej.
    unfold dec_obj. cbn [dict_get length]. rewrite K2, K1, K4, !text_eqb_refl. cbv beta iota.
    now rewrite (parse_cat_show c Hc).
  - destruct Hc as (Hc & H1 & H2). destruct Ht as [T1 T2].
    destruct (IHl H1 T1) as (v1 & Ev1 & Ej1). destruct (IHr H2 T2) as (v2 & Ev2 & Ej2).
    exists (VBin c o true v1 v2). cbn [project pick_label]. rewrite Ev1, Ev2. split; [reflexivity|].
    cbn [enc_json]. rewrite jfold_obj. cbn [map fst snd]. cbn [jfold].
    fold (jfold DStr DNum dec_obj DArr (enc_json l)). fold (jfold DStr DNum dec_obj DArr (enc_json r)). rewrite Ej1, Ej2.
    unfold dec_obj. cbn [dict_get length]. rewrite K2, K1, K4, !text_eqb_refl. cbv beta iota.
    now rewrite (parse_cat_show c Hc).
Qed.

Corollary dec_json_enc t : cats_wf t -> toks_json_ok t -> dec_json (enc_json t) = view_json t /\ view_json t <> None.
Proof.
  intros Hc Ht. destruct (json_roundtrip t Hc Ht) as (v & Ev & Ej). unfold dec_json. rewrite Ej, Ev. split; [reflexivity | discriminate].
Qed.

(* what the view keeps: shape, categories, op_string labels, every token in order *)
Lemma view_json_leaves t v : view_json t = Some v -> vleaves v = leaves t.
Proof.
  unfold view_json. revert v. induction t as [c tok o y | c o y t1 IH | c o y hl l IHl r IHr]; intros v E; cbn [project] in E.
  - inversion E; reflexivity.
  - destruct (project _ _ _ t1) as [v1|]; [|discriminate]. inversion E; subst. cbn [vleaves leaves]. now apply IH.
  - destruct (project _ _ _ l) as [v1|]; [|discriminate]. destruct (project _ _ _ r) as [v2|]; [|discriminate].
    inversion E; subst. cbn [vleaves leaves]. now rewrite (IHl v1), (IHr v2).
Qed.

(* ================= auto_extended ================= *)
Fixpoint depth (t : tree) : nat :=
  match t with
  | Leaf _ _ _ _ => 1
  | Un _ _ _ t1 => S (depth t1)
  | Bin _ _ _ _ l r => S (Nat.max (depth l) (depth r))
  end.

Lemma strip_suffix2_app f : strip_suffix2 62 41 (f ++ s_closeL) = Some f.
Proof.
  unfold strip_suffix2, s_closeL. rewrite rev_app_distr. cbn [rev app]. cbn [N.eqb Pos.eqb andb]. now rewrite rev_involutive.
Qed.

Lemma tags_distinct : text_eqb s_openT s_openL = false /\ text_eqb s_two_gt s_one_gt = false.
Proof. vm_compute. split; reflexivity. Qed.

Lemma read_head_digit hl : read_head (head_digit hl) = Some hl.
Proof. destruct hl; reflexivity. Qed.

Theorem autox_fields_roundtrip t : cats_wf t -> forall fs, autox_fields t = Some fs ->
  exists v, view_autox t = Some v /\ depth t < length fs /\
            forall fuel rest, depth t <= fuel -> dec_ax fuel (fs ++ rest) = Some (v, rest).
Proof.
  destruct tags_distinct as [D1 D2]. unfold view_autox.
  induction t as [c tok o y | c o y t1 IH | c o y hl l IHl r IHr]; intros Hc fs E; cbn [cats_wf autox_fields] in Hc, E.
  - destruct (leaf5 tok) as [[[[[w le] po] en] ch]|] eqn:E5; [|discriminate]. inversion E; subst fs.
    exists (VLeaf c (w, le, po, en, ch)). cbn [project]. rewrite E5. split; [reflexivity|]. split; [cbn; lia|].
    intros fuel rest Hf. cbn [depth] in Hf. destruct fuel as [|n]; [lia|].
    cbn [app dec_ax]. rewrite text_eqb_refl, (parse_cat_show c Hc), strip_suffix2_app, text_eqb_refl. reflexivity.
  - destruct Hc as [Hc H1]. destruct (autox_fields t1) as [f1|] eqn:E1; [|discriminate]. inversion E; subst fs.
    destruct (IH H1 f1 eq_refl) as (v & Ev & Hl & Hd). exists (VUn c o v). cbn [project pick_label]. rewrite Ev. split; [reflexivity|].
    split; [cbn [depth app length]; rewrite app_length; cbn [length]; lia|].
    intros fuel rest Hf. cbn [depth] in Hf. destruct fuel as [|n]; [lia|].
    cbn [app dec_ax]. rewrite D1, text_eqb_refl, (parse_cat_show c Hc). cbn [head_digit read_head]. rewrite text_eqb_refl.
    rewrite <- app_assoc. rewrite (Hd n _ ltac:(lia)). cbn [app]. now rewrite text_eqb_refl.
  - destruct Hc as (Hc & H1 & H2). destruct (autox_fields l) as [f1|] eqn:E1; [|discriminate].
    destruct (autox_fields r) as [f2|] eqn:E2; [|discriminate]. inversion E; subst fs.
    destruct (IHl H1 f1 eq_refl) as (v1 & Ev1 & Hl1 & Hd1). destruct (IHr H2 f2 eq_refl) as (v2 & Ev2 & Hl2 & Hd2).
    exists (VBin c o hl v1 v2). cbn [project pick_label]. rewrite Ev1, Ev2. split; [reflexivity|].
    split; [cbn [depth app length]; rewrite !app_length; cbn [length]; lia|].
    intros fuel rest Hf. cbn [depth] in Hf. destruct fuel as [|n]; [lia|].
    cbn [app dec_ax]. rewrite D1, text_eqb_refl, (parse_cat_show c Hc), read_head_digit, D2, text_eqb_refl.
    rewrite <- !app_assoc. rewrite (Hd1 n _ ltac:(lia)). rewrite (Hd2 n _ ltac:(lia)). cbn [app]. now rewrite text_eqb_refl.
Qed.

Corollary dec_autox_fields_print t fs : cats_wf t -> autox_fields t = Some fs ->
  dec_autox_fields fs = view_autox t /\ view_autox t <> None.
Proof.
  intros Hc E. destruct (autox_fields_roundtrip t Hc fs E) as (v & Ev & Hl & Hd).
  unfold dec_autox_fields. specialize (Hd (length fs) [] ltac:(lia)). rewrite app_nil_r in Hd. rewrite Hd, Ev. split; [reflexivity | discriminate].
Qed.

(* the five token fields of the view are the denormalized word and lemma/pos/entity/chunk with the XX default *)
Lemma view_autox_leaves t v : view_autox t = Some v ->
  map (fun cx => Some (snd cx)) (vleaves v) = map (fun ct => leaf5 (snd ct)) (leaves t) /\ map fst (vleaves v) = map fst (leaves t).
Proof.
  unfold view_autox. revert v. induction t as [c tok o y | c o y t1 IH | c o y hl l IHl r IHr]; intros v E; cbn [project] in E.
  - destruct (leaf5 tok) as [x|] eqn:E5; [|discriminate]. inversion E; subst. cbn [vleaves leaves map fst snd]. now rewrite E5.
  - destruct (project _ _ _ t1) as [v1|]; [|discriminate]. inversion E; subst. cbn [vleaves leaves]. now apply IH.
  - destruct (project _ _ _ l) as [v1|]; [|discriminate]. destruct (project _ _ _ r) as [v2|]; [|discriminate].
    inversion E; subst. cbn [vleaves leaves]. rewrite !map_app. destruct (IHl v1 eq_refl) as [A1 B1]. destruct (IHr v2 eq_refl) as [A2 B2].
    now rewrite A1, A2, B1, B2.
Qed.

(* ---- from fields to the line: join with blanks / split on blanks ---- *)
Definition noblank (f : text) : Prop := has cSP f = false.

Lemma split_join fs : fs <> [] -> Forall noblank fs -> split_on cSP (join [cSP] fs) [] = fs.
Proof.
  intros Hne H. induction H as [|f r Hf Hr IH]; [congruence|].
  destruct r as [|g r].
  - cbn [join]. rewrite (split_on_nochar cSP f [] Hf). reflexivity.
  - change (join [cSP] (f :: g :: r)) with (f ++ [cSP] ++ join [cSP] (g :: r)). cbn [app].
    rewrite (split_on_app cSP f _ [] Hf). cbn [rev app]. f_equal. apply IH. discriminate.
Qed.

Lemma has_plain_false c t : plainc c = false -> allplain t = true -> has c t = false.
Proof.
  intros Hc H. unfold has. induction t as [|x t IH]; [reflexivity|]. cbn [existsb]. unfold allplain in *. cbn [forallb] in H.
  apply andb_true_iff in H as [Hx Ht]. rewrite (IH Ht), orb_false_r.
  destruct (N.eqb_spec c x) as [->|]; [congruence | reflexivity].
Qed.

Lemma noblank_show_feat f : wf_feat f -> has cSP (show_feat f) = false.
Proof. intros H. apply has_plain_false; [reflexivity | now apply CatLex.allplain_show_feat]. Qed.

Lemma noblank_show c : wfc c -> noblank (show c).
Proof.
  unfold noblank. induction c as [b f | l IHl s r IHr]; cbn [wf show]; intros H.
  - destruct H as ([_ Hb] & Hf & _). pose proof (has_plain_false cSP b eq_refl Hb) as Nb. pose proof (noblank_show_feat f Hf) as Nf.
    destruct (show_feat f) as [|x ft] eqn:E; [exact Nb|]. rewrite <- E in *. rewrite !has_app, Nb, Nf. reflexivity.
  - destruct H as (Hl & Hs & Hr). specialize (IHl Hl). specialize (IHr Hr).
    assert (Ns : has cSP s = false) by (destruct Hs as [->|[->| ->]]; reflexivity).
    assert (P : forall x, wfc x -> has cSP (show x) = false -> has cSP (match x with Fun _ _ _ => [cLP] ++ show x ++ [cRP] | _ => show x end) = false).
    { intros x _ Hx. destruct x; [exact Hx|]. rewrite !has_app, Hx. reflexivity. }
    rewrite !has_app, (P l Hl IHl), Ns, (P r Hr IHr). reflexivity.
Qed.

(* every printed field is free of blanks: rule labels and the five token fields as printed *)
Fixpoint text_ok (t : tree) : Prop :=
  match t with
  | Leaf _ tok _ _ =>
      match leaf5 tok with
      | Some (w, le, po, en, ch) => noblank w /\ noblank le /\ noblank po /\ noblank en /\ noblank ch
      | None => True
      end
  | Un _ ops _ t1 => noblank ops /\ text_ok t1
  | Bin _ ops _ _ l r => noblank ops /\ text_ok l /\ text_ok r
  end.

Lemma noblank_app a b : noblank a -> noblank b -> noblank (a ++ b).
Proof. unfold noblank. intros Ha Hb. now rewrite has_app, Ha, Hb. Qed.

Lemma autox_fields_noblank t : cats_wf t -> text_ok t -> forall fs, autox_fields t = Some fs -> Forall noblank fs /\ fs <> [].
Proof.
  induction t as [c tok o y | c o y t1 IH | c o y hl l IHl r IHr]; intros Hc Ht fs E; cbn [cats_wf text_ok autox_fields] in Hc, Ht, E.
  - destruct (leaf5 tok) as [[[[[w le] po] en] ch]|]; [|discriminate]. inversion E; subst fs.
    destruct Ht as (A1 & A2 & A3 & A4 & A5). pose proof (noblank_show c Hc) as Ns.
    split; [|discriminate]. repeat constructor; try assumption. apply noblank_app; [exact Ns | reflexivity].
  - destruct Hc as [Hc H1]. destruct Ht as [Ho T1]. destruct (autox_fields t1) as [f1|]; [|discriminate]. inversion E; subst fs.
    destruct (IH H1 T1 f1 eq_refl) as [F1 _]. split; [|discriminate].
    repeat (apply Forall_cons; [first [reflexivity | exact Ho | exact (noblank_show c Hc)]|]).
    apply Forall_app. split; [exact F1|]. repeat constructor.
  - destruct Hc as (Hc & H1 & H2). destruct Ht as (Ho & T1 & T2).
    destruct (autox_fields l) as [f1|]; [|discriminate]. destruct (autox_fields r) as [f2|]; [|discriminate]. inversion E; subst fs.
    destruct (IHl H1 T1 f1 eq_refl) as [F1 _]. destruct (IHr H2 T2 f2 eq_refl) as [F2 _]. split; [|discriminate].
    repeat (apply Forall_cons; [first [reflexivity | exact Ho | exact (noblank_show c Hc) | destruct hl; reflexivity]|]).
    apply Forall_app. split; [exact F1|]. apply Forall_app. split; [exact F2|]. repeat constructor.
Qed.

Theorem dec_autox_print t line : cats_wf t -> text_ok t -> print_autox t = Some line ->
  dec_autox line = view_autox t /\ view_autox t <> None.
Proof.
  intros Hc Ht E. unfold print_autox in E. destruct (autox_fields t) as [fs|] eqn:Ef; [|discriminate]. cbn [option_map] in E. inversion E; subst line.
  destruct (autox_fields_noblank t Hc Ht fs Ef) as [Fn Fe]. unfold dec_autox. rewrite (split_join fs Fe Fn).
  now apply dec_autox_fields_print.
Qed.
