(* Category.parse on printed categories and on well-formed texts with redundant brackets (C05). *)
From Coq Require Import List NArith Bool Lia.
Import ListNotations.
Require Import Cat CatFacts CatLex.
Open Scope N_scope.

Section RT.
Variable puncts : list text.
Hypothesis puncts_plain : Forall plain puncts.

Notation run := (run puncts).
Notation wf := (wf puncts).
Notation parse_toks := (parse_toks puncts).

Lemma plainc_not x a : plainc x = true -> special9 a = true -> N.eqb x a = false.
Proof.
  intros Hx Ha. destruct (N.eqb_spec x a) as [->|]; [|reflexivity].
  unfold plainc in Hx. rewrite Ha in Hx. discriminate.
Qed.

Lemma plain_not_in2 t a b : plain t -> special9 a = true -> special9 b = true -> in2 t a b = false.
Proof.
  intros [Hne Hall] Ha Hb. destruct t as [|x [|y [|z t]]]; try congruence; simpl in *.
  - rewrite andb_true_r in Hall. now rewrite (plainc_not x a), (plainc_not x b).
  - apply andb_true_iff in Hall as [Hx _]. now rewrite (plainc_not x a).
  - reflexivity.
Qed.

Lemma plain_not_in3 t a b c : plain t -> special9 a = true -> special9 b = true -> special9 c = true -> in3 t a b c = false.
Proof.
  intros [Hne Hall] Ha Hb Hc. destruct t as [|x [|y [|z [|w t]]]]; try congruence; simpl in *.
  - rewrite andb_true_r in Hall. now rewrite (plainc_not x a), (plainc_not x b), (plainc_not x c).
  - apply andb_true_iff in Hall as [Hx Hy]. now rewrite (plainc_not x a), (plainc_not x b).
  - apply andb_true_iff in Hall as [Hx _]. now rewrite (plainc_not x a).
  - reflexivity.
Qed.

(* what may follow an operand *)
Definition follows_ok (rest : list text) : Prop :=
  match rest with [] => True | t :: _ => t <> [cLB] end.

Lemma split_on_nochar c t acc : has c t = false -> split_on c t acc = [rev acc ++ t].
Proof.
  revert acc; induction t as [|x t IH]; intros acc H; simpl in *.
  - now rewrite app_nil_r.
  - apply orb_false_iff in H as [Hx Ht]. rewrite N.eqb_sym in Hx. rewrite Hx. rewrite IH by assumption. simpl. now rewrite <- app_assoc.
Qed.

Lemma split_on_app c a b acc : has c a = false -> split_on c (a ++ c :: b) acc = (rev acc ++ a) :: split_on c b [].
Proof.
  revert acc; induction a as [|x a IH]; intros acc H; simpl in *.
  - rewrite N.eqb_refl. now rewrite app_nil_r.
  - apply orb_false_iff in H as [Hx Ha]. rewrite N.eqb_sym in Hx. rewrite Hx. rewrite IH by assumption. simpl. now rewrite <- app_assoc.
Qed.

Lemma has_app c a b : has c (a ++ b) = has c a || has c b.
Proof. unfold has. apply existsb_app. Qed.

Lemma parse_show_feat f : wf_feat f -> f <> FNone -> parse_feat (show_feat f) = Some f.
Proof.
  destruct f as [|v|k1 v1 k2 v2 k3 v3]; intros Hwf Hn; [congruence| |].
  - simpl in *. destruct Hwf as [_ Hkv]. unfold parse_feat. now rewrite Hkv.
  - cbn [wf_feat] in Hwf.
    apply Forall_cons_iff in Hwf as [[_ [K1e K1c]] Hwf]. apply Forall_cons_iff in Hwf as [[_ [V1e V1c]] Hwf].
    apply Forall_cons_iff in Hwf as [[_ [K2e K2c]] Hwf]. apply Forall_cons_iff in Hwf as [[_ [V2e V2c]] Hwf].
    apply Forall_cons_iff in Hwf as [[_ [K3e K3c]] Hwf]. apply Forall_cons_iff in Hwf as [[_ [V3e V3c]] _].
    unfold parse_feat, show_feat.
    assert (He : has cEQ (k1 ++ [cEQ] ++ v1 ++ [cCOMMA] ++ k2 ++ [cEQ] ++ v2 ++ [cCOMMA] ++ k3 ++ [cEQ] ++ v3) = true).
    { rewrite has_app. simpl. now rewrite orb_true_r. }
    assert (Hc : has cCOMMA (k1 ++ [cEQ] ++ v1 ++ [cCOMMA] ++ k2 ++ [cEQ] ++ v2 ++ [cCOMMA] ++ k3 ++ [cEQ] ++ v3) = true).
    { rewrite !has_app. simpl. now rewrite !orb_true_r. }
    rewrite He, Hc. simpl andb. cbv iota.
    replace (k1 ++ [cEQ] ++ v1 ++ [cCOMMA] ++ k2 ++ [cEQ] ++ v2 ++ [cCOMMA] ++ k3 ++ [cEQ] ++ v3)
      with ((k1 ++ [cEQ] ++ v1) ++ cCOMMA :: ((k2 ++ [cEQ] ++ v2) ++ cCOMMA :: (k3 ++ [cEQ] ++ v3))) by (now rewrite <- !app_assoc).
    rewrite split_on_app by (rewrite !has_app; simpl; now rewrite K1c, V1c).
    rewrite split_on_app by (rewrite !has_app; simpl; now rewrite K2c, V2c).
    rewrite split_on_nochar by (rewrite !has_app; simpl; now rewrite K3c, V3c).
    simpl map. cbn [app].
    rewrite !split_on_app by assumption. rewrite !split_on_nochar by assumption. reflexivity.
Qed.

Lemma show_feat_nonnil f : wf_feat f -> f <> FNone -> show_feat f <> [].
Proof.
  destruct f as [|v|k1 v1 k2 v2 k3 v3]; intros Hwf Hn; [congruence| |].
  - simpl. destruct Hwf as [[H _] _]. exact H.
  - simpl. intros H. apply app_eq_nil in H as [_ H]. discriminate.
Qed.

Lemma not_punct_or_none b f : (text_in b puncts = true -> f = FNone) -> f <> FNone -> text_in b puncts = false.
Proof. intros H Hne. destruct (text_in b puncts) eqn:E; [|reflexivity]. exfalso. now apply Hne, H. Qed.

Lemma run_atom b f rest st :
  plain b -> wf_feat f -> (text_in b puncts = true -> f = FNone) -> follows_ok rest ->
  run (toks (Atom b f) ++ rest) st = run rest (SCat (Atom b f) :: st).
Proof.
  intros Hb Hf Hp Hfo. simpl toks.
  destruct (show_feat f) as [|c ft] eqn:Eft.
  - assert (f = FNone) as ->.
    { destruct f as [|v|]; [reflexivity| |]; exfalso; apply (show_feat_nonnil _ Hf); congruence. }
    simpl app. cbn [Cat.run].
    destruct (text_in b puncts) eqn:Epu; [reflexivity|].
    rewrite (plain_not_in2 b cLP cLT Hb eq_refl eq_refl).
    rewrite (plain_not_in2 b cRP cGT Hb eq_refl eq_refl).
    rewrite (plain_not_in3 b cSL cBS cBAR Hb eq_refl eq_refl eq_refl).
    destruct rest as [|t1 [|t2 [|t3 rest']]]; try reflexivity.
    simpl in Hfo. destruct (text_eqb t1 [cLB]) eqn:E; [apply text_eqb_eq in E; congruence|reflexivity].
  - assert (Hfn : f <> FNone) by (intros ->; now simpl in Eft).
    simpl app. cbn [Cat.run].
    rewrite (not_punct_or_none b f Hp Hfn).
    rewrite (plain_not_in2 b cLP cLT Hb eq_refl eq_refl).
    rewrite (plain_not_in2 b cRP cGT Hb eq_refl eq_refl).
    rewrite (plain_not_in3 b cSL cBS cBAR Hb eq_refl eq_refl eq_refl).
    rewrite text_eqb_refl. rewrite <- Eft. rewrite (parse_show_feat f Hf Hfn). rewrite text_eqb_refl. reflexivity.
Qed.

Lemma not_punct_special t : (exists s, t = [s] /\ special9 s = true) -> text_in t puncts = false.
Proof.
  intros (s & -> & Hs). destruct (text_in [s] puncts) eqn:E; [|reflexivity].
  exfalso. apply text_in_In in E. rewrite Forall_forall in puncts_plain. destruct (puncts_plain _ E) as [_ Hall].
  simpl in Hall. unfold plainc in Hall. rewrite Hs in Hall. discriminate.
Qed.

Lemma run_slash s rest st : slashP s -> run (s :: rest) st = run rest (SStr s :: st).
Proof.
  intros Hs. cbn [Cat.run]. rewrite not_punct_special by (destruct Hs as [ -> | [ -> | -> ] ]; eexists; split; reflexivity).
  destruct Hs as [ -> | [ -> | -> ] ]; reflexivity.
Qed.

Lemma run_open o rest st : o = [cLP] \/ o = [cLT] -> run (o :: rest) st = run rest (SStr o :: st).
Proof.
  intros Ho. cbn [Cat.run]. rewrite not_punct_special by (destruct Ho as [ -> | -> ]; eexists; split; reflexivity).
  destruct Ho as [ -> | -> ]; reflexivity.
Qed.

Lemma run_close c rest st : c = [cRP] \/ c = [cGT] ->
  run (c :: rest) st = match close c st with Some st' => run rest st' | None => None end.
Proof.
  intros Hc. cbn [Cat.run]. rewrite not_punct_special by (destruct Hc as [ -> | -> ]; eexists; split; reflexivity).
  destruct Hc as [ -> | -> ]; reflexivity.
Qed.

Lemma follows_slash s rest : slashP s -> follows_ok (s :: rest).
Proof. intros [ -> | [ -> | -> ] ]; simpl; discriminate. Qed.

(* ---- well-formed texts with redundant brackets, as token lists ---- *)
Definition matching (o c : text) : Prop := (o = [cLP] /\ c = [cRP]) \/ (o = [cLT] /\ c = [cGT]).

Inductive Text : cat -> list text -> Prop :=
| TOp c ts : Op c ts -> Text c ts
| TFun l s r tl tr : Op l tl -> slashP s -> Op r tr -> wf (Fun l s r) -> Text (Fun l s r) (tl ++ [s] ++ tr)
with Op : cat -> list text -> Prop :=
| OAtom b f : wf (Atom b f) -> Op (Atom b f) (toks (Atom b f))
| OWrap c ts o cl : Text c ts -> matching o cl -> Op c ([o] ++ ts ++ [cl]).

Scheme Text_ind2 := Induction for Text Sort Prop
  with Op_ind2 := Induction for Op Sort Prop.
Combined Scheme Text_Op_ind from Text_ind2, Op_ind2.

Lemma close_match y o cl st : matching o cl -> close cl (SCat y :: SStr o :: st) = Some (SCat y :: st).
Proof. intros [[-> ->] | [-> ->]]; reflexivity. Qed.

Lemma close_fun x s y o cl st : matching o cl -> slashP s ->
  close cl (SCat y :: SStr s :: SCat x :: SStr o :: st) = Some (SCat (Fun x s y) :: st).
Proof.
  intros Hm Hs. unfold close.
  assert (sitem_is (SStr s) [cLP] = false /\ sitem_is (SStr s) [cLT] = false) as [-> ->].
  { destruct Hs as [ -> | [ -> | -> ] ]; split; reflexivity. }
  cbn [andb orb].
  assert (in2 o cLP cLT = true) as -> by (destruct Hm as [[-> _] | [-> _]]; reflexivity).
  assert (is_slash s = true) as -> by now apply is_slash_slashP.
  reflexivity.
Qed.

Lemma matching_open o cl : matching o cl -> o = [cLP] \/ o = [cLT].
Proof. intros [[-> _] | [-> _]]; auto. Qed.
Lemma matching_close o cl : matching o cl -> cl = [cRP] \/ cl = [cGT].
Proof. intros [[_ ->] | [_ ->]]; auto. Qed.
Lemma follows_close o cl rest : matching o cl -> follows_ok (cl :: rest).
Proof. intros [[_ ->] | [_ ->]]; simpl; discriminate. Qed.

(* the operand lemma: an operand text pushes its category, whatever the stack and the continuation *)
Lemma run_text_op :
  (forall c ts, Text c ts -> forall o cl rest st, matching o cl ->
      run ([o] ++ ts ++ [cl] ++ rest) st = run rest (SCat c :: st)) /\
  (forall c ts, Op c ts -> forall rest st, follows_ok rest -> run (ts ++ rest) st = run rest (SCat c :: st)).
Proof.
  apply Text_Op_ind.
  - (* TOp *) intros c ts Hop IH o cl rest st Hm.
    cbn [app]. rewrite run_open by (eapply matching_open; eassumption).
    rewrite IH by (eapply follows_close; eassumption).
    cbn [app]. rewrite run_close by (eapply matching_close; eassumption).
    now rewrite close_match.
  - (* TFun *) intros l s r tl tr Hl IHl Hs Hr IHr Hwf o cl rest st Hm.
    cbn [app]. rewrite run_open by (eapply matching_open; eassumption).
    rewrite <- !app_assoc. rewrite IHl by (cbn [app]; now apply follows_slash).
    cbn [app]. rewrite run_slash by assumption.
    rewrite IHr by (eapply follows_close; eassumption).
    rewrite run_close by (eapply matching_close; eassumption).
    now rewrite close_fun.
  - (* OAtom *) intros b f (Hb & Hf & Hp) rest st Hfo. now apply run_atom.
  - (* OWrap *) intros c ts o cl Ht IH Hm rest st Hfo.
    rewrite <- !app_assoc. now apply IH.
Qed.

Theorem parse_text c ts : Text c ts -> parse_toks ts = Some c.
Proof.
  intros H. unfold Cat.parse_toks. destruct H as [c ts Hop | l s r tl tr Hl Hs Hr Hwf].
  - rewrite <- (app_nil_r ts). rewrite (proj2 run_text_op c ts Hop) by exact I. reflexivity.
  - rewrite (proj2 run_text_op l tl Hl) by (cbn [app]; now apply follows_slash).
    cbn [app]. rewrite run_slash by assumption.
    rewrite <- (app_nil_r tr). rewrite (proj2 run_text_op r tr Hr) by exact I.
    cbn [Cat.run finish]. assert (is_slash s = true) as -> by now apply is_slash_slashP. reflexivity.
Qed.

(* the printer's own text is a well-formed text *)
Lemma toks_text c : wf c -> Text c (toks c) /\ Op c (ptoks c).
Proof.
  induction c as [b f | l IHl s r IHr]; intros Hwf.
  - split; [apply TOp|]; now apply OAtom.
  - pose proof Hwf as (Hl & Hs & Hr).
    destruct (IHl Hl) as [_ Hol]. destruct (IHr Hr) as [_ Hor].
    assert (Ht : Text (Fun l s r) (toks (Fun l s r))).
    { change (toks (Fun l s r)) with (ptoks l ++ [s] ++ ptoks r). now apply TFun. }
    split; [exact Ht|].
    change (ptoks (Fun l s r)) with ([[cLP]] ++ toks (Fun l s r) ++ [[cRP]]).
    apply OWrap; [exact Ht | left; split; reflexivity].
Qed.

Theorem parse_toks_roundtrip c : wf c -> parse_toks (toks c) = Some c.
Proof. intros H. apply parse_text. now apply toks_text. Qed.

(* associativity is never guessed: two slashes at one level are rejected *)
Theorem two_slashes_top a b c ta tb tc s1 s2 :
  Op a ta -> Op b tb -> Op c tc -> slashP s1 -> slashP s2 ->
  parse_toks (ta ++ [s1] ++ tb ++ [s2] ++ tc) = None.
Proof.
  intros Ha Hb Hc H1 H2. unfold Cat.parse_toks.
  rewrite (proj2 run_text_op a ta Ha) by (cbn [app]; now apply follows_slash).
  cbn [app]. rewrite run_slash by assumption.
  rewrite (proj2 run_text_op b tb Hb) by (cbn [app]; now apply follows_slash).
  cbn [app]. rewrite run_slash by assumption.
  rewrite <- (app_nil_r tc). rewrite (proj2 run_text_op c tc Hc) by exact I.
  reflexivity.
Qed.

Theorem two_slashes_bracketed a b c ta tb tc s1 s2 o cl rest st :
  Op a ta -> Op b tb -> Op c tc -> slashP s1 -> slashP s2 -> matching o cl ->
  run ([o] ++ ta ++ [s1] ++ tb ++ [s2] ++ tc ++ [cl] ++ rest) st = None.
Proof.
  intros Ha Hb Hc H1 H2 Hm.
  cbn [app]. rewrite run_open by (eapply matching_open; eassumption).
  rewrite (proj2 run_text_op a ta Ha) by (cbn [app]; now apply follows_slash).
  cbn [app]. rewrite run_slash by assumption.
  rewrite (proj2 run_text_op b tb Hb) by (cbn [app]; now apply follows_slash).
  cbn [app]. rewrite run_slash by assumption.
  rewrite (proj2 run_text_op c tc Hc) by (eapply follows_close; eassumption).
  rewrite run_close by (eapply matching_close; eassumption).
  unfold close.
  assert (sitem_is (SStr s2) [cLP] = false /\ sitem_is (SStr s2) [cLT] = false) as [-> ->].
  { destruct H2 as [ -> | [ -> | -> ] ]; split; reflexivity. }
  cbn [andb orb].
  assert (in2 s1 cLP cLT = false) as -> by (destruct H1 as [ -> | [ -> | -> ] ]; reflexivity).
  reflexivity.
Qed.
End RT.

(* ---- character level ---- *)
Section Chars.
Variable specials : list N.
Hypothesis Hspec : forall c, special specials c = special9 c.
Variable puncts : list text.
Hypothesis puncts_plain : Forall plain puncts.

Definition parse (t : text) : option cat := Cat.parse_toks puncts (lex specials t).

Theorem parse_show c : wf puncts c -> parse (show c) = Some c.
Proof.
  intros H. unfold parse. rewrite (lex_show specials Hspec puncts c H). now apply parse_toks_roundtrip.
Qed.

Corollary show_injective a b : wf puncts a -> wf puncts b -> show a = show b -> a = b.
Proof.
  intros Ha Hb E. pose proof (parse_show a Ha) as H1. pose proof (parse_show b Hb) as H2. rewrite E in H1. congruence.
Qed.

(* every token of a well-formed text is lexable, so blanks anywhere between tokens change nothing *)
Lemma toks_ok_text :
  (forall c ts, Text puncts c ts -> Forall tok_ok ts) /\ (forall c ts, Op puncts c ts -> Forall tok_ok ts).
Proof.
  apply Text_Op_ind.
  - intros; assumption.
  - intros l s r tl tr _ IHl Hs _ IHr _. apply Forall_app; split; [assumption|]. apply Forall_app; split; [|assumption].
    constructor; [|constructor]. left. destruct Hs as [ -> | [ -> | -> ] ]; eexists; split; reflexivity.
  - intros b f (Hb & Hf & Hp). simpl. destruct (show_feat f) as [|c0 ft] eqn:E.
    + constructor; [now right | constructor].
    + assert (Hn : f <> FNone) by (intros ->; discriminate).
      assert (Hft : plain (c0 :: ft)) by (split; [discriminate | rewrite <- E; now apply allplain_show_feat]).
      constructor; [now right|]. constructor; [left; eexists; split; reflexivity|].
      constructor; [now right|]. constructor; [left; eexists; split; reflexivity|]. constructor.
  - intros c ts o cl _ IH Hm. apply Forall_app; split; [|apply Forall_app; split; [assumption|]].
    + constructor; [|constructor]. left. destruct Hm as [[-> _] | [-> _]]; eexists; split; reflexivity.
    + constructor; [|constructor]. left. destruct Hm as [[_ ->] | [_ ->]]; eexists; split; reflexivity.
Qed.

Theorem parse_text_blanks c ts ws : Text puncts c ts -> parse (render ws ts) = Some c.
Proof.
  intros H. unfold parse. rewrite (lex_render specials Hspec ts (proj1 toks_ok_text c ts H)).
  now apply parse_text.
Qed.
End Chars.
