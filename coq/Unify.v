(* Model of depccg/unification.py (class Unification) and of the feature relations of cat.py it uses.
   MODEL ONLY.
   Dictionaries are association lists in *insertion order* with Python's overwrite-in-place semantics.
   The keys of x_features / y_features are f'{v}{index}' strings in the code; the translator guarantees that
   pattern variables are single letters, so (v, None) / (v, Some index) pairs are an injective image of them. *)
From Coq Require Import List NArith Bool.
Import ListNotations.
Require Import Cat.
Open Scope N_scope.

Inductive err := KeyErr | AttrErr | AssertErr | Twice | TypeErr | IndexErr.
Inductive res (A : Type) := Ok_ (a : A) | Err (e : err).
Arguments Ok_ {A}. Arguments Err {A}.
Definition bind {A B} (x : res A) (f : A -> res B) : res B := match x with Ok_ a => f a | Err e => Err e end.
Notation "'do' x <- a ; b" := (bind a (fun x => b)) (at level 200, x name, a at level 100, b at level 200).

(* ---- feature relations (cat.py) ---- *)
Definition s_nb : text := [110; 98].
(* a.unifies(b); Err AttrErr = a triple asked to unify with a unary feature (AttributeError: no .keys) *)
Definition unifies (a b : feat) : res bool :=
  match a with
  | FNone => Ok_ true
  | FUn v => Ok_ (text_eqb v [cX] || text_eqb v s_nb || feat_eqb a b)
  | FTer k1 v1 k2 v2 k3 v3 =>
      if feat_eqb a b then Ok_ true else
      match b with
      | FTer l1 w1 l2 w2 l3 w3 =>
          if negb (text_eqb k1 l1 && text_eqb k2 l2 && text_eqb k3 l3) then Ok_ false
          else Ok_ ((text_eqb v1 w1 || starts_X v1) && (text_eqb v2 w2 || starts_X v2) && (text_eqb v3 w3 || starts_X v3))
      | _ => Err AttrErr
      end
  end.

(* ---- ordered dictionaries ---- *)
Definition key := (text * option N)%type.
Definition key_eqb (a b : key) : bool :=
  text_eqb (fst a) (fst b) &&
  match snd a, snd b with None, None => true | Some i, Some j => N.eqb i j | _, _ => false end.

Section Dict.
Context {K V : Type}.
Variable keqb : K -> K -> bool.
Fixpoint dget (k : K) (d : list (K * V)) : option V :=
  match d with [] => None | (k', v) :: r => if keqb k k' then Some v else dget k r end.
(* d[k] = v : overwrite in place, else append (insertion order is kept) *)
Fixpoint dset (k : K) (v : V) (d : list (K * V)) : list (K * V) :=
  match d with
  | [] => [(k, v)]
  | (k', v') :: r => if keqb k k' then (k', v) :: r else (k', v') :: dset k v r
  end.
Definition dhas (k : K) (d : list (K * V)) : bool := match dget k d with Some _ => true | None => false end.
End Dict.

Definition cats_t := list (text * cat).
Definition feats_t := list (key * feat).

Fixpoint scan_deep (t : cat) (v : text) (idx : N) (r : feats_t) : N * feats_t :=
  match t with
  | Fun l _ rr => let '(i1, r1) := scan_deep l v idx r in scan_deep rr v i1 r1
  | Atom _ f => (idx + 1, dset key_eqb (v, Some idx) f r)
  end.

Definition slash_ok (a b : text) : bool := text_eqb a b || text_eqb a [cBAR] || text_eqb b [cBAR].

(* scan(s, t, results) with self.cats threaded *)
Fixpoint scan (s t : cat) (cats : cats_t) (r : feats_t) : bool * cats_t * feats_t :=
  match s with
  | Atom b _ =>
      let clash := match dget text_eqb b cats with Some c0 => negb (cat_xor t c0) | None => false end in
      if clash then (false, cats, r) else
      let cats' := dset text_eqb b t cats in
      match t with
      | Fun _ _ _ => (true, cats', snd (scan_deep t b 0 r))
      | Atom _ f => (true, cats', dset key_eqb (b, None) f r)
      end
  | Fun sl ss sr =>
      match t with
      | Fun tl ts tr =>
          if slash_ok ss ts then
            let '(ok1, c1, r1) := scan sl tl cats r in
            if ok1 then scan sr tr c1 r1 else (false, c1, r1)
          else (false, cats, r)
      | Atom _ _ => (false, cats, r)
      end
  end.

Definition mapping_t := list (feat * feat).

(* the loop over the shared variables, in the given order *)
Fixpoint floop (order : list key) (xf yf : feats_t) (m : mapping_t) : res (option mapping_t) :=
  match order with
  | [] => Ok_ (Some m)
  | var :: rest =>
      match dget key_eqb var xf, dget key_eqb var yf with
      | Some fx, Some fy =>
          do u1 <- unifies fx fy;
          if u1 then floop rest xf yf (if is_variable fx then dset feat_eqb fx fy m else m)
          else do u2 <- unifies fy fx;
               if u2 then floop rest xf yf (if is_variable fy then dset feat_eqb fy fx m else m)
               else Ok_ None
      | _, _ => Err KeyErr
      end
  end.

(* [var for var in x_features if var in y_features] : insertion order of x_features *)
Definition shared (xf yf : feats_t) : list key := filter (fun k => dhas key_eqb k yf) (map fst xf).

Record ustate := { ucats : cats_t; umap : mapping_t }.

(* Unification(px, py)(x, y):  Ok_ (Some st) = True, Ok_ None = False, Err = exception *)
Definition unify (px py x y : cat) : res (option ustate) :=
  let '(ok1, c1, xf) := scan px x [] [] in
  if negb ok1 then Ok_ None else
  let '(ok2, c2, yf) := scan py y c1 [] in
  if negb ok2 then Ok_ None else
  do m <- floop (shared xf yf) xf yf [];
  match m with Some m' => Ok_ (Some {| ucats := c2; umap := m' |}) | None => Ok_ None end.

Fixpoint subst (m : mapping_t) (c : cat) : cat :=
  match c with
  | Fun l s r => Fun (subst m l) s (subst m r)
  | Atom b f => match dget feat_eqb f m with Some g => Atom b g | None => c end
  end.
(* uni[k] after a successful call *)
Definition uget (u : ustate) (k : text) : res cat :=
  match dget text_eqb k (ucats u) with Some c => Ok_ (subst (umap u) c) | None => Err KeyErr end.

(* the object protocol: answers once; no binding can be read unless the call succeeded *)
Inductive uobj := UFresh (px py : cat) | UDone (st : option ustate).
Definition ucall (o : uobj) (x y : cat) : res (bool * uobj) :=
  match o with
  | UFresh px py => do r <- unify px py x y; Ok_ (match r with Some _ => true | None => false end, UDone r)
  | UDone _ => Err Twice          (* RuntimeError: cannot use the same Unification object more than once *)
  end.
Definition uread (o : uobj) (k : text) : res cat :=
  match o with
  | UDone (Some st) => uget st k
  | _ => Err AssertErr            (* assert self.success *)
  end.
