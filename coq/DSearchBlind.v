(* The deterministic search of DSearch.v is CATEGORY-BLIND ("parametricity by hand", in the style of AStarEquiv.v).
   Two instances of DSearch over two handle types C and C' are related by a relation R on handles ("name the same
   category").  Under the hypotheses of AStarEquiv.v Section Equiv - related arguments give position-wise related rule
   results with equal head flags, the candidate tags of the beam are related with equal tag scores, root tests and equality tests
   agree on related handles - the two runs proceed in lock step: the libstdc++ heaps (Heap.v) hold position-wise related
   entries at every moment (the comparator reads scores only: HeapProofs.push_rel / pop_rel), the charts have the same
   cells in the same first-use order with position-wise related slots, the goal cells are related, the step counters
   and slot counters are equal and the hook traces are related record by record, every numeric field being EQUAL.
   Hence the pop traces, the status and the results handed to the finalizer (with their scores) do not depend on the
   handles.  Nothing else of a handle is ever inspected. *)
From Coq Require Import List ZArith Lia Bool Arith.
Import ListNotations.
Require Import AStar AStarImpl AStarEquiv Heap HeapProofs DSearch.

(* one more Forall2 tool: filtering with predicates that agree on related elements *)
Lemma F2_filter {A B} (P : A -> B -> Prop) (f : A -> bool) (g : B -> bool) l l' :
  (forall x y, P x y -> f x = g y) -> Forall2 P l l' -> Forall2 P (filter f l) (filter g l').
Proof.
  intros Hfg HF. induction HF as [|x y l l' Hxy _ IH]; cbn [filter]; [constructor|].
  rewrite (Hfg _ _ Hxy). destruct (g y); [constructor; assumption | assumption].
Qed.

Lemma F2_eq_refl {A} (l : list A) : Forall2 (@eq A) l l.
Proof. induction l as [|x xs IH]; constructor; [reflexivity | assumption]. Qed.

Section Blind.
Context {C C' : Type}.
Variable ceqb : C -> C -> bool.
Variable ceqb' : C' -> C' -> bool.
Variable n : nat.
Variable tag : nat -> C -> Z.
Variable tag' : nat -> C' -> Z.
Variable dep : nat -> nat -> Z.
Variable adm : nat -> list C.
Variable adm' : nat -> list C'.
Variable besttag bestdep : nat -> Z.
Variable bin : C -> C -> list (C * bool).
Variable bin' : C' -> C' -> list (C' * bool).
Variable un : C -> list C.
Variable un' : C' -> list C'.
Variable isroot : C -> bool.
Variable isroot' : C' -> bool.
Variable pen : Z.
Variable dedup : bool.
Variable max_step nbest : nat.

(* "the two handles name the same category" *)
Variable R : C -> C' -> Prop.
Hypothesis R_eqb : forall a a' b b', R a a' -> R b b' -> ceqb a b = ceqb' a' b'.
Hypothesis R_bin : forall a a' b b', R a a' -> R b b' ->
  Forall2 (fun p q => R (fst p) (fst q) /\ snd p = snd q) (bin a b) (bin' a' b').
Hypothesis R_un : forall a a', R a a' -> Forall2 R (un a) (un' a').
Hypothesis R_root : forall a a', R a a' -> isroot a = isroot' a'.
Hypothesis R_adm : forall i, Forall2 (fun c c' => R c c' /\ tag i c = tag' i c') (adm i) (adm' i).

(* ---------- the lifted relations ---------- *)
(* the hook's view of a pop: same kind, same rule index, head flag and chart slots, related categories *)
Inductive prel : @tpop C -> @tpop C' -> Prop :=
| PLeaf i c c' : R c c' -> prel (TLeaf i c) (TLeaf i c')
| PUn k c c' j : R c c' -> prel (TUn k c j) (TUn k c' j)
| PBin k c c' hl l r : R c c' -> prel (TBin k c hl l r) (TBin k c' hl l r)
| PFin j : prel (TFin j) (TFin j).

(* agenda entries *)
Definition direl (x : @ditem C) (x' : @ditem C') : Prop :=
  irel R (d_item x) (d_item x') /\ prel (d_pop x) (d_pop x').

(* trace records: related pop, every other field equal *)
Definition trel (t : @trec C) (t' : @trec C') : Prop :=
  prel (t_pop t) (t_pop t') /\ t_in t = t_in t' /\ t_out t = t_out t' /\ t_start t = t_start t' /\
  t_len t = t_len t' /\ t_head t = t_head t' /\ t_stored t = t_stored t'.

(* chart slots and cells *)
Definition sirel (o : @sitem C) (o' : @sitem C') : Prop := irel R (fst o) (fst o') /\ snd o = snd o'.
Definition crel (c : @cell C) (c' : @cell C') : Prop := fst c = fst c' /\ Forall2 sirel (snd c) (snd c').

(* states *)
Definition dsrel (st : @dstate C) (st' : @dstate C') : Prop :=
  Forall2 direl (dheap st) (dheap st') /\ Forall2 crel (dchart st) (dchart st') /\ dstored st = dstored st' /\
  Forall2 (irel R) (dgoal st) (dgoal st') /\ dsteps st = dsteps st' /\ Forall2 trel (dtrace st) (dtrace st').

(* "both None, or both Some with related contents" *)
Definition orel {A A'} (P : A -> A' -> Prop) (o : option A) (o' : option A') : Prop :=
  match o, o' with Some x, Some x' => P x x' | None, None => True | _, _ => False end.

(* ---------- projections of irel ---------- *)
Lemma irel_jfin a a' : irel R a a' -> jfin a = jfin a'.
Proof. intros (H & _). exact H. Qed.
Lemma irel_jin a a' : irel R a a' -> jin a = jin a'.
Proof. intros (_ & _ & H & _). exact H. Qed.
Lemma irel_jout a a' : irel R a a' -> jout a = jout a'.
Proof. intros (_ & _ & _ & H & _). exact H. Qed.
Lemma irel_jstart a a' : irel R a a' -> jstart a = jstart a'.
Proof. intros (_ & _ & _ & _ & H & _). exact H. Qed.
Lemma irel_jlen a a' : irel R a a' -> jlen a = jlen a'.
Proof. intros (_ & _ & _ & _ & _ & H & _). exact H. Qed.
Lemma irel_jhead a a' : irel R a a' -> jhead a = jhead a'.
Proof. intros (_ & _ & _ & _ & _ & _ & H). exact H. Qed.

(* ---------- 1. the agenda comparator reads scores only ---------- *)
Lemma dlt_rel a a' b b' : direl a a' -> direl b b' -> dlt a b = dlt a' b'.
Proof.
  intros [Ha _] [Hb _]. unfold dlt. now rewrite (irel_jprio R _ _ Ha), (irel_jprio R _ _ Hb).
Qed.

(* ---------- 2. pushes, cells, chart ---------- *)
Lemma push_all_rel l l' : Forall2 direl l l' -> forall h h', Forall2 direl h h' ->
  Forall2 direl (push_all l h) (push_all l' h').
Proof.
  intros HF. unfold push_all. induction HF as [|x x' l l' Hx _ IH]; intros h h' Hh; cbn [fold_left]; [exact Hh|].
  apply IH. apply (push_rel dlt dlt direl dlt_rel); assumption.
Qed.

Lemma cell_is_rel s l c c' : crel c c' -> cell_is s l c = cell_is s l c'.
Proof. intros [Hk _]. unfold cell_is. now rewrite Hk. Qed.

Lemma cell_items_rel ch ch' s l : Forall2 crel ch ch' -> Forall2 sirel (cell_items ch s l) (cell_items ch' s l).
Proof.
  intros HF. induction HF as [|c c' r r' Hc _ IH]; cbn [cell_items]; [constructor|].
  rewrite (cell_is_rel s l _ _ Hc). destruct (cell_is s l c'); [exact (proj2 Hc) | exact IH].
Qed.

Lemma cell_add_rel ch ch' s l x x' : Forall2 crel ch ch' -> sirel x x' ->
  Forall2 crel (cell_add ch s l x) (cell_add ch' s l x').
Proof.
  intros HF Hx. induction HF as [|c c' r r' Hc Hr IH]; cbn [cell_add].
  - constructor; [|constructor]. split; cbn [fst snd]; [reflexivity | constructor; [assumption | constructor]].
  - rewrite (cell_is_rel s l _ _ Hc). destruct (cell_is s l c').
    + constructor; [|assumption]. destruct Hc as [Hk Hi]. split; cbn [fst snd]; [assumption | constructor; assumption].
    + constructor; assumption.
Qed.

Lemma cell_contains_rel its its' a a' : Forall2 sirel its its' -> irel R a a' ->
  cell_contains ceqb its a = cell_contains ceqb' its' a'.
Proof.
  intros HF Ha. unfold cell_contains. induction HF as [|o o' r r' [Ho _] _ IH]; cbn [existsb]; [reflexivity|].
  now rewrite (R_eqb _ _ _ _ (irel_jcat R _ _ Ha) (irel_jcat R _ _ Ho)), IH.
Qed.

Lemma chart_update_rel ch ch' a a' idx : Forall2 crel ch ch' -> irel R a a' ->
  orel (Forall2 crel) (chart_update ceqb dedup ch a idx) (chart_update ceqb' dedup ch' a' idx).
Proof.
  intros HF Ha. unfold chart_update.
  rewrite (irel_jstart _ _ Ha), (irel_jlen _ _ Ha).
  rewrite (cell_contains_rel _ _ _ _ (cell_items_rel _ _ (jstart a') (jlen a') HF) Ha).
  destruct (dedup && cell_contains ceqb' (cell_items ch' (jstart a') (jlen a')) a'); cbn [orel]; [exact I|].
  apply cell_add_rel; [assumption|]. split; cbn [fst snd]; [assumption | reflexivity].
Qed.

Lemma goal_contains_rel a a' g g' : irel R a a' -> Forall2 (irel R) g g' ->
  existsb (fun x => ceqb (jcat a) (jcat x)) g = existsb (fun x => ceqb' (jcat a') (jcat x)) g'.
Proof.
  intros Ha HF. induction HF as [|b b' r r' Hb _ IH]; cbn [existsb]; [reflexivity|].
  now rewrite (R_eqb _ _ _ _ (irel_jcat R _ _ Ha) (irel_jcat R _ _ Hb)), IH.
Qed.

Lemma dpush_fin_rel a a' ia : irel R a a' -> Forall2 direl (dpush_fin n dep isroot a ia) (dpush_fin n dep isroot' a' ia).
Proof.
  intros Ha. unfold dpush_fin. rewrite (R_root _ _ (irel_jcat R _ _ Ha)), (irel_jlen _ _ Ha).
  destruct ((jlen a' =? n)%nat && isroot' (jcat a')); [|constructor].
  constructor; [|constructor]. split; cbn [d_item d_pop]; [now apply jfinal_rel | constructor].
Qed.

Lemma dpush_un_rel a a' ia : irel R a a' -> Forall2 direl (dpush_un n un pen a ia) (dpush_un n un' pen a' ia).
Proof.
  intros Ha. unfold dpush_un. rewrite (irel_jlen _ _ Ha).
  destruct ((n =? 1)%nat || negb (jlen a' =? n)%nat); [|constructor].
  apply F2_map with (P := fun p q => fst p = fst q /\ R (snd p) (snd q)).
  - intros p q [Hk Hc]. rewrite Hk. split; cbn [d_item d_pop]; [now apply junary_rel | now constructor].
  - apply (F2_enum R). apply R_un. now apply irel_jcat.
Qed.

Lemma dcomb_right_rel a a' ia o o' : irel R a a' -> sirel o o' ->
  Forall2 direl (dcomb_right n dep besttag bestdep bin a ia o) (dcomb_right n dep besttag bestdep bin' a' ia o').
Proof.
  intros Ha [Ho Hi]. unfold dcomb_right.
  apply F2_map with (P := fun p q => fst p = fst q /\ (R (fst (snd p)) (fst (snd q)) /\ snd (snd p) = snd (snd q))).
  - intros p q [Hk [Hc Hh]]. rewrite Hk, Hh, Hi.
    split; cbn [d_item d_pop]; [now apply jcombine_rel | now constructor].
  - apply (F2_enum (fun p q => R (fst p) (fst q) /\ snd p = snd q)). apply R_bin; now apply irel_jcat.
Qed.

Lemma dcomb_left_rel a a' ia o o' : irel R a a' -> sirel o o' ->
  Forall2 direl (dcomb_left n dep besttag bestdep bin a ia o) (dcomb_left n dep besttag bestdep bin' a' ia o').
Proof.
  intros Ha [Ho Hi]. unfold dcomb_left.
  apply F2_map with (P := fun p q => fst p = fst q /\ (R (fst (snd p)) (fst (snd q)) /\ snd (snd p) = snd (snd q))).
  - intros p q [Hk [Hc Hh]]. rewrite Hk, Hh, Hi.
    split; cbn [d_item d_pop]; [now apply jcombine_rel | now constructor].
  - apply (F2_enum (fun p q => R (fst p) (fst q) /\ snd p = snd q)). apply R_bin; now apply irel_jcat.
Qed.

Lemma cells_starting_at_rel ch ch' i : Forall2 crel ch ch' ->
  Forall2 crel (cells_starting_at ch i) (cells_starting_at ch' i).
Proof.
  intros HF. unfold cells_starting_at. apply F2_filter with (P := crel); [|assumption].
  intros c c' [Hk _]. now rewrite Hk.
Qed.

Lemma cells_ending_at_rel ch ch' i : Forall2 crel ch ch' ->
  Forall2 crel (cells_ending_at ch i) (cells_ending_at ch' i).
Proof.
  intros HF. unfold cells_ending_at. apply F2_filter with (P := crel); [|assumption].
  intros c c' [Hk _]. now rewrite Hk.
Qed.

Lemma dpush_right_rel a a' ia ch ch' : irel R a a' -> Forall2 crel ch ch' ->
  Forall2 direl (dpush_right n dep besttag bestdep bin a ia ch) (dpush_right n dep besttag bestdep bin' a' ia ch').
Proof.
  intros Ha HF. unfold dpush_right. rewrite (irel_jstart _ _ Ha), (irel_jlen _ _ Ha).
  apply F2_flat_map with (P := crel); [|now apply cells_starting_at_rel].
  intros c c' [_ Hc]. apply F2_flat_map with (P := sirel); [|exact Hc].
  intros o o' Ho. now apply dcomb_right_rel.
Qed.

Lemma dpush_left_rel a a' ia ch ch' : irel R a a' -> Forall2 crel ch ch' ->
  Forall2 direl (dpush_left n dep besttag bestdep bin a ia ch) (dpush_left n dep besttag bestdep bin' a' ia ch').
Proof.
  intros Ha HF. unfold dpush_left. rewrite (irel_jstart _ _ Ha).
  apply F2_flat_map with (P := crel); [|now apply cells_ending_at_rel].
  intros c c' [_ Hc]. apply F2_flat_map with (P := sirel); [|exact Hc].
  intros o o' Ho. now apply dcomb_left_rel.
Qed.

Lemma dpushes_rel a a' ia ch ch' : irel R a a' -> Forall2 crel ch ch' ->
  Forall2 direl (dpushes n dep besttag bestdep bin un isroot pen a ia ch)
                (dpushes n dep besttag bestdep bin' un' isroot' pen a' ia ch').
Proof.
  intros Ha HF. unfold dpushes. repeat apply Forall2_app.
  - now apply dpush_fin_rel.
  - now apply dpush_un_rel.
  - now apply dpush_right_rel.
  - now apply dpush_left_rel.
Qed.

(* ---------- 3. the initial state ---------- *)
Lemma dleaves_rel : Forall2 direl (dleaves n tag adm besttag bestdep) (dleaves n tag' adm' besttag bestdep).
Proof.
  unfold dleaves. apply F2_flat_map with (P := @eq nat); [|apply F2_eq_refl].
  intros i j <-. apply F2_map with (P := fun c c' => R c c' /\ tag i c = tag' i c'); [|apply R_adm].
  intros c c' [Hc Ht]. split; cbn [d_item d_pop]; [now apply jleaf_rel | now constructor].
Qed.

Lemma dinit_rel : dsrel (dinit n tag adm besttag bestdep) (dinit n tag' adm' besttag bestdep).
Proof.
  unfold dsrel, dinit; cbn [dheap dchart dstored dgoal dsteps dtrace].
  split; [|repeat split; constructor].
  apply push_all_rel; [apply dleaves_rel | constructor].
Qed.

(* ---------- 4. the loop condition ---------- *)
Lemma drunning_rel st st' : dsrel st st' -> drunning_b max_step nbest st = drunning_b max_step nbest st'.
Proof.
  intros (Hh & _ & _ & Hg & Hn & _). unfold drunning_b.
  rewrite Hn, (F2_length _ _ _ Hg). destruct Hh; reflexivity.
Qed.

(* ---------- 5. one iteration ---------- *)
Lemma mk_trec_rel x x' b : direl x x' -> trel (mk_trec x b) (mk_trec x' b).
Proof.
  intros [Hi Hp]. unfold trel, mk_trec; cbn [t_pop t_in t_out t_start t_len t_head t_stored].
  split; [exact Hp|]. split; [now apply irel_jin|]. split; [now apply irel_jout|]. split; [now apply irel_jstart|].
  split; [now apply irel_jlen|]. split; [now apply irel_jhead | reflexivity].
Qed.

Theorem dstep_rel st st' : dsrel st st' ->
  dsrel (dstep ceqb n dep besttag bestdep bin un isroot pen dedup st)
        (dstep ceqb' n dep besttag bestdep bin' un' isroot' pen dedup st').
Proof.
  intros Hst. pose proof Hst as (Hh & Hc & Hs & Hg & Hn & Ht). unfold dstep.
  pose proof (pop_rel dlt dlt direl dlt_rel _ _ Hh) as Hp. unfold pop_res_rel in Hp.
  destruct (pop dlt (dheap st)) as [[x h]|], (pop dlt (dheap st')) as [[x' h']|]; try contradiction; [|exact Hst].
  destruct Hp as [Hx Hh2]. pose proof Hx as [Hxi Hxp]. cbv zeta.
  rewrite (irel_jfin _ _ Hxi). destruct (jfin (d_item x')).
  - (* a goal item *)
    unfold dsrel; cbn [dheap dchart dstored dgoal dsteps dtrace].
    rewrite (goal_contains_rel _ _ _ _ Hxi Hg).
    split; [exact Hh2|]. split; [exact Hc|]. split; [exact Hs|].
    split; [|split; [now rewrite Hn | constructor; [now apply mk_trec_rel | exact Ht]]].
    destruct (dedup && existsb (fun g => ceqb' (jcat (d_item x')) (jcat g)) (dgoal st')); [exact Hg | now constructor].
  - (* a chart item *)
    pose proof (chart_update_rel _ _ _ _ (dstored st) Hc Hxi) as Hu. rewrite Hs in Hu at 2. unfold orel in Hu.
    destruct (chart_update ceqb dedup (dchart st) (d_item x) (dstored st)) as [ch|],
             (chart_update ceqb' dedup (dchart st') (d_item x') (dstored st')) as [ch'|]; try contradiction.
    + unfold dsrel; cbn [dheap dchart dstored dgoal dsteps dtrace].
      split; [|split; [exact Hu|]].
      * apply push_all_rel; [|exact Hh2]. rewrite <- Hs. now apply dpushes_rel.
      * split; [now rewrite Hs|]. split; [exact Hg|].
        split; [now rewrite Hn | constructor; [now apply mk_trec_rel | exact Ht]].
    + unfold dsrel; cbn [dheap dchart dstored dgoal dsteps dtrace].
      split; [exact Hh2|]. split; [exact Hc|]. split; [exact Hs|]. split; [exact Hg|].
      split; [now rewrite Hn | constructor; [now apply mk_trec_rel | exact Ht]].
Qed.

(* ---------- 6. the loop ---------- *)
Theorem drun_rel fuel : forall st st', dsrel st st' ->
  dsrel (drun ceqb n dep besttag bestdep bin un isroot pen dedup max_step nbest fuel st)
        (drun ceqb' n dep besttag bestdep bin' un' isroot' pen dedup max_step nbest fuel st').
Proof.
  induction fuel as [|f IH]; intros st st' Hst; cbn [drun]; [exact Hst|].
  rewrite (drunning_rel _ _ Hst). destruct (drunning_b max_step nbest st'); [|exact Hst].
  apply IH. now apply dstep_rel.
Qed.

Theorem dfinal_rel :
  dsrel (dfinal ceqb n tag dep adm besttag bestdep bin un isroot pen dedup max_step nbest)
        (dfinal ceqb' n tag' dep adm' besttag bestdep bin' un' isroot' pen dedup max_step nbest).
Proof. unfold dfinal. apply drun_rel. apply dinit_rel. Qed.

(* ---------- 7. what the caller sees ---------- *)
Lemma sort_desc_rel l l' : Forall2 (irel R) l l' -> Forall2 (irel R) (sort_desc l) (sort_desc l').
Proof.
  intros HF. unfold sort_desc. induction HF as [|b b' l l' Hb _ IH]; cbn [fold_right]; [constructor|].
  now apply insert_desc_rel.
Qed.

Lemma dpops_rel st st' : dsrel st st' -> Forall2 trel (dpops st) (dpops st').
Proof. intros (_ & _ & _ & _ & _ & Ht). unfold dpops. now apply F2_rev. Qed.

Lemma dstatus_rel st st' : dsrel st st' -> dstatus st = dstatus st'.
Proof. intros (_ & _ & _ & Hg & _). unfold dstatus. destruct Hg; reflexivity. Qed.

Lemma dresult_rel st st' : dsrel st st' -> Forall2 (irel R) (dresult st) (dresult st').
Proof. intros (_ & _ & _ & Hg & _). unfold dresult. now apply sort_desc_rel. Qed.

Lemma irel_scores l l' : Forall2 (irel R) l l' -> map (@jprio C) l = map (@jprio C') l'.
Proof.
  intros HF. induction HF as [|b b' l l' Hb _ IH]; cbn [map]; [reflexivity|].
  now rewrite (irel_jprio R _ _ Hb), IH.
Qed.

Theorem dsearch_is_category_blind :
  let st := dfinal ceqb n tag dep adm besttag bestdep bin un isroot pen dedup max_step nbest in
  let st' := dfinal ceqb' n tag' dep adm' besttag bestdep bin' un' isroot' pen dedup max_step nbest in
  Forall2 trel (dpops st) (dpops st') /\
  dstatus st = dstatus st' /\
  Forall2 (irel R) (dresult st) (dresult st') /\
  map (@jprio C) (dresult st) = map (@jprio C') (dresult st').
Proof.
  intros st st'. assert (Hst : dsrel st st') by apply dfinal_rel.
  split; [now apply dpops_rel|]. split; [now apply dstatus_rel|].
  split; [now apply dresult_rel | apply irel_scores; now apply dresult_rel].
Qed.
End Blind.

(* ---------- 8. when the equality tests decide equality, bi-uniqueness of R is enough ---------- *)
Theorem dsearch_is_category_blind_biunique {C C' : Type}
  (ceqb : C -> C -> bool) (ceqb' : C' -> C' -> bool) (n : nat)
  (tag : nat -> C -> Z) (tag' : nat -> C' -> Z) (dep : nat -> nat -> Z)
  (adm : nat -> list C) (adm' : nat -> list C') (besttag bestdep : nat -> Z)
  (bin : C -> C -> list (C * bool)) (bin' : C' -> C' -> list (C' * bool))
  (un : C -> list C) (un' : C' -> list C') (isroot : C -> bool) (isroot' : C' -> bool)
  (pen : Z) (dedup : bool) (max_step nbest : nat) (R : C -> C' -> Prop) :
  (forall a b, ceqb a b = true <-> a = b) -> (forall a b, ceqb' a b = true <-> a = b) ->
  (forall a a' b', R a a' -> R a b' -> a' = b') -> (forall a b a', R a a' -> R b a' -> a = b) ->
  (forall a a' b b', R a a' -> R b b' ->
     Forall2 (fun p q => R (fst p) (fst q) /\ snd p = snd q) (bin a b) (bin' a' b')) ->
  (forall a a', R a a' -> Forall2 R (un a) (un' a')) ->
  (forall a a', R a a' -> isroot a = isroot' a') ->
  (forall i, Forall2 (fun c c' => R c c' /\ tag i c = tag' i c') (adm i) (adm' i)) ->
  let st := dfinal ceqb n tag dep adm besttag bestdep bin un isroot pen dedup max_step nbest in
  let st' := dfinal ceqb' n tag' dep adm' besttag bestdep bin' un' isroot' pen dedup max_step nbest in
  Forall2 (trel R) (dpops st) (dpops st') /\
  dstatus st = dstatus st' /\
  Forall2 (irel R) (dresult st) (dresult st') /\
  map (@jprio C) (dresult st) = map (@jprio C') (dresult st').
Proof.
  intros He He' Hfun Hinj Hbin Hun Hroot Hadm.
  apply dsearch_is_category_blind; try assumption.
  now apply biunique_eqb.
Qed.
