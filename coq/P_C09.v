(* C09 - the reported score is the model score of the returned tree.  Property theorems only. *)
From Coq Require Import List ZArith Bool Arith.
Import ListNotations.
Require Import AStar AStarLoss AStarOpt AStarImpl AStarRefine AStarThms AStarReplay AStarCheck AStarProblem AStarExample.
Open Scope Z_scope.

(* p_score d = p_ins d + root attachment of d's head, where p_ins is the recursive accounting of the statement:
   leaf: its tag score; unary: child - penalty; binary: left + right + dep(non-head child's head -> head child's head),
   the head being determined by the head flags *)
Theorem C09_score_formula : forall p d,
  p_score p d = p_ins p d + p_depf p (dhead d) 0 /\
  p_ins p d = match d with
              | DLeaf i c => p_tagf p i c
              | DUn _ _ d' => p_ins p d' - p_pen p
              | DBin _ _ hl l r => p_ins p l + p_ins p r +
                  (if hl then p_depf p (dhead r) (S (dhead l)) else p_depf p (dhead l) (S (dhead r)))
              end.
Proof. intros p d. split; [reflexivity|]. destruct d; reflexivity. Qed.

(* the score stored in every goal item of an accepted run (what the finalizer reports) is that model score *)
Theorem C09_reported_score_is_model_score : forall p tr st g,
  p_accepts p tr = Some st -> In g (jgoal st) -> jprio g = p_score p (jder g).
Proof.
  intros p tr st g Hacc Hg. destruct (p_accepts_reach p tr st Hacc) as [Hr _].
  exact (goal_score Nat.eqb (p_n p) (p_tagf p) (p_depf p) (p_adm p) (p_besttag p) (p_bestdep p) (lookup2 (p_bin p))
           (lookup1 (p_un p)) (p_isroot p) (p_pen p) (p_max_step p) (p_nbest p) (p_dedup p) st g Hr Hg).
Qed.

(* every finished item stores the inside score, head and span of its derivation *)
Theorem C09_chart_items_account : forall p tr st a,
  p_accepts p tr = Some st -> In a (jchart st) ->
  jin a = p_ins p (jder a) /\ jhead a = dhead (jder a) /\ jstart a = dstart (jder a) /\ jlen a = dlen (jder a).
Proof.
  intros p tr st a Hacc Ha. destruct (p_accepts_reach p tr st Hacc) as [Hr _].
  exact (chart_fields Nat.eqb (p_n p) (p_tagf p) (p_depf p) (p_adm p) (p_besttag p) (p_bestdep p) (lookup2 (p_bin p))
           (lookup1 (p_un p)) (p_isroot p) (p_pen p) (p_max_step p) (p_nbest p) (p_dedup p) st a Hr Ha).
Qed.

Example ex_c09 : p_score (ex_problem true 1) ex_d1 = -44.
Proof. vm_compute. reflexivity. Qed.
