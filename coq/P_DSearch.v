(* The deterministic twin of parse_sentence: property theorems only (strengthenings of C01 / C10 / C11).
   Until now the tie-breaking of std::priority_queue among equal scores was abstracted (the theorems of P_C01 / P_C10 hold for
   every maximal-priority pop, the hook supplied the actual order).  Here the model receives ONLY the problem:
     Heap.v       libstdc++'s std::priority_queue (push_heap / pop_heap / __adjust_heap), tied to the real library by
                  harness/heap_driver.cpp (pop order and final vector layout on random operation sequences with many ties);
     DSearch.v    parse_sentence with that heap as agenda and as per-word tag heaps, the chart cells in first-use order, the
                  push order of the C++; `d_final p` (DSearchCheck.v) is exactly what the correspondence cases evaluate: its pop
                  trace, status, goals and scores EQUAL those of the real search (harness/dsearch_cases.py).
   The theorems: the run of the twin is a valid run of the implementation-level model (so everything proved for all valid runs
   holds for the run the C++ makes), and the twin - heap included - never looks at category ids of derived categories. *)
From Coq Require Import List ZArith Bool Arith Permutation Sorted.
Import ListNotations.
Require Import AStar AStarLoss AStarOpt AStarImpl AStarRefine AStarThms AStarReplay AStarCheck AStarProblem AStarExample AStarEquiv.
Require Import Heap HeapProofs DSearch DSearchCheck DSearchProofs DSearchBeam DSearchBlind DSearchProblem.
Open Scope Z_scope.

(* ================= the heap (std::priority_queue) ================= *)
(* push adds exactly the element, pop removes exactly the element it returns (any comparator) *)
Theorem C01_d_heap_push_adds_the_element : forall (T : Type) (lt : T -> T -> bool) v x, Permutation (push lt v x) (x :: v).
Proof. exact (@push_perm). Qed.
Theorem C01_d_heap_pop_removes_the_top : forall (T : Type) (lt : T -> T -> bool) v x v',
  pop lt v = Some (x, v') -> Permutation v (x :: v').
Proof. exact (@pop_perm). Qed.
(* for a strict weak order: the popped element is maximal (no element is greater), the heap invariant is preserved *)
Theorem C01_d_heap_pop_is_maximal : forall (T : Type) (lt : T -> T -> bool) v x v',
  swo lt -> heap_ok lt v -> pop lt v = Some (x, v') -> forall y, In y v -> lt x y = false.
Proof. exact (@pop_max). Qed.
Theorem C01_d_heap_push_keeps_invariant : forall (T : Type) (lt : T -> T -> bool) v x, swo lt -> heap_ok lt v -> heap_ok lt (push lt v x).
Proof. exact (@push_heap_ok). Qed.
Theorem C01_d_heap_pop_keeps_invariant : forall (T : Type) (lt : T -> T -> bool) v x v',
  swo lt -> heap_ok lt v -> pop lt v = Some (x, v') -> heap_ok lt v'.
Proof. exact (@pop_heap_ok). Qed.
(* the two comparators of parsing.h are strict weak orders: operator< of cell_item (score only), and of pair<float, id> *)
Theorem C01_d_item_order_is_strict_weak : forall C : Type, swo (@dlt C).
Proof. exact (fun C => swo_key (fun x : @ditem C => jprio (d_item x))). Qed.
Theorem C01_d_pair_order_is_strict_weak : swo pair_ltb.
Proof. exact swo_pair. Qed.

(* ================= the supertag beam read off the tag heaps ================= *)
Theorem C01_d_beam_is_the_sorted_beam : forall p i, d_adm p i = p_adm p i.
Proof. exact d_adm_eq. Qed.
Theorem C01_d_best_tag_is_the_row_maximum : forall p i, d_besttag p i = p_besttag p i.
Proof. exact d_besttag_eq. Qed.

(* ================= the deterministic search is a valid run ================= *)
(* every iteration pops a maximal agenda item and performs AStarImpl.jstep (generic form, any handle type) *)
Theorem C01_d_every_step_is_a_valid_step : forall (C : Type) (ceqb : C -> C -> bool), (forall a b, ceqb a b = true <-> a = b) ->
  forall n tag dep adm besttag bestdep bin un isroot pen dedup max_step nbest, (dedup = true -> (nbest <= 1)%nat) ->
  forall ds js, jreach ceqb n tag dep adm besttag bestdep bin un isroot pen dedup max_step nbest js ->
    dinv ds -> sim ds js -> drunning_b max_step nbest ds = true ->
    exists a, jrunning max_step nbest js /\ jvalid_pop a js /\
              sim (dstep ceqb n dep besttag bestdep bin un isroot pen dedup ds) (jstep ceqb n dep besttag bestdep bin un isroot pen dedup a js) /\
              dinv (dstep ceqb n dep besttag bestdep bin un isroot pen dedup ds).
Proof. exact (@dstep_sim). Qed.

(* the run of the twin on a problem is a run `p_reach` of the implementation-level model, ended, with the same goal list,
   step count, status and finalizer-order result list *)
Theorem C01_d_run_is_a_valid_run : forall p, p_mode_ok p = true ->
  exists js, p_reach p js /\ p_running_b p js = false /\ jgoal js = rev (dgoal (d_final p)) /\ jsteps js = dsteps (d_final p) /\
             jstatus js = dstatus (d_final p) /\ jresult js = dresult (d_final p).
Proof. exact d_run_is_a_valid_run. Qed.

(* 1-best, head-uniform grammar, penalty >= 0: THE parse the search returns is a complete derivation of maximum score *)
Theorem C01_d_first_parse_is_optimal : forall p hdir,
  0 <= p_pen p -> uniformb hdir (p_bin p) = true -> p_dedup p = true -> (p_nbest p <= 1)%nat ->
  forall g rest, dresult (d_final p) = g :: rest ->
    rest = [] /\ p_complete p (jder g) /\ jprio g = p_score p (jder g) /\ forall d, p_complete p d -> p_score p d <= jprio g.
Proof. exact d_first_parse_is_optimal. Qed.
Theorem C01_d_first_parse_is_optimal_generic : forall (C : Type) (ceqb : C -> C -> bool), (forall a b, ceqb a b = true <-> a = b) ->
  forall n tag dep adm besttag bestdep bin un isroot pen max_step nbest,
  0 <= pen -> (forall i c, (i < n)%nat -> In c (adm i) -> tag i c <= besttag i) -> (forall i j, dep i j <= bestdep i) ->
  forall hdir, (forall x y c hl, In (c, hl) (bin x y) -> hl = hdir) -> (nbest <= 1)%nat ->
  forall g rest, dresult (dfinal ceqb n tag dep adm besttag bestdep bin un isroot pen true max_step nbest) = g :: rest ->
    rest = [] /\ complete n adm bin un isroot (jder g) /\ jprio g = score tag dep pen (jder g) /\
    forall d, complete n adm bin un isroot d -> score tag dep pen d <= jprio g.
Proof. exact (@dsearch_first_parse_optimal). Qed.
(* ... and it fails only if there is no derivation (or the step budget ran out) *)
Theorem C01_d_failure_only_if_no_parse : forall p hdir,
  0 <= p_pen p -> uniformb hdir (p_bin p) = true -> p_dedup p = true -> (p_nbest p <= 1)%nat ->
  dstatus (d_final p) = 1%nat ->
  (forall d, ~ p_complete p d) \/ (p_max_step p <= dsteps (d_final p))%nat \/ p_nbest p = 0%nat.
Proof. exact d_failure_only_if_no_parse. Qed.

(* n-best: THE result list handed to the finalizer: valid and scored, the best ones, best first, at most k, pairwise different *)
Theorem C10_d_results_are_the_best_in_order : forall p, 0 <= p_pen p -> p_dedup p = false ->
  let res := dresult (d_final p) in
  (forall g, In g res -> p_complete p (jder g) /\ jprio g = p_score p (jder g)) /\
  (forall d, p_complete p d -> ~ In d (map (@jder nat) res) -> forall g, In g res -> p_score p d <= jprio g) /\
  StronglySorted (fun x y => jprio y <= jprio x) res /\
  (length res <= p_nbest p)%nat /\
  Permutation (map (@jder nat) res) (map (@jder nat) (dgoal (d_final p))) /\ NoDup (map (@jder nat) res).
Proof. exact d_nbest_results. Qed.

(* ================= category-blindness of the concrete tie-breaking ================= *)
(* the heap is parametric: related vectors and comparators that agree on related elements stay related, the popped
   elements are related *)
Theorem C11_d_heap_push_is_payload_blind : forall (A A' : Type) (lt : A -> A -> bool) (lt' : A' -> A' -> bool) (R : A -> A' -> Prop),
  (forall a a' b b', R a a' -> R b b' -> lt a b = lt' a' b') ->
  forall v v' x x', Forall2 R v v' -> R x x' -> Forall2 R (push lt v x) (push lt' v' x').
Proof. exact (@push_rel). Qed.
Theorem C11_d_heap_pop_is_payload_blind : forall (A A' : Type) (lt : A -> A -> bool) (lt' : A' -> A' -> bool) (R : A -> A' -> Prop),
  (forall a a' b b', R a a' -> R b b' -> lt a b = lt' a' b') ->
  forall v v', Forall2 R v v' -> pop_res_rel R (pop lt v) (pop lt' v').
Proof. exact (@pop_rel). Qed.
(* consequence: with a comparator that reads a key only, the popped keys are a function of the pushed keys *)
Theorem C11_d_pop_order_depends_on_keys_only : forall (K P P' : Type) (ltk : K -> K -> bool) (ops : list (option (K * P))) (ops' : list (option (K * P'))),
  map (option_map fst) ops = map (option_map fst) ops' ->
  map fst (fst (fst (run_ops (fun a b => ltk (fst a) (fst b)) ops [] [] 0))) =
  map fst (fst (fst (run_ops (fun a b => ltk (fst a) (fst b)) ops' [] [] 0))).
Proof. exact (@pops_depend_on_keys_only). Qed.

(* the whole deterministic search: two instances whose handles are related by a bi-unique R (rule results related position by
   position with equal head flags, related admitted tags with equal scores, root tests agree) produce position-wise related pop
   traces (same kinds, rule indices, head flags, chart slots, spans, heads, all scores), the same status, related results, equal
   scores.  So libstdc++'s choice among equal scores is a category-blind policy (partial item (1) of P_C11.v). *)
Theorem C11_d_search_is_category_blind_generic : forall (C C' : Type) (ceqb : C -> C -> bool) (ceqb' : C' -> C' -> bool) n tag tag' dep adm adm'
    besttag bestdep bin bin' un un' isroot isroot' pen dedup max_step nbest (R : C -> C' -> Prop),
  (forall a b, ceqb a b = true <-> a = b) -> (forall a b, ceqb' a b = true <-> a = b) ->
  (forall a a' b', R a a' -> R a b' -> a' = b') -> (forall a b a', R a a' -> R b a' -> a = b) ->
  (forall a a' b b', R a a' -> R b b' -> Forall2 (fun p q => R (fst p) (fst q) /\ snd p = snd q) (bin a b) (bin' a' b')) ->
  (forall a a', R a a' -> Forall2 R (un a) (un' a')) ->
  (forall a a', R a a' -> isroot a = isroot' a') ->
  (forall i, Forall2 (fun c c' => R c c' /\ tag i c = tag' i c') (adm i) (adm' i)) ->
  let st := dfinal ceqb n tag dep adm besttag bestdep bin un isroot pen dedup max_step nbest in
  let st' := dfinal ceqb' n tag' dep adm' besttag bestdep bin' un' isroot' pen dedup max_step nbest in
  Forall2 (trel R) (dpops st) (dpops st') /\ dstatus st = dstatus st' /\
  Forall2 (irel R) (dresult st) (dresult st') /\ map (@jprio C) (dresult st) = map (@jprio C') (dresult st').
Proof. exact (@dsearch_is_category_blind_biunique). Qed.

(* on problems: the same sentence and configuration, grammars equal up to a bi-unique renaming of the ids that fixes the
   admitted lexical ids (the tag heaps compare (score, id) pairs, so lexical ids are NOT renamed) *)
Theorem C11_d_search_is_category_blind : forall R p p', renamed R p p' ->
  Forall2 (trel R) (dpops (d_final p)) (dpops (d_final p')) /\
  dstatus (d_final p) = dstatus (d_final p') /\
  Forall2 (irel R) (dresult (d_final p)) (dresult (d_final p')) /\
  map (@jprio nat) (dresult (d_final p)) = map (@jprio nat) (dresult (d_final p')).
Proof. exact d_search_is_category_blind. Qed.

(* ================= non-vacuity ================= *)
(* the twin predicts the recorded real traces of AStarExample.v exactly, from the problem alone *)
Example ex_d_predicts_trace1 : dsearch_ok (ex_problem true 1) ex_trace1 0 [ex_d1] [-44] = true.
Proof. vm_compute. reflexivity. Qed.
Example ex_d_predicts_trace3 : dpops (d_final (ex_problem false 3)) = ex_trace3 /\ map (@jprio nat) (dresult (d_final (ex_problem false 3))) = [-44; -74; -74].
Proof. vm_compute. split; reflexivity. Qed.
Example ex_d_hyps : p_mode_ok (ex_problem true 1) = true /\ p_mode_ok (ex_problem false 3) = true /\
  0 <= p_pen (ex_problem true 1) /\ uniformb true (p_bin (ex_problem true 1)) = true /\ p_dedup (ex_problem true 1) = true /\ (p_nbest (ex_problem true 1) <= 1)%nat.
Proof. repeat split; try (vm_compute; congruence). vm_compute. constructor. Qed.
(* ties are really broken by the heap: a problem where all scores are equal; the pop order is the heap's *)
Definition ex_tie_problem : problem :=
  {| p_tag := [[0; 0]; [0; 0]; [0; 0]]; p_dep := [[0; 0; 0; 0]; [0; 0; 0; 0]; [0; 0; 0; 0]];
     p_bin := [(0%nat, 0%nat, [(0%nat, true)]); (0%nat, 1%nat, [(1%nat, true); (0%nat, true)]); (1%nat, 0%nat, [(1%nat, true)])];
     p_un := []; p_roots := [0%nat; 1%nat]; p_pen := 0; p_dedup := false; p_pruning := 2%nat; p_use_beta := false; p_theta := 0;
     p_max_step := 1000%nat; p_nbest := 4%nat |}.
Example ex_d_ties : d_tie_pops ex_tie_problem = length (dpops (d_final ex_tie_problem)) /\ length (dpops (d_final ex_tie_problem)) = 18%nat /\
  length (dresult (d_final ex_tie_problem)) = 4%nat.
Proof. vm_compute. repeat split; reflexivity. Qed.

(* blindness: the same grammar with the two derived categories 2 and 3 exchanged *)
Definition ex_swap (x : nat) : nat := match x with 2%nat => 3%nat | 3%nat => 2%nat | _ => x end.
Definition ex_blind_problem (a b : nat) : problem :=
  {| p_tag := [[0; -8]; [-8; 0]; [0; 0]]; p_dep := [[0; 0; -8; 0]; [0; 0; 0; -8]; [-8; 0; 0; 0]];
     p_bin := [(0%nat, 1%nat, [(a, true)]); (1%nat, 0%nat, [(b, true)]); (a, 0%nat, [(a, true)]); (b, 1%nat, [(a, true)]); (0%nat, b, [(a, true)])];
     p_un := [(0%nat, [b])]; p_roots := [a]; p_pen := 2; p_dedup := true; p_pruning := 2%nat; p_use_beta := false; p_theta := 0;
     p_max_step := 1000%nat; p_nbest := 1%nat |}.
Example ex_d_blind_hyps : renamed (fun x y => y = ex_swap x) (ex_blind_problem 2 3) (ex_blind_problem 3 2).
Proof.
  constructor; try reflexivity.
  - intros a a' b' -> ->. reflexivity.
  - intros a b a' -> H. destruct a as [|[|[|[|a]]]], b as [|[|[|[|b]]]]; simpl in H; congruence.
  - intros i c Hc. destruct i as [|[|[|[|i]]]]; vm_compute in Hc; repeat (destruct Hc as [<-|Hc]; [reflexivity|]); destruct Hc.
  - intros a a' b b' -> ->. destruct a as [|[|[|[|a]]]], b as [|[|[|[|b]]]]; cbn; repeat constructor.
  - intros a a' ->. destruct a as [|[|[|[|a]]]]; cbn; repeat constructor.
  - intros a a' ->. destruct a as [|[|[|[|a]]]]; reflexivity.
Qed.
Example ex_d_blind_run : length (dpops (d_final (ex_blind_problem 2 3))) = 8%nat /\ dstatus (d_final (ex_blind_problem 2 3)) = 0%nat.
Proof. vm_compute. split; reflexivity. Qed.
