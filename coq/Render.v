(* Rendering parse results (depccg.printer.to_string) as an observation of a store of trees and tokens.
   MODEL ONLY - no proofs here, so that the model still runs when a proof breaks.

   What a printer does to the caller's objects and when it raises is *not* written down here: it comes from
   GenRender.v, which translate/gen_render.py regenerates from the current source on every run:
     - strict token keys (KeyError when missing), mutating operations, label-table lookups, per (language, format);
     - the label vocabularies of the two grammars, the CLI format lists, the default leaf label.
   The model interprets those tables:
     render f s = (outcome, store')    outcome = Ok | KeyErr k | LabelErr l     store' = the mutations of f applied to s
   The text a printer produces is not modelled (an arbitrary function `enc` of the store stands for it in the
   sequence theorems of C18). *)
From Coq Require Import List NArith Bool.
Import ListNotations.
Require Import Cat Tree GenRender.
Open Scope N_scope.

(* ---------- words of the generated tables ---------- *)
Definition s_binary : text := [98;105;110;97;114;121].
Definition s_unary : text := [117;110;97;114;121].
Definition s_nonleaf : text := [110;111;110;108;101;97;102].
Definition s_leaf : text := [108;101;97;102].
Definition s_all : text := [97;108;108].
Definition s_op_string : text := [111;112;95;115;116;114;105;110;103].
Definition s_op_symbol : text := [111;112;95;115;121;109;98;111;108].
Definition s_tok_pop : text := [116;111;107;46;112;111;112].
Definition s_tok_move : text := [116;111;107;46;109;111;118;101].
Definition l_en : text := [101;110].
Definition l_ja : text := [106;97].

(* ---------- format descriptions ---------- *)
Definition mutation := (text * text)%type.                 (* (kind, target) *)
Definition label_check := (text * text * list text)%type.  (* (scope of nodes, attribute, keys of the table) *)
Record spec := { f_lang : text; f_name : text; f_strict : list text; f_muts : list mutation; f_labels : list label_check }.
Definition spec_of (row : text * text * (list text * list mutation * list label_check)) : spec :=
  let '(lang, name, (strict, muts, labels)) := row in
  {| f_lang := lang; f_name := name; f_strict := strict; f_muts := muts; f_labels := labels |}.
Definition offered_formats : list spec := map spec_of render_table.
Definition offered_for (lang : text) : list spec := filter (fun f => text_eqb (f_lang f) lang) offered_formats.
Definition find_spec (lang name : text) : option spec :=
  find (fun f => text_eqb (f_lang f) lang && text_eqb (f_name f) name) offered_formats.

(* ---------- the store: a batch of n-best lists, plus a log of mutations the model cannot interpret ---------- *)
Definition sentence := list tree.
Record store := { trees : list sentence; oplog : list mutation }.

(* ---------- mutations ---------- *)
Fixpoint tok_remove (k : text) (t : token) : token :=
  match t with [] => [] | (k', v) :: r => if text_eqb k k' then tok_remove k r else (k', v) :: tok_remove k r end.
(* d[k] = v : overwrite in place, else append (insertion order) *)
Fixpoint tok_set (k v : text) (t : token) : token :=
  match t with [] => [(k, v)] | (k', v') :: r => if text_eqb k k' then (k, v) :: r else (k', v') :: tok_set k v r end.

Inductive mut := MPop (k : text) | MMove (k1 k2 : text) | MOpaque (m : mutation).
Definition decode_mut (m : mutation) : mut :=
  let (kind, target) := m in
  if text_eqb kind s_tok_pop then MPop target
  else if text_eqb kind s_tok_move then
    match split_on cGT target [] with [k1; k2] => MMove k1 k2 | _ => MOpaque m end
  else MOpaque m.
(* `if k1 in token: token[k2] = token.pop(k1)`; `token.pop(k, None)` *)
Definition apply_mut_tok (t : token) (m : mutation) : token :=
  match decode_mut m with
  | MPop k => tok_remove k t
  | MMove k1 k2 => match tok_get k1 t with Some v => tok_set k2 v (tok_remove k1 t) | None => t end
  | MOpaque _ => t
  end.
Definition is_opaque (m : mutation) : bool := match decode_mut m with MOpaque _ => true | _ => false end.
Definition mutate_token (ms : list mutation) (t : token) : token := fold_left apply_mut_tok ms t.
Fixpoint map_tokens (g : token -> token) (t : tree) : tree :=
  match t with
  | Leaf c tok ops sym => Leaf c (g tok) ops sym
  | Un c ops sym t' => Un c ops sym (map_tokens g t')
  | Bin c ops sym hl l r => Bin c ops sym hl (map_tokens g l) (map_tokens g r)
  end.
Definition mutate (ms : list mutation) (s : store) : store :=
  {| trees := map (map (map_tokens (mutate_token ms))) (trees s); oplog := oplog s ++ filter is_opaque ms |}.

(* ---------- outcome ---------- *)
Inductive outcome := Ok | KeyErr (k : text) | LabelErr (l : text).
Definition seq (a b : outcome) : outcome := match a with Ok => b | e => e end.
Definition has_key (k : text) (t : token) : bool := match tok_get k t with Some _ => true | None => false end.
Definition check_leaf (strict : list text) (tok : token) : outcome :=
  match find (fun k => negb (has_key k tok)) strict with Some k => KeyErr k | None => Ok end.

Inductive nkind := KLeaf | KUn | KBin.
(* None: a scope word this model does not know (the closure theorems then fail: fail-closed) *)
Definition scope_applies (scope : text) (k : nkind) : option bool :=
  if text_eqb scope s_all then Some true
  else if text_eqb scope s_binary then Some (match k with KBin => true | _ => false end)
  else if text_eqb scope s_unary then Some (match k with KUn => true | _ => false end)
  else if text_eqb scope s_nonleaf then Some (match k with KLeaf => false | _ => true end)
  else if text_eqb scope s_leaf then Some (match k with KLeaf => true | _ => false end)
  else None.
Definition label_attr (attr ops sym : text) : option text :=
  if text_eqb attr s_op_string then Some ops else if text_eqb attr s_op_symbol then Some sym else None.
Definition check_label1 (c : label_check) (k : nkind) (ops sym : text) : outcome :=
  let '(scope, attr, allowed) := c in
  match scope_applies scope k, label_attr attr ops sym with
  | Some false, _ => Ok
  | Some true, Some l => if text_in l allowed then Ok else LabelErr l
  | None, _ => LabelErr scope
  | _, None => LabelErr attr
  end.
Fixpoint check_labels (cs : list label_check) (k : nkind) (ops sym : text) : outcome :=
  match cs with [] => Ok | c :: r => seq (check_label1 c k ops sym) (check_labels r k ops sym) end.

(* pre-order, left to right: the order in which the recursive printers meet nodes *)
Fixpoint check_tree (f : spec) (t : tree) : outcome :=
  match t with
  | Leaf _ tok ops sym => seq (check_labels (f_labels f) KLeaf ops sym) (check_leaf (f_strict f) tok)
  | Un _ ops sym t' => seq (check_labels (f_labels f) KUn ops sym) (check_tree f t')
  | Bin _ ops sym _ l r => seq (check_labels (f_labels f) KBin ops sym) (seq (check_tree f l) (check_tree f r))
  end.
Fixpoint first_err {A : Type} (chk : A -> outcome) (l : list A) : outcome :=
  match l with [] => Ok | x :: r => seq (chk x) (first_err chk r) end.
Definition check_sentence (f : spec) (s : sentence) : outcome := first_err (check_tree f) s.
Definition check_batch (f : spec) (b : list sentence) : outcome := first_err (check_sentence f) b.

(* ---------- rendering ---------- *)
Section Enc.
  Variable output : Type.
  Variable enc : spec -> store -> output.          (* what the printer writes: any function of the store *)
  Definition render_with (f : spec) (s : store) : output * store := (enc f s, mutate (f_muts f) s).
  Fixpoint run_seq_with (fs : list spec) (s : store) : list output * store :=
    match fs with
    | [] => ([], s)
    | f :: r => let (o, s') := render_with f s in let (os, s'') := run_seq_with r s' in (o :: os, s'')
    end.
End Enc.
Definition render : spec -> store -> outcome * store := render_with outcome (fun f s => check_batch f (trees s)).
Definition run_seq : list spec -> store -> list outcome * store := run_seq_with outcome (fun f s => check_batch f (trees s)).
Definition single (t : sentence) : store := {| trees := [t]; oplog := [] |}.

(* ---------- what the parser can return ---------- *)
Definition vocab_bin (lang : text) : list (text * text) :=
  if text_eqb lang l_en then en_binary_labels else if text_eqb lang l_ja then ja_binary_labels else [].
Definition vocab_un (lang : text) : list (text * text) :=
  if text_eqb lang l_en then en_unary_labels else if text_eqb lang l_ja then ja_unary_labels else [].
Definition pair_in (ops sym : text) (l : list (text * text)) : bool :=
  existsb (fun p => text_eqb ops (fst p) && text_eqb sym (snd p)) l.
(* every leaf token has at least 'word' and the default leaf label; every inner node carries a label pair of the grammar *)
Fixpoint tree_okb (lang : text) (t : tree) : bool :=
  match t with
  | Leaf _ tok ops sym => has_key k_word tok && (text_eqb ops (fst leaf_label) && text_eqb sym (snd leaf_label))
  | Un _ ops sym t' => pair_in ops sym (vocab_un lang) && tree_okb lang t'
  | Bin _ ops sym _ l r => pair_in ops sym (vocab_bin lang) && (tree_okb lang l && tree_okb lang r)
  end.
Definition tree_ok (lang : text) (t : tree) : Prop := tree_okb lang t = true.
Definition batch_ok (lang : text) (b : list sentence) : Prop := Forall (Forall (tree_ok lang)) b.
(* parsing.pyx: Tree.make_terminal("FAILED", Category.parse("NP")) *)
Definition placeholder : tree :=
  Leaf (Atom [78;80] FNone) [(k_word, [70;65;73;76;69;68])] (fst leaf_label) (snd leaf_label).

(* ---------- closure of the tables (boolean, computed over the generated data) ---------- *)
Definition is_ok (o : outcome) : bool := match o with Ok => true | _ => false end.
Definition strict_word_only_b (f : spec) : bool := forallb (fun k => text_eqb k k_word) (f_strict f).
Definition labels_closed_b (f : spec) : bool :=
  forallb (fun p => is_ok (check_labels (f_labels f) KBin (fst p) (snd p))) (vocab_bin (f_lang f))
  && forallb (fun p => is_ok (check_labels (f_labels f) KUn (fst p) (snd p))) (vocab_un (f_lang f))
  && is_ok (check_labels (f_labels f) KLeaf (fst leaf_label) (snd leaf_label)).
Definition no_muts_b (f : spec) : bool := match f_muts f with [] => true | _ => false end.

(* ---------- equality on stores (for the correspondence cases) ---------- *)
Fixpoint token_eqb (a b : token) : bool :=
  match a, b with
  | [], [] => true
  | (k, v) :: a', (k', v') :: b' => text_eqb k k' && text_eqb v v' && token_eqb a' b'
  | _, _ => false
  end.
Fixpoint tree_eqb (a b : tree) : bool :=
  match a, b with
  | Leaf c tok o s, Leaf c' tok' o' s' => cat_eqb c c' && token_eqb tok tok' && text_eqb o o' && text_eqb s s'
  | Un c o s t, Un c' o' s' t' => cat_eqb c c' && text_eqb o o' && text_eqb s s' && tree_eqb t t'
  | Bin c o s h l r, Bin c' o' s' h' l' r' =>
      cat_eqb c c' && text_eqb o o' && text_eqb s s' && Bool.eqb h h' && tree_eqb l l' && tree_eqb r r'
  | _, _ => false
  end.
Fixpoint list_eqb {A : Type} (eqb : A -> A -> bool) (a b : list A) : bool :=
  match a, b with [], [] => true | x :: a', y :: b' => eqb x y && list_eqb eqb a' b' | _, _ => false end.
Definition mutation_eqb (a b : mutation) : bool := text_eqb (fst a) (fst b) && text_eqb (snd a) (snd b).
Definition store_eqb (a b : store) : bool :=
  list_eqb (list_eqb tree_eqb) (trees a) (trees b) && list_eqb mutation_eqb (oplog a) (oplog b).
Definition changed (f : spec) (s : store) : bool := negb (store_eqb (snd (render f s)) s).

(* ---------- what the implementation was seen to do (correspondence cases) ---------- *)
Inductive robs := ROk | RKey (k : text) | RLabel (l : text) | ROther.
Definition obs_match (o : outcome) (r : robs) : bool :=
  match o, r with
  | Ok, ROk => true
  | KeyErr k, RKey k' => text_eqb k k'
  | LabelErr l, RLabel l' => text_eqb l l'
  | _, _ => false
  end.
(* model outcome of every listed format on the batch = the observed one *)
Definition Chk19 (lang : text) (b : list sentence) (exp : list (text * robs)) : bool :=
  forallb (fun e => match find_spec lang (fst e) with
                    | Some f => obs_match (fst (render f {| trees := b; oplog := [] |})) (snd e)
                    | None => false end) exp.
(* model "this rendering changes the store" = observed "the deep snapshot differs" *)
Definition Chk18 (lang : text) (b : list sentence) (exp : list (text * bool)) : bool :=
  forallb (fun e => match find_spec lang (fst e) with
                    | Some f => Bool.eqb (changed f {| trees := b; oplog := [] |}) (snd e)
                    | None => false end) exp.
