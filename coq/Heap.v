(* std::priority_queue<T> as libstdc++ (GCC 12, bits/stl_heap.h, bits/stl_queue.h) implements it.  MODEL ONLY.
   The underlying std::vector<T> is a `list T` (index 0 = front = top of the heap); the comparator `comp(a, b)`
   (std::less<T>, i.e. the `operator<` of the element type) is the parameter `lt`.  Every function below performs the
   comparisons of the C++ in the same order with the same arguments:

     push(x)  = c.push_back(x); std::push_heap(c.begin(), c.end())
                push_heap: value = *(last-1); __push_heap(first, holeIndex = len-1, topIndex = 0, value)
     __push_heap(first, hole, top, value):
                parent = (hole-1)/2;
                while (hole > top && comp(first[parent], value)) { first[hole] = first[parent]; hole = parent; parent = (hole-1)/2; }
                first[hole] = value
     pop()    = std::pop_heap(c.begin(), c.end()); c.pop_back()
                pop_heap: if (last - first > 1) { --last; __pop_heap(first, last, result = last) }
                __pop_heap: value = *result; *result = *first; __adjust_heap(first, hole = 0, len = last-first, value)
     __adjust_heap(first, hole, len, value):
                top = hole; second = hole;
                while (second < (len-1)/2) { second = 2*(second+1); if (comp(first[second], first[second-1])) second--;
                                             first[hole] = first[second]; hole = second; }
                if ((len & 1) == 0 && second == (len-2)/2) { second = 2*(second+1); first[hole] = first[second-1]; hole = second-1; }
                __push_heap(first, hole, top, value)
     top()    = c.front()

   Index reads that the C++ performs on valid positions are `nth_error`; the `None` branches are unreachable for the
   index ranges of the callers (HeapProofs.v: the operations preserve the multiset of elements, which fails if a read
   were ever out of range) and return the vector unchanged.  Fuel arguments equal the loop variant (see each function):
   running out of fuel coincides with the loop condition being false. *)
From Coq Require Import List Arith Bool.
Import ListNotations.

Section Heap.
Context {T : Type}.
Variable lt : T -> T -> bool.           (* comp(a, b) *)

(* first[i] = x  (no effect outside the vector) *)
Fixpoint set_nth (i : nat) (x : T) (l : list T) : list T :=
  match l, i with
  | [], _ => []
  | _ :: r, O => x :: r
  | y :: r, S j => y :: set_nth j x r
  end.

(* std::__push_heap.  fuel >= hole (hole strictly decreases; at hole = 0 the test hole > top fails) *)
Fixpoint sift_up (fuel : nat) (v : list T) (hole top : nat) (x : T) : list T :=
  match fuel with
  | O => set_nth hole x v
  | S f =>
      if (top <? hole) then
        let parent := (hole - 1) / 2 in
        match nth_error v parent with
        | Some p => if lt p x then sift_up f (set_nth hole p v) parent top x else set_nth hole x v
        | None => set_nth hole x v
        end
      else set_nth hole x v
  end.

(* the while loop of std::__adjust_heap; returns the vector and the final hole (= secondChild).
   fuel + hole >= len (hole strictly increases; at hole >= len the test fails) *)
Fixpoint sift_down (fuel : nat) (v : list T) (hole len : nat) : list T * nat :=
  match fuel with
  | O => (v, hole)
  | S f =>
      if hole <? (len - 1) / 2 then
        let second := 2 * (hole + 1) in
        match nth_error v second, nth_error v (second - 1) with
        | Some a, Some b =>
            if lt a b then sift_down f (set_nth hole b v) (second - 1) len
            else sift_down f (set_nth hole a v) second len
        | _, _ => (v, hole)
        end
      else (v, hole)
  end.

(* std::__adjust_heap (called with len >= 1 only; `2 <=? len` keeps (len-2)/2 away from the truncated subtraction of nat) *)
Definition adjust_heap (v : list T) (hole len : nat) (x : T) : list T :=
  let '(v1, h1) := sift_down len v hole len in
  let '(v2, h2) :=
    if Nat.even len && (2 <=? len) && (h1 =? (len - 2) / 2) then
      let second := 2 * (h1 + 1) in
      match nth_error v1 (second - 1) with
      | Some y => (set_nth h1 y v1, second - 1)
      | None => (v1, h1)
      end
    else (v1, h1) in
  sift_up h2 v2 h2 hole x.

(* std::push_heap on the whole vector (the new element is in the last slot) *)
Definition push_heap (v : list T) : list T :=
  match length v with
  | O => v
  | S last => match nth_error v last with Some x => sift_up last v last 0 x | None => v end
  end.

(* std::pop_heap on the whole vector: afterwards the old top is in the last slot *)
Definition pop_heap (v : list T) : list T :=
  match length v with
  | O | 1 => v
  | S last =>
      match nth_error v last, nth_error v 0 with
      | Some value, Some top => adjust_heap (set_nth last top v) 0 last value
      | _, _ => v
      end
  end.

(* priority_queue::push / top / pop / size.  pop() on an empty queue is undefined behaviour in C++: None here *)
Definition push (v : list T) (x : T) : list T := push_heap (v ++ [x]).
Definition top (v : list T) : option T := match v with [] => None | x :: _ => Some x end.
Definition pop (v : list T) : option (T * list T) :=
  match v with
  | [] => None
  | x :: _ => Some (x, removelast (pop_heap v))
  end.

(* a sequence of operations (Some x = push x, None = pop; a pop of an empty queue is skipped and reported) ->
   the popped elements in order and the final vector *)
Fixpoint run_ops (ops : list (option T)) (v : list T) (out : list T) (underflow : nat) : list T * list T * nat :=
  match ops with
  | [] => (rev out, v, underflow)
  | Some x :: r => run_ops r (push v x) out underflow
  | None :: r => match pop v with
                 | Some (y, v') => run_ops r v' (y :: out) underflow
                 | None => run_ops r v out (S underflow)
                 end
  end.
End Heap.
