(* C04 - generic lemmas about the model of class Unification (Unify.v) as the Japanese combinators use it:
   linear patterns (no variable twice inside one pattern).  Nothing here mentions a particular combinator. *)
From Coq Require Import List NArith Bool Lia.
Import ListNotations.
Require Import Cat CatFacts Unify GramPrims JaSpec.
Open Scope N_scope.

(* ================= ordered dictionaries ================= *)
Section Dict.
Context {K V : Type}.
Variable keqb : K -> K -> bool.
Hypothesis keqb_eq : forall a b, keqb a b = true <-> a = b.

Lemma jd_refl a : keqb a a = true.
Proof. now apply keqb_eq. Qed.
Lemma jd_get_set k k' v (d : list (K * V)) :
  dget keqb k' (dset keqb k v d) = if keqb k' k then Some v else dget keqb k' d.
Proof.
  induction d as [|[k0 v0] d IH]; simpl.
  - reflexivity.
  - destruct (keqb k k0) eqn:E; simpl.
    + apply keqb_eq in E; subst k0. destruct (keqb k' k); reflexivity.
    + rewrite IH. destruct (keqb k' k0) eqn:E0; [|reflexivity].
      apply keqb_eq in E0; subst k0. destruct (keqb k' k) eqn:E1; [|reflexivity].
      apply keqb_eq in E1; subst k'. rewrite jd_refl in E. discriminate.
Qed.
Lemma jd_get_In k v (d : list (K * V)) : dget keqb k d = Some v -> In (k, v) d.
Proof.
  induction d as [|[k0 v0] d IH]; simpl; [discriminate|].
  destruct (keqb k k0) eqn:E; intros H.
  - apply keqb_eq in E. inversion H; subst. now left.
  - right. now apply IH.
Qed.
Lemma jd_In_get k (d : list (K * V)) : In k (map fst d) -> exists v, dget keqb k d = Some v.
Proof.
  induction d as [|[k0 v0] d IH]; simpl; [tauto|].
  intros [H|H]; destruct (keqb k k0) eqn:E; eauto.
  subst. rewrite jd_refl in E. discriminate.
Qed.
Lemma jd_get_keys k v (d : list (K * V)) : dget keqb k d = Some v -> In k (map fst d).
Proof. intros H. apply jd_get_In in H. apply in_map_iff. now exists (k, v). Qed.
Lemma jd_In_set k v k' v' (d : list (K * V)) : In (k', v') (dset keqb k v d) -> (k' = k /\ v' = v) \/ In (k', v') d.
Proof.
  induction d as [|[k0 v0] d IH]; simpl.
  - intros [H|[]]. inversion H. now left.
  - destruct (keqb k k0) eqn:E; simpl.
    + apply keqb_eq in E; subst k0. intros [H|H]; [inversion H; now left | right; now right].
    + intros [H|H]; [right; now left|]. destruct (IH H) as [H1|H1]; [now left | right; now right].
Qed.
End Dict.

Lemma key_eqb_spec a b : key_eqb a b = true <-> a = b.
Proof.
  destruct a as [a1 [i|]], b as [b1 [j|]]; unfold key_eqb; simpl; rewrite andb_true_iff, text_eqb_eq.
  - rewrite N.eqb_eq. split; [intros [-> ->]; reflexivity | intros H; inversion H; auto].
  - split; [intros [_ H]; discriminate | intros H; discriminate].
  - split; [intros [_ H]; discriminate | intros H; discriminate].
  - split; [intros [-> _]; reflexivity | intros H; inversion H; auto].
Qed.

(* ================= feature-blind comparison ================= *)
Lemma xor_skeleton a b : cat_xor a b = true <-> skeleton a = skeleton b.
Proof.
  revert b; induction a as [x f | l IHl s r IHr]; intros [y g | l' s' r']; simpl; split; intros H; try discriminate.
  - apply text_eqb_eq in H. now subst.
  - inversion H. apply text_eqb_refl.
  - apply andb_true_iff in H as [H H3]. apply andb_true_iff in H as [H1 H2].
    apply IHl in H1. apply IHr in H3. apply text_eqb_eq in H2. congruence.
  - inversion H as [[H1 H2 H3]]. apply IHl in H1. apply IHr in H3. now rewrite H1, H3, text_eqb_refl.
Qed.
Lemma xor_refl a : cat_xor a a = true.
Proof. now apply xor_skeleton. Qed.
Lemma feats_app l s r : feats (Fun l s r) = feats l ++ feats r.
Proof. unfold feats. simpl. apply map_app. Qed.
Lemma skeleton_feats_length a b : skeleton a = skeleton b -> length (feats a) = length (feats b).
Proof.
  revert b; induction a as [x f | l IHl s r IHr]; intros [y g | l' s' r']; simpl; intros H; try discriminate; [reflexivity|].
  inversion H. rewrite !feats_app, !app_length. now rewrite (IHl l'), (IHr r').
Qed.

(* ================= what one pattern variable records ================= *)
(* scan of a pattern atom v against t adds these feature entries *)
Definition addfeats (v : text) (t : cat) (r : feats_t) : feats_t :=
  match t with
  | Fun _ _ _ => snd (scan_deep t v 0 r)
  | Atom _ f => dset key_eqb (v, None) f r
  end.
(* the key under which the i-th atom of t is recorded for variable v *)
Definition vkey (v : text) (t : cat) (i : nat) : key :=
  match t with Atom _ _ => (v, None) | Fun _ _ _ => (v, Some (N.of_nat i)) end.

Lemma scan_atom v pf t cats r :
  scan (Atom v pf) t cats r =
  if match dget text_eqb v cats with Some c0 => negb (cat_xor t c0) | None => false end
  then (false, cats, r) else (true, dset text_eqb v t cats, addfeats v t r).
Proof. destruct t; reflexivity. Qed.

Lemma scan_deep_spec t v : forall idx r,
  fst (scan_deep t v idx r) = idx + N.of_nat (length (feats t)) /\
  forall k, dget key_eqb k (snd (scan_deep t v idx r)) =
    match k with
    | (v', Some j) =>
        if text_eqb v' v && (idx <=? j) then
          match nth_error (feats t) (N.to_nat (j - idx)) with Some f => Some f | None => dget key_eqb k r end
        else dget key_eqb k r
    | _ => dget key_eqb k r
    end.
Proof.
  induction t as [b f | l IHl s rr IHr]; intros idx r.
  - simpl. split; [lia|]. intros k. rewrite (jd_get_set key_eqb key_eqb_spec).
    destruct k as [v' [j|]]; unfold key_eqb; simpl.
    + destruct (text_eqb v' v); simpl; [|reflexivity].
      destruct (N.eqb j idx) eqn:E.
      * apply N.eqb_eq in E; subst. rewrite N.leb_refl. replace (N.to_nat (idx - idx)) with 0%nat by lia. reflexivity.
      * apply N.eqb_neq in E. destruct (idx <=? j) eqn:E2; [|reflexivity]. apply N.leb_le in E2.
        destruct (N.to_nat (j - idx)) eqn:E3; [lia|]. now destruct n.
    + now rewrite andb_false_r.
  - cbn [scan_deep]. destruct (scan_deep l v idx r) as [i1 r1] eqn:E1.
    specialize (IHl idx r). rewrite E1 in IHl. simpl in IHl. destruct IHl as [Hl1 Hl2].
    specialize (IHr i1 r1). destruct IHr as [Hr1 Hr2].
    split.
    + rewrite Hr1, Hl1, feats_app, app_length. lia.
    + intros k. rewrite Hr2. destruct k as [v' [j|]]; [|apply Hl2].
      rewrite Hl2. rewrite feats_app.
      destruct (text_eqb v' v); simpl; [|reflexivity].
      destruct (idx <=? j) eqn:Ea; destruct (i1 <=? j) eqn:Eb; try reflexivity.
      * apply N.leb_le in Ea, Eb.
        replace (N.to_nat (j - idx)) with (length (feats l) + N.to_nat (j - i1))%nat by lia.
        rewrite nth_error_app2 by lia. replace (length (feats l) + N.to_nat (j - i1) - length (feats l))%nat with (N.to_nat (j - i1)) by lia.
        destruct (nth_error (feats rr) (N.to_nat (j - i1))); [reflexivity|].
        assert (Hn : nth_error (feats l) (length (feats l) + N.to_nat (j - i1)) = None) by (apply nth_error_None; lia).
        now rewrite Hn.
      * apply N.leb_le in Ea. apply N.leb_gt in Eb.
        rewrite nth_error_app1 by lia. reflexivity.
      * apply N.leb_gt in Ea. apply N.leb_le in Eb. lia.
Qed.

(* the three facts used downstream *)
Lemma addfeats_other v t r k : fst k <> v -> dget key_eqb k (addfeats v t r) = dget key_eqb k r.
Proof.
  intros Hk. destruct t as [b f | l s rr]; unfold addfeats.
  - rewrite (jd_get_set key_eqb key_eqb_spec). destruct (key_eqb k (v, None)) eqn:E; [|reflexivity].
    apply key_eqb_spec in E. subst. now elim Hk.
  - rewrite (proj2 (scan_deep_spec _ _ _ _)). destruct k as [v' [j|]]; [|reflexivity].
    simpl in Hk. apply text_eqb_neq in Hk. now rewrite Hk.
Qed.
Lemma addfeats_new v t r i f : nth_error (feats t) i = Some f -> dget key_eqb (vkey v t i) (addfeats v t r) = Some f.
Proof.
  intros H. destruct t as [b g | l s rr]; unfold addfeats, vkey.
  - rewrite (jd_get_set key_eqb key_eqb_spec), (jd_refl key_eqb key_eqb_spec).
    destruct i as [|[|i]]; simpl in H; congruence.
  - rewrite (proj2 (scan_deep_spec _ _ _ _)). rewrite text_eqb_refl. simpl.
    replace (0 <=? N.of_nat i) with true by (symmetry; apply N.leb_le; lia). rewrite N.sub_0_r, Nat2N.id. now rewrite H.
Qed.
Lemma addfeats_inv v t r k f : dget key_eqb k (addfeats v t r) = Some f ->
  dget key_eqb k r = Some f \/ exists i, k = vkey v t i /\ nth_error (feats t) i = Some f.
Proof.
  destruct t as [b g | l s rr]; unfold addfeats, vkey.
  - rewrite (jd_get_set key_eqb key_eqb_spec). destruct (key_eqb k (v, None)) eqn:E; [|now left].
    apply key_eqb_spec in E. intros H. right. exists 0%nat. split; [assumption|]. simpl. congruence.
  - rewrite (proj2 (scan_deep_spec _ _ _ _)). destruct k as [v' [j|]]; [|now left].
    destruct (text_eqb v' v) eqn:E; cbn [andb]; [|now left]. apply text_eqb_eq in E; subst v'.
    replace (0 <=? j) with true by (symmetry; apply N.leb_le; lia). rewrite N.sub_0_r.
    destruct (nth_error (feats (Fun l s rr)) (N.to_nat j)) eqn:E2; [|now left].
    intros H. right. exists (N.to_nat j). split; [now rewrite N2Nat.id | congruence].
Qed.

(* ================= linear patterns ================= *)
Definition env := list (text * cat).
Definition pvars (p : cat) : list text := map fst (atoms p).
Fixpoint nodupb (l : list text) : bool := match l with [] => true | v :: r => negb (text_in v r) && nodupb r end.
Lemma nodupb_NoDup l : nodupb l = true -> NoDup l.
Proof.
  induction l as [|v l IH]; simpl; intros H; constructor.
  - apply andb_true_iff in H as [H _]. apply negb_true_iff in H. intros Hin. apply text_in_In in Hin. congruence.
  - apply andb_true_iff in H as [_ H]. now apply IH.
Qed.

(* the (variable, sub-category) bindings, left to right, when t has the shape of pattern p *)
Fixpoint pbinds (p t : cat) : option env :=
  match p with
  | Atom v _ => Some [(v, t)]
  | Fun pl ps pr =>
      match t with
      | Fun tl ts tr =>
          if slash_ok ps ts then
            match pbinds pl tl, pbinds pr tr with
            | Some a, Some b => Some (a ++ b)
            | _, _ => None
            end
          else None
      | Atom _ _ => None
      end
  end.
Definition setcats (e : env) (c : cats_t) : cats_t := fold_left (fun c vt => dset text_eqb (fst vt) (snd vt) c) e c.
Definition mkfeats (e : env) (r : feats_t) : feats_t := fold_left (fun r vt => addfeats (fst vt) (snd vt) r) e r.
(* every binding is identical, up to features, to what the variable is already bound to *)
Definition agree (e : env) (c : cats_t) : bool :=
  forallb (fun vt => match dget text_eqb (fst vt) c with Some c0 => cat_xor (snd vt) c0 | None => true end) e.

Lemma pbinds_vars p : forall t e, pbinds p t = Some e -> map fst e = pvars p.
Proof.
  unfold pvars. induction p as [v f | pl IHl ps pr IHr]; intros t e; simpl.
  - intros H. inversion H. reflexivity.
  - destruct t as [|tl ts tr]; [discriminate|]. destruct (slash_ok ps ts); [|discriminate].
    destruct (pbinds pl tl) as [a|] eqn:Ea; [|discriminate]. destruct (pbinds pr tr) as [b|] eqn:Eb; [|discriminate].
    intros H. inversion H. rewrite !map_app. now rewrite (IHl _ _ Ea), (IHr _ _ Eb).
Qed.
Lemma setcats_other e : forall c v, ~ In v (map fst e) -> dget text_eqb v (setcats e c) = dget text_eqb v c.
Proof.
  induction e as [|[v0 t0] e IH]; intros c v Hn; simpl; [reflexivity|].
  simpl in Hn. unfold setcats in IH. rewrite IH by tauto. rewrite (jd_get_set text_eqb text_eqb_eq).
  destruct (text_eqb v v0) eqn:E; [|reflexivity]. apply text_eqb_eq in E. subst. tauto.
Qed.
Lemma agree_other e1 e c : (forall v, In v (map fst e) -> ~ In v (map fst e1)) -> agree e (setcats e1 c) = agree e c.
Proof.
  intros H. unfold agree. induction e as [|[v t] e IH]; simpl; [reflexivity|].
  rewrite setcats_other by (apply H; now left). f_equal. apply IH. intros w Hw. apply H. now right.
Qed.

Lemma agree_app e1 e2 c : agree (e1 ++ e2) c = agree e1 c && agree e2 c.
Proof. unfold agree. apply forallb_app. Qed.
Lemma NoDup_app_inv {A} (l1 l2 : list A) : NoDup (l1 ++ l2) -> NoDup l1 /\ NoDup l2 /\ forall v, In v l2 -> ~ In v l1.
Proof.
  induction l1 as [|a l1 IH]; simpl; intros H.
  - split; [constructor | split; [assumption | tauto]].
  - inversion H as [|? ? Hn Hd]; subst. destruct (IH Hd) as (H1 & H2 & H3). split; [|split; [assumption|]].
    + constructor; [|assumption]. intros Hin. apply Hn. apply in_or_app. now left.
    + intros v Hv [->|Hin]; [apply Hn; apply in_or_app; now right | now apply (H3 v)].
Qed.

Lemma scan_linear p : NoDup (pvars p) -> forall t cats r,
  match pbinds p t with
  | Some e => if agree e cats then scan p t cats r = (true, setcats e cats, mkfeats e r)
              else fst (fst (scan p t cats r)) = false
  | None => fst (fst (scan p t cats r)) = false
  end.
Proof.
  unfold pvars. induction p as [v f | pl IHl ps pr IHr]; intros Hnd t cats r.
  - cbn [pbinds agree forallb fst snd]. rewrite scan_atom. rewrite andb_true_r.
    destruct (dget text_eqb v cats) as [c0|]; [|reflexivity].
    destruct (cat_xor t c0); reflexivity.
  - simpl in Hnd. rewrite map_app in Hnd.
    destruct (NoDup_app_inv _ _ Hnd) as (Hl & Hr & Hlr).
    destruct t as [b g | tl ts tr]; [reflexivity|].
    cbn [pbinds scan]. destruct (slash_ok ps ts); [|reflexivity].
    specialize (IHl Hl tl cats r).
    destruct (pbinds pl tl) as [e1|] eqn:E1.
    + destruct (agree e1 cats) eqn:A1.
      * rewrite IHl. specialize (IHr Hr tr (setcats e1 cats) (mkfeats e1 r)).
        destruct (pbinds pr tr) as [e2|] eqn:E2.
        -- assert (Hdis : forall v, In v (map fst e2) -> ~ In v (map fst e1)).
           { rewrite (pbinds_vars _ _ _ E1), (pbinds_vars _ _ _ E2). unfold pvars. exact Hlr. }
           rewrite agree_other in IHr by exact Hdis.
           rewrite agree_app, A1. cbn [andb].
           destruct (agree e2 cats).
           ++ rewrite IHr. unfold setcats, mkfeats. now rewrite !fold_left_app.
           ++ exact IHr.
        -- exact IHr.
      * destruct (pbinds pr tr) as [e2|]; [rewrite agree_app, A1; cbn [andb]|];
          destruct (scan pl tl cats r) as [[ok1 c1] r1]; simpl in IHl; subst ok1; reflexivity.
    + destruct (scan pl tl cats r) as [[ok1 c1] r1]; simpl in IHl; subst ok1; reflexivity.
Qed.

Definition core (xe ye : env) : res (option mapping_t) :=
  floop (shared (mkfeats xe []) (mkfeats ye [])) (mkfeats xe []) (mkfeats ye []) [].

Lemma agree_nil e : agree e [] = true.
Proof. unfold agree. apply forallb_forall. intros [v t] _. reflexivity. Qed.

(* Unification(px, py)(x, y) for linear patterns *)
Theorem unify_linear px py x y : nodupb (pvars px) = true -> nodupb (pvars py) = true ->
  unify px py x y =
  match pbinds px x, pbinds py y with
  | Some xe, Some ye =>
      if agree ye (setcats xe []) then
        do m <- core xe ye;
        match m with Some m' => Ok_ (Some {| ucats := setcats ye (setcats xe []); umap := m' |}) | None => Ok_ None end
      else Ok_ None
  | _, _ => Ok_ None
  end.
Proof.
  intros Hx Hy. apply nodupb_NoDup in Hx, Hy. unfold unify.
  pose proof (scan_linear px Hx x [] []) as Sx.
  destruct (pbinds px x) as [xe|].
  - rewrite agree_nil in Sx. rewrite Sx. cbn [negb].
    pose proof (scan_linear py Hy y (setcats xe []) []) as Sy.
    destruct (pbinds py y) as [ye|].
    + destruct (agree ye (setcats xe [])).
      * rewrite Sy. reflexivity.
      * destruct (scan py y (setcats xe []) []) as [[ok2 c2] yf]. simpl in Sy. subst ok2. reflexivity.
    + destruct (scan py y (setcats xe []) []) as [[ok2 c2] yf]. simpl in Sy. subst ok2. reflexivity.
  - destruct (scan px x [] []) as [[ok1 c1] xf]. simpl in Sx. subst ok1. reflexivity.
Qed.

(* ================= lookups in the recorded features ================= *)
Lemma vkey_fst v t i : fst (vkey v t i) = v.
Proof. now destruct t. Qed.
Lemma mkfeats_other e : forall r k, ~ In (fst k) (map fst e) -> dget key_eqb k (mkfeats e r) = dget key_eqb k r.
Proof.
  induction e as [|[v t] e IH]; intros r k Hn; simpl; [reflexivity|].
  simpl in Hn. unfold mkfeats in IH. rewrite IH by tauto. apply addfeats_other. intros E. apply Hn. left. now symmetry.
Qed.
Lemma mkfeats_inv e : forall r k f, dget key_eqb k (mkfeats e r) = Some f ->
  dget key_eqb k r = Some f \/ exists v t i, In (v, t) e /\ k = vkey v t i /\ nth_error (feats t) i = Some f.
Proof.
  induction e as [|[v t] e IH]; intros r k f H; simpl in H; [now left|].
  destruct (IH _ _ _ H) as [H1 | (v' & t' & i & Hin & Hk & Hn)].
  - destruct (addfeats_inv _ _ _ _ _ H1) as [H2 | (i & Hk & Hn)]; [now left|].
    right. exists v, t, i. split; [now left | now split].
  - right. exists v', t', i. split; [now right | now split].
Qed.
Lemma mkfeats_new e : NoDup (map fst e) -> forall r v t i f,
  In (v, t) e -> nth_error (feats t) i = Some f -> dget key_eqb (vkey v t i) (mkfeats e r) = Some f.
Proof.
  induction e as [|[v0 t0] e IH]; intros Hnd r v t i f Hin Hn; [destruct Hin|].
  simpl in Hnd. inversion Hnd as [|? ? Hnot Hnd']; subst. destruct Hin as [E|Hin].
  - inversion E; subst. simpl. unfold mkfeats in *. rewrite mkfeats_other by now rewrite vkey_fst.
    now apply addfeats_new.
  - simpl. now apply IH.
Qed.
Lemma env_fun (e : env) v t t' : NoDup (map fst e) -> In (v, t) e -> In (v, t') e -> t = t'.
Proof.
  induction e as [|[v0 t0] e IH]; intros Hnd H1 H2; [destruct H1|].
  simpl in Hnd. inversion Hnd as [|? ? Hnot Hnd']; subst.
  destruct H1 as [E1|H1], H2 as [E2|H2].
  - congruence.
  - inversion E1; subst. elim Hnot. apply in_map_iff. now exists (v, t').
  - inversion E2; subst. elim Hnot. apply in_map_iff. now exists (v, t).
  - now apply IH.
Qed.
Lemma vkey_same_kind v t t' i : skeleton t = skeleton t' -> vkey v t i = vkey v t' i.
Proof. destruct t, t'; simpl; intros H; try discriminate; reflexivity. Qed.
Lemma vkey_inj v t t' i i' f f' : skeleton t = skeleton t' -> vkey v t i = vkey v t' i' ->
  nth_error (feats t) i = Some f -> nth_error (feats t') i' = Some f' -> i = i'.
Proof.
  destruct t as [b g|l s r], t' as [b' g'|l' s' r']; simpl; intros Hs Hk H1 H2; try discriminate.
  - unfold feats in *. simpl in *. destruct i as [|[|i]], i' as [|[|i']]; simpl in *; congruence.
  - inversion Hk. now apply Nat2N.inj.
Qed.

(* ================= the model of Feature.unifies against the declarative relation ================= *)
Definition is_ter (f : feat) : bool := match f with FTer _ _ _ _ _ _ => true | _ => false end.
Lemma ternary_feats c : ternary c -> Forall (fun f => is_ter f = true) (feats c).
Proof.
  induction c as [b f | l IHl s r IHr]; simpl.
  - destruct f; intros H; try destruct H. repeat constructor.
  - intros [Hl Hr]. rewrite feats_app. apply Forall_app. split; auto.
Qed.
Lemma ternaryb_ok c : ternaryb c = true <-> ternary c.
Proof.
  induction c as [b f | l IHl s r IHr]; simpl.
  - destruct f; split; intros H; try discriminate; try destruct H; auto.
  - rewrite andb_true_iff, IHl, IHr. tauto.
Qed.
Lemma starts_X_spec v : starts_X v = true <-> starts_with_X v.
Proof.
  unfold starts_X, starts_with_X. destruct v as [|c v].
  - split; [discriminate | intros [r H]; discriminate].
  - rewrite N.eqb_eq. unfold cX. split; [intros ->; now exists v | intros [r H]; now inversion H].
Qed.
Lemma is_variable_spec f : is_ter f = true -> (is_variable f = true <-> variable f).
Proof.
  destruct f; simpl; try discriminate. intros _. rewrite !orb_true_iff, !starts_X_spec. tauto.
Qed.
Lemma unifies_refl0 f : unifies f f = Ok_ true.
Proof.
  destruct f; simpl; [reflexivity | |].
  - now rewrite text_eqb_refl, !orb_true_r.
  - now rewrite !text_eqb_refl.
Qed.
Lemma unifies_subsumes f g : is_ter f = true -> unifies f g = Ok_ true -> subsumes f g.
Proof.
  destruct f as [| |k1 v1 k2 v2 k3 v3]; try discriminate. intros _. unfold unifies.
  destruct (feat_eqb (FTer k1 v1 k2 v2 k3 v3) g) eqn:E.
  - intros _. left. now apply feat_eqb_eq.
  - destruct g as [| |l1 w1 l2 w2 l3 w3]; try discriminate.
    destruct (text_eqb k1 l1 && text_eqb k2 l2 && text_eqb k3 l3) eqn:Ek; cbn [negb]; [|discriminate].
    intros H. inversion H as [H1]. right. simpl.
    apply andb_true_iff in Ek as [Ek E3]. apply andb_true_iff in Ek as [E1 E2].
    apply andb_true_iff in H1 as [H1 H3]. apply andb_true_iff in H1 as [H1 H2].
    apply text_eqb_eq in E1, E2, E3. unfold val_le.
    rewrite orb_true_iff, text_eqb_eq, starts_X_spec in H1, H2, H3. tauto.
Qed.
Lemma subsumes_unifies f g : subsumes f g -> unifies f g = Ok_ true.
Proof.
  intros [->|C]; [apply unifies_refl0|].
  destruct f as [| |k1 v1 k2 v2 k3 v3]; simpl in C; try contradiction. destruct g as [| |l1 w1 l2 w2 l3 w3]; simpl in C; try contradiction.
  destruct C as (-> & -> & -> & H1 & H2 & H3). unfold unifies.
  destruct (feat_eqb _ _); [reflexivity|]. rewrite !text_eqb_refl. cbn [andb negb].
  unfold val_le in *. rewrite <- !starts_X_spec in *.
  assert (E : forall v w, v = w \/ starts_X v = true -> text_eqb v w || starts_X v = true).
  { intros v w [-> | ->]; [now rewrite text_eqb_refl | apply orb_true_r]. }
  now rewrite (E _ _ H1), (E _ _ H2), (E _ _ H3).
Qed.
Lemma unifies_ter f g : is_ter f = true -> is_ter g = true -> exists u, unifies f g = Ok_ u.
Proof.
  destruct f; try discriminate. destruct g; try discriminate. intros _ _. unfold unifies.
  destruct (feat_eqb _ _); [eauto|]. destruct (negb _); eauto.
Qed.
Lemma unifies_refl f : unifies f f = Ok_ true.
Proof. apply unifies_refl0. Qed.

(* ================= the loop over the shared variables ================= *)
Definition mhas (f : feat) (m : mapping_t) : bool := dhas feat_eqb f m.
Lemma mhas_set f g m f' : mhas f' (dset feat_eqb f g m) = feat_eqb f' f || mhas f' m.
Proof. unfold mhas, dhas. rewrite (jd_get_set feat_eqb feat_eqb_eq). destruct (feat_eqb f' f); reflexivity. Qed.

Lemma floop_sound order xf yf : forall m0 m, floop order xf yf m0 = Ok_ (Some m) ->
  (forall k, In k order -> exists fx fy, dget key_eqb k xf = Some fx /\ dget key_eqb k yf = Some fy /\
                                         (unifies fx fy = Ok_ true \/ unifies fy fx = Ok_ true)) /\
  (forall f g, In (f, g) m -> In (f, g) m0 \/
      exists k fx fy, In k order /\ dget key_eqb k xf = Some fx /\ dget key_eqb k yf = Some fy /\
        ((f = fx /\ g = fy /\ unifies fx fy = Ok_ true /\ is_variable fx = true) \/
         (f = fy /\ g = fx /\ unifies fx fy = Ok_ false /\ unifies fy fx = Ok_ true /\ is_variable fy = true))) /\
  (forall f, mhas f m0 = true -> mhas f m = true) /\
  (forall k fx fy, In k order -> dget key_eqb k xf = Some fx -> dget key_eqb k yf = Some fy ->
      (unifies fx fy = Ok_ true -> is_variable fx = true -> mhas fx m = true) /\
      (unifies fx fy = Ok_ false -> is_variable fy = true -> mhas fy m = true)).
Proof.
  induction order as [|k order IH]; intros m0 m H; simpl in H.
  - inversion H; subst. split; [intros k []|]. split; [intros f g Hin; now left|]. split; [auto|]. intros k fx fy [].
  - destruct (dget key_eqb k xf) as [fx|] eqn:Ex; [|discriminate].
    destruct (dget key_eqb k yf) as [fy|] eqn:Ey; [|discriminate].
    destruct (unifies fx fy) as [[|]|e] eqn:U1; simpl in H; [| |discriminate].
    + destruct (IH _ _ H) as (IH1 & IH2 & IH3 & IH4). split; [|split; [|split]].
      * intros k' [<-|Hin]; [exists fx, fy; auto | now apply IH1].
      * intros f g Hin. destruct (IH2 _ _ Hin) as [Hm0 | (k' & fx' & fy' & Hk' & R)].
        -- destruct (is_variable fx) eqn:V; [|now left].
           apply (jd_In_set feat_eqb feat_eqb_eq) in Hm0. destruct Hm0 as [[-> ->]|Hm0]; [|now left].
           right. exists k, fx, fy. split; [now left|]. split; [assumption|]. split; [assumption|]. left. auto.
        -- right. exists k', fx', fy'. split; [now right | assumption].
      * intros f Hf. apply IH3. destruct (is_variable fx); [|assumption]. rewrite mhas_set, Hf. apply orb_true_r.
      * intros k' fx' fy' [<-|Hin] Ex' Ey'; [|exact (IH4 k' fx' fy' Hin Ex' Ey')].
        rewrite Ex in Ex'. rewrite Ey in Ey'. inversion Ex'; inversion Ey'; subst fx' fy'. split; [|congruence].
        intros _ V. apply IH3. rewrite V, mhas_set, feat_eqb_refl. reflexivity.
    + destruct (unifies fy fx) as [[|]|e] eqn:U2; simpl in H; [| discriminate | discriminate].
      destruct (IH _ _ H) as (IH1 & IH2 & IH3 & IH4). split; [|split; [|split]].
      * intros k' [<-|Hin]; [exists fx, fy; auto | now apply IH1].
      * intros f g Hin. destruct (IH2 _ _ Hin) as [Hm0 | (k' & fx' & fy' & Hk' & R)].
        -- destruct (is_variable fy) eqn:V; [|now left].
           apply (jd_In_set feat_eqb feat_eqb_eq) in Hm0. destruct Hm0 as [[-> ->]|Hm0]; [|now left].
           right. exists k, fx, fy. split; [now left|]. split; [assumption|]. split; [assumption|]. right. auto.
        -- right. exists k', fx', fy'. split; [now right | assumption].
      * intros f Hf. apply IH3. destruct (is_variable fy); [|assumption]. rewrite mhas_set, Hf. apply orb_true_r.
      * intros k' fx' fy' [<-|Hin] Ex' Ey'; [|exact (IH4 k' fx' fy' Hin Ex' Ey')].
        rewrite Ex in Ex'. rewrite Ey in Ey'. inversion Ex'; inversion Ey'; subst fx' fy'. split; [congruence|].
        intros _ V. apply IH3. rewrite V, mhas_set, feat_eqb_refl. reflexivity.
Qed.
Lemma floop_total order xf yf :
  (forall k, In k order -> exists fx fy, dget key_eqb k xf = Some fx /\ dget key_eqb k yf = Some fy /\ is_ter fx = true /\ is_ter fy = true) ->
  forall m0, exists om, floop order xf yf m0 = Ok_ om.
Proof.
  induction order as [|k order IH]; intros Hk m0; simpl; [eauto|].
  destruct (Hk k (or_introl eq_refl)) as (fx & fy & -> & -> & Tx & Ty).
  assert (IH' := IH (fun k' H => Hk k' (or_intror H))).
  destruct (unifies_ter fx fy Tx Ty) as [u1 ->]. simpl. destruct u1; [apply IH'|].
  destruct (unifies_ter fy fx Ty Tx) as [u2 ->]. simpl. destruct u2; [apply IH' | eauto].
Qed.
Lemma floop_ident order xf yf :
  (forall k, In k order -> exists f, dget key_eqb k xf = Some f /\ dget key_eqb k yf = Some f) ->
  forall m0, (forall f g, In (f, g) m0 -> f = g) ->
  exists m, floop order xf yf m0 = Ok_ (Some m) /\ forall f g, In (f, g) m -> f = g.
Proof.
  induction order as [|k order IH]; intros Hk m0 Hm0; simpl; [eauto|].
  destruct (Hk k (or_introl eq_refl)) as (f0 & -> & ->). rewrite unifies_refl. simpl.
  apply IH; [intros k' H; apply Hk; now right|].
  destruct (is_variable f0); [|assumption].
  intros f g Hin. apply (jd_In_set feat_eqb feat_eqb_eq) in Hin. destruct Hin as [[-> ->]|Hin]; [reflexivity | now apply Hm0].
Qed.

(* ================= substitution ================= *)
Lemma subst_inst P m : (forall f g, In (f, g) m -> binds_to P f g) -> (forall f, bound P f -> mhas f m = true) ->
  forall c, inst P c (subst m c).
Proof.
  intros Hm Hb. induction c as [b f | l IHl s r IHr]; simpl.
  - destruct (dget feat_eqb f m) as [g|] eqn:E.
    + apply (jd_get_In feat_eqb feat_eqb_eq) in E. apply inst_var. now apply Hm.
    + apply inst_keep. intros B. apply Hb in B. unfold mhas, dhas in B. rewrite E in B. discriminate.
  - now constructor.
Qed.
Lemma subst_ident m : (forall f g, In (f, g) m -> f = g) -> forall c, subst m c = c.
Proof.
  intros Hm. induction c as [b f | l IHl s r IHr]; simpl.
  - destruct (dget feat_eqb f m) as [g|] eqn:E; [|reflexivity].
    apply (jd_get_In feat_eqb feat_eqb_eq) in E. now rewrite (Hm _ _ E).
  - now rewrite IHl, IHr.
Qed.

(* ================= the comparisons of a match with one shared variable ================= *)
Definition side_ok (xe ye : env) (b : text) : bool :=
  nodupb (map fst xe) && nodupb (map fst ye) &&
  forallb (fun v => negb (text_in v (map fst ye)) || text_eqb v b) (map fst xe).

Lemma nth_error_combine {A B} (l1 : list A) : forall (l2 : list B) i a b,
  nth_error l1 i = Some a -> nth_error l2 i = Some b -> In (a, b) (combine l1 l2).
Proof.
  induction l1 as [|x l1 IH]; intros [|y l2] [|i] a b H1 H2; simpl in *; try discriminate.
  - inversion H1; inversion H2; subst. now left.
  - right. eapply IH; eassumption.
Qed.
Lemma In_combine_nth {A B} (l1 : list A) : forall (l2 : list B) a b,
  In (a, b) (combine l1 l2) -> exists i, nth_error l1 i = Some a /\ nth_error l2 i = Some b.
Proof.
  induction l1 as [|x l1 IH]; intros [|y l2] a b H; simpl in *; try tauto.
  destruct H as [H|H].
  - inversion H; subst. now exists 0%nat.
  - destruct (IH _ _ _ H) as [i Hi]. now exists (S i).
Qed.

Section Core.
Variables (xe ye : env) (b : text) (bx by_ : cat).
Hypothesis Hside : side_ok xe ye b = true.
Hypothesis Hbx : dget text_eqb b xe = Some bx.
Hypothesis Hby : dget text_eqb b ye = Some by_.
Hypothesis Hsk : skeleton bx = skeleton by_.
Let xf := mkfeats xe [].
Let yf := mkfeats ye [].

Lemma side_facts : NoDup (map fst xe) /\ NoDup (map fst ye) /\ In (b, bx) xe /\ In (b, by_) ye /\
  forall v, In v (map fst xe) -> In v (map fst ye) -> v = b.
Proof.
  unfold side_ok in Hside. apply andb_true_iff in Hside as [H12 H3]. apply andb_true_iff in H12 as [H1 H2].
  split; [now apply nodupb_NoDup|]. split; [now apply nodupb_NoDup|].
  split; [now apply (jd_get_In text_eqb text_eqb_eq)|]. split; [now apply (jd_get_In text_eqb text_eqb_eq)|].
  intros v Hx Hy. rewrite forallb_forall in H3. specialize (H3 v Hx). apply orb_true_iff in H3 as [H3|H3].
  - apply negb_true_iff in H3. apply text_in_In in Hy. congruence.
  - now apply text_eqb_eq.
Qed.

Lemma shared_positions k : In k (shared xf yf) ->
  exists i fx fy, nth_error (feats bx) i = Some fx /\ nth_error (feats by_) i = Some fy /\
                  dget key_eqb k xf = Some fx /\ dget key_eqb k yf = Some fy.
Proof.
  destruct side_facts as (Nx & Ny & Ix & Iy & Honly).
  unfold shared. rewrite filter_In. intros [Hkx Hky].
  destruct (jd_In_get key_eqb key_eqb_spec _ _ Hkx) as [fx Ex].
  unfold dhas in Hky. destruct (dget key_eqb k yf) as [fy|] eqn:Ey; [|discriminate].
  destruct (mkfeats_inv _ _ _ _ Ex) as [H|(v & t & i & Hin & Hk & Hn)]; [discriminate|].
  destruct (mkfeats_inv _ _ _ _ Ey) as [H|(v' & t' & i' & Hin' & Hk' & Hn')]; [discriminate|].
  assert (Hv : v = v') by (rewrite <- (vkey_fst v t i), <- (vkey_fst v' t' i'); congruence). subst v'.
  assert (v = b).
  { apply Honly; apply in_map_iff; [now exists (v, t) | now exists (v, t')]. }
  subst v. assert (t = bx) by (apply (env_fun xe b t bx Nx Hin Ix)). assert (t' = by_) by (apply (env_fun ye b t' by_ Ny Hin' Iy)). subst t t'.
  assert (i = i') by (apply (vkey_inj b bx by_ i i' fx fy Hsk); [congruence | exact Hn | exact Hn']). subst i'.
  exists i, fx, fy. auto.
Qed.
Lemma positions_shared i fx fy : nth_error (feats bx) i = Some fx -> nth_error (feats by_) i = Some fy ->
  exists k, In k (shared xf yf) /\ dget key_eqb k xf = Some fx /\ dget key_eqb k yf = Some fy.
Proof.
  destruct side_facts as (Nx & Ny & Ix & Iy & Honly). intros H1 H2.
  exists (vkey b bx i).
  assert (Ex : dget key_eqb (vkey b bx i) xf = Some fx) by (now apply mkfeats_new).
  assert (Ey : dget key_eqb (vkey b bx i) yf = Some fy) by (rewrite (vkey_same_kind b bx by_ i Hsk); now apply mkfeats_new).
  split; [|now split]. unfold shared. apply filter_In. split.
  - eapply jd_get_keys; [exact key_eqb_spec | exact Ex].
  - unfold dhas. now rewrite Ey.
Qed.

Lemma core_sound m : ternary bx -> ternary by_ -> core xe ye = Ok_ (Some m) ->
  matches bx by_ /\ forall c, inst (pairs bx by_) c (subst m c).
Proof.
  intros Tx Ty H. unfold core in H. fold xf yf in H. destruct (floop_sound _ _ _ _ _ H) as (H1 & H2 & _ & H4).
  apply ternary_feats in Tx, Ty. rewrite Forall_forall in Tx, Ty.
  assert (Hsub : forall fx fy, In fx (feats bx) -> In fy (feats by_) ->
                 (unifies fx fy = Ok_ true -> subsumes fx fy) /\ (unifies fy fx = Ok_ true -> subsumes fy fx)).
  { intros fx fy Ix Iy. split; apply unifies_subsumes; auto. }
  split; [split; [exact Hsk|]|].
  - apply Forall_forall. intros [f g] Hin. unfold pairs in Hin. apply In_combine_nth in Hin as (i & N1 & N2).
    destruct (positions_shared _ _ _ N1 N2) as (k & Hk & Ex & Ey).
    destruct (H1 _ Hk) as (fx & fy & Ex' & Ey' & U). rewrite Ex in Ex'. rewrite Ey in Ey'. inversion Ex'; inversion Ey'; subst fx fy.
    simpl. unfold compatible. destruct (Hsub f g (nth_error_In _ _ N1) (nth_error_In _ _ N2)) as [S1 S2]. destruct U; auto.
  - apply subst_inst.
    + intros f g Hin. destruct (H2 _ _ Hin) as [[]|(k & fx & fy & Hk & Ex & Ey & R)].
      destruct (shared_positions _ Hk) as (i & fx' & fy' & N1 & N2 & Ex' & Ey').
      rewrite Ex in Ex'. rewrite Ey in Ey'. inversion Ex'; inversion Ey'; subst fx' fy'.
      assert (Ip : In (fx, fy) (pairs bx by_)) by (eapply nth_error_combine; eassumption).
      destruct (Hsub fx fy (nth_error_In _ _ N1) (nth_error_In _ _ N2)) as [S1 S2].
      destruct R as [(-> & -> & U & V)|(-> & -> & U0 & U & V)].
      * split; [apply is_variable_spec; [apply Tx; eapply nth_error_In; eassumption | assumption]|]. left. auto.
      * split; [apply is_variable_spec; [apply Ty; eapply nth_error_In; eassumption | assumption]|]. right.
        split; [assumption|]. split; [|auto]. intros S. apply subsumes_unifies in S. congruence.
    + intros f (g & V & [[Ip S]|(Ip & NS & S)]); unfold pairs in Ip; apply In_combine_nth in Ip as (i & N1 & N2).
      * destruct (positions_shared _ _ _ N1 N2) as (k & Hk & Ex & Ey). destruct (H4 k f g Hk Ex Ey) as [D _].
        apply D; [now apply subsumes_unifies|]. apply is_variable_spec; [apply Tx; eapply nth_error_In; eassumption | assumption].
      * destruct (positions_shared _ _ _ N1 N2) as (k & Hk & Ex & Ey). destruct (H4 k g f Hk Ex Ey) as [_ D].
        apply D; [|apply is_variable_spec; [apply Ty; eapply nth_error_In; eassumption | assumption]].
        destruct (unifies_ter g f (Tx _ (nth_error_In _ _ N1)) (Ty _ (nth_error_In _ _ N2))) as [[|] U]; [|assumption].
        elim NS. apply unifies_subsumes; [apply Tx; eapply nth_error_In; eassumption | assumption].
Qed.
Lemma core_total : ternary bx -> ternary by_ -> exists om, core xe ye = Ok_ om.
Proof.
  intros Tx Ty. apply ternary_feats in Tx, Ty. rewrite Forall_forall in Tx, Ty.
  unfold core. apply floop_total. intros k Hk.
  destruct (shared_positions _ Hk) as (i & fx & fy & N1 & N2 & Ex & Ey). exists fx, fy.
  repeat split; auto; [apply Tx | apply Ty]; eapply nth_error_In; eassumption.
Qed.
End Core.

Lemma core_ident xe ye b bx : side_ok xe ye b = true -> dget text_eqb b xe = Some bx -> dget text_eqb b ye = Some bx ->
  exists m, core xe ye = Ok_ (Some m) /\ forall c, subst m c = c.
Proof.
  intros Hs Hx Hy.
  destruct (floop_ident (shared (mkfeats xe []) (mkfeats ye [])) (mkfeats xe []) (mkfeats ye [])) with (m0 := @nil (feat * feat)) as (m & Hm & Hid).
  - intros k Hk. destruct (shared_positions xe ye b bx bx Hs Hx Hy eq_refl k Hk) as (i & fx & fy & N1 & N2 & Ex & Ey).
    exists fx. split; [assumption|]. congruence.
  - intros f g [].
  - exists m. split; [exact Hm|]. now apply subst_ident.
Qed.
