(* The memo layer of one depccg._parsing.run call as a state machine: the category table (categories_ / category_ids,
   maybe_add_and_get) and the rule cache (c_cache : (x, y) -> vector<combinator_result>, shared by all the sentences
   of the call), operated by the two lambdas of parse_sentence (parsing.h apply_binary_rules / apply_unary_rules: hit =
   return the cached vector, miss = call the Python callback, store) and by binary_callback / unary_callback of
   parsing.pyx (apply the grammar function to the categories the ids name, intern every result category in order).
   Also the per-sentence loop of run (max_length test, status test, failure placeholder), the call log replay used by
   the correspondence, and _chunks with its exception.  MODEL ONLY. *)
From Coq Require Import List ZArith Bool Arith.
Import ListNotations.
Require Import Cat Tree GramPrims AStar Glue.
Open Scope nat_scope.

(* cache keys: (x, y) for a binary lookup, (x, UINT_MAX) for a unary one.  Ids are < UINT_MAX (maybe_add_and_get raises
   'too many categories' otherwise), so the two kinds never collide and are kept apart by the constructor. *)
Inductive mkey := KBin (x y : nat) | KUn (x : nat).
Definition mkey_eqb (a b : mkey) : bool :=
  match a, b with
  | KBin x y, KBin x' y' => Nat.eqb x x' && Nat.eqb y y'
  | KUn x, KUn x' => Nat.eqb x x'
  | _, _ => false
  end.
(* a cached vector: element k = (cat_id, the CombinatorResult it was made from); rule_id = k *)
Definition mentry := list (nat * cres).
Definition mcache_t := list (mkey * mentry).
Record mstate := { mtable : table; mcache : mcache_t }.

Fixpoint cache_find (k : mkey) (c : mcache_t) : option mentry :=
  match c with [] => None | (k', e) :: r => if mkey_eqb k k' then Some e else cache_find k r end.

(* category_ids for root categories: one maybe_add_and_get per root, in order, before the first sentence *)
Fixpoint intern_cats (cs : list cat) (t : table) : list nat * table :=
  match cs with
  | [] => ([], t)
  | c :: rest => let '(i, t1) := get_or_add c t in let '(is_, t2) := intern_cats rest t1 in (i :: is_, t2)
  end.
Definition init_state (cats roots : list cat) : mstate := {| mtable := snd (intern_cats roots cats); mcache := [] |}.
Definition root_ids (cats roots : list cat) : list nat := fst (intern_cats roots cats).

Section Memo.
Variable gbin : cat -> cat -> list cres.        (* the grammar: pure functions of categories *)
Variable gun : cat -> list cres.

Inductive mop := OBin (x y : nat) | OUn (x : nat).
Definition key_of (o : mop) : mkey := match o with OBin x y => KBin x y | OUn x => KUn x end.

(* the categories an operation's ids name; None = IndexError in categories_[x_id] *)
Definition op_cats (t : table) (o : mop) : option (list cres) :=
  match o with
  | OBin x y => match nth_error t x, nth_error t y with Some cx, Some cy => Some (gbin cx cy) | _, _ => None end
  | OUn x => match nth_error t x with Some cx => Some (gun cx) | None => None end
  end.

(* one lookup: the vector handed to the search, and the next state *)
Definition memo_step (o : mop) (st : mstate) : option (mentry * mstate) :=
  match cache_find (key_of o) (mcache st) with
  | Some e => Some (e, st)
  | None =>
      match op_cats (mtable st) o with
      | Some rs =>
          let '(ids, t') := intern_all rs (mtable st) in
          let e := combine ids rs in
          Some (e, {| mtable := t'; mcache := (key_of o, e) :: mcache st |})
      | None => None
      end
  end.

Fixpoint memo_ops (os : list mop) (st : mstate) : option mstate :=
  match os with
  | [] => Some st
  | o :: r => match memo_step o st with Some (_, st') => memo_ops r st' | None => None end
  end.

(* what the search sees of an answer, with the ids read back through the table: (category, head flag, labels) *)
Definition decode (t : table) (e : mentry) : option (list cres) :=
  let dec (p : nat * cres) :=
    match nth_error t (fst p) with
    | Some c => Some {| rcat := c; op_string := op_string (snd p); op_symbol := op_symbol (snd p); head_is_left := head_is_left (snd p) |}
    | None => None
    end in
  fold_right (fun p acc => match dec p, acc with Some r, Some l => Some (r :: l) | _, _ => None end) (Some []) e.

(* ---------- the per-sentence loop of run ---------- *)
Section Loop.
Variables S R : Type.
Variable slen : S -> nat.
Variable placeholder : R.
(* the search of one sentence from a memo state: the lookups it performs and its outcome (None = status 1: no
   derivation reached the goal within max_step; Some l = the trees built by the finalizer) *)
Variable search : S -> mstate -> list mop * option (list R).

Fixpoint run_loop (max_length : nat) (sents : list S) (st : mstate) : option (list (list R) * mstate) :=
  match sents with
  | [] => Some ([], st)
  | s :: rest =>
      if max_length <? slen s
      then match run_loop max_length rest st with Some (rs, st') => Some ([placeholder] :: rs, st') | None => None end
      else
        let '(os, out) := search s st in
        match memo_ops os st with
        | Some st1 =>
            let res := match out with Some trees => trees | None => [placeholder] end in
            match run_loop max_length rest st1 with Some (rs, st') => Some (res :: rs, st') | None => None end
        | None => None
        end
  end.
End Loop.
End Memo.

(* what parse_sentence reads of a cached vector: result id and head flag (unary: the result id); what it would read of
   the grammar's answer on categories: result category and head flag *)
Definition id_view (e : mentry) : list (nat * bool) := map (fun p => (fst p, head_is_left (snd p))) e.
Definition cat_view (rs : list cres) : list (cat * bool) := map (fun r => (rcat r, head_is_left r)) rs.

(* ---------- replay of a recorded call: the correspondence with parsing.pyx ---------- *)
(* one invocation of the user's binary_fun / unary_fun as the harness logs it: argument categories, results *)
Inductive call := CBin (x y : cat) (rs : list cres) | CUn (x : cat) (rs : list cres).

Definition log_bin (log : list call) (x y : cat) : list cres :=
  match find (fun c => match c with CBin x' y' _ => cat_eqb x x' && cat_eqb y y' | _ => false end) log with
  | Some (CBin _ _ rs) => rs | _ => [] end.
Definition log_un (log : list call) (x : cat) : list cres :=
  match find (fun c => match c with CUn x' _ => cat_eqb x x' | _ => false end) log with
  | Some (CUn _ rs) => rs | _ => [] end.

(* the operation a logged invocation belongs to: the ids its argument categories have in the table at that moment *)
Definition call_op (t : table) (c : call) : option mop :=
  match c with
  | CBin x y _ => match index_of x t 0, index_of y t 0 with Some i, Some j => Some (OBin i j) | _, _ => None end
  | CUn x _ => match index_of x t 0 with Some i => Some (OUn i) | None => None end
  end.

(* replay: every logged invocation must be a miss of the model cache (the real cache called Python, so it missed) *)
Fixpoint replay_go (log : list call) (cs : list call) (st : mstate) : option mstate :=
  match cs with
  | [] => Some st
  | c :: r =>
      match call_op (mtable st) c with
      | Some o =>
          match cache_find (key_of o) (mcache st) with
          | Some _ => None
          | None => match memo_step (log_bin log) (log_un log) o st with Some (_, st') => replay_go log r st' | None => None end
          end
      | None => None
      end
  end.
Definition replay (cats roots : list cat) (log : list call) : option mstate := replay_go log log (init_state cats roots).

Fixpoint cat_list_eqb (a b : list cat) : bool :=
  match a, b with [] , [] => true | x :: a', y :: b' => cat_eqb x y && cat_list_eqb a' b' | _, _ => false end.
Fixpoint entry_eqb (a b : mentry) : bool :=
  match a, b with
  | [], [] => true
  | (i, r) :: a', (j, s) :: b' => Nat.eqb i j && cres_eqb r s && entry_eqb a' b'
  | _, _ => false
  end.
(* observed: the final categories_ list, the root ids, and cache entries copied out of the C++ cache *)
Definition replay_agrees (cats roots : list cat) (log : list call) (final : list cat) (obs : list (mkey * mentry)) : bool :=
  match replay cats roots log with
  | Some st =>
      cat_list_eqb (mtable st) final &&
      forallb (fun ke => match cache_find (fst ke) (mcache st) with Some e => entry_eqb e (snd ke) | None => false end) obs
  | None => false
  end.

(* ---------- _chunks as Python evaluates it ----------
     splits = math.ceil(len(list_) / max(num_chunks, 1))
     for i in range(0, len(list_), splits): yield list_[i:i + splits]
   range(0, 0, 0) raises "ValueError: range() arg 3 must not be zero": that is the case splits = 0, i.e. the empty
   list (Glue.chunks silently gives [] there).  None = that ValueError.  A negative num_chunks behaves like 0
   (max(num_chunks, 1) = 1), which is what Z.to_nat gives at the call site. *)
Definition chunks_py {A} (l : list A) (num_chunks : nat) : option (list (list A)) :=
  let splits := ceil_div (length l) (Nat.max num_chunks 1) in
  if Nat.eqb splits 0 then None else Some (chunks_go (length l) splits l).
Fixpoint nat_list_eqb (a b : list nat) : bool :=
  match a, b with [], [] => true | x :: a', y :: b' => Nat.eqb x y && nat_list_eqb a' b' | _, _ => false end.
Fixpoint nat_lists_eqb (a b : list (list nat)) : bool :=
  match a, b with [], [] => true | x :: a', y :: b' => nat_list_eqb x y && nat_lists_eqb a' b' | _, _ => false end.
Definition chunks_agree (len k : nat) (e : option (list (list nat))) : bool :=
  match chunks_py (seq 0 len) k, e with
  | Some a, Some b => nat_lists_eqb a b
  | None, None => true
  | _, _ => false
  end.
