(* Domain-restricted version of the simulation of AStarEquiv.v.
   AStarEquiv asks that related arguments give related rule results for ALL related pairs of handles.  For category ids
   under a category table that is too strong: a table only contains the results of the pairs some run has looked up.
   Here the rule-result hypotheses are required only on the keys a step really uses (predicates UB / UU on the first
   system), and a step is simulated whenever its own keys lie in that domain:
     - jstep_rel_on : one loop iteration, the two sides may even use different rule functions at every step (this is
       what the search reading the memo incrementally needs: the rule function of a step is "the cache after the step");
     - equiv_reach_on / search_simulation_on : whole runs whose steps stay in the domain (jreach_on);
     - jstep_ext_on : a step only depends on the rule functions through the keys it uses;
     - monotonicity of the lifted relations in R, and the converse pop lemma. *)
From Coq Require Import List ZArith Lia Bool Arith.
Import ListNotations.
Require Import AStar AStarImpl AStarEquiv.
Open Scope Z_scope.

(* ---------- the lifted relations are monotone in R ---------- *)
Section Mono.
Context {C C' : Type}.
Variables R R' : C -> C' -> Prop.
Hypothesis Hsub : forall x y, R x y -> R' x y.

Lemma drel_mono d d' : drel R d d' -> drel R' d d'.
Proof. induction 1 as [i c c' Hc | k c c' d d' Hc Hd IH | k c c' hl l l' r r' Hc Hl IHl Hr IHr]; constructor; auto. Qed.

Lemma irel_mono (a : @jitem C) (a' : @jitem C') : irel R a a' -> irel R' a a'.
Proof. intros (Hf & Hd & Hrest). split; [assumption|]. split; [now apply drel_mono | assumption]. Qed.

Lemma F2_irel_mono l l' : Forall2 (irel R) l l' -> Forall2 (irel R') l l'.
Proof. intros HF. induction HF as [|a a' l l' Ha _ IH]; constructor; [now apply irel_mono | assumption]. Qed.

Lemma srel_mono (st : @jstate C) (st' : @jstate C') : srel R st st' -> srel R' st st'.
Proof. intros (Ha & Hc & Hg & Hs). repeat split; try assumption; now apply F2_irel_mono. Qed.
End Mono.

(* ---------- the keys one loop iteration uses ---------- *)
Section Keys.
Context {C : Type}.
Variable ceqb : C -> C -> bool.
Variable n : nat.
Variable dedup : bool.
Definition uses_un (a : @jitem C) : bool := (n =? 1)%nat || negb (jlen a =? n)%nat.
Definition right_of (a o : @jitem C) : bool := (jstart o =? jstart a + jlen a)%nat.
Definition left_of (a o : @jitem C) : bool := (jstart o + jlen o =? jstart a)%nat.
(* the popped item is expanded: it is no goal item and (1-best mode) its (span, category) is not in the chart yet *)
Definition expands (a : @jitem C) (st : @jstate C) : bool := negb (jfin a) && negb (dedup && existsb (jkey_eqb ceqb a) (jchart st)).

(* the unary key and the binary keys of the expansion of a lie in UU / UB *)
Definition step_within (UB : C -> C -> Prop) (UU : C -> Prop) (a : @jitem C) (st : @jstate C) : Prop :=
  expands a st = true ->
  (uses_un a = true -> UU (jcat a)) /\
  (forall o, In o (jchart st) -> right_of a o = true -> UB (jcat a) (jcat o)) /\
  (forall o, In o (jchart st) -> left_of a o = true -> UB (jcat o) (jcat a)).
End Keys.

(* ---------- a step depends on the rule functions only through the keys it uses ---------- *)
Section Ext.
Context {C : Type}.
Variable ceqb : C -> C -> bool.
Variable n : nat.
Variable dep : nat -> nat -> Z.
Variable besttag bestdep : nat -> Z.
Variable bin1 bin2 : C -> C -> list (C * bool).
Variable un1 un2 : C -> list C.
Variable isroot : C -> bool.
Variable pen : Z.
Variable dedup : bool.

Lemma flat_map_ext_in {A B} (f g : A -> list B) l : (forall x, In x l -> f x = g x) -> flat_map f l = flat_map g l.
Proof.
  induction l as [|x l IH]; intros H; simpl; [reflexivity|].
  rewrite (H x (or_introl eq_refl)), IH; [reflexivity|]. intros y Hy. apply H. now right.
Qed.

Theorem jstep_ext_on a st :
  step_within ceqb n dedup (fun x y => bin1 x y = bin2 x y) (fun x => un1 x = un2 x) a st ->
  jstep ceqb n dep besttag bestdep bin1 un1 isroot pen dedup a st = jstep ceqb n dep besttag bestdep bin2 un2 isroot pen dedup a st.
Proof.
  intros Hw. unfold jstep. unfold step_within, expands in Hw.
  destruct (jfin a); [reflexivity|]. destruct (dedup && existsb (jkey_eqb ceqb a) (jchart st)); [reflexivity|].
  destruct (Hw eq_refl) as (Hu & Hr & Hl). clear Hw.
  assert (E : jpushes n dep besttag bestdep bin1 un1 isroot pen a (jchart st) = jpushes n dep besttag bestdep bin2 un2 isroot pen a (jchart st)).
  { unfold jpushes. f_equal. f_equal; [|f_equal].
    - unfold jpush_un. unfold uses_un in Hu. destruct ((n =? 1)%nat || negb (jlen a =? n)%nat); [|reflexivity]. now rewrite (Hu eq_refl).
    - unfold jpush_right. apply flat_map_ext_in. intros o Ho. specialize (Hr o Ho). unfold right_of in Hr.
      destruct (jstart o =? jstart a + jlen a)%nat; [|reflexivity]. now rewrite (Hr eq_refl).
    - unfold jpush_left. apply flat_map_ext_in. intros o Ho. specialize (Hl o Ho). unfold left_of in Hl.
      destruct (jstart o + jlen o =? jstart a)%nat; [|reflexivity]. now rewrite (Hl eq_refl). }
  now rewrite E.
Qed.
End Ext.

(* ---------- the restricted simulation ---------- *)
Section On.
Context {C C' : Type}.
Variable ceqb : C -> C -> bool.
Variable ceqb' : C' -> C' -> bool.
Variable n : nat.
Variable dep : nat -> nat -> Z.
Variable besttag bestdep : nat -> Z.
Variable isroot : C -> bool.
Variable isroot' : C' -> bool.
Variable pen : Z.
Variable dedup : bool.
Variable R : C -> C' -> Prop.
Hypothesis R_eqb : forall a a' b b', R a a' -> R b b' -> ceqb a b = ceqb' a' b'.
Hypothesis R_root : forall a a', R a a' -> isroot a = isroot' a'.

(* rule results: related position by position, head flags equal *)
Definition res_rel (l : list (C * bool)) (l' : list (C' * bool)) : Prop :=
  Forall2 (fun p q => R (fst p) (fst q) /\ snd p = snd q) l l'.

Lemma results_rel (mk1 : nat -> C -> bool -> @jitem C) (mk2 : nat -> C' -> bool -> @jitem C') l l' :
  res_rel l l' -> (forall k c c' hl, R c c' -> irel R (mk1 k c hl) (mk2 k c' hl)) ->
  Forall2 (irel R) (map (fun kr => mk1 (fst kr) (fst (snd kr)) (snd (snd kr))) (enum l))
                   (map (fun kr => mk2 (fst kr) (fst (snd kr)) (snd (snd kr))) (enum l')).
Proof.
  intros Hl Hmk.
  apply F2_map with (P := fun p q => fst p = fst q /\ (R (fst (snd p)) (fst (snd q)) /\ snd (snd p) = snd (snd q))).
  - intros p q [Hk [Hc Hh]]. rewrite Hk, Hh. now apply Hmk.
  - apply (F2_enum (fun p q => R (fst p) (fst q) /\ snd p = snd q)). exact Hl.
Qed.

Section OneStep.
(* the rule functions of THIS step on both sides, and the domain on which they are known to agree up to R *)
Variable bin : C -> C -> list (C * bool).
Variable bin' : C' -> C' -> list (C' * bool).
Variable un : C -> list C.
Variable un' : C' -> list C'.
Variable UB : C -> C -> Prop.
Variable UU : C -> Prop.
Hypothesis R_bin_on : forall a a' b b', R a a' -> R b b' -> UB a b -> res_rel (bin a b) (bin' a' b').
Hypothesis R_un_on : forall a a', R a a' -> UU a -> Forall2 R (un a) (un' a').

Lemma jpush_un_rel_on a a' : irel R a a' -> (uses_un n a = true -> UU (jcat a)) ->
  Forall2 (irel R) (jpush_un n un pen a) (jpush_un n un' pen a').
Proof.
  intros Ha HU. unfold jpush_un. unfold uses_un in HU.
  assert (Hl : jlen a = jlen a') by (destruct Ha as (_ & _ & _ & _ & _ & Hl & _); exact Hl). rewrite <- Hl.
  destruct ((n =? 1)%nat || negb (jlen a =? n)%nat); [|constructor].
  apply F2_map with (P := fun p q => fst p = fst q /\ R (snd p) (snd q)).
  - intros p q [Hk Hc]. rewrite Hk. now apply junary_rel.
  - apply (F2_enum R). apply R_un_on; [now apply irel_jcat | now apply HU].
Qed.

Lemma jpush_right_rel_on a a' ch ch' : irel R a a' -> Forall2 (irel R) ch ch' ->
  (forall o, In o ch -> right_of a o = true -> UB (jcat a) (jcat o)) ->
  Forall2 (irel R) (jpush_right n dep besttag bestdep bin a ch) (jpush_right n dep besttag bestdep bin' a' ch').
Proof.
  intros Ha HF. unfold jpush_right. induction HF as [|o o' l l' Ho HF IH]; intros HU; simpl; [constructor|].
  apply Forall2_app; [|apply IH; intros x Hx; apply HU; now right].
  assert (E : (jstart o =? jstart a + jlen a)%nat = (jstart o' =? jstart a' + jlen a')%nat).
  { destruct Ha as (_ & _ & _ & _ & Hs & Hl & _), Ho as (_ & _ & _ & _ & Hs2 & _). now rewrite Hs, Hl, Hs2. }
  specialize (HU o (or_introl eq_refl)). unfold right_of in HU. rewrite <- E.
  destruct (jstart o =? jstart a + jlen a)%nat; [|constructor].
  apply results_rel.
  - apply R_bin_on; [now apply irel_jcat | now apply irel_jcat | now apply HU].
  - intros k c c' hl Hc. now apply jcombine_rel.
Qed.

Lemma jpush_left_rel_on a a' ch ch' : irel R a a' -> Forall2 (irel R) ch ch' ->
  (forall o, In o ch -> left_of a o = true -> UB (jcat o) (jcat a)) ->
  Forall2 (irel R) (jpush_left n dep besttag bestdep bin a ch) (jpush_left n dep besttag bestdep bin' a' ch').
Proof.
  intros Ha HF. unfold jpush_left. induction HF as [|o o' l l' Ho HF IH]; intros HU; simpl; [constructor|].
  apply Forall2_app; [|apply IH; intros x Hx; apply HU; now right].
  assert (E : (jstart o + jlen o =? jstart a)%nat = (jstart o' + jlen o' =? jstart a')%nat).
  { destruct Ha as (_ & _ & _ & _ & Hs & _), Ho as (_ & _ & _ & _ & Hs2 & Hl2 & _). now rewrite Hs, Hs2, Hl2. }
  specialize (HU o (or_introl eq_refl)). unfold left_of in HU. rewrite <- E.
  destruct (jstart o + jlen o =? jstart a)%nat; [|constructor].
  apply results_rel.
  - apply R_bin_on; [now apply irel_jcat | now apply irel_jcat | now apply HU].
  - intros k c c' hl Hc. now apply jcombine_rel.
Qed.

(* one loop iteration on related popped items keeps the states related, provided the keys of this iteration lie in
   the domain on which the rule functions agree *)
Theorem jstep_rel_on a a' st st' : irel R a a' -> srel R st st' -> step_within ceqb n dedup UB UU a st ->
  srel R (jstep ceqb n dep besttag bestdep bin un isroot pen dedup a st)
         (jstep ceqb' n dep besttag bestdep bin' un' isroot' pen dedup a' st').
Proof.
  intros Ha (Hag & Hch & Hgo & Hst) Hw. unfold jstep. unfold step_within, expands in Hw.
  assert (Hf : jfin a = jfin a') by (destruct Ha as (Hf & _); exact Hf). rewrite <- Hf.
  rewrite <- (existsb_key_rel ceqb ceqb' R R_eqb _ _ _ _ Ha Hch).
  pose proof (jremove_rel ceqb ceqb' R R_eqb _ _ _ _ Ha Hag) as Hrm.
  destruct (jfin a).
  - unfold srel; simpl. repeat split; try assumption; [now apply F2_snoc | now rewrite Hst].
  - destruct (dedup && existsb (jkey_eqb ceqb a) (jchart st)).
    + unfold srel; simpl. repeat split; try assumption. now rewrite Hst.
    + destruct (Hw eq_refl) as (Hu & Hr & Hl).
      unfold srel; simpl. repeat split; try assumption.
      * apply Forall2_app; [|assumption]. unfold jpushes. repeat apply Forall2_app.
        -- now apply (jpush_fin_rel n dep besttag bestdep isroot isroot' R R_root).
        -- now apply jpush_un_rel_on.
        -- now apply jpush_right_rel_on.
        -- now apply jpush_left_rel_on.
      * now constructor.
      * now rewrite Hst.
Qed.
End OneStep.

(* a legal pop of the second search is matched by a legal pop of the first (the converse of jvalid_pop_rel) *)
Theorem jvalid_pop_rel_conv a' (st : @jstate C) (st' : @jstate C') : srel R st st' -> jvalid_pop a' st' ->
  exists a, irel R a a' /\ jvalid_pop a st.
Proof.
  intros (Hag & _) [Hin Hmax]. destruct (F2_in_r _ _ _ _ Hag Hin) as [a [Hin' Ha]].
  exists a. split; [assumption|]. split; [assumption|].
  intros b Hb. destruct (F2_in_l _ _ _ _ Hag Hb) as [b' [Hb' Hbb]].
  rewrite (irel_jprio _ _ _ Ha), (irel_jprio _ _ _ Hbb). now apply Hmax.
Qed.

(* ---------- whole runs with fixed rule functions, staying in the domain ---------- *)
Section Runs.
Variable tag : nat -> C -> Z.
Variable tag' : nat -> C' -> Z.
Variable adm : nat -> list C.
Variable adm' : nat -> list C'.
Variable bin : C -> C -> list (C * bool).
Variable bin' : C' -> C' -> list (C' * bool).
Variable un : C -> list C.
Variable un' : C' -> list C'.
Variable max_step nbest : nat.
Variable UB : C -> C -> Prop.
Variable UU : C -> Prop.
Hypothesis R_bin_on : forall a a' b b', R a a' -> R b b' -> UB a b -> res_rel (bin a b) (bin' a' b').
Hypothesis R_un_on : forall a a', R a a' -> UU a -> Forall2 R (un a) (un' a').
Hypothesis R_adm : forall i, Forall2 (fun c c' => R c c' /\ tag i c = tag' i c') (adm i) (adm' i).

Notation jstep1 := (jstep ceqb n dep besttag bestdep bin un isroot pen dedup).
Notation jstep2 := (jstep ceqb' n dep besttag bestdep bin' un' isroot' pen dedup).
Notation jinit1 := (jinit n tag adm besttag bestdep).
Notation jinit2 := (jinit n tag' adm' besttag bestdep).
Notation jreach1 := (jreach ceqb n tag dep adm besttag bestdep bin un isroot pen dedup max_step nbest).
Notation jreach2 := (jreach ceqb' n tag' dep adm' besttag bestdep bin' un' isroot' pen dedup max_step nbest).

(* runs of the first search all of whose expansions use keys of the domain only *)
Inductive jreach_on : @jstate C -> Prop :=
| jreach_on_init : jreach_on jinit1
| jreach_on_step st a : jreach_on st -> jrunning max_step nbest st -> jvalid_pop a st ->
    step_within ceqb n dedup UB UU a st -> jreach_on (jstep1 a st).

Lemma jreach_on_jreach st : jreach_on st -> jreach1 st.
Proof. induction 1 as [|st a _ IH Hrun Hpop _]; [constructor | now constructor]. Qed.

Theorem equiv_reach_on st : jreach_on st -> exists st', jreach2 st' /\ srel R st st'.
Proof.
  induction 1 as [|st a Hr [st' [Hr' Hs]] Hrun Hpop Hw].
  - exists jinit2. split; [constructor | now apply jinit_rel].
  - destruct (jvalid_pop_rel R _ _ _ Hs Hpop) as [a' [Ha Hpop']].
    exists (jstep2 a' st'). split; [|now apply (jstep_rel_on bin bin' un un' UB UU R_bin_on R_un_on)].
    constructor; [assumption | now apply (jrunning_rel max_step nbest R st) | assumption].
Qed.

Theorem search_simulation_on st : jreach_on st -> ~ jrunning max_step nbest st ->
  exists st', jreach2 st' /\ ~ jrunning max_step nbest st' /\ jstatus st = jstatus st' /\
              Forall2 (irel R) (jresult st) (jresult st').
Proof.
  intros Hr Hend. destruct (equiv_reach_on st Hr) as [st' [Hr' Hs]]. exists st'.
  split; [assumption|]. split; [intros H; apply Hend; now apply (jrunning_rel_conv max_step nbest R st st')|].
  split; [now apply (equiv_status R) | now apply equiv_result].
Qed.
End Runs.
End On.
