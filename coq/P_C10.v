(* C10 - n-best results are the k best derivations, best first.  Property theorems only. *)
From Coq Require Import List ZArith Bool Arith Sorted.
Import ListNotations.
Require Import AStar AStarLoss AStarOpt AStarImpl AStarRefine AStarThms AStarReplay AStarDistinct AStarCheck AStarProblem AStarExample.
Open Scope Z_scope.

(* the goal cell of an accepted n-best run is in non-increasing score order *)
Theorem C10_goals_best_first : forall p tr st,
  0 <= p_pen p -> p_dedup p = false -> p_accepts p tr = Some st ->
  StronglySorted (fun x y => jprio y <= jprio x) (jgoal st).
Proof.
  intros p tr st Hpen Hd Hacc. destruct (p_accepts_reach p tr st Hacc) as [Hr _]. unfold p_reach in Hr. rewrite Hd in Hr.
  exact (impl_goals_sorted Nat.eqb nat_eqb_eq (p_n p) (p_tagf p) (p_depf p) (p_adm p) (p_besttag p) (p_bestdep p) (lookup2 (p_bin p))
           (lookup1 (p_un p)) (p_isroot p) (p_pen p) (p_max_step p) (p_nbest p) Hpen (p_tag_le p) (p_dep_le p) st Hr).
Qed.

(* every complete derivation that was not returned scores no more than every returned one: the returned scores are the
   largest scores over all derivations of the sentence (no head-uniformity needed in n-best mode) *)
Theorem C10_returned_are_the_best : forall p tr st,
  0 <= p_pen p -> p_dedup p = false -> p_accepts p tr = Some st ->
  forall d, p_complete p d -> ~ In d (map (@jder nat) (jgoal st)) -> forall g, In g (jgoal st) -> p_score p d <= jprio g.
Proof.
  intros p tr st Hpen Hd Hacc. destruct (p_accepts_reach p tr st Hacc) as [Hr _]. unfold p_reach in Hr. rewrite Hd in Hr.
  exact (nbest_in_state Nat.eqb nat_eqb_eq (p_n p) (p_tagf p) (p_depf p) (p_adm p) (p_besttag p) (p_bestdep p) (lookup2 (p_bin p))
           (lookup1 (p_un p)) (p_isroot p) (p_pen p) (p_max_step p) (p_nbest p) Hpen (p_tag_le p) (p_dep_le p) st Hr).
Qed.

(* each returned item is a complete licensed derivation with its model score (validity and score accounting) *)
Theorem C10_each_result_valid_and_scored : forall p tr st g,
  p_dedup p = false -> p_accepts p tr = Some st -> In g (jgoal st) ->
  p_complete p (jder g) /\ jprio g = p_score p (jder g).
Proof.
  intros p tr st g Hd Hacc Hg. destruct (p_accepts_reach p tr st Hacc) as [Hr _]. split.
  - unfold p_reach in Hr. rewrite Hd in Hr.
    exact (goal_items_complete_N Nat.eqb nat_eqb_eq (p_n p) (p_tagf p) (p_depf p) (p_adm p) (p_besttag p) (p_bestdep p) (lookup2 (p_bin p))
             (lookup1 (p_un p)) (p_isroot p) (p_pen p) (p_max_step p) (p_nbest p) st g Hr Hg).
  - exact (goal_score Nat.eqb (p_n p) (p_tagf p) (p_depf p) (p_adm p) (p_besttag p) (p_bestdep p) (lookup2 (p_bin p))
             (lookup1 (p_un p)) (p_isroot p) (p_pen p) (p_max_step p) (p_nbest p) (p_dedup p) st g Hr Hg).
Qed.

(* the returned derivations are pairwise different *)
Theorem C10_results_pairwise_different : forall p tr st,
  p_dedup p = false -> p_accepts p tr = Some st -> NoDup (map (@jder nat) (jgoal st)).
Proof.
  intros p tr st Hd Hacc. destruct (p_accepts_reach p tr st Hacc) as [Hr _]. unfold p_reach in Hr. rewrite Hd in Hr.
  exact (impl_goals_distinct Nat.eqb nat_eqb_eq (p_n p) (p_tagf p) (p_depf p) (p_adm p) (p_besttag p) (p_bestdep p) (lookup2 (p_bin p))
           (lookup1 (p_un p)) (p_isroot p) (p_pen p) (p_max_step p) (p_nbest p) (p_adm_nodup p) st Hr).
Qed.

(* min(k, number of derivations): never more than k are returned; and when the search stopped with fewer than k parses
   although the step budget was not exhausted, the agenda was empty and every derivation of the sentence was returned
   (exactly once, by the theorem above) *)
Theorem C10_at_most_k : forall p tr st, p_accepts p tr = Some st -> (length (jgoal st) <= p_nbest p)%nat.
Proof. intros p tr st Hacc. destruct (p_accepts_reach p tr st Hacc) as [Hr _]. exact (jreach_goal_count _ _ _ _ _ _ _ _ _ _ _ _ _ _ st Hr). Qed.

Theorem C10_fewer_than_k_means_all_returned : forall p tr st,
  p_dedup p = false -> p_accepts p tr = Some st ->
  (length (jgoal st) < p_nbest p)%nat -> (jsteps st < p_max_step p)%nat ->
  forall d, p_complete p d -> In d (map (@jder nat) (jgoal st)).
Proof.
  intros p tr st Hd Hacc Hlt Hst. destruct (p_accepts_reach p tr st Hacc) as [Hr Hnr]. unfold p_reach in Hr. rewrite Hd in Hr.
  assert (Hag : jagenda st = []).
  { unfold p_running_b, jrunning_b in Hnr. apply Nat.ltb_lt in Hlt, Hst. rewrite Hlt, Hst in Hnr. simpl in Hnr.
    destruct (jagenda st); [reflexivity | discriminate]. }
  exact (impl_exhausted_means_all_returned Nat.eqb nat_eqb_eq (p_n p) (p_tagf p) (p_depf p) (p_adm p) (p_besttag p) (p_bestdep p) (lookup2 (p_bin p))
           (lookup1 (p_un p)) (p_isroot p) (p_pen p) (p_max_step p) (p_nbest p) st Hr Hag).
Qed.

(* what is handed to the finalizer is the goal cell, stably sorted best first: a permutation of it *)
Theorem C10_result_is_sorted_goal_cell : forall (st : @jstate nat) x, In x (jresult st) <-> In x (jgoal st).
Proof.
  intros st x. unfold jresult, sort_desc. rewrite (in_rev (jgoal st)). generalize (rev (jgoal st)). intros l.
  induction l as [|a l IH]; simpl; [tauto|]. rewrite <- IH. clear IH. generalize (fold_right (@insert_desc nat) [] l). intros s.
  induction s as [|b s IHs]; simpl; [tauto|]. destruct (jprio b <=? jprio a); simpl; [tauto|]. rewrite IHs. tauto.
Qed.

Example ex_c10 : exists st, p_accepts (ex_problem false 3) ex_trace3 = Some st /\ map (@jprio nat) (jresult st) = [-44; -74; -74].
Proof. eexists. split; [vm_compute; reflexivity | reflexivity]. Qed.
