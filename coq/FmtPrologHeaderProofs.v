(* C07 - prolog documents over the GENERATED header (GenFmt.prolog_header_src): the reader that takes the declarations apart
   (FmtPrologHeader.dec_prolog_doc_h) gets the records of the batch; and str.lower: the table-driven model of FmtProlog.v is the A-Z rule
   on ASCII text, which is all that occurs in the shipped category inventories (GenData.v). *)
From Coq Require Import List NArith Bool Arith Lia.
Import ListNotations.
Require Import Cat CatFacts Tree GenTables GenData GenFmt Fmt FmtProofs FmtProlog FmtPrologProofs FmtPrologHeader.
Local Open Scope N_scope.

(* ================= the lines of a header ================= *)
Definition line_ok (l : text) : bool := negb (has cNL l) && match l with [] => false | _ => true end.

Lemma hdr_line_go l : forall cur rest, has cNL l = false ->
  hdr_lines (l ++ cNL :: rest) cur =
  match rev cur ++ l with
  | [] => Some ([], rest)
  | x => match hdr_lines rest [] with Some (ls, r) => Some (x :: ls, r) | None => None end
  end.
Proof.
  induction l as [|x l IH]; intros cur rest Hn.
  - cbn [app hdr_lines]. rewrite N.eqb_refl, app_nil_r. destruct cur as [|c cur]; [reflexivity|].
    destruct (rev (c :: cur)) as [|y ys] eqn:E; [|reflexivity].
    apply (f_equal (@List.length N)) in E. rewrite rev_length in E. discriminate E.
  - unfold has in Hn. cbn [existsb] in Hn. apply orb_false_iff in Hn as [Hx Hn]. rewrite N.eqb_sym in Hx.
    cbn [app hdr_lines]. rewrite Hx, (IH (x :: cur) rest Hn). cbn [rev]. now rewrite <- app_assoc.
Qed.

Lemma hdr_lines_spec : forall ls body, forallb line_ok ls = true ->
  hdr_lines (concat (map (fun l => l ++ [cNL]) ls) ++ [cNL] ++ body) [] = Some (ls, body).
Proof.
  induction ls as [|l ls IH]; intros body H.
  - cbn [map concat app hdr_lines]. now rewrite N.eqb_refl.
  - cbn [forallb] in H. apply andb_true_iff in H as [Hl H]. unfold line_ok in Hl. apply andb_true_iff in Hl as [Hn Hne].
    apply negb_true_iff in Hn. cbn [map concat]. rewrite <- !app_assoc. cbn [app].
    rewrite (hdr_line_go l [] _ Hn). cbn [rev app]. destruct l as [|x l]; [discriminate Hne|].
    change (concat (map (fun l0 => l0 ++ [cNL]) ls) ++ cNL :: body) with (concat (map (fun l0 => l0 ++ [cNL]) ls) ++ [cNL] ++ body).
    now rewrite (IH body H).
Qed.

(* ================= facts about the generated header (re-established by computation on every build) ================= *)
Definition header_lines : list text :=
  Eval vm_compute in match hdr_lines (prolog_header ++ [cNL]) [] with Some (ls, _) => ls | None => [] end.
Lemma header_is_lines : prolog_header = concat (map (fun l => l ++ [cNL]) header_lines).
Proof. vm_compute. reflexivity. Qed.
Lemma header_lines_ok : forallb line_ok header_lines = true.
Proof. vm_compute. reflexivity. Qed.
(* every line is a directive, and the directives are the declarations of the format *)
Lemma header_decls : exists ds, pl_opt_list (map dec_directive header_lines) = Some ds /\ decls_eqb ds prolog_decls = true.
Proof. eexists. split; vm_compute; reflexivity. Qed.

Lemma dec_prolog_header_doc body : exists ds, dec_prolog_header (prolog_header ++ [cNL] ++ body) = Some (ds, body) /\ decls_eqb ds prolog_decls = true.
Proof.
  destruct header_decls as (ds & Ed & Eq). exists ds. split; [|exact Eq]. unfold dec_prolog_header.
  rewrite header_is_lines at 1. now rewrite (hdr_lines_spec header_lines body header_lines_ok), Ed.
Qed.

(* reading the declarations and stripping them as a fixed text leave the same clauses *)
Lemma doc_h_eq dec body : dec_prolog_doc_h dec (prolog_header ++ [cNL] ++ body) = dec_prolog_doc dec (prolog_header ++ [cNL] ++ body).
Proof.
  destruct (dec_prolog_header_doc body) as (ds & Eh & Eq). unfold dec_prolog_doc_h, dec_prolog_doc.
  rewrite Eh, Eq, (app_assoc prolog_header), pl_strip_prefix_app. reflexivity.
Qed.

Lemma en_doc_shape b txt : prolog_en_doc b = Some txt -> exists body, txt = prolog_header ++ [cNL] ++ body.
Proof.
  unfold prolog_en_doc. destruct b as [|[|t0 ts0] b']; [discriminate | discriminate |].
  destruct (concat_opt _) as [body|]; [|discriminate]. cbn [option_map]. intros E. apply Some_inj in E. now exists body.
Qed.
Lemma ja_doc_shape b txt : prolog_ja_doc b = Some txt -> exists body, txt = prolog_header ++ [cNL] ++ body.
Proof.
  unfold prolog_ja_doc. destruct b as [|[|t0 ts0] b']; [discriminate | discriminate |].
  destruct (concat_opt _) as [body|]; [|discriminate]. cbn [option_map]. intros E. apply Some_inj in E. now exists body.
Qed.

Theorem prolog_en_doc_roundtrip_generated_header : forall b txt, Forall (Forall (fun t => pl_okb_en t = true)) b -> prolog_en_doc b = Some txt ->
  dec_prolog_doc_h dec_en txt = doc_views view_prolog_en b /\ dec_prolog_doc_h dec_en txt <> None.
Proof.
  intros b txt Hok E. destruct (en_doc_shape b txt E) as (body & ->). rewrite doc_h_eq. now apply prolog_en_doc_roundtrip.
Qed.

Theorem prolog_ja_doc_roundtrip_generated_header : forall b txt, Forall (Forall (fun t => pl_okb_ja t = true)) b -> prolog_ja_doc b = Some txt ->
  dec_prolog_doc_h dec_ja txt = doc_views view_prolog_ja b /\ dec_prolog_doc_h dec_ja txt <> None.
Proof.
  intros b txt Hok E. destruct (ja_doc_shape b txt E) as (body & ->). rewrite doc_h_eq. now apply prolog_ja_doc_roundtrip.
Qed.

(* the document starts with the declarations of the format, whatever the trees are *)
Theorem prolog_doc_header_decls : forall b txt, prolog_en_doc b = Some txt \/ prolog_ja_doc b = Some txt ->
  exists ds body, dec_prolog_header txt = Some (ds, body) /\ decls_eqb ds prolog_decls = true.
Proof.
  intros b txt [E|E]; [destruct (en_doc_shape b txt E) as (body & ->) | destruct (ja_doc_shape b txt E) as (body & ->)];
    destruct (dec_prolog_header_doc body) as (ds & Eh & Eq); exists ds, body; auto.
Qed.

(* ================= str.lower ================= *)
(* on the 128 ASCII code points the interpreter's table is the A-Z rule: an entry exactly for A-Z, and it is the letter + 32 *)
Definition lower_table_ascii_agrees : bool :=
  forallb (fun c => match lower_lookup c py_lower_table with
                    | Some v => text_eqb v [lower_c c] && negb (N.eqb (lower_c c) c)
                    | None => N.eqb (lower_c c) c
                    end) (map N.of_nat (seq 0 128)).
Lemma lower_table_ascii : lower_table_ascii_agrees = true.
Proof. vm_compute. reflexivity. Qed.
(* no context-dependent character is ASCII, and each of them is in the table (its context-free image) *)
Lemma lower_contextual_facts : forallb (fun c => (128 <=? c) && match lower_lookup c py_lower_table with Some _ => true | None => false end) py_lower_contextual = true.
Proof. vm_compute. reflexivity. Qed.

Lemma ascii_not_contextual c : c < 128 -> existsb (N.eqb c) py_lower_contextual = false.
Proof.
  intros Hc. pose proof lower_contextual_facts as F. induction py_lower_contextual as [|x l IHl]; [reflexivity|].
  cbn [forallb existsb] in *. apply andb_true_iff in F as [Fx F]. apply andb_true_iff in Fx as [Fx _]. apply N.leb_le in Fx.
  rewrite (IHl F), orb_false_r. apply N.eqb_neq. lia.
Qed.

Lemma lower_ascii s : asciib s = true -> lower s = lower_az s /\ lower_dom s = true.
Proof.
  unfold asciib, lower, lower_az, lower_dom. induction s as [|c s IH]; intros H; [split; reflexivity|].
  cbn [forallb] in H. apply andb_true_iff in H as [Hc H]. destruct (IH H) as [E1 E2]. cbn [flat_map map forallb].
  unfold lower_cs at 1. rewrite Hc, E1, E2, andb_true_r. split; [reflexivity|].
  apply N.ltb_lt in Hc. now rewrite (ascii_not_contextual c Hc).
Qed.

(* every character of every category string of the shipped model files (targets, seen rules, unary rules, category dictionary) is ASCII *)
Definition shipped_cat_toks : list (list text) :=
  targets_en ++ targets_en_rebank ++ targets_ja ++ rules_toks ++
  flat_map (fun e : nat + list text => match e with inl _ => [] | inr ts => [ts] end) cat_dict_en_entries.
Definition shipped_chars_ascii : bool := forallb (forallb asciib) shipped_cat_toks.
Lemma shipped_ascii : shipped_chars_ascii = true.
Proof. vm_compute. reflexivity. Qed.

Lemma cat_lower_ascii c : cat_asciib c = true -> cat_lower_dom c = true.
Proof.
  induction c as [b f | l IHl s r IHr]; cbn [cat_asciib cat_lower_dom]; intros H; apply andb_true_iff in H as [H1 H2].
  - rewrite (proj2 (lower_ascii b H1)). destruct f as [|v|k1 v1 k2 v2 k3 v3]; try reflexivity.
    cbn [feat_asciib feat_lower_dom] in *. apply andb_true_iff in H2 as [H2 H5]. apply andb_true_iff in H2 as [H3 H4].
    now rewrite (proj2 (lower_ascii v1 H3)), (proj2 (lower_ascii v2 H4)), (proj2 (lower_ascii v3 H5)).
  - now rewrite (IHl H1), (IHr H2).
Qed.
