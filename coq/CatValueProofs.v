(* C13 - lemmas: equality, hash coherence, string comparison, feature-blind comparison, feature erasure. *)
From Coq Require Import List NArith ZArith Bool Lia.
Import ListNotations.
Require Import Cat CatFacts CatLex CatRoundTrip CatValue.

(* ---------- hash ---------- *)
Section HashFacts.
Variable hstr : text -> Z.
Variable hnone : Z.
Variable htuple : list Z -> Z.
Notation cat_hash := (cat_hash hstr hnone htuple).

Lemma hash_respects x y : x = y -> cat_hash x = cat_hash y.
Proof. intros ->. reflexivity. Qed.

Lemma eqb_hash x y : cat_eqb x y = true -> cat_hash x = cat_hash y.
Proof. intros H. apply cat_eqb_eq in H. now subst. Qed.

Lemma hashed_mem_plain c keys : hashed_mem hstr hnone htuple c keys = plain_mem c keys.
Proof.
  unfold hashed_mem, plain_mem. induction keys as [|k keys IH]; [reflexivity|].
  cbn [existsb]. rewrite IH. f_equal.
  destruct (cat_eqb k c) eqn:E; [|now rewrite andb_false_r].
  apply eqb_hash in E. rewrite E, Z.eqb_refl. reflexivity.
Qed.

Lemma hashed_get_plain {V} c (d : list (cat * V)) : hashed_get hstr hnone htuple c d = plain_get c d.
Proof.
  induction d as [|[k v] d IH]; [reflexivity|]. cbn [hashed_get plain_get]. rewrite IH.
  destruct (cat_eqb k c) eqn:E; [|now rewrite andb_false_r].
  apply eqb_hash in E. rewrite E, Z.eqb_refl. reflexivity.
Qed.
End HashFacts.

Lemma plain_mem_In c keys : plain_mem c keys = true <-> In c keys.
Proof.
  unfold plain_mem. rewrite existsb_exists. split.
  - intros [k [Hin Hk]]. apply cat_eqb_eq in Hk. now subst.
  - intros H. exists c. split; [assumption | apply cat_eqb_refl].
Qed.

Lemma plain_get_In {V} c (d : list (cat * V)) v : plain_get c d = Some v -> In (c, v) d.
Proof.
  induction d as [|[k w] d IH]; cbn [plain_get]; intros H; [discriminate|].
  destruct (cat_eqb k c) eqn:E.
  - apply cat_eqb_eq in E. subst k. inversion H; subst. now left.
  - right. now apply IH.
Qed.

Lemma plain_get_first {V} c (d1 d2 : list (cat * V)) v :
  (forall w, ~ In (c, w) d1) -> plain_get c (d1 ++ (c, v) :: d2) = Some v.
Proof.
  induction d1 as [|[k w] d1 IH]; intros Hn; cbn [app plain_get].
  - now rewrite cat_eqb_refl.
  - destruct (cat_eqb k c) eqn:E.
    + apply cat_eqb_eq in E. subst k. exfalso. apply (Hn w). now left.
    + apply IH. intros w' Hin. apply (Hn w'). now right.
Qed.

(* ---------- comparison with a string ---------- *)
Lemma eq_str_iff c s : eq_str c s = true <-> s = show c.
Proof. unfold eq_str. rewrite text_eqb_eq. split; congruence. Qed.

(* ---------- feature-blind comparison ---------- *)
Lemma xor_iff_skeleton x y : cat_xor x y = true <-> skeleton x = skeleton y.
Proof.
  revert y; induction x as [b f | l IHl s r IHr]; intros [b' f' | l' s' r']; cbn [cat_xor skeleton]; split; intros H;
    try discriminate; try congruence.
  - apply text_eqb_eq in H. now subst.
  - inversion H; subst. apply text_eqb_refl.
  - apply andb_true_iff in H as [H H3]. apply andb_true_iff in H as [H1 H2].
    apply IHl in H1. apply text_eqb_eq in H2. apply IHr in H3. congruence.
  - inversion H as [[H1 H2 H3]]. apply IHl in H1. apply IHr in H3. rewrite H1, H3, text_eqb_refl. reflexivity.
Qed.

Lemma xor_refl x : cat_xor x x = true.
Proof. now apply xor_iff_skeleton. Qed.
Lemma xor_sym x y : cat_xor x y = cat_xor y x.
Proof.
  destruct (cat_xor x y) eqn:E1; destruct (cat_xor y x) eqn:E2; try reflexivity.
  - apply xor_iff_skeleton in E1. symmetry in E1. apply xor_iff_skeleton in E1. congruence.
  - apply xor_iff_skeleton in E2. symmetry in E2. apply xor_iff_skeleton in E2. congruence.
Qed.
Lemma xor_trans x y z : cat_xor x y = true -> cat_xor y z = true -> cat_xor x z = true.
Proof. rewrite !xor_iff_skeleton. congruence. Qed.
Lemma eq_implies_xor x y : cat_eqb x y = true -> cat_xor x y = true.
Proof. intros H. apply cat_eqb_eq in H. subst. apply xor_refl. Qed.

Lemma skeleton_idem c : skeleton (skeleton c) = skeleton c.
Proof. induction c as [b f | l IHl s r IHr]; cbn [skeleton]; congruence. Qed.

(* a value is determined by its skeleton (shape, slashes, atom names) and its features in order *)
Lemma atoms_nonnil c : atoms c <> [].
Proof.
  induction c as [b f | l IHl s r IHr]; cbn [atoms]; [discriminate|].
  intros H. apply app_eq_nil in H as [H _]. now apply IHl.
Qed.

Lemma skeleton_atoms_length x y : skeleton x = skeleton y -> length (atoms x) = length (atoms y).
Proof.
  revert y; induction x as [b f | l IHl s r IHr]; intros [b' f' | l' s' r']; cbn [skeleton atoms]; intros H; try discriminate; [reflexivity|].
  inversion H as [[H1 H2 H3]]. rewrite !app_length. now rewrite (IHl _ H1), (IHr _ H3).
Qed.

Lemma app_inj_len {A} (a b c d : list A) : length a = length c -> a ++ b = c ++ d -> a = c /\ b = d.
Proof.
  revert c; induction a as [|x a IH]; intros [|y c] Hl H; try discriminate; cbn [app] in *; [now split|].
  inversion H as [[Hx Ht]]. inversion Hl as [Hl']. destruct (IH c Hl' Ht) as [-> ->]. now split.
Qed.

Lemma skeleton_feats_inj x y : skeleton x = skeleton y -> feats x = feats y -> x = y.
Proof.
  unfold feats. revert y; induction x as [b f | l IHl s r IHr]; intros [b' f' | l' s' r']; cbn [skeleton atoms map]; intros Hs Hf; try discriminate.
  - inversion Hs; inversion Hf; subst. reflexivity.
  - inversion Hs as [[H1 H2 H3]]. rewrite !map_app in Hf.
    apply app_inj_len in Hf; [|rewrite !map_length; now apply skeleton_atoms_length].
    destruct Hf as [Hl Hr]. now rewrite (IHl _ H1 Hl), (IHr _ H3 Hr).
Qed.

(* ---------- feature erasure ---------- *)
Section Clear.
Variable names : list text.
Notation clear := (clear_features names).

Lemma clear_atoms c : atoms (clear c) = map (erase_atom names) (atoms c).
Proof.
  induction c as [b f | l IHl s r IHr]; cbn [clear_features atoms].
  - unfold erase_atom, erase, named. cbn [fst snd map]. destruct (existsb (feat_eq_str f) names); reflexivity.
  - now rewrite map_app, IHl, IHr.
Qed.

Lemma clear_feats c : feats (clear c) = map (erase names) (feats c).
Proof. unfold feats. rewrite clear_atoms, !map_map. reflexivity. Qed.

Lemma clear_skeleton c : skeleton (clear c) = skeleton c.
Proof.
  induction c as [b f | l IHl s r IHr]; cbn [clear_features skeleton].
  - destruct (existsb (feat_eq_str f) names); reflexivity.
  - now rewrite IHl, IHr.
Qed.

Lemma erase_idem f : erase names (erase names f) = erase names f.
Proof.
  unfold erase. destruct (named names f) eqn:E; [|now rewrite E].
  destruct (named names FNone); reflexivity.
Qed.

Lemma clear_idem c : clear (clear c) = clear c.
Proof.
  apply skeleton_feats_inj.
  - now rewrite !clear_skeleton.
  - rewrite !clear_feats, map_map. apply map_ext. intros f. apply erase_idem.
Qed.

Lemma clear_noop c : (forall f, In f (feats c) -> named names f = false) -> clear c = c.
Proof.
  intros H. apply skeleton_feats_inj; [apply clear_skeleton|].
  rewrite clear_feats. rewrite <- (map_id (feats c)) at 2. apply map_ext_in.
  intros f Hf. unfold erase. now rewrite (H f Hf).
Qed.

Lemma clear_keeps c i b f : nth_error (atoms c) i = Some (b, f) -> named names f = false ->
  nth_error (atoms (clear c)) i = Some (b, f).
Proof.
  intros Hn Hf. rewrite clear_atoms. rewrite nth_error_map, Hn. cbn [option_map].
  unfold erase_atom, erase. cbn [fst snd]. now rewrite Hf.
Qed.

Lemma clear_erases c i b f : nth_error (atoms c) i = Some (b, f) -> named names f = true ->
  nth_error (atoms (clear c)) i = Some (b, FNone).
Proof.
  intros Hn Hf. rewrite clear_atoms. rewrite nth_error_map, Hn. cbn [option_map].
  unfold erase_atom, erase. cbn [fst snd]. now rewrite Hf.
Qed.

Lemma clear_xor c : cat_xor (clear c) c = true.
Proof. apply xor_iff_skeleton. apply clear_skeleton. Qed.
End Clear.

(* clearing everything that occurs gives the skeleton; the skeleton is the canonical representative of ^ *)
Lemma named_own_text f : wf_feat f -> f <> FNone -> feat_eq_str f (show_feat f) = true.
Proof.
  intros Hwf Hn. unfold feat_eq_str. rewrite (parse_show_feat f Hwf Hn). apply feat_eqb_refl.
Qed.

Lemma name_denotes f g : wf_feat g -> g <> FNone -> feat_eq_str f (show_feat g) = feat_eqb f g.
Proof. intros Hwf Hn. unfold feat_eq_str. now rewrite (parse_show_feat g Hwf Hn). Qed.

(* no feature name denotes "no feature": an atom without feature is never touched for the right reason -
   it has nothing to erase, and erase maps it to itself either way *)
Lemma erase_none names : erase names FNone = FNone.
Proof. unfold erase. destruct (named names FNone); reflexivity. Qed.
