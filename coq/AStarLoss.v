From Coq Require Import List ZArith Lia Bool Arith.
Import ListNotations.
Require Import AStar.
Open Scope Z_scope.

Lemma In_combine_seq {A} (l : list A) k x s :
  In (k, x) (combine (seq s (length l)) l) <-> (s <= k)%nat /\ nth_error l (k - s) = Some x.
Proof.
  revert s; induction l as [|y l IH]; intros s; simpl.
  - split; [tauto|]. intros [_ H]. destruct (k - s)%nat; discriminate.
  - rewrite IH. split.
    + intros [E | [Hle Hn]].
      * inversion E; subst. split; [lia|]. now rewrite Nat.sub_diag.
      * split; [lia|]. replace (k - s)%nat with (S (k - S s)) by lia. exact Hn.
    + intros [Hle Hn]. destruct (Nat.eq_dec s k) as [->|Hne].
      * rewrite Nat.sub_diag in Hn. simpl in Hn. left. congruence.
      * right. split; [lia|]. replace (k - s)%nat with (S (k - S s)) in Hn by lia. exact Hn.
Qed.

Lemma In_enum {A} (l : list A) k x : In (k, x) (enum l) <-> nth_error l k = Some x.
Proof.
  unfold enum. rewrite In_combine_seq. rewrite Nat.sub_0_r. split; [tauto|]. intros; split; [lia|assumption].
Qed.

Lemma sumf_split f s a b : sumf f s (a + b) = sumf f s a + sumf f (s + a) b.
Proof.
  revert s; induction a as [|a IH]; intros s; simpl.
  - now rewrite Nat.add_0_r.
  - rewrite IH. replace (S s + a)%nat with (s + S a)%nat by lia. lia.
Qed.

Section Loss.
Context {C : Type}.
Variable ceqb : C -> C -> bool.
Hypothesis ceqb_eq : forall a b, ceqb a b = true <-> a = b.
Variable n : nat.
Variable tag : nat -> C -> Z.
Variable dep : nat -> nat -> Z.
Variable adm : nat -> list C.
Variable besttag bestdep : nat -> Z.
Variable bin : C -> C -> list (C * bool).
Variable un : C -> list C.
Variable isroot : C -> bool.
Variable pen : Z.

Hypothesis pen_nonneg : 0 <= pen.
Hypothesis tag_le : forall i c, (i < n)%nat -> In c (adm i) -> tag i c <= besttag i.
Hypothesis dep_le : forall i j, dep i j <= bestdep i.

Notation deriv := (@deriv C).
Notation licensed := (licensed n adm bin un).
Notation dins := (dins tag dep pen).
Notation out_inh := (out_inh n besttag bestdep true).
Notation attach := (attach dep).

Definition K : Z := sumf besttag 0 n + sumf bestdep 0 n.

Definition attach_loss (hl : bool) (l r : deriv) : Z :=
  if hl then bestdep (dhead r) - dep (dhead r) (S (dhead l)) else bestdep (dhead l) - dep (dhead l) (S (dhead r)).

Fixpoint loss (d : deriv) : Z :=
  match d with
  | DLeaf i c => besttag i - tag i c
  | DUn _ _ d => loss d + pen
  | DBin _ _ hl l r => loss l + loss r + attach_loss hl l r
  end.

Lemma attach_loss_nonneg hl l r : 0 <= attach_loss hl l r.
Proof. unfold attach_loss. destruct hl; [specialize (dep_le (dhead r) (S (dhead l)))|specialize (dep_le (dhead l) (S (dhead r)))]; lia. Qed.

Lemma loss_nonneg d : licensed d -> 0 <= loss d.
Proof.
  induction 1 as [i c Hi Hc | k c d Hd IH Hn Hs | k c hl l r Hl IHl Hr IHr Hadj Hn]; simpl.
  - specialize (tag_le i c Hi Hc). lia.
  - lia.
  - pose proof (attach_loss_nonneg hl l r). lia.
Qed.

Lemma span_ok d : licensed d ->
  (1 <= dlen d /\ dstart d + dlen d <= n /\ dstart d <= dhead d < dstart d + dlen d)%nat.
Proof.
  induction 1 as [i c Hi Hc | k c d Hd IH Hn Hs | k c hl l r Hl IHl Hr IHr Hadj Hn]; simpl.
  - lia.
  - exact IH.
  - destruct hl; lia.
Qed.

Lemma outside_eq f s len : (s + len <= n)%nat -> outside n f s (s + len) = sumf f 0 n - sumf f s len.
Proof.
  intros H. unfold outside.
  assert (E : sumf f 0 n = sumf f 0 s + (sumf f s len + sumf f (s + len) (n - (s + len)))).
  { replace n with (s + (len + (n - (s + len))))%nat at 1 by lia.
    rewrite sumf_split. rewrite sumf_split. simpl. reflexivity. }
  rewrite E. lia.
Qed.

(* inside score = best possible for the span, minus the head's own attachment, minus the loss *)
Lemma ins_loss d : licensed d ->
  dins d = sumf besttag (dstart d) (dlen d) + sumf bestdep (dstart d) (dlen d) - bestdep (dhead d) - loss d.
Proof.
  induction 1 as [i c Hi Hc | k c d Hd IH Hn Hs | k c hl l r Hl IHl Hr IHr Hadj Hn]; simpl.
  - lia.
  - rewrite IH. lia.
  - rewrite IHl, IHr. rewrite !sumf_split. rewrite Hadj. unfold attach, AStar.attach, attach_loss. destruct hl; lia.
Qed.

Lemma out_inh_eq d : licensed d ->
  out_inh d = K - sumf besttag (dstart d) (dlen d) - sumf bestdep (dstart d) (dlen d) + bestdep (dhead d).
Proof.
  induction 1 as [i c Hi Hc | k c d Hd IH Hn Hs | k c hl l r Hl IHl Hr IHr Hadj Hn].
  - simpl. replace (S i) with (i + 1)%nat by lia. rewrite outside_eq by lia. unfold K. simpl. lia.
  - simpl. exact IH.
  - assert (Hok : licensed (DBin k c hl l r)) by (constructor; assumption).
    apply span_ok in Hok. cbn [out_inh AStar.out_inh out_score].
    rewrite !outside_eq by (simpl in *; lia). unfold K. lia.
Qed.

Definition nf (d : deriv) : @item C := {| ifin := false; ider := d |}.
Definition fi (d : deriv) : @item C := {| ifin := true; ider := d |}.
Notation prio := (prio n tag dep besttag bestdep pen true).

Lemma prio_nf d : licensed d -> prio (nf d) = K - loss d.
Proof. intros H. unfold prio, AStar.prio. simpl. rewrite (ins_loss d H), (out_inh_eq d H). lia. Qed.

Definition root_loss (d : deriv) : Z := bestdep (dhead d) - dep (dhead d) 0.

Lemma prio_fi d : licensed d -> dstart d = 0%nat -> dlen d = n -> prio (fi d) = K - (loss d + root_loss d).
Proof.
  intros H Hs Hl. unfold prio, AStar.prio. simpl. rewrite (ins_loss d H). rewrite Hs, Hl. unfold K, root_loss. lia.
Qed.

Lemma root_loss_nonneg d : 0 <= root_loss d.
Proof. unfold root_loss. specialize (dep_le (dhead d) 0%nat). lia. Qed.

End Loss.
