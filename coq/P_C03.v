(* C03 - English combinatory rules are sound (and complete on identical matched parts).  Property theorems only.
   The combinators `GenEn.combinators` / `GenEn.apply_binary_rules` are regenerated from depccg/grammar/en.py on every
   run (translate/gen_grammar.py); the schemata `Justified_en` are in EnSpec.v; the proofs in EnSound.v.
   `kc` erases the feature names of GenEn.key_clear - the rules see the categories with 'nb' erased. *)
From Coq Require Import List NArith Bool.
Import ListNotations.
Require Import Cat CatFacts Unify GramPrims GenTables GenEn EnSpec EnLemmas EnSound.
Open Scope N_scope.

Notation kc := (clear_features GenEn.key_clear).

(* every result is an instance of the schema its label names *)
Theorem C03_en_sound : forall x y rs r, wf puncts x -> wf puncts y -> one_system x y ->
  GenEn.apply_binary_rules x y None = Ok_ rs -> In r rs -> Justified_en r (kc x) (kc y).
Proof. exact en_sound. Qed.

(* the head is always the left child *)
Theorem C03_en_head_left : forall x y rs r, wf puncts x -> wf puncts y -> one_system x y ->
  GenEn.apply_binary_rules x y None = Ok_ rs -> In r rs -> head_is_left r = true.
Proof. exact en_head_left. Qed.

(* no result labelled bx / gbx when the composed-over category (the argument of the right functor) is a bare N or NP *)
Theorem C03_bx_never_over_N_NP : forall x y rs r, wf puncts x -> wf puncts y -> one_system x y ->
  GenEn.apply_binary_rules x y None = Ok_ rs -> In r rs -> op_string r = l_bx \/ op_string r = l_gbx ->
  forall a s b, kc y = Fun a s b -> ~ bare_N_NP b.
Proof. exact bx_never_over_N_NP. Qed.

(* conversely: a schema whose premises hold with identical matched parts yields its result.
   (A modifier functor returns the other category itself, so the result keeps that category's slashes.) *)
Theorem C03_en_complete_fa : forall a s b, wf puncts (Fun a s b) -> unary_sys (Fun a s b) -> fwd s ->
  exists rs r, GenEn.apply_binary_rules (Fun a s b) b None = Ok_ rs /\ In r rs /\ rcat r = kc a /\ labelled r l_fa y_fa.
Proof. exact en_complete_fa. Qed.

Theorem C03_en_complete_ba : forall a s b, wf puncts (Fun a s b) -> unary_sys (Fun a s b) -> bwd s ->
  exists rs r, GenEn.apply_binary_rules b (Fun a s b) None = Ok_ rs /\ In r rs /\ rcat r = kc a /\ labelled r l_ba y_ba.
Proof. exact en_complete_ba. Qed.

Theorem C03_en_complete_fc : forall a s1 b s2 c, wf puncts (Fun a s1 b) -> wf puncts (Fun b s2 c) ->
  unary_sys (Fun a s1 b) -> unary_sys (Fun b s2 c) -> fwd s1 -> fwd s2 ->
  exists rs r, GenEn.apply_binary_rules (Fun a s1 b) (Fun b s2 c) None = Ok_ rs /\ In r rs /\
               rcat r = (if cat_eqb (kc a) (kc b) then Fun (kc b) s2 (kc c) else Fun (kc a) sl (kc c)) /\ labelled r l_fc y_fc.
Proof. exact en_complete_fc. Qed.

Theorem C03_en_complete_bx : forall b s1 c a s2, wf puncts (Fun b s1 c) -> wf puncts (Fun a s2 b) ->
  unary_sys (Fun b s1 c) -> unary_sys (Fun a s2 b) -> fwd s1 -> bwd s2 -> ~ bare_N_NP (kc b) ->
  exists rs r, GenEn.apply_binary_rules (Fun b s1 c) (Fun a s2 b) None = Ok_ rs /\ In r rs /\
               rcat r = (if cat_eqb (kc a) (kc b) then Fun (kc b) s1 (kc c) else Fun (kc a) sl (kc c)) /\ labelled r l_bx y_bx.
Proof. exact en_complete_bx. Qed.

Theorem C03_en_complete_gfc : forall a s1 b s2 c s3 d, wf puncts (Fun a s1 b) -> wf puncts (Fun (Fun b s2 c) s3 d) ->
  unary_sys (Fun a s1 b) -> unary_sys (Fun (Fun b s2 c) s3 d) -> fwd s1 -> fwd s2 ->
  exists rs r, GenEn.apply_binary_rules (Fun a s1 b) (Fun (Fun b s2 c) s3 d) None = Ok_ rs /\ In r rs /\
               rcat r = (if cat_eqb (kc a) (kc b) then Fun (Fun (kc b) s2 (kc c)) s3 (kc d) else Fun (Fun (kc a) sl (kc c)) s3 (kc d)) /\
               labelled r l_gfc y_fc.
Proof. exact en_complete_gfc. Qed.

Theorem C03_en_complete_gbx : forall b s1 c s3 d a s2, wf puncts (Fun (Fun b s1 c) s3 d) -> wf puncts (Fun a s2 b) ->
  unary_sys (Fun (Fun b s1 c) s3 d) -> unary_sys (Fun a s2 b) -> fwd s1 -> bwd s2 -> ~ bare_N_NP (kc b) ->
  exists rs r, GenEn.apply_binary_rules (Fun (Fun b s1 c) s3 d) (Fun a s2 b) None = Ok_ rs /\ In r rs /\
               rcat r = (if cat_eqb (kc a) (kc b) then Fun (Fun (kc b) s1 (kc c)) s3 (kc d) else Fun (Fun (kc a) sl (kc c)) s3 (kc d)) /\
               labelled r l_gbx y_bx.
Proof. exact en_complete_gbx. Qed.

Theorem C03_en_complete_conj : forall x y, wf puncts y -> unary_sys y -> In x [c_comma; c_semi; c_conj] ->
  ~ punct_cat (kc y) -> ~ type_raised (kc y) ->
  exists rs r, GenEn.apply_binary_rules x y None = Ok_ rs /\ In r rs /\ rcat r = Fun (kc y) bs (kc y) /\ labelled r l_conj y_conj.
Proof. exact en_complete_conj. Qed.

Theorem C03_en_complete_lp : forall x y, wf puncts x -> wf puncts y -> one_system x y -> punct_cat (kc x) ->
  exists rs r, GenEn.apply_binary_rules x y None = Ok_ rs /\ In r rs /\ rcat r = kc y /\ labelled r l_lp y_lp.
Proof. exact en_complete_lp. Qed.

Theorem C03_en_complete_rp : forall x y, wf puncts x -> wf puncts y -> one_system x y -> punct_cat (kc y) ->
  exists rs r, GenEn.apply_binary_rules x y None = Ok_ rs /\ In r rs /\ rcat r = kc x /\ labelled r l_rp y_rp.
Proof. exact en_complete_rp. Qed.

(* ---------- non-vacuity and readability: the names, the hypotheses, the statements on concrete values ---------- *)
Example key_clear_is_nb : GenEn.key_clear = [[110; 98]].                 (* 'nb' *)
Proof. reflexivity. Qed.
Example listed_texts :
  map show [c_comma; c_semi; c_conj; c_LQU; c_LRB; c_N; c_NP; c_S_dcl; c_Sem_Sem; c_NP_NP; c_Sng_NP; c_Spss_NP; c_Sdcl_Sdcl; c_VP_bs_VP; c_VP_sl_VP] =
  [[44]; [59]; [99;111;110;106]; [76;81;85]; [76;82;66]; [78]; [78;80]; [83;91;100;99;108;93];
   [83;91;101;109;93;92;83;91;101;109;93]; [78;80;92;78;80]; [83;91;110;103;93;92;78;80]; [83;91;112;115;115;93;92;78;80];
   [83;91;100;99;108;93;47;83;91;100;99;108;93];
   [40;83;92;78;80;41;92;40;83;92;78;80;41]; [40;83;92;78;80;41;47;40;83;92;78;80;41]].
Proof. vm_compute. reflexivity. Qed.

(* (S[X]\NP[nb])/NP[X]  applied to  NP[dcl]  =>  S[dcl]\NP  labelled fa: 'nb' erased, X instantiated from the argument *)
Definition ex_x : cat := Fun (Fun (Atom n_S f_X) bs (Atom n_NP f_nb)) sl (Atom n_NP f_X).
Definition ex_y : cat := Atom n_NP f_dcl.
Example ex_wf : wf puncts ex_x /\ wf puncts ex_y /\ one_system ex_x ex_y.
Proof.
  split; [apply wfb_ok; vm_compute; reflexivity|]. split; [apply wfb_ok; vm_compute; reflexivity|].
  split; apply unary_sysb_ok; vm_compute; reflexivity.
Qed.
Example ex_fires : GenEn.apply_binary_rules ex_x ex_y None =
  Ok_ [{| rcat := Fun (Atom n_S f_dcl) bs (Atom n_NP FNone); op_string := l_fa; op_symbol := y_fa; head_is_left := true |}].
Proof. vm_compute. reflexivity. Qed.
(* the repaired generalised backward composition: a forward secondary functor no longer composes to its left *)
Example ex_gbx_needs_backslash :
  let S := Atom n_S FNone in let NP := Atom n_NP FNone in let PP := Atom [80;80] FNone in let VP := Atom [86;80] FNone in
  GenEn.apply_binary_rules (Fun (Fun S sl NP) sl PP) (Fun VP sl S) None = Ok_ [] /\
  GenEn.apply_binary_rules (Fun (Fun S sl NP) sl PP) (Fun VP bs S) None =
    Ok_ [{| rcat := Fun (Fun VP sl NP) sl PP; op_string := l_gbx; op_symbol := y_bx; head_is_left := true |}].
Proof. vm_compute. split; reflexivity. Qed.
(* `not (y ^ "NP\\NP")` compares a category with a string and is always true: conj NP\NP yields both conj results
   (accepted inside the schema: J_conj and J_conj_NP) *)
Example ex_conj_both : GenEn.apply_binary_rules c_conj c_NP_NP None =
  Ok_ [{| rcat := Fun c_NP_NP bs c_NP_NP; op_string := l_conj; op_symbol := y_conj; head_is_left := true |};
       {| rcat := c_NP_NP; op_string := l_conj; op_symbol := y_conj; head_is_left := true |}].
Proof. vm_compute. reflexivity. Qed.
(* FINDING (reported, not counted against C03_bx_never_over_N_NP as stated): the N/NP restriction looks only at the argument
   of the right functor after matching.  When that argument carries a feature the rule fires although the LEFT functor
   composes over a bare NP:   NP[nb]/N  S[dcl]\NP[expl]  =>  S[dcl]/N  labelled bx   (en.py:92, en.py:121) *)
Theorem C03_bx_left_functor_bare_refuted :
  exists x y rs r, wf puncts x /\ wf puncts y /\ one_system x y /\ GenEn.apply_binary_rules x y None = Ok_ rs /\ In r rs /\
                   op_string r = l_bx /\ exists b s c, kc x = Fun b s c /\ bare_N_NP b.
Proof.
  exists (Fun (Atom n_NP f_nb) sl c_N), (Fun c_S_dcl bs (Atom n_NP (FUn [101;120;112;108]))).
  eexists. eexists. split; [apply wfb_ok; vm_compute; reflexivity|]. split; [apply wfb_ok; vm_compute; reflexivity|].
  split; [split; apply unary_sysb_ok; vm_compute; reflexivity|]. split; [vm_compute; reflexivity|].
  split; [left; reflexivity|]. split; [reflexivity|]. exists c_NP, sl, c_N. split; [vm_compute; reflexivity | right; reflexivity].
Qed.
