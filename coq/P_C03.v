(* C03 - placeholder while the proofs are being written *)
Require Import GenEn.
